(* Proofs/NavLinks.v -- the link accessors of Node (parent, prev/next sibling, first/last child,
   has_children, descendants) on the arena of a tree are the tree functions. *)
From Coq Require Import List NArith Bool Lia ZifyBool ZifyN ZifyNat.
From RX.Model Require Import Base Doc Builder Api.
From RX.Spec Require Import Tree Deque.
From RX.Proofs Require Import NavEnc.
Import ListNotations.
Open Scope N_scope.

Definition kind_of (k : node_kind) : kind :=
  match k with KRoot => KdRoot | KElement _ _ _ _ => KdElem | KPI _ _ => KdPI
             | KComment _ => KdComment | KText _ => KdText end.
Definition links_of_nodes (ns : list node_data) : list links :=
  map (fun nd => {| l_kind := kind_of (nd_kind nd); l_parent := nd_parent nd;
                    l_prev := nd_prev_sibling nd; l_last := nd_last_child nd;
                    l_next_subtree := nd_next_subtree nd |}) ns.
Definition Arena (d : document) (t : tree) : Prop :=
  links_of_nodes (d_nodes d) = encode t /\ size t < 4294967295.
(* the pre-order table of t: (id, parent id, subtree) *)
Definition table (t : tree) := nodes_of None 0 t.
(* siblings of a node: the child ids of its parent (the node alone for the root) *)
Definition sibling_ids (t : tree) (id : N) (par : option N) : list N :=
  match par with
  | None => [id]
  | Some p => match find (fun e => fst (fst e) =? p) (table t) with
              | Some (_, _, T _ cs) => child_ids (p + 1) cs
              | None => []
              end
  end.
Fixpoint before {A} (eqb : A -> A -> bool) (x : A) (l : list A) : list A :=   (* items strictly before x *)
  match l with [] => [] | y :: r => if eqb y x then [] else y :: before eqb x r end.
Fixpoint after {A} (eqb : A -> A -> bool) (x : A) (l : list A) : list A :=    (* items strictly after x *)
  match l with [] => [] | y :: r => if eqb y x then r else after eqb x r end.

(* The same with the non-strict bound: an arena may hold exactly u32::MAX nodes (ids
   0 .. u32::MAX - 1).  Everything below is proved for [Arena'] (primed names); the theorems
   for [Arena] are corollaries at the end of each file. *)
Definition Arena' (d : document) (t : tree) : Prop :=
  links_of_nodes (d_nodes d) = encode t /\ size t <= 4294967295.

Lemma Arena_weaken d t : Arena d t -> Arena' d t.
Proof. intros [H1 H2]. split; [exact H1 | lia]. Qed.

(* ------------------------------------------------------------------ *)
(* before / after on a list without duplicates *)
Lemma before_split x pre post :
  ~ In x pre -> before N.eqb x (pre ++ x :: post) = pre.
Proof.
  induction pre as [|y pre IH]; intros Hn; cbn [app before].
  - rewrite N.eqb_refl. reflexivity.
  - destruct (y =? x) eqn:E.
    + apply N.eqb_eq in E. exfalso. apply Hn. left. exact E.
    + rewrite IH; [reflexivity|]. intros Hin. apply Hn. right. exact Hin.
Qed.

Lemma after_split x pre post :
  ~ In x pre -> after N.eqb x (pre ++ x :: post) = post.
Proof.
  induction pre as [|y pre IH]; intros Hn; cbn [app after].
  - rewrite N.eqb_refl. reflexivity.
  - destruct (y =? x) eqn:E.
    + apply N.eqb_eq in E. exfalso. apply Hn. left. exact E.
    + apply IH. intros Hin. apply Hn. right. exact Hin.
Qed.

Lemma NoDup_app_notin {A} (pre : list A) x post : NoDup (pre ++ x :: post) -> ~ In x pre.
Proof.
  intros ND Hin. apply NoDup_remove_2 in ND. apply ND. apply in_or_app. left. exact Hin.
Qed.

(* ------------------------------------------------------------------ *)
(* table: ids, lookup *)
Theorem table_ids : forall t,
  map (fun e => fst (fst e)) (table t) = N_range 0 (N.to_nat (size t)).
Proof.
  intros t. unfold table. rewrite table_table', map_map.
  rewrite <- (rows_ids t None None 0). apply map_ext.
  intros [[[i p] pv] s]. reflexivity.
Qed.
Print Assumptions table_ids.

Lemma find_unique {A} (f : A -> N) (l : list A) x p :
  NoDup (map f l) -> In x l -> f x = p -> find (fun e => f e =? p) l = Some x.
Proof.
  induction l as [|a l IH]; cbn [map In find]; intros ND Hin E; [contradiction|].
  inversion ND as [|? ? Hn ND']; subst.
  destruct (f a =? f x) eqn:Ea.
  - apply N.eqb_eq in Ea. destruct Hin as [-> | Hin]; [reflexivity|].
    exfalso. apply Hn. rewrite Ea. apply in_map. exact Hin.
  - destruct Hin as [-> | Hin].
    + rewrite N.eqb_refl in Ea. discriminate.
    + apply IH; auto.
Qed.

Lemma table_find t p pp sp :
  In (p, pp, sp) (table t) ->
  find (fun e => fst (fst e) =? p) (table t) = Some (p, pp, sp).
Proof.
  intros Hin.
  apply (find_unique (fun e : N * option N * tree => fst (fst e)) (table t) (p, pp, sp) p).
  - rewrite table_ids. apply N_range_NoDup.
  - exact Hin.
  - reflexivity.
Qed.

Lemma in_table_table'' t id par s :
  In (id, par, s) (table t) -> exists pv, In (id, par, pv, s) (table' t).
Proof. apply in_table_table'. Qed.

Lemma in_table'_table' t id par pv s :
  In (id, par, pv, s) (table' t) -> In (id, par, s) (table t).
Proof. apply in_table'_table. Qed.

(* ------------------------------------------------------------------ *)
(* siblings *)
Lemma last_id_snoc l : forall prev cid s, last_id prev cid (l ++ [s]) = Some (cid + sizes l).
Proof.
  induction l as [|c r IH]; intros prev cid s; cbn [app last_id].
  - rewrite sizes_nil. f_equal. lia.
  - rewrite IH, sizes_cons. f_equal. lia.
Qed.

Lemma child_ids_split f cs y :
  In y (child_ids f cs) -> exists l1 c l2, cs = l1 ++ c :: l2 /\ y = f + sizes l1.
Proof.
  revert f; induction cs as [|c r IH]; intros f; cbn [child_ids In]; [tauto|].
  intros [E | Hin].
  - exists [], c, r. split; [reflexivity|]. rewrite sizes_nil. lia.
  - apply IH in Hin. destruct Hin as (l1 & c' & l2 & E & Ey).
    exists (c :: l1), c', l2. split; [subst; reflexivity|]. rewrite sizes_cons. lia.
Qed.

(* every child id of a row is itself a row *)
Lemma table'_child_id t id par pv s y :
  In (id, par, pv, s) (table' t) -> In y (child_ids (id + 1) (tchildren s)) ->
  exists pvy sy, In (y, Some id, pvy, sy) (table' t).
Proof.
  intros Hin Hy. destruct s as [k cs]. cbn [tchildren] in Hy.
  apply child_ids_split in Hy. destruct Hy as (l1 & c & l2 & E & Ey). subst cs.
  apply table'_child in Hin. subst y. eauto.
Qed.

(* a row with a parent: its sibling list *)
Lemma table'_siblings t id p pv s :
  In (id, Some p, pv, s) (table' t) ->
  exists pp ppv k l1 l2,
    In (p, pp, ppv, T k (l1 ++ s :: l2)) (table' t) /\
    id = p + 1 + sizes l1 /\
    pv = hd_error (rev (child_ids (p + 1) l1)) /\
    sibling_ids t id (Some p) = child_ids (p + 1) l1 ++ id :: child_ids (id + size s) l2 /\
    before N.eqb id (sibling_ids t id (Some p)) = child_ids (p + 1) l1 /\
    after N.eqb id (sibling_ids t id (Some p)) = child_ids (id + size s) l2.
Proof.
  intros Hin. destruct (table'_parent _ _ _ _ _ Hin) as (pp & ppv & k & l1 & l2 & Hp & Eid & Epv).
  exists pp, ppv, k, l1, l2.
  assert (Es : sibling_ids t id (Some p) = child_ids (p + 1) l1 ++ id :: child_ids (id + size s) l2).
  { unfold sibling_ids. rewrite (table_find t p pp (T k (l1 ++ s :: l2))).
    - rewrite child_ids_app. cbn [child_ids]. subst id. reflexivity.
    - eapply in_table'_table'. exact Hp. }
  assert (Hn : ~ In id (child_ids (p + 1) l1)).
  { apply (NoDup_app_notin _ _ (child_ids (id + size s) l2)). rewrite <- Es.
    unfold sibling_ids. rewrite (table_find t p pp (T k (l1 ++ s :: l2))).
    - apply child_ids_NoDup.
    - eapply in_table'_table'. exact Hp. }
  repeat split; auto.
  - rewrite Epv. apply last_id_None.
  - rewrite Es. apply before_split. exact Hn.
  - rewrite Es. apply after_split. exact Hn.
Qed.

(* the next sibling's row *)
Lemma table'_next_sibling t p pp ppv k l1 s c l2 :
  In (p, pp, ppv, T k (l1 ++ s :: c :: l2)) (table' t) ->
  In (p + 1 + sizes l1 + size s, Some p, Some (p + 1 + sizes l1), c) (table' t).
Proof.
  intros Hin.
  replace (l1 ++ s :: c :: l2) with ((l1 ++ [s]) ++ c :: l2) in Hin
    by (rewrite <- app_assoc; reflexivity).
  apply table'_child in Hin.
  rewrite last_id_snoc, sizes_app, sizes_cons, sizes_nil in Hin.
  replace (p + 1 + (sizes l1 + (size s + 0))) with (p + 1 + sizes l1 + size s) in Hin by lia.
  exact Hin.
Qed.

(* the row at [next_subtree] has a previous sibling, which is the node or one of its ancestors *)
Lemma next_subtree_prev t : forall x px pvx sx,
  In (x, px, pvx, sx) (table' t) -> x + size sx < size t ->
  exists pm a sm, In (x + size sx, pm, Some a, sm) (table' t) /\ a <= x.
Proof.
  intros x. induction x as [x IH] using (well_founded_induction N.lt_wf_0).
  intros px pvx sx Hin Hlt.
  destruct px as [p|].
  - destruct (table'_parent _ _ _ _ _ Hin) as (pp & ppv & k & l1 & l2 & Hp & Eid & Epv).
    destruct l2 as [|c l2].
    + assert (Hpx : p < x) by lia.
      assert (Em : x + size sx = p + size (T k (l1 ++ [sx]))).
      { rewrite size_T, sizes_app, sizes_cons, sizes_nil. lia. }
      rewrite Em in Hlt |- *.
      destruct (IH p Hpx _ _ _ Hp Hlt) as (pm & a & sm & Hm & Ha).
      exists pm, a, sm. split; [exact Hm | lia].
    + apply table'_next_sibling in Hp. rewrite <- Eid in Hp.
      exists (Some p), x, c. split; [exact Hp | lia].
  - apply table'_root in Hin. destruct Hin as (E1 & E2 & E3). subst. lia.
Qed.

(* ------------------------------------------------------------------ *)
(* the arena *)
Lemma arena_len d t : Arena' d t -> len_N (d_nodes d) = size t.
Proof.
  intros [HA _]. unfold len_N.
  assert (E : length (d_nodes d) = length (encode t)).
  { rewrite <- HA. unfold links_of_nodes. rewrite map_length. reflexivity. }
  rewrite E, encode_length. lia.
Qed.

Lemma arena_get d t id par pv s :
  Arena' d t -> In (id, par, pv, s) (table' t) ->
  exists nd, get_node d id = Some nd /\
    nd_parent nd = par /\ nd_prev_sibling nd = pv /\
    nd_last_child nd = last_child_id (id + 1) (tchildren s) /\
    nd_next_subtree nd = (if id + size s <? size t then Some (id + size s) else None).
Proof.
  intros HA Hin. pose proof (arena_len _ _ HA) as Hlen. destruct HA as [HA _].
  pose proof (table'_bounds _ _ _ _ _ Hin) as Hb. pose proof (size_pos s) as Hs.
  pose proof (encode_row _ _ _ _ _ Hin) as Hrow.
  rewrite <- HA in Hrow. unfold links_of_nodes in Hrow. rewrite nth_error_map in Hrow.
  unfold get_node, nth_N. rewrite Hlen.
  destruct (size t <=? id) eqn:E; [apply N.leb_le in E; lia|].
  destruct (nth_error (d_nodes d) (N.to_nat id)) as [nd|]; cbn [option_map] in Hrow; [|discriminate].
  exists nd. split; [reflexivity|].
  injection Hrow as _ E2 E3 E4 E5. cbn [link_of] in *. auto.
Qed.

Lemma arena_node_unwrap d t id par pv s :
  Arena' d t -> In (id, par, pv, s) (table' t) -> node_unwrap d id = Ok id.
Proof.
  intros HA Hin. destruct (arena_get _ _ _ _ _ _ HA Hin) as (nd & Hg & _).
  unfold node_unwrap. rewrite Hg. reflexivity.
Qed.

Lemma last_child_id_cons f c r : exists y, last_child_id f (c :: r) = Some y.
Proof.
  revert f c; induction r as [|c2 r IH]; intros f c.
  - exists f. reflexivity.
  - destruct (IH (f + size c) c2) as [y Hy]. exists y. exact Hy.
Qed.

(* ------------------------------------------------------------------ *)
(* main theorems *)
Theorem nav_parent' : forall d t id par s,
  Arena' d t -> In (id, par, s) (table t) -> parent d id = Ok par.
Proof.
  intros d t id par s HA Hin. apply in_table_table'' in Hin. destruct Hin as [pv Hin].
  destruct (arena_get _ _ _ _ _ _ HA Hin) as (nd & Hg & Hpar & _).
  unfold parent, node_data_of. rewrite Hg. cbn [bind]. rewrite Hpar.
  destruct par as [p|]; cbn [opt_unwrap_node]; [|reflexivity].
  destruct (table'_parent _ _ _ _ _ Hin) as (pp & ppv & k & l1 & l2 & Hp & _).
  rewrite (arena_node_unwrap _ _ _ _ _ _ HA Hp). reflexivity.
Qed.
Print Assumptions nav_parent'.

Theorem nav_has_children' : forall d t id par s,
  Arena' d t -> In (id, par, s) (table t) ->
  has_children d id = Ok (negb (match tchildren s with [] => true | _ => false end)).
Proof.
  intros d t id par s HA Hin. apply in_table_table'' in Hin. destruct Hin as [pv Hin].
  destruct (arena_get _ _ _ _ _ _ HA Hin) as (nd & Hg & _ & _ & Hlast & _).
  unfold has_children, node_data_of. rewrite Hg. cbn [bind]. rewrite Hlast.
  destruct (tchildren s) as [|c r]; [reflexivity|].
  destruct (last_child_id_cons (id + 1) c r) as [y Hy]. rewrite Hy. reflexivity.
Qed.
Print Assumptions nav_has_children'.

Theorem nav_last_child' : forall d t id par s,
  Arena' d t -> In (id, par, s) (table t) ->
  last_child d id = Ok (hd_error (rev (child_ids (id + 1) (tchildren s)))).
Proof.
  intros d t id par s HA Hin. apply in_table_table'' in Hin. destruct Hin as [pv Hin].
  destruct (arena_get _ _ _ _ _ _ HA Hin) as (nd & Hg & _ & _ & Hlast & _).
  unfold last_child, node_data_of. rewrite Hg. cbn [bind]. rewrite Hlast, last_child_id_spec.
  destruct (hd_error (rev (child_ids (id + 1) (tchildren s)))) as [y|] eqn:Ey;
    cbn [opt_unwrap_node]; [|reflexivity].
  assert (Hy : In y (child_ids (id + 1) (tchildren s))).
  { apply in_rev. destruct (rev (child_ids (id + 1) (tchildren s))); [discriminate|].
    injection Ey as ->. left. reflexivity. }
  destruct (table'_child_id _ _ _ _ _ _ Hin Hy) as (pvy & sy & Hrow).
  rewrite (arena_node_unwrap _ _ _ _ _ _ HA Hrow). reflexivity.
Qed.
Print Assumptions nav_last_child'.

Theorem nav_first_child' : forall d t id par s,
  Arena' d t -> In (id, par, s) (table t) ->
  first_child d id = Ok (hd_error (child_ids (id + 1) (tchildren s))).
Proof.
  intros d t id par s HA Hin. apply in_table_table'' in Hin. destruct Hin as [pv Hin].
  destruct (arena_get _ _ _ _ _ _ HA Hin) as (nd & Hg & _ & _ & Hlast & _).
  unfold first_child, node_data_of. rewrite Hg. cbn [bind]. rewrite Hlast.
  destruct (tchildren s) as [|c r] eqn:Ecs; [reflexivity|].
  destruct (last_child_id_cons (id + 1) c r) as [y Hy]. rewrite Hy.
  cbn [child_ids hd_error].
  assert (Hc : In (id + 1) (child_ids (id + 1) (tchildren s))).
  { rewrite Ecs. left. reflexivity. }
  destruct (table'_child_id _ _ _ _ _ _ Hin Hc) as (pvy & sy & Hrow).
  pose proof (table'_bounds _ _ _ _ _ Hrow) as Hb. pose proof (size_pos sy) as Hs.
  destruct HA as [HA1 HA2].
  unfold node_id_new, u32_max.
  destruct (4294967295 <=? id + 1) eqn:E; [apply N.leb_le in E; lia|].
  cbn [bind]. rewrite (arena_node_unwrap _ _ _ _ _ _ (conj HA1 HA2) Hrow). reflexivity.
Qed.
Print Assumptions nav_first_child'.

Theorem nav_prev_sibling' : forall d t id par s,
  Arena' d t -> In (id, par, s) (table t) ->
  prev_sibling d id = Ok (hd_error (rev (before N.eqb id (sibling_ids t id par)))).
Proof.
  intros d t id par s HA Hin. apply in_table_table'' in Hin. destruct Hin as [pv Hin].
  destruct (arena_get _ _ _ _ _ _ HA Hin) as (nd & Hg & _ & Hprev & _).
  unfold prev_sibling, node_data_of. rewrite Hg. cbn [bind]. rewrite Hprev.
  destruct par as [p|].
  - destruct (table'_siblings _ _ _ _ _ Hin)
      as (pp & ppv & k & l1 & l2 & Hp & Eid & Epv & Es & Eb & Ea).
    rewrite Eb, <- Epv.
    destruct pv as [a|] eqn:Ea'; cbn [opt_unwrap_node]; [|reflexivity].
    assert (Hy : In a (child_ids (p + 1) (tchildren (T k (l1 ++ s :: l2))))).
    { cbn [tchildren]. rewrite child_ids_app. apply in_or_app. left.
      apply in_rev. destruct (rev (child_ids (p + 1) l1)); [discriminate|].
      injection Epv as ->. left. reflexivity. }
    destruct (table'_child_id _ _ _ _ _ _ Hp Hy) as (pvy & sy & Hrow).
    rewrite (arena_node_unwrap _ _ _ _ _ _ HA Hrow). reflexivity.
  - apply table'_root in Hin. destruct Hin as (E1 & E2 & E3). subst.
    cbn [sibling_ids before]. rewrite N.eqb_refl. reflexivity.
Qed.
Print Assumptions nav_prev_sibling'.

Theorem nav_next_sibling' : forall d t id par s,
  Arena' d t -> In (id, par, s) (table t) ->
  next_sibling d id = Ok (hd_error (after N.eqb id (sibling_ids t id par))).
Proof.
  intros d t id par s HA Hin. apply in_table_table'' in Hin. destruct Hin as [pv Hin].
  destruct (arena_get _ _ _ _ _ _ HA Hin) as (nd & Hg & _ & _ & _ & Hnext).
  unfold next_sibling, node_data_of. rewrite Hg. cbn [bind]. rewrite Hnext.
  destruct par as [p|].
  - destruct (table'_siblings _ _ _ _ _ Hin)
      as (pp & ppv & k & l1 & l2 & Hp & Eid & Epv & Es & Eb & Ea).
    rewrite Ea.
    destruct l2 as [|c l2].
    + (* last child: whatever sits at next_subtree has another previous sibling *)
      cbn [child_ids hd_error].
      destruct (id + size s <? size t) eqn:E; [apply N.ltb_lt in E | reflexivity].
      assert (Em : id + size s = p + size (T k (l1 ++ [s]))).
      { rewrite size_T, sizes_app, sizes_cons, sizes_nil. lia. }
      assert (Hlt : p + size (T k (l1 ++ [s])) < size t) by lia.
      destruct (next_subtree_prev _ _ _ _ _ Hp Hlt) as (pm & a & sm & Hm & Ha).
      rewrite <- Em in Hm.
      destruct (arena_get _ _ _ _ _ _ HA Hm) as (nnd & Hgm & _ & Hprevm & _).
      rewrite (arena_node_unwrap _ _ _ _ _ _ HA Hm). cbn [bind].
      rewrite Hgm. cbn [bind]. rewrite Hprevm.
      destruct (a =? id) eqn:Eai; [apply N.eqb_eq in Eai; lia | reflexivity].
    + cbn [child_ids hd_error].
      apply table'_next_sibling in Hp. rewrite <- Eid in Hp.
      pose proof (table'_bounds _ _ _ _ _ Hp) as Hb. pose proof (size_pos c) as Hs.
      destruct (id + size s <? size t) eqn:E; [|apply N.ltb_ge in E; lia].
      destruct (arena_get _ _ _ _ _ _ HA Hp) as (nnd & Hgm & _ & Hprevm & _).
      rewrite (arena_node_unwrap _ _ _ _ _ _ HA Hp). cbn [bind].
      rewrite Hgm. cbn [bind]. rewrite Hprevm, N.eqb_refl. reflexivity.
  - apply table'_root in Hin. destruct Hin as (E1 & E2 & E3). subst.
    cbn [sibling_ids after]. rewrite N.eqb_refl. cbn [hd_error].
    destruct (0 + size t <? size t) eqn:E; [apply N.ltb_lt in E; lia | reflexivity].
Qed.
Print Assumptions nav_next_sibling'.

Theorem nav_descendants' : forall d t id par s,
  Arena' d t -> In (id, par, s) (table t) ->
  descendants d id = Ok {| it_lo := id; it_hi := id + size s |}.
Proof.
  intros d t id par s HA Hin. apply in_table_table'' in Hin. destruct Hin as [pv Hin].
  destruct (arena_get _ _ _ _ _ _ HA Hin) as (nd & Hg & _ & _ & _ & Hnext).
  pose proof (table'_bounds _ _ _ _ _ Hin) as Hb.
  unfold descendants, node_data_of. rewrite Hg. cbn [bind]. rewrite Hnext.
  rewrite (arena_len _ _ HA).
  destruct (id + size s <? size t) eqn:E.
  - apply N.ltb_lt in E.
    destruct (id + size s <? id) eqn:E1; [apply N.ltb_lt in E1; lia|].
    destruct (size t <? id + size s) eqn:E2; [apply N.ltb_lt in E2; lia|].
    reflexivity.
  - apply N.ltb_ge in E. assert (Eq : size t = id + size s) by lia. rewrite <- Eq.
    destruct (size t <? id) eqn:E1; [apply N.ltb_lt in E1; lia|].
    rewrite N.ltb_irrefl. reflexivity.
Qed.
Print Assumptions nav_descendants'.

(* ------------------------------------------------------------------ *)
(* the theorems for [Arena] (strict bound) *)
Theorem nav_parent : forall d t id par s,
  Arena d t -> In (id, par, s) (table t) -> parent d id = Ok par.
Proof.
  intros *. intros HA. generalize (Arena_weaken _ _ HA). clear HA. apply nav_parent'.
Qed.
Print Assumptions nav_parent.

Theorem nav_has_children : forall d t id par s,
  Arena d t -> In (id, par, s) (table t) ->
  has_children d id = Ok (negb (match tchildren s with [] => true | _ => false end)).
Proof.
  intros *. intros HA. generalize (Arena_weaken _ _ HA). clear HA. apply nav_has_children'.
Qed.
Print Assumptions nav_has_children.

Theorem nav_last_child : forall d t id par s,
  Arena d t -> In (id, par, s) (table t) ->
  last_child d id = Ok (hd_error (rev (child_ids (id + 1) (tchildren s)))).
Proof.
  intros *. intros HA. generalize (Arena_weaken _ _ HA). clear HA. apply nav_last_child'.
Qed.
Print Assumptions nav_last_child.

Theorem nav_first_child : forall d t id par s,
  Arena d t -> In (id, par, s) (table t) ->
  first_child d id = Ok (hd_error (child_ids (id + 1) (tchildren s))).
Proof.
  intros *. intros HA. generalize (Arena_weaken _ _ HA). clear HA. apply nav_first_child'.
Qed.
Print Assumptions nav_first_child.

Theorem nav_prev_sibling : forall d t id par s,
  Arena d t -> In (id, par, s) (table t) ->
  prev_sibling d id = Ok (hd_error (rev (before N.eqb id (sibling_ids t id par)))).
Proof.
  intros *. intros HA. generalize (Arena_weaken _ _ HA). clear HA. apply nav_prev_sibling'.
Qed.
Print Assumptions nav_prev_sibling.

Theorem nav_next_sibling : forall d t id par s,
  Arena d t -> In (id, par, s) (table t) ->
  next_sibling d id = Ok (hd_error (after N.eqb id (sibling_ids t id par))).
Proof.
  intros *. intros HA. generalize (Arena_weaken _ _ HA). clear HA. apply nav_next_sibling'.
Qed.
Print Assumptions nav_next_sibling.

Theorem nav_descendants : forall d t id par s,
  Arena d t -> In (id, par, s) (table t) ->
  descendants d id = Ok {| it_lo := id; it_hi := id + size s |}.
Proof.
  intros *. intros HA. generalize (Arena_weaken _ _ HA). clear HA. apply nav_descendants'.
Qed.
Print Assumptions nav_descendants.

