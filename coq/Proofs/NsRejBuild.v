(* Proofs/NsRejBuild.v -- C06/C08, rejection half, the builder: the real callback [Parse.token] on
   the tokens of a start tag that violates a namespace rule answers the error of that rule
   ([start_tag_rej]).  The tokens before the violation are handled by the success lemmas of
   Proofs/CstNsBuild.v. *)
From Coq Require Import Ascii String.
From Coq Require Import List NArith PeanoNat Bool Lia ZifyBool ZifyN ZifyNat.
Import ListNotations.
From RX Require Import Generated.
From RX.Model Require Import Base CharClass Stream Tokenizer Doc Builder Parse.
From RX.Spec Require Cst Scope CstNs.
From RX.Proofs Require Import Tactics CstLex CstBuild CstNsLex CstNsView CstNsBuild CstNsTree NsRejDefs NsRejLex.
Open Scope N_scope.

Import CstNs.

(* ---- the error variant of each rule ---- *)
Definition rule_error (r : rule) (e : error) : bool :=
  match r, e with
  | ElemPrefixXmlns, InvalidElementNamePrefix _ => true
  | UnboundPrefix p, UnknownNamespace s _ => bytes_eqb s p
  | DeclXmlns, InvalidElementNamePrefix _ => true
  | XmlnsUriBound, UnexpectedXmlnsUri _ => true
  | XmlPrefixOtherUri, InvalidXmlPrefixUri _ => true
  | XmlUriOtherPrefix, UnexpectedXmlUri _ => true
  | DupPrefix p, DuplicatedNamespace s _ => bytes_eqb s p
  | DupDefault, DuplicatedAttribute s _ => bytes_eqb s xmlns_b
  | DupAttr l, DuplicatedAttribute s _ => bytes_eqb s l
  | _, _ => false
  end.

Definition is_ns_error (e : error) : bool :=
  match e with
  | InvalidElementNamePrefix _ | UnknownNamespace _ _ | UnexpectedXmlnsUri _ | InvalidXmlPrefixUri _
  | UnexpectedXmlUri _ | DuplicatedNamespace _ _ | DuplicatedAttribute _ _ => true
  | _ => false
  end.

Lemma rule_error_ns r e : rule_error r e = true -> is_ns_error e = true.
Proof. destruct r, e; cbn; try discriminate; reflexivity. Qed.

Lemma unbound_elem sc pb : is_bound (Scope.resolve_elem sc pb) = false ->
  pb <> [] /\ bytes_eqb pb ns_xml_prefix = false /\ Scope.lookup sc (Some pb) = None.
Proof.
  unfold Scope.resolve_elem. change Scope.bytes_eqb with bytes_eqb. change Scope.xml_prefix with ns_xml_prefix.
  destruct (bytes_eqb pb ns_xml_prefix); [cbn [is_bound]; intros Hf; discriminate Hf|].
  destruct pb as [|x pb]; [destruct (Scope.lookup sc None); cbn [is_bound]; intros Hf; discriminate Hf|].
  match goal with |- context [Scope.lookup sc ?k] => destruct (Scope.lookup sc k) end;
    [cbn [is_bound]; intros Hf; discriminate Hf|]. intros _. split; [discriminate|split; reflexivity].
Qed.

Lemma unbound_attr sc pb : is_bound (Scope.resolve_attr sc pb) = false ->
  pb <> [] /\ bytes_eqb pb ns_xml_prefix = false /\ Scope.lookup sc (Some pb) = None.
Proof.
  unfold Scope.resolve_attr. change Scope.bytes_eqb with bytes_eqb. change Scope.xml_prefix with ns_xml_prefix.
  destruct (bytes_eqb pb ns_xml_prefix); [cbn [is_bound]; intros Hf; discriminate Hf|].
  destruct pb as [|x pb]; [cbn [is_bound]; intros Hf; discriminate Hf|].
  match goal with |- context [Scope.lookup sc ?k] => destruct (Scope.lookup sc k) end;
    [cbn [is_bound]; intros Hf; discriminate Hf|]. intros _. split; [discriminate|split; reflexivity].
Qed.

Lemma attr_names_len es : length (attr_names es) = nea es.
Proof.
  unfold attr_names, nea. induction es as [|e es IH]; [reflexivity|]. cbn [flat_map filter].
  rewrite app_length, IH. destruct e; reflexivity.
Qed.

Section Rej.
Variable text : bytes.
Hypothesis Hascii : Forall (fun x => x < 128) text.
Variable D : list Scope.binding.
Hypothesis HD : forall l, NoDup l -> incl l D -> N.of_nat (length l) <= 65535.

Notation W := (CstLex.W text).
Notation ev := (tok_ev text).
Notation TI := (CstNsBuild.TI text D).
Notation CIn := (CstNsBuild.CIn text D).

(* on ASCII input the position of an error is always computable *)
Lemma err_from_asc {A} p mk : exists tp, @err_from text A p mk = Err (mk tp).
Proof.
  unfold err_from, gen_text_pos_from, gen_text_pos_at, floor_boundary. cbn [floor_boundary_fuel].
  assert (Hle : N.min p (tlen text) <= tlen text) by lia.
  rewrite !(boundary_ok text Hascii _ Hle).
  replace (tlen text <? N.min p (tlen text)) with false by lia. cbn [orb negb bind].
  eexists. reflexivity.
Qed.

(* ---- a declaration that violates N3-N6 ---- *)
Lemma tok_entry_rej q e more c start own1 rl :
  W q (r_entry e ++ more) -> syn_entry e = true -> entry_viol own1 e = Some rl -> TI start own1 c ->
  exists er, ev (entry_tok q e) c = Err er /\ rule_error rl er = true.
Proof.
  intros HW Hwf Hv T. destruct (entry_slices text D HD _ _ _ HW) as (S1 & S2 & S3).
  destruct (syn_entry_lex _ Hwf) as (_ & _ & _ & _ & _ & Hval & Hq).
  unfold tok_ev, Parse.token, entry_tok. cbv zeta. cbn [token_with].
  unfold ta_e in S1, S2, S3. cbv zeta in S1, S2, S3. cbn [ta_prefix ta_local ta_value storage_bytes str_bytes] in S1, S2, S3.
  unfold process_attribute, normalize_attribute. cbv zeta. rewrite S3.
  rewrite (value_no_refs D HD _ _ Hval). cbn [bind storage_bytes str_bytes]. rewrite S1, S2, S3.
  destruct e as [l n v|l p u]; [discriminate|]. cbn [e_qname e_value e_layout] in *.
  destruct T as [T1 T2 T3 T4 T5].
  unfold entry_viol in Hv.
  change Scope.bytes_eqb with bytes_eqb in Hv. change xmlns_uri with ns_xmlns_uri in Hv.
  change Scope.xml_uri with ns_xml_uri in Hv. change Scope.xml_prefix with ns_xml_prefix in Hv.
  change xmlns_b with xmlns_str in Hv.
  destruct p as [|x0 pr]; cbn [e_qname q_prefix q_local entry_viol] in *.
  - (* xmlns="u" *)
    change (bytes_eqb [] xmlns_str) with false. cbv iota.
    unfold slice_len. cbn [sl sl_start sl_end]. change (blen []) with 0.
    replace (q + blen (l_ws l) + 0 - (q + blen (l_ws l)) =? 0) with true by lia.
    change (bytes_eqb xmlns_b xmlns_str) with true. cbn [andb].
    destruct (bytes_eqb u ns_xml_uri).
    { injection Hv as <-. match goal with |- context [err_from text ?a ?m] => destruct (@err_from_asc context a m) as [tp E] end.
      rewrite E. eexists. split; reflexivity. }
    destruct (bytes_eqb u ns_xmlns_uri).
    { injection Hv as <-. match goal with |- context [err_from text ?a ?m] => destruct (@err_from_asc context a m) as [tp E] end.
      rewrite E. eexists. split; reflexivity. }
    rewrite T1. rewrite (SP.ns_exists_spec text (c_doc c) start None own1 T2 T4). cbn [bind].
    match type of Hv with context [declared own1 ?k] =>
      match goal with |- context [existsb ?f own1] => change (existsb f own1) with (declared own1 k) end;
      destruct (declared own1 k); [|discriminate] end.
    injection Hv as <-. match goal with |- context [err_from text ?a ?m] => destruct (@err_from_asc context a m) as [tp E] end.
    rewrite E. eexists. split; reflexivity.
  - (* xmlns:p="u" *)
    set (p := x0 :: pr) in *.
    change (bytes_eqb xmlns_b xmlns_str) with true. cbv iota.
    destruct (bytes_eqb p xmlns_str).
    { injection Hv as <-. match goal with |- context [err_from text ?a ?m] => destruct (@err_from_asc context a m) as [tp E] end.
      rewrite E. eexists. split; reflexivity. }
    destruct (bytes_eqb u ns_xmlns_uri).
    { injection Hv as <-. match goal with |- context [err_from text ?a ?m] => destruct (@err_from_asc context a m) as [tp E] end.
      rewrite E. eexists. split; reflexivity. }
    destruct (bytes_eqb p ns_xml_prefix).
    { destruct (bytes_eqb u ns_xml_uri); [discriminate|]. cbn [negb andb].
      injection Hv as <-. match goal with |- context [err_from text ?a ?m] => destruct (@err_from_asc context a m) as [tp E] end.
      rewrite E. eexists. split; reflexivity. }
    cbn [negb andb].
    destruct (bytes_eqb u ns_xml_uri).
    { injection Hv as <-. match goal with |- context [err_from text ?a ?m] => destruct (@err_from_asc context a m) as [tp E] end.
      rewrite E. eexists. split; reflexivity. }
    rewrite T1.
    assert (Hex : ns_exists text (c_doc c) start (@Some bytes p) =
                  Ok (existsb (fun o : Scope.binding => Scope.prefix_eqb (fst o) (Some p)) own1))
      by exact (SP.ns_exists_spec text (c_doc c) start (Some p) own1 T2 T4).
    rewrite Hex. clear Hex. cbn [bind].
    match type of Hv with context [declared own1 ?k] =>
      match goal with |- context [existsb ?f own1] => change (existsb f own1) with (declared own1 k) end;
      destruct (declared own1 k); [|discriminate] end.
    injection Hv as <-. match goal with |- context [err_from text ?a ?m] => destruct (@err_from_asc context a m) as [tp E] end.
    rewrite E. eexists. split; [reflexivity|]. cbn [rule_error]. apply bytes_eqb_refl.
Qed.

Lemma entry_toks_app : forall es1 es2 q,
  entry_toks q (es1 ++ es2) = entry_toks q es1 ++ entry_toks (q + blen (flat_map r_entry es1)) es2.
Proof.
  induction es1 as [|e es1 IH]; intros es2 q; cbn [app entry_toks flat_map].
  - rewrite blen_nil, N.add_0_r. reflexivity.
  - rewrite IH, blen_app, N.add_assoc. reflexivity.
Qed.

(* the declarations up to the first violation are stored, the violating one is refused *)
Lemma entries_rej more es q c start rl :
  W q (flat_map r_entry es ++ more) -> forallb syn_entry es = true ->
  entries_viol [] es = Some rl -> incl (own_bindings es) D -> TI start [] c ->
  exists er, evs context ev (entry_toks q es) c = Err er /\ rule_error rl er = true.
Proof.
  intros HW Hsyn Hv HinD T.
  destruct (entries_viol_split _ _ _ Hv) as (es1 & e & es2 & -> & Hv1 & Hve). cbn [app] in Hve.
  rewrite forallb_app in Hsyn. apply andb_true_iff in Hsyn. destruct Hsyn as [Hs1 Hs2].
  cbn [forallb] in Hs2. apply andb_true_iff in Hs2. destruct Hs2 as [Hse _].
  destruct (entries_viol_none es1 [] eq_refl Hv1) as [Hn1 Hu1].
  assert (Hwf1 : forallb wf_entry es1 = true) by (rewrite wf_entries_split, Hs1, Hn1; reflexivity).
  rewrite flat_map_app in HW. cbn [flat_map] in HW. rewrite <- !app_assoc in HW.
  rewrite own_app in HinD.
  destruct (entries_evs text D HD _ es1 q c start [] HW Hwf1 Hu1) as (d1 & E1 & _ & _ & _ & T1 & _).
  { intros x Hx. apply HinD. apply in_or_app. left. exact Hx. }
  { exact T. }
  rewrite entry_toks_app, evs_app, E1. cbn [bind entry_toks evs].
  destruct (tok_entry_rej _ e _ _ start _ rl (W_app _ _ _ _ HW) Hse Hve T1) as (er & E & R).
  rewrite E. cbn [bind]. eauto.
Qed.

(* ---- the collected attributes: an unbound prefix (N2) or a repeated expanded name (N7) ---- *)
Definition tpl (t : temp_attr) : bytes * bytes :=
  (slice_bytes text (ta_prefix t), slice_bytes text (ta_local t)).

Lemma tas_names more : forall es q, W q (flat_map r_entry es ++ more) ->
  map tpl (tas_n q es) = attr_names es.
Proof.
  induction es as [|e es IH]; intros q HW; [reflexivity|].
  cbn [flat_map] in HW. rewrite <- app_assoc in HW. rewrite tas_cons, map_app, (IH _ (W_app _ _ _ _ HW)).
  unfold attr_names. cbn [flat_map]. f_equal.
  destruct (entry_slices text D HD _ _ _ HW) as (S1 & S2 & _).
  destruct e as [l n v|l pr u]; cbn [tas_n app map]; [|reflexivity].
  unfold tpl. rewrite S1, S2. reflexivity.
Qed.

Lemma resolve_attrs_loop_rej d0 nss sc start base :
  N.to_nat start = length base ->
  SP.bindings_of text d0 nss = Some sc -> fst nss <= snd nss -> snd nss <= len_N (d_ns_tree d0) ->
  nth_error (d_ns_values d0) 0 = Some xml_ns ->
  forall l acc names d rl, d_attrs d = base ++ acc ->
  d_nodes d = d_nodes d0 -> d_ns_values d = d_ns_values d0 -> d_ns_tree d = d_ns_tree d0 ->
  Forall2 (fun a en => ns_uri_opt text d0 (ad_ns_idx a) = Some (fst en) /\ slice_bytes text (ad_local a) = snd en) acc names ->
  pl_viol sc names (map tpl l) = Some rl ->
  exists er, resolve_attrs_loop text nss start l d = Err er /\ rule_error rl er = true.
Proof.
  intros Hs Hsc Hr1 Hr2 Hxml. induction l as [|t l IH]; intros acc names d rl Hd Hn Hv Ht Hacc Hviol;
    cbn [map pl_viol] in Hviol; [discriminate|]. cbn [resolve_attrs_loop].
  cbn [tpl fst snd] in Hviol. unfold tpl at 1 2 3 in Hviol. cbn [fst snd] in Hviol.
  set (pb := slice_bytes text (ta_prefix t)) in *.
  assert (Hsc' : SP.bindings_of text d nss = Some sc).
  { rewrite (bindings_of_same text d0 d nss Ht Hv). exact Hsc. }
  destruct (is_bound (Scope.resolve_attr sc pb)) eqn:Hb1.
  - (* bound: the expanded name is computed, then compared with the previous ones *)
    assert (Hidx : exists idx,
      (if bytes_eqb pb ns_xml_prefix then Ok (Some 0)
       else match pb with [] => Ok None | _ => get_ns_idx_by_prefix text nss (fst (ta_range t)) (ta_prefix t) d end) = Ok idx /\
      ns_uri_opt text d0 idx = Some (fst (tname text sc t))).
    { unfold tname. cbn [fst]. fold pb. unfold Scope.resolve_attr in *.
      change Scope.bytes_eqb with bytes_eqb in *. change Scope.xml_prefix with ns_xml_prefix in *.
      destruct (bytes_eqb pb ns_xml_prefix) eqn:Ex.
      - exists (Some 0). split; [reflexivity|]. unfold ns_uri_opt, nth_N.
        destruct (d_ns_values d0) as [|v0 vr]; [discriminate|]. cbn in Hxml. injection Hxml as ->.
        replace (len_N (xml_ns :: vr) <=? 0) with false by (unfold len_N; cbn [length]; lia). reflexivity.
      - destruct pb as [|x0 pr] eqn:Epb; [exists None; split; reflexivity|].
        destruct (get_ns_ns text D HD d nss sc (fst (ta_range t)) (ta_prefix t) Hsc' Hr1) as (r & Er & Eu).
        + rewrite Ht. exact Hr2.
        + rewrite Hv. exact Hxml.
        + fold pb. rewrite Epb. unfold Scope.resolve_elem. change Scope.bytes_eqb with bytes_eqb.
          change Scope.xml_prefix with ns_xml_prefix. rewrite Ex. exact Hb1.
        + exists r. split; [exact Er|]. unfold ns_uri_opt in *. rewrite Hv in Eu.
          fold pb in Eu. rewrite Epb in Eu. unfold Scope.resolve_elem in Eu. change Scope.bytes_eqb with bytes_eqb in Eu.
          change Scope.xml_prefix with ns_xml_prefix in Eu. rewrite Ex in Eu. exact Eu. }
    destruct Hidx as (idx & Eidx & Hu). rewrite Eidx. cbn [bind].
    assert (Hu' : ns_uri_opt text d idx = Some (fst (tname text sc t))) by (unfold ns_uri_opt in *; rewrite Hv; exact Hu).
    rewrite (aen_ok _ _ _ _ _ Hu'). cbn [bind].
    rewrite Hd, (skipn_base base acc) by exact Hs.
    rewrite (any_same_name_spec text d _ acc names).
    2:{ clear - Hacc Hv. induction Hacc as [|a en acc names [H1 H2] _ IH]; constructor; [|exact IH].
        split; [unfold ns_uri_opt in *; rewrite Hv; exact H1|exact H2]. }
    cbn [bind].
    match goal with |- context [if existsb ?f names then _ else _] =>
      change (existsb f names) with
        (existsb (fun x => ename_eqb x (ename_of sc (pb, slice_bytes text (ta_local t)))) names) end.
    destruct (existsb (fun x => ename_eqb x (ename_of sc (pb, slice_bytes text (ta_local t)))) names).
    + injection Hviol as <-.
      match goal with |- context [err_from text ?a ?m] => destruct (@err_from_asc document a m) as [tp E] end.
      rewrite E. eexists. split; [reflexivity|]. cbn [rule_error]. apply bytes_eqb_refl.
    + rewrite <- Hd.
      set (a := {| ad_ns_idx := idx; ad_local := ta_local t; ad_value := ta_value t; ad_range := ta_range t;
                   ad_qname_len := ta_qname_len t; ad_eq_len := ta_eq_len t |}).
      apply (IH (acc ++ [a]) (names ++ [ename_of sc (pb, slice_bytes text (ta_local t))]) (set_attrs d (d_attrs d ++ [a])) rl).
      * cbn [set_attrs d_attrs]. rewrite Hd, <- app_assoc. reflexivity.
      * exact Hn.
      * exact Hv.
      * exact Ht.
      * apply Forall2_app; [exact Hacc|]. constructor; [|constructor]. split; [exact Hu|reflexivity].
      * exact Hviol.
  - (* unbound *)
    injection Hviol as <-. destruct (unbound_attr _ _ Hb1) as (Hne & Hx & Hl).
    rewrite Hx. destruct pb as [|x0 pr] eqn:Epb; [congruence|]. rewrite <- Epb in *.
    unfold pb in Hne, Hx, Hl.
    rewrite (SP.unknown_prefix_err_from text d nss (fst (ta_range t)) (ta_prefix t) sc Hsc' Hr1
               ltac:(rewrite Ht; exact Hr2) Hne Hx Hl).
    match goal with |- context [err_from text ?a ?m] => destruct (@err_from_asc (option N) a m) as [tp E] end.
    rewrite E. cbn [bind]. eexists. split; [reflexivity|]. cbn [rule_error]. apply bytes_eqb_refl.
Qed.

Lemma resolve_attributes_rej nss sc c rl :
  SP.bindings_of text (c_doc c) nss = Some sc -> fst nss <= snd nss -> snd nss <= len_N (d_ns_tree (c_doc c)) ->
  nth_error (d_ns_values (c_doc c)) 0 = Some xml_ns ->
  pl_viol sc [] (map tpl (c_cur_attrs c)) = Some rl ->
  len_N (d_attrs (c_doc c)) + len_N (c_cur_attrs c) < u32_max ->
  exists er, resolve_attributes text nss c = Err er /\ rule_error rl er = true.
Proof.
  intros Hsc H1 H2 Hxml Hv Hlim. unfold resolve_attributes.
  destruct (c_cur_attrs c) as [|t l] eqn:El; [discriminate|].
  replace (u32_max <=? len_N (d_attrs (c_doc c)) + len_N (t :: l)) with false by lia.
  destruct (resolve_attrs_loop_rej (c_doc c) nss sc (len_N (d_attrs (c_doc c))) (d_attrs (c_doc c))
              ltac:(unfold len_N; lia) Hsc H1 H2 Hxml (t :: l) [] [] (c_doc c) rl) as (er & E & R);
    try reflexivity; try assumption.
  - rewrite app_nil_r. reflexivity.
  - constructor.
  - rewrite E. cbn [bind]. eauto.
Qed.

(* ------------------------------------------------------------------------------------------ *)
(* a start tag with a violation                                                               *)
(* ------------------------------------------------------------------------------------------ *)
Lemma start_tag_rej inh p name es ws_end empty post c rl :
  W p ([60] ++ r_qname name ++ flat_map r_entry es ++ ws_end ++ tag_tail empty ++ post) ->
  let own := own_bindings es in
  let sc := Scope.scope_of own inh in
  wf_qname name = true -> forallb syn_entry es = true ->
  tag_viol inh name es = Some rl ->
  incl own D -> CIn inh c ->
  len_N (d_attrs (c_doc c)) + N.of_nat (length (sem_attrs sc es)) < u32_max ->
  len_N (d_ns_tree (c_doc c)) + own_cost own sc <= u32_max ->
  let q' := p + 1 + blen (r_qname name) + blen (flat_map r_entry es) + blen ws_end in
  exists er,
    (let! c1 := evs context ev (start_toks_ns p name es) c in ev (end_tok q' empty) c1) = Err er /\
    rule_error rl er = true.
Proof.
  intros HW own sc Hn Hsyn Hviol HinD I Hlim Hns q'.
  pose proof (W_app _ _ _ _ HW) as HW1. change (blen [60]) with 1 in HW1.
  pose proof (W_app _ _ _ _ HW1) as HW2.
  destruct (qname_slices text D HD _ _ _ HW1) as [Sp Sl].
  unfold start_toks_ns. cbn [evs].
  (* ElementStart *)
  unfold tok_ev at 1, Parse.token at 1. cbn [token_with].
  rewrite reset_after_text_ok by apply (cn_at _ _ _ _ I). cbn [bind].
  rewrite Sp. unfold tag_viol in Hviol. cbv zeta in Hviol.
  change (Scope.bytes_eqb (q_prefix name) xmlns_b) with (bytes_eqb (q_prefix name) xmlns_str) in Hviol.
  destruct (bytes_eqb (q_prefix name) xmlns_str) eqn:N1.
  { (* N1 *)
    injection Hviol as <-.
    match goal with |- context [err_from text ?a ?m] => destruct (@err_from_asc context a m) as [tp E] end.
    rewrite E. cbn [bind]. eexists. split; reflexivity. }
  cbn [bind]. fold (tok_ev text). fold (tn_of_ns p name).
  set (c0 := set_tag_name (set_after_text c []) (tn_of_ns p name)).
  assert (T0 : TI (c_ns_start_idx c) [] c0).
  { constructor; cbn; try reflexivity.
    - rewrite (cn_ns _ _ _ _ I). lia.
    - apply (cn_inv _ _ _ _ I).
    - rewrite (cn_ns _ _ _ _ I). unfold SP.bindings_of. cbn [fst snd]. rewrite N.sub_diag. reflexivity.
    - constructor. }
  destruct (entries_viol [] es) as [x|] eqn:Eev.
  { (* N3-N6 *)
    injection Hviol as ->.
    destruct (entries_rej _ es _ c0 (c_ns_start_idx c) rl HW2 Hsyn Eev HinD T0) as (er & E & R).
    rewrite E. cbn [bind]. eauto. }
  destruct (entries_viol_none es [] eq_refl Eev) as [Hnse N6]. cbn [app] in N6.
  assert (Hwf : forallb wf_entry es = true) by (rewrite wf_entries_split, Hsyn, Hnse; reflexivity).
  set (T := tas_n (p + 1 + blen (r_qname name)) es) in *.
  destruct (entries_evs text D HD _ es _ c0 (c_ns_start_idx c) [] HW2 Hwf N6 HinD T0) as (d1 & E1 & Nd1 & A1 & X1 & T1 & L1).
  rewrite E1. cbn [bind]. cbn [app] in T1. fold own in T1, L1. fold T in T1 |- *.
  change (c_doc c0) with (c_doc c) in Nd1, A1, X1, L1.
  replace (c_cur_attrs c0) with (@nil temp_attr) in * by (symmetry; apply (cn_cur _ _ _ _ I)). cbn [app] in *.
  set (c1 := set_doc (set_cur_attrs c0 T) d1) in *.
  (* ElementEnd *)
  unfold tok_ev, Parse.token, end_tok. cbn [token_with].
  rewrite reset_after_text_ok by (cbn; lia). cbn [bind].
  set (c1' := set_after_text c1 []).
  unfold process_element.
  replace (slice_len (tn_name (c_tag_name c1')) =? 0) with false.
  2:{ cbn. unfold slice_len. cbn [sl sl_start sl_end]. rewrite r_qname_len.
      destruct (wf_qname_parts _ Hn) as [_ Hl]. destruct (q_local name); [discriminate|]. rewrite blen_cons. lia. }
  destruct (cn_par _ _ _ _ I) as (par & k & Epar & Hpar).
  assert (T1' : TI (c_ns_start_idx c1') own c1') by exact T1.
  destruct (resolve_namespaces_ns text D HD inh own c1' par k T1') as (r & d2 & E2 & Nd2 & A2 & V2 & (t2 & Tr2) & Ok2 & B2 & R1 & R2 & L2).
  { cbn. rewrite Nd1. apply (cn_pid _ _ _ _ I). }
  { cbn. unfold absn. rewrite Nd1. exact Epar. }
  { apply (par_ok_ext text D HD (c_doc c) d1); [exact X1|exact Hpar]. }
  { cbn. destruct k; try exact Logic.I. cbn [par_ok] in Hpar. rewrite (cn_ns _ _ _ _ I). apply Hpar. }
  { apply (cn_uniq _ _ _ _ I). }
  { cbn. rewrite (cn_ns _ _ _ _ I). fold sc. exact Hns. }
  rewrite E2. cbn [bind]. clear E2.
  change (c_doc c1') with d1 in Nd2, A2, V2, Tr2, L2.
  set (c3 := set_ns_start_idx (set_doc c1' d2) (len_N (d_ns_tree (c_doc (set_doc c1' d2))))).
  assert (Hxml2 : nth_error (d_ns_values d2) 0 = Some xml_ns) by (rewrite V2; apply (nsi_xml _ _ _ (ti_inv _ _ _ _ _ T1))).
  pose proof (tas_names _ es _ HW2) as Tn. fold T in Tn.
  assert (Hl3 : len_N (d_attrs (c_doc c3)) + len_N (c_cur_attrs c3) < u32_max).
  { cbn. rewrite A2, A1. unfold len_N at 2. fold T. rewrite <- (map_length tpl), Tn, attr_names_len.
    rewrite sem_attrs_len in Hlim. exact Hlim. }
  fold (esc es inh) in Hviol. change (esc es inh) with sc in Hviol.
  destruct (pl_viol sc [] (attr_names es)) as [x|] eqn:Epl.
  { (* N2 / N7 on an attribute *)
    injection Hviol as ->.
    destruct (resolve_attributes_rej r sc c3 rl) as (er & E & R); try assumption.
    { cbn [c_cur_attrs c3 set_ns_start_idx set_doc c1' set_after_text c1 set_cur_attrs]. rewrite Tn. exact Epl. }
    rewrite E. cbn [bind]. eauto. }
  destruct (pl_viol_none _ _ Epl) as [N2a N7].
  rewrite <- bound_names in N2a. rewrite <- sem_attrs_names in N7.
  pose proof (tas_sem text D HD sc _ es _ HW2) as Tsem.
  pose proof (bound_tas text D HD sc _ es _ HW2 N2a) as Tb. fold T in Tsem, Tb.
  destruct (resolve_attributes_ns text D HD r sc c3) as (new & E3 & F3).
  { exact B2. } { exact R1. } { exact R2. } { exact Hxml2. } { exact Tb. }
  { cbn [c_cur_attrs c3 set_ns_start_idx set_doc c1' set_after_text c1 set_cur_attrs].
    rewrite <- N7. rewrite <- Tsem, !map_map. reflexivity. }
  { exact Hl3. }
  rewrite E3. cbn [bind]. clear E3.
  cbn [c_cur_attrs c_doc c3 set_ns_start_idx set_doc c1' set_after_text c1 set_cur_attrs c_tag_name c0 set_tag_name
       tn_of_ns tn_prefix tn_prefix_pos tn_name tn_pos].
  (* N2 on the element name *)
  destruct (is_bound (Scope.resolve_elem sc (q_prefix name))) eqn:N2e; [discriminate|].
  injection Hviol as <-. destruct (unbound_elem _ _ N2e) as (Hne & Hx & Hl).
  set (d4 := set_attrs d2 (d_attrs d2 ++ new)).
  pose proof (SP.unknown_prefix_err_from text d4 r (p + 1) (sl (p + 1) (p + 1 + blen (q_prefix name))) sc) as Eget.
  rewrite Sp in Eget.
  specialize (Eget ltac:(rewrite (bindings_of_same text d2 d4 r eq_refl eq_refl); exact B2) R1 R2 Hne Hx Hl).
  destruct (@err_from_asc (option N) (p + 1) (UnknownNamespace (q_prefix name))) as [tp E].
  destruct empty; cbv iota; rewrite Eget, E; cbn [bind]; eexists; (split; [reflexivity|]);
    cbn [rule_error]; apply bytes_eqb_refl.
Qed.

End Rej.

Print Assumptions start_tag_rej.
