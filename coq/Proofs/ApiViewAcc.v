(* Proofs/ApiViewAcc.v -- two accessors of the public API (lib.rs) that Model/Api.v does not have yet, written in its
   style (the node is looked up with [node_data_of], which panics if it does not exist):
     Node::node_type()   -> NodeType            (is_root / is_element / is_pi / is_comment / is_text)
     Node::pi()          -> Option<PI { target, value }>
   Proofs/ApiView.v uses these two and functions of Model/Api.v / Model/Doc.v only.  Once they are part of Model/Api.v
   this file reduces to two notations. *)
From Coq Require Import List NArith Bool.
Import ListNotations.
From RX.Model Require Import Base Stream Tokenizer Doc.
Open Scope N_scope.

Inductive ntype := NtRoot | NtElement | NtPI | NtComment | NtText.

Definition node_type (d : document) (id : N) : res ntype :=
  let! nd := node_data_of d id in
  Ok (match nd_kind nd with
      | KRoot => NtRoot
      | KElement _ _ _ _ => NtElement
      | KPI _ _ => NtPI
      | KComment _ => NtComment
      | KText _ => NtText
      end).

(* (target, value) of a processing instruction *)
Definition pi (text : bytes) (d : document) (id : N) : res (option (bytes * option bytes)) :=
  let! nd := node_data_of d id in
  Ok (match nd_kind nd with
      | KPI target value =>
        Some (slice_bytes text target, match value with Some v => Some (slice_bytes text v) | None => None end)
      | _ => None
      end).
