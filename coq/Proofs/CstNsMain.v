(* Proofs/CstNsMain.v -- C06: the rendering of every well-formed abstract document WITH namespaces
   (Spec/CstNs.v) parses to exactly its tree, with every name resolved and every in-scope list as
   Spec/Scope.v computes them ([parse_render_sem_ns]); layout does not matter
   ([layout_insensitive_ns]).

   Hypotheses besides wf_doc (all are limits of the parser, none is implied by another):
   - the node limit of the options and the input size (as for C03);
   - at most 65535 distinct declared (prefix, URI) pairs ([distinct_decls_le]): push_ns answers
     NamespacesLimitReached for the 65537th stored value, and value 0 is the built-in xml binding;
   - the namespace table (d_ns_tree) has at most u32::MAX entries: 1 + [ns_cost].  This is NOT
     implied by the input size: 60000 prefixes declared on the root and 10^6 elements that each
     re-declare one prefix are about 25 MB of input and 6 * 10^10 table entries. *)
From Coq Require Import Ascii String.
From Coq Require Import List NArith PeanoNat Bool Lia ZifyBool ZifyN ZifyNat.
Import ListNotations.
From RX Require Import Generated.
From RX.Model Require Import Base CharClass Stream Tokenizer Doc Builder Parse.
From RX.Spec Require Cst Scope CstNs.
From RX.Spec Require Tree.
From RX.Proofs Require Import Tactics CstLex CstBuild CstNsLex CstNsView CstNsBuild CstNsTree CstNsItems CstNsDoc.
From RX.Proofs Require KeystoneEnc KeystoneBuilder KeystoneParse CstFinal ScopeProofs.
Open Scope N_scope.

Import CstNs.

(* ------------------------------------------------------------------------------------------ *)
(* from the rows to the view                                                                  *)
(* ------------------------------------------------------------------------------------------ *)

Lemma Forall2_nth_r {A B} (R : A -> B -> Prop) l l' : Forall2 R l l' ->
  forall k y, nth_error l' k = Some y -> exists x, nth_error l k = Some x /\ R x y.
Proof.
  induction 1 as [|a b0 l l' Hab _ IH]; intros k y Hk; [destruct k; discriminate|].
  destruct k as [|k]; cbn [nth_error] in *; [injection Hk as <-; eauto|apply IH; exact Hk].
Qed.

Lemma count_rows text d : forall nodes T q,
  Forall2 (kmn text d) (map abs_nd nodes) T ->
  length (filter (fun nd => match nd_parent nd with Some p => p =? q | None => false end) nodes) = cnt q T.
Proof.
  induction nodes as [|nd nodes IH]; intros T q H; inversion H as [|rw tv K T' Hkm HF]; subst; [reflexivity|].
  cbn [filter]. rewrite cnt_cons. destruct Hkm as [Hp _]. cbn [abs_nd fst] in Hp. rewrite Hp.
  destruct (fst tv =? q); cbn [length]; rewrite (IH _ _ HF); reflexivity.
Qed.

Lemma view_from_rows text d : forall nodes T id,
  Forall2 (kmn text d) (map abs_nd nodes) T ->
  (forall k q v, nth_error T k = Some (q, v) -> vcount v = children_count d (id + N.of_nat k)) ->
  view_from text d id nodes = Some (map snd T).
Proof.
  induction nodes as [|nd nodes IH]; intros T id H Hc; inversion H as [|rw tv K T' Hkm HF]; subst; [reflexivity|].
  cbn [view_from map]. destruct tv as [q v].
  assert (Hv : view_node text d id nd = Some (Some v)).
  { pose proof (Hc O q v eq_refl) as Hc0. cbn [N.of_nat] in Hc0. rewrite N.add_0_r in Hc0.
    destruct Hkm as [_ Hk]. cbn [abs_nd snd] in Hk. unfold view_node.
    destruct (nd_kind nd) as [|ns local ar nss|t vo|s|s]; destruct v as [u loc at_ sc m|bs|bs|tb vb]; try contradiction.
    - destruct Hk as (E1 & E2 & E3 & _ & _ & E6). rewrite E1, E3, E6, E2.
      cbn [vcount] in Hc0. rewrite Hc0. reflexivity.
    - destruct Hk as [E1 E2]. rewrite E1. destruct vo, vb; try contradiction; [rewrite E2|]; reflexivity.
    - rewrite Hk. reflexivity.
    - rewrite Hk. reflexivity. }
  rewrite Hv. rewrite (IH T' (id + 1) HF); [reflexivity|].
  intros k q' v' Hk. rewrite (Hc (S k) q' v' Hk). f_equal. lia.
Qed.

(* ------------------------------------------------------------------------------------------ *)
(* the initial context                                                                        *)
(* ------------------------------------------------------------------------------------------ *)

Definition init_ctx (text : bytes) (opt : options) : context :=
  {| c_opt := opt; c_ns_start_idx := 1; c_cur_attrs := []; c_awaiting := [];
     c_parent_prefixes := [empty_slice]; c_entities := []; c_after_text := [];
     c_parent_id := 0; c_tag_name := tag_name_null; c_entity_floor := 0; c_ld := ld_init;
     c_doc := {| d_nodes := [{| nd_parent := None; nd_prev_sibling := None; nd_next_subtree := None;
                                nd_last_child := None; nd_kind := KRoot; nd_range := (0, tlen text) |}];
                 d_attrs := []; d_ns_values := [xml_ns]; d_ns_tree := [0] |} |}.

Lemma init_context_eq text opt : init_context text opt = Ok (init_ctx text opt).
Proof. reflexivity. Qed.

Lemma init_ctx_CIn text D opt : CstNsBuild.CIn text D [] (init_ctx text opt).
Proof.
  constructor; cbn; try reflexivity; try discriminate; try constructor; try lia.
  - intros p vi H. unfold nth_N in H. cbn in H. destruct (1 <=? p) eqn:E; [discriminate|].
    assert (p = 0) by lia. subst p. cbn in H. injection H as <-. unfold len_N. cbn. lia.
  - reflexivity.
  - constructor; [intros []|constructor].
  - intros x [].
  - exists None, KRoot. split; reflexivity.
Qed.

(* ------------------------------------------------------------------------------------------ *)
(* the theorem with the exact bounds                                                          *)
(* ------------------------------------------------------------------------------------------ *)

Definition doc_nattrs (c : doc) : nat := nattrs (d_root c).

Lemma nsizes_doc c : nsizes (doc_items c) = N.of_nat (length (sem c)).
Proof. unfold nsizes. rewrite sem_doc_items, sem_items_len. reflexivity. Qed.

Theorem parse_render_sem_ns_bounded : forall (c : doc) (opt : options),
  wf_doc c = true ->
  N.of_nat (length (sem c)) < nodes_limit opt ->
  N.of_nat (length (sem c)) < u32_max ->
  N.of_nat (doc_nattrs c) < u32_max ->
  distinct_decls_le (d_root c) (N.to_nat 65535) ->
  1 + N.of_nat (ns_cost [] (d_root c)) <= u32_max ->
  exists d, parse (render c) opt = Ok d /\ view (render c) d = Some (sem c).
Proof.
  intros c opt Hwf Hlim Hmax Hattr Hdist Hcost. set (text := render c).
  set (D := item_decls (d_root c)).
  assert (HD : forall l, NoDup l -> incl l D -> N.of_nat (length l) <= 65535).
  { intros l N1 N2. pose proof (Hdist l N1 N2). lia. }
  destruct (parse_document_ok_n D HD c (allow_dtd opt) (init_ctx text opt) Hwf (incl_refl _)
              (init_ctx_CIn text D opt) eq_refl)
    as (cf & K & ext & E & S & I & F).
  { unfold node_room. cbn. rewrite nsizes_doc. unfold len_N. cbn [length]. lia. }
  { unfold attr_room. cbn. unfold doc_nattrs in Hattr. lia. }
  { unfold ns_room. cbn. unfold len_N. cbn [length]. lia. }
  fold text in E, F. cbn [c_parent_id init_ctx c_doc d_nodes] in F. change (len_N [_]) with 1 in F.
  destruct S as (S0 & _ & Hpp). cbn [c_parent_prefixes init_ctx] in Hpp.
  assert (Habs : absn (c_doc cf) = (None, KRoot) :: K) by (rewrite (sn_nodes _ _ _ _ S0); reflexivity).
  set (d := c_doc cf) in *.
  destruct (d_nodes d) as [|rootnd nodes] eqn:En; [unfold absn in Habs; rewrite En in Habs; discriminate|].
  unfold absn in Habs. rewrite En in Habs. cbn [map] in Habs. injection Habs as Hp0 Hk0 HK.
  set (T := tag_list [] 0 1 (doc_items c)) in *.
  assert (HlenK : length K = length T).
  { clear - F. induction F; cbn [length]; lia. }
  assert (HlenT : N.of_nat (length T) = N.of_nat (length (sem c))).
  { unfold T. rewrite tag_list_len. apply nsizes_doc. }
  assert (Hlen : len_N (d_nodes d) = 1 + N.of_nat (length (sem c))).
  { rewrite En. unfold len_N. cbn [length]. rewrite <- HK in HlenK. rewrite map_length in HlenK. lia. }
  (* the arena is the encoding of a tree *)
  assert (HP : KeystoneBuilder.P cf).
  { eapply (KeystoneParse.parse_document_Q text context (Parse.token text) KeystoneBuilder.P).
    - intros tok x x'. apply KeystoneParse.token_P.
    - exists Tree.KdRoot, [], []. apply (KeystoneParse.init_context_Inv text opt). apply init_context_eq.
    - exact E. }
  destruct HP as (k & cs & outer & Inv).
  pose proof (KeystoneBuilder.inv_pp _ _ _ _ Inv) as Ipp. rewrite Hpp in Ipp. cbn [length] in Ipp.
  destruct outer as [|o outer]; [|cbn [length] in Ipp; lia].
  pose proof (KeystoneBuilder.inv_kinds _ _ _ _ Inv) as Ik. cbn [KeystoneBuilder.kinds_ok] in Ik. subst k.
  pose proof (KeystoneBuilder.inv_rows _ _ _ _ Inv) as Irows.
  unfold KeystoneEnc.ztree in Irows. cbn [KeystoneEnc.plug] in Irows.
  (* the root element is a child of the Root node *)
  destruct (wf_doc_parts c Hwf) as [_ _ _ (name & es & ws & body & Er) _ _].
  set (k0 := length (tag_list [] 0 1 (map fst (d_before c)))).
  assert (HT0 : exists m, nth_error T k0 = Some (0, elem_v [] name es m)).
  { unfold T, doc_items. rewrite tag_list_app. unfold k0. rewrite nth_error_app2 by lia.
    rewrite Nat.sub_diag. cbn [tag_list]. rewrite Er.
    destruct body as [[cs0 w2]|]; [rewrite tag_elem|cbn [tag]]; cbn [app nth_error]; eauto. }
  destruct HT0 as (m & HT0).
  destruct (Forall2_nth_r _ _ _ F _ _ HT0) as (rw & Hrw & Hkm).
  rewrite <- HK in Hrw. apply nth_error_map_inv in Hrw. destruct Hrw as (nd0 & Hnd0 & Eabs).
  destruct Hkm as [Hpar Hkind]. rewrite <- Eabs in Hpar, Hkind. cbn [abs_nd fst snd] in Hpar, Hkind.
  assert (Hel : is_element_kind (nd_kind nd0) = true).
  { unfold elem_v in Hkind. destruct (nd_kind nd0); try contradiction; reflexivity. }
  destruct (CstFinal.root_has_element d cs (N.of_nat (S k0)) nd0) as (it & Eit & Eany).
  { exact Irows. }
  { rewrite Hlen. unfold u32_max in Hmax. lia. }
  { rewrite Nat2N.id, En. cbn [nth_error]. exact Hnd0. }
  { exact Hpar. }
  { exact Hel. }
  exists d. split.
  - unfold parse. rewrite init_context_eq. cbn [bind]. unfold tok_ev in E. rewrite E. cbn [bind].
    fold d. rewrite Eit. cbn [bind]. rewrite Eany. cbn [bind negb]. rewrite Hpp. reflexivity.
  - unfold view. rewrite En. cbn [view_from]. unfold view_node at 1. rewrite Hk0.
    change (0 + 1) with 1.
    rewrite (view_from_rows text d nodes T 1).
    + unfold T. rewrite tag_list_sem. rewrite <- sem_doc_items. reflexivity.
    + rewrite HK. exact F.
    + intros k q v Hk. rewrite (tag_list_counts [] _ 0 1 ltac:(lia) k q v Hk). fold T.
      unfold children_count. rewrite En. cbn [filter]. rewrite Hp0.
      apply eq_sym. apply (count_rows text d). rewrite HK. exact F.
Qed.
Print Assumptions parse_render_sem_ns_bounded.

(* ------------------------------------------------------------------------------------------ *)
(* the node and attribute bounds follow from "the input is at most u32::MAX bytes long"        *)
(* ------------------------------------------------------------------------------------------ *)

Lemma nea_le es : (nea es <= length (flat_map r_entry es))%nat.
Proof.
  pose proof (flat_entry_len es) as H. unfold nea.
  assert (G : (length (filter (fun e => match e with EAttr _ _ _ => true | EDecl _ _ _ => false end) es) <= length es)%nat).
  { clear. induction es as [|e r IH]; cbn [filter length]; [lia|]. destruct e; cbn [length]; lia. }
  lia.
Qed.

Lemma sem_le_render : forall i inh, wf_item inh i = true ->
  (isize i + (if is_elem i then 1 else 0) <= length (r_item i))%nat /\
  (nattrs i + (if is_elem i then 1 else 0) <= length (r_item i))%nat.
Proof.
  intros i. induction i as [n a w|n a w cs w2 IH|bs|bs|t s v] using item_ind'; intros inh Hwf.
  - rewrite r_item_elem, nattrs_elem, !app_length. cbn [length is_elem isize].
    pose proof (nea_le a). lia.
  - destruct (wf_elem_parts _ _ _ _ _ Hwf) as (_ & _ & _ & Hcs).
    rewrite r_item_elem, isize_elem, nattrs_elem, !app_length. cbn [length is_elem].
    assert (G : (isizes cs <= length (r_items cs) /\ nattrs_items cs <= length (r_items cs))%nat).
    { revert Hcs. generalize (esc a inh). intros sc Hcs. clear - IH Hcs. induction IH as [|c r Hc _ IHr]; [cbn; lia|].
      cbn [wf_items] in Hcs. apply andb_true_iff in Hcs. destruct Hcs as [H1 H2].
      cbn [isizes r_items nattrs_items]. rewrite !app_length.
      destruct (Hc sc H1) as [A1 A2]. destruct (IHr H2) as [B1 B2]. lia. }
    pose proof (nea_le a). lia.
  - destruct (CstItems.wf_text _ Hwf) as (_ & Hne & _). destruct bs; [congruence|]. cbn. lia.
  - cbn [r_item isize nattrs is_elem]. rewrite !app_length. cbn [length]. lia.
  - cbn [r_item isize nattrs is_elem]. rewrite !app_length. cbn [length]. lia.
Qed.

Lemma pairs_sem_le (l : pairs) : wf_pairs l = true -> (isizes (map snd l) <= length (r_pairs l))%nat.
Proof.
  induction l as [|[w i] r IH]; intros H; [cbn; lia|]. cbn [wf_pairs forallb fst snd] in H.
  rewrite !andb_true_iff in H. destruct H as [[[H1 H2] H3] H4].
  cbn [map snd isizes r_pairs flat_map fst]. rewrite !app_length. specialize (IH H4).
  unfold r_pairs in IH. destruct (sem_le_render i [] H3) as [A _]. lia.
Qed.

Lemma isizes_app l1 l2 : isizes (l1 ++ l2) = (isizes l1 + isizes l2)%nat.
Proof. induction l1 as [|c r IH]; [reflexivity|]. cbn [app isizes]. rewrite IH. lia. Qed.

Lemma render_bounds c : wf_doc c = true ->
  (length (sem c) < length (render c))%nat /\ (doc_nattrs c < length (render c))%nat.
Proof.
  intros Hwf. pose proof (wf_doc_parts c Hwf) as [H1 H2 H3 (name & es & ws & body & Er) H5 H6].
  destruct (regroup_wf _ _ H1 H3) as [R1 _].
  rewrite render_shape, sem_doc_items, sem_items_len. unfold doc_items, doc_nattrs.
  assert (E : isizes (map fst (d_before c)) = isizes (map snd (regroup (d_ws0 c) (d_before c))))
    by (rewrite regroup_items; reflexivity).
  rewrite isizes_app, E. cbn [isizes]. rewrite !app_length.
  pose proof (pairs_sem_le _ R1). pose proof (pairs_sem_le _ H6).
  destruct (sem_le_render _ _ H5) as [A1 A2]. rewrite Er in A1, A2 |- *. cbn [is_elem] in A1, A2.
  change (@map (Scope.bytes * item) item (@snd Scope.bytes item) (d_after c))
    with (@map (Cst.bytes * item) item (@snd Cst.bytes item) (d_after c)).
  lia.
Qed.

Theorem parse_render_sem_ns : forall (c : doc) (opt : options),
  wf_doc c = true ->
  N.of_nat (length (sem c)) < nodes_limit opt ->               (* room for all nodes + the Root *)
  N.of_nat (length (render c)) <= u32_max ->                    (* the input is at most u32::MAX bytes long *)
  distinct_decls_le (d_root c) (N.to_nat 65535) ->              (* at most 65535 distinct declared bindings *)
  1 + N.of_nat (ns_cost [] (d_root c)) <= u32_max ->            (* the namespace table fits *)
  exists d, parse (render c) opt = Ok d /\ view (render c) d = Some (sem c).
Proof.
  intros c opt Hwf Hlim Hsz Hd Hc. destruct (render_bounds c Hwf) as [B1 B2].
  apply parse_render_sem_ns_bounded; [exact Hwf|exact Hlim|lia|lia|exact Hd|exact Hc].
Qed.
Print Assumptions parse_render_sem_ns.

Theorem layout_insensitive_ns : forall c1 c2 opt,
  wf_doc c1 = true -> wf_doc c2 = true -> sem c1 = sem c2 ->
  N.of_nat (length (sem c1)) < nodes_limit opt ->
  N.of_nat (length (render c1)) <= u32_max -> N.of_nat (length (render c2)) <= u32_max ->
  distinct_decls_le (d_root c1) (N.to_nat 65535) -> distinct_decls_le (d_root c2) (N.to_nat 65535) ->
  1 + N.of_nat (ns_cost [] (d_root c1)) <= u32_max -> 1 + N.of_nat (ns_cost [] (d_root c2)) <= u32_max ->
  exists d1 d2, parse (render c1) opt = Ok d1 /\ parse (render c2) opt = Ok d2 /\
                view (render c1) d1 = view (render c2) d2.
Proof.
  intros c1 c2 opt W1 W2 E L S1 S2 D1 D2 C1 C2.
  destruct (parse_render_sem_ns c1 opt W1 L S1 D1 C1) as (d1 & P1 & V1).
  destruct (parse_render_sem_ns c2 opt W2 ltac:(rewrite <- E; exact L) S2 D2 C2) as (d2 & P2 & V2).
  exists d1, d2. split; [exact P1|]. split; [exact P2|]. rewrite V1, V2, E. reflexivity.
Qed.
Print Assumptions layout_insensitive_ns.

(* ------------------------------------------------------------------------------------------ *)
(* the theorem is not vacuous: a concrete document satisfies every hypothesis                  *)
(* ------------------------------------------------------------------------------------------ *)

Lemma distinct_by_count i n : (length (item_decls i) <= n)%nat -> distinct_decls_le i n.
Proof.
  intros H l N1 N2. pose proof (NoDup_incl_length N1 N2). lia.
Qed.

Module Example.
Definition lay ws w1 w2 q := {| l_ws := b ws; l_ws1 := b w1; l_ws2 := b w2; l_quote := q |}.
Definition qn p l := {| q_prefix := b p; q_local := b l |}.
Definition at_ p l v := EAttr (lay " " "" "" 34) (qn p l) (b v).
Definition dc p u := EDecl (lay " " "" "" 39) (b p) (b u).
Definition el p l es cs := IElem (qn p l) es [] (Some (cs, [])).
Definition em p l es := IElem (qn p l) es (b " ") None.
(* default namespace, prefixed declaration and attribute, redeclaration in a child, a child that
   declares nothing, undeclared default, xml:lang *)
Definition ex : doc :=
  {| d_before := [(IComment (b "c"), [10])]; d_ws0 := [];
     d_root := el "" "root" [dc "" "urn:d"; at_ "" "a" "1"; dc "p" "urn:p"; at_ "p" "a" "2"; at_ "xml" "lang" "en"]
       [ em "" "c1" [];
         el "p" "c2" [dc "p" "urn:p2"; at_ "p" "x" "v"] [em "" "g" [at_ "p" "y" ""]; IText (b "t")];
         em "" "c3" [dc "" ""];
         em "q" "c4" [at_ "q" "z" "w"; dc "q" "urn:p"; dc "" "urn:d"] ];
     d_after := []; d_ws_end := [10] |}.
Definition opt := {| allow_dtd := false; nodes_limit := 1000 |}.

Example ex_parses : exists d, parse (render ex) opt = Ok d /\ view (render ex) d = Some (sem ex).
Proof.
  apply parse_render_sem_ns.
  - vm_compute. reflexivity.
  - vm_compute. reflexivity.
  - vm_compute. intros H. discriminate H.
  - apply distinct_by_count. remember (length (item_decls (d_root ex))) as n eqn:En. vm_compute in En. subst n. lia.
  - vm_compute. intros H. discriminate H.
Qed.
End Example.
Print Assumptions Example.ex_parses.
