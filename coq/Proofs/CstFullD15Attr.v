(* Proofs/CstFullD15Attr.v -- the known finding D15 on whole documents, the attribute level: (1) the naive tables of
   Proofs/KnownFindingsD15.v and the tables of the spec are the same for the character-data machine ([nlevel_teq]: they
   differ on entities with markup only); (2) an attribute value inside the value of an entity (depth > 0) in which &lt; is
   written -- so that the inlining of the spec refuses it, while the naive one does not -- makes [norm_attr_lvl], hence
   normalize_attribute, fail with InvalidAttributeValue, after whatever part of the value has been read ([ALd],
   [normalize_d]). *)
From Coq Require Import Ascii String.
From Coq Require Import List NArith PeanoNat Bool Lia ZifyBool ZifyN ZifyNat Wf_nat.
Import ListNotations.
From RX Require Import Generated.
From RX.Model Require Import Base CharClass Stream Tokenizer Doc Builder Parse.
From RX.Spec Require Cst CstText CstEnt Detector Scope CstU.
From RX.Spec Require Import Text CstFull CstFullS4.
From RX.Proofs Require Import Tactics CstLex CstBuild CstULex TextMachine TextMerge HoistProofs NoPanicUtf8 DetectorProofs.
From RX.Proofs Require Import CstTextSem CstTextLex CstTextBuild CstEntSem CstEntMeaning CstEntRun CstFullLex.
From RX.Proofs Require Import CstFullS2Sem CstFullS2Lex CstFullS2Build CstFullS3Sem CstFullS3Text CstFullS3Attr CstFullS4Sem CstFullS4TSem CstFullS4TText.
From RX.Proofs Require Import CstEntRejSem CstFullRejAttr KnownFindingsD15.
From RX.Proofs Require CstEntText CstEntAttr CstEntBuild CstNsBuild CstEntCBuild PositionProofs.
Open Scope N_scope.

(* ------------------------------------------------------------------------------------------ *)
(* the two tables agree on character data                                                     *)
(* ------------------------------------------------------------------------------------------ *)
Lemma nlevel_teq decls : forall k, teq (ptable (nlevel decls k)) (ptable (level decls k)).
Proof.
  induction k as [|k IH]; intros n; rewrite !lookup_ptable, ylookup_nlevel, ylookup_level; [reflexivity|].
  destruct (first_xdecl decls n) as [d|]; [|reflexivity].
  destruct (x_value d) as [ps|its]; cbn [ninline_value inline_value].
  - rewrite (inline_ps_teq _ _ false true IH). reflexivity.
  - destruct (inline_items (nlevel decls k) false its) as [x|], (inline_items (level decls k) true its) as [y|]; reflexivity.
Qed.

Lemma inline_ps_nlevel decls k fa ie ps :
  E.inline_ps (ptable (nlevel decls k)) fa ie ps = E.inline_ps (ptable (level decls k)) fa ie ps.
Proof. apply inline_ps_teq. apply nlevel_teq. Qed.

Lemma inline_entry_nlevel decls k ie e : inline_entry (nlevel decls k) ie e = inline_entry (level decls k) ie e.
Proof. destruct e; cbn [inline_entry]; rewrite inline_ps_nlevel; reflexivity. Qed.

Lemma inline_entries_nlevel decls k ie ens : inline_entries (nlevel decls k) ie ens = inline_entries (level decls k) ie ens.
Proof. induction ens as [|e r IH]; [reflexivity|]. cbn [inline_entries]. rewrite inline_entry_nlevel, IH. reflexivity. Qed.

(* ------------------------------------------------------------------------------------------ *)
(* the attribute value                                                                        *)
(* ------------------------------------------------------------------------------------------ *)
Section D15Attr.
Variable text : bytes.
Hypothesis Hvalid : valid_utf8_b text = true.
Variable D : list Scope.binding.
Hypothesis HD : forall l, NoDup l -> incl l D -> N.of_nat (length l) <= 65535.
Variable decls : list E.edecl.
Variable es : list entity.
Hypothesis Henv : Forall2 (uent_ok text) decls es.
Hypothesis Hdecls : Forall udecl_okc decls.

Notation W := (CstLex.W text).
Notation WV := (CstULex.WV text).

Lemma err_from_val {A} p mk : exists tp, @err_from text A p mk = Err (mk tp).
Proof.
  unfold err_from, gen_text_pos_from, gen_text_pos_at.
  assert (Hle : N.min p (tlen text) <= tlen text) by lia.
  rewrite (PositionProofs.valid_floor_boundary text _ Hvalid Hle).
  pose proof (PositionProofs.floor_boundary_fuel_le text 4 (N.min p (tlen text))) as Hf. fold (floor_boundary text (N.min p (tlen text))) in Hf.
  replace (tlen text <? floor_boundary text (N.min p (tlen text))) with false by lia. cbn [orb negb bind].
  eexists. reflexivity.
Qed.

(* a reference to '<' that may be written in a value is &lt; *)
Lemma lt_ref_is_lt p : uep_ok true (E.EP p) -> E.is_lt_ref p = true -> p = T.PPredef T.Lt.
Proof.
  intros [Hv Hc] H. specialize (Hc eq_refl). destruct p as [bs|hex ds|e|bs]; cbn [E.is_lt_ref] in H; try discriminate.
  - cbn [E.charref_ok_in_value] in Hc. cbv zeta in Hc. rewrite H in Hc. rewrite !orb_true_r in Hc. discriminate.
  - destruct e; try discriminate. reflexivity.
Qed.

Lemma ALd : forall k ps q tr, E.inline_ps (E.level decls k) true false ps = Some (q, tr) ->
  E.inline_ps (E.level decls k) true true ps = None ->
  Forall (uep_ok true) ps -> E.no_adjacent_elit ps = true ->
  forall e p more ld ld' lvl' fuel t,
  WV p (E.r_epieces ps ++ more) -> p + blen (E.r_epieces ps) = e -> e <= tlen text ->
  0 < ld_depth ld -> ld_run ld tr = Some ld' ->
  11 <= N.of_nat lvl' + ld_depth ld ->
  tb_pending_cr t = false -> (length (E.r_epieces ps) < fuel)%nat ->
  exists pos, attr_loop text lvl' es fuel (sst e p (E.r_epieces ps ++ more)) t ld = Err (InvalidAttributeValue pos).
Proof.
  intros k. induction ps as [|pc rest IH];
    intros q tr Hin Hno Hok Hadj e p more ld ld' lvl' fuel t HW He Hle Hd Hld Hlvl Hpd Hfu.
  - cbn [E.inline_ps] in Hno. discriminate.
  - apply Forall_cons_iff in Hok. destruct Hok as [Hp Hrest].
    pose proof (CstEntAttr.no_adj_etail _ _ Hadj) as Hadj'.
    assert (Hm : true = (0 <? ld_depth ld)) by (symmetry; apply N.ltb_lt; exact Hd).
    cbn [E.inline_ps] in Hin, Hno. destruct pc as [pc0|n].
    + cbn [andb] in Hin, Hno.
      destruct (E.inline_ps (E.level decls k) true false rest) as [[q' tr']|] eqn:Er; [|discriminate]. cbn [E.obind fst snd] in Hin.
      injection Hin as <- <-.
      cbn [E.r_epieces flat_map E.r_epiece] in *. fold (E.r_epieces rest) in *.
      rewrite <- app_assoc in HW |- *. rewrite blen_app in He. rewrite app_length in Hfu.
      destruct (E.is_lt_ref pc0) eqn:Elt.
      * (* &lt; *)
        rewrite (lt_ref_is_lt pc0 Hp Elt) in *. clear Elt.
        destruct fuel as [|fu]; [lia|].
        pose proof (cref_predef_u text e p T.Lt (E.r_epieces rest ++ more) HW ltac:(lia) Hle) as Ec.
        assert (Hlt : p < e) by (cbn [T.r_piece app] in He; rewrite !blen_cons in He; lia).
        cbn [T.r_piece T.predef_char] in Ec, HW |- *. cbn [app] in Ec, HW |- *.
        cbn [attr_loop]. rewrite at_end_sst. replace (e <=? p) with false by lia.
        cbn [curr_byte_unchecked sst s_rest bind]. change (38 =? 38) with true. cbn [negb]. cbv zeta.
        match type of Ec with consume_reference text ?s = _ => match goal with |- context [consume_reference text ?s'] => change s' with s end end.
        rewrite Ec. cbn [bind].
        replace (0 <? ld_depth ld) with true by lia.
        change (encode_utf8 60) with [60]. cbn [push_char_bytes_attr]. change (60 =? 60) with true. cbv iota.
        match goal with |- context [err_from text ?a ?m] => destruct (@err_from_val (text_buffer * loop_detector)%type a m) as [tp E] end.
        rewrite E. eauto.
      * (* another piece *)
        destruct (E.inline_ps (E.level decls k) true true rest) as [y|] eqn:Er2; [discriminate|].
        destruct (apush_u true pc0 t Hp (fun _ => Elt) Hpd) as (t1 & E1 & Hpd1).
        pose proof Hp as [Hvp _]. pose proof (chunks_le_piece_u D HD pc0 Hvp) as Hcl.
        rewrite (astep_u text D HD es true pc0 rest lvl' ld e p more t t1 fuel Hp Hrest Hadj HW He Hle Hm E1 Hfu).
        apply (IH q' tr' eq_refl eq_refl Hrest Hadj' e _ more ld ld' lvl'); try assumption; try lia.
        apply (WV_app _ _ _ _ HW (vpiece_valid 60 pc0 Hvp)).
    + (* a reference to a character-data entity: read, as in both inlinings *)
      destruct Hp as [Hn Hpre].
      destruct (E.lookup (E.level decls k) n) as [v|] eqn:El; [|discriminate]. cbn [E.obind] in Hin, Hno.
      destruct (E.x_pieces v) as [qv|] eqn:Ex; [|discriminate]. cbn [E.obind andb] in Hin, Hno.
      destruct (existsb E.is_lt_ref qv) eqn:Elt1; [discriminate|].
      destruct (E.inline_ps (E.level decls k) true false rest) as [[q' tr']|] eqn:Er; [|discriminate]. cbn [E.obind fst snd] in Hin.
      injection Hin as <- <-.
      destruct (E.inline_ps (E.level decls k) true true rest) as [y|] eqn:Er2; [discriminate|].
      cbn [E.r_epieces flat_map E.r_epiece] in *. fold (E.r_epieces rest) in *.
      rewrite <- !app_assoc in HW |- *. rewrite !blen_app in He. change (blen [38]) with 1 in He. change (blen [59]) with 1 in He.
      destruct (lookup_pieces decls _ _ _ _ El Ex) as (k' & d & vps & -> & Hfd & Hval & Hi).
      destruct (find_first_u text decls es Henv n d Hfd) as (en & Efind & (Hen & vs & tail & Eval & HWv)).
      destruct fuel as [|fu]; [lia|].
      pose proof (cref_entity_u text D HD e p n (E.r_epieces rest ++ more) HW Hn Hpre ltac:(lia) Hle) as Ec.
      cbn [app] in Ec, HW |- *.
      assert (HWn : WV (p + 2 + blen n) (E.r_epieces rest ++ more)).
      { pose proof (WV_cons _ _ _ _ HW ltac:(lia)) as X1.
        destruct (uname_bytes n Hn) as (Hun & _). pose proof (WV_app _ _ _ _ X1 (ustr_valid _ Hun)) as X2.
        pose proof (WV_cons _ _ _ _ X2 ltac:(lia)) as X3.
        replace (p + 2 + blen n) with (p + 1 + blen n + 1) by lia. exact X3. }
      cbn [ld_run] in Hld. destruct (ld_enter ld) as [ld1|] eqn:Eenter; [|discriminate].
      rewrite ld_run_app in Hld. destruct (ld_run ld1 (E.x_trace v)) as [ld1'|] eqn:Erun1; [|discriminate]. cbn [ld_run] in Hld.
      destruct (CstEntText.enter_model text (sst e (p + 2 + blen n) (E.r_epieces rest ++ more)) _ _ Eenter) as (l0 & Ei1 & Ei2).
      destruct (enter_d _ _ Eenter) as [Hd1 Hd10].
      erewrite norm_attr_entity_step;
        [|rewrite at_end_sst; lia|reflexivity|exact Ec| |exact Ei1|exact Ei2].
      2:{ pose proof (W_cons _ _ _ _ (WV_W _ _ _ HW)) as HW1. rewrite (W_slice _ _ _ _ HW1). exact Efind. }
      destruct (first_decl_u decls Hdecls n d vps Hfd Hval) as (Hvok & _ & Hvadj).
      rewrite Hval in Eval, HWv. cbn [E.r_value] in Eval, HWv.
      destruct lvl' as [|lvl'']; [lia|].
      rewrite norm_attr_lvl_unfold, Eval. cbn [sl sl_start sl_end].
      rewrite (stream_from_substr_W text vs (E.r_epieces vps) tail (WV_W _ _ _ HWv)). cbn [bind].
      pose proof (W_le _ _ _ (W_app _ _ _ _ (WV_W _ _ _ HWv))) as Hlev.
      destruct (inline_AExp_in_u decls Hdecls k' vps qv _ Hi Elt1 Hvok t Hpd) as (t1 & HA & Hpd1).
      destruct (AL_u text D HD decls es Henv Hdecls true vps t qv _ t1 HA
                  (vs + blen (E.r_epieces vps)) vs tail ld1 ld1' lvl''
                  (S (length (s_rest (sst (vs + blen (E.r_epieces vps)) vs (E.r_epieces vps ++ tail))))))
        as [Ev Hdv]; try assumption; try reflexivity.
      { rewrite Hd1. replace (0 <? ld_depth ld + 1) with true by lia. reflexivity. }
      { lia. }
      { cbn [sst s_rest]. rewrite app_length. lia. }
      rewrite Ev. cbn [bind].
      assert (Hdd : ld_depth (dec_depth ld1') = ld_depth ld) by (rewrite dec_d by lia; lia).
      apply (IH q' tr' eq_refl eq_refl Hrest Hadj' e (p + 2 + blen n) more (dec_depth ld1') ld' (S lvl'') fu t1); try assumption; try lia.
      rewrite !app_length in Hfu. cbn [length] in Hfu. lia.
Qed.

(* ---- the value of an attribute ---- *)
Lemma normalize_d vs ps quote more c k q tr ld' :
  WV vs (E.r_epieces ps ++ [quote] ++ more) ->
  Forall (uep_ok true) ps -> E.no_adjacent_elit ps = true ->
  0 < ld_depth (c_ld c) ->
  E.inline_ps (E.level decls k) true false ps = Some (q, tr) -> E.inline_ps (E.level decls k) true true ps = None ->
  ld_run (c_ld c) tr = Some ld' -> c_entities c = es ->
  exists pos, normalize_attribute text (sl vs (vs + blen (E.r_epieces ps))) c = Err (InvalidAttributeValue pos).
Proof.
  intros HWv Hok Hadj Hd Hin Hno Hld Hes. pose proof (WV_W _ _ _ HWv) as HW.
  unfold normalize_attribute. cbv zeta. rewrite (W_slice _ _ _ _ HW).
  fold (needs_norm (E.r_epieces ps)). destruct (needs_norm (E.r_epieces ps)) eqn:E.
  2:{ (* a value without '&' has no reference to '<' *)
      exfalso. pose proof (CstEntCBuild.needs_norm_noamp _ E) as Hna. clear - Hna Hin Hno.
      revert q tr Hin Hno. induction ps as [|p ps IH]; intros q tr Hin Hno; [discriminate|].
      rewrite r_epieces_cons, existsb_app in Hna. apply orb_false_iff in Hna. destruct Hna as [H1 H2].
      cbn [E.inline_ps] in Hin, Hno. destruct p as [p0|n]; [|cbn in H1; discriminate].
      cbn [andb] in Hin, Hno.
      destruct (E.inline_ps (E.level decls k) true false ps) as [[q' tr']|] eqn:Er; [|discriminate].
      destruct (E.is_lt_ref p0) eqn:El.
      - destruct p0 as [bs|hex ds|e0|bs]; cbn in El, H1; try discriminate.
      - destruct (E.inline_ps (E.level decls k) true true ps) as [y|] eqn:Er2; [discriminate|]. apply (IH H2 _ _ eq_refl eq_refl). }
  unfold entity_levels. rewrite norm_attr_lvl_unfold. cbn [sl sl_start sl_end].
  rewrite (stream_from_substr_W text vs (E.r_epieces ps) _ HW). cbn [bind]. rewrite Hes.
  pose proof (W_le _ _ _ (W_app _ _ _ _ HW)) as Hle.
  destruct (ALd k ps q tr Hin Hno Hok Hadj
              (vs + blen (E.r_epieces ps)) vs ([quote] ++ more) (c_ld c) ld' (S (N.to_nat ld_max_depth))
              (S (length (s_rest (sst (vs + blen (E.r_epieces ps)) vs (E.r_epieces ps ++ [quote] ++ more))))) tb_new)
    as [pos Ef]; try assumption; try reflexivity.
  { change (N.of_nat (S (N.to_nat ld_max_depth))) with 11. lia. }
  { cbn [sst s_rest]. rewrite app_length. lia. }
  rewrite Ef. cbn [bind]. eauto.
Qed.

End D15Attr.

Print Assumptions nlevel_teq.
Print Assumptions ALd.
Print Assumptions normalize_d.
