(* Proofs/TermFinal.v -- termination, part 5: the whole [parse].  The remaining loop is
   root().children().any(is_element) at the end of parse; the arena invariant of
   KeystoneParse.v shows that each step of the iterator moves to a strictly larger node id,
   so the fuel [S (length nodes)] is enough. *)
From Coq Require Import List NArith Bool Lia ZifyBool ZifyN ZifyNat.
Import ListNotations.
From RX Require Import Generated.
From RX.Model Require Import Base CharClass Stream Tokenizer Doc Builder Parse.
From RX.Spec Require Import Tree.
From RX.Proofs Require Import Tactics KeystoneEnc KeystoneBuilder KeystoneParse.
From RX.Proofs Require Import TermStream TermTokenizer TermUtf8 TermBuilder TermParse.
Open Scope N_scope.

Lemma good_eq {A} (r : res A) : r <> OutOfFuel -> good (fun a => r = Ok a) r.
Proof. destruct r; cbn; auto. Qed.

(* ---- the accessors of Doc.v have no loops ---- *)
Lemma node_data_of_good d id : good (fun _ => True) (node_data_of d id).
Proof. unfold node_data_of. gauto. Qed.
Lemma node_unwrap_good d id : good (fun _ => True) (node_unwrap d id).
Proof. unfold node_unwrap. gauto. Qed.
#[local] Hint Resolve node_data_of_good node_unwrap_good node_id_new_good : good.

Lemma opt_unwrap_node_good d o : good (fun _ => True) (opt_unwrap_node d o).
Proof. unfold opt_unwrap_node. gauto. Qed.
#[local] Hint Resolve opt_unwrap_node_good : good.

Lemma next_sibling_nofuel d id : good (fun _ => True) (next_sibling d id).
Proof. unfold next_sibling. gauto. Qed.
Lemma first_child_good d id : good (fun _ => True) (first_child d id).
Proof. unfold first_child. gauto. Qed.
Lemma last_child_good d id : good (fun _ => True) (last_child d id).
Proof. unfold last_child. gauto. Qed.
Lemma node_is_element_good d id : good (fun _ => True) (node_is_element d id).
Proof. unfold node_is_element. gauto. Qed.
#[local] Hint Resolve next_sibling_nofuel first_child_good last_child_good node_is_element_good : good.

Lemma children_nofuel d id : good (fun _ => True) (children d id).
Proof. unfold children. gauto. Qed.
Lemma children_next_nofuel d it : good (fun _ => True) (children_next d it).
Proof. unfold children_next. gauto. Qed.

(* ---- the root of the zipper tree is the Root node ---- *)
Lemma plug_root outer : forall k cs, kinds_ok k outer ->
  exists cs', plug outer (T k cs) = T KdRoot cs'.
Proof.
  induction outer as [|[k' cs0] o IH]; intros k cs Hk; cbn [kinds_ok plug] in *.
  - subst k. eauto.
  - destruct Hk as [_ Hk]. apply IH. exact Hk.
Qed.

Section RootChildren.
Variable d : document.
Variable cs : list tree.
Hypothesis Hrows : links_of_nodes (d_nodes d) = encode (T KdRoot cs).

Lemma nodes_len : len_N (d_nodes d) = 1 + sizes cs.
Proof. rewrite <- links_of_nodes_len, Hrows, encode_len, size_T. reflexivity. Qed.

Lemma child_pos_lt n : child_pos cs n -> n < len_N (d_nodes d).
Proof.
  intros [cs1 [c [cs2 [Hcs ->]]]]. rewrite nodes_len, Hcs, sizes_app, sizes_cons.
  pose proof (size_pos c). lia.
Qed.

(* the next sibling has a strictly larger id *)
Lemma next_sibling_lt n m :
  child_pos cs n -> next_sibling d n = Ok (Some m) -> n < m.
Proof.
  intros [cs1 [c [cs2 [Hcs ->]]]] H. destruct c as [kc ccs].
  unfold next_sibling in H. mbind H nd Hnd.
  unfold node_data_of in Hnd. destruct (get_node d (1 + sizes cs1)) as [nd'|] eqn:Eg; [|discriminate].
  injection Hnd as ->.
  pose proof (child_row d cs Hrows _ _ _ _ _ Hcs Eg) as Hrow.
  assert (Hnext : nd_next_subtree nd = l_next_subtree (link_of nd)) by reflexivity.
  rewrite Hrow in Hnext. unfold row_of in Hnext. cbn [l_next_subtree] in Hnext.
  rewrite Hnext in H.
  destruct (1 + sizes cs1 + (1 + sizes ccs) <? 1 + sizes cs) eqn:E; [|discriminate].
  mbind H nid Hnid. mbind H nnd Hnnd.
  apply node_unwrap_ok in Hnid. subst nid.
  destruct (nd_prev_sibling nnd); [|discriminate].
  destruct (_ =? _); [|discriminate]. injection H as <-. lia.
Qed.

(* nodes still ahead of the iterator *)
Definition ahead (it : children_it) : N :=
  match ch_front it with Some n => len_N (d_nodes d) - n | None => 0 end.

Lemma children_next_ahead it o it' :
  good_front cs (ch_front it) -> children_next d it = Ok (o, it') ->
  ch_front it <> None -> ahead it' < ahead it.
Proof.
  intros Hg H Hne.
  destruct (children_next_good d cs Hrows _ _ _ Hg H) as [_ Hg'].
  unfold children_next in H. unfold ahead.
  destruct (ch_front it) as [n|] eqn:Ef; [|congruence].
  cbn [good_front] in Hg. pose proof (child_pos_lt _ Hg) as Hn.
  destruct (opt_N_eqb _ _).
  - injection H as _ <-. cbn [ch_front]. lia.
  - mbind H nx Hnx. injection H as _ <-. cbn [ch_front] in *.
    destruct nx as [m|]; [|lia].
    pose proof (next_sibling_lt _ _ Hg Hnx). cbn [good_front] in Hg'.
    pose proof (child_pos_lt _ Hg'). lia.
Qed.

Lemma children_any_element_nofuel fuel : forall it,
  good_front cs (ch_front it) -> ahead it < N.of_nat fuel ->
  children_any_element fuel d it <> OutOfFuel.
Proof.
  induction fuel as [|fu IH]; intros it Hg Hm; [lia|]. cbn [children_any_element].
  pose proof (children_next_nofuel d it) as Hn.
  destruct (children_next d it) as [[o it']| | |] eqn:En; cbn [bind good] in *;
    try discriminate; try contradiction.
  destruct (children_next_good d cs Hrows _ _ _ Hg En) as [-> Hg'].
  destruct (ch_front it) as [n|] eqn:Ef; [|discriminate].
  pose proof (node_is_element_good d n) as He.
  destruct (node_is_element d n) as [[|]| | |]; cbn [bind good] in *;
    try discriminate; try contradiction.
  apply IH; [exact Hg'|].
  assert (Hlt : ahead it' < ahead it).
  { eapply children_next_ahead; [|exact En|]; rewrite Ef; [exact Hg|discriminate]. }
  lia.
Qed.

Lemma root_children_any_element_nofuel it :
  children d 0 = Ok it ->
  children_any_element (S (length (d_nodes d))) d it <> OutOfFuel.
Proof.
  intros Hit. apply children_any_element_nofuel.
  - eapply children_good; eassumption.
  - unfold ahead, len_N. destruct (ch_front it); lia.
Qed.
End RootChildren.

(* ------------------------------------------------------------------ *)
Theorem parse_terminates : forall text opt, valid_utf8_b text = true -> parse text opt <> OutOfFuel.
Proof.
  intros text opt Hv. eapply good_nofuel with (P := fun _ => True). unfold parse.
  eapply good_bind; [apply good_eq|].
  { eapply good_nofuel with (P := fun _ => True). unfold init_context.
    eapply good_bind; [apply push_ns_good|]. intros; exact I. }
  intros c0 H0. cbv beta in H0.
  eapply good_bind; [apply good_eq; apply parse_document_terminates; eassumption|].
  intros c Hc. cbv beta in Hc.
  assert (HP : P c).
  { apply init_context_Inv in H0.
    eapply (parse_document_Q text context (token text) P); [|exists KdRoot, [], []; exact H0|exact Hc].
    intros tok x x'. apply token_P. }
  destruct HP as [k [cs [outer HI]]].
  pose proof (inv_rows _ _ _ _ HI) as Hrows. unfold ztree in Hrows.
  destruct (plug_root outer k cs (inv_kinds _ _ _ _ HI)) as [cs' Hcs']. rewrite Hcs' in Hrows.
  eapply good_bind; [apply good_eq; eapply good_nofuel; apply children_nofuel|].
  intros it Hit. cbv beta in Hit.
  eapply good_bind; [apply nofuel_good; eapply root_children_any_element_nofuel; eassumption|].
  intros he _. destruct (negb he); [exact I|]. destruct (_ <? _); exact I.
Qed.
Print Assumptions parse_terminates.
