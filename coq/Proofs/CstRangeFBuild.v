(* Proofs/CstRangeFBuild.v -- C13 / C18 on the capstone fragment (Spec/CstFull.v), part 2: what the
   callback does, token by token, to the kinds of the nodes, to the attributes and to the namespace
   table (facts about any SUCCESSFUL call; they are combined with the lemmas of CstFullBuild.v, which
   prove the calls successful), and how the namespace table grows: one entry per distinct declared
   (prefix, URI) pair. *)
From Coq Require Import Ascii String.
From Coq Require Import List NArith PeanoNat Bool Lia ZifyBool ZifyN ZifyNat.
Import ListNotations.
From RX Require Import Generated.
From RX.Model Require Import Base CharClass Stream Tokenizer Doc Builder Parse.
From RX.Spec Require Cst Scope CstNs CstFull.
From RX.Proofs Require Import Tactics CstLex CstBuild CstNsLex CstNsView CstNsBuild CstFullBuild.
From RX.Proofs Require Import AttrListProofs CstRangeBuild CstRangeTDefs CstRangeTBuild CstRangeFDefs.
From RX.Proofs Require ScopeProofs.
Open Scope N_scope.

Definition kinds (c : context) : list node_kind := map nd_kind (d_nodes (c_doc c)).

Lemma absn_kinds d : map snd (absn d) = map nd_kind (d_nodes d).
Proof. unfold absn. rewrite map_map. apply map_ext. intros nd. reflexivity. Qed.

(* ---- append_node ---- *)
Lemma append_node_obs kind r c id c' : append_node kind r c = Ok (id, c') ->
  kinds c' = kinds c ++ [kind] /\ d_attrs (c_doc c') = d_attrs (c_doc c) /\
  d_ns_values (c_doc c') = d_ns_values (c_doc c).
Proof.
  unfold append_node. cbv zeta. destruct (_ <=? _); [discriminate|]. intros H.
  apply bind_ok in H. destruct H as [nid [_ H]].
  apply bind_ok in H. destruct H as [pnd [_ H]].
  apply bind_ok in H. destruct H as [l1 [H1 H]].
  apply bind_ok in H. destruct H as [l2 [H2 H]].
  apply bind_ok in H. destruct H as [l3 [H3 H]]. injection H as _ <-.
  unfold kinds. cbn. split; [|split; reflexivity].
  rewrite (set_next_subtree_all_same nd_kind (fun x v => eq_refl) _ _ _ _ H3).
  rewrite (upd_node_same nd_kind _ _ _ _ H2 (fun x => eq_refl)).
  rewrite (upd_node_same nd_kind _ _ _ _ H1 (fun x => eq_refl)).
  rewrite map_app. reflexivity.
Qed.

Section Obs.
Variable text : bytes.

(* ---- the namespace table ---- *)
Definition push_val (vals : list namespace) (name : option str) (uri : storage) : list namespace :=
  match find_ns text vals (match name with Some s => Some (str_bytes text s) | None => None end)
                (storage_bytes text uri) 0 with
  | Some _ => vals
  | None => vals ++ [{| ns_name := name; ns_uri := uri |}]
  end.

Lemma push_ns_obs name uri d d' : push_ns text name uri d = Ok d' ->
  d_ns_values d' = push_val (d_ns_values d) name uri /\ d_nodes d' = d_nodes d /\ d_attrs d' = d_attrs d.
Proof.
  unfold push_ns, push_val. destruct (find_ns text (d_ns_values d) _ _ 0).
  - intros [= <-]. repeat split.
  - destruct (_ <? _); [discriminate|]. intros [= <-]. repeat split.
Qed.

Lemma push_ref_obs i d d' : push_ref i d = Ok d' ->
  d_nodes d' = d_nodes d /\ d_attrs d' = d_attrs d /\ d_ns_values d' = d_ns_values d.
Proof. unfold push_ref. destruct (nth_N _ _); intros H; inversion H; repeat split. Qed.

Lemma resolve_ns_loop_obs st0 : forall is d d', resolve_ns_loop text st0 is d = Ok d' ->
  d_nodes d' = d_nodes d /\ d_attrs d' = d_attrs d /\ d_ns_values d' = d_ns_values d.
Proof.
  induction is as [|i is IH]; intros d d' H; cbn [resolve_ns_loop] in H.
  - inversion H; repeat split.
  - apply bind_ok in H. destruct H as [v [_ H]]. apply bind_ok in H. destruct H as [nm [_ H]].
    apply bind_ok in H. destruct H as [exb [_ H]]. apply bind_ok in H. destruct H as [d1 [Hd H]].
    destruct (IH _ _ H) as (A & B0 & C0). rewrite A, B0, C0.
    destruct exb; [inversion Hd; repeat split|eapply push_ref_obs; eauto].
Qed.

Lemma resolve_namespaces_obs c r c' : resolve_namespaces text c = Ok (r, c') ->
  d_nodes (c_doc c') = d_nodes (c_doc c) /\ d_attrs (c_doc c') = d_attrs (c_doc c) /\
  d_ns_values (c_doc c') = d_ns_values (c_doc c) /\ c_cur_attrs c' = c_cur_attrs c /\
  c_tag_name c' = c_tag_name c /\ c_parent_id c' = c_parent_id c /\ c_opt c' = c_opt c /\ c_awaiting c' = c_awaiting c.
Proof.
  unfold resolve_namespaces. intros H. apply bind_ok in H. destruct H as [pnd [_ H]].
  destruct (nd_kind pnd).
  2:{ destruct (c_ns_start_idx c =? len_N (d_ns_tree (c_doc c))).
      - inversion H; subst. repeat split.
      - destruct nss as [pa pe]. apply bind_ok in H. destruct H as [d [Hd H]].
        apply bind_ok in H. destruct H as [r0 [_ H]]. inversion H; subst.
        destruct (resolve_ns_loop_obs _ _ _ _ Hd) as (A & B0 & C0). cbn [c_doc set_doc]. rewrite A, B0, C0. repeat split. }
  all: apply bind_ok in H; destruct H as [r0 [_ H]]; inversion H; subst; repeat split.
Qed.

Lemma resolve_attributes_obs nss c ar c' : resolve_attributes text nss c = Ok (ar, c') ->
  exists new, d_attrs (c_doc c') = d_attrs (c_doc c) ++ new /\ Forall2 fields_copied (c_cur_attrs c) new /\
              d_nodes (c_doc c') = d_nodes (c_doc c) /\ d_ns_values (c_doc c') = d_ns_values (c_doc c) /\
              c_tag_name c' = c_tag_name c /\ c_parent_id c' = c_parent_id c /\ c_opt c' = c_opt c /\
              c_awaiting c' = c_awaiting c.
Proof.
  unfold resolve_attributes. destruct (c_cur_attrs c) as [|t l] eqn:El.
  - intros [= _ <-]. exists []. rewrite app_nil_r. split; [reflexivity|]. split; [constructor|]. repeat split.
  - destruct (u32_max <=? _); [discriminate|]. intros H.
    apply bind_ok in H. destruct H as [d [Hd H]]. apply bind_ok in H. destruct H as [r0 [_ H]]. injection H as _ <-.
    destruct (resolve_attrs_loop_spec text nss (len_N (d_attrs (c_doc c))) (t :: l) (d_attrs (c_doc c)) [] (c_doc c) d [])
      as (new & names' & E1 & E2 & E3 & E4 & F1 & _); try assumption.
    + unfold len_N. lia.
    + rewrite app_nil_r. reflexivity.
    + constructor.
    + constructor.
    + exists new. cbn [c_doc set_doc set_cur_attrs c_tag_name c_parent_id c_opt c_awaiting]. split; [exact E1|]. split; [exact F1|]. repeat split; assumption.
Qed.

(* ---- the end of a start tag ---- *)
Lemma elem_end_obs e r c c' : match e with EClose _ _ => False | _ => True end -> c_after_text c = [] ->
  Parse.token text (TElementEnd e r) c = Ok c' ->
  exists tns ar nss new,
    kinds c' = kinds c ++ [KElement tns (tn_name (c_tag_name c)) ar nss] /\
    d_attrs (c_doc c') = d_attrs (c_doc c) ++ new /\ Forall2 fields_copied (c_cur_attrs c) new /\
    d_ns_values (c_doc c') = d_ns_values (c_doc c).
Proof.
  intros He Hat. unfold Parse.token. cbn [token_with]. rewrite reset_after_text_ok by (rewrite Hat; cbn; lia).
  cbn [bind]. intros H.
  assert (E0 : kinds (set_after_text c []) = kinds c /\ d_attrs (c_doc (set_after_text c [])) = d_attrs (c_doc c) /\
               d_ns_values (c_doc (set_after_text c [])) = d_ns_values (c_doc c) /\
               c_cur_attrs (set_after_text c []) = c_cur_attrs c /\ c_tag_name (set_after_text c []) = c_tag_name c)
    by (repeat split).
  revert E0 H. generalize (set_after_text c []). intros c0 (K0 & A0 & V0 & C0 & T0) H.
  unfold process_element in H. destruct (slice_len _ =? 0).
  { destruct e; try discriminate. destruct He. }
  apply bind_ok in H. destruct H as [[nss c1] [H1 H]]. cbv beta iota zeta in H.
  destruct (resolve_namespaces_obs _ _ _ H1) as (N1 & A1 & V1 & C1 & T1 & _).
  apply bind_ok in H. destruct H as [[ar c3] [H3 H]]. cbv beta iota in H.
  destruct (resolve_attributes_obs _ _ _ _ H3) as (new & A3 & F3 & N3 & V3 & T3 & _).
  cbn [c_doc set_ns_start_idx c_cur_attrs c_tag_name d_attrs d_nodes d_ns_values] in A3, F3, N3, V3, T3.
  assert (Hk : kinds c3 = kinds c) by (unfold kinds in *; rewrite N3, N1; exact K0).
  assert (Ha : d_attrs (c_doc c3) = d_attrs (c_doc c) ++ new) by (rewrite A3, A1, A0; reflexivity).
  assert (Hv : d_ns_values (c_doc c3) = d_ns_values (c_doc c)) by (rewrite V3, V1; exact V0).
  assert (Ht : c_tag_name c3 = c_tag_name c) by (rewrite T3, T1; exact T0).
  rewrite C1, C0 in F3.
  destruct e; [|destruct He|].
  - apply bind_ok in H. destruct H as [idx [_ H]]. apply bind_ok in H. destruct H as [[id c4] [H4 H]].
    injection H as <-. destruct (append_node_obs _ _ _ _ _ H4) as (K4 & A4 & V4).
    exists idx, ar, nss, new. unfold kinds in *.
    cbn [c_doc set_parent_prefixes set_parent_id]. rewrite K4, A4, V4, Hk, Ha, Hv, Ht. repeat split. exact F3.
  - apply bind_ok in H. destruct H as [idx [_ H]]. apply bind_ok in H. destruct H as [[id c4] [H4 H]].
    injection H as <-. destruct (append_node_obs _ _ _ _ _ H4) as (K4 & A4 & V4).
    exists idx, ar, nss, new. unfold kinds in *.
    cbn [c_doc set_awaiting]. rewrite K4, A4, V4, Hk, Ha, Hv, Ht. repeat split. exact F3.
Qed.

(* ---- an entry of a start tag ---- *)
Lemma attr_tok_obs r ql el prefix local value c c' stor :
  normalize_attribute text value c = Ok (stor, c) ->
  Parse.token text (TAttribute r ql el prefix local value) c = Ok c' ->
  d_nodes (c_doc c') = d_nodes (c_doc c) /\ d_attrs (c_doc c') = d_attrs (c_doc c) /\
  c_tag_name c' = c_tag_name c /\ c_entities c' = c_entities c /\ c_ld c' = c_ld c /\ c_after_text c' = c_after_text c /\
  let pb := slice_bytes text prefix in
  let lb := slice_bytes text local in
  let vb := storage_bytes text stor in
  if bytes_eqb pb xmlns_str then
    c_cur_attrs c' = c_cur_attrs c /\
    d_ns_values (c_doc c') = (if bytes_eqb vb ns_xml_uri then d_ns_values (c_doc c)
                              else push_val (d_ns_values (c_doc c)) (Some (SIn local)) stor)
  else if (slice_len prefix =? 0) && bytes_eqb lb xmlns_str then
    c_cur_attrs c' = c_cur_attrs c /\ d_ns_values (c_doc c') = push_val (d_ns_values (c_doc c)) None stor
  else
    d_ns_values (c_doc c') = d_ns_values (c_doc c) /\
    c_cur_attrs c' = c_cur_attrs c ++ [{| ta_prefix := prefix; ta_local := local; ta_value := stor; ta_range := r;
                                          ta_qname_len := ql; ta_eq_len := el |}].
Proof.
  intros Hn. unfold Parse.token. cbn [token_with]. unfold process_attribute. rewrite Hn. cbn [bind]. cbv zeta.
  destruct (bytes_eqb (slice_bytes text prefix) xmlns_str).
  - destruct (bytes_eqb (slice_bytes text local) xmlns_str); [intros H; exfalso; exact (AttrListProofs.err_from_not_ok _ _ _ _ _ H)|].
    destruct (bytes_eqb (storage_bytes text stor) ns_xmlns_uri); [intros H; exfalso; exact (AttrListProofs.err_from_not_ok _ _ _ _ _ H)|].
    destruct (bytes_eqb (storage_bytes text stor) ns_xml_uri) eqn:Ex; cbn [negb andb].
    + rewrite andb_false_r. destruct (_ && true); [intros H; exfalso; exact (AttrListProofs.err_from_not_ok _ _ _ _ _ H)|].
      intros H. apply bind_ok in H. destruct H as [ex [_ H]].
      destruct ex; [exfalso; exact (AttrListProofs.err_from_not_ok _ _ _ _ _ H)|]. injection H as <-. repeat split.
    + rewrite !andb_true_r. destruct (bytes_eqb (slice_bytes text local) ns_xml_prefix); cbn [negb];
        [intros H; exfalso; exact (AttrListProofs.err_from_not_ok _ _ _ _ _ H)|].
      intros H. apply bind_ok in H. destruct H as [ex [_ H]].
      destruct ex; [exfalso; exact (AttrListProofs.err_from_not_ok _ _ _ _ _ H)|].
      apply bind_ok in H. destruct H as [d [Hd H]]. injection H as <-.
      destruct (push_ns_obs _ _ _ _ Hd) as (V & N0 & A). cbn [c_doc set_doc c_tag_name c_entities c_ld c_after_text c_cur_attrs].
      repeat split; assumption.
  - destruct ((slice_len prefix =? 0) && bytes_eqb (slice_bytes text local) xmlns_str).
    + destruct (bytes_eqb (storage_bytes text stor) ns_xml_uri); [intros H; exfalso; exact (AttrListProofs.err_from_not_ok _ _ _ _ _ H)|].
      destruct (bytes_eqb (storage_bytes text stor) ns_xmlns_uri); [intros H; exfalso; exact (AttrListProofs.err_from_not_ok _ _ _ _ _ H)|].
      intros H. apply bind_ok in H. destruct H as [ex [_ H]].
      destruct ex; [exfalso; exact (AttrListProofs.err_from_not_ok _ _ _ _ _ H)|].
      apply bind_ok in H. destruct H as [d [Hd H]]. injection H as <-.
      destruct (push_ns_obs _ _ _ _ Hd) as (V & N0 & A). cbn [c_doc set_doc c_tag_name c_entities c_ld c_after_text c_cur_attrs].
      repeat split; assumption.
    + intros [= <-]. repeat split.
Qed.

(* ---- tokens that leave the namespace table alone ---- *)
Lemma reset_after_text_nsv c c' : reset_after_text text c = Ok c' ->
  d_ns_values (c_doc c') = d_ns_values (c_doc c) /\ c_cur_attrs c' = c_cur_attrs c.
Proof.
  unfold reset_after_text. destruct (c_after_text c) as [|x [|y l]].
  - intros [= <-]. split; reflexivity.
  - intros [= <-]. split; reflexivity.
  - intros H. apply bind_ok in H. destruct H as [c1 [H1 H]]. injection H as <-.
    unfold merge_text in H1. cbv zeta in H1. destruct (rev (d_nodes (c_doc c))); [discriminate|].
    destruct (nd_kind n); try discriminate.
    apply bind_ok in H1. destruct H1 as [nodes' [_ H2]]. injection H2 as <-. split; reflexivity.
Qed.

Lemma leaf_nsv kind r c c' :
  (let! c1 := reset_after_text text c in let! (_, c2) := append_node kind r c1 in Ok c2) = Ok c' ->
  d_ns_values (c_doc c') = d_ns_values (c_doc c).
Proof.
  intros H. apply bind_ok in H. destruct H as [c1 [H1 H]].
  apply bind_ok in H. destruct H as [[id c2] [H2 H]]. injection H as <-.
  destruct (reset_after_text_nsv _ _ H1) as [E1 _].
  destruct (append_node_obs _ _ _ _ _ H2) as (_ & _ & E2). congruence.
Qed.

Lemma comment_nsv s r c c' : Parse.token text (TComment s r) c = Ok c' -> d_ns_values (c_doc c') = d_ns_values (c_doc c).
Proof. apply leaf_nsv. Qed.
Lemma pi_nsv t v r c c' : Parse.token text (TPI t v r) c = Ok c' -> d_ns_values (c_doc c') = d_ns_values (c_doc c).
Proof. apply leaf_nsv. Qed.

Lemma close_nsv pfx loc r c c' : Parse.token text (TElementEnd (EClose pfx loc) r) c = Ok c' ->
  d_ns_values (c_doc c') = d_ns_values (c_doc c).
Proof.
  unfold Parse.token. cbn [token_with]. intros H.
  apply bind_ok in H. destruct H as [c0 [H0 H]]. destruct (reset_after_text_nsv _ _ H0) as [V0 _].
  unfold process_element in H. destruct (slice_len _ =? 0).
  { exfalso. exact (AttrListProofs.err_from_not_ok _ _ _ _ _ H). }
  apply bind_ok in H. destruct H as [[nss c1] [H1 H]]. cbv beta iota zeta in H.
  destruct (resolve_namespaces_obs _ _ _ H1) as (_ & _ & V1 & _).
  apply bind_ok in H. destruct H as [[ar c3] [H3 H]]. cbv beta iota in H.
  destruct (resolve_attributes_obs _ _ _ _ H3) as (new & _ & _ & _ & V3 & _).
  cbn [c_doc set_ns_start_idx d_ns_values] in V3.
  destruct (_ <=? _). { exfalso. exact (AttrListProofs.err_from_not_ok _ _ _ _ _ H). }
  apply bind_ok in H. destruct H as [pnd [_ H]].
  apply bind_ok in H. destruct H as [pp [_ H]].
  apply bind_ok in H. destruct H as [nodes' [_ H]].
  apply bind_ok in H. destruct H as [_ [_ H]].
  destruct (nd_parent pnd); [|exfalso; exact (AttrListProofs.err_from_not_ok _ _ _ _ _ H)].
  destruct (removelast _); [discriminate|]. injection H as <-. cbn. congruence.
Qed.

End Obs.

(* ------------------------------------------------------------------------------------------ *)
(* descriptions and stored values                                                             *)
(* ------------------------------------------------------------------------------------------ *)
Definition sl_of (sp : N * N) : slice := sl (fst sp) (snd sp).
Definition stor_of (t : tstore) : storage :=
  match t with TBorrowed sp => Borrowed (SIn (sl_of sp)) | TOwned bs => Owned bs end.
Definition nsv_of (d : fnsdesc) : namespace :=
  {| ns_name := match fn_prefix d with Some sp => Some (SIn (sl_of sp)) | None => None end;
     ns_uri := stor_of (fn_uri d) |}.

Lemma stored_stor_of st d : stored st d -> st = stor_of d.
Proof.
  destruct st as [[s|bs]|bs], d as [sp|bs']; cbn [stored stor_of]; try contradiction.
  - intros <-. destruct s; reflexivity.
  - intros <-. reflexivity.
Qed.

Lemma stor_of_stored d : stored (stor_of d) d.
Proof. destruct d as [[a e]|bs]; reflexivity. Qed.

(* ---- dedupe ---- *)
Lemma dedupe_app {A} : forall (l1 l2 : list (Scope.binding * A)) seen,
  dedupe seen (l1 ++ l2) = dedupe seen l1 ++ dedupe (seen ++ map fst (dedupe seen l1)) l2.
Proof.
  induction l1 as [|[k d] l1 IH]; intros l2 seen; cbn [app dedupe map].
  - rewrite app_nil_r. reflexivity.
  - destruct (existsb (fun s => key_eqb s k) seen).
    + apply IH.
    + cbn [app map fst]. rewrite IH, <- app_assoc. reflexivity.
Qed.

Lemma dedupe_map {A B} (f : A -> B) : forall (l : list (Scope.binding * A)) seen,
  dedupe seen (map (fun kd => (fst kd, f (snd kd))) l) = map (fun kd => (fst kd, f (snd kd))) (dedupe seen l).
Proof.
  induction l as [|[k d] l IH]; intros seen; cbn [map dedupe fst snd]; [reflexivity|].
  destruct (existsb (fun s => key_eqb s k) seen); [apply IH|]. cbn [map fst snd]. rewrite IH. reflexivity.
Qed.

Lemma dedupe_Forall {A} (P : Scope.binding * A -> Prop) : forall l seen, Forall P l -> Forall P (dedupe seen l).
Proof.
  induction l as [|[k d] l IH]; intros seen H; cbn [dedupe]; [constructor|].
  inversion H; subst. destruct (existsb _ seen); [apply IH; assumption|constructor; [assumption|apply IH; assumption]].
Qed.

Section NsTable.
Variable text : bytes.
Notation pair_of := (CstNsBuild.pair_of text).

(* pushing a record: as Builder.push_ns does *)
Definition push_rec (vals : list namespace) (v : namespace) : list namespace :=
  match find_ns text vals (ns_name_bytes text v) (storage_bytes text (ns_uri v)) 0 with
  | Some _ => vals
  | None => vals ++ [v]
  end.

Lemma push_val_rec vals name uri : push_val text vals name uri = push_rec vals {| ns_name := name; ns_uri := uri |}.
Proof. reflexivity. Qed.

Lemma opt_str_prefix_eqb x y : opt_str_eqb x y = Scope.prefix_eqb x y.
Proof. destruct x, y; cbn; try reflexivity; symmetry; apply CstNsBuild.sb_eqb. Qed.

Lemma find_ns_existsb name uri : forall vals i,
  match find_ns text vals name uri i with Some _ => true | None => false end =
  existsb (fun s => key_eqb s (name, uri)) (map pair_of vals).
Proof.
  induction vals as [|v r IH]; intros i; cbn [find_ns map existsb]; [reflexivity|].
  change (key_eqb (pair_of v) (name, uri))
    with (opt_str_eqb (ns_name_bytes text v) name && bytes_eqb (storage_bytes text (ns_uri v)) uri).
  destruct (opt_str_eqb (ns_name_bytes text v) name && bytes_eqb (storage_bytes text (ns_uri v)) uri); [reflexivity|].
  cbn [orb]. apply IH.
Qed.

Definition push_all (vals : list namespace) (l : list namespace) : list namespace := fold_left push_rec l vals.

Lemma push_all_dedupe : forall (l : list (Scope.binding * namespace)) vals,
  Forall (fun kn => pair_of (snd kn) = fst kn) l ->
  push_all vals (map snd l) = vals ++ map snd (dedupe (map pair_of vals) l).
Proof.
  induction l as [|[k v] l IH]; intros vals HF; cbn [map push_all fold_left dedupe snd].
  - rewrite app_nil_r. reflexivity.
  - inversion HF as [|? ? Hk HF']; subst. cbn [fst snd] in Hk.
    fold (push_all (push_rec vals v) (map snd l)). rewrite (IH _ HF'). unfold push_rec.
    pose proof (find_ns_existsb (ns_name_bytes text v) (storage_bytes text (ns_uri v)) vals 0) as E.
    change (ns_name_bytes text v, storage_bytes text (ns_uri v)) with (pair_of v) in E. rewrite Hk in E.
    destruct (find_ns text vals _ _ 0); rewrite <- E.
    + reflexivity.
    + rewrite map_app. cbn [map]. rewrite Hk, <- app_assoc. reflexivity.
Qed.

(* how the table grows over a sequence of declarations *)
Definition NsVals (vals vals' : list namespace) (ds : list (Scope.binding * fnsdesc)) : Prop :=
  Forall (fun kd => pair_of (nsv_of (snd kd)) = fst kd) ds /\
  vals' = vals ++ map nsv_of (map snd (dedupe (map pair_of vals) ds)).

Lemma NsVals_nil vals : NsVals vals vals [].
Proof. split; [constructor|]. cbn. rewrite app_nil_r. reflexivity. Qed.

Lemma NsVals_app v0 v1 v2 d1 d2 : NsVals v0 v1 d1 -> NsVals v1 v2 d2 -> NsVals v0 v2 (d1 ++ d2).
Proof.
  intros [F1 E1] [F2 E2]. split; [apply Forall_app; split; assumption|].
  rewrite dedupe_app, !map_app, app_assoc, <- E1. rewrite E2. f_equal. f_equal. f_equal. f_equal.
  rewrite E1 at 1. rewrite map_app. f_equal.
  pose proof (dedupe_Forall _ d1 (map pair_of v0) F1) as HF. clear - HF.
  induction HF as [|[k d] l Hk _ IH]; [reflexivity|]. cbn [map fst snd] in *. rewrite IH, Hk. reflexivity.
Qed.

End NsTable.

(* ------------------------------------------------------------------------------------------ *)
(* the entries of a start tag                                                                 *)
(* ------------------------------------------------------------------------------------------ *)
Section Entries.
Variable text : bytes.
Variable D : list Scope.binding.
Hypothesis HD : forall l, NoDup l -> incl l D -> N.of_nat (length l) <= 65535.
Variable es0 : list entity.

Notation W := (CstLex.W text).
Notation ev := (tok_ev text).
Notation NC := (CstFullBuild.NC es0).
Notation pair_of := (CstNsBuild.pair_of text).
Notation entry_slices := (CstNsBuild.entry_slices text D HD).
Import CstNs.

(* the records pushed for the declarations among the entries rendered at q *)
Definition sdecl_rec (q : N) (x : sentry) : list (Scope.binding * namespace) :=
  match s_den x with
  | EAttr _ _ _ => []
  | EDecl _ p u =>
    if bytes_eqb p ns_xml_prefix then []
    else [((match p with [] => None | _ => Some p end, u),
           {| ns_name := match p with [] => None | _ => Some (SIn (ta_local (ta_e q (s_raw x)))) end;
              ns_uri := s_stor x |})]
  end.
Fixpoint sdecls (q : N) (xs : list sentry) : list (Scope.binding * namespace) :=
  match xs with [] => [] | x :: r => sdecl_rec q x ++ sdecls (q + blen (r_entry (s_raw x))) r end.

Lemma sdecl_rec_key q x more : W q (r_entry (s_raw x) ++ more) -> sentry_ok text es0 q x ->
  Forall (fun kn => pair_of (snd kn) = fst kn) (sdecl_rec q x).
Proof.
  intros HW (Hsh & _ & Hst). destruct (entry_slices _ _ _ HW) as (_ & S2 & _).
  rewrite (same_shape_qname _ _ Hsh) in S2.
  unfold sdecl_rec. destruct (s_den x) as [l n v|l p u]; [constructor|].
  destruct (bytes_eqb p ns_xml_prefix); [constructor|]. constructor; [|constructor].
  cbn [fst snd]. unfold CstNsBuild.pair_of, ns_name_bytes. cbn [ns_name ns_uri e_value] in *. rewrite Hst.
  destruct p as [|x0 pr]; [reflexivity|]. cbn [str_bytes e_qname q_local] in *. rewrite S2. reflexivity.
Qed.

Lemma entry_obs q x more c c1 :
  W q (r_entry (s_raw x) ++ more) -> sentry_ok text es0 q x -> CstFull.ns_entry_ok (s_den x) = true -> NC c ->
  ev (entry_tok q (s_raw x)) c = Ok c1 ->
  NC c1 /\ d_nodes (c_doc c1) = d_nodes (c_doc c) /\ d_attrs (c_doc c1) = d_attrs (c_doc c) /\
  c_tag_name c1 = c_tag_name c /\ c_after_text c1 = c_after_text c /\
  c_cur_attrs c1 = c_cur_attrs c ++ tas_g q [x] /\
  d_ns_values (c_doc c1) = push_all text (d_ns_values (c_doc c)) (map snd (sdecl_rec q x)).
Proof.
  intros HW (Hsh & Hnorm & Hst) Hns HC. destruct (entry_slices _ _ _ HW) as (S1 & S2 & _).
  pose proof (same_shape_qname _ _ Hsh) as Eq. rewrite Eq in S1, S2.
  unfold tok_ev, entry_tok. cbv zeta. intros H.
  match type of H with Parse.token text (TAttribute ?r ?ql ?el ?pf ?lc ?v) c = _ =>
    pose proof (attr_tok_obs text r ql el pf lc v c c1 (s_stor x) (Hnorm c HC) H) as (N1 & A1 & T1 & E1 & L1 & At1 & Hcase) end.
  cbv zeta in Hcase. unfold ta_e in S1, S2. cbv zeta in S1, S2. cbn [ta_prefix ta_local] in S1, S2.
  rewrite S1, S2, Hst in Hcase.
  split; [destruct HC as [H1 H2]; split; congruence|]. split; [exact N1|]. split; [exact A1|]. split; [exact T1|].
  split; [exact At1|].
  unfold sdecl_rec. cbn [tas_g]. rewrite app_nil_r.
  destruct x as [e d stor]. cbn [s_raw s_den s_stor] in *.
  destruct d as [l n v|l p u]; cbn [e_qname e_value map push_all fold_left app] in *.
  - (* an ordinary attribute *)
    unfold CstFull.ns_entry_ok in Hns. rewrite !andb_true_iff in Hns. destruct Hns as [Hx1 Hx2].
    change xmlns_b with xmlns_str in Hx1, Hx2. apply negb_true_iff in Hx1.
    change Scope.bytes_eqb with bytes_eqb in Hx1, Hx2. rewrite Hx1 in Hcase.
    replace ((slice_len (sl (q + blen (l_ws (e_layout e))) (q + blen (l_ws (e_layout e)) + blen (q_prefix (e_qname e)))) =? 0)
             && bytes_eqb (q_local n) xmlns_str) with false in Hcase.
    2:{ unfold slice_len. cbn [sl sl_start sl_end]. apply negb_true_iff in Hx2. rewrite Eq.
        destruct (q_prefix n) as [|x0 pr]; [rewrite Hx2; symmetry; apply andb_false_r|].
        rewrite blen_cons. replace (q + blen (l_ws (e_layout e)) + (1 + blen pr) - (q + blen (l_ws (e_layout e))) =? 0) with false by lia. reflexivity. }
    destruct Hcase as [V C0]. split; [|exact V]. exact C0.
  - (* a declaration *)
    destruct (ns_entry_decl_parts _ _ _ Hns) as (N3 & N4 & N5).
    destruct p as [|x0 pr]; cbn [e_qname q_prefix q_local] in *.
    + change (bytes_eqb [] xmlns_str) with false in Hcase. cbv iota in Hcase.
      unfold slice_len in Hcase. cbn [sl sl_start sl_end] in Hcase. rewrite Eq in Hcase. cbn [q_prefix] in Hcase.
      change (blen []) with 0 in Hcase.
      replace (q + blen (l_ws (e_layout e)) + 0 - (q + blen (l_ws (e_layout e))) =? 0) with true in Hcase by lia.
      change (bytes_eqb xmlns_b xmlns_str) with true in Hcase. cbn [andb] in Hcase.
      destruct Hcase as [C0 V]. change (bytes_eqb [] ns_xml_prefix) with false. cbv iota.
      cbn [map snd push_all fold_left]. rewrite <- push_val_rec. rewrite app_nil_r. split; [exact C0|exact V].
    + change (bytes_eqb xmlns_b xmlns_str) with true in Hcase. cbv iota in Hcase. destruct Hcase as [C0 V].
      rewrite app_nil_r. split; [exact C0|]. rewrite V.
      change Scope.bytes_eqb with bytes_eqb in *. change Scope.xml_prefix with ns_xml_prefix in *.
      destruct (bytes_eqb (x0 :: pr) ns_xml_prefix).
      * rewrite N5. reflexivity.
      * rewrite N5. cbn [map snd push_all fold_left]. rewrite <- push_val_rec. unfold ta_e. cbv zeta. cbn [ta_local]. reflexivity.
Qed.

Lemma entries_obs more : forall xs q c c1,
  W q (flat_map r_entry (raws xs) ++ more) -> sentries_ok text es0 q xs ->
  forallb CstFull.ns_entry_ok (dens xs) = true -> NC c ->
  evs context ev (entry_toks q (raws xs)) c = Ok c1 ->
  NC c1 /\ d_nodes (c_doc c1) = d_nodes (c_doc c) /\ d_attrs (c_doc c1) = d_attrs (c_doc c) /\
  c_tag_name c1 = c_tag_name c /\ c_after_text c1 = c_after_text c /\
  c_cur_attrs c1 = c_cur_attrs c ++ tas_g q xs /\
  d_ns_values (c_doc c1) = push_all text (d_ns_values (c_doc c)) (map snd (sdecls q xs)) /\
  Forall (fun kn => pair_of (snd kn) = fst kn) (sdecls q xs).
Proof.
  induction xs as [|x xs IH]; intros q c c1 HW Hok Hns HC H.
  - cbn [raws map entry_toks evs] in H. injection H as <-. cbn [tas_g sdecls map push_all fold_left]. rewrite app_nil_r.
    split; [exact HC|]. repeat split. constructor.
  - cbn [dens map forallb] in Hns. apply andb_true_iff in Hns. destruct Hns as [Hw1 Hw2]. fold (dens xs) in Hw2.
    cbn [sentries_ok] in Hok. destruct Hok as [Ho1 Ho2].
    cbn [raws map flat_map] in HW. fold (raws xs) in HW. rewrite <- app_assoc in HW.
    cbn [raws map entry_toks evs] in H. fold (raws xs) in H. apply bind_ok in H. destruct H as [c0 [H0 H]].
    destruct (entry_obs q x _ c c0 HW Ho1 Hw1 HC H0) as (HC0 & N0 & A0 & T0 & At0 & C0 & V0).
    destruct (IH _ c0 c1 (W_app _ _ _ _ HW) Ho2 Hw2 HC0 H) as (HC1 & N1 & A1 & T1 & At1 & C1 & V1 & K1).
    split; [exact HC1|]. split; [congruence|]. split; [congruence|]. split; [congruence|]. split; [congruence|].
    split; [rewrite C1, C0, <- app_assoc, (tas_g_cons q x xs); reflexivity|].
    split.
    + rewrite V1, V0. cbn [sdecls]. rewrite map_app. unfold push_all. rewrite fold_left_app. reflexivity.
    + cbn [sdecls]. apply Forall_app. split; [apply (sdecl_rec_key q x _ HW Ho1)|exact K1].
Qed.

Lemma entry_toks_attrs : forall es q,
  Forall (fun t => match t with TAttribute _ _ _ _ _ _ => True | _ => False end) (entry_toks q es).
Proof. induction es as [|e r IH]; intros q; cbn [entry_toks]; constructor; [exact Logic.I|apply IH]. Qed.

(* a whole start tag *)
Lemma start_tag_obs p name xs q' empty more c c' :
  W (p + 1 + blen (r_qname name)) (flat_map r_entry (raws xs) ++ more) ->
  sentries_ok text es0 (p + 1 + blen (r_qname name)) xs ->
  forallb CstFull.ns_entry_ok (dens xs) = true -> NC c -> c_after_text c = [] -> c_cur_attrs c = [] ->
  (let! c1 := evs context ev (start_toks_ns p name (raws xs)) c in ev (end_tok q' empty) c1) = Ok c' ->
  exists tns ar nss new,
    kinds c' = kinds c ++ [KElement tns (sl (p + 1 + q_off name) (p + 1 + blen (r_qname name))) ar nss] /\
    d_attrs (c_doc c') = d_attrs (c_doc c) ++ new /\
    Forall2 fields_copied (tas_g (p + 1 + blen (r_qname name)) xs) new /\
    d_ns_values (c_doc c') =
      push_all text (d_ns_values (c_doc c)) (map snd (sdecls (p + 1 + blen (r_qname name)) xs)) /\
    Forall (fun kn => pair_of (snd kn) = fst kn) (sdecls (p + 1 + blen (r_qname name)) xs) /\
    rng c' = rng c ++ [(p, q' + (if empty then 2 else 1))].
Proof.
  intros HW Hok Hns HC Hat Hcur H.
  assert (Hrng : rng c' = rng c ++ [(p, q' + (if empty then 2 else 1))]).
  { pose proof H as H'. apply bind_ok in H'. destruct H' as [c1 [H1 H2]].
    unfold start_toks_ns in H1. cbn [evs] in H1. apply bind_ok in H1. destruct H1 as [c0 [H0 H1]].
    destruct (start_rng text _ _ _ _ _ H0) as [E0 T0].
    destruct (attrs_rng text _ _ (entry_toks_attrs _ _) _ H1) as (E1 & T1 & _).
    unfold end_tok in H2. apply elem_end_rng in H2; [|destruct empty; exact Logic.I].
    rewrite H2, E1, E0, T1, T0. reflexivity. }
  apply bind_ok in H. destruct H as [c1 [H1 H2]].
  unfold start_toks_ns in H1. cbn [evs] in H1. apply bind_ok in H1. destruct H1 as [c0 [H0 H1]].
  (* ElementStart *)
  unfold tok_ev, Parse.token in H0. cbn [token_with] in H0.
  rewrite reset_after_text_ok in H0 by (rewrite Hat; cbn; lia). cbn [bind] in H0.
  destruct (bytes_eqb _ xmlns_str); [exfalso; exact (AttrListProofs.err_from_not_ok _ _ _ _ _ H0)|]. injection H0 as <-.
  match type of H1 with evs _ _ _ ?cc = _ => set (c0 := cc) in * end.
  assert (HC0 : NC c0) by (destruct HC as [A1 A2]; split; [exact A1|exact A2]).
  destruct (entries_obs _ xs _ c0 c1 HW Hok Hns HC0 H1) as (HC1 & N1 & A1 & T1 & At1 & C1 & V1 & K1).
  unfold end_tok in H2.
  assert (He : match (if empty then EEmpty else EOpen) with EClose _ _ => False | _ => True end) by (destruct empty; exact Logic.I).
  assert (Hat1 : c_after_text c1 = []) by (rewrite At1; reflexivity).
  destruct (elem_end_obs text _ _ c1 c' He Hat1 H2)
    as (tns & ar & nss & new & K2 & A2 & F2 & V2).
  exists tns, ar, nss, new.
  change (c_cur_attrs c0) with (c_cur_attrs c) in C1. rewrite Hcur in C1. cbn [app] in C1. rewrite C1 in F2.
  split.
  { rewrite K2. unfold kinds. rewrite N1, T1. reflexivity. }
  split; [rewrite A2, A1; reflexivity|]. split; [exact F2|]. split; [rewrite V2, V1; reflexivity|].
  split; [exact K1|exact Hrng].
Qed.

End Entries.
