(* Proofs/CstFullNsRejBuild.v -- C06/C08 on the capstone fragment, rejection half, the builder: Proofs/NsRejBuild.v (the real
   callback on the tokens of a start tag that violates a namespace rule answers the error of that rule) for start tags
   whose entries have values with references (the [sentry] of Proofs/CstFullBuild.v: what is written, what it denotes,
   how it is stored), in a text that is valid UTF-8 -- and, as in Proofs/CstFullS4Build.v, in ANY context that can occur
   while the value of an entity is read ([start_tag_transport]: the start tag at c is the start tag at the shadow of c,
   put back; whatever the outcome). *)
From Coq Require Import Ascii String.
From Coq Require Import List NArith PeanoNat Bool Lia ZifyBool ZifyN ZifyNat.
Import ListNotations.
From RX Require Import Generated.
From RX.Model Require Import Base CharClass Stream Tokenizer Doc Builder Parse.
From RX.Spec Require Cst CstText CstEnt Detector Scope CstNs CstFull.
From RX.Spec Require Import Text.
From RX.Proofs Require Import Tactics CstLex CstBuild CstNsLex CstNsView CstNsBuild CstNsTree CstFullBuild.
From RX.Proofs Require Import CstEntText CstEntCFloor CstEntCBuild CstFullS2Build CstFullS4Build.
From RX.Proofs Require Import NsRejDefs.
From RX.Proofs Require NsRejBuild PositionProofs ScopeProofs.
Open Scope N_scope.

Import CstNs.

Notation rule_error := NsRejBuild.rule_error.
Notation is_ns_error := NsRejBuild.is_ns_error.
Notation unbound_elem := NsRejBuild.unbound_elem.
Notation unbound_attr := NsRejBuild.unbound_attr.

(* an ordinary attribute is not named xmlns / xmlns:p (such an entry IS a declaration: Spec/CstFull.v puts this
   condition on the syntax into [ns_entry_ok]) *)
Definition attr_name_ok (e : entry) : bool :=
  match e with
  | EAttr _ n _ =>
    negb (Scope.bytes_eqb (q_prefix n) xmlns_b)
    && negb (match q_prefix n with [] => Scope.bytes_eqb (q_local n) xmlns_b | _ => false end)
  | EDecl _ _ _ => true
  end.

Lemma ns_entry_ok_split e : CstFull.ns_entry_ok e = attr_name_ok e && ns_entry e.
Proof. destruct e as [l n v|l p u]; unfold CstFull.ns_entry_ok, attr_name_ok, ns_entry; [rewrite andb_true_r|]; reflexivity. Qed.

Lemma ns_entries_ok_split es : forallb CstFull.ns_entry_ok es = forallb attr_name_ok es && forallb ns_entry es.
Proof. apply forallb_andb. apply ns_entry_ok_split. Qed.

Section Rej.
Variable text : bytes.
Hypothesis Hvalid : valid_utf8_b text = true.
Variable D : list Scope.binding.
Hypothesis HD : forall l, NoDup l -> incl l D -> N.of_nat (length l) <= 65535.
Variable es0 : list entity.

Notation W := (CstLex.W text).
Notation ev := (tok_ev text).
Notation evl := (CstEntCBuild.evl text).
Notation TI := (CstNsBuild.TI text D).
Notation CIn := (CstNsBuild.CIn text D).
Notation NC := (CstFullBuild.NC es0).
Notation sentry_ok := (CstFullBuild.sentry_ok text es0).
Notation sentries_ok := (CstFullBuild.sentries_ok text es0).

(* in valid UTF-8 the position of an error is always computable *)
Lemma err_from_v {A} p mk : exists tp, @err_from text A p mk = Err (mk tp).
Proof.
  unfold err_from, gen_text_pos_from, gen_text_pos_at.
  assert (Hle : N.min p (tlen text) <= tlen text) by lia.
  rewrite (PositionProofs.valid_floor_boundary text _ Hvalid Hle).
  pose proof (PositionProofs.floor_boundary_fuel_le text 4 (N.min p (tlen text))) as Hf. fold (floor_boundary text (N.min p (tlen text))) in Hf.
  replace (tlen text <? floor_boundary text (N.min p (tlen text))) with false by lia. cbn [orb negb bind].
  eexists. reflexivity.
Qed.

(* ---- a declaration that violates N3-N6 ---- *)
Lemma tok_entry_rej_g q x more c start own1 rl :
  W q (r_entry (s_raw x) ++ more) -> sentry_ok q x -> NC c -> entry_viol own1 (s_den x) = Some rl -> TI start own1 c ->
  exists er, ev (entry_tok q (s_raw x)) c = Err er /\ rule_error rl er = true.
Proof.
  intros HW (Hsh & Hnorm & Hst) HC Hv T. destruct (entry_slices text D HD _ _ _ HW) as (S1 & S2 & _).
  pose proof (same_shape_qname _ _ Hsh) as Eq. rewrite Eq in S1, S2.
  unfold tok_ev, Parse.token, entry_tok. cbv zeta. cbn [token_with].
  unfold ta_e in S1, S2. cbv zeta in S1, S2. cbn [ta_prefix ta_local] in S1, S2.
  unfold process_attribute.
  match goal with |- context [normalize_attribute text ?v c] => change v with (vsl q (s_raw x)) end.
  rewrite (Hnorm c HC). cbn [bind]. rewrite S1, S2, Hst.
  destruct x as [e d stor]. cbn [s_raw s_den s_stor] in *.
  destruct d as [l n v|l p u]; [discriminate|]. cbn [e_qname e_value e_layout] in *.
  destruct T as [T1 T2 T3 T4 T5].
  unfold entry_viol in Hv.
  change Scope.bytes_eqb with bytes_eqb in Hv. change xmlns_uri with ns_xmlns_uri in Hv.
  change Scope.xml_uri with ns_xml_uri in Hv. change Scope.xml_prefix with ns_xml_prefix in Hv.
  change xmlns_b with xmlns_str in Hv.
  destruct p as [|x0 pr]; cbn [e_qname q_prefix q_local entry_viol] in *.
  - (* xmlns="u" *)
    change (bytes_eqb [] xmlns_str) with false. cbv iota.
    unfold slice_len. cbn [sl sl_start sl_end]. rewrite Eq. cbn [q_prefix]. change (blen []) with 0.
    replace (q + blen (l_ws (e_layout e)) + 0 - (q + blen (l_ws (e_layout e))) =? 0) with true by lia.
    change (bytes_eqb xmlns_b xmlns_str) with true. cbn [andb].
    destruct (bytes_eqb u ns_xml_uri).
    { injection Hv as <-. match goal with |- context [err_from text ?a ?m] => destruct (@err_from_v context a m) as [tp E] end.
      rewrite E. eexists. split; reflexivity. }
    destruct (bytes_eqb u ns_xmlns_uri).
    { injection Hv as <-. match goal with |- context [err_from text ?a ?m] => destruct (@err_from_v context a m) as [tp E] end.
      rewrite E. eexists. split; reflexivity. }
    rewrite T1. rewrite (ScopeProofs.ns_exists_spec text (c_doc c) start None own1 T2 T4). cbn [bind].
    match type of Hv with context [declared own1 ?k] =>
      match goal with |- context [existsb ?f own1] => change (existsb f own1) with (declared own1 k) end;
      destruct (declared own1 k); [|discriminate] end.
    injection Hv as <-. match goal with |- context [err_from text ?a ?m] => destruct (@err_from_v context a m) as [tp E] end.
    rewrite E. eexists. split; reflexivity.
  - (* xmlns:p="u" *)
    set (p := x0 :: pr) in *.
    change (bytes_eqb xmlns_b xmlns_str) with true. cbv iota.
    destruct (bytes_eqb p xmlns_str).
    { injection Hv as <-. match goal with |- context [err_from text ?a ?m] => destruct (@err_from_v context a m) as [tp E] end.
      rewrite E. eexists. split; reflexivity. }
    destruct (bytes_eqb u ns_xmlns_uri).
    { injection Hv as <-. match goal with |- context [err_from text ?a ?m] => destruct (@err_from_v context a m) as [tp E] end.
      rewrite E. eexists. split; reflexivity. }
    destruct (bytes_eqb p ns_xml_prefix).
    { destruct (bytes_eqb u ns_xml_uri); [discriminate|]. cbn [negb andb].
      injection Hv as <-. match goal with |- context [err_from text ?a ?m] => destruct (@err_from_v context a m) as [tp E] end.
      rewrite E. eexists. split; reflexivity. }
    cbn [negb andb].
    destruct (bytes_eqb u ns_xml_uri).
    { injection Hv as <-. match goal with |- context [err_from text ?a ?m] => destruct (@err_from_v context a m) as [tp E] end.
      rewrite E. eexists. split; reflexivity. }
    rewrite T1.
    assert (Hex : ns_exists text (c_doc c) start (@Some bytes p) =
                  Ok (existsb (fun o : Scope.binding => Scope.prefix_eqb (fst o) (Some p)) own1))
      by exact (ScopeProofs.ns_exists_spec text (c_doc c) start (Some p) own1 T2 T4).
    match goal with |- context [ns_exists text (c_doc c) start ?k] =>
      assert (Hex' : ns_exists text (c_doc c) start k = Ok (existsb (fun o : Scope.binding => Scope.prefix_eqb (fst o) (Some p)) own1)) by exact Hex;
      rewrite Hex'; clear Hex' Hex end. cbn [bind].
    match type of Hv with context [declared own1 ?k] =>
      match goal with |- context [existsb ?f own1] => change (existsb f own1) with (declared own1 k) end;
      destruct (declared own1 k); [|discriminate] end.
    injection Hv as <-. match goal with |- context [err_from text ?a ?m] => destruct (@err_from_v context a m) as [tp E] end.
    rewrite E. eexists. split; [reflexivity|]. cbn [NsRejBuild.rule_error]. apply bytes_eqb_refl.
Qed.

Lemma dens_split : forall xs es1 e es2, dens xs = es1 ++ e :: es2 ->
  exists xs1 x xs2, xs = xs1 ++ x :: xs2 /\ dens xs1 = es1 /\ s_den x = e /\ dens xs2 = es2.
Proof.
  induction xs as [|y xs IH]; intros es1 e es2 H.
  - destruct es1; discriminate.
  - destruct es1 as [|e1 es1]; cbn [dens map app] in H.
    + injection H as <- <-. exists [], y, xs. auto.
    + injection H as <- H. destruct (IH _ _ _ H) as (xs1 & x & xs2 & -> & <- & <- & <-).
      exists (y :: xs1), x, xs2. auto.
Qed.

Lemma sentries_ok_app : forall xs1 xs2 q, sentries_ok q (xs1 ++ xs2) ->
  sentries_ok q xs1 /\ sentries_ok (q + blen (flat_map r_entry (raws xs1))) xs2.
Proof.
  induction xs1 as [|x xs1 IH]; intros xs2 q H.
  - cbn [app raws map flat_map]. rewrite blen_nil, N.add_0_r. split; [exact Logic.I|exact H].
  - cbn [app sentries_ok] in H. destruct H as [H1 H2]. destruct (IH _ _ H2) as [A B0].
    split; [split; assumption|]. cbn [raws map flat_map]. fold (raws xs1). rewrite blen_app, N.add_assoc. exact B0.
Qed.

(* the declarations up to the first violation are stored, the violating one is refused *)
Lemma entries_rej_g more xs q c start rl :
  W q (flat_map r_entry (raws xs) ++ more) -> sentries_ok q xs -> forallb attr_name_ok (dens xs) = true -> NC c ->
  entries_viol [] (dens xs) = Some rl -> incl (own_bindings (dens xs)) D -> TI start [] c ->
  exists er, evs context ev (entry_toks q (raws xs)) c = Err er /\ rule_error rl er = true.
Proof.
  intros HW Hok Hsyn HC Hv HinD T.
  destruct (entries_viol_split _ _ _ Hv) as (es1 & e & es2 & Ed & Hv1 & Hve). cbn [app] in Hve.
  destruct (dens_split _ _ _ _ Ed) as (xs1 & x & xs2 & -> & <- & <- & <-).
  destruct (sentries_ok_app _ _ _ Hok) as [Hok1 Hok2]. cbn [sentries_ok] in Hok2. destruct Hok2 as [Hokx _].
  unfold dens in Hsyn. rewrite map_app, forallb_app in Hsyn. apply andb_true_iff in Hsyn. destruct Hsyn as [Hs1 _]. fold (dens xs1) in Hs1.
  destruct (entries_viol_none (dens xs1) [] eq_refl Hv1) as [Hn1 Hu1].
  assert (Hwf1 : forallb CstFull.ns_entry_ok (dens xs1) = true) by (rewrite ns_entries_ok_split, Hs1, Hn1; reflexivity).
  unfold raws in HW |- *. rewrite map_app, flat_map_app in HW. cbn [map flat_map] in HW. rewrite <- !app_assoc in HW. fold (raws xs1) (raws xs2) in HW.
  unfold dens in HinD. rewrite map_app in HinD. cbn [map] in HinD. fold (dens xs1) (dens xs2) in HinD. rewrite own_app in HinD.
  destruct (entries_evs_g text D HD es0 _ xs1 q c start [] HW Hok1 Hwf1 HC Hu1) as (d1 & E1 & _ & _ & _ & T1 & _).
  { intros z Hz. apply HinD. apply in_or_app. left. exact Hz. }
  { exact T. }
  rewrite map_app. cbn [map]. fold (raws xs1) (raws xs2).
  rewrite NsRejBuild.entry_toks_app, evs_app, E1. cbn [bind entry_toks evs].
  assert (HC1 : NC (set_doc (set_cur_attrs c (c_cur_attrs c ++ tas_g q xs1)) d1)) by (destruct HC as [H1 H2]; split; [exact H1|exact H2]).
  destruct (tok_entry_rej_g _ x _ _ start _ rl (W_app _ _ _ _ HW) Hokx HC1 Hve T1) as (er & E & R).
  rewrite E. cbn [bind]. eauto.
Qed.

(* ---- the collected attributes: an unbound prefix (N2) or a repeated expanded name (N7) ---- *)
Definition tpl (t : temp_attr) : bytes * bytes :=
  (slice_bytes text (ta_prefix t), slice_bytes text (ta_local t)).

Lemma tas_names_g more : forall xs q, W q (flat_map r_entry (raws xs) ++ more) -> sentries_ok q xs ->
  map tpl (tas_g q xs) = attr_names (dens xs).
Proof.
  induction xs as [|x xs IH]; intros q HW Hok; [reflexivity|].
  cbn [raws map flat_map] in HW. fold (raws xs) in HW. rewrite <- app_assoc in HW. destruct Hok as [Ho1 Ho2].
  rewrite tas_g_cons, map_app, (IH _ (W_app _ _ _ _ HW) Ho2).
  unfold attr_names. rewrite dens_cons. cbn [flat_map]. f_equal.
  destruct (sentry_slices text D HD es0 _ _ _ HW Ho1) as (S1 & S2 & _).
  cbn [tas_g]. destruct (s_den x) as [l n v|l pr u]; cbn [app map]; [|reflexivity].
  unfold tpl. rewrite S1, S2. reflexivity.
Qed.

Lemma resolve_attrs_loop_rej_v d0 nss sc start base :
  N.to_nat start = length base ->
  ScopeProofs.bindings_of text d0 nss = Some sc -> fst nss <= snd nss -> snd nss <= len_N (d_ns_tree d0) ->
  nth_error (d_ns_values d0) 0 = Some xml_ns ->
  forall l acc names d rl, d_attrs d = base ++ acc ->
  d_nodes d = d_nodes d0 -> d_ns_values d = d_ns_values d0 -> d_ns_tree d = d_ns_tree d0 ->
  Forall2 (fun a en => ns_uri_opt text d0 (ad_ns_idx a) = Some (fst en) /\ slice_bytes text (ad_local a) = snd en) acc names ->
  pl_viol sc names (map tpl l) = Some rl ->
  exists er, resolve_attrs_loop text nss start l d = Err er /\ rule_error rl er = true.
Proof.
  intros Hs Hsc Hr1 Hr2 Hxml. induction l as [|t l IH]; intros acc names d rl Hd Hn Hv Ht Hacc Hviol;
    cbn [map pl_viol] in Hviol; [discriminate|]. cbn [resolve_attrs_loop].
  cbn [tpl fst snd] in Hviol. unfold tpl at 1 2 3 in Hviol. cbn [fst snd] in Hviol.
  set (pb := slice_bytes text (ta_prefix t)) in *.
  assert (Hsc' : ScopeProofs.bindings_of text d nss = Some sc).
  { rewrite (bindings_of_same text d0 d nss Ht Hv). exact Hsc. }
  destruct (is_bound (Scope.resolve_attr sc pb)) eqn:Hb1.
  - assert (Hidx : exists idx,
      (if bytes_eqb pb ns_xml_prefix then Ok (Some 0)
       else match pb with [] => Ok None | _ => get_ns_idx_by_prefix text nss (fst (ta_range t)) (ta_prefix t) d end) = Ok idx /\
      ns_uri_opt text d0 idx = Some (fst (tname text sc t))).
    { unfold tname. cbn [fst]. fold pb. unfold Scope.resolve_attr in *.
      change Scope.bytes_eqb with bytes_eqb in *. change Scope.xml_prefix with ns_xml_prefix in *.
      destruct (bytes_eqb pb ns_xml_prefix) eqn:Ex.
      - exists (Some 0). split; [reflexivity|]. unfold ns_uri_opt, nth_N.
        destruct (d_ns_values d0) as [|v0 vr]; [discriminate|]. cbn in Hxml. injection Hxml as ->.
        replace (len_N (xml_ns :: vr) <=? 0) with false by (unfold len_N; cbn [length]; lia). reflexivity.
      - destruct pb as [|x0 pr] eqn:Epb; [exists None; split; reflexivity|].
        destruct (get_ns_ns text D HD d nss sc (fst (ta_range t)) (ta_prefix t) Hsc' Hr1) as (r & Er & Eu).
        + rewrite Ht. exact Hr2.
        + rewrite Hv. exact Hxml.
        + fold pb. rewrite Epb. unfold Scope.resolve_elem. change Scope.bytes_eqb with bytes_eqb.
          change Scope.xml_prefix with ns_xml_prefix. rewrite Ex. exact Hb1.
        + exists r. split; [exact Er|]. unfold ns_uri_opt in *. rewrite Hv in Eu.
          fold pb in Eu. rewrite Epb in Eu. unfold Scope.resolve_elem in Eu. change Scope.bytes_eqb with bytes_eqb in Eu.
          change Scope.xml_prefix with ns_xml_prefix in Eu. rewrite Ex in Eu. exact Eu. }
    destruct Hidx as (idx & Eidx & Hu). rewrite Eidx. cbn [bind].
    assert (Hu' : ns_uri_opt text d idx = Some (fst (tname text sc t))) by (unfold ns_uri_opt in *; rewrite Hv; exact Hu).
    rewrite (aen_ok _ _ _ _ _ Hu'). cbn [bind].
    rewrite Hd, (skipn_base base acc) by exact Hs.
    rewrite (any_same_name_spec text d _ acc names).
    2:{ clear - Hacc Hv. induction Hacc as [|a en acc names [H1 H2] _ IH]; constructor; [|exact IH].
        split; [unfold ns_uri_opt in *; rewrite Hv; exact H1|exact H2]. }
    cbn [bind].
    match goal with |- context [if existsb ?f names then _ else _] =>
      change (existsb f names) with
        (existsb (fun x => ename_eqb x (ename_of sc (pb, slice_bytes text (ta_local t)))) names) end.
    destruct (existsb (fun x => ename_eqb x (ename_of sc (pb, slice_bytes text (ta_local t)))) names).
    + injection Hviol as <-.
      match goal with |- context [err_from text ?a ?m] => destruct (@err_from_v document a m) as [tp E] end.
      rewrite E. eexists. split; [reflexivity|]. cbn [NsRejBuild.rule_error]. apply bytes_eqb_refl.
    + rewrite <- Hd.
      set (a := {| ad_ns_idx := idx; ad_local := ta_local t; ad_value := ta_value t; ad_range := ta_range t;
                   ad_qname_len := ta_qname_len t; ad_eq_len := ta_eq_len t |}).
      apply (IH (acc ++ [a]) (names ++ [ename_of sc (pb, slice_bytes text (ta_local t))]) (set_attrs d (d_attrs d ++ [a])) rl).
      * cbn [set_attrs d_attrs]. rewrite Hd, <- app_assoc. reflexivity.
      * exact Hn.
      * exact Hv.
      * exact Ht.
      * apply Forall2_app; [exact Hacc|]. constructor; [|constructor]. split; [exact Hu|reflexivity].
      * exact Hviol.
  - injection Hviol as <-. destruct (unbound_attr _ _ Hb1) as (Hne & Hx & Hl).
    rewrite Hx. destruct pb as [|x0 pr] eqn:Epb; [congruence|]. rewrite <- Epb in *.
    unfold pb in Hne, Hx, Hl.
    rewrite (ScopeProofs.unknown_prefix_err_from text d nss (fst (ta_range t)) (ta_prefix t) sc Hsc' Hr1
               ltac:(rewrite Ht; exact Hr2) Hne Hx Hl).
    match goal with |- context [err_from text ?a ?m] => destruct (@err_from_v (option N) a m) as [tp E] end.
    rewrite E. cbn [bind]. eexists. split; [reflexivity|]. cbn [NsRejBuild.rule_error]. apply bytes_eqb_refl.
Qed.

Lemma resolve_attributes_rej_v nss sc c rl :
  ScopeProofs.bindings_of text (c_doc c) nss = Some sc -> fst nss <= snd nss -> snd nss <= len_N (d_ns_tree (c_doc c)) ->
  nth_error (d_ns_values (c_doc c)) 0 = Some xml_ns ->
  pl_viol sc [] (map tpl (c_cur_attrs c)) = Some rl ->
  len_N (d_attrs (c_doc c)) + len_N (c_cur_attrs c) < u32_max ->
  exists er, resolve_attributes text nss c = Err er /\ rule_error rl er = true.
Proof.
  intros Hsc H1 H2 Hxml Hv Hlim. unfold resolve_attributes.
  destruct (c_cur_attrs c) as [|t l] eqn:El; [discriminate|].
  replace (u32_max <=? len_N (d_attrs (c_doc c)) + len_N (t :: l)) with false by lia.
  destruct (resolve_attrs_loop_rej_v (c_doc c) nss sc (len_N (d_attrs (c_doc c))) (d_attrs (c_doc c))
              ltac:(unfold len_N; lia) Hsc H1 H2 Hxml (t :: l) [] [] (c_doc c) rl) as (er & E & R);
    try reflexivity; try assumption.
  - rewrite app_nil_r. reflexivity.
  - constructor.
  - rewrite E. cbn [bind]. eauto.
Qed.

Lemma tas_g_len sc more xs q : W q (flat_map r_entry (raws xs) ++ more) -> sentries_ok q xs ->
  length (tas_g q xs) = length (sem_attrs sc (dens xs)).
Proof. intros HW Hok. rewrite <- (tas_sem_g text D HD es0 sc more xs q HW Hok), map_length. reflexivity. Qed.

(* ------------------------------------------------------------------------------------------ *)
(* a start tag with a violation                                                               *)
(* ------------------------------------------------------------------------------------------ *)
Lemma start_tag_rej_g inh p name xs ws_end empty post c rl :
  W p ([60] ++ r_qname name ++ flat_map r_entry (raws xs) ++ ws_end ++ tag_tail empty ++ post) ->
  let own := own_bindings (dens xs) in
  let sc := Scope.scope_of own inh in
  q_local name <> [] -> sentries_ok (p + 1 + blen (r_qname name)) xs -> forallb attr_name_ok (dens xs) = true ->
  tag_viol inh name (dens xs) = Some rl ->
  incl own D -> CIn inh c -> NC c ->
  len_N (d_attrs (c_doc c)) + N.of_nat (length (sem_attrs sc (dens xs))) < u32_max ->
  len_N (d_ns_tree (c_doc c)) + own_cost own sc <= u32_max ->
  let q' := p + 1 + blen (r_qname name) + blen (flat_map r_entry (raws xs)) + blen ws_end in
  exists er,
    (let! c1 := evs context ev (start_toks_ns p name (raws xs)) c in ev (end_tok q' empty) c1) = Err er /\
    rule_error rl er = true.
Proof.
  intros HW own sc Hn Hok Hsyn Hviol HinD I HC Hlim Hns q'.
  pose proof (W_app _ _ _ _ HW) as HW1. change (blen [60]) with 1 in HW1.
  pose proof (W_app _ _ _ _ HW1) as HW2.
  destruct (qname_slices text D HD _ _ _ HW1) as [Sp Sl].
  unfold start_toks_ns. cbn [evs].
  (* ElementStart *)
  unfold tok_ev at 1, Parse.token at 1. cbn [token_with].
  rewrite reset_after_text_ok by apply (cn_at _ _ _ _ I). cbn [bind].
  rewrite Sp. unfold tag_viol in Hviol. cbv zeta in Hviol.
  change (Scope.bytes_eqb (q_prefix name) xmlns_b) with (bytes_eqb (q_prefix name) xmlns_str) in Hviol.
  destruct (bytes_eqb (q_prefix name) xmlns_str) eqn:N1.
  { injection Hviol as <-.
    match goal with |- context [err_from text ?a ?m] => destruct (@err_from_v context a m) as [tp E] end.
    rewrite E. cbn [bind]. eexists. split; reflexivity. }
  cbn [bind]. fold (tok_ev text). fold (tn_of_ns p name).
  set (c0 := set_tag_name (set_after_text c []) (tn_of_ns p name)).
  assert (T0 : TI (c_ns_start_idx c) [] c0).
  { constructor; cbn; try reflexivity.
    - rewrite (cn_ns _ _ _ _ I). lia.
    - apply (cn_inv _ _ _ _ I).
    - rewrite (cn_ns _ _ _ _ I). unfold ScopeProofs.bindings_of. cbn [fst snd]. rewrite N.sub_diag. reflexivity.
    - constructor. }
  assert (HC0 : NC c0) by (destruct HC as [H1 H2]; split; [exact H1|exact H2]).
  destruct (entries_viol [] (dens xs)) as [x|] eqn:Eev.
  { injection Hviol as ->.
    destruct (entries_rej_g _ xs _ c0 (c_ns_start_idx c) rl HW2 Hok Hsyn HC0 Eev HinD T0) as (er & E & R).
    rewrite E. cbn [bind]. eauto. }
  destruct (entries_viol_none (dens xs) [] eq_refl Eev) as [Hnse N6]. cbn [app] in N6.
  assert (Hwf : forallb CstFull.ns_entry_ok (dens xs) = true) by (rewrite ns_entries_ok_split, Hsyn, Hnse; reflexivity).
  set (T := tas_g (p + 1 + blen (r_qname name)) xs) in *.
  destruct (entries_evs_g text D HD es0 _ xs _ c0 (c_ns_start_idx c) [] HW2 Hok Hwf HC0 N6 HinD T0) as (d1 & E1 & Nd1 & A1 & X1 & T1 & L1).
  rewrite E1. cbn [bind]. cbn [app] in T1. fold own in T1, L1. fold T in T1 |- *.
  change (c_doc c0) with (c_doc c) in Nd1, A1, X1, L1.
  replace (c_cur_attrs c0) with (@nil temp_attr) in * by (symmetry; apply (cn_cur _ _ _ _ I)). cbn [app] in *.
  set (c1 := set_doc (set_cur_attrs c0 T) d1) in *.
  (* ElementEnd *)
  unfold tok_ev, Parse.token, end_tok. cbn [token_with].
  rewrite reset_after_text_ok by (cbn; lia). cbn [bind].
  set (c1' := set_after_text c1 []).
  unfold process_element.
  replace (slice_len (tn_name (c_tag_name c1')) =? 0) with false.
  2:{ cbn. unfold slice_len. cbn [sl sl_start sl_end]. rewrite r_qname_len.
      destruct (q_local name); [congruence|]. rewrite blen_cons. lia. }
  destruct (cn_par _ _ _ _ I) as (par & k & Epar & Hpar).
  assert (T1' : TI (c_ns_start_idx c1') own c1') by exact T1.
  destruct (resolve_namespaces_ns text D HD inh own c1' par k T1') as (r & d2 & E2 & Nd2 & A2 & V2 & (t2 & Tr2) & Ok2 & B2 & R1 & R2 & L2).
  { cbn. rewrite Nd1. apply (cn_pid _ _ _ _ I). }
  { cbn. unfold absn. rewrite Nd1. exact Epar. }
  { apply (par_ok_ext text D HD (c_doc c) d1); [exact X1|exact Hpar]. }
  { cbn. destruct k; try exact Logic.I. cbn [par_ok] in Hpar. rewrite (cn_ns _ _ _ _ I). apply Hpar. }
  { apply (cn_uniq _ _ _ _ I). }
  { cbn. rewrite (cn_ns _ _ _ _ I). fold sc. exact Hns. }
  rewrite E2. cbn [bind]. clear E2.
  change (c_doc c1') with d1 in Nd2, A2, V2, Tr2, L2.
  set (c3 := set_ns_start_idx (set_doc c1' d2) (len_N (d_ns_tree (c_doc (set_doc c1' d2))))).
  assert (Hxml2 : nth_error (d_ns_values d2) 0 = Some xml_ns) by (rewrite V2; apply (nsi_xml _ _ _ (ti_inv _ _ _ _ _ T1))).
  pose proof (tas_names_g _ xs _ HW2 Hok) as Tn. fold T in Tn.
  assert (Hl3 : len_N (d_attrs (c_doc c3)) + len_N (c_cur_attrs c3) < u32_max).
  { cbn. rewrite A2, A1. unfold len_N at 2. fold T. unfold T. rewrite (tas_g_len sc _ xs _ HW2 Hok). exact Hlim. }
  fold (esc (dens xs) inh) in Hviol. change (esc (dens xs) inh) with sc in Hviol.
  destruct (pl_viol sc [] (attr_names (dens xs))) as [x|] eqn:Epl.
  { injection Hviol as ->.
    destruct (resolve_attributes_rej_v r sc c3 rl) as (er & E & R); try assumption.
    { cbn [c_cur_attrs c3 set_ns_start_idx set_doc c1' set_after_text c1 set_cur_attrs]. rewrite Tn. exact Epl. }
    rewrite E. cbn [bind]. eauto. }
  destruct (pl_viol_none _ _ Epl) as [N2a N7].
  rewrite <- bound_names in N2a. rewrite <- sem_attrs_names in N7.
  pose proof (tas_sem_g text D HD es0 sc _ xs _ HW2 Hok) as Tsem.
  pose proof (bound_tas_g text D HD es0 sc _ xs _ HW2 Hok N2a) as Tb. fold T in Tsem, Tb.
  destruct (resolve_attributes_ns text D HD r sc c3) as (new & E3 & F3).
  { exact B2. } { exact R1. } { exact R2. } { exact Hxml2. } { exact Tb. }
  { cbn [c_cur_attrs c3 set_ns_start_idx set_doc c1' set_after_text c1 set_cur_attrs].
    rewrite <- N7. rewrite <- Tsem, !map_map. reflexivity. }
  { exact Hl3. }
  rewrite E3. cbn [bind]. clear E3.
  cbn [c_cur_attrs c_doc c3 set_ns_start_idx set_doc c1' set_after_text c1 set_cur_attrs c_tag_name c0 set_tag_name
       tn_of_ns tn_prefix tn_prefix_pos tn_name tn_pos].
  (* N2 on the element name *)
  destruct (is_bound (Scope.resolve_elem sc (q_prefix name))) eqn:N2e; [discriminate|].
  injection Hviol as <-. destruct (unbound_elem _ _ N2e) as (Hne & Hx & Hl).
  set (d4 := set_attrs d2 (d_attrs d2 ++ new)).
  pose proof (ScopeProofs.unknown_prefix_err_from text d4 r (p + 1) (sl (p + 1) (p + 1 + blen (q_prefix name))) sc) as Eget.
  rewrite Sp in Eget.
  specialize (Eget ltac:(rewrite (bindings_of_same text d2 d4 r eq_refl eq_refl); exact B2) R1 R2 Hne Hx Hl).
  destruct (@err_from_v (option N) (p + 1) (UnknownNamespace (q_prefix name))) as [tp E].
  destruct empty; cbv iota; rewrite Eget, E; cbn [bind]; eexists; (split; [reflexivity|]);
    cbn [NsRejBuild.rule_error]; apply bytes_eqb_refl.
Qed.

(* ------------------------------------------------------------------------------------------ *)
(* at any depth: the start tag at c is the start tag at the shadow of c, put back             *)
(* ------------------------------------------------------------------------------------------ *)
Lemma entries_keep : forall xs q x x1, sentries_ok q xs -> NC x ->
  evs context ev (entry_toks q (raws xs)) x = Ok x1 ->
  c_entity_floor x1 = c_entity_floor x /\ c_ld x1 = c_ld x /\ c_entities x1 = c_entities x.
Proof.
  induction xs as [|y xs IH]; intros q x x1 Hok HC E.
  - cbn [raws map entry_toks evs] in E. injection E as <-. auto.
  - destruct Hok as [(Hsh & Hnorm & Hst) Hok']. cbn [raws map entry_toks evs] in E. fold (raws xs) in E.
    apply bind_ok in E. destruct E as (x0 & E0 & E1).
    unfold entry_tok in E0. cbv zeta in E0. unfold tok_ev, Parse.token in E0. cbn [token_with] in E0.
    match type of E0 with process_attribute text ?r ?ql ?el ?pr ?lo ?v x = _ =>
      change v with (vsl q (s_raw y)) in E0;
      destruct (attr_keeps text r ql el pr lo (vsl q (s_raw y)) x (s_stor y) x x0 (Hnorm x HC) E0) as (K1 & K2 & K3) end.
    destruct (IH _ x0 x1 Hok' ltac:(destruct HC as [H1 H2]; split; congruence) E1) as (J1 & J2 & J3).
    repeat split; congruence.
Qed.

Lemma rmap_bind_ok {A B0 C0} (f : B0 -> C0) (x : res A) (g : A -> res B0) (h : A -> res C0) :
  (forall a, x = Ok a -> h a = rmap f (g a)) ->
  (let! a := x in h a) = rmap f (let! a := x in g a).
Proof. intros H. destruct x as [a| | |]; cbn [bind rmap]; [apply H; reflexivity|reflexivity..]. Qed.

Lemma start_tag_transport lvl p name xs q' empty c ld' :
  sentries_ok (p + 1 + blen (r_qname name)) xs ->
  norms text es0 (p + 1 + blen (r_qname name)) xs (c_ld c) ld' -> c_entities c = es0 ->
  (let! c1 := evs context (evl lvl) (start_toks_ns p name (raws xs)) c in evl lvl (end_tok q' empty) c1) =
  rmap (bk (c_entity_floor c) ld') (let! x1 := evs context ev (start_toks_ns p name (raws xs)) (sh c) in ev (end_tok q' empty) x1).
Proof.
  intros Hok Hnorms Hes. unfold start_toks_ns. cbn [evs].
  match goal with |- context [evl lvl ?tk c] => set (tk0 := tk) end.
  assert (Hp0 : plain_tok tk0) by (split; discriminate).
  rewrite (evl_shadow text lvl tk0 c Hp0) by (intros pr lo r0 Ht; discriminate Ht).
  destruct (ev tk0 (sh c)) as [x0| | |] eqn:E0; cbn [bind rmap]; try reflexivity.
  destruct (plain_keeps text (process_text text) tk0 (sh c) x0 Hp0 E0) as [F0 L0].
  pose proof (start_entities text (process_text text) _ _ _ _ _ E0) as Es0.
  change (c_entity_floor (sh c)) with 0 in F0. change (c_ld (sh c)) with ld_init in L0. change (c_entities (sh c)) with (c_entities c) in Es0.
  rewrite bk_back.
  rewrite (entries_transport text es0 lvl xs _ (bk (c_entity_floor c) (c_ld c) x0) ld' Hok Hnorms ltac:(rewrite bk_entities, Es0; exact Hes)).
  rewrite bk_floor, (sh_bk _ _ x0 F0 L0).
  destruct (evs context ev (entry_toks (p + 1 + blen (r_qname name)) (raws xs)) x0) as [x1| | |] eqn:E1; cbn [bind rmap]; try reflexivity.
  destruct (entries_keep xs _ x0 x1 Hok ltac:(split; [rewrite Es0; exact Hes|exact L0]) E1) as (F1 & L1 & _).
  rewrite F0 in F1. rewrite L0 in L1.
  assert (Hp1 : plain_tok (end_tok q' empty)) by (split; discriminate).
  rewrite (evl_shadow text lvl (end_tok q' empty) _ Hp1) by (intros pr lo r0 Ht; unfold end_tok in Ht; destruct empty; discriminate Ht).
  rewrite (sh_bk _ _ x1 F1 L1). reflexivity.
Qed.

Lemma start_tag_rej_gn lvl inh p name xs ws_end empty post c ld' rl :
  W p ([60] ++ r_qname name ++ flat_map r_entry (raws xs) ++ ws_end ++ tag_tail empty ++ post) ->
  let own := own_bindings (dens xs) in
  let sc := Scope.scope_of own inh in
  q_local name <> [] -> sentries_ok (p + 1 + blen (r_qname name)) xs ->
  norms text es0 (p + 1 + blen (r_qname name)) xs (c_ld c) ld' ->
  forallb attr_name_ok (dens xs) = true ->
  tag_viol inh name (dens xs) = Some rl ->
  incl own D -> CIn inh (sh c) -> c_entities c = es0 ->
  len_N (d_attrs (c_doc c)) + N.of_nat (length (sem_attrs sc (dens xs))) < u32_max ->
  len_N (d_ns_tree (c_doc c)) + own_cost own sc <= u32_max ->
  let q' := p + 1 + blen (r_qname name) + blen (flat_map r_entry (raws xs)) + blen ws_end in
  exists er,
    (let! c1 := evs context (evl lvl) (start_toks_ns p name (raws xs)) c in evl lvl (end_tok q' empty) c1) = Err er /\
    rule_error rl er = true.
Proof.
  intros HW own sc Hn Hok Hnorms Hsyn Hviol HinD I Hes Hlim Hns q'.
  rewrite (start_tag_transport lvl p name xs q' empty c ld' Hok Hnorms Hes).
  destruct (start_tag_rej_g inh p name xs ws_end empty post (sh c) rl HW Hn Hok Hsyn Hviol HinD I
              ltac:(split; [exact Hes|reflexivity]) Hlim Hns) as (er & E & R).
  fold q' in E. rewrite E. cbn [rmap]. eauto.
Qed.

End Rej.

Print Assumptions start_tag_rej_g.
Print Assumptions start_tag_transport.
Print Assumptions start_tag_rej_gn.
