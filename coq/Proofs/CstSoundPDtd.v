(* Proofs/CstSoundPDtd.v -- C08 soundness WITH A PROLOG AND ENTITIES (stage S5): the DOCTYPE, lexical
   half: parse_doctype inverted.  What the callback did is recorded declaration by declaration
   ([dsteps]). *)
From Coq Require Import String.
From Coq Require Import List Arith NArith Bool Lia ZifyBool ZifyN ZifyNat.
Import ListNotations.
From RX Require Import Generated.
From RX.Model Require Import Base CharClass Stream Tokenizer.
From RX.Spec Require Cst Chars CstU CstNs CstEnt.
From RX.Spec Require Import CstFull CstFullS5.
From RX.Proofs Require Import Tactics CstLex CstULex.
From RX.Proofs Require RejectProofs CharTablesProofs DeclBodyLex.
From RX.Proofs Require Import CstSound CstSoundLex CstSoundU CstSoundULex CstSoundT CstSoundTLex CstSoundN CstSoundNLex CstSoundNText.
From RX.Proofs Require Import CstSoundP CstSoundPEnt CstSoundPLex.
Open Scope N_scope.

Lemma wf_pi_s_intro t sep v : CstU.wf_item (Cst.IPI t sep v) = true -> wf_pi_s t sep v = true.
Proof.
  cbn [CstU.wf_item]. intros H.
  apply andb_true_iff in H. destruct H as [H H6]. apply andb_true_iff in H. destruct H as [H H5].
  apply andb_true_iff in H. destruct H as [H H4]. apply andb_true_iff in H. destruct H as [H H3].
  apply andb_true_iff in H. destruct H as [H1 H2].
  unfold wf_pi_s. rewrite H1, (ws_s _ H2), H3, H4, H5. cbn [andb].
  destruct v as [|x v']; [reflexivity|]. apply andb_true_iff in H6. destruct H6 as [X1 X2]. rewrite X2, andb_true_r.
  cbn [forallb] in H3. apply andb_true_iff in H3. destruct H3 as [Xc _].
  unfold CstU.is_char in Xc. unfold Cst.is_ws in X1. unfold Chars.xml_S. lia.
Qed.

Section DtdS.
Variable text : bytes.
Hypothesis HF : FragP text.
Variable C : Type.
Variable ev : token -> C -> res C.
Notation st := (CstLex.st text).
Notation W := (CstLex.W text).
Notation WV := (CstULex.WV text).

(* what the callback did for one declaration of the internal subset *)
Definition dstep (sd : sdecl) (c c' : C) : Prop :=
  match sd with
  | SEntity e => exists nm vl, ev (TEntityDecl nm vl) c = Ok c' /\ slice_bytes text nm = utf8s (E.e_name e) /\
                               slice_bytes text vl = E.r_value (E.e_value (enc_decl e)) /\
                               exists vs tail, vl = sl vs (vs + blen (E.r_value (E.e_value (enc_decl e)))) /\
                                               WV vs (E.r_value (E.e_value (enc_decl e)) ++ tail)
  | SMisc _ (IComment _) => exists s r, ev (TComment s r) c = Ok c'
  | SMisc _ (IPI _ _ _) => exists t v r, ev (TPI t v r) c = Ok c'
  | SMisc _ _ => False
  | _ => c' = c
  end.
Inductive dsteps : list sdecl -> C -> C -> Prop :=
| ds_nil c : dsteps [] c c
| ds_cons sd l c c1 c2 : dstep sd c c1 -> dsteps l c1 c2 -> dsteps (sd :: l) c c2.

(* where the name loop stops *)
Lemma skip_name_loop_stop : forall fuel p r s', WV p r -> skip_name_loop fuel (st p r) = Ok s' ->
  exists l', s_rest s' = l' /\
    (l' = [] \/ exists c0 l0, l' = utf8 c0 ++ l0 /\ is_scalar c0 = true /\ char_is_name c0 = false).
Proof.
  induction fuel as [|fu IH]; intros p r s' HW H; cbn [skip_name_loop] in H; [noerr|].
  destruct (Valid_inv r (proj2 HW)) as [->|(c & r' & -> & Hc & Hv)].
  { rewrite (next_char_end text) in H by apply HW. cbn [bind] in H. inversion H; subst. exists []. auto. }
  rewrite (next_char_v text) in H by assumption. cbn [bind] in H.
  destruct (char_is_name c) eqn:Ecn.
  - rewrite (advance_v text) in H by exact HW. cbn [bind] in H.
    assert (HW' : WV (p + blen (utf8 c)) r').
    { apply (WV_app text _ _ _ HW). rewrite utf8_enc. apply U8.Valid_encode. exact Hc. }
    exact (IH _ _ _ HW' H).
  - inversion H; subst. exists (utf8 c ++ r'). split; [reflexivity|]. right. eauto.
Qed.

Lemma name_then_kw p name l s' : WV p (utf8s name ++ l) -> CstU.wf_name name = true ->
  skip_name text (st p (utf8s name ++ l)) = Ok s' -> s' = st (p + blen (utf8s name)) l ->
  prefix_b kw_system l = false /\ prefix_b kw_public l = false.
Proof.
  intros HW Hname H ->. unfold skip_name in H.
  destruct (wf_uname_parts name Hname) as (c & x & -> & Hc & Hx). rewrite utf8s_cons, <- app_assoc in H, HW.
  destruct (uname_start_facts c Hc) as (Hcn & Hcs & _). destruct (uname_char_facts c Hcn) as (Hs & _).
  rewrite (next_char_v text) in H by assumption. cbn [bind] in H. rewrite Hcs in H.
  rewrite (advance_v text) in H by exact HW. cbn [bind] in H.
  assert (HW' : WV (p + blen (utf8 c)) (utf8s x ++ l)).
  { apply (WV_app text _ _ _ HW). rewrite utf8_enc. apply U8.Valid_encode. exact Hs. }
  destruct (skip_name_loop_stop _ _ _ _ HW' H) as (l' & El & Hstop). cbn [CstLex.st s_rest] in El. subst l'.
  destruct Hstop as [->|(c0 & l0 & -> & Hs0 & Hn0)]; [split; reflexivity|].
  split.
  - destruct (prefix_b kw_system (utf8 c0 ++ l0)) eqn:E; [|reflexivity]. exfalso.
    destruct (prefix_b_split _ _ E) as (r1 & E1). destruct (N.lt_ge_cases c0 128) as [L|L].
    + rewrite (utf8_ascii c0 L) in E1. cbn in E1. injection E1 as -> _. vm_compute in Hn0. discriminate.
    + destruct (utf8_high c0 L) as (_ & b1 & t1 & Eb & Hb1). rewrite Eb in E1. cbn in E1. injection E1 as -> _. lia.
  - destruct (prefix_b kw_public (utf8 c0 ++ l0)) eqn:E; [|reflexivity]. exfalso.
    destruct (prefix_b_split _ _ E) as (r1 & E1). destruct (N.lt_ge_cases c0 128) as [L|L].
    + rewrite (utf8_ascii c0 L) in E1. cbn in E1. injection E1 as -> _. vm_compute in Hn0. discriminate.
    + destruct (utf8_high c0 L) as (_ & b1 & t1 & Eb & Hb1). rewrite Eb in E1. cbn in E1. injection E1 as -> _. lia.
Qed.

(* ---- <!DOCTYPE name externalid? up to '[' or '>' ---- *)
Lemma inv_doctype_start p l s' : WV p (E.kw_doctype ++ l) ->
  parse_doctype_start text (st p (E.kw_doctype ++ l)) = Ok s' ->
  exists ws1 name ws2 ext y l',
    l = ws1 ++ utf8s name ++ ws2 ++ r_opt (fun xw : extid * bytes => r_extid (fst xw) ++ snd xw) ext ++ y :: l' /\
    wf_s1 ws1 = true /\ CstU.wf_name name = true /\ Cst.wf_ws ws2 = true /\
    match ext with Some (x, w) => ws2 <> [] /\ wf_extid x = true /\ Cst.wf_ws w = true | None => True end /\
    (y = 91 \/ y = 62) /\
    s' = st (p + 9 + blen ws1 + blen (utf8s name) + blen ws2 + blen (r_opt (fun xw : extid * bytes => r_extid (fst xw) ++ snd xw) ext)) (y :: l') /\
    WV (p + 9 + blen ws1 + blen (utf8s name) + blen ws2 + blen (r_opt (fun xw : extid * bytes => r_extid (fst xw) ++ snd xw) ext)) (y :: l').
Proof.
  intros HW H. pose proof (WV_W _ _ _ HW) as HW0. unfold parse_doctype_start in H.
  rewrite (advance_st text 9 p E.kw_doctype) in H by (try reflexivity; exact HW0). cbn [bind] in H.
  pose proof (WV_lit text _ E.kw_doctype _ HW eq_refl) as HW1. change (blen E.kw_doctype) with 9 in HW1.
  ib H s1 H1. destruct (consume_spaces_inv_p text HF _ _ _ HW1 H1) as (ws1 & l1 & -> & Hws1ne & Hws1 & Hst1 & -> & HW2).
  (* P6 *)
  pose proof (scan_at text _ _ _ (fp_nnc _ HF) HW0) as Hnn. cbv beta in Hnn.
  repeat (apply andb_true_iff in Hnn; destruct Hnn as [Hnn ?]).
  match goal with X : (if prefix_b (b "<!DOCTYPE") _ then _ else _) = true |- _ => rename X into HN end.
  change (b "<!DOCTYPE") with E.kw_doctype in HN. rewrite prefix_b_app_same in HN. change 9%nat with (length E.kw_doctype) in HN.
  rewrite skipn_len_app, (skip_ws_ws _ _ Hws1 Hst1) in HN. unfold nc_name in HN. apply negb_true_iff in HN.
  ib H s2 Hs2. pose proof Hs2 as H2'.
  destruct (skip_name_inv_p text _ _ _ HW2 HN Hs2) as [(-> & ->)|(name & l2 & -> & Hname & -> & HW3)].
  { exfalso. rewrite (skip_spaces_st text _ [] []) in H by (try reflexivity; try exact I; apply HW2).
    rewrite blen_nil, N.add_0_r in H. ib H fs Hfs. destruct fs as [fnd s3].
    destruct (inv_extid text HF _ _ _ _ HW2 Hfs) as [(-> & -> & _)|(_ & x & lx & E & _)]; [|destruct x; discriminate].
    rewrite (skip_spaces_st text _ [] []) in H by (try reflexivity; try exact I; apply HW2).
    rewrite blen_nil, N.add_0_r in H. ib H y Hy. unfold curr_byte in Hy. rewrite (at_end_st text) in Hy by apply HW2. cbn in Hy. discriminate. }
  destruct (name_then_kw _ _ _ _ HW2 Hname H2' eq_refl) as (Ks & Kp).
  destruct (skip_spaces_inv_p text HF _ _ HW3) as (ws2 & l3 & -> & Hws2 & Hst2 & Esk2 & HW4). rewrite Esk2 in H.
  ib H fs Hfs. destruct fs as [fnd s3].
  assert (EXT : exists ext l4, l3 = r_opt (fun xw : extid * bytes => r_extid (fst xw) ++ snd xw) ext ++ l4 /\
            match ext with Some (x, w) => ws2 <> [] /\ wf_extid x = true /\ Cst.wf_ws w = true | None => True end /\
            skip_spaces s3 = st (p + 9 + blen ws1 + blen (utf8s name) + blen ws2 + blen (r_opt (fun xw : extid * bytes => r_extid (fst xw) ++ snd xw) ext)) l4 /\
            WV (p + 9 + blen ws1 + blen (utf8s name) + blen ws2 + blen (r_opt (fun xw : extid * bytes => r_extid (fst xw) ++ snd xw) ext)) l4).
  { destruct (inv_extid text HF _ _ _ _ HW4 Hfs) as [(-> & -> & _)|(_ & x & l4 & -> & Hx & -> & HW5)].
    - exists None, l3. cbn [r_opt app]. rewrite blen_nil, N.add_0_r. split; [reflexivity|]. split; [exact I|].
      destruct (skip_spaces_inv_p text HF _ _ HW4) as (w & l5 & E & Hw & _ & Esk & _). rewrite Esk.
      assert (w = []) by (apply (stops_ws_nil w l5 Hw); rewrite <- E; exact Hst2). subst w. cbn [app] in E. subst l5.
      rewrite blen_nil, N.add_0_r. split; [reflexivity|exact HW4].
    - destruct (skip_spaces_inv_p text HF _ _ HW5) as (w & l5 & -> & Hw & _ & Esk & HW6). rewrite Esk.
      exists (Some (x, w)), l5. cbn [r_opt fst snd]. split; [rewrite <- app_assoc; reflexivity|]. split.
      { split; [|split; assumption]. intros ->. cbn [app] in Ks, Kp. destruct x; cbn [r_extid] in Ks, Kp.
        - rewrite <- app_assoc, prefix_b_app_same in Ks. discriminate.
        - rewrite <- app_assoc, prefix_b_app_same in Kp. discriminate. }
      rewrite blen_app, N.add_assoc. split; [reflexivity|exact HW6]. }
  destruct EXT as (ext & l4 & -> & Hext & Esk3 & HW5). rewrite Esk3 in H.
  ib H y Hy. destruct (curr_byte_inv text _ _ _ (WV_W _ _ _ HW5) Hy) as (l' & ->).
  destruct (negb (y =? 91) && negb (y =? 62)) eqn:Ey; [noerr|]. inversion H; subst s'.
  exists ws1, name, ws2, ext, y, l'. split; [rewrite <- ?app_assoc; reflexivity|]. split; [apply ws_s1; assumption|].
  split; [exact Hname|]. split; [exact Hws2|]. split; [exact Hext|]. split; [lia|]. split; [reflexivity|exact HW5].
Qed.

(* ---- P4 at a position ---- *)
Definition bom_len : N := if prefix_b [239; 187; 191] text then 3 else 0.

Lemma strip_bom_skipn : strip_bom text = skipn (N.to_nat bom_len) text.
Proof. unfold strip_bom, bom_len. destruct (prefix_b [239; 187; 191] text); reflexivity. Qed.

Lemma tl_skipn {A} : forall n (l : list A), tl (skipn n l) = skipn (S n) l.
Proof. induction n as [|n IH]; intros l; [destruct l; reflexivity|]. destruct l; [reflexivity|]. cbn [skipn]. apply IH. Qed.

Lemma xml_at_pos p l : W p l -> bom_len < p -> xml_at l = true.
Proof.
  intros [E _] Hp. pose proof (fp_xml _ HF) as H. unfold xml_pi_ok in H. cbv zeta in H. apply andb_true_iff in H. destruct H as [_ H].
  rewrite strip_bom_skipn, tl_skipn in H. rewrite <- E.
  replace (N.to_nat p) with (S (N.to_nat bom_len) + (N.to_nat p - S (N.to_nat bom_len)))%nat by lia.
  rewrite <- RejectProofs.skipn_skipn'. apply all_suffixes_head. apply all_suffixes_skipn. exact H.
Qed.

Lemma xml_at_start : starts_decl (strip_bom text) = false -> xml_at (strip_bom text) = true.
Proof.
  intros Hd. pose proof (fp_xml _ HF) as H. unfold xml_pi_ok in H. cbv zeta in H. apply andb_true_iff in H. destruct H as [H _].
  rewrite Hd in H. exact H.
Qed.

Definition mk_of (kw : bytes) : option mkind :=
  if bytes_eqb kw kw_element then Some MElement else if bytes_eqb kw kw_attlist then Some MAttlist
  else if bytes_eqb kw kw_notation then Some MNotation else None.

(* a skipped declaration *)
Lemma inv_consume_decl k q l s' : WV q (kw_of k ++ l) -> consume_decl text (st q (kw_of k ++ l)) = Ok s' ->
  exists body l', l = utf8s body ++ [62] ++ l' /\ forallb Chars.scalar body = true /\ decl_body_ok body = true /\
    s' = st (q + blen (kw_of k) + blen (utf8s body) + 1) l' /\ WV (q + blen (kw_of k) + blen (utf8s body) + 1) l'.
Proof.
  intros HW H.
  destruct (DeclBodyLex.consume_decl_inv text _ _ _ (WV_W _ _ _ HW) H) as (x & l' & E & Hx & -> & _).
  destruct (DeclBodyLex.plain_prefix _ _ _ _ (DeclBodyLex.kw_plain k) E Hx) as (body & -> & -> & Hb).
  assert (Hkv : U8.Valid (kw_of k)) by (destruct k; apply Valid_lit; reflexivity).
  pose proof (WV_app text _ _ _ HW Hkv) as HW1.
  pose proof (valid_split body 62 l' ltac:(lia) (proj2 HW1)) as Hvb. destruct (Valid_scalars _ Hvb) as (v & Hvs & ->).
  exists v, l'. split; [reflexivity|]. split.
  { apply forallb_forall. intros y Hy. unfold scalars_ok in Hvs. rewrite Forall_forall in Hvs.
    change (Chars.scalar y) with (is_scalar y). exact (Hvs y Hy). }
  split; [rewrite <- DeclBodyLex.decl_body_ok_utf8s; exact Hb|].
  rewrite blen_app, N.add_assoc. split; [reflexivity|]. apply (WV_cons text _ 62). - apply (WV_app text _ _ _ HW1 Hvb). - lia.
Qed.

Lemma dsteps_snoc : forall l c c1 sd c2, dsteps l c c1 -> dstep sd c1 c2 -> dsteps (l ++ [sd]) c c2.
Proof.
  induction 1 as [c|sd0 l c c1 c2' Hd Hl IH]; intros Hs; cbn [app].
  - econstructor; [exact Hs|constructor].
  - econstructor; [exact Hd|apply IH; exact Hs].
Qed.

(* ---- the internal subset ---- *)
Lemma inv_doctype_loop : forall fuel start q l c s' c', WV q l -> bom_len < q ->
  parse_doctype_loop text C ev fuel start (st q l) c = Ok (s', c') ->
  (exists ds ws3 ws4 l', l = flat_map r_sdecl ds ++ ws3 ++ [93] ++ ws4 ++ [62] ++ l' /\ forallb wf_sdecl ds = true /\
      Cst.wf_ws ws3 = true /\ Cst.wf_ws ws4 = true /\ dsteps ds c c' /\
      s' = st (q + blen (flat_map r_sdecl ds) + blen ws3 + 1 + blen ws4 + 1) l' /\
      WV (q + blen (flat_map r_sdecl ds) + blen ws3 + 1 + blen ws4 + 1) l') \/
  (exists ds qe, dsteps ds c c' /\ s' = st qe [] /\ WV qe []).
Proof.
  induction fuel as [|fu IH]; intros start q l c s' c' HW Hq H; cbn [parse_doctype_loop] in H; [noerr|].
  pose proof (WV_W _ _ _ HW) as HW0. rewrite (at_end_st text) in H by exact HW0.
  destruct l as [|x0 l0].
  { inversion H; subst. right. exists [], q. split; [constructor|]. split; [reflexivity|exact HW]. }
  cbn [negb] in H. cbv zeta in H.
  destruct (skip_spaces_inv_p text HF _ _ HW) as (ws0 & l1 & El & Hws0 & Hst0 & Esk & HW1). rewrite Esk in H.
  pose proof (WV_W _ _ _ HW1) as HW10. rewrite !(starts_with_st text) in H by exact HW10.
  assert (STEP : forall sd l2 c1 s1, ws0 ++ l1 = r_sdecl sd ++ l2 -> wf_sdecl sd = true -> dstep sd c c1 ->
            WV (q + blen (r_sdecl sd)) l2 -> s1 = st (q + blen (r_sdecl sd)) l2 ->
            parse_doctype_loop text C ev fu start s1 c1 = Ok (s', c') ->
            (exists ds ws3 ws4 l', x0 :: l0 = flat_map r_sdecl ds ++ ws3 ++ [93] ++ ws4 ++ [62] ++ l' /\ forallb wf_sdecl ds = true /\
                Cst.wf_ws ws3 = true /\ Cst.wf_ws ws4 = true /\ dsteps ds c c' /\
                s' = st (q + blen (flat_map r_sdecl ds) + blen ws3 + 1 + blen ws4 + 1) l' /\
                WV (q + blen (flat_map r_sdecl ds) + blen ws3 + 1 + blen ws4 + 1) l') \/
            (exists ds qe, dsteps ds c c' /\ s' = st qe [] /\ WV qe [])).
  { intros sd l2 c1 s1 E2 Hwf Hd HW2 -> Hrec.
    assert (Hq2 : bom_len < q + blen (r_sdecl sd)) by lia.
    destruct (IH _ _ _ _ _ _ HW2 Hq2 Hrec) as [(ds & ws3 & ws4 & l' & -> & Hds & Hw3 & Hw4 & Hst & -> & HW')|(ds & qe & Hst & -> & HWe)].
    - left. exists (sd :: ds), ws3, ws4, l'. cbn [flat_map forallb]. rewrite El, E2, Hwf, Hds, <- !app_assoc.
      split; [reflexivity|]. split; [reflexivity|]. split; [exact Hw3|]. split; [exact Hw4|]. split; [econstructor; eauto|].
      rewrite blen_app, N.add_assoc. split; [reflexivity|exact HW'].
    - right. exists (sd :: ds), qe. split; [econstructor; eauto|]. split; [reflexivity|exact HWe]. }
  destruct (prefix_b (b "<!ENTITY") l1) eqn:Ee.
  { change (b "<!ENTITY") with E.kw_entity in Ee. destruct (prefix_b_split _ _ Ee) as (l2 & ->).
    ib H sc Hsc. destruct sc as [s1 c1]. rewrite El in HW.
    destruct (inv_entity_decl text HF C ev _ _ _ _ _ _ HW Hws0 Hsc) as (sd & l3 & E3 & Hwf & -> & HW3 & Hev).
    eapply (STEP sd l3 c1 _ E3 Hwf); [|exact HW3|reflexivity|exact H].
    destruct sd; cbn [dstep]; try exact Hev; contradiction. }
  destruct (prefix_b (b "<!--") l1) eqn:Ec.
  { change (b "<!--") with [60; 33; 45; 45] in Ec. destruct (prefix_b_split _ _ Ec) as (l2 & ->).
    ib H sc Hsc. destruct sc as [s1 c1].
    destruct (inv_comment_p text HF C ev _ _ _ _ _ HW1 Hsc) as (bs & l3 & -> & Hwf & -> & HW3 & Hev).
    eapply (STEP (SMisc ws0 (IComment bs)) l3 c1).
    - cbn [r_sdecl r_item Cst.r_item]. rewrite <- !app_assoc. reflexivity.
    - cbn [wf_sdecl wf_misc_s]. rewrite (ws_s _ Hws0), Hwf. reflexivity.
    - cbn [dstep]. eauto.
    - cbn [r_sdecl r_item Cst.r_item]. rewrite !blen_app. change (blen [60; 33; 45; 45]) with 4. change (blen [45; 45; 62]) with 3.
      replace (q + (blen ws0 + (4 + (blen (utf8s bs) + 3)))) with (q + blen ws0 + 4 + blen (utf8s bs) + 3) by lia. exact HW3.
    - cbn [r_sdecl r_item Cst.r_item]. rewrite !blen_app. change (blen [60; 33; 45; 45]) with 4. change (blen [45; 45; 62]) with 3.
      replace (q + (blen ws0 + (4 + (blen (utf8s bs) + 3)))) with (q + blen ws0 + 4 + blen (utf8s bs) + 3) by lia. reflexivity.
    - exact H. }
  destruct (prefix_b (b "<?") l1) eqn:Ep.
  { change (b "<?") with [60; 63] in Ep. destruct (prefix_b_split _ _ Ep) as (l2 & ->).
    ib H sc Hsc. destruct sc as [s1 c1].
    assert (Hx : xml_at ([60; 63] ++ l2) = true) by (apply (xml_at_pos _ _ HW10); lia).
    destruct (inv_pi_p text HF C ev _ _ _ _ _ HW1 Hx Hsc) as (tg & sep & v & l3 & -> & Hwf & -> & HW3 & Hev).
    eapply (STEP (SMisc ws0 (IPI tg sep v)) l3 c1).
    - cbn [r_sdecl r_item Cst.r_item]. rewrite <- !app_assoc. reflexivity.
    - cbn [wf_sdecl wf_misc_s]. rewrite (ws_s _ Hws0), (wf_pi_s_intro _ _ _ Hwf). reflexivity.
    - cbn [dstep]. unfold pi_tok in Hev. cbv zeta in Hev. eauto.
    - cbn [r_sdecl r_item Cst.r_item]. rewrite !blen_app. change (blen [60; 63]) with 2. change (blen [63; 62]) with 2.
      replace (q + (blen ws0 + (2 + (blen (utf8s tg) + (blen sep + (blen (utf8s v) + 2)))))) with
              (q + blen ws0 + 2 + blen (utf8s tg) + blen sep + blen (utf8s v) + 2) by lia. exact HW3.
    - cbn [r_sdecl r_item Cst.r_item]. rewrite !blen_app. change (blen [60; 63]) with 2. change (blen [63; 62]) with 2.
      replace (q + (blen ws0 + (2 + (blen (utf8s tg) + (blen sep + (blen (utf8s v) + 2)))))) with
              (q + blen ws0 + 2 + blen (utf8s tg) + blen sep + blen (utf8s v) + 2) by lia. reflexivity.
    - exact H. }
  destruct (prefix_b (b "]") l1) eqn:Eb.
  { change (b "]") with [93] in Eb. destruct (prefix_b_split _ _ Eb) as (l2 & ->).
    rewrite (advance_st text 1 _ [93]) in H by (try reflexivity; exact HW10). cbn [bind] in H.
    pose proof (WV_lit text _ [93] _ HW1 eq_refl) as HW2. change (blen [93]) with 1 in HW2.
    destruct (skip_spaces_inv_p text HF _ _ HW2) as (ws4 & l3 & -> & Hws4 & _ & Esk4 & HW3). rewrite Esk4 in H.
    unfold curr_byte_opt in H. rewrite (at_end_st text) in H by apply HW3.
    destruct l3 as [|y l4]; [discriminate|]. cbn [negb CstLex.st s_rest] in H.
    destruct (y =? 62) eqn:Ey; [|noerr]. assert (y = 62) by lia. subst y.
    fold (st (q + blen ws0 + 1 + blen ws4) (62 :: l4)) in H. rewrite (advance1_st text) in H by apply HW3. cbn [bind] in H.
    inversion H; subst. left. exists [], ws0, ws4, l4. cbn [flat_map app]. rewrite blen_nil, N.add_0_r.
    split; [exact El|]. split; [reflexivity|]. split; [exact Hws0|]. split; [exact Hws4|]. split; [constructor|].
    split; [reflexivity|]. apply (WV_cons text _ 62 _ HW3). lia. }
  assert (MARK : forall k, prefix_b (kw_of k) l1 = true ->
            match consume_decl text (st (q + blen ws0) l1) with
            | Ok s => parse_doctype_loop text C ev fu start s c
            | Err _ => err_from text start UnknownToken
            | Panic p0 => Panic p0
            | OutOfFuel => OutOfFuel
            end = Ok (s', c') ->
            (exists ds ws3 ws4 l', x0 :: l0 = flat_map r_sdecl ds ++ ws3 ++ [93] ++ ws4 ++ [62] ++ l' /\ forallb wf_sdecl ds = true /\
                Cst.wf_ws ws3 = true /\ Cst.wf_ws ws4 = true /\ dsteps ds c c' /\
                s' = st (q + blen (flat_map r_sdecl ds) + blen ws3 + 1 + blen ws4 + 1) l' /\
                WV (q + blen (flat_map r_sdecl ds) + blen ws3 + 1 + blen ws4 + 1) l') \/
            (exists ds qe, dsteps ds c c' /\ s' = st qe [] /\ WV qe [])).
  { intros k Ek Hm. destruct (prefix_b_split _ _ Ek) as (l2 & ->).
    destruct (consume_decl text (st (q + blen ws0) (kw_of k ++ l2))) as [s1| | |] eqn:Ecd; try noerr.
    destruct (inv_consume_decl k _ _ _ HW1 Ecd) as (body & l3 & -> & Hsc & Hb & -> & HW3).
    eapply (STEP (SMarkup ws0 k body) l3 c).
    - cbn [r_sdecl]. rewrite <- !app_assoc. reflexivity.
    - cbn [wf_sdecl]. rewrite (ws_s _ Hws0), Hsc, Hb. reflexivity.
    - reflexivity.
    - cbn [r_sdecl]. rewrite !blen_app. change (blen [62]) with 1.
      replace (q + (blen ws0 + (blen (kw_of k) + (blen (utf8s body) + 1)))) with (q + blen ws0 + blen (kw_of k) + blen (utf8s body) + 1) by lia. exact HW3.
    - cbn [r_sdecl]. rewrite !blen_app. change (blen [62]) with 1.
      replace (q + (blen ws0 + (blen (kw_of k) + (blen (utf8s body) + 1)))) with (q + blen ws0 + blen (kw_of k) + blen (utf8s body) + 1) by lia. reflexivity.
    - exact Hm. }
  change (b "<!ELEMENT") with (kw_of MElement) in H. change (b "<!ATTLIST") with (kw_of MAttlist) in H.
  change (b "<!NOTATION") with (kw_of MNotation) in H.
  destruct (prefix_b (kw_of MElement) l1) eqn:E1; [cbn [orb] in H; exact (MARK MElement E1 H)|].
  destruct (prefix_b (kw_of MAttlist) l1) eqn:E2; [cbn [orb] in H; exact (MARK MAttlist E2 H)|].
  destruct (prefix_b (kw_of MNotation) l1) eqn:E3; [cbn [orb] in H; exact (MARK MNotation E3 H)|].
  cbn [orb] in H. noerr.
Qed.

(* ---- the DOCTYPE ---- *)
Lemma inv_doctype p l c s' c' : WV p (E.kw_doctype ++ l) -> bom_len <= p ->
  parse_doctype text C ev (st p (E.kw_doctype ++ l)) c = Ok (s', c') ->
  (exists t l', E.kw_doctype ++ l = r_doctype t ++ l' /\ wf_doctype t = true /\ dsteps (subset_decls t) c c' /\
      s' = st (p + blen (r_doctype t)) l' /\ WV (p + blen (r_doctype t)) l') \/
  (exists ds qe, dsteps ds c c' /\ s' = st qe [] /\ WV qe []).
Proof.
  intros HW Hp H. unfold parse_doctype in H. cbv zeta in H. ib H s1 H1.
  destruct (inv_doctype_start _ _ _ HW H1) as (ws1 & name & ws2 & ext & y & l1 & -> & Hws1 & Hname & Hws2 & Hext & Hy & -> & HW1).
  set (q := p + 9 + blen ws1 + blen (utf8s name) + blen ws2 + blen (r_opt (fun xw : extid * bytes => r_extid (fst xw) ++ snd xw) ext)) in *.
  assert (Esk : skip_spaces (st q (y :: l1)) = st q (y :: l1)).
  { rewrite <- (N.add_0_r q) at 2. change 0 with (blen []). apply (skip_spaces_st text q [] (y :: l1)); [exact (WV_W _ _ _ HW1)|reflexivity|].
    cbn [stops]. destruct Hy as [-> | ->]; reflexivity. }
  rewrite Esk in H. rewrite (curr_byte_opt_st text) in H by apply HW1.
  assert (Hext' : wf_s ws2 = true /\ match ext with Some (x, w) => wf_s1 ws2 && wf_extid x && wf_s w | None => true end = true).
  { split; [apply ws_s; exact Hws2|]. destruct ext as [[x w]|]; [|reflexivity]. destruct Hext as (A & B0 & D).
    rewrite (ws_s1 _ Hws2 A), B0, (ws_s _ D). reflexivity. }
  destruct Hext' as (Hs2 & Hx).
  assert (HWy : WV (q + 1) l1) by (apply (WV_cons text _ y _ HW1); lia).
  destruct (y =? 62) eqn:E62.
  - assert (y = 62) by lia. subst y. rewrite (advance1_st text) in H by apply HW1. cbn [bind] in H. inversion H; subst. left.
    exists {| t_ws1 := ws1; t_name := name; t_ws2 := ws2; t_ext := ext; t_subset := None |}, l1.
    unfold r_doctype, subset_decls. cbn [t_ws1 t_name t_ws2 t_ext t_subset r_opt app].
    split; [rewrite <- !app_assoc; reflexivity|]. split.
    { unfold wf_doctype. cbn [t_ws1 t_name t_ws2 t_ext t_subset wf_opt]. rewrite Hws1, Hname, Hs2. cbn [andb].
      rewrite andb_true_r. clear - Hx. destruct ext as [[x w]|]; exact Hx. }
    split; [constructor|]. rewrite !blen_app. change (blen E.kw_doctype) with 9. change (blen [62]) with 1.
    match goal with |- _ = st ?a _ /\ WV ?a' _ => replace a with (q + 1) by (unfold q; try unfold bytes; try unfold Base.bytes; try unfold Cst.bytes; try unfold Scope.bytes; lia) end.
    split; [reflexivity|exact HWy].
  - assert (y = 91) by lia. subst y. rewrite (advance1_st text) in H by apply HW1. cbn [bind] in H.
    assert (Hq1 : bom_len < q + 1) by (unfold q; lia).
    destruct (inv_doctype_loop _ _ _ _ _ _ _ HWy Hq1 H) as [(ds & ws3 & ws4 & l' & -> & Hds & Hw3 & Hw4 & Hst & -> & HW')|R]; [left|right; exact R].
    exists {| t_ws1 := ws1; t_name := name; t_ws2 := ws2; t_ext := ext; t_subset := Some {| u_decls := ds; u_ws3 := ws3; u_ws4 := ws4 |} |}, l'.
    unfold r_doctype, subset_decls, r_subset. cbn [t_ws1 t_name t_ws2 t_ext t_subset r_opt u_decls u_ws3 u_ws4].
    split; [rewrite <- !app_assoc; reflexivity|]. split.
    { unfold wf_doctype, wf_subset. cbn [t_ws1 t_name t_ws2 t_ext t_subset wf_opt u_decls u_ws3 u_ws4].
      rewrite Hws1, Hname, Hs2, Hds, (ws_s _ Hw3), (ws_s _ Hw4). cbn [andb]. rewrite andb_true_r.
      clear - Hx. destruct ext as [[x w]|]; exact Hx. }
    split; [exact Hst|]. rewrite !blen_app. change (blen E.kw_doctype) with 9. change (blen [62]) with 1. change (blen [91]) with 1. change (blen [93]) with 1.
    match goal with |- _ = st ?a _ /\ WV ?a' _ =>
      replace a with (q + 1 + blen (flat_map r_sdecl ds) + blen ws3 + 1 + blen ws4 + 1) by (unfold q; try unfold bytes; try unfold Base.bytes; try unfold Cst.bytes; try unfold Scope.bytes; lia) end.
    split; [reflexivity|exact HW'].
Qed.

End DtdS.
