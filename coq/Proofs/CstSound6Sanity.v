(* Proofs/CstSound6Sanity.v -- C08 soundness, the capstone (stage S6): sanity examples for the fragment
   and the statement of Proofs/CstSound6.v, all by computation: a witness with everything
   ([ex6_ok]); inputs of the fragment that the crate rejects ([ex6_rej]); the documented leniency
   "never-referenced entity values" for markup, excluded by P8' ([cex6_unused]); elements split
   over entities ([ex6_split]). *)
From Coq Require Import String.
From Coq Require Import List NArith Bool Lia.
Import ListNotations.
From RX Require Import Generated.
From RX.Model Require Import Base CharClass Stream Tokenizer Doc Builder Parse.
From RX.Spec Require Cst Chars CstU CstNs CstText CstEnt Scope.
From RX.Spec Require Import CstFull CstFullS5 CstFullS6.
From RX.Proofs Require Import CstSound CstSoundT CstSoundN CstSoundP CstSound6.
Open Scope N_scope.

(* ---- sanity examples ---- *)
Definition acc6 (text : bytes) : bool := match parse text od with Ok _ => true | _ => false end.
Definition witness_6 (c : S6.doc) : bool := let text := S6.render c in in_fragment_6 text && acc6 text && S6.wf_doc c.

Definition xdc n v : X4.xdecl :=
  {| X4.x_ws0 := [10]; X4.x_ws1 := [32]; X4.x_name := n; X4.x_ws2 := [32]; X4.x_quote := 39; X4.x_value := v; X4.x_ws3 := [] |}.
Definition mk6 (ds : list sdecl6) (root : uitem) : S6.doc :=
  {| S6.x_bom := false; S6.x_decl := None;
     S6.x_dtd := Some {| S6.g_ws0 := []; S6.g_before := []; S6.g_dtd :=
        {| z_ws1 := [32]; z_name := b "r"; z_ws2 := [32]; z_ext := None;
           z_subset := Some {| zu_decls := ds; zu_ws3 := [10]; zu_ws4 := [] |} |} |};
     S6.x_main := {| d_before := []; d_ws0 := [10]; d_root := root; d_after := []; d_ws_end := [10] |} |}.
Definition dq p u : entry epieces := EDecl (elay " " "" "" 34) p u.

(* everything at once: a markup entity with a qualified element name resolved at the place of the
   reference, a namespace declaration inside the value whose URI comes from a character-data
   entity, attributes, a comment, a PI, a CDATA section, text, a nested reference to another
   markup entity and to a character-data entity; references in text, in an attribute value and in
   a namespace URI of the body; runs regrouped across the entity boundaries *)
Definition ex6_decls : list sdecl6 :=
  [ XEntity (xdc (b "u") (X4.XText [elit "urn:"; E.ERef (b "n")]));
    XEntity (xdc (b "n") (X4.XText [elit "v"; E.EP (T.PCharRef true (b "41"))]));
    XOther (SMisc [10] (IComment (b " between ")));
    XEntity (xdc (b "in") (X4.XContent [eem [] (b "i") [eat [] (b "k") [E.ERef (b "n")]]; etx [elit " tail"]]));
    XEntity (xdc (b "m") (X4.XContent
      [ etx [elit "head "; E.ERef (b "n")];
        eel (b "p") (b "x") [dq (b "q") [E.ERef (b "u")]; eat (b "q") (b "a") [elit "1"; E.EP (T.PPredef T.Amp)]]
            [ @IComment epieces (b " c "); etx [E.ERef (b "in"); E.EP (T.PCData (b "<raw>"))]; @IPI epieces (b "pi") [32] (b "d") ];
        etx [elit " end"] ]));
    XOther (SParam [10] [32] [32] (b "pe") [32] (PLiteral 34 (b "<x>")) []);
    XEntity (xdc (b "m") (X4.XContent [eem [] (b "ignored") []])) ].
Example ex6_ok : witness_6 (mk6 ex6_decls
  (eel (b "p") (b "r") [dq (b "p") [E.ERef (b "u")]; eat [] (b "a") [E.ERef (b "n"); elit "x"]]
       [etx [elit "t "; E.ERef (b "m"); elit " t "; E.ERef (b "in")]; eem [] (b "c") []; etx [E.ERef (b "m")]])) = true.
Proof. vm_compute. reflexivity. Qed.

(* the documents of the earlier stage are in the fragment *)
Example ex6_p : forallb (fun t => in_fragment_p (b t) && in_fragment_6 (b t))
  [ "<r/>"; "<!DOCTYPE r [<!ENTITY e 'v&amp;'>]><r a='&e;'>&e;</r>"; "<?xml version='1.0'?><!DOCTYPE r SYSTEM 'x' [<!ENTITY % p 'a<b'>]><r/>" ]%string = true.
Proof. vm_compute. reflexivity. Qed.

(* inputs of the fragment that are rejected: what the crate checks of a markup value when it is USED *)
Example ex6_rej : forallb (fun t => in_fragment_6 (b t) && negb (acc6 (b t)))
  [ "<!DOCTYPE r [<!ENTITY e '<b/>'>]><r a='&e;'/>";                                   (* a markup entity in an attribute value *)
    "<!DOCTYPE r [<!ENTITY e '<b/>'><!ENTITY f 'x&e;'>]><r a='&f;'/>";                 (* ... through a character-data entity *)
    "<!DOCTYPE r [<!ENTITY e '<b a=""&lt;""/>'>]><r>&e;</r>";                          (* D15: &lt; in a value inside an entity *)
    "<!DOCTYPE r [<!ENTITY l '&lt;'><!ENTITY e '<b a=""&l;""/>'>]><r>&e;</r>";
    "<!DOCTYPE r [<!ENTITY e '<p:b/>'>]><r>&e;</r>";                                   (* the prefix is not bound at the reference *)
    "<!DOCTYPE r [<!ENTITY e '<b a=""1"" a=""2""/>'>]><r>&e;</r>";                     (* duplicate attribute inside the value *)
    "<!DOCTYPE r [<!ENTITY e '<b>&e;</b>'>]><r>&e;</r>";                               (* recursion through markup *)
    "<!DOCTYPE r [<!ENTITY e '<b>&f;</b>'>]><r>&e;</r>";                               (* undeclared inside a used value *)
    "<!DOCTYPE r [<!ENTITY e '<b/>'>]><r>&e;</r>&e;";                                  (* a reference outside the root *)
    "<!DOCTYPE r [<!ENTITY e '<b/>'>]>&e;" ]%string = true.
Proof. vm_compute. reflexivity. Qed.

(* the documented leniency "never-referenced entity values" for markup: accepted, not renderings of
   S6 documents; each is excluded by P8' *)
Example cex6_unused : forallb (fun t => acc6 (b t) && negb (ge_values_ok6 (b t)))
  [ "<!DOCTYPE r [<!ENTITY e '<b>'>]><r/>";               (* an unclosed element *)
    "<!DOCTYPE r [<!ENTITY e '</r>'>]><r/>";              (* an end tag alone *)
    "<!DOCTYPE r [<!ENTITY e '<a></b>'>]><r/>";           (* mismatched names *)
    "<!DOCTYPE r [<!ENTITY e '<a b=1/>'>]><r/>";          (* not a start tag *)
    "<!DOCTYPE r [<!ENTITY e '<a b=""x"" b=""y""'>]><r/>";
    "<!DOCTYPE r [<!ENTITY e '<!-- -- -->'>]><r/>"; "<!DOCTYPE r [<!ENTITY e '<?xml v?>'>]><r/>";
    "<!DOCTYPE r [<!ENTITY e '<a/>]]>'>]><r/>"; "<!DOCTYPE r [<!ENTITY e '<![CDATA[x'>]><r/>";
    "<!DOCTYPE r [<!ENTITY e '<a>&#60;</a>'>]><r/>"; "<!DOCTYPE r [<!ENTITY e '<a>%</a>'>]><r/>";
    "<!DOCTYPE r [<!ENTITY e '<a x=""&y""/>'>]><r/>" ]%string = true.
Proof. vm_compute. reflexivity. Qed.

(* an element opened in one entity and closed in another, or closed in the body: each value alone is
   broken, so P8' excludes the document -- and the crate rejects the use anyway (the entity floor) *)
Example ex6_split : forallb (fun t => negb (acc6 (b t)) && negb (ge_values_ok6 (b t)))
  [ "<!DOCTYPE r [<!ENTITY o '<b>'><!ENTITY c '</b>'>]><r>&o;&c;</r>";
    "<!DOCTYPE r [<!ENTITY o '<b>'>]><r>&o;</b></r>";
    "<!DOCTYPE r [<!ENTITY c '</b>'>]><r><b>&c;</r>";
    "<!DOCTYPE r [<!ENTITY c '</r><r>'>]><r>&c;</r>" ]%string = true.
Proof. vm_compute. reflexivity. Qed.

(* the first milestone: no '&' inside a markup value *)
Example ex6a : forallb (fun t => in_fragment_6a (b t) && acc6 (b t))
  [ "<!DOCTYPE r [<!ENTITY m '<b k=""1""><!--c-->t<![CDATA[<]]></b> x'><!ENTITY n 'v&amp;'>]><r a='&n;'>&m;&n;&m;</r>" ]%string = true.
Proof. vm_compute. reflexivity. Qed.
Example ex6a_out : forallb (fun t => in_fragment_6 (b t) && negb (in_fragment_6a (b t)))
  [ "<!DOCTYPE r [<!ENTITY m '<b>&amp;</b>'>]><r>&m;</r>"; "<!DOCTYPE r [<!ENTITY n 'v'><!ENTITY m '<b>&n;</b>'>]><r>&m;</r>" ]%string = true.
Proof. vm_compute. reflexivity. Qed.
