(* Proofs/AttrListProofs.v -- property C05: each element exposes exactly its attributes other
   than namespace declarations, in source order; an xmlns / xmlns:* attribute is never
   reported as an attribute. *)
From Coq Require Import Lia ZifyBool ZifyN ZifyNat.
From RX Require Import Generated.
From RX.Model Require Import Base CharClass Stream Tokenizer Doc Builder.
From RX.Proofs Require Import Tactics.

Local Open Scope N_scope.

(* ---- small facts ---- *)

Lemma bytes_eqb_eq : forall x y, bytes_eqb x y = true <-> x = y.
Proof.
  induction x as [|a x IH]; destruct y; cbn; split; intros H; try discriminate; auto.
  - apply andb_true_iff in H. destruct H as [H1 H2]. apply N.eqb_eq in H1. apply IH in H2. congruence.
  - inversion H; subst. rewrite N.eqb_refl. cbn. apply IH; reflexivity.
Qed.

Lemma opt_str_eqb_eq : forall x y, opt_str_eqb x y = true <-> x = y.
Proof.
  destruct x, y; cbn; split; intros H; try discriminate; auto.
  - apply bytes_eqb_eq in H; congruence.
  - inversion H; subst. apply bytes_eqb_eq; reflexivity.
Qed.

(* the comparison of expanded names made by any_same_name is Leibniz equality *)
Definition ename_eqb (x y : option bytes * bytes) : bool :=
  opt_str_eqb (fst x) (fst y) && bytes_eqb (snd x) (snd y).

Lemma ename_eqb_eq : forall x y, ename_eqb x y = true <-> x = y.
Proof.
  intros [a c] [a' c']; unfold ename_eqb; cbn [fst snd].
  rewrite andb_true_iff, opt_str_eqb_eq, bytes_eqb_eq. split.
  - intros [-> ->]; reflexivity.
  - intros H; inversion H; auto.
Qed.

Lemma err_from_not_ok : forall A text p mk (x : A), @err_from text A p mk <> Ok x.
Proof.
  intros A text p mk x; unfold err_from. destruct (gen_text_pos_from text p); cbn; discriminate.
Qed.

Lemma NoDup_snoc : forall A (l : list A) x, NoDup l -> ~ In x l -> NoDup (l ++ [x]).
Proof.
  induction 1 as [|y l Hy Hl IH]; intros Hx; cbn [app].
  - constructor; [intros []|constructor].
  - constructor.
    + intros H. apply in_app_or in H. destruct H as [H|[H|[]]]; [auto|].
      apply Hx; left; congruence.
    + apply IH. intros H; apply Hx; right; assumption.
Qed.

Lemma Forall2_imp : forall A B (R1 R2 : A -> B -> Prop) l l',
  (forall a c, R1 a c -> R2 a c) -> Forall2 R1 l l' -> Forall2 R2 l l'.
Proof. induction 2; constructor; auto. Qed.

Lemma Forall2_snoc : forall A B (R : A -> B -> Prop) l l' a c,
  Forall2 R l l' -> R a c -> Forall2 R (l ++ [a]) (l' ++ [c]).
Proof. induction 1; intros; cbn [app]; repeat constructor; auto. Qed.

(* ---- process_attribute ---- *)

Lemma normalize_attribute_frame : forall text value c v c1,
  normalize_attribute text value c = Ok (v, c1) ->
  c_cur_attrs c1 = c_cur_attrs c /\ c_doc c1 = c_doc c /\ c_ns_start_idx c1 = c_ns_start_idx c.
Proof.
  intros text value c v c1 H. unfold normalize_attribute in H.
  destruct (existsb _ (slice_bytes text value)).
  - apply bind_ok in H. destruct H as [[t ld] [_ H]].
    apply bind_ok in H. destruct H as [bs [_ H]].
    inversion H; subst. auto.
  - inversion H; subst. auto.
Qed.

Lemma push_ns_frame : forall text name uri d d',
  push_ns text name uri d = Ok d' -> d_attrs d' = d_attrs d /\ d_nodes d' = d_nodes d.
Proof.
  intros text name uri d d' H. unfold push_ns in H.
  destruct (find_ns _ _ _ _ _).
  - inversion H; subst; auto.
  - destruct (ns_values_limit <? len_N (d_ns_values d)); [discriminate|].
    inversion H; subst; auto.
Qed.

(* the value stored with an attribute is the normalized value *)
Lemma process_attribute_spec : forall text r qn eq prefix local value c c',
  process_attribute text r qn eq prefix local value c = Ok c' ->
  exists v c1, normalize_attribute text value c = Ok (v, c1) /\
  d_attrs (c_doc c') = d_attrs (c_doc c) /\ d_nodes (c_doc c') = d_nodes (c_doc c) /\
  (if bytes_eqb (slice_bytes text prefix) xmlns_str || ((slice_len prefix =? 0) && bytes_eqb (slice_bytes text local) xmlns_str)
   then c_cur_attrs c' = c_cur_attrs c
   else c_cur_attrs c' = c_cur_attrs c ++
          [{| ta_prefix := prefix; ta_local := local; ta_value := v; ta_range := r;
              ta_qname_len := qn; ta_eq_len := eq |}]).
Proof.
  intros text r qn eq prefix local value c c' H. unfold process_attribute in H.
  apply bind_ok in H. destruct H as [[v c1] [Hn H]].
  exists v, c1. split; [assumption|].
  destruct (normalize_attribute_frame _ _ _ _ _ Hn) as [Ha [Hd _]].
  rewrite <- Ha, <- Hd. clear Hn Ha Hd.
  destruct (bytes_eqb (slice_bytes text prefix) xmlns_str); cbn [orb].
  - destruct (bytes_eqb (slice_bytes text local) xmlns_str);
      [exfalso; eapply err_from_not_ok; eassumption|].
    destruct (bytes_eqb (storage_bytes text v) ns_xmlns_uri);
      [exfalso; eapply err_from_not_ok; eassumption|].
    destruct (bytes_eqb (slice_bytes text local) ns_xml_prefix &&
              negb (bytes_eqb (storage_bytes text v) ns_xml_uri));
      [exfalso; eapply err_from_not_ok; eassumption|].
    destruct (negb (bytes_eqb (slice_bytes text local) ns_xml_prefix) &&
              bytes_eqb (storage_bytes text v) ns_xml_uri);
      [exfalso; eapply err_from_not_ok; eassumption|].
    apply bind_ok in H. destruct H as [ex [_ H]].
    destruct ex; [exfalso; eapply err_from_not_ok; eassumption|].
    destruct (negb (bytes_eqb (storage_bytes text v) ns_xml_uri)).
    + apply bind_ok in H. destruct H as [d [Hp H]]. inversion H; subst.
      apply push_ns_frame in Hp. cbn [c_doc c_cur_attrs set_doc]. tauto.
    + inversion H; subst; auto.
  - destruct ((slice_len prefix =? 0) && bytes_eqb (slice_bytes text local) xmlns_str).
    + destruct (bytes_eqb (storage_bytes text v) ns_xml_uri);
        [exfalso; eapply err_from_not_ok; eassumption|].
      destruct (bytes_eqb (storage_bytes text v) ns_xmlns_uri);
        [exfalso; eapply err_from_not_ok; eassumption|].
      apply bind_ok in H. destruct H as [ex [_ H]].
      destruct ex; [exfalso; eapply err_from_not_ok; eassumption|].
      apply bind_ok in H. destruct H as [d [Hp H]]. inversion H; subst.
      apply push_ns_frame in Hp. cbn [c_doc c_cur_attrs set_doc]. tauto.
    + inversion H; subst. cbn [c_doc c_cur_attrs set_cur_attrs]. auto.
Qed.

Theorem process_attribute_classifies : forall text r qn eq prefix local value c c',
  process_attribute text r qn eq prefix local value c = Ok c' ->
  d_attrs (c_doc c') = d_attrs (c_doc c) /\ d_nodes (c_doc c') = d_nodes (c_doc c) /\
  (if bytes_eqb (slice_bytes text prefix) xmlns_str || ((slice_len prefix =? 0) && bytes_eqb (slice_bytes text local) xmlns_str)
   then c_cur_attrs c' = c_cur_attrs c
   else exists v, c_cur_attrs c' = c_cur_attrs c ++
          [{| ta_prefix := prefix; ta_local := local; ta_value := v; ta_range := r;
              ta_qname_len := qn; ta_eq_len := eq |}]).
Proof.
  intros text r qn eq prefix local value c c' H.
  apply process_attribute_spec in H. destruct H as [v [c1 [_ [H1 [H2 H3]]]]].
  repeat split; auto.
  destruct (bytes_eqb (slice_bytes text prefix) xmlns_str || ((slice_len prefix =? 0) && bytes_eqb (slice_bytes text local) xmlns_str));
    eauto.
Qed.
Print Assumptions process_attribute_classifies.

(* ---- resolve_attributes ---- *)

(* the expanded name of a stored attribute *)
Definition named (text : bytes) (d : document) (a : attr_data) (n : option bytes * bytes) : Prop :=
  attr_expanded_name text d (ad_ns_idx a) (ad_local a) = Ok n.

(* how a stored attribute derives from the temporary one *)
Definition ns_resolved (text : bytes) (nss : range) (d : document) (t : temp_attr) (a : attr_data) : Prop :=
  let pb := slice_bytes text (ta_prefix t) in
  if bytes_eqb pb ns_xml_prefix then ad_ns_idx a = Some 0
  else match pb with
       | [] => ad_ns_idx a = None
       | _ => get_ns_idx_by_prefix text nss (fst (ta_range t)) (ta_prefix t) d = Ok (ad_ns_idx a)
       end.

Definition fields_copied (t : temp_attr) (a : attr_data) : Prop :=
  ad_local a = ta_local t /\ ad_value a = ta_value t /\ ad_range a = ta_range t /\
  ad_qname_len a = ta_qname_len t /\ ad_eq_len a = ta_eq_len t.

Lemma find_prefix_idx_ext : forall text d d' idxs p,
  d_ns_values d' = d_ns_values d -> find_prefix_idx text d' idxs p = find_prefix_idx text d idxs p.
Proof.
  intros text d d' idxs p Hv. induction idxs as [|i r IH]; cbn [find_prefix_idx]; [reflexivity|].
  unfold ns_prefix_at. rewrite Hv, IH. reflexivity.
Qed.

Lemma get_ns_idx_by_prefix_ext : forall text nss pos prefix d d',
  d_ns_values d' = d_ns_values d -> d_ns_tree d' = d_ns_tree d ->
  get_ns_idx_by_prefix text nss pos prefix d' = get_ns_idx_by_prefix text nss pos prefix d.
Proof.
  intros text nss pos prefix d d' Hv Ht. unfold get_ns_idx_by_prefix.
  destruct (bytes_eqb (slice_bytes text prefix) ns_xml_prefix); [reflexivity|].
  unfold ns_range_slice. rewrite Ht. destruct nss as [a e].
  destruct ((e <? a) || (len_N (d_ns_tree d) <? e)); [reflexivity|]. cbn [bind].
  rewrite (find_prefix_idx_ext text d d') by assumption. reflexivity.
Qed.

Lemma ns_resolved_ext : forall text nss d d' t a,
  d_ns_values d' = d_ns_values d -> d_ns_tree d' = d_ns_tree d ->
  ns_resolved text nss d' t a -> ns_resolved text nss d t a.
Proof.
  intros text nss d d' t a Hv Ht. unfold ns_resolved.
  rewrite (get_ns_idx_by_prefix_ext text nss _ _ d d') by assumption. auto.
Qed.

Lemma named_ext : forall text d d' a n,
  d_ns_values d' = d_ns_values d -> named text d a n -> named text d' a n.
Proof. unfold named, attr_expanded_name; intros text d d' a n Hv H. rewrite Hv. exact H. Qed.

Lemma any_same_name_false : forall text d name acc names,
  Forall2 (named text d) acc names ->
  any_same_name text d acc name = Ok false -> ~ In name names.
Proof.
  induction 1 as [|a n acc names Ha Hacc IH]; intros H; cbn [any_same_name] in H.
  - intros [].
  - unfold named in Ha. rewrite Ha in H. cbn [bind] in H.
    destruct (opt_str_eqb (fst n) (fst name) && bytes_eqb (snd n) (snd name)) eqn:E; [discriminate|].
    intros [->|Hin]; [|exact (IH H Hin)].
    assert (ename_eqb name name = true) by (apply ename_eqb_eq; reflexivity).
    unfold ename_eqb in *. congruence.
Qed.

Lemma resolve_attrs_loop_spec : forall text nss start l base acc d d' names,
  N.to_nat start = length base -> d_attrs d = base ++ acc ->
  Forall2 (named text d) acc names -> NoDup names ->
  resolve_attrs_loop text nss start l d = Ok d' ->
  exists new names',
    d_attrs d' = base ++ acc ++ new /\
    d_nodes d' = d_nodes d /\ d_ns_values d' = d_ns_values d /\ d_ns_tree d' = d_ns_tree d /\
    Forall2 fields_copied l new /\ Forall2 (ns_resolved text nss d) l new /\
    Forall2 (named text d) new names' /\ NoDup (names ++ names').
Proof.
  induction l as [|t l IH]; intros base acc d d' names Hs Hd Hn Hnd H; cbn [resolve_attrs_loop] in H.
  - inversion H; subst d'. exists [], []. rewrite !app_nil_r. repeat split; auto; constructor.
  - apply bind_ok in H. destruct H as [ns_idx [Hns H]].
    apply bind_ok in H. destruct H as [name [Hname H]].
    apply bind_ok in H. destruct H as [dup [Hdup H]].
    destruct dup; [exfalso; eapply err_from_not_ok; eassumption|].
    rewrite Hd, skipn_app, Hs, skipn_all in Hdup.
    replace (length base - length base)%nat with 0%nat in Hdup by lia. cbn [app skipn] in Hdup.
    pose proof (any_same_name_false _ _ _ _ _ Hn Hdup) as Hfresh.
    set (a := {| ad_ns_idx := ns_idx; ad_local := ta_local t; ad_value := ta_value t;
                 ad_range := ta_range t; ad_qname_len := ta_qname_len t;
                 ad_eq_len := ta_eq_len t |}) in *.
    set (d1 := set_attrs d (d_attrs d ++ [a])) in *.
    assert (Hv1 : d_ns_values d1 = d_ns_values d) by reflexivity.
    assert (Ht1 : d_ns_tree d1 = d_ns_tree d) by reflexivity.
    destruct (IH base (acc ++ [a]) d1 d' (names ++ [name])) as [new [names' K]]; auto.
    + unfold d1; cbn [d_attrs set_attrs]. rewrite Hd, app_assoc. reflexivity.
    + apply Forall2_snoc.
      * eapply Forall2_imp; [|exact Hn]. intros x n Hx. apply (named_ext text d d1); auto.
      * exact Hname.
    + apply NoDup_snoc; assumption.
    + destruct K as [K1 [K2 [K3 [K4 [K5 [K6 [K7 K8]]]]]]].
      exists (a :: new), (name :: names'). repeat split.
      * rewrite K1, <- !app_assoc. reflexivity.
      * rewrite K2; reflexivity.
      * rewrite K3; reflexivity.
      * rewrite K4; reflexivity.
      * constructor; [repeat split|assumption].
      * constructor.
        -- unfold ns_resolved. change (ad_ns_idx a) with ns_idx. revert Hns.
           destruct (bytes_eqb (slice_bytes text (ta_prefix t)) ns_xml_prefix);
             [intros Hns; inversion Hns; reflexivity|].
           destruct (slice_bytes text (ta_prefix t));
             [intros Hns; inversion Hns; reflexivity|intros Hns; exact Hns].
        -- eapply Forall2_imp; [|exact K6]. intros x y Hxy.
           apply (ns_resolved_ext text nss d d1); auto.
      * constructor; [exact Hname|].
        eapply Forall2_imp; [|exact K7]. intros x n Hx. apply (named_ext text d1 d); auto.
      * rewrite <- app_assoc in K8. exact K8.
Qed.

Lemma short_range_ok : forall a e r, short_range a e = Ok r -> r = (a, e).
Proof.
  unfold short_range; intros a e r H.
  destruct ((u32_max <? a) || (u32_max <? e)); [discriminate|]. inversion H; reflexivity.
Qed.

(* everything about one call *)
Lemma resolve_attributes_spec : forall text nss c r c',
  resolve_attributes text nss c = Ok (r, c') ->
  exists new names,
    c_cur_attrs c' = [] /\
    d_attrs (c_doc c') = d_attrs (c_doc c) ++ new /\
    d_nodes (c_doc c') = d_nodes (c_doc c) /\
    d_ns_values (c_doc c') = d_ns_values (c_doc c) /\
    d_ns_tree (c_doc c') = d_ns_tree (c_doc c) /\
    r = match c_cur_attrs c with
        | [] => (0, 0)
        | _ => (len_N (d_attrs (c_doc c)), len_N (d_attrs (c_doc c')))
        end /\
    Forall2 fields_copied (c_cur_attrs c) new /\
    Forall2 (ns_resolved text nss (c_doc c')) (c_cur_attrs c) new /\
    Forall2 (named text (c_doc c')) new names /\ NoDup names.
Proof.
  intros text nss c r c' H. unfold resolve_attributes in H.
  destruct (c_cur_attrs c) as [|t l] eqn:El.
  - inversion H; subst. exists [], []. rewrite app_nil_r, El.
    repeat split; auto; constructor.
  - destruct (u32_max <=? len_N (d_attrs (c_doc c)) + len_N (t :: l)); [discriminate|].
    apply bind_ok in H. destruct H as [d [Hl H]].
    apply bind_ok in H. destruct H as [r0 [Hr H]].
    apply short_range_ok in Hr. inversion H; subst; clear H.
    cbn [c_doc c_cur_attrs set_doc set_cur_attrs].
    assert (K : exists new names',
      d_attrs d = d_attrs (c_doc c) ++ [] ++ new /\
      d_nodes d = d_nodes (c_doc c) /\ d_ns_values d = d_ns_values (c_doc c) /\
      d_ns_tree d = d_ns_tree (c_doc c) /\
      Forall2 fields_copied (t :: l) new /\ Forall2 (ns_resolved text nss (c_doc c)) (t :: l) new /\
      Forall2 (named text (c_doc c)) new names' /\ NoDup ([] ++ names')).
    { apply (resolve_attrs_loop_spec text nss (len_N (d_attrs (c_doc c))) (t :: l)
               (d_attrs (c_doc c)) [] (c_doc c) d []); auto.
      - unfold len_N. lia.
      - rewrite app_nil_r; reflexivity.
      - constructor. }
    destruct K as [new [names K]].
    + destruct K as [K1 [K2 [K3 [K4 [K5 [K6 [K7 K8]]]]]]]. cbn [app] in *.
      exists new, names. repeat split; auto.
      * eapply Forall2_imp; [|exact K6]. intros x y Hxy.
        apply (ns_resolved_ext text nss d (c_doc c)); auto.
      * eapply Forall2_imp; [|exact K7]. intros x n Hx. apply (named_ext text (c_doc c) d); auto.
Qed.

Lemma fields_copied_maps : forall l new,
  Forall2 fields_copied l new ->
  map ad_local new = map ta_local l /\ map ad_value new = map ta_value l /\
  map ad_range new = map ta_range l /\ map ad_qname_len new = map ta_qname_len l /\
  map ad_eq_len new = map ta_eq_len l.
Proof.
  induction 1 as [|t a l new [H1 [H2 [H3 [H4 H5]]]] _ [I1 [I2 [I3 [I4 I5]]]]]; cbn [map].
  - repeat split.
  - repeat split; congruence.
Qed.

(* same order, nothing dropped or duplicated *)
Theorem resolve_attributes_in_order : forall text nss c r c',
  resolve_attributes text nss c = Ok (r, c') ->
  c_cur_attrs c' = [] /\
  (exists new,
     d_attrs (c_doc c') = d_attrs (c_doc c) ++ new /\
     map ad_local new = map ta_local (c_cur_attrs c) /\
     map ad_value new = map ta_value (c_cur_attrs c) /\
     map ad_range new = map ta_range (c_cur_attrs c) /\
     map ad_qname_len new = map ta_qname_len (c_cur_attrs c) /\
     map ad_eq_len new = map ta_eq_len (c_cur_attrs c)) /\
  r = match c_cur_attrs c with
      | [] => (0, 0)
      | _ => (len_N (d_attrs (c_doc c)), len_N (d_attrs (c_doc c')))
      end /\
  d_nodes (c_doc c') = d_nodes (c_doc c) /\
  d_ns_values (c_doc c') = d_ns_values (c_doc c) /\
  d_ns_tree (c_doc c') = d_ns_tree (c_doc c).
Proof.
  intros text nss c r c' H. apply resolve_attributes_spec in H.
  destruct H as [new [names [H1 [H2 [H3 [H4 [H5 [H6 [H7 _]]]]]]]]].
  repeat split; auto. exists new. split; [assumption|]. apply fields_copied_maps; assumption.
Qed.
Print Assumptions resolve_attributes_in_order.

(* the expanded names of the new attributes exist and are pairwise distinct *)
Theorem resolve_attributes_unique : forall text nss c r c' new,
  resolve_attributes text nss c = Ok (r, c') ->
  d_attrs (c_doc c') = d_attrs (c_doc c) ++ new ->
  exists names,
    Forall2 (fun a n => attr_expanded_name text (c_doc c') (ad_ns_idx a) (ad_local a) = Ok n)
            new names /\
    NoDup names.
Proof.
  intros text nss c r c' new H Hnew. apply resolve_attributes_spec in H.
  destruct H as [new' [names [_ [H2 [_ [_ [_ [_ [_ [_ [H9 H10]]]]]]]]]]].
  rewrite H2 in Hnew. apply app_inv_head in Hnew. subst new'.
  exists names. split; assumption.
Qed.
Print Assumptions resolve_attributes_unique.

(* the same in terms of the comparison the source makes *)
Corollary resolve_attributes_unique_eqb : forall text nss c r c' new i j a a' n n',
  resolve_attributes text nss c = Ok (r, c') ->
  d_attrs (c_doc c') = d_attrs (c_doc c) ++ new ->
  nth_error new i = Some a -> nth_error new j = Some a' -> i <> j ->
  attr_expanded_name text (c_doc c') (ad_ns_idx a) (ad_local a) = Ok n ->
  attr_expanded_name text (c_doc c') (ad_ns_idx a') (ad_local a') = Ok n' ->
  opt_str_eqb (fst n) (fst n') && bytes_eqb (snd n) (snd n') = false.
Proof.
  intros text nss c r c' new i j a a' n n' H Hnew Hi Hj Hij Hn Hn'.
  destruct (resolve_attributes_unique _ _ _ _ _ _ H Hnew) as [names [HF HD]].
  assert (K : forall k x m, nth_error new k = Some x ->
            attr_expanded_name text (c_doc c') (ad_ns_idx x) (ad_local x) = Ok m ->
            nth_error names k = Some m).
  { clear -HF. induction HF as [|y p l l' Hy _ IH]; intros [|k] x m Hk Hm; cbn in *; try discriminate.
    - inversion Hk; subst. congruence.
    - eauto. }
  pose proof (K _ _ _ Hi Hn) as Ki. pose proof (K _ _ _ Hj Hn') as Kj.
  destruct (opt_str_eqb (fst n) (fst n') && bytes_eqb (snd n) (snd n')) eqn:E; [|reflexivity].
  change (ename_eqb n n' = true) in E. apply ename_eqb_eq in E. subst n'.
  exfalso. apply Hij.
  apply (proj1 (NoDup_nth_error names) HD); [|congruence].
  apply nth_error_Some. congruence.
Qed.
Print Assumptions resolve_attributes_unique_eqb.

(* each new attribute's namespace index *)
Theorem resolve_attributes_namespace : forall text nss c r c' new,
  resolve_attributes text nss c = Ok (r, c') ->
  d_attrs (c_doc c') = d_attrs (c_doc c) ++ new ->
  Forall2 (fun t a =>
             let pb := slice_bytes text (ta_prefix t) in
             if bytes_eqb pb ns_xml_prefix then ad_ns_idx a = Some 0
             else match pb with
                  | [] => ad_ns_idx a = None
                  | _ => get_ns_idx_by_prefix text nss (fst (ta_range t)) (ta_prefix t) (c_doc c')
                         = Ok (ad_ns_idx a)
                  end)
          (c_cur_attrs c) new.
Proof.
  intros text nss c r c' new H Hnew. apply resolve_attributes_spec in H.
  destruct H as [new' [names [_ [H2 [_ [_ [_ [_ [_ [H8 _]]]]]]]]]].
  rewrite H2 in Hnew. apply app_inv_head in Hnew. subst new'. exact H8.
Qed.
Print Assumptions resolve_attributes_namespace.
