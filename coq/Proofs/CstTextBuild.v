(* Proofs/CstTextBuild.v -- C04/C05 on whole documents, builder side: the effect of the real
   callback on the tokens of a text run (a fragment per segment, merged by the reset of the next
   token) and on start tags whose attribute values are normalised. *)
From Coq Require Import Ascii String.
From Coq Require Import List NArith PeanoNat Bool Lia ZifyBool ZifyN ZifyNat.
Import ListNotations.
From RX Require Import Generated.
From RX.Model Require Import Base CharClass Stream Tokenizer Doc Builder Parse.
From RX.Spec Require Cst CstText.
From RX.Spec Require Import Text.
From RX.Proofs Require Import CstLex CstBuild TextMachine TextMerge NoPanicUtf8 CstTextSem CstTextLex.
Open Scope N_scope.

(* the loop detector is at depth 0: we are not inside an entity *)
Definition LD (c : context) : Prop := ld_depth (c_ld c) = 0.

Lemma map_snoc_inv {A B} (f : A -> B) : forall l a r, map f l = a ++ [r] ->
  exists l0 x, l = l0 ++ [x] /\ map f l0 = a /\ f x = r.
Proof.
  intros l a r H. destruct (exists_last (l := l)) as (l0 & x & ->).
  { intros ->. destruct a; discriminate. }
  rewrite map_app in H. cbn [map] in H. apply app_inj_tail in H. destruct H as [H1 H2].
  exists l0, x. auto.
Qed.

Lemma list_upd_snoc {A} (f : A -> A) : forall l x, list_upd (l ++ [x]) (length l) f = Some (l ++ [f x]).
Proof.
  induction l as [|a l IH]; intros x; cbn [app length list_upd]; [reflexivity|]. rewrite IH. reflexivity.
Qed.

Section TBuild.
Variable text : bytes.
Hypothesis Hascii : Forall (fun x => x < 128) text.

Notation W := (CstLex.W text).
Notation tok_ev := (CstBuild.tok_ev text).

(* ------------------------------------------------------------------------------------------ *)
(* the fragment appended for a segment                                                        *)
(* ------------------------------------------------------------------------------------------ *)

Definition frag (p : N) (s : seg) : cow :=
  match s with
  | SS l =>
    let x := T.r_pieces l in
    if existsb (fun y => (y =? 38) || (y =? 13)) x then CowOwned (seg_sem s)
    else CowBorrowed (sl p (p + blen x))
  | SC bs =>
    if mem_b 13 bs then CowOwned (norm_eol bs) else CowBorrowed (sl (p + 9) (p + 9 + blen bs))
  end.

Definition seg_tok (p : N) (s : seg) : Tokenizer.token :=
  match s with
  | SS l => TText (sl p (p + blen (T.r_pieces l))) (p, p + blen (T.r_pieces l))
  | SC bs => TCdata (sl (p + 9) (p + 9 + blen bs)) (p, p + 9 + blen bs + 3)
  end.
Definition seg_range (p : N) (s : seg) : range := (p, p + blen (r_seg s)).

Lemma ss_vpieces l : forallb T.wf_tpiece l = true -> forallb no_cdata l = true -> forallb (T.wf_vpiece 60) l = true.
Proof.
  induction l as [|p l IH]; intros H1 H2; [reflexivity|]. cbn [forallb] in *.
  apply andb_true_iff in H1. apply andb_true_iff in H2. destruct H1, H2.
  rewrite IH by assumption. rewrite CstTextLex.tpiece_vpiece; [reflexivity|assumption|].
  destruct p; try reflexivity. discriminate.
Qed.

Lemma mem_b_existsb x l : mem_b x l = existsb (fun y => y =? x) l.
Proof. induction l as [|y l IH]; [reflexivity|]. cbn [mem_b existsb]. rewrite IH, (N.eqb_sym x y). reflexivity. Qed.

Lemma existsb_or_false {A} (f g : A -> bool) l : existsb (fun y => f y || g y) l = false ->
  existsb f l = false /\ existsb g l = false.
Proof.
  induction l as [|y l IH]; intros H; [auto|]. cbn [existsb] in *. apply orb_false_iff in H. destruct H as [H1 H2].
  apply orb_false_iff in H1. destruct H1 as [Hf Hg]. destruct (IH H2) as [I1 I2]. rewrite Hf, Hg, I1, I2. auto.
Qed.

Lemma frag_bytes p s more : W p (r_seg s ++ more) -> seg_wf s -> cow_bytes text (frag p s) = seg_sem s.
Proof.
  intros HW Hwf. destruct s as [l|bs]; cbn [frag r_seg seg_wf] in *.
  - cbv zeta. destruct (existsb (fun y => (y =? 38) || (y =? 13)) (T.r_pieces l)) eqn:E; [reflexivity|].
    cbn [cow_bytes]. rewrite (W_slice _ _ _ _ HW). destruct Hwf as (_ & H1 & H2 & _).
    destruct (existsb_or_false _ _ _ E) as [E1 E2]. cbn [seg_sem].
    rewrite (chunks_no_amp 60) by (try apply ss_vpieces; assumption).
    rewrite decode_lits, norm_eol_nocr by exact E2. reflexivity.
  - destruct (mem_b 13 bs) eqn:E; [reflexivity|]. cbn [cow_bytes seg_sem].
    rewrite <- !app_assoc in HW. pose proof (W_app _ _ _ _ HW) as HW1. change (blen T.cdata_open) with 9 in HW1.
    rewrite (W_slice _ _ _ _ HW1). rewrite mem_b_existsb in E. rewrite norm_eol_nocr by exact E. reflexivity.
Qed.

Lemma stream_from_substr_W p x more : W p (x ++ more) ->
  stream_from_substr text p (p + blen x) = Ok (sst (p + blen x) p (x ++ more)).
Proof.
  intros [H1 H2]. unfold stream_from_substr. rewrite blen_app in H2.
  replace ((p + blen x <? p) || (tlen text <? p + blen x)) with false by lia.
  rewrite H1. reflexivity.
Qed.

Lemma tok_seg p s more c : W p (r_seg s ++ more) -> seg_wf s -> LD c ->
  tok_ev (seg_tok p s) c = append_text (frag p s) (seg_range p s) c.
Proof.
  intros HW Hwf Hld. destruct s as [l|bs]; cbn [seg_tok frag r_seg seg_wf seg_range] in *.
  - (* a text token *)
    destruct Hwf as (Hne & H1 & H2 & H3). pose proof (ss_vpieces l H1 H2) as Hv.
    unfold CstBuild.tok_ev, Parse.token. cbn [token_with]. unfold process_text. cbv zeta.
    destruct (existsb (fun y => (y =? 38) || (y =? 13)) (T.r_pieces l)) eqn:E.
    + pose proof (W_app _ _ _ _ HW) as HWe. pose proof (W_le _ _ _ HWe) as Hle.
      rewrite (process_text_with_chunks_fueled text _ _ _ c (sst (p + blen (T.r_pieces l)) p (T.r_pieces l ++ more))
                 (flat_map T.piece_chunks l)).
      * unfold LD in Hld. rewrite Hld. change (0 <? 0) with false. cbn [seg_sem]. unfold seg_range. cbn [r_seg].
        destruct (chunks_ok_v 60 l Hv) as [Hok Hnr].
        rewrite text_chunks_decode_partial by exact Hnr.
        unfold text_result.
        assert (Hval : valid_utf8_b (decode_chunks (flat_map T.piece_chunks l)) = true).
        { apply valid_iff_Valid. apply Valid_decode. exact Hok. }
        rewrite Hval.
        destruct (decode_chunks (flat_map T.piece_chunks l)) as [|y out] eqn:Ed; [|reflexivity].
        exfalso. destruct l as [|pc l']; [congruence|]. cbn [flat_map] in Ed.
        rewrite decode_chunks_gen in Ed.
        destruct (T.piece_chunks pc) as [|ch chs] eqn:Ech.
        { destruct pc as [b0|? ?|?|?]; cbn in Ech; try discriminate. cbn in Hv. unfold T.wf_lit in Hv.
          destruct b0; [discriminate|discriminate]. }
        cbn [app] in Ed. revert Ed. apply gen_cons_ne.
        destruct ch as [x|b1]; [exact I|]. cbn [forallb] in Hv. apply andb_true_iff in Hv. destruct Hv as [Hv _].
        destruct (piece_chunks_ok 60 pc (or_introl Hv)) as [_ Hn].
        destruct pc; try discriminate; rewrite Ech in Hn; inversion Hn as [|? ? Hh _];
          intros Eb; apply Hh; cbv beta in Eb; rewrite Eb; reflexivity.
      * cbn [sl slice_bytes sl_start sl_end]. unfold slice_bytes. cbn [sl sl_start sl_end].
        rewrite (W_sub _ _ _ _ HW). exact E.
      * cbn [fst snd]. apply stream_from_substr_W. exact HW.
      * apply (reads_pieces text Hascii 60); auto.
      * cbn [sst s_rest]. rewrite app_length. pose proof (chunks_le_bytes 60 l Hv). lia.
    + unfold process_text_with. cbv zeta. unfold slice_bytes at 1. cbn [sl sl_start sl_end].
      rewrite (W_sub _ _ _ _ HW). rewrite E. reflexivity.
  - (* a CDATA token *)
    unfold CstBuild.tok_ev, Parse.token. cbn [token_with]. rewrite process_cdata_spec.
    rewrite <- !app_assoc in HW. pose proof (W_app _ _ _ _ HW) as HW1. change (blen T.cdata_open) with 9 in HW1.
    rewrite (W_slice _ _ _ _ HW1). f_equal.
    unfold seg_range. cbn [r_seg]. rewrite !blen_app. change (blen T.cdata_open) with 9. change (blen T.cdata_close) with 3.
    f_equal. lia.
Qed.

(* ------------------------------------------------------------------------------------------ *)
(* the context during a run, and the reset that ends it                                       *)
(* ------------------------------------------------------------------------------------------ *)

(* the context after the node of the run has been appended; only after_text changes afterwards *)
Definition run_ctx (c : context) (nodes' : list node_data) : context :=
  set_awaiting (set_doc c (set_nodes (c_doc c) nodes')) [len_N (d_nodes (c_doc c))].

Lemma first_frag t r c : CI c -> room c -> c_after_text c = [] ->
  exists nodes',
    append_text t r c = Ok (set_after_text (run_ctx c nodes') [t]) /\
    map abs_nd nodes' = absn (c_doc c) ++ [(Some (c_parent_id c), KText (cow_storage t))] /\
    len_N nodes' = len_N (d_nodes (c_doc c)) + 1.
Proof.
  intros I R Hat. unfold append_text. rewrite Hat. fold (cow_storage t).
  destruct (append_node_ok (KText (cow_storage t)) r c) as (nodes' & E & M & Ln);
    [apply (ci_pid _ I)|apply (ci_aw _ I)|exact R|].
  rewrite E. cbn [bind]. exists nodes'. split; [|split; assumption].
  cbn [is_element_kind]. unfold run_ctx. cbn. rewrite Hat. reflexivity.
Qed.

Lemma next_frag t r c1 frs : frs <> [] ->
  append_text t r (set_after_text c1 frs) = Ok (set_after_text c1 (frs ++ [t])).
Proof.
  intros H. rewrite append_text_cont by (cbn; exact H). reflexivity.
Qed.

Lemma run_reset c nodes' t0 rest :
  CI c ->
  map abs_nd nodes' = absn (c_doc c) ++ [(Some (c_parent_id c), KText (cow_storage t0))] ->
  exists c2 st,
    reset_after_text text (set_after_text (run_ctx c nodes') (t0 :: rest)) = Ok c2 /\
    Step c c2 [(Some (c_parent_id c), KText st)] [] /\ CI c2 /\ c_after_text c2 = [] /\
    c_tag_name c2 = c_tag_name c /\
    storage_bytes text st = concat (map (cow_bytes text) (t0 :: rest)) /\
    (rest = [] -> st = cow_storage t0).
Proof.
  intros I M.
  assert (Hfin : forall nodes2 st, map abs_nd nodes2 = absn (c_doc c) ++ [(Some (c_parent_id c), KText st)] ->
            let c2 := set_after_text (run_ctx c nodes2) [] in
            Step c c2 [(Some (c_parent_id c), KText st)] [] /\ CI c2 /\ c_after_text c2 = [] /\
            c_tag_name c2 = c_tag_name c).
  { intros nodes2 st M2 c2.
    assert (S : Step c c2 [(Some (c_parent_id c), KText st)] []).
    { split; [|split; reflexivity]. constructor.
      - repeat split.
      - reflexivity.
      - exact M2.
      - cbn. rewrite app_nil_r. reflexivity.
      - constructor. }
    split; [exact S|]. split; [|split; reflexivity].
    eapply CI_step; [exact I|exact S| |cbn; lia].
    cbn. constructor; [|constructor].
    assert (L : length nodes2 = (length (d_nodes (c_doc c)) + 1)%nat).
    { pose proof (f_equal (@length _) M2) as L. rewrite map_length, app_length in L. unfold absn in L.
      rewrite map_length in L. exact L. }
    unfold len_N. lia. }
  destruct rest as [|t1 rest].
  - (* a single fragment: nothing to merge *)
    exists (set_after_text (run_ctx c nodes') []), (cow_storage t0). split; [reflexivity|].
    destruct (Hfin nodes' _ M) as (S & I' & A & Tn).
    split; [exact S|]. split; [exact I'|]. split; [exact A|]. split; [exact Tn|].
    split; [cbn [map concat]; rewrite cow_storage_bytes, app_nil_r; reflexivity|auto].
  - (* several fragments: the Text node gets the concatenation *)
    destruct (map_snoc_inv abs_nd _ _ _ M) as (l0 & nd & El & M0 & Mr). subst nodes'.
    unfold abs_nd in Mr. injection Mr as Mp Mk.
    set (joined := concat (map (cow_bytes text) (t0 :: t1 :: rest))).
    exists (set_after_text (run_ctx c (l0 ++ [nd_set_kind nd (KText (Owned joined))])) []), (Owned joined).
    split.
    + unfold reset_after_text. cbn [c_after_text set_after_text].
      unfold merge_text. cbv zeta. cbn [c_doc set_after_text run_ctx set_awaiting set_doc d_nodes set_nodes].
      rewrite rev_unit, Mk. cbn [c_after_text set_after_text]. fold joined.
      unfold upd_node. replace (N.to_nat (len_N (l0 ++ [nd]) - 1)) with (length l0)
        by (unfold len_N; rewrite app_length; cbn; lia).
      rewrite list_upd_snoc. cbn [bind]. reflexivity.
    + assert (M2 : map abs_nd (l0 ++ [nd_set_kind nd (KText (Owned joined))]) =
                   absn (c_doc c) ++ [(Some (c_parent_id c), KText (Owned joined))]).
      { rewrite map_app, M0. cbn [map]. unfold abs_nd at 1. unfold nd_set_kind. cbn [nd_parent nd_kind]. rewrite Mp. reflexivity. }
      destruct (Hfin _ _ M2) as (S & I' & A & Tn).
      split; [exact S|]. split; [exact I'|]. split; [exact A|]. split; [exact Tn|].
      split; [reflexivity|discriminate].
Qed.

(* a token that begins with reset_after_text does not see the difference between a context and
   its reset *)
Lemma reset_idem c c' : reset_after_text text c = Ok c' -> c_after_text c' = [] ->
  reset_after_text text c' = Ok c'.
Proof. intros _ H. unfold reset_after_text. rewrite H. reflexivity. Qed.

Definition resets (tok : Tokenizer.token) : Prop :=
  match tok with
  | TPI _ _ _ | TComment _ _ | TElementStart _ _ _ | TElementEnd _ _ => True
  | _ => False
  end.

Lemma tok_reset tok c c' : resets tok -> reset_after_text text c = Ok c' -> c_after_text c' = [] ->
  tok_ev tok c = tok_ev tok c'.
Proof.
  intros Ht E A. pose proof (reset_idem c c' E A) as E'.
  destruct tok; try contradiction; unfold CstBuild.tok_ev, Parse.token; cbn [token_with];
    rewrite E, E'; reflexivity.
Qed.

(* ------------------------------------------------------------------------------------------ *)
(* attributes with normalised values                                                          *)
(* ------------------------------------------------------------------------------------------ *)

Definition needs_norm (V : bytes) : bool := existsb (fun x => (x =? 38) || (x =? 9) || (x =? 10) || (x =? 13)) V.

Definition ta_of' (q : N) (a : T.attr) : temp_attr :=
  let start := q + blen (T.a_ws a) in
  let ne := start + blen (T.a_name a) in
  let eqe := ne + blen (T.a_ws1 a) + 1 + blen (T.a_ws2 a) in
  let vs := eqe + 1 in
  let ve := vs + vlen a in
  {| ta_prefix := sl start start; ta_local := sl start ne;
     ta_value := if needs_norm (T.r_pieces (T.a_value a)) then Owned (T.value_sem (T.a_value a))
                 else Borrowed (SIn (sl vs ve));
     ta_range := (start, ve + 1); ta_qname_len := N.min (ne - start) qname_len_sat;
     ta_eq_len := N.min (eqe - ne) eq_len_sat |}.

Fixpoint tas' (q : N) (attrs : list T.attr) : list temp_attr :=
  match attrs with [] => [] | a :: r => ta_of' q a :: tas' (q + blen (T.r_attr a)) r end.

Lemma attr_slices' q a more : W q (T.r_attr a ++ more) ->
  let start := q + blen (T.a_ws a) in
  let ne := start + blen (T.a_name a) in
  let eqe := ne + blen (T.a_ws1 a) + 1 + blen (T.a_ws2 a) in
  let vs := eqe + 1 in
  let ve := vs + vlen a in
  slice_bytes text (sl start ne) = T.a_name a /\ slice_bytes text (sl vs ve) = T.r_pieces (T.a_value a) /\
  W vs (T.r_pieces (T.a_value a) ++ [T.a_quote a] ++ more).
Proof.
  intros HW. cbv zeta. unfold vlen. unfold T.r_attr in HW. rewrite <- !app_assoc in HW.
  pose proof (W_app _ _ _ _ HW) as H1. pose proof (W_app _ _ _ _ H1) as H2.
  pose proof (W_app _ _ _ _ H2) as H3. pose proof (W_app _ _ _ _ H3) as H4.
  pose proof (W_app _ _ _ _ H4) as H5. pose proof (W_app _ _ _ _ H5) as H6.
  change (blen [61]) with 1 in *. change (blen [T.a_quote a]) with 1 in *.
  split; [apply (W_slice _ _ _ _ H1)|]. split; [apply (W_slice _ _ _ _ H6)|exact H6].
Qed.

Lemma set_ld_same c : set_ld c (c_ld c) = c.
Proof. destruct c; reflexivity. Qed.

Lemma normalize_attribute_ok vs ps quote more c : W vs (T.r_pieces ps ++ [quote] ++ more) ->
  quote = 39 \/ quote = 34 -> forallb (T.wf_vpiece quote) ps = true -> LD c ->
  normalize_attribute text (sl vs (vs + blen (T.r_pieces ps))) c =
  Ok (if needs_norm (T.r_pieces ps) then Owned (T.value_sem ps)
      else Borrowed (SIn (sl vs (vs + blen (T.r_pieces ps)))), c).
Proof.
  intros HW Hq Hv Hld. unfold normalize_attribute. cbv zeta. rewrite (W_slice _ _ _ _ HW).
  fold (needs_norm (T.r_pieces ps)). destruct (needs_norm (T.r_pieces ps)) eqn:E; [|reflexivity].
  set (cs := flat_map T.piece_chunks ps).
  destruct (attr_chunks_total_top cs) as [t' Hp].
  pose proof (attr_chunks_normalise cs t' Hp) as Hn.
  unfold entity_levels.
  pose proof (W_le _ _ _ (W_app _ _ _ _ HW)) as Hle.
  rewrite (norm_attr_lvl_chunks_fueled text _ (c_entities c) _ tb_new (c_ld c)
             (sst (vs + blen (T.r_pieces ps)) vs (T.r_pieces ps ++ [quote] ++ more)) cs t').
  - cbn [bind]. unfold tb_finish. rewrite Hn.
    assert (Hval : valid_utf8_b (norm_attr_chunks cs) = true).
    { apply valid_iff_Valid. apply Valid_norm_attr. apply (chunks_ok_v quote ps Hv). }
    rewrite Hval. cbn [bind]. rewrite set_ld_same. reflexivity.
  - cbn [sl sl_start sl_end]. apply stream_from_substr_W. exact HW.
  - unfold LD in Hld. rewrite Hld. change (0 <? 0) with false.
    apply (areads_pieces text Hascii quote); try assumption; [destruct Hq; auto|reflexivity].
  - unfold LD in Hld. rewrite Hld. exact Hp.
  - cbn [sst s_rest]. rewrite app_length. pose proof (chunks_le_bytes quote ps Hv). unfold cs. lia.
Qed.

Definition not_xmlns' (a : T.attr) : bool := negb (T.is_xmlns (T.a_name a)).

Lemma tok_attr' q a more c : W q (T.r_attr a ++ more) -> T.wf_attr a = true -> not_xmlns' a = true -> LD c ->
  tok_ev (attr_tok' q a) c = Ok (set_cur_attrs c (c_cur_attrs c ++ [ta_of' q a])).
Proof.
  intros HW Hwf Hx Hld. destruct (attr_slices' _ _ _ HW) as (S1 & S2 & HWv). cbv zeta in S1, S2, HWv.
  destruct (wf_attr_parts' _ Hwf) as (_ & _ & _ & _ & _ & Hq & Hv & _).
  unfold CstBuild.tok_ev, Parse.token, attr_tok', ta_of'. cbv zeta. cbn [token_with].
  unfold process_attribute. unfold vlen in *.
  rewrite (normalize_attribute_ok _ _ _ _ c HWv Hq Hv Hld). cbn [bind].
  rewrite slice_empty, S1.
  change (bytes_eqb [] xmlns_str) with false. cbv iota.
  rewrite bytes_eqb_neq.
  2:{ unfold not_xmlns', T.is_xmlns in Hx.
      destruct (list_eq_dec N.eq_dec (T.a_name a) [120; 109; 108; 110; 115]); [discriminate|]. exact n. }
  rewrite ?andb_false_r. reflexivity.
Qed.

Lemma attrs_evs' more : forall attrs q c,
  W q (flat_map T.r_attr attrs ++ more) -> forallb T.wf_attr attrs = true ->
  forallb not_xmlns' attrs = true -> LD c ->
  evs context tok_ev (attr_toks' q attrs) c = Ok (set_cur_attrs c (c_cur_attrs c ++ tas' q attrs)).
Proof.
  induction attrs as [|a attrs IH]; intros q c HW Hwf Hx Hld; cbn [attr_toks' evs tas'].
  - rewrite app_nil_r. destruct c; reflexivity.
  - cbn [forallb] in Hwf, Hx. apply andb_true_iff in Hwf. destruct Hwf as [Hw1 Hw2].
    apply andb_true_iff in Hx. destruct Hx as [Hx1 Hx2].
    cbn [flat_map] in HW. rewrite <- app_assoc in HW.
    rewrite (tok_attr' q a _ c HW Hw1 Hx1 Hld). cbn [bind].
    rewrite IH; [|apply (W_app _ _ _ _ HW)|exact Hw2|exact Hx2|exact Hld].
    cbn [c_cur_attrs set_cur_attrs]. rewrite <- app_assoc. reflexivity.
Qed.

Lemma value_plain q ps : forallb (T.wf_vpiece q) ps = true -> needs_norm (T.r_pieces ps) = false ->
  T.value_sem ps = T.r_pieces ps.
Proof.
  intros Hv E. unfold T.value_sem, needs_norm in *.
  assert (E38 : existsb (fun x => x =? 38) (T.r_pieces ps) = false).
  { revert E. generalize (T.r_pieces ps) as l. induction l as [|x l IH]; [reflexivity|]. cbn [existsb]. intros H.
    apply orb_false_iff in H. destruct H as [H1 H2]. rewrite IH by exact H2. lia. }
  rewrite (chunks_no_amp q) by assumption. apply norm_attr_lits_plain.
  revert E. generalize (T.r_pieces ps) as l. induction l as [|x l IH]; [reflexivity|]. cbn [existsb]. intros H.
  apply orb_false_iff in H. destruct H as [H1 H2]. rewrite IH by exact H2. lia.
Qed.

Lemma tas_names' more : forall attrs q, W q (flat_map T.r_attr attrs ++ more) -> forallb T.wf_attr attrs = true ->
  map (fun t => slice_bytes text (ta_local t)) (tas' q attrs) = map T.a_name attrs /\
  map (fun t => storage_bytes text (ta_value t)) (tas' q attrs) = map (fun a => T.value_sem (T.a_value a)) attrs /\
  Forall (fun t => slice_bytes text (ta_prefix t) = []) (tas' q attrs).
Proof.
  induction attrs as [|a attrs IH]; intros q HW Hwf; cbn [tas' map]; [repeat split; constructor|].
  cbn [flat_map] in HW. rewrite <- app_assoc in HW.
  cbn [forallb] in Hwf. apply andb_true_iff in Hwf. destruct Hwf as [Hw1 Hw2].
  destruct (attr_slices' _ _ _ HW) as (S1 & S2 & _). cbv zeta in S1, S2.
  destruct (wf_attr_parts' _ Hw1) as (_ & _ & _ & _ & _ & _ & Hv & _).
  destruct (IH _ (W_app _ _ _ _ HW) Hw2) as (I1 & I2 & I3).
  unfold ta_of'. cbv zeta. cbn [ta_local ta_value ta_prefix].
  rewrite S1, I1, I2. split; [reflexivity|]. split; [|constructor; [apply slice_empty|exact I3]].
  f_equal. destruct (needs_norm (T.r_pieces (T.a_value a))) eqn:E; cbn [storage_bytes str_bytes]; [reflexivity|].
  rewrite S2. symmetry. eapply value_plain; eassumption.
Qed.

Lemma tas_len' : forall attrs q, len_N (tas' q attrs) = len_N attrs.
Proof. induction attrs as [|a attrs IH]; intros q; [reflexivity|]. cbn [tas']. unfold len_N in *. cbn [length]. specialize (IH (q + blen (T.r_attr a))). lia. Qed.

Definition eattrs' (attrs : list T.attr) : list (bytes * bytes) := T.eattrs attrs.

Lemma start_tag_ok' p name attrs ws_end empty post c :
  W p ([60] ++ name ++ flat_map T.r_attr attrs ++ ws_end ++ tag_tail empty ++ post) ->
  name <> [] -> forallb T.wf_attr attrs = true -> forallb not_xmlns' attrs = true ->
  Cst.names_distinct (map T.a_name attrs) = true ->
  CI c -> LD c -> room c -> len_N (d_attrs (c_doc c)) + len_N attrs < u32_max ->
  let q' := p + 1 + blen name + blen (flat_map T.r_attr attrs) + blen ws_end in
  let id := len_N (d_nodes (c_doc c)) in
  exists c' ar,
    (let! c1 := evs context tok_ev (start_toks' p name attrs) c in tok_ev (end_tok q' empty) c1) = Ok c' /\
    Step0 c c' [(Some (c_parent_id c), KElement None (sl (p + 1) (p + 1 + blen name)) ar (1, 1))]
          (map ad_of (tas' (p + 1 + blen name) attrs)) /\
    (forall m, km text (d_attrs (c_doc c')) (Some (c_parent_id c), KElement None (sl (p + 1) (p + 1 + blen name)) ar (1, 1))
       (c_parent_id c, Cst.VElem name (T.eattrs attrs) m)) /\
    CI c' /\ c_after_text c' = [] /\ tn_set c' /\
    if empty
    then c_parent_id c' = c_parent_id c /\ c_parent_prefixes c' = c_parent_prefixes c
    else c_parent_id c' = id /\ c_parent_prefixes c' = c_parent_prefixes c ++ [sl (p + 1) (p + 1)] /\
         c_awaiting c' = [].
Proof.
  intros HW Hne Hwf Hx Hnd I Hld R Hlim q' id.
  pose proof (W_app _ _ _ _ HW) as HW1. change (blen [60]) with 1 in HW1.
  pose proof (W_app _ _ _ _ HW1) as HW2.
  destruct (tas_names' _ _ _ HW2 Hwf) as (Tn & Tv & Tp).
  unfold start_toks'. cbn [evs].
  (* ElementStart *)
  unfold CstBuild.tok_ev at 1, Parse.token at 1. cbn [token_with].
  rewrite (reset_after_text_ok text) by apply (ci_at _ I). cbn [bind].
  rewrite slice_empty. change (bytes_eqb [] xmlns_str) with false. cbv iota. cbn [bind].
  fold (CstBuild.tok_ev text). fold (tn_of p name).
  (* attributes *)
  rewrite (attrs_evs' _ attrs _ _ HW2 Hwf Hx) by exact Hld. cbn [bind].
  cbn [c_cur_attrs set_tag_name set_after_text]. rewrite (ci_cur _ I). cbn [app].
  (* ElementEnd *)
  unfold CstBuild.tok_ev, Parse.token, end_tok. cbn [token_with].
  rewrite (reset_after_text_ok text) by (cbn; lia). cbn [bind].
  unfold process_element.
  cbn [c_tag_name set_after_text set_cur_attrs set_tag_name tn_name tn_of].
  unfold slice_len at 1. cbn [sl sl_start sl_end].
  replace (p + 1 + blen name - (p + 1) =? 0) with false
    by (destruct name; [congruence|rewrite blen_cons; lia]).
  rewrite (resolve_namespaces_ok text); [|apply (ci_ns _ I)|apply (ci_tree _ I)|apply (ci_pid _ I)|apply (ci_par _ I)].
  cbn [bind].
  rewrite (resolve_attributes_ok text).
  2:{ cbn. exact Tp. }
  2:{ cbn. rewrite Tn. apply names_distinct_NoDup. exact Hnd. }
  2:{ cbn. rewrite tas_len'. exact Hlim. }
  cbn [bind].
  cbn [c_cur_attrs c_doc set_ns_start_idx set_after_text set_cur_attrs set_tag_name set_doc c_tag_name tn_of
       tn_prefix tn_prefix_pos tn_name tn_pos].
  rewrite (get_ns_ok text); [|cbn; apply (ci_tree _ I)|apply slice_empty].
  set (A := d_attrs (c_doc c)). set (TT := tas' (p + 1 + blen name) attrs).
  set (ar := attr_range A TT).
  set (kind := KElement None (sl (p + 1) (p + 1 + blen name)) ar (1, 1)).
  assert (Hkm : forall m ext, km text ((A ++ map ad_of TT) ++ ext) (Some (c_parent_id c), kind)
                 (c_parent_id c, Cst.VElem name (T.eattrs attrs) m)).
  { intros m ext. apply km_ext. split; [reflexivity|]. cbn [snd kind].
    split; [reflexivity|]. split; [apply (W_slice _ _ _ _ HW1)|]. split.
    - unfold ar. rewrite attrs_list_new. unfold TT, T.eattrs.
      clear - Tn Tv. revert Tn Tv. generalize (tas' (p + 1 + blen name) attrs). intros L. revert L.
      induction attrs as [|a attrs IH]; intros [|t L] Tn Tv; cbn [map] in *; try discriminate; [reflexivity|].
      injection Tn as Tn1 Tn2. injection Tv as Tv1 Tv2. rewrite Tn1, Tv1. f_equal. apply IH; assumption.
    - unfold ar, attr_range. rewrite len_N_app, len_N_map. destruct TT; cbn [fst snd]; lia. }
  destruct empty; cbv iota; cbn [bind]; fold kind;
  (match goal with |- context [append_node kind ?r ?cc] =>
    destruct (append_node_ok kind r cc) as (nodes' & E & M & Ln);
      [apply (ci_pid _ I)|apply (ci_aw _ I)|exact R|]; rewrite E; clear E end);
  cbn [bind]; cbn in M, Ln.
  - eexists. exists ar. split; [reflexivity|].
    match goal with |- Step0 c ?c' _ _ /\ _ => assert (S : Step0 c c' [(Some (c_parent_id c), kind)] (map ad_of TT)) end.
    { constructor.
      - repeat split; cbn; try reflexivity. rewrite (ci_ns _ I). apply (ci_tree _ I).
      - cbn. symmetry. apply (ci_cur _ I).
      - exact M.
      - reflexivity.
      - clear. induction TT; constructor; [reflexivity|assumption]. }
    split; [exact S|]. split.
    { intros m. cbn. rewrite <- (app_nil_r (A ++ map ad_of TT)). apply Hkm. }
    split.
    { eapply CI_intro; [exact I|exact S| | | | |].
      - cbn. apply (ci_pp _ I).
      - cbn. rewrite Ln. pose proof (ci_pid _ I). lia.
      - cbn. destruct (ci_par _ I) as (par & k & Ep & Hk). exists par, k. split; [|exact Hk].
        unfold absn. cbn. rewrite M. rewrite nth_error_app1; [exact Ep|].
        pose proof (ci_pid _ I) as Hp. rewrite <- absn_len in Hp. unfold len_N, absn in Hp. lia.
      - cbn. constructor; [|constructor]. rewrite Ln. lia.
      - cbn. lia. }
    split; [reflexivity|]. split.
    { unfold tn_set. cbn. unfold slice_len. cbn. destruct name; [congruence|rewrite blen_cons; lia]. }
    split; reflexivity.
  - eexists. exists ar. split; [reflexivity|].
    match goal with |- Step0 c ?c' _ _ /\ _ => assert (S : Step0 c c' [(Some (c_parent_id c), kind)] (map ad_of TT)) end.
    { constructor.
      - repeat split; cbn; try reflexivity. rewrite (ci_ns _ I). apply (ci_tree _ I).
      - cbn. symmetry. apply (ci_cur _ I).
      - exact M.
      - reflexivity.
      - clear. induction TT; constructor; [reflexivity|assumption]. }
    split; [exact S|]. split.
    { intros m. cbn. rewrite <- (app_nil_r (A ++ map ad_of TT)). apply Hkm. }
    split.
    { eapply CI_intro; [exact I|exact S| | | | |].
      - cbn. destruct (c_parent_prefixes c); discriminate.
      - cbn. rewrite Ln. lia.
      - cbn. exists (Some (c_parent_id c)), kind. split; [|reflexivity].
        unfold absn. cbn. rewrite M.
        replace (N.to_nat (len_N (d_nodes (c_doc c)))) with (length (map abs_nd (d_nodes (c_doc c))))
          by (unfold len_N; rewrite map_length; lia).
        rewrite nth_error_app2 by lia. rewrite Nat.sub_diag. reflexivity.
      - cbn. constructor.
      - cbn. lia. }
    split; [reflexivity|]. split.
    { unfold tn_set. cbn. unfold slice_len. cbn. destruct name; [congruence|rewrite blen_cons; lia]. }
    repeat split.
Qed.

End TBuild.

Print Assumptions tok_seg.
Print Assumptions run_reset.
Print Assumptions start_tag_ok'.
