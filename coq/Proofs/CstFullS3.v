(* Proofs/CstFullS3.v -- the capstone fragment, stage S3 (Spec/CstFull.v, Module S3: an internal DTD subset
   with character-data entities over Unicode; references in character data, attribute values and
   namespace-declaration values, nested): parse_document on the rendering of a well-formed
   document with its DOCTYPE, and the whole-document theorem [parse_render_sem_full_s3]. *)
From Coq Require Import Ascii String.
From Coq Require Import List NArith PeanoNat Bool Lia ZifyBool ZifyN ZifyNat.
Import ListNotations.
From RX Require Import Generated.
From RX.Model Require Import Base CharClass Stream Tokenizer Doc Builder Parse.
From RX.Spec Require Cst CstText CstEnt Detector Scope CstU CstNs.
From RX.Spec Require Tree.
From RX.Spec Require Import Text CstFull.
From RX.Proofs Require Import Tactics CstLex CstBuild CstNsLex CstNsView CstNsBuild CstULex.
From RX.Proofs Require Import CstFullLex CstFullBuild CstFullTree CstFullItems CstFullDoc CstFullMain.
From RX.Proofs Require Import CstFullS2Sem CstFullS3Sem CstFullS3Text CstFullS3Dtd CstFullS3Plug.
From RX.Proofs Require CstItems CstNsItems CstNsDoc CstNsMain CstUItems CstUDoc CstDoc CstEntDtd.
From RX.Proofs Require KeystoneEnc KeystoneBuilder KeystoneParse CstFinal.
Open Scope N_scope.

Ltac clia := repeat match goal with H : @eq bool _ true |- _ => clear H end; lia.

(* ------------------------------------------------------------------------------------------ *)
(* from the rows to the view, when the context is not the initial one up to the rows only      *)
(* ------------------------------------------------------------------------------------------ *)
Lemma finish_g text opt cf K (L : list CstNs.item) :
  parse_document text context (Parse.token text) (allow_dtd opt) (init_ctx text opt) = Ok cf ->
  absn (c_doc cf) = absn (c_doc (init_ctx text opt)) ++ K ->
  c_parent_prefixes cf = c_parent_prefixes (init_ctx text opt) ->
  Forall2 (kmn text (c_doc cf)) K (NT.tag_list [] 0 1 L) ->
  (exists l1 name es ws body l2, L = l1 ++ CstNs.IElem name es ws body :: l2) ->
  NT.nsizes L < u32_max ->
  exists d, parse text opt = Ok d /\ view text d = Some (NT.sem_items [] L).
Proof.
  intros E Habs Hpp F (l1 & name & es & ws & body & l2 & EL) Hmax.
  cbn [c_parent_prefixes CstNsMain.init_ctx] in Hpp.
  assert (Habs' : absn (c_doc cf) = (None, KRoot) :: K) by (rewrite Habs; reflexivity). clear Habs. rename Habs' into Habs.
  set (d := c_doc cf) in *.
  destruct (d_nodes d) as [|rootnd nodes] eqn:En; [unfold absn in Habs; rewrite En in Habs; discriminate|].
  unfold absn in Habs. rewrite En in Habs. cbn [map] in Habs. injection Habs as Hp0 Hk0 HK.
  set (T := NT.tag_list [] 0 1 L) in *.
  assert (HlenK : length K = length T).
  { clear - F. induction F; cbn [length]; lia. }
  assert (HlenT : N.of_nat (length T) = NT.nsizes L).
  { unfold T. apply NT.tag_list_len. }
  assert (Hlen : len_N (d_nodes d) = 1 + NT.nsizes L).
  { rewrite En. unfold len_N. cbn [length]. rewrite <- HK in HlenK. rewrite map_length in HlenK. lia. }
  assert (HP : KeystoneBuilder.P cf).
  { eapply (KeystoneParse.parse_document_Q text context (Parse.token text) KeystoneBuilder.P).
    - intros tok x x'. apply KeystoneParse.token_P.
    - exists Tree.KdRoot, [], []. apply (KeystoneParse.init_context_Inv text opt). apply CstNsMain.init_context_eq.
    - exact E. }
  destruct HP as (k & cs & outer & Inv).
  pose proof (KeystoneBuilder.inv_pp _ _ _ _ Inv) as Ipp. rewrite Hpp in Ipp. cbn [length] in Ipp.
  destruct outer as [|o outer]; [|cbn [length] in Ipp; lia].
  pose proof (KeystoneBuilder.inv_kinds _ _ _ _ Inv) as Ik. cbn [KeystoneBuilder.kinds_ok] in Ik. subst k.
  pose proof (KeystoneBuilder.inv_rows _ _ _ _ Inv) as Irows.
  unfold KeystoneEnc.ztree in Irows. cbn [KeystoneEnc.plug] in Irows.
  set (k0 := length (NT.tag_list [] 0 1 l1)).
  assert (HT0 : exists m, nth_error T k0 = Some (0, NT.elem_v [] name es m)).
  { unfold T. rewrite EL, CstNsDoc.tag_list_app. unfold k0. rewrite nth_error_app2 by lia.
    rewrite Nat.sub_diag. cbn [NT.tag_list].
    destruct body as [[cs0 w2]|]; [rewrite NT.tag_elem|cbn [NT.tag]]; cbn [app nth_error]; eauto. }
  destruct HT0 as (m & HT0).
  destruct (CstNsMain.Forall2_nth_r _ _ _ F _ _ HT0) as (rw & Hrw & Hkm).
  rewrite <- HK in Hrw. apply nth_error_map_inv in Hrw. destruct Hrw as (nd0 & Hnd0 & Eabs).
  destruct Hkm as [Hpar Hkind]. rewrite <- Eabs in Hpar, Hkind. cbn [abs_nd fst snd] in Hpar, Hkind.
  assert (Hel : is_element_kind (nd_kind nd0) = true).
  { unfold NT.elem_v in Hkind. destruct (nd_kind nd0); try contradiction; reflexivity. }
  destruct (CstFinal.root_has_element d cs (N.of_nat (S k0)) nd0) as (it & Eit & Eany).
  { exact Irows. }
  { rewrite Hlen. unfold u32_max in Hmax. lia. }
  { rewrite Nat2N.id, En. cbn [nth_error]. exact Hnd0. }
  { exact Hpar. }
  { exact Hel. }
  exists d. split.
  - unfold parse. rewrite CstNsMain.init_context_eq. cbn [bind]. rewrite E. cbn [bind].
    fold d. rewrite Eit. cbn [bind]. rewrite Eany. cbn [bind negb]. rewrite Hpp. reflexivity.
  - unfold view. rewrite En. cbn [view_from]. unfold view_node at 1. rewrite Hk0.
    change (0 + 1) with 1.
    rewrite (CstNsMain.view_from_rows text d nodes T 1).
    + unfold T. rewrite NT.tag_list_sem. reflexivity.
    + rewrite HK. exact F.
    + intros k q v Hk. rewrite (NT.tag_list_counts [] _ 0 1 ltac:(lia) k q v Hk). fold T.
      unfold children_count. rewrite En. cbn [filter]. rewrite Hp0.
      apply eq_sym. apply (CstNsMain.count_rows text d). rewrite HK. exact F.
Qed.

(* ------------------------------------------------------------------------------------------ *)
(* the comments and PIs before the DOCTYPE do not depend on the meaning of values and runs     *)
(* ------------------------------------------------------------------------------------------ *)
Definition M0 : meaning epieces := Build_meaning epieces (fun _ _ => false) (fun _ => false) (fun _ => []) (fun _ => None).

Lemma m0_val_lex : forall q v, wf_val M0 q v = true -> q = 39 \/ q = 34 -> uval_ok q (r_val epieces v).
Proof. intros q v H. discriminate H. Qed.
Lemma m0_run_valid : forall r, wf_run M0 r = true -> U8.Valid (r_run epieces r).
Proof. intros r H. discriminate H. Qed.
Lemma m0_val_norm text : forall q v p more, wf_val M0 q v = true -> q = 39 \/ q = 34 ->
  CstULex.WV text p (r_val epieces v ++ [q] ++ more) ->
  exists stor, norm_ok text [] (sl p (p + blen (r_val epieces v))) stor /\ storage_bytes text stor = val_sem M0 v.
Proof. intros q v p more H. discriminate H. Qed.

Lemma misc_indep (M : meaning epieces) (i : item epieces) : is_misc epieces i = true ->
  wf_item M0 i = wf_item M i /\ den M0 i = den M i.
Proof. destruct i as [n a w b0|r|bs|t s v]; try discriminate; intros _; split; reflexivity. Qed.

Lemma pairs_indep (M : meaning epieces) (l : pairs epieces) : wf_pairs epieces M l = true ->
  wf_pairs epieces M0 l = true /\ CstFullTree.dens epieces M0 (map snd l) = CstFullTree.dens epieces M (map snd l).
Proof.
  induction l as [|[w i] r IH]; intros H; [split; reflexivity|]. cbn [CstFullDoc.wf_pairs forallb fst snd] in H |- *.
  rewrite !andb_true_iff in H. destruct H as [[[H1 H2] H3] H4]. destruct (IH H4) as [I1 I2].
  destruct (misc_indep M i H2) as [A B0]. split.
  - rewrite H1, H2, A, H3. exact I1.
  - cbn [map snd CstFullTree.dens]. rewrite B0, I2. reflexivity.
Qed.

Lemma CIn_set_entities text D inh c v : CstNsBuild.CIn text D inh c -> CstNsBuild.CIn text D inh (set_entities c v).
Proof. intros [H1 H2 H3 H4 H5 H6 H7 H8 H9 H10]. constructor; assumption. Qed.

(* ------------------------------------------------------------------------------------------ *)
(* parse_document                                                                             *)
(* ------------------------------------------------------------------------------------------ *)
Section Doc3.
Variable d : S3.doc.
Hypothesis Hwf : S3.wf_doc d = true.

Notation t := (S3.x_dtd d).
Notation decls := (E.t_decls (enc_dtd t)).
Notation M := (S3.meaning_of d).
Notation main := (S3.x_main d).
Notation text := (S3.render d).
Notation dens := (CstFullTree.dens epieces M).

Lemma s3_parts :
  Cst.wf_ws (S3.x_ws0 d) = true /\
  forallb (fun p => is_misc epieces (fst p) && wf_item M (fst p) && Cst.wf_ws (snd p)) (S3.x_before d) = true /\
  wf_udtd t = true /\ wf_doc M main = true.
Proof. unfold S3.wf_doc in Hwf. rewrite !andb_true_iff in Hwf. tauto. Qed.

Definition B0 : pairs epieces := regroup (S3.x_ws0 d) (S3.x_before d).
Definition wB0 : bytes := last_ws (S3.x_ws0 d) (S3.x_before d).

Lemma text_shape : text = r_pairs B0 ++ wB0 ++ E.r_dtd (enc_dtd t) ++ render main.
Proof. unfold S3.render, B0, wB0. rewrite app_assoc, (regroup_render epieces), <- app_assoc. reflexivity. Qed.

Lemma dtd_starts : exists l, E.r_dtd (enc_dtd t) = 60 :: 33 :: 68 :: l.
Proof. unfold E.r_dtd, E.kw_doctype. cbn [app]. eexists. reflexivity. Qed.

Lemma text_valid : U8.Valid text.
Proof.
  destruct s3_parts as (H0 & Hb & Ht & Hm). destruct (udtd_of t Ht) as [Hlex Hdk].
  destruct (regroup_wf epieces M _ _ H0 Hb) as [R1 R2].
  rewrite text_shape. apply U8.Valid_app; [|apply U8.Valid_app; [|apply U8.Valid_app]].
  - apply (pairs_valid epieces M (s3_val_lex decls) (s3_run_valid decls)); exact R1.
  - apply Valid_lit, ws_lit; exact R2.
  - apply udtd_valid; exact Hlex.
  - apply (render_valid epieces M (s3_val_lex decls) (s3_run_valid decls)); exact Hm.
Qed.

Lemma head_text : CstDoc.decl_test text = false /\ prefix_b [239; 187; 191] text = false.
Proof.
  destruct s3_parts as (H0 & Hb & Ht & Hm).
  destruct (regroup_wf epieces M _ _ H0 Hb) as [R1 R2]. rewrite text_shape.
  destruct dtd_starts as [l El]. fold B0 in R1. fold wB0 in R2.
  destruct B0 as [|[w i] B].
  - cbn [r_pairs flat_map app]. destruct wB0 as [|x wl].
    + cbn [app]. rewrite El. cbn [app]. split; [apply CstDoc.decl_lt; lia|apply CstUDoc.bom_false_lt; lia].
    + cbn [app]. destruct (CstUDoc.ws_head _ _ R2). split; [apply CstDoc.decl_ws; assumption|apply CstUDoc.bom_false_lt; assumption].
  - cbn [CstFullDoc.wf_pairs forallb fst snd] in R1. rewrite !andb_true_iff in R1. destruct R1 as [[[W1 M1] I1] _].
    cbn [r_pairs flat_map fst snd]. rewrite <- !app_assoc. destruct w as [|x w].
    + cbn [app]. destruct i as [? ? ? ?|?|bs|tg s v]; try discriminate.
      * cbn [r_item Cst.r_item app]. split; [apply CstDoc.decl_lt; clear; lia|apply CstUDoc.bom_false_lt; clear; lia].
      * cbn [r_item Cst.r_item]. rewrite <- !app_assoc. split; [apply CstUDoc.decl_pi_u; apply CstUItems.uwf_pi; exact I1|].
        cbn [app]. apply CstUDoc.bom_false_lt. clear. lia.
    + cbn [app]. destruct (CstUDoc.ws_head _ _ W1). split; [apply CstDoc.decl_ws; assumption|apply CstUDoc.bom_false_lt; assumption].
Qed.

(* the items in document order *)
Definition all_items : list (item epieces) := map fst (S3.x_before d) ++ doc_items main.

Lemma sem_all : S3.sem d = NT.sem_items [] (dens all_items).
Proof.
  unfold S3.sem, all_items. rewrite (dens_app epieces M), CstNsDoc.sem_items_app. f_equal.
  - rewrite (dens_flat epieces M). induction (dens (map fst (S3.x_before d))) as [|x r IH]; [reflexivity|].
    cbn [flat_map NT.sem_items]. rewrite IH. reflexivity.
  - apply (sem_dens epieces M).
Qed.

Variable D : list Scope.binding.
Hypothesis HD : forall l, NoDup l -> incl l D -> N.of_nat (length l) <= 65535.
Hypothesis HinD : incl (doc_decls M main) D.

Notation CIn := (CstNsBuild.CIn text D).
Notation node_room := CstNsItems.node_room.
Notation attr_room := CstNsItems.attr_room.
Notation ns_room := CstNsItems.ns_room.

Lemma parse_document_ok_3 (c0 : context) :
  CIn [] c0 -> c_entities c0 = [] -> c_ld c0 = ld_init -> c_after_text c0 = [] ->
  node_room c0 (NT.nsizes (dens all_items)) -> attr_room c0 (NT.nattrs_items (den M (d_root main))) ->
  ns_room c0 (ns_cost M main) ->
  exists cf K,
    parse_document text context (tok_ev text) true c0 = Ok cf /\
    absn (c_doc cf) = absn (c_doc c0) ++ K /\ c_parent_prefixes cf = c_parent_prefixes c0 /\
    Forall2 (kmn text (c_doc cf)) K (NT.tag_list [] (c_parent_id c0) (len_N (d_nodes (c_doc c0))) (dens all_items)).
Proof.
  intros I0 Hes0 Hld0 A0 NR AR SR.
  destruct s3_parts as (H0 & Hb & Ht & Hm). destruct (udtd_of t Ht) as [Hlex Hdk].
  destruct (regroup_wf epieces M _ _ H0 Hb) as [R1 R2]. fold B0 in R1. fold wB0 in R2.
  pose proof text_valid as Hvalid. pose proof head_text as [Hdecl Hbom].
  pose proof (wf_doc_parts epieces M main Hm) as [H1 H2 H3 (name & ens & ws & body & Er) H5 H6 H7].
  destruct (regroup_wf epieces M _ _ H1 H3) as [Q1 Q2].
  unfold doc_decls in HinD. rewrite <- (items_decls_flat) in HinD. unfold ns_cost in SR. rewrite <- ns_costs_sum in SR.
  set (B1 := regroup (d_ws0 main) (d_before main)) in *. set (wB1 := last_ws (d_ws0 main) (d_before main)) in *.
  set (A := d_after main) in *. set (wE := d_ws_end main) in *.
  assert (Eitems : all_items = map snd B0 ++ map snd B1 ++ d_root main :: map snd A).
  { unfold all_items, B0, B1. rewrite (regroup_items epieces), (doc_items_shape epieces). reflexivity. }
  rewrite Eitems in *. rewrite Er in *.
  set (root := IElem name ens ws body) in *.
  rewrite !(dens_app epieces M) in NR |- *. cbn [CstFullTree.dens] in NR |- *. rewrite !nsizes_app in NR.
  destruct (pairs_indep M B0 R1) as [R1' Ed0].
  destruct (pairs_dens epieces M B0 R1) as (_ & _ & _ & Hn0 & _).
  destruct (pairs_dens epieces M B1 Q1) as (_ & _ & _ & Hn1 & _).
  assert (Etext : text = r_pairs B0 ++ wB0 ++ E.r_dtd (enc_dtd t) ++ r_pairs B1 ++ wB1 ++ r_item root ++ r_pairs A ++ wE ++ []).
  { rewrite text_shape, (render_shape epieces main). fold B1 wB1 A wE. rewrite Er. reflexivity. }
  pose proof (WV_new text Hvalid) as HW0.
  pose proof (root_name epieces M _ _ _ _ H5) as Hn.
  destruct (root_starts epieces name ens ws body Hn) as (n & l & El & Hnsp & H33 & H63). fold root in El.
  set (rest1 := r_item root ++ r_pairs A ++ wE ++ []) in *.
  set (rest0 := E.r_dtd (enc_dtd t) ++ r_pairs B1 ++ wB1 ++ rest1) in *.
  destruct dtd_starts as [ld Eld].
  assert (Hstop0 : CstDoc.misc_stop rest0).
  { unfold rest0. rewrite Eld. cbn [app]. split; [reflexivity|split; reflexivity]. }
  assert (Hstop1 : CstDoc.misc_stop rest1).
  { unfold rest1. rewrite El. cbn [app]. split; [reflexivity|]. cbn [prefix_b].
    replace (33 =? n) with false by clia. replace (63 =? n) with false by clia. split; reflexivity. }
  assert (Hdt1 : prefix_b [60; 33; 68; 79; 67; 84; 89; 80; 69] rest1 = false).
  { unfold rest1. rewrite El. cbn [app prefix_b]. replace (33 =? n) with false by clia. rewrite andb_false_r. reflexivity. }
  unfold parse_document. rewrite st_new.
  rewrite starts_with_st by exact (WV_W _ _ _ HW0). rewrite Hbom. cbn [bind].
  unfold starts_with_declaration. rewrite starts_with_st, avail_st by exact (WV_W _ _ _ HW0).
  change (b "<?xml") with [60; 63; 120; 109; 108]. fold (CstDoc.decl_test text). rewrite Hdecl. cbn [bind].
  (* before the DOCTYPE *)
  unfold parse_misc. cbn [CstLex.st s_rest]. fold (CstLex.st text 0 text).
  assert (HW0' : WV text 0 (r_pairs B0 ++ wB0 ++ rest0)) by (rewrite <- Etext; exact HW0).
  replace (CstLex.st text 0 text) with (CstLex.st text 0 (r_pairs B0 ++ wB0 ++ rest0))
    by (rewrite <- Etext; reflexivity).
  assert (Elen : length text = length (r_pairs B0 ++ wB0 ++ rest0)) by (rewrite <- Etext; reflexivity).
  destruct (misc_loop_ok_f epieces M0 m0_val_lex m0_run_valid text D HD [] (m0_val_norm text) B0 0 wB0 rest0 c0 (S (length text)) HW0' R1' R2 Hstop0)
    as (c1 & K0 & E1 & S1 & I1 & A1 & Tr1 & F1).
  { pose proof (pairs_len epieces M B0 R1). rewrite Elen, app_length. clia. }
  { exact I0. } { exact A0. } { rewrite Ed0. unfold CstNsItems.node_room in *. clia. }
  rewrite Ed0 in F1.
  rewrite E1. cbn [bind]. clear E1.
  pose proof (WV_app _ _ _ _ HW0' (pairs_valid epieces M (s3_val_lex decls) (s3_run_valid decls) B0 R1)) as HWa.
  pose proof (WV_lit _ _ _ _ HWa (ws_lit _ R2)) as HWd. pose proof (WV_W _ _ _ HWd) as HWd'.
  set (p1 := 0 + blen (r_pairs B0) + blen wB0) in *.
  rewrite (CstDoc.skip_spaces_none text) by (try exact HWd'; apply Hstop0).
  rewrite starts_with_st by exact HWd'. change (b "<!DOCTYPE") with E.kw_doctype.
  replace (prefix_b E.kw_doctype rest0) with true by (unfold rest0, E.r_dtd; rewrite <- !app_assoc; rewrite prefix_b_app_same; reflexivity).
  cbn [negb bind].
  (* the DOCTYPE: the entities are recorded *)
  unfold rest0 in HWd |- *.
  rewrite (lex_doctype_u text context (tok_ev text) p1 (enc_dtd t) _ c1 HWd Hlex). cbv zeta.
  rewrite (CstEntDtd.decls_recorded text). cbn [bind].
  set (q := p1 + 9 + blen (E.t_ws1 (enc_dtd t)) + blen (E.t_name (enc_dtd t)) + blen (E.t_ws2 (enc_dtd t)) + 1) in *.
  set (es := CstEntDtd.decl_ents q decls).
  assert (Hes1 : c_entities c1 = []).
  { destruct S1 as [S1 _]. destruct (sn_keep _ _ _ _ S1) as (_ & E2 & _). rewrite E2. exact Hes0. }
  rewrite Hes1. cbn [app].
  set (c2 := set_entities c1 es).
  assert (Henv : Forall2 (uent_ok text) decls es).
  { unfold es. destruct Hlex as [L1 L2 L3 L4 L5 L6].
    assert (HWq : WV text q (flat_map E.r_decl decls ++ E.t_ws3 (enc_dtd t) ++ [93] ++ E.t_ws4 (enc_dtd t) ++ [62] ++ r_pairs B1 ++ wB1 ++ rest1)).
    { revert HWd. unfold E.r_dtd. rewrite <- !app_assoc. intros HWd.
      destruct (CstEntDtd.ws1_parts _ L1) as [_ Lw1]. destruct (uname_bytes _ L2) as (Hun & _).
      pose proof (WV_lit _ _ _ _ HWd (eq_refl : forallb (fun y => y <? 128) E.kw_doctype = true)) as X1. change (blen E.kw_doctype) with 9 in X1.
      pose proof (WV_lit _ _ _ _ X1 (ws_lit _ Lw1)) as X2. pose proof (WV_app _ _ _ _ X2 (ustr_valid _ Hun)) as X3.
      pose proof (WV_lit _ _ _ _ X3 (ws_lit _ L3)) as X4.
      pose proof (WV_lit _ _ _ _ X4 (eq_refl : forallb (fun y => y <? 128) [91] = true)) as X5. change (blen [91]) with 1 in X5. exact X5. }
    apply (decl_ents_ok_u text decls q _ HWq L4). }
  pose proof (WV_app _ _ _ _ HWd (udtd_valid _ Hlex)) as HWe.
  set (p2 := p1 + blen (E.r_dtd (enc_dtd t))) in *.
  assert (I2 : CIn [] c2) by (apply CIn_set_entities; exact I1).
  assert (HC2 : CstFullBuild.NC es c2).
  { split; [reflexivity|]. unfold c2. cbn [c_ld set_entities]. destruct S1 as [S1 _]. destruct (sn_keep _ _ _ _ S1) as (_ & _ & _ & E4). rewrite E4. exact Hld0. }
  pose proof (Stepn_nodes_len _ _ _ _ S1) as Ln1.
  rewrite (Forall2_len_N _ _ _ F1) in Ln1. unfold len_N at 3 in Ln1. rewrite NT.tag_list_len in Ln1.
  pose proof (Stepn_opt _ _ _ _ (proj1 S1)) as Lo1.
  pose proof (Stepn_attrs_len _ _ _ _ (proj1 S1)) as La1. change (len_N []) with 0 in La1.
  (* between the DOCTYPE and the root *)
  unfold parse_misc. cbn [CstLex.st s_rest]. fold (CstLex.st text p2 (r_pairs B1 ++ wB1 ++ rest1)).
  destruct (misc_loop_ok_f epieces M (s3_val_lex decls) (s3_run_valid decls) text D HD es (s3_val_norm decls Hdk text D HD es Henv)
              B1 p2 wB1 rest1 c2 (S (length (r_pairs B1 ++ wB1 ++ rest1))) HWe Q1 Q2 Hstop1)
    as (c3 & K1 & E3 & S3 & I3 & A3 & Tr3 & F3).
  { pose proof (pairs_len epieces M B1 Q1). rewrite app_length. clia. }
  { exact I2. } { exact A1. }
  { unfold CstNsItems.node_room in *. cbn [c_doc c_opt c2 set_entities]. rewrite Ln1, Lo1. clia. }
  rewrite E3. cbn [bind]. clear E3.
  pose proof (WV_app _ _ _ _ HWe (pairs_valid epieces M (s3_val_lex decls) (s3_run_valid decls) B1 Q1)) as HWf.
  pose proof (WV_lit _ _ _ _ HWf (ws_lit _ Q2)) as HWg. pose proof (WV_W _ _ _ HWg) as HWg'.
  set (p3 := p2 + blen (r_pairs B1) + blen wB1) in *.
  rewrite (CstDoc.skip_spaces_none text) by (try exact HWg'; apply Hstop1).
  assert (Ecb : match curr_byte_opt (CstLex.st text p3 rest1) with Some x => x =? 60 | None => false end = true).
  { revert HWg'. unfold rest1. rewrite El. cbn [app]. intros HWg'. rewrite curr_byte_opt_st by exact HWg'. reflexivity. }
  rewrite Ecb.
  (* root *)
  cbn [c_doc c_opt c_parent_id c2 set_entities] in S3, F3.
  pose proof (Stepn_nodes_len _ _ _ _ S3) as Ln3. cbn [c_doc c2 set_entities] in Ln3.
  rewrite (Forall2_len_N _ _ _ F3) in Ln3. unfold len_N at 3 in Ln3. rewrite NT.tag_list_len in Ln3.
  pose proof (Stepn_opt _ _ _ _ (proj1 S3)) as Lo3. cbn [c_opt c2 set_entities] in Lo3.
  pose proof (Stepn_attrs_len _ _ _ _ (proj1 S3)) as La3. change (len_N []) with 0 in La3. cbn [c_doc c2 set_entities] in La3.
  cbn [c_doc c2 set_entities] in Tr3.
  unfold rest1 in HWg |- *.
  destruct (root_ok_f epieces M steps3 (s3_val_lex decls) (s3_run_valid decls) (s3_run_steps decls) text D HD es
              (s3_val_norm decls Hdk text D HD es Henv) (s3_run decls Hdk text D HD es Henv)
              [] name ens ws body p3 (r_pairs A ++ wE ++ []) c3 H5 H7 HinD HWg I3)
    as (c4 & K2 & e2 & E4 & S4 & I4 & A4 & _ & F4 & L4 & Tr4).
  { apply (Stepn_NC _ _ _ _ _ S3 HC2). }
  { exact A3. }
  { unfold CstNsItems.node_room in *. rewrite Ln3, Lo3, Ln1, Lo1. fold root. clia. }
  { unfold CstNsItems.attr_room in *. rewrite La3, La1. fold root. clia. }
  { unfold CstNsItems.ns_room in *. rewrite Tr3, Tr1. fold root. exact SR. }
  fold root in E4, S4, F4, L4, Tr4, HWg.
  rewrite E4. cbn [bind]. clear E4.
  pose proof (WV_app _ _ _ _ HWg (fitem_valid epieces M (s3_val_lex decls) (s3_run_valid decls) _ H5)) as HWh. fold root in HWh.
  set (p4 := p3 + blen (r_item root)) in *.
  pose proof (Stepn_nodes_len _ _ _ _ S4) as Ln4.
  rewrite (Forall2_len_N _ _ _ F4) in Ln4. unfold len_N at 3 in Ln4. rewrite NT.tag_list_len in Ln4.
  pose proof (Stepn_opt _ _ _ _ (proj1 S4)) as Lo4.
  (* epilog *)
  unfold parse_misc. cbn [CstLex.st s_rest]. fold (CstLex.st text p4 (r_pairs A ++ wE ++ [])).
  destruct (misc_loop_ok_f epieces M (s3_val_lex decls) (s3_run_valid decls) text D HD es (s3_val_norm decls Hdk text D HD es Henv)
              A p4 wE [] c4 (S (length (r_pairs A ++ wE ++ []))) HWh H6 H2)
    as (c5 & K3 & E5 & S5 & I5 & A5 & Tr5 & F5).
  { split; [exact Logic.I|split; reflexivity]. }
  { pose proof (pairs_len epieces M A H6). rewrite app_length. clia. }
  { exact I4. } { exact A4. }
  { unfold CstNsItems.node_room in *. rewrite Ln4, Lo4, Ln3, Lo3, Ln1, Lo1, <- !N.add_assoc. exact NR. }
  rewrite E5. cbn [bind]. clear E5.
  pose proof (WV_W _ _ _ HWh) as HWh'.
  pose proof (W_app _ _ _ _ HWh') as HWi. pose proof (W_app _ _ _ _ HWi) as HWj.
  rewrite at_end_st by exact HWj. cbn [negb].
  exists c5, (K0 ++ K1 ++ K2 ++ K3). split; [reflexivity|].
  destruct S1 as (S1 & P1a & P1b). destruct S3 as (S3 & P3a & P3b). destruct S4 as (S4 & P4a & P4b). destruct S5 as (S5 & P5a & P5b).
  cbn [c_parent_id c_parent_prefixes c2 set_entities] in P3a, P3b.
  split; [|split].
  - rewrite (sn_nodes _ _ _ _ S5), (sn_nodes _ _ _ _ S4), (sn_nodes _ _ _ _ S3). cbn [c_doc c2 set_entities].
    rewrite (sn_nodes _ _ _ _ S1), <- !app_assoc. reflexivity.
  - congruence.
  - assert (X35 : DocExt (c_doc c3) (c_doc c5)).
    { eapply DocExt_trans; [apply (Step0n_DocExt _ _ _ _ S4)|apply (Step0n_DocExt _ _ _ _ S5)]. }
    assert (X15 : DocExt (c_doc c1) (c_doc c5)).
    { eapply DocExt_trans; [|exact X35]. apply (Step0n_DocExt _ _ _ _ S3). }
    rewrite !CstNsDoc.tag_list_app.
    apply Forall2_app; [|apply Forall2_app; [|apply Forall2_app]].
    + apply (kmn_Forall2_ext text D HD (c_doc c1)); [exact X15|exact F1].
    + apply (kmn_Forall2_ext text D HD (c_doc c3)); [exact X35|]. rewrite P1a, Ln1 in F3. exact F3.
    + apply (kmn_Forall2_ext text D HD (c_doc c4)); [apply (Step0n_DocExt _ _ _ _ S5)|].
      rewrite P3a, P1a, Ln3, Ln1 in F4. exact F4.
    + rewrite P4a, P3a, P1a, Ln4, Ln3, Ln1 in F5. exact F5.
Qed.

End Doc3.

(* ------------------------------------------------------------------------------------------ *)
(* the theorems                                                                               *)
(* ------------------------------------------------------------------------------------------ *)
Lemma root_in_all (d : S3.doc) : S3.wf_doc d = true ->
  exists l1 name es ws body l2,
    CstFullTree.dens epieces (S3.meaning_of d) (all_items d) = l1 ++ CstNs.IElem name es ws body :: l2.
Proof.
  intros Hwf. destruct (s3_parts d Hwf) as (_ & _ & _ & Hm).
  pose proof (wf_doc_parts epieces _ _ Hm) as [_ _ _ (name & es & ws & body & Er) _ _ _].
  unfold all_items, doc_items. rewrite !(dens_app epieces). cbn [CstFullTree.dens]. rewrite Er, den_elem. cbn [app].
  rewrite app_assoc. eauto 10.
Qed.

Theorem parse_render_sem_full_s3_bounded : forall (d : S3.doc) (opt : options),
  S3.wf_doc d = true -> allow_dtd opt = true ->
  N.of_nat (length (S3.sem d)) < nodes_limit opt ->
  N.of_nat (length (S3.sem d)) < u32_max ->
  N.of_nat (NT.nattrs_items (den (S3.meaning_of d) (d_root (S3.x_main d)))) < u32_max ->
  S3.distinct_decls_le d (N.to_nat 65535) ->
  1 + N.of_nat (S3.ns_cost d) <= u32_max ->
  exists doc, parse (S3.render d) opt = Ok doc /\ view (S3.render d) doc = Some (S3.sem d).
Proof.
  intros d opt Hwf Hdtd Hlim Hmax Hattr Hdist Hcost. set (text := S3.render d).
  set (D := doc_decls (S3.meaning_of d) (S3.x_main d)).
  assert (HD : forall l, NoDup l -> incl l D -> N.of_nat (length l) <= 65535).
  { intros l N1 N2. pose proof (Hdist l N1 N2). lia. }
  assert (Hsz : NT.nsizes (CstFullTree.dens epieces (S3.meaning_of d) (all_items d)) = N.of_nat (length (S3.sem d))).
  { rewrite sem_all, sem_items_len. reflexivity. }
  destruct (parse_document_ok_3 d Hwf D HD (incl_refl _) (init_ctx text opt) (CstNsMain.init_ctx_CIn text D opt) eq_refl eq_refl eq_refl)
    as (cf & K & E & Habs & Hpp & F).
  { unfold CstNsItems.node_room. cbn. rewrite Hsz. unfold len_N. cbn [length]. lia. }
  { unfold CstNsItems.attr_room. cbn. lia. }
  { unfold CstNsItems.ns_room. cbn. unfold len_N. cbn [length]. unfold S3.ns_cost in Hcost. lia. }
  cbn [c_parent_id CstNsMain.init_ctx c_doc d_nodes] in F. change (len_N [_]) with 1 in F.
  destruct (finish_g text opt cf K _ ltac:(rewrite Hdtd; exact E) Habs Hpp F (root_in_all d Hwf)) as (doc & P & V).
  { rewrite Hsz. exact Hmax. }
  exists doc. split; [exact P|]. rewrite V, sem_all. reflexivity.
Qed.

Lemma s3_render_bounds (d : S3.doc) : S3.wf_doc d = true ->
  (length (S3.sem d) < length (S3.render d))%nat /\
  (NT.nattrs_items (den (S3.meaning_of d) (d_root (S3.x_main d))) < length (S3.render d))%nat.
Proof.
  intros Hwf. destruct (s3_parts d Hwf) as (H0 & Hb & Ht & Hm). destruct (udtd_of _ Ht) as [Hlex Hdk].
  destruct (regroup_wf epieces (S3.meaning_of d) _ _ H0 Hb) as [R1 R2].
  destruct (render_bounds_f epieces (S3.meaning_of d) steps3 (s3_run_steps _) (S3.x_main d) Hm) as [B1 B2].
  pose proof (pairs_sem_le_f epieces (S3.meaning_of d) steps3 (s3_run_steps _) _ R1) as P1.
  rewrite (regroup_items epieces) in P1.
  rewrite (text_shape d), !app_length. unfold S3.sem.
  rewrite app_length.
  assert (E1 : length (flat_map (CstNs.sem_item []) (flat_map (den (S3.meaning_of d)) (map fst (S3.x_before d)))) =
               NT.isizes (CstFullTree.dens epieces (S3.meaning_of d) (map fst (S3.x_before d)))).
  { rewrite (dens_flat epieces). rewrite <- sem_items_len with (inh := []).
    induction (CstFullTree.dens epieces (S3.meaning_of d) (map fst (S3.x_before d))) as [|x r IH]; [reflexivity|].
    cbn [flat_map NT.sem_items]. rewrite !app_length, IH. reflexivity. }
  rewrite E1. fold (B0 d) in P1. clear - B1 B2 P1. split.
  - eapply Nat.lt_le_trans; [apply Nat.add_le_lt_mono; [exact P1|exact B1]|]. clear. lia.
  - clear - B2. lia.
Qed.

Theorem parse_render_sem_full_s3 : forall (d : S3.doc) (opt : options),
  S3.wf_doc d = true ->
  allow_dtd opt = true ->                                         (* the options allow a DOCTYPE *)
  N.of_nat (length (S3.sem d)) < nodes_limit opt ->               (* room for all nodes + the Root *)
  N.of_nat (length (S3.render d)) <= u32_max ->                    (* the input is at most u32::MAX bytes long *)
  S3.distinct_decls_le d (N.to_nat 65535) ->                       (* at most 65535 distinct declared bindings *)
  1 + N.of_nat (S3.ns_cost d) <= u32_max ->                        (* the namespace table fits *)
  exists doc, parse (S3.render d) opt = Ok doc /\ view (S3.render d) doc = Some (S3.sem d).
Proof.
  intros d opt Hwf Hdtd Hlim Hsz Hd Hc. destruct (s3_render_bounds d Hwf) as [B1 B2].
  apply parse_render_sem_full_s3_bounded; [exact Hwf|exact Hdtd|exact Hlim|lia|lia|exact Hd|exact Hc].
Qed.
Print Assumptions parse_render_sem_full_s3.

(* documents with the same meaning -- however the character data is distributed over entities,
   literal text, CDATA sections and references, and whatever the layout -- have the same view *)
Theorem hoist_insensitive_full_s3 : forall (d1 d2 : S3.doc) opt,
  S3.wf_doc d1 = true -> S3.wf_doc d2 = true -> allow_dtd opt = true -> S3.sem d1 = S3.sem d2 ->
  N.of_nat (length (S3.sem d1)) < nodes_limit opt ->
  N.of_nat (length (S3.render d1)) <= u32_max -> N.of_nat (length (S3.render d2)) <= u32_max ->
  S3.distinct_decls_le d1 (N.to_nat 65535) -> S3.distinct_decls_le d2 (N.to_nat 65535) ->
  1 + N.of_nat (S3.ns_cost d1) <= u32_max -> 1 + N.of_nat (S3.ns_cost d2) <= u32_max ->
  exists x1 x2, parse (S3.render d1) opt = Ok x1 /\ parse (S3.render d2) opt = Ok x2 /\
                view (S3.render d1) x1 = view (S3.render d2) x2.
Proof.
  intros d1 d2 opt W1 W2 Hdtd E L S1 S2 D1 D2 C1 C2.
  destruct (parse_render_sem_full_s3 d1 opt W1 Hdtd L S1 D1 C1) as (x1 & P1 & V1).
  destruct (parse_render_sem_full_s3 d2 opt W2 Hdtd ltac:(rewrite <- E; exact L) S2 D2 C2) as (x2 & P2 & V2).
  exists x1, x2. split; [exact P1|]. split; [exact P2|]. rewrite V1, V2, E. reflexivity.
Qed.
Print Assumptions hoist_insensitive_full_s3.

Theorem render_valid_utf8_s3 : forall d : S3.doc, S3.wf_doc d = true -> valid_utf8_b (S3.render d) = true.
Proof. intros d H. apply U8.valid_iff_Valid. apply text_valid. exact H. Qed.
Print Assumptions render_valid_utf8_s3.

(* ------------------------------------------------------------------------------------------ *)
(* the theorem is not vacuous                                                                 *)
(* ------------------------------------------------------------------------------------------ *)
Module Example3.
Definition lay ws w1 w2 q := {| CstNs.l_ws := b ws; CstNs.l_ws1 := b w1; CstNs.l_ws2 := b w2; CstNs.l_quote := q |}.
Definition qn (p l : scalars) : qname := {| q_prefix := p; q_local := l |}.
Definition at_ p l v : entry epieces := EAttr (lay " " "" "" 34) (qn p l) v.
Definition dc p u : entry epieces := EDecl (lay " " " " "" 39) p u.
Definition el p l es cs : item epieces := IElem (qn p l) es [] (Some (cs, [])).
Definition em p l es : item epieces := IElem (qn p l) es (b " ") None.
Definition tx (r : list E.epiece) : item epieces := @IText epieces r.
Definition lit cs := E.EP (T.PLit cs).
Definition decl n v : E.edecl :=
  {| E.e_ws0 := [10]; E.e_ws1 := [32]; E.e_name := n; E.e_ws2 := [32]; E.e_quote := 34; E.e_value := E.EText v; E.e_ws3 := [] |}.
(* <!--c-->
   <!DOCTYPE r [
   <!ENTITY U+540D "rn:&#x540D;">
   <!ENTITY u "u&U+540D;">
   <!ENTITY e "">
   ]>
   <?p?><P:e-acute xmlns:P ='&u;' P:a="&e;x&u;">P&u;<![CDATA[]]]]>&e;<c />&e;</P:e-acute>      (P = U+540D) *)
Definition ex : S3.doc :=
  {| S3.x_ws0 := []; S3.x_before := [(IComment (b "c"), [10])];
     S3.x_dtd := {| E.t_ws1 := [32]; E.t_name := b "r"; E.t_ws2 := [32];
                    E.t_decls := [decl [21517] [lit (b "rn:"); E.EP (T.PCharRef true (b "540D"))];
                                  decl (b "u") [lit (b "u"); E.ERef [21517]];
                                  decl (b "e") []];
                    E.t_ws3 := [10]; E.t_ws4 := [] |};
     S3.x_main := {| d_before := [(IPI (b "p") [] [], [])]; d_ws0 := [10];
                     d_root := el [21517] [233]
                                  [dc [21517] [E.ERef (b "u")]; at_ [21517] (b "a") [E.ERef (b "e"); lit (b "x"); E.ERef (b "u")]]
                                  [ tx [lit [21517]; E.ERef (b "u"); E.EP (T.PCData [93; 93]); E.ERef (b "e")];
                                    em [] (b "c") []; tx [E.ERef (b "e")] ];
                     d_after := []; d_ws_end := [10] |} |}.
Definition opt := {| allow_dtd := true; nodes_limit := default_nodes_limit |}.

Example ex_parses : exists x, parse (S3.render ex) opt = Ok x /\ view (S3.render ex) x = Some (S3.sem ex).
Proof.
  apply parse_render_sem_full_s3.
  - vm_compute. reflexivity.
  - reflexivity.
  - vm_compute. reflexivity.
  - vm_compute. intros H. discriminate H.
  - unfold S3.distinct_decls_le. apply distinct_by_count.
    remember (length (doc_decls (S3.meaning_of ex) (S3.x_main ex))) as n eqn:En. vm_compute in En. subst n. lia.
  - vm_compute. intros H. discriminate H.
Qed.
End Example3.
Print Assumptions Example3.ex_parses.
