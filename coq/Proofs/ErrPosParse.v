(* Proofs/ErrPosParse.v -- property C14 (errors), part 3: the tree builder (the real callback),
   the entity re-entry, parse(), and the bounds. *)
From Coq Require Import Lia ZifyBool ZifyN ZifyNat.
From RX Require Import Generated.
From RX.Model Require Import Base CharClass Stream Tokenizer Doc Builder Parse.
From RX.Proofs Require Import Tactics PositionProofs ErrPosStream ErrPosTokenizer.

Local Open Scope N_scope.

(* unfold one step of an anonymous [fix] applied to a constructor *)
Ltac fix_step := cbv beta match fix.

(* ---- Doc.v accessors: no Err at all ---- *)
Lemma children_epos : forall text d id, epos text (children d id).
Proof. intros. epos_tac. Qed.
Lemma children_next_epos : forall text d it, epos text (children_next d it).
Proof. intros. epos_tac. Qed.
#[export] Hint Resolve children_epos children_next_epos : epos.
Lemma children_any_element_epos : forall text fuel d it, epos text (children_any_element fuel d it).
Proof.
  intros text fuel d. induction fuel as [|fu IH]; intros it; cbn [children_any_element]; epos_tac.
Qed.
#[export] Hint Resolve children_any_element_epos : epos.

(* ---- Builder.v ---- *)
Lemma upd_node_epos : forall text nodes i f, epos text (upd_node nodes i f).
Proof. intros. epos_tac. Qed.
#[export] Hint Resolve upd_node_epos : epos.
Lemma set_next_subtree_all_epos : forall text ids nodes v, epos text (set_next_subtree_all nodes ids v).
Proof.
  intros text ids. induction ids as [|i r IH]; intros nodes v; cbn [set_next_subtree_all]; epos_tac.
Qed.
#[export] Hint Resolve set_next_subtree_all_epos : epos.

Lemma short_range_epos : forall text a e, epos text (short_range a e).
Proof. intros. epos_tac. Qed.
Lemma inc_depth_epos : forall text s ld, epos text (inc_depth text s ld).
Proof. intros. epos_tac. Qed.
Lemma inc_references_epos : forall text s ld, epos text (inc_references text s ld).
Proof. intros. epos_tac. Qed.
Lemma tb_finish_epos : forall text t, epos text (tb_finish t).
Proof. intros. epos_tac. Qed.
Lemma push_ns_epos : forall text name uri d, epos text (push_ns text name uri d).
Proof. intros. epos_tac. Qed.
Lemma push_ref_epos : forall text i d, epos text (push_ref i d).
Proof. intros. epos_tac. Qed.
Lemma ns_prefix_at_epos : forall text d i, epos text (ns_prefix_at text d i).
Proof. intros. epos_tac. Qed.
#[export] Hint Resolve short_range_epos inc_depth_epos inc_references_epos tb_finish_epos
  push_ns_epos push_ref_epos ns_prefix_at_epos : epos.

Lemma any_prefix_epos : forall text d l p, epos text (any_prefix text d l p).
Proof.
  intros text d l. induction l as [|i r IH]; intros p; cbn [any_prefix]; epos_tac.
Qed.
#[export] Hint Resolve any_prefix_epos : epos.
Lemma ns_exists_epos : forall text d st p, epos text (ns_exists text d st p).
Proof. intros. epos_tac. Qed.
#[export] Hint Resolve ns_exists_epos : epos.

Lemma append_node_epos : forall text k r c, epos text (append_node k r c).
Proof. intros. epos_tac. Qed.
#[export] Hint Resolve append_node_epos : epos.
Lemma append_text_epos : forall text t r c, epos text (append_text t r c).
Proof. intros. epos_tac. Qed.
Lemma merge_text_epos : forall text c, epos text (merge_text text c).
Proof. intros. epos_tac. Qed.
#[export] Hint Resolve append_text_epos merge_text_epos : epos.
Lemma reset_after_text_epos : forall text c, epos text (reset_after_text text c).
Proof. intros. epos_tac. Qed.
#[export] Hint Resolve reset_after_text_epos : epos.

Lemma find_prefix_idx_epos : forall text d l p, epos text (find_prefix_idx text d l p).
Proof.
  intros text d l. induction l as [|i r IH]; intros p; cbn [find_prefix_idx]; epos_tac.
Qed.
Lemma ns_range_slice_epos : forall text d nss, epos text (ns_range_slice d nss).
Proof. intros. epos_tac. Qed.
#[export] Hint Resolve find_prefix_idx_epos ns_range_slice_epos : epos.
Lemma get_ns_idx_by_prefix_epos : forall text nss pp p d, epos text (get_ns_idx_by_prefix text nss pp p d).
Proof. intros. epos_tac. Qed.
#[export] Hint Resolve get_ns_idx_by_prefix_epos : epos.

Lemma resolve_ns_loop_epos : forall text st l d, epos text (resolve_ns_loop text st l d).
Proof.
  intros text st l. induction l as [|i r IH]; intros d; cbn [resolve_ns_loop]; epos_tac.
Qed.
#[export] Hint Resolve resolve_ns_loop_epos : epos.
Lemma resolve_namespaces_epos : forall text c, epos text (resolve_namespaces text c).
Proof. intros. epos_tac. Qed.
#[export] Hint Resolve resolve_namespaces_epos : epos.

Lemma attr_expanded_name_epos : forall text d i l, epos text (attr_expanded_name text d i l).
Proof. intros. epos_tac. Qed.
#[export] Hint Resolve attr_expanded_name_epos : epos.
Lemma any_same_name_epos : forall text d l n, epos text (any_same_name text d l n).
Proof.
  intros text d l. induction l as [|a r IH]; intros n; cbn [any_same_name]; epos_tac.
Qed.
#[export] Hint Resolve any_same_name_epos : epos.
Lemma resolve_attrs_loop_epos : forall text nss st l d, epos text (resolve_attrs_loop text nss st l d).
Proof.
  intros text nss st l. induction l as [|a r IH]; intros d; cbn [resolve_attrs_loop]; epos_tac.
Qed.
#[export] Hint Resolve resolve_attrs_loop_epos : epos.
Lemma resolve_attributes_epos : forall text nss c, epos text (resolve_attributes text nss c).
Proof. intros. epos_tac. Qed.
#[export] Hint Resolve resolve_attributes_epos : epos.

(* attribute value normalisation: nested entities, one level per nesting *)
Lemma norm_attr_lvl_epos : forall text lvl es value t ld, epos text (norm_attr_lvl text lvl es value t ld).
Proof.
  intros text lvl es. induction lvl as [|lvl IHl]; intros value t ld; cbn [norm_attr_lvl].
  - epos_tac.
  - apply epos_bind; [eauto with epos|]. intros s0. cbv beta.
    (* [cbn] has already unfolded the first iteration of the inner loop; first the loop at
       any fuel, then the unfolded iteration *)
    match goal with |- context [?F (length (s_rest s0))] =>
      assert (L : forall n s t ld, epos text (F n s t ld)) end.
    { induction n as [|n IHn]; intros s t' ld'; fix_step; epos_tac. }
    epos_tac.
Qed.
#[export] Hint Resolve norm_attr_lvl_epos : epos.

Lemma normalize_attribute_epos : forall text v c, epos text (normalize_attribute text v c).
Proof. intros. epos_tac. Qed.
#[export] Hint Resolve normalize_attribute_epos : epos.
Lemma process_attribute_epos : forall text r q el p l v c, epos text (process_attribute text r q el p l v c).
Proof. intros. epos_tac. Qed.
Lemma process_element_epos : forall text e r c, epos text (process_element text e r c).
Proof. intros. epos_tac. Qed.
Lemma process_cdata_epos : forall text t r c, epos text (process_cdata text t r c).
Proof. intros. epos_tac. Qed.
Lemma parse_next_chunk_epos : forall text s es, epos text (parse_next_chunk text s es).
Proof. intros. epos_tac. Qed.
#[export] Hint Resolve process_attribute_epos process_element_epos process_cdata_epos parse_next_chunk_epos : epos.

(* ---- Parse.v ---- *)
Lemma token_with_epos : forall text ptext, (forall t r c, epos text (ptext t r c)) ->
  forall tk c, epos text (token_with text ptext tk c).
Proof. intros text ptext Hp tk c. epos_tac. Qed.

Lemma process_text_with_epos : forall text pc, (forall s c, epos text (pc s c)) ->
  forall t r c, epos text (process_text_with text pc t r c).
Proof.
  intros text pc Hpc t r c. unfold process_text_with. cbv zeta.
  destruct (negb (existsb (fun x => (x =? 38) || (x =? 13)) (slice_bytes text t))); [epos_tac|].
  apply epos_bind; [eauto with epos|]. intros s0. cbv beta.
  apply epos_bind; [|intros; epos_tac].
  (* [unfold] has already unfolded the first iteration of the loop: first the loop at any
     fuel, then the unfolded iteration *)
  match goal with |- context [?F (length (s_rest s0))] =>
    assert (L : forall n s buf c, epos text (F n s buf c)) end.
  { induction n as [|n IHn]; intros s buf c'; fix_step; epos_tac. }
  epos_tac.
Qed.

(* the mutual recursion parse_content -> token -> process_text -> parse_content *)
Lemma parse_content_lvl_epos : forall text lvl s c, epos text (parse_content_lvl text lvl s c).
Proof.
  intros text lvl. induction lvl as [|lvl IH]; intros s c; cbn [parse_content_lvl].
  - epos_tac.
  - apply parse_content_epos. apply token_with_epos. apply process_text_with_epos. exact IH.
Qed.

Lemma token_epos : forall text tok c, epos text (token text tok c).
Proof.
  intros text tok c. unfold token, process_text.
  apply token_with_epos. apply process_text_with_epos. apply parse_content_lvl_epos.
Qed.
#[export] Hint Resolve token_epos : epos.

Lemma init_context_epos : forall text opt, epos text (init_context text opt).
Proof. intros. epos_tac. Qed.
#[export] Hint Resolve init_context_epos : epos.

Lemma parse_epos : forall text opt, epos text (parse text opt).
Proof.
  intros text opt. unfold parse.
  apply epos_bind; [eauto with epos|]. intros c0.
  apply epos_bind; [apply parse_document_epos; apply token_epos|]. intros c.
  epos_tac.
Qed.

(* the real callback *)
Theorem token_errors_positioned : forall text tok c e, token text tok c = Err e -> positioned text e.
Proof. intros text tok c e H. exact (token_epos text tok c e H). Qed.
Print Assumptions token_errors_positioned.

Theorem parse_errors_positioned : forall text opt e, parse text opt = Err e -> positioned text e.
Proof. intros text opt e H. exact (parse_epos text opt e H). Qed.
Print Assumptions parse_errors_positioned.

(* ---- consequence: bounds ---- *)
Lemma positioned_in_bounds : forall text e, positioned text e ->
  1 <= fst (error_pos e) /\ fst (error_pos e) <= 1 + count_byte 10 text /\
  1 <= snd (error_pos e) /\ snd (error_pos e) <= 1 + char_count text.
Proof.
  intros text e [H|[p [_ H]]].
  - rewrite H. cbn [fst snd]. lia.
  - destruct (error_pos e) as [r c]. apply gen_text_pos_at_inv in H. destruct H as [-> ->].
    cbn [fst snd]. unfold calc_row, calc_col.
    pose proof (count_byte_firstn_le 10 text (N.to_nat p)).
    pose proof (char_count_after_last_lf_le (firstn (N.to_nat p) text)).
    pose proof (char_count_firstn_le text (N.to_nat p)).
    lia.
Qed.

Theorem parse_error_in_bounds : forall text opt e, parse text opt = Err e ->
  1 <= fst (error_pos e) /\ fst (error_pos e) <= 1 + count_byte 10 text /\ 1 <= snd (error_pos e) /\ snd (error_pos e) <= 1 + char_count text.
Proof.
  intros text opt e H. apply positioned_in_bounds. eapply parse_errors_positioned; eauto.
Qed.
Print Assumptions parse_error_in_bounds.
