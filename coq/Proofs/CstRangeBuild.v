(* Proofs/CstRangeBuild.v -- C13 / C18 on the fragment, part 2: what the callback does to the ranges
   of the nodes, token by token (facts about any successful call; they are combined with the
   lemmas of CstBuild.v, which prove the calls successful). *)
From Coq Require Import Ascii String.
From Coq Require Import List NArith PeanoNat Bool Lia ZifyBool ZifyN ZifyNat.
Import ListNotations.
From RX Require Import Generated.
From RX.Model Require Import Base CharClass Stream Tokenizer Doc Builder Parse.
From RX.Spec Require Cst.
From RX.Proofs Require Import Tactics BorrowLocal RangeArena RangeBuilder CstLex CstBuild.
Open Scope N_scope.

Definition rng (c : context) : list range := map nd_range (d_nodes (c_doc c)).

(* ---- lists ---- *)
Lemma list_upd_map_same {A B} (g : A -> B) (f : A -> A) : (forall x, g (f x) = g x) ->
  forall l i l', list_upd l i f = Some l' -> map g l' = map g l.
Proof.
  intros Hg. induction l as [|x l IH]; intros i l' H; cbn [list_upd] in H; [discriminate|].
  destruct i.
  - injection H as <-. cbn [map]. rewrite Hg. reflexivity.
  - destruct (list_upd l i f) eqn:E; [|discriminate]. injection H as <-. cbn [map]. rewrite (IH _ _ E). reflexivity.
Qed.

Lemma upd_node_same {B} (g : node_data -> B) nodes i f l' :
  upd_node nodes i f = Ok l' -> (forall x, g (f x) = g x) -> map g l' = map g nodes.
Proof.
  intros H Hg. unfold upd_node in H. destruct (list_upd nodes (N.to_nat i) f) eqn:E; [|discriminate].
  injection H as <-. eapply list_upd_map_same; eauto.
Qed.

Lemma set_next_subtree_all_same {B} (g : node_data -> B) :
  (forall x v, g (nd_set_next_subtree x v) = g x) ->
  forall ids nodes v l', set_next_subtree_all nodes ids v = Ok l' -> map g l' = map g nodes.
Proof.
  intros Hg. induction ids as [|i ids IH]; intros nodes v l' H; cbn [set_next_subtree_all] in H.
  - injection H as <-. reflexivity.
  - apply bind_ok in H. destruct H as [l1 [H1 H2]]. rewrite (IH _ _ _ H2).
    eapply upd_node_same; [exact H1|]. intros x. apply Hg.
Qed.

Lemma list_upd_at {A} (f : A -> A) : forall (a : list A) x r l',
  list_upd (a ++ x :: r) (length a) f = Some l' -> l' = a ++ f x :: r.
Proof.
  induction a as [|y a IH]; intros x r l' H; cbn [app length list_upd] in *.
  - injection H as <-. reflexivity.
  - destruct (list_upd (a ++ x :: r) (length a) f) eqn:E; [|discriminate]. injection H as <-.
    rewrite (IH _ _ _ E). reflexivity.
Qed.

Lemma list_upd_map {A B} (g : A -> B) (f : A -> A) (h : B -> B) : (forall x, g (f x) = h (g x)) ->
  forall l i l', list_upd l i f = Some l' -> list_upd (map g l) i h = Some (map g l').
Proof.
  intros Hg. induction l as [|x l IH]; intros i l' H; cbn [list_upd map] in *; [discriminate|].
  destruct i.
  - injection H as <-. cbn [map]. rewrite Hg. reflexivity.
  - destruct (list_upd l i f) eqn:E; [|discriminate]. injection H as <-. rewrite (IH _ _ E). reflexivity.
Qed.

(* ---- append_node ---- *)
Lemma append_node_rng kind r c id c' : append_node kind r c = Ok (id, c') ->
  rng c' = rng c ++ [r] /\ c_tag_name c' = c_tag_name c /\ c_parent_id c' = c_parent_id c.
Proof.
  unfold append_node. cbv zeta. destruct (_ <=? _); [discriminate|]. intros H.
  apply bind_ok in H. destruct H as [nid [_ H]].
  apply bind_ok in H. destruct H as [pnd [_ H]].
  apply bind_ok in H. destruct H as [l1 [H1 H]].
  apply bind_ok in H. destruct H as [l2 [H2 H]].
  apply bind_ok in H. destruct H as [l3 [H3 H]]. injection H as _ <-.
  unfold rng. cbn. split; [|split; reflexivity].
  rewrite (set_next_subtree_all_same nd_range (fun x v => eq_refl) _ _ _ _ H3).
  rewrite (upd_node_same nd_range _ _ _ _ H2 (fun x => eq_refl)).
  rewrite (upd_node_same nd_range _ _ _ _ H1 (fun x => eq_refl)).
  rewrite map_app. reflexivity.
Qed.

Section WithText.
Variable text : bytes.

(* a step that leaves ranges, tag name and parent alone *)
Definition Rsame (c c' : context) : Prop :=
  rng c' = rng c /\ c_tag_name c' = c_tag_name c /\ c_parent_id c' = c_parent_id c.

Lemma Rsame_refl c : Rsame c c.
Proof. repeat split. Qed.
Lemma Rsame_trans a b c : Rsame a b -> Rsame b c -> Rsame a c.
Proof. unfold Rsame. intuition congruence. Qed.

Lemma same_all_Rsame c c' : same_all c c' -> Rsame c c'.
Proof.
  intros (E1 & (_ & _ & _ & E5 & _) & _ & E4 & _). unfold Rsame, rng. rewrite E1. auto.
Qed.

Lemma merge_text_Rsame c : okP (merge_text text c) (Rsame c).
Proof.
  unfold merge_text. cbv zeta. intros c' H. destruct (rev (d_nodes (c_doc c))); [discriminate|].
  destruct (nd_kind n); try discriminate.
  apply bind_ok in H. destruct H as [nodes' [H1 H2]]. injection H2 as <-.
  unfold Rsame, rng. cbn. split; [|split; reflexivity].
  eapply upd_node_same; [exact H1|]. intros x. reflexivity.
Qed.

Lemma reset_after_text_Rsame c : okP (reset_after_text text c) (Rsame c).
Proof.
  unfold reset_after_text. destruct (c_after_text c) as [|x [|y l]].
  - apply okP_ret. apply Rsame_refl.
  - apply okP_ret. repeat split.
  - eapply okP_bind; [apply merge_text_Rsame|]. intros c1 H1. apply okP_ret.
    eapply Rsame_trans; [exact H1|]. repeat split.
Qed.

Ltac cproj :=
  cbn [c_opt c_ns_start_idx c_cur_attrs c_awaiting c_parent_prefixes c_entities c_after_text
       c_parent_id c_tag_name c_entity_floor c_ld c_doc
       set_doc set_ns_start_idx set_cur_attrs set_awaiting set_parent_prefixes set_entities
       set_after_text set_parent_id set_tag_name set_entity_floor set_ld
       d_nodes d_attrs d_ns_values d_ns_tree set_nodes set_attrs fst snd] in *.

(* ---- leaves ---- *)
Lemma leaf_rng kind r c c' :
  (let! c1 := reset_after_text text c in let! (_, c2) := append_node kind r c1 in Ok c2) = Ok c' ->
  rng c' = rng c ++ [r].
Proof.
  intros H. apply bind_ok in H. destruct H as [c1 [H1 H]].
  apply bind_ok in H. destruct H as [[id c2] [H2 H]]. injection H as <-.
  destruct (reset_after_text_Rsame c c1 H1) as (E1 & _).
  destruct (append_node_rng _ _ _ _ _ H2) as (E2 & _). congruence.
Qed.

Lemma comment_rng s r c c' : Parse.token text (TComment s r) c = Ok c' -> rng c' = rng c ++ [r].
Proof. apply leaf_rng. Qed.

Lemma pi_rng t v r c c' : Parse.token text (TPI t v r) c = Ok c' -> rng c' = rng c ++ [r].
Proof. apply leaf_rng. Qed.

Lemma text_rng t r c c' : c_after_text c = [] ->
  existsb (fun x => (x =? 38) || (x =? 13)) (slice_bytes text t) = false ->
  Parse.token text (TText t r) c = Ok c' -> rng c' = rng c ++ [r].
Proof.
  intros Hat Hb. unfold Parse.token. cbn [token_with]. unfold process_text, process_text_with. cbv zeta.
  rewrite Hb. cbn [negb]. unfold append_text. rewrite Hat. intros H.
  apply bind_ok in H. destruct H as [c1 [H1 H]]. injection H as <-.
  apply bind_ok in H1. destruct H1 as [[id c2] [H2 H1]]. injection H1 as <-.
  destruct (append_node_rng _ _ _ _ _ H2) as (E2 & _). unfold rng in *. cproj. exact E2.
Qed.

(* ---- start tags ---- *)
Lemma start_rng prefix local start c c' : Parse.token text (TElementStart prefix local start) c = Ok c' ->
  rng c' = rng c /\ tn_pos (c_tag_name c') = start.
Proof.
  unfold Parse.token. cbn [token_with]. intros H.
  apply bind_ok in H. destruct H as [c1 [H1 H]]. destruct (bytes_eqb _ _).
  { exfalso. exact (okP_err_from text _ _ (fun _ => False) _ H). }
  injection H as <-. destruct (reset_after_text_Rsame c c1 H1) as (E1 & _).
  unfold rng in *. cproj. auto.
Qed.

Lemma attr_rng r ql el prefix local value c :
  okP (Parse.token text (TAttribute r ql el prefix local value) c) (Rsame c).
Proof.
  unfold Parse.token. cbn [token_with]. unfold process_attribute.
  eapply okP_bind; [apply normalize_attribute_same|]. intros [v c1] HS. cproj.
  apply same_all_Rsame in HS.
  repeat ok_step ltac:(first [apply (push_ns_same text)]).
  all: try (eapply Rsame_trans; [exact HS|]); try exact HS.
  all: unfold Rsame, rng; cproj; repeat split; congruence.
Qed.

Lemma attrs_rng : forall (toks : list Tokenizer.token) c,
  Forall (fun t => match t with TAttribute _ _ _ _ _ _ => True | _ => False end) toks ->
  okP (evs context (Parse.token text) toks c) (Rsame c).
Proof.
  induction toks as [|t toks IH]; intros c HF; cbn [evs]; [apply okP_ret; apply Rsame_refl|].
  inversion HF as [|? ? Ht HF']; subst. destruct t; try contradiction.
  eapply okP_bind; [apply attr_rng|]. intros c1 H1. eapply okP_weaken; [apply IH; exact HF'|].
  intros c2 H2. eapply Rsame_trans; eauto.
Qed.

Lemma attr_toks_attrs : forall attrs q,
  Forall (fun t => match t with TAttribute _ _ _ _ _ _ => True | _ => False end) (attr_toks q attrs).
Proof. induction attrs as [|a r IH]; intros q; cbn [attr_toks]; constructor; [exact I|apply IH]. Qed.

Lemma resolve_attributes_Rsame nss c : okP (resolve_attributes text nss c) (fun x => Rsame c (snd x)).
Proof.
  unfold resolve_attributes.
  repeat ok_step ltac:(first [apply resolve_attrs_loop_spec]); try apply Rsame_refl.
  unfold Rsame, rng; cproj. repeat split. congruence.
Qed.

(* the end of a start tag: one more node, from the '<' to the end of the tag *)
Lemma elem_end_rng e r c c' : match e with EClose _ _ => False | _ => True end ->
  Parse.token text (TElementEnd e r) c = Ok c' ->
  rng c' = rng c ++ [(tn_pos (c_tag_name c), snd r)].
Proof.
  intros He. unfold Parse.token. cbn [token_with]. intros H.
  apply bind_ok in H. destruct H as [c0 [H0 H]].
  destruct (reset_after_text_Rsame c c0 H0) as (R0 & T0 & _).
  unfold process_element in H. destruct (slice_len _ =? 0).
  { destruct e; try discriminate. destruct He. }
  apply bind_ok in H. destruct H as [[nss c1] [H1 H]]. cbv beta iota zeta in H.
  destruct (same_all_Rsame _ _ (resolve_namespaces_same text c0 _ H1)) as (R1 & T1 & _). cproj.
  apply bind_ok in H. destruct H as [[ar c3] [H3 H]]. cbv beta iota in H.
  destruct (resolve_attributes_Rsame nss _ _ H3) as (R3 & T3 & _). cproj.
  assert (Ern : rng c3 = rng c /\ c_tag_name c3 = c_tag_name c).
  { unfold rng in *. cproj. split; congruence. }
  destruct Ern as [Er Et].
  destruct e; [|destruct He|].
  - apply bind_ok in H. destruct H as [idx [_ H]]. apply bind_ok in H. destruct H as [[id c4] [H4 H]].
    injection H as <-. destruct (append_node_rng _ _ _ _ _ H4) as (E4 & _).
    unfold rng in *. cproj. rewrite E4, Er, Et. reflexivity.
  - apply bind_ok in H. destruct H as [idx [_ H]]. apply bind_ok in H. destruct H as [[id c4] [H4 H]].
    injection H as <-. destruct (append_node_rng _ _ _ _ _ H4) as (E4 & _).
    unfold rng in *. cproj. rewrite E4, Er, Et. reflexivity.
Qed.

Lemma start_tag_rng p name attrs q empty c c' :
  (let! c1 := evs context (Parse.token text) (start_toks p name attrs) c in
   Parse.token text (end_tok q empty) c1) = Ok c' ->
  rng c' = rng c ++ [(p, q + (if empty then 2 else 1))].
Proof.
  intros H. apply bind_ok in H. destruct H as [c1 [H1 H2]].
  unfold start_toks in H1. cbn [evs] in H1. apply bind_ok in H1. destruct H1 as [c0 [H0 H1]].
  destruct (start_rng _ _ _ _ _ H0) as [E0 T0].
  destruct (attrs_rng _ _ (attr_toks_attrs attrs _) _ H1) as (E1 & T1 & _).
  unfold end_tok in H2. apply elem_end_rng in H2; [|destruct empty; exact I].
  rewrite H2, E1, E0, T1, T0. reflexivity.
Qed.

(* ---- end tags: the range of the element now ends after the end tag ---- *)
Lemma close_rng pfx loc r c c' A old B :
  Parse.token text (TElementEnd (EClose pfx loc) r) c = Ok c' ->
  rng c = A ++ old :: B -> length A = N.to_nat (c_parent_id c) ->
  rng c' = A ++ (fst old, snd r) :: B.
Proof.
  unfold Parse.token. cbn [token_with]. intros H Hr Hl.
  apply bind_ok in H. destruct H as [c0 [H0 H]].
  destruct (reset_after_text_Rsame c c0 H0) as (R0 & _ & P0).
  unfold process_element in H. destruct (slice_len _ =? 0).
  { exfalso. exact (okP_err_from text _ _ (fun _ => False) _ H). }
  apply bind_ok in H. destruct H as [[nss c1] [H1 H]]. cbv beta iota zeta in H.
  destruct (same_all_Rsame _ _ (resolve_namespaces_same text c0 _ H1)) as (R1 & _ & P1). cproj.
  apply bind_ok in H. destruct H as [[ar c3] [H3 H]]. cbv beta iota in H.
  destruct (resolve_attributes_Rsame nss _ _ H3) as (R3 & _ & P3). cproj.
  assert (Er : rng c3 = rng c /\ c_parent_id c3 = c_parent_id c).
  { unfold rng in *. cproj. split; congruence. }
  destruct Er as [Er Ep].
  destruct (_ <=? _). { exfalso. exact (okP_err_from text _ _ (fun _ => False) _ H). }
  apply bind_ok in H. destruct H as [pnd [_ H]].
  apply bind_ok in H. destruct H as [pp [_ H]].
  apply bind_ok in H. destruct H as [nodes' [Hu H]].
  apply bind_ok in H. destruct H as [_ [_ H]].
  assert (En : map nd_range nodes' = A ++ (fst old, snd r) :: B).
  { unfold upd_node in Hu. destruct (list_upd _ _ _) as [l|] eqn:E; [|discriminate]. injection Hu as <-.
    apply (list_upd_map nd_range _ (fun rg => (fst rg, snd r))) in E; [|intros x; reflexivity].
    fold (rng c3) in E. rewrite Er, Hr, Ep, <- Hl in E. apply list_upd_at in E. exact E. }
  destruct (nd_parent pnd); [|exfalso; exact (okP_err_from text _ _ (fun _ => False) _ H)].
  destruct (removelast _); [discriminate|]. injection H as <-. unfold rng. cproj. exact En.
Qed.

End WithText.
