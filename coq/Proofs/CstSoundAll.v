(* ONE soundness statement over the UNION of the byte fragments for which a soundness theorem exists, with the witness in
   the widest stage (S10):

     in_fragment_all text := in_fragment_10 text || in_fragment_8cr2 text

   - [in_fragment_10]  (Proofs/CstSound10.v; theorem [parse_sound_fragment_10], witness S10.wf_doc) contains
     in_fragment_6u / 6a1 / 6a / 6c / 6 / 7 / 8 / 9;
   - [in_fragment_8cr2] (Proofs/CstSoundCrFinal.v; theorem [parse_sound_fragment_8cr2], witness S8.wf_doc) adds the
     documents WITHOUT a DOCTYPE that have CR bytes inside comments / PI values.
   The stage inclusions [s8_in_s9] (Proofs/CstFullS9Main.v) and [s9_in_s10] (Proofs/CstFullS10Main.v) move the S8 witness
   of the second half to S10 (same document, same rendering, same meaning).

   Nothing here is new mathematics: the file only assembles the existing theorems. *)
From Coq Require Import String.
From Coq Require Import List NArith Bool Lia.
Import ListNotations.
From RX Require Import Generated.
From RX.Model Require Import Base CharClass Stream Tokenizer Doc Builder Parse.
From RX.Spec Require Import CstFull CstFullS4 CstFullS5 CstFullS6 CstFullS7 CstFullS8 CstFullS9 CstFullS10.
From RX.Proofs Require CstNsView CstFullS9Main CstFullS10Main.
From RX.Proofs Require Import CstSound CstSoundT CstSoundN CstSoundP CstSound6 CstSound6Sanity CstSound6U.
From RX.Proofs Require Import CstSound6a CstSound6c CstSound7 CstSound8 CstSound9 CstSound10.
From RX.Proofs Require CstSound6bFinal CstSound6dFinal CstSound8Final CstSound9Final CstSound10Final CstSoundCrFinal.
Open Scope N_scope.

Definition in_fragment_all (text : bytes) : bool :=
  in_fragment_10 text || CstSoundCrFinal.in_fragment_8cr2 text.

(* ---- the stage inclusion S8 -> S10 on witnesses ---- *)
Lemma s8_in_s10 : forall c : S6.doc, S8.wf_doc c = true ->
  S10.wf_doc c = true /\ S10.render c = S8.render c /\ S10.sem c = S8.sem c /\ S10.has_dtd c = S8.has_dtd c.
Proof.
  intros c H8.
  destruct (CstFullS9Main.s8_in_s9 c H8) as (H9 & R9 & M9 & D9).
  destruct (CstFullS10Main.s9_in_s10 c H9) as (H10 & R10 & M10 & D10).
  split; [exact H10|]. split; [exact (eq_trans R10 R9)|]. split; [exact (eq_trans M10 M9)|exact (eq_trans D10 D9)].
Qed.

(* ---- the statement ---- *)
Theorem parse_sound_all : forall text opt d,
  in_fragment_all text = true -> allow_dtd opt = true -> parse text opt = Ok d ->
  exists c : S6.doc, S10.wf_doc c = true /\ S10.render c = text.
Proof.
  intros text opt d HF Hallow H. unfold in_fragment_all in HF. apply orb_true_iff in HF. destruct HF as [HF|HF].
  - exact (CstSound10Final.parse_sound_fragment_10 text opt d HF Hallow H).
  - destruct (CstSoundCrFinal.parse_sound_fragment_8cr2 text opt d HF Hallow H) as (c & Hwf & Hr).
    destruct (s8_in_s10 c Hwf) as (H10 & R10 & _ & _).
    exists c. split; [exact H10|]. exact (eq_trans R10 Hr).
Qed.
Print Assumptions parse_sound_all.

(* the tree is the meaning of the witness (the four resource bounds as hypotheses, as in the _hyp corollaries of the
   stages 7 .. 10) *)
Theorem parse_sound_and_complete_all_hyp : forall text opt d,
  in_fragment_all text = true -> allow_dtd opt = true -> parse text opt = Ok d ->
  exists c : S6.doc, S10.wf_doc c = true /\ S10.render c = text /\
    (N.of_nat (length (S10.sem c)) < u32_max -> N.of_nat (S10.nattrs c) < u32_max ->
     S10.distinct_decls_le c (N.to_nat 65535) -> 1 + N.of_nat (S10.ns_cost c) <= u32_max ->
     CstNsView.view text d = Some (S10.sem c)).
Proof.
  intros text opt d HF Ha H.
  destruct (parse_sound_all text opt d HF Ha H) as (c & Hwf & Hr).
  exists c. split; [exact Hwf|]. split; [exact Hr|]. intros L2 L3 Hd Hc.
  exact (CstSound10Final.parse_view_of_witness_10 text opt d c H Hwf Hr (fun _ => Ha) L2 L3 Hd Hc).
Qed.
Print Assumptions parse_sound_and_complete_all_hyp.

(* ---- inclusions: every earlier fragment that has an inclusion lemma to chain ---- *)
Lemma in_fragment_10_all text : in_fragment_10 text = true -> in_fragment_all text = true.
Proof. unfold in_fragment_all. intros ->. reflexivity. Qed.
Lemma in_fragment_8cr2_all text : CstSoundCrFinal.in_fragment_8cr2 text = true -> in_fragment_all text = true.
Proof. unfold in_fragment_all. intros ->. apply orb_true_r. Qed.
Lemma in_fragment_9_all text : in_fragment_9 text = true -> in_fragment_all text = true.
Proof. intros H. apply in_fragment_10_all, in_fragment_9_10. exact H. Qed.
Lemma in_fragment_8_all text : in_fragment_8 text = true -> in_fragment_all text = true.
Proof. intros H. apply in_fragment_9_all, in_fragment_8_9. exact H. Qed.
Lemma in_fragment_7_all text : in_fragment_7 text = true -> in_fragment_all text = true.
Proof. intros H. apply in_fragment_8_all, in_fragment_7_8. exact H. Qed.
Lemma in_fragment_6_all text : in_fragment_6 text = true -> in_fragment_all text = true.
Proof. intros H. apply in_fragment_7_all, in_fragment_6_7. exact H. Qed.
Lemma in_fragment_6c_all text : in_fragment_6c text = true -> in_fragment_all text = true.
Proof. intros H. apply in_fragment_6_all, CstSound6dFinal.in_fragment_6c_6. exact H. Qed.
Lemma in_fragment_6a_all text : in_fragment_6a text = true -> in_fragment_all text = true.
Proof. intros H. apply in_fragment_6_all, CstSound6dFinal.in_fragment_6a_6. exact H. Qed.
Lemma in_fragment_6a1_all text : in_fragment_6a1 text = true -> in_fragment_all text = true.
Proof. intros H. apply in_fragment_6a_all, CstSound6bFinal.in_fragment_6a1_6a. exact H. Qed.
Lemma in_fragment_6u_all text : in_fragment_6u text = true -> in_fragment_all text = true.
Proof. unfold in_fragment_6u. intros H. apply andb_true_iff in H. apply in_fragment_6a_all. exact (proj1 H). Qed.

(* ---- non-vacuity: one input from each side of the union, each outside the other side, both accepted ---- *)
Example exall_nonvacuous :
  in_fragment_all CstSound10Final.ex10_text = true /\ CstSoundCrFinal.in_fragment_8cr2 CstSound10Final.ex10_text = false /\
  in_fragment_all CstSoundCrFinal.excr_text = true /\ in_fragment_10 CstSoundCrFinal.excr_text = false /\
  acc6 CstSound10Final.ex10_text = true /\ acc6 CstSoundCrFinal.excr_text = true.
Proof. vm_compute. repeat split. Qed.

Example exall_applied :
  (exists c : S6.doc, S10.wf_doc c = true /\ S10.render c = CstSound10Final.ex10_text) /\
  (exists c : S6.doc, S10.wf_doc c = true /\ S10.render c = CstSoundCrFinal.excr_text).
Proof.
  destruct exall_nonvacuous as (F1 & _ & F2 & _ & A1 & A2). unfold acc6 in A1, A2.
  split.
  - destruct (parse CstSound10Final.ex10_text od) as [d| | |] eqn:E; try discriminate A1.
    exact (parse_sound_all _ od d F1 eq_refl E).
  - destruct (parse CstSoundCrFinal.excr_text od) as [d| | |] eqn:E; try discriminate A2.
    exact (parse_sound_all _ od d F2 eq_refl E).
Qed.
Print Assumptions exall_applied.
