(* Proofs/NsRejDoc.v -- C06/C08, rejection half: parse_document on the rendering of a document of
   Spec/CstNs.v that is syntactically well formed and whose first violation of a namespace rule is
   [rl]: the prolog is parsed, the root element is refused with the error of [rl]
   ([parse_document_rej]).  The ASCII / declaration-test / size facts of Proofs/CstNsDoc.v and
   Proofs/CstNsMain.v are repeated for [wf_syntax_ns] (they never used the namespace rules). *)
From Coq Require Import Ascii String.
From Coq Require Import List NArith PeanoNat Bool Lia ZifyBool ZifyN ZifyNat.
Import ListNotations.
From RX Require Import Generated.
From RX.Model Require Import Base CharClass Stream Tokenizer Doc Builder Parse.
From RX.Spec Require Cst Scope CstNs.
From RX.Proofs Require Import Tactics CstLex CstBuild CstNsLex CstNsView CstNsBuild CstNsTree CstNsItems CstNsDoc.
From RX.Proofs Require Import NsRejDefs NsRejLex NsRejBuild NsRejItems.
From RX.Proofs Require CstItems CstDoc.
Open Scope N_scope.

Import CstNs.

(* ---- renderings are ASCII (syntax only) ---- *)
Lemma asc_entry_syn e : syn_entry e = true -> asc (r_entry e).
Proof.
  intros H. destruct (syn_entry_lex _ H) as (_ & H1 & H3 & H4 & H5 & H6 & H2).
  unfold r_entry. cbv zeta. rewrite e_name_qname. repeat apply CstDoc.asc_app; try (apply CstDoc.asc_ws; assumption).
  - apply asc_qname. exact H2.
  - apply CstDoc.asc_lit. reflexivity.
  - constructor; [lia|constructor].
  - revert H6. unfold wf_value. apply CstDoc.forallb_asc. intros x Hx.
    assert (Hp : Cst.is_plain x = true) by lia. apply (plain_char _ Hp).
  - constructor; [lia|constructor].
Qed.

Lemma asc_entries_syn es : forallb syn_entry es = true -> asc (flat_map r_entry es).
Proof.
  induction es as [|a r IH]; intros H; [constructor|]. cbn [forallb] in H.
  apply andb_true_iff in H. destruct H as [H1 H2]. cbn [flat_map]. apply CstDoc.asc_app; [apply asc_entry_syn; exact H1|auto].
Qed.

Lemma syn_elem_parts name es ws body : syn_item (IElem name es ws body) = true ->
  wf_qname name = true /\ forallb syn_entry es = true /\ Cst.wf_ws ws = true /\
  match body with
  | None => True
  | Some (cs, ws2) => Cst.wf_ws ws2 = true /\ no_adj cs = true /\ syn_items cs = true
  end.
Proof.
  rewrite syn_item_elem, !andb_true_iff. intros [[[H1 H2] H3] H4]. repeat split; try assumption.
  destruct body as [[cs ws2]|]; [|exact Logic.I]. rewrite !andb_true_iff in H4. tauto.
Qed.

Lemma asc_item_syn : forall i, syn_item i = true -> asc (r_item i).
Proof.
  intros i. induction i as [n a w|n a w cs w2 IH|bs|bs|t s v] using item_ind'; intros Hwf.
  - destruct (syn_elem_parts _ _ _ _ Hwf) as (Hn & Ha & Hw & _). rewrite r_item_elem.
    repeat apply CstDoc.asc_app; try (apply CstDoc.asc_lit; reflexivity).
    + apply asc_qname; exact Hn.
    + apply asc_entries_syn; exact Ha.
    + apply CstDoc.asc_ws; exact Hw.
  - destruct (syn_elem_parts _ _ _ _ Hwf) as (Hn & Ha & Hw & Hw2 & _ & Hcs). rewrite r_item_elem.
    repeat apply CstDoc.asc_app; try (apply CstDoc.asc_lit; reflexivity).
    + apply asc_qname; exact Hn.
    + apply asc_entries_syn; exact Ha.
    + apply CstDoc.asc_ws; exact Hw.
    + clear - IH Hcs. induction IH as [|c r Hc _ IHr]; [constructor|].
      cbn [syn_items] in Hcs. apply andb_true_iff in Hcs. destruct Hcs as [H1 H2].
      cbn [r_items]. apply CstDoc.asc_app; [apply (Hc H1)|auto].
    + apply asc_qname; exact Hn.
    + apply CstDoc.asc_ws; exact Hw2.
  - apply (CstDoc.asc_item (Cst.IText bs)). exact Hwf.
  - apply (CstDoc.asc_item (Cst.IComment bs)). exact Hwf.
  - apply (CstDoc.asc_item (Cst.IPI t s v)). exact Hwf.
Qed.

(* ---- the parts of a syntactically well-formed document ---- *)
Lemma misc_wf_syn i : is_misc i = true -> wf_item [] i = syn_item i.
Proof. destruct i; try discriminate; reflexivity. Qed.

Lemma before_wf (l : list (item * Cst.bytes)) :
  forallb (fun p => is_misc (fst p) && syn_item (fst p) && Cst.wf_ws (snd p)) l =
  forallb (fun p => is_misc (fst p) && wf_item [] (fst p) && Cst.wf_ws (snd p)) l.
Proof.
  apply forallb_ext'. intros [i w]. cbn [fst snd]. destruct (is_misc i) eqn:E; [|reflexivity].
  rewrite (misc_wf_syn i E). reflexivity.
Qed.

Lemma after_wf (l : pairs) :
  forallb (fun p => Cst.wf_ws (fst p) && is_misc (snd p) && syn_item (snd p)) l = wf_pairs l.
Proof.
  apply forallb_ext'. intros [w i]. cbn [fst snd]. destruct (is_misc i) eqn:E; [|rewrite !andb_false_r; reflexivity].
  rewrite (misc_wf_syn i E). reflexivity.
Qed.

Record syn_parts (c : doc) : Prop := {
  sp_ws0 : Cst.wf_ws (d_ws0 c) = true;
  sp_wsend : Cst.wf_ws (d_ws_end c) = true;
  sp_before : forallb (fun p => is_misc (fst p) && wf_item [] (fst p) && Cst.wf_ws (snd p)) (d_before c) = true;
  sp_root : exists name es ws body, d_root c = IElem name es ws body;
  sp_rootsyn : syn_item (d_root c) = true;
  sp_after : wf_pairs (d_after c) = true
}.

Lemma wf_syntax_parts c : wf_syntax_ns c = true -> syn_parts c.
Proof.
  unfold wf_syntax_ns. rewrite !andb_true_iff. intros [[[[H1 H2] H3] H4] H5].
  constructor; try assumption.
  - rewrite <- before_wf. exact H3.
  - destruct (d_root c); try discriminate. eauto.
  - destruct (d_root c); try discriminate. exact H4.
  - rewrite <- after_wf. exact H5.
Qed.

Lemma render_asc_syn c : wf_syntax_ns c = true -> asc (render c).
Proof.
  intros H. apply wf_syntax_parts in H. destruct H as [H1 H2 H3 H4 H5 H6].
  destruct (regroup_wf _ _ H1 H3) as [R1 R2].
  rewrite render_shape. repeat apply CstDoc.asc_app.
  - apply asc_pairs; exact R1.
  - apply CstDoc.asc_ws; exact R2.
  - apply (asc_item_syn _ H5).
  - apply asc_pairs; exact H6.
  - apply CstDoc.asc_ws; exact H2.
  - constructor.
Qed.

Lemma decl_render_syn c : wf_syntax_ns c = true -> CstDoc.decl_test (render c) = false.
Proof.
  intros H. apply wf_syntax_parts in H. destruct H as [H1 H2 H3 (name & es & ws & body & Er) H5 H6].
  destruct (regroup_wf _ _ H1 H3) as [R1 R2]. rewrite render_shape.
  destruct (syn_elem_parts _ _ _ _ ltac:(rewrite <- Er; exact H5)) as (Hn & _).
  destruct (root_starts name es ws body Hn) as (n & l & El & Hns).
  destruct (name_start_byte _ Hns) as (_ & _ & _ & _ & _ & _ & H63 & _).
  destruct (regroup (d_ws0 c) (d_before c)) as [|[w i] B].
  - cbn [r_pairs flat_map app]. destruct (last_ws (d_ws0 c) (d_before c)) as [|x wl].
    + cbn [app]. rewrite Er, El. cbn [app]. apply CstDoc.decl_lt. exact H63.
    + cbn [app]. apply CstDoc.decl_ws. cbn [Cst.wf_ws forallb] in R2. apply andb_true_iff in R2.
      destruct R2 as [R2 _]. unfold Cst.is_ws in R2. clear - R2. lia.
  - cbn [wf_pairs forallb fst snd] in R1. rewrite !andb_true_iff in R1. destruct R1 as [[[W1 M1] I1] _].
    cbn [r_pairs flat_map fst snd]. rewrite <- !app_assoc. destruct w as [|x w].
    + cbn [app]. destruct i as [? ? ? ?|?|bs|t s v]; try discriminate.
      * cbn [r_item app]. apply CstDoc.decl_lt. clear. lia.
      * cbn [r_item]. rewrite <- !app_assoc. apply CstDoc.decl_pi. apply CstItems.wf_pi. exact I1.
    + cbn [app]. apply CstDoc.decl_ws. cbn [Cst.wf_ws forallb] in W1. apply andb_true_iff in W1.
      destruct W1 as [W1 _]. unfold Cst.is_ws in W1. clear - W1. lia.
Qed.

(* ------------------------------------------------------------------------------------------ *)
(* parse_document                                                                             *)
(* ------------------------------------------------------------------------------------------ *)

Lemma parse_document_rej (D : list Scope.binding)
      (HD : forall l, NoDup l -> incl l D -> N.of_nat (length l) <= 65535)
      (c : doc) (dtd : bool) (c0 : context) (rl : rule) :
  wf_syntax_ns c = true -> first_violation c = Some rl -> incl (item_decls (d_root c)) D ->
  let text := render c in
  CstNsBuild.CIn text D [] c0 -> c_after_text c0 = [] ->
  node_room c0 (nsizes (doc_items c)) -> attr_room c0 (nattrs (d_root c)) -> ns_room c0 (ns_cost [] (d_root c)) ->
  Rej rl (parse_document text context (tok_ev text) dtd c0).
Proof.
  intros Hwf Hviol HinD text I0 A0 NR AR SR.
  pose proof (render_asc_syn c Hwf) as Hascii. fold text in Hascii.
  pose proof (decl_render_syn c Hwf) as Hdecl. fold text in Hdecl.
  pose proof (wf_syntax_parts c Hwf) as [H1 H2 H3 (name & es & ws & body & Er) H5 H6].
  clear Hwf. unfold first_violation in Hviol.
  destruct (regroup_wf _ _ H1 H3) as [R1 R2].
  assert (Etext : text = r_pairs (regroup (d_ws0 c) (d_before c)) ++ last_ws (d_ws0 c) (d_before c) ++
                         r_item (d_root c) ++ r_pairs (d_after c) ++ d_ws_end c ++ [])
    by apply render_shape.
  assert (Eitems : doc_items c = map snd (regroup (d_ws0 c) (d_before c)) ++ d_root c :: map snd (d_after c)).
  { unfold doc_items. rewrite regroup_items. reflexivity. }
  rewrite Eitems in *. clear Eitems. rewrite Er in *. clear Er H1 H3.
  set (B := regroup (d_ws0 c) (d_before c)) in *.
  set (wB := last_ws (d_ws0 c) (d_before c)) in *.
  set (A := d_after c) in *. set (wE := d_ws_end c) in *.
  set (root := IElem name es ws body) in *.
  rewrite nsizes_app, nsizes_cons in NR.
  pose proof (W_new text) as HW0.
  destruct (syn_elem_parts _ _ _ _ H5) as (Hn & _).
  destruct (root_starts name es ws body Hn) as (n & l & El & Hns). fold root in El.
  destruct (name_start_byte _ Hns) as (_ & _ & Hnsp & _ & _ & H33 & H63 & _). clear Hns Hn.
  remember (r_item root ++ r_pairs A ++ wE ++ []) as rest eqn:Erest.
  assert (Hstop : CstDoc.misc_stop rest).
  { rewrite Erest, El. cbn [app]. split; [reflexivity|]. cbn [prefix_b].
    replace (33 =? n) with false by clia. replace (63 =? n) with false by clia. split; reflexivity. }
  assert (Hdt : prefix_b [60; 33; 68; 79; 67; 84; 89; 80; 69] rest = false).
  { rewrite Erest, El. cbn [app prefix_b]. replace (33 =? n) with false by clia. rewrite andb_false_r. reflexivity. }
  assert (Hcb : forall p, CstLex.W text p rest ->
            match curr_byte_opt (CstLex.st text p rest) with Some x => x =? 60 | None => false end = true).
  { intros p HWp. rewrite Erest, El in *. cbn [app] in *. rewrite curr_byte_opt_st by exact HWp. reflexivity. }
  clear El.
  unfold parse_document. rewrite st_new.
  rewrite starts_with_st by exact HW0. rewrite CstDoc.bom_false by exact Hascii. cbn [bind].
  unfold starts_with_declaration. rewrite starts_with_st, avail_st by exact HW0.
  change (b "<?xml") with [60; 63; 120; 109; 108]. fold (CstDoc.decl_test text). rewrite Hdecl. cbn [bind].
  (* prolog *)
  unfold parse_misc. cbn [CstLex.st s_rest].
  fold (CstLex.st text 0 text).
  assert (HW0' : CstLex.W text 0 (r_pairs B ++ wB ++ rest)) by (rewrite <- Etext; exact HW0).
  replace (CstLex.st text 0 text) with (CstLex.st text 0 (r_pairs B ++ wB ++ rest))
    by (rewrite <- Etext; reflexivity).
  assert (Elen : length text = length (r_pairs B ++ wB ++ rest)) by (rewrite <- Etext; reflexivity).
  destruct (misc_loop_ok_n text Hascii D HD B 0 wB rest c0 (S (length text)) HW0' R1 R2 Hstop)
    as (c1 & K1 & E1 & S1 & I1 & A1 & Tr1 & F1).
  { pose proof (pairs_len D HD B R1). rewrite Elen, app_length. clia. }
  { exact I0. } { exact A0. } { unfold node_room in *. clia. }
  rewrite E1. cbn [bind]. clear E1.
  pose proof (W_app _ _ _ _ HW0') as HWa. pose proof (W_app _ _ _ _ HWa) as HW1.
  set (p1 := 0 + blen (r_pairs B) + blen wB) in *.
  rewrite (CstDoc.skip_spaces_none text) by (try exact HW1; apply Hstop).
  rewrite starts_with_st by exact HW1. change (b "<!DOCTYPE") with [60; 33; 68; 79; 67; 84; 89; 80; 69].
  rewrite Hdt.
  cbn [bind]. rewrite (CstDoc.skip_spaces_none text) by (try exact HW1; apply Hstop).
  rewrite (Hcb p1 HW1).
  (* root *)
  pose proof (Stepn_nodes_len _ _ _ _ S1) as Ln1.
  rewrite (Forall2_len_N D HD _ _ _ F1) in Ln1. unfold len_N at 3 in Ln1. rewrite tag_list_len in Ln1.
  pose proof (Stepn_opt _ _ _ _ (proj1 S1)) as Lo1.
  pose proof (Stepn_attrs_len _ _ _ _ (proj1 S1)) as La1. change (len_N []) with 0 in La1.
  rewrite Erest in HW1 |- *.
  destruct (root_rej text Hascii D HD [] name es ws body p1 (r_pairs A ++ wE ++ []) c1 rl H5 Hviol HinD HW1 I1)
    as (er & E2 & R).
  { unfold node_room in *. rewrite Ln1, Lo1. fold root. clia. }
  { unfold attr_room in *. rewrite La1. fold root. clia. }
  { unfold ns_room in *. rewrite Tr1. fold root. exact SR. }
  fold root in E2.
  rewrite E2. cbn [bind]. exists er. split; [reflexivity|exact R].
Qed.

Print Assumptions parse_document_rej.
