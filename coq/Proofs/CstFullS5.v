(* Proofs/CstFullS5.v -- the capstone fragment, stage S5 (Spec/CstFullS5.v, the prolog: byte order mark, XML
   declaration, DOCTYPE with external identifier and a full internal subset, or no DOCTYPE, CR in
   markup white space): parse_document on the rendering of a well-formed document, and the
   theorems [parse_render_sem_full_s5], [dtd_refused_full], [no_dtd_any_option]. *)
From Coq Require Import Ascii String.
From Coq Require Import List NArith PeanoNat Bool Lia ZifyBool ZifyN ZifyNat.
Import ListNotations.
From RX Require Import Generated.
From RX.Model Require Import Base CharClass Stream Tokenizer Doc Builder Parse.
From RX.Spec Require Cst CstText CstEnt Detector Scope CstU CstNs Chars.
From RX.Spec Require Tree.
From RX.Spec Require Import Text CstFull CstFullS5.
From RX.Proofs Require Import Tactics CstLex CstBuild CstNsLex CstNsView CstNsBuild CstULex.
From RX.Proofs Require Import CstFullLex CstFullBuild CstFullTree CstFullDoc.
From RX.Proofs Require Import CstFullS2Sem CstFullS3Sem CstFullS3Text CstFullS3Plug.
From RX.Proofs Require Import CstFullS5Ws CstFullS5Lex CstFullS5Items CstFullS5Doc CstFullS5Main CstFullS5Dtd CstFullS5Decl.
From RX.Proofs Require CstItems CstNsItems CstNsDoc CstNsMain CstUItems CstUDoc CstDoc CstEntDtd CstFullMain CstFullS3 OptionsMain.
Open Scope N_scope.

Ltac clia := repeat match goal with H : @eq bool _ true |- _ => clear H end; lia.

Notation finish_g := CstFullS3.finish_g.
Notation init_ctx := CstNsMain.init_ctx.
Notation dens5 := (CstFullTree.dens epieces).

(* ------------------------------------------------------------------------------------------ *)
(* comments and PIs do not depend on the meaning of values and runs                            *)
(* ------------------------------------------------------------------------------------------ *)
Lemma misc_indep_s (M : meaning epieces) (i : item epieces) : is_misc epieces i = true ->
  wf_item_s M0 i = wf_item_s M i /\ den M0 i = den M i.
Proof. destruct i as [n a w b0|r|bs|t s v]; try discriminate; intros _; split; reflexivity. Qed.

Lemma pairs_indep_s (M : meaning epieces) (l : pairs epieces) : wf_pairs_s epieces M l = true ->
  wf_pairs_s epieces M0 l = true /\ dens5 M0 (map snd l) = dens5 M (map snd l).
Proof.
  induction l as [|[w i] r IH]; intros H; [split; reflexivity|]. cbn [wf_pairs_s forallb fst snd] in H |- *.
  rewrite !andb_true_iff in H. destruct H as [[[H1 H2] H3] H4]. destruct (IH H4) as [I1 I2].
  destruct (misc_indep_s M i H2) as [A B0]. split.
  - rewrite H1, H2, A, H3. exact I1.
  - cbn [map snd CstFullTree.dens]. rewrite B0, I2. reflexivity.
Qed.

Lemma items_indep (M : meaning epieces) (l : list (item epieces)) : forallb (is_misc epieces) l = true -> dens5 M0 l = dens5 M l.
Proof.
  induction l as [|i r IH]; intros H; [reflexivity|]. cbn [forallb] in H. apply andb_true_iff in H. destruct H as [H1 H2].
  cbn [CstFullTree.dens]. rewrite (proj2 (misc_indep_s M i H1)), (IH H2). reflexivity.
Qed.

(* ------------------------------------------------------------------------------------------ *)
(* the head of a list of white space / comment / PI pairs: neither a BOM nor an XML declaration *)
(* ------------------------------------------------------------------------------------------ *)
Lemma decl_pi_s t s v rest : pi_ok_s t s v ->
  CstDoc.decl_test ([60; 63] ++ utf8s t ++ s ++ utf8s v ++ [63; 62] ++ rest) = false.
Proof.
  intros Hok. pose proof (pi_after_target_s _ _ _ rest Hok) as [Hst _].
  destruct Hok as (Hn & _ & _ & _ & Hx & _).
  change ([60; 63] ++ utf8s t ++ s ++ utf8s v ++ [63; 62] ++ rest) with (60 :: 63 :: (utf8s t ++ s ++ utf8s v ++ [63; 62] ++ rest)).
  rewrite CstDoc.decl_test_pi.
  set (L := utf8s t ++ s ++ utf8s v ++ [63; 62] ++ rest) in *.
  destruct (nth_error L 3) as [x|] eqn:E3; [|apply andb_false_r].
  destruct (byte_is_space x) eqn:Es; [|apply andb_false_r]. rewrite andb_true_r.
  destruct (CstUDoc.space_not_uname _ Es) as [Hxn Hxl].
  pose proof (not_xml_gen_u x t (s ++ utf8s v ++ [63; 62] ++ rest) Hn Hx Hst Hxn Hxl) as G.
  fold L in G.
  destruct L as [|a [|b0 [|c0 [|d0 L']]]]; try discriminate. cbn [nth_error] in E3. injection E3 as ->.
  cbn [prefix_b] in *. rewrite N.eqb_refl in G. rewrite !andb_true_r in *. exact G.
Qed.

Lemma head_pairs (l : pairs epieces) wl y rest' : wf_pairs_s epieces M0 l = true -> wf_s wl = true -> y <> 63 ->
  CstDoc.decl_test (r_pairs l ++ wl ++ 60 :: y :: rest') = false /\
  exists b0 r, r_pairs l ++ wl ++ 60 :: y :: rest' = b0 :: r /\ b0 < 128.
Proof.
  intros R1 R2 Hy. destruct l as [|[w i] B].
  - cbn [r_pairs flat_map app]. destruct wl as [|x wr].
    + cbn [app]. split; [apply CstDoc.decl_lt; exact Hy|]. eexists. eexists. split; [reflexivity|lia].
    + cbn [app]. destruct (s_head _ _ R2) as (H60 & H128 & _). split; [apply CstDoc.decl_ws; exact H60|]. eexists. eexists. split; [reflexivity|exact H128].
  - cbn [wf_pairs_s forallb fst snd] in R1. rewrite !andb_true_iff in R1. destruct R1 as [[[W1 M1] I1] _].
    cbn [r_pairs flat_map fst snd]. rewrite <- !app_assoc. destruct w as [|x w].
    + cbn [app]. destruct i as [? ? ? ?|?|bs|t s v]; try discriminate.
      * cbn [r_item Cst.r_item app]. split; [apply CstDoc.decl_lt; clear; lia|]. eexists. eexists. split; [reflexivity|clear; lia].
      * cbn [r_item Cst.r_item]. rewrite <- !app_assoc. split; [apply decl_pi_s; apply swf_pi; exact I1|].
        cbn [app]. eexists. eexists. split; [reflexivity|clear; lia].
    + cbn [app]. destruct (s_head _ _ W1) as (H60 & H128 & _). split; [apply CstDoc.decl_ws; exact H60|]. eexists. eexists. split; [reflexivity|exact H128].
Qed.

(* ------------------------------------------------------------------------------------------ *)
(* the byte order mark and the XML declaration                                                *)
(* ------------------------------------------------------------------------------------------ *)
Lemma bom_valid : U8.Valid S5.bom.
Proof. change S5.bom with (utf8s [65279]). apply Valid_utf8s. constructor; [reflexivity|constructor]. Qed.

Lemma xd_valid xd : wf_opt wf_xmldecl xd = true -> U8.Valid (r_opt r_xmldecl xd).
Proof. intros H. destruct xd as [x|]; cbn [r_opt wf_opt] in *; [apply xmldecl_valid; exact H|constructor]. Qed.

Section Prefix.
Variable text : bytes.
Variable bom : bool.
Variable xd : option xmldecl.
Variable body : bytes.
Hypothesis Etext : text = (if bom then S5.bom else []) ++ r_opt r_xmldecl xd ++ body.
Hypothesis Hvalid : U8.Valid text.
Hypothesis Hxd : wf_opt wf_xmldecl xd = true.
Hypothesis Hdecl : CstDoc.decl_test body = false.
Hypothesis Hhead : exists b0 r, body = b0 :: r /\ b0 < 128.

Notation st := (CstLex.st text).
Notation WV := (CstULex.WV text).

Definition pb : N := if bom then 3 else 0.

Lemma prefix_ok :
  (if starts_with (stream_new text) [239; 187; 191] then advance 3 (stream_new text) else Ok (stream_new text)) =
    Ok (st pb (r_opt r_xmldecl xd ++ body)) /\
  (if starts_with_declaration (st pb (r_opt r_xmldecl xd ++ body))
   then parse_declaration text (st pb (r_opt r_xmldecl xd ++ body)) else Ok (st pb (r_opt r_xmldecl xd ++ body))) =
    Ok (st (pb + blen (r_opt r_xmldecl xd)) body) /\
  WV (pb + blen (r_opt r_xmldecl xd)) body.
Proof.
  pose proof (WV_new text Hvalid) as HW0. rewrite st_new. rewrite starts_with_st by exact (WV_W _ _ _ HW0).
  assert (HW1 : WV pb (r_opt r_xmldecl xd ++ body)).
  { unfold pb. destruct bom.
    - rewrite Etext in HW0. rewrite Etext. apply (WV_app _ _ _ _ HW0). apply bom_valid.
    - rewrite Etext in HW0. rewrite Etext. exact HW0. }
  assert (HW2 : WV (pb + blen (r_opt r_xmldecl xd)) body) by (apply (WV_app _ _ _ _ HW1 (xd_valid xd Hxd))).
  split; [|split; [|exact HW2]].
  - unfold pb. destruct bom.
    + replace (prefix_b [239; 187; 191] text) with true by (rewrite Etext; reflexivity).
      pattern text at 2. rewrite Etext. rewrite (advance_st text 3 0 S5.bom) by (try reflexivity; rewrite <- Etext; apply (WV_W _ _ _ HW0)).
      reflexivity.
    + replace (prefix_b [239; 187; 191] text) with false; [rewrite Etext at 2; reflexivity|].
      rewrite Etext. cbn [app]. destruct xd as [x|]; cbn [r_opt app].
      * reflexivity.
      * destruct Hhead as (b0 & r & -> & Hb). symmetry. apply CstUDoc.bom_false_lt. exact Hb.
  - destruct xd as [x|]; cbn [r_opt wf_opt app] in *.
    + destruct (decl_ok text pb x body HW1 Hxd) as [E1 E2]. rewrite E1. exact E2.
    + change (blen []) with 0. rewrite N.add_0_r.
      unfold starts_with_declaration. rewrite starts_with_st, avail_st by exact (WV_W _ _ _ HW1).
      change (b "<?xml") with [60; 63; 120; 109; 108]. fold (CstDoc.decl_test body). rewrite Hdecl. reflexivity.
Qed.

End Prefix.

(* ------------------------------------------------------------------------------------------ *)
(* the declared entities                                                                      *)
(* ------------------------------------------------------------------------------------------ *)
Definition decls5 (d : S5.doc) : list E.edecl :=
  match S5.x_dtd d with Some g => map enc_decl (ge_decls (S5.g_dtd g)) | None => [] end.

Lemma table5 d : S5.table d = E.level (decls5 d) E.max_level.
Proof. unfold S5.table, decls5, decls_table. destruct (S5.x_dtd d); reflexivity. Qed.

Lemma ge_decls_ok t : wf_doctype t = true -> Forall udecl_ok (map enc_decl (ge_decls t)).
Proof.
  unfold wf_doctype, ge_decls, subset_decls. rewrite !andb_true_iff. intros [_ Hsub].
  destruct (t_subset t) as [u|]; cbn [wf_opt] in Hsub; [|constructor].
  unfold wf_subset in Hsub. rewrite !andb_true_iff in Hsub. destruct Hsub as [[Hds _] _].
  induction (u_decls u) as [|s ds IH]; [constructor|]. cbn [forallb] in Hds. apply andb_true_iff in Hds. destruct Hds as [H1 H2].
  cbn [flat_map]. rewrite map_app. apply Forall_app. split; [|apply IH; exact H2].
  destruct s; cbn [map]; try constructor; [|constructor]. apply (udecl_of_s e H1).
Qed.

Lemma subset_misc_misc t : wf_doctype t = true -> forallb (is_misc epieces) (subset_misc t) = true.
Proof.
  unfold wf_doctype, subset_misc, subset_decls. rewrite !andb_true_iff. intros [_ Hsub].
  destruct (t_subset t) as [u|]; cbn [wf_opt] in Hsub; [|reflexivity].
  unfold wf_subset in Hsub. rewrite !andb_true_iff in Hsub. destruct Hsub as [[Hds _] _].
  induction (u_decls u) as [|s ds IH]; [reflexivity|]. cbn [forallb] in Hds. apply andb_true_iff in Hds. destruct Hds as [H1 H2].
  cbn [flat_map]. rewrite forallb_app, (IH H2), andb_true_r.
  destruct s; try reflexivity. cbn [wf_sdecl] in H1. apply andb_true_iff in H1. destruct H1 as [_ H1].
  cbn [forallb]. rewrite andb_true_r. destruct i; try discriminate; reflexivity.
Qed.

(* ------------------------------------------------------------------------------------------ *)
(* from the root element to the end of the document                                           *)
(* ------------------------------------------------------------------------------------------ *)
Definition doc_tail (text : bytes) (s : stream) (c : context) : res context :=
  let s := skip_spaces s in
  let! (s, c) :=
    if match curr_byte_opt s with Some x => x =? 60 | None => false end then
      let! (open, s, c) := parse_element text context (tok_ev text) s c in
      if open then parse_content text context (tok_ev text) s c else Ok (s, c)
    else Ok (s, c) in
  let! (s, c) := parse_misc text context (tok_ev text) s c in
  if negb (at_end s) then err_at text s UnknownToken
  else Ok c.

Section Tail.
Variable decls : list E.edecl.
Hypothesis Hdk : Forall udecl_ok decls.
Notation M := (ents_meaning (E.level decls E.max_level)).
Variable text : bytes.
Variable D : list Scope.binding.
Hypothesis HD : forall l, NoDup l -> incl l D -> N.of_nat (length l) <= 65535.
Variable es : list entity.
Hypothesis Henv : Forall2 (uent_ok text) decls es.

Notation CIn := (CstNsBuild.CIn text D).
Notation WV := (CstULex.WV text).
Notation node_room := CstNsItems.node_room.
Notation attr_room := CstNsItems.attr_room.
Notation ns_room := CstNsItems.ns_room.
Notation dens := (dens5 M).
Notation dens0 := (dens5 M0).

Lemma run5 : forall r, CstFullS5Items.PIf epieces M steps3 text D es (IText r).
Proof. exact (s3_run decls Hdk text D HD es Henv). Qed.

Lemma tail_ok name ens ws body (A : pairs epieces) wE p3 c3 :
  let root := IElem name ens ws body in
  wf_item_s M root = true -> CstFullTree.ns_oks [] (den M root) = true -> incl (NT.items_decls (den M root)) D ->
  wf_pairs_s epieces M A = true -> wf_s wE = true ->
  WV p3 (r_item root ++ r_pairs A ++ wE ++ []) ->
  CIn [] c3 -> CstFullBuild.NC es c3 -> c_after_text c3 = [] ->
  node_room c3 (NT.nsizes (den M root) + NT.nsizes (dens (map snd A))) ->
  attr_room c3 (NT.nattrs_items (den M root)) -> ns_room c3 (NT.ns_costs [] (den M root)) ->
  exists c5 K ext,
    doc_tail text (CstLex.st text p3 (r_item root ++ r_pairs A ++ wE ++ [])) c3 = Ok c5 /\
    Stepn c3 c5 K ext /\
    Forall2 (kmn text (c_doc c5)) K
      (NT.tag_list [] (c_parent_id c3) (len_N (d_nodes (c_doc c3))) (den M root ++ dens (map snd A))).
Proof.
  intros root H5 H7 HinD H6 H2 HWg I3 HC3 A3 NR AR SR.
  pose proof (root_name_s epieces M _ _ _ _ H5) as Hn.
  destruct (root_starts epieces name ens ws body Hn) as (n & l & El & Hnsp & H33 & H63). fold root in El.
  pose proof (WV_W _ _ _ HWg) as HWg'.
  unfold doc_tail. cbv zeta.
  assert (Hsp : stops byte_is_space (r_item root ++ r_pairs A ++ wE ++ [])) by (rewrite El; reflexivity).
  rewrite (CstDoc.skip_spaces_none text) by (try exact HWg'; exact Hsp).
  assert (Ecb : match curr_byte_opt (CstLex.st text p3 (r_item root ++ r_pairs A ++ wE ++ [])) with Some x => x =? 60 | None => false end = true).
  { revert HWg'. rewrite El. cbn [app]. intros HWg'. rewrite curr_byte_opt_st by exact HWg'. reflexivity. }
  rewrite Ecb.
  destruct (CstFullS5Items.root_ok_f epieces M steps3 (s3_val_lex decls) (s3_run_valid decls) (s3_run_steps decls) text D HD es
              (s3_val_norm decls Hdk text D HD es Henv) run5
              [] name ens ws body p3 (r_pairs A ++ wE ++ []) c3 H5 H7 HinD HWg I3 HC3 A3)
    as (c4 & K2 & e2 & E4 & S4 & I4 & A4 & _ & F4 & L4 & Tr4).
  { unfold CstNsItems.node_room in *. fold root. clia. }
  { exact AR. } { exact SR. }
  fold root in E4, S4, F4, L4, Tr4.
  rewrite E4. cbn [bind]. clear E4.
  pose proof (WV_app _ _ _ _ HWg (CstFullS5Items.fitem_valid epieces M (s3_val_lex decls) (s3_run_valid decls) _ H5)) as HWh. fold root in HWh.
  set (p4 := p3 + blen (r_item root)) in *.
  pose proof (CstFullS5Items.Stepn_nodes_len _ _ _ _ S4) as Ln4.
  rewrite (CstFullS5Items.Forall2_len_N _ _ _ F4) in Ln4. unfold len_N at 3 in Ln4. rewrite NT.tag_list_len in Ln4.
  pose proof (CstFullS5Items.Stepn_opt _ _ _ _ (proj1 S4)) as Lo4.
  destruct (pairs_indep_s M A H6) as [H6' EdA].
  unfold parse_misc. cbn [CstLex.st s_rest]. fold (CstLex.st text p4 (r_pairs A ++ wE ++ [])).
  destruct (misc_loop_ok_s epieces M0 CstFullS3.m0_val_lex CstFullS3.m0_run_valid text D HD es (m0_val_norm_g text es)
              A p4 wE [] c4 (S (length (r_pairs A ++ wE ++ []))) HWh H6' H2)
    as (c5 & K3 & E5 & S5 & I5 & A5 & Tr5 & F5).
  { split; [exact Logic.I|split; reflexivity]. }
  { pose proof (pairs_len_s epieces M A H6). rewrite app_length. clia. }
  { exact I4. } { exact A4. }
  { rewrite EdA. unfold CstNsItems.node_room in *. rewrite Ln4, Lo4, <- !N.add_assoc. exact NR. }
  rewrite EdA in F5. rewrite E5. cbn [bind]. clear E5.
  pose proof (WV_W _ _ _ HWh) as HWh'.
  pose proof (W_app _ _ _ _ HWh') as HWi. pose proof (W_app _ _ _ _ HWi) as HWj.
  rewrite at_end_st by exact HWj. cbn [negb].
  exists c5, (K2 ++ K3), (e2 ++ []). split; [reflexivity|]. split; [apply (Stepn_trans _ _ _ _ _ _ _ S4 S5)|].
  rewrite CstNsDoc.tag_list_app. apply Forall2_app.
  - apply (CstFullS5Items.kmn_Forall2_ext text D HD (c_doc c4)); [apply (Step0n_DocExt _ _ _ _ (proj1 S5))|exact F4].
  - destruct S4 as (_ & P4 & _). rewrite P4, Ln4 in F5. exact F5.
Qed.

End Tail.

(* ------------------------------------------------------------------------------------------ *)
(* parse_document                                                                             *)
(* ------------------------------------------------------------------------------------------ *)
Section Doc5.
Variable d : S5.doc.
Hypothesis Hwf : S5.wf_doc d = true.

Notation decls := (decls5 d).
Notation M := (ents_meaning (E.level decls E.max_level)).
Notation main := (S5.x_main d).
Notation text := (S5.render d).
Notation dens := (dens5 M).
Notation dens0 := (dens5 M0).

Lemma s5_parts :
  wf_opt wf_xmldecl (S5.x_decl d) = true /\ wf_opt S5.wf_dtd_part (S5.x_dtd d) = true /\ wf_main_s M main = true.
Proof. unfold S5.wf_doc in Hwf. rewrite !andb_true_iff in Hwf. unfold S5.meaning_of in Hwf. rewrite table5 in Hwf. tauto. Qed.

Lemma dtd_part_parts g : S5.wf_dtd_part g = true ->
  wf_s (S5.g_ws0 g) = true /\
  forallb (fun p => is_misc epieces (fst p) && wf_item_s M0 (fst p) && wf_s (snd p)) (S5.g_before g) = true /\
  wf_doctype (S5.g_dtd g) = true.
Proof. unfold S5.wf_dtd_part. rewrite (before_s epieces M0), !andb_true_iff. tauto. Qed.

Lemma Hdk5 : Forall udecl_ok decls.
Proof.
  destruct s5_parts as (_ & Hg & _). unfold decls5. destruct (S5.x_dtd d) as [g|]; [|constructor].
  cbn [wf_opt] in Hg. apply ge_decls_ok. apply (dtd_part_parts g Hg).
Qed.

(* the items in document order *)
Definition all_items : list (item epieces) := S5.prolog_items d ++ doc_items main.

Lemma sem_all : S5.sem d = NT.sem_items [] (dens all_items).
Proof.
  unfold S5.sem, all_items, S5.meaning_of. rewrite table5, (dens_app epieces M), CstNsDoc.sem_items_app. f_equal.
  - rewrite (dens_flat epieces M). induction (dens (S5.prolog_items d)) as [|x r IH]; [reflexivity|].
    cbn [flat_map NT.sem_items]. rewrite IH. reflexivity.
  - apply (sem_dens epieces M).
Qed.

Definition bomb : bytes := if S5.x_bom d then S5.bom else [].
Definition dtd_bytes : bytes := r_opt S5.r_dtd_part (S5.x_dtd d).

Lemma text_eq : text = bomb ++ r_opt r_xmldecl (S5.x_decl d) ++ dtd_bytes ++ render main.
Proof. reflexivity. Qed.

Lemma dtd_bytes_shape g : S5.x_dtd d = Some g ->
  dtd_bytes = r_pairs (regroup (S5.g_ws0 g) (S5.g_before g)) ++ last_ws (S5.g_ws0 g) (S5.g_before g) ++ r_doctype (S5.g_dtd g).
Proof.
  intros E. unfold dtd_bytes. rewrite E. cbn [r_opt]. unfold S5.r_dtd_part.
  rewrite app_assoc, (regroup_render epieces), <- app_assoc. reflexivity.
Qed.

Lemma dtd_bytes_valid : U8.Valid dtd_bytes.
Proof.
  destruct s5_parts as (_ & Hg & _). destruct (S5.x_dtd d) as [g|] eqn:Ex; [|unfold dtd_bytes; rewrite Ex; constructor].
  cbn [wf_opt] in Hg. destruct (dtd_part_parts g Hg) as (H0 & Hb & Ht).
  destruct (regroup_wf_s epieces M0 _ _ H0 Hb) as [R1 R2]. rewrite (dtd_bytes_shape g Ex).
  apply U8.Valid_app; [apply (pairs_valid_s epieces M0 CstFullS3.m0_val_lex CstFullS3.m0_run_valid); exact R1|].
  apply U8.Valid_app; [apply s_valid; exact R2|apply doctype_valid; exact Ht].
Qed.

Lemma text_valid : U8.Valid text.
Proof.
  destruct s5_parts as (Hx & _ & Hm). rewrite text_eq.
  apply U8.Valid_app; [unfold bomb; destruct (S5.x_bom d); [apply bom_valid|constructor]|].
  apply U8.Valid_app; [apply (xd_valid _ Hx)|]. apply U8.Valid_app; [apply dtd_bytes_valid|].
  apply (render_valid_s epieces M (s3_val_lex decls) (s3_run_valid decls)). exact Hm.
Qed.

Variable D : list Scope.binding.
Hypothesis HD : forall l, NoDup l -> incl l D -> N.of_nat (length l) <= 65535.
Hypothesis HinD : incl (doc_decls M main) D.

Notation CIn := (CstNsBuild.CIn text D).
Notation node_room := CstNsItems.node_room.
Notation attr_room := CstNsItems.attr_room.
Notation ns_room := CstNsItems.ns_room.
Notation WV := (CstULex.WV text).

Lemma doctype_head t rest : exists l, r_doctype t ++ rest = 60 :: 33 :: 68 :: l.
Proof. unfold r_doctype, E.kw_doctype. cbn [app]. eexists. reflexivity. Qed.

Lemma parse_document_ok_5 (dtd : bool) (c0 : context) :
  (S5.has_dtd d = true -> dtd = true) ->
  CIn [] c0 -> c_entities c0 = [] -> c_ld c0 = ld_init -> c_after_text c0 = [] ->
  node_room c0 (NT.nsizes (dens all_items)) -> attr_room c0 (NT.nattrs_items (den M (d_root main))) ->
  ns_room c0 (ns_cost M main) ->
  exists cf K,
    parse_document text context (tok_ev text) dtd c0 = Ok cf /\
    absn (c_doc cf) = absn (c_doc c0) ++ K /\ c_parent_prefixes cf = c_parent_prefixes c0 /\
    Forall2 (kmn text (c_doc cf)) K (NT.tag_list [] (c_parent_id c0) (len_N (d_nodes (c_doc c0))) (dens all_items)).
Proof.
  intros Hdtd I0 Hes0 Hld0 A0 NR AR SR.
  destruct s5_parts as (Hx & Hg & Hm). pose proof Hdk5 as Hdk. pose proof text_valid as Hvalid.
  pose proof (wf_main_parts epieces M main Hm) as [H1 H2 H3 (name & ens & ws & body & Er) H5 H6 H7].
  destruct (regroup_wf_s epieces M _ _ H1 H3) as [Q1 Q2].
  unfold doc_decls in HinD. rewrite <- (items_decls_flat) in HinD. unfold ns_cost in SR. rewrite <- ns_costs_sum in SR.
  set (B1 := regroup (d_ws0 main) (d_before main)) in *. set (wB1 := last_ws (d_ws0 main) (d_before main)) in *.
  set (A := d_after main) in *. set (wE := d_ws_end main) in *.
  rewrite Er in *. set (root := IElem name ens ws body) in *.
  set (rest1 := r_item root ++ r_pairs A ++ wE ++ []).
  assert (Emain : render main = r_pairs B1 ++ wB1 ++ rest1).
  { rewrite (render_shape epieces main). fold B1 wB1 A wE. rewrite Er. reflexivity. }
  assert (Eitems : doc_items main = map snd B1 ++ root :: map snd A).
  { rewrite (doc_items_shape epieces). fold B1 A. rewrite Er. reflexivity. }
  pose proof (root_name_s epieces M _ _ _ _ H5) as Hn.
  destruct (root_starts epieces name ens ws body Hn) as (n & l & El & Hnsp & H33 & H63). fold root in El.
  assert (Hstop1 : CstDoc.misc_stop rest1).
  { unfold rest1. rewrite El. cbn [app]. split; [reflexivity|]. cbn [prefix_b].
    replace (33 =? n) with false by clia. replace (63 =? n) with false by clia. split; reflexivity. }
  assert (Hdt1 : prefix_b [60; 33; 68; 79; 67; 84; 89; 80; 69] rest1 = false).
  { unfold rest1. rewrite El. cbn [app prefix_b]. replace (33 =? n) with false by clia. rewrite andb_false_r. reflexivity. }
  destruct (pairs_indep_s M B1 Q1) as [Q1' Ed1].
  destruct (pairs_dens_s epieces M B1 Q1) as (_ & _ & _ & Hn1 & _).
  unfold parse_document.
  destruct (S5.x_dtd d) as [g|] eqn:Ex.
  - (* with a DOCTYPE *)
    cbn [wf_opt] in Hg. destruct (dtd_part_parts g Hg) as (H0 & Hb & Ht).
    destruct (regroup_wf_s epieces M0 _ _ H0 Hb) as [R1 R2].
    set (B0 := regroup (S5.g_ws0 g) (S5.g_before g)) in *. set (wB0 := last_ws (S5.g_ws0 g) (S5.g_before g)) in *.
    set (t := S5.g_dtd g) in *.
    assert (Hd : dtd = true) by (apply Hdtd; unfold S5.has_dtd; rewrite Ex; reflexivity). subst dtd.
    assert (Eall : all_items = map snd B0 ++ subset_misc t ++ map snd B1 ++ root :: map snd A).
    { unfold all_items, S5.prolog_items. rewrite Ex, Eitems. unfold B0. rewrite (regroup_items epieces), <- app_assoc. reflexivity. }
    assert (Edec : decls = map enc_decl (ge_decls t)) by (unfold decls5; rewrite Ex; reflexivity).
    set (rest0 := r_doctype t ++ r_pairs B1 ++ wB1 ++ rest1).
    assert (Ebody : dtd_bytes ++ render main = r_pairs B0 ++ wB0 ++ rest0).
    { rewrite (dtd_bytes_shape g Ex), Emain. unfold rest0. rewrite <- !app_assoc. reflexivity. }
    destruct (doctype_head t (r_pairs B1 ++ wB1 ++ rest1)) as [ld Eld]. fold rest0 in Eld.
    assert (Hstop0 : CstDoc.misc_stop rest0) by (rewrite Eld; split; [reflexivity|split; reflexivity]).
    destruct (head_pairs B0 wB0 33 (68 :: ld) R1 R2 ltac:(lia)) as [Hdecl Hhead]. rewrite <- Eld, <- Ebody in Hdecl, Hhead.
    destruct (prefix_ok text (S5.x_bom d) (S5.x_decl d) (dtd_bytes ++ render main) text_eq Hvalid Hx Hdecl Hhead) as (P1 & P2 & HWp).
    rewrite P1. cbn [bind]. rewrite P2. cbn [bind]. clear P1 P2.
    set (p0 := pb (S5.x_bom d) + blen (r_opt r_xmldecl (S5.x_decl d))) in *.
    rewrite Ebody in HWp |- *.
    (* before the DOCTYPE *)
    rewrite Eall in NR |- *. rewrite !(dens_app epieces M) in NR |- *. cbn [CstFullTree.dens] in NR |- *. rewrite !nsizes_app in NR.
    destruct (pairs_dens_s epieces M0 B0 R1) as (_ & _ & _ & Hn0 & _).
    assert (Ed0' : dens0 (map snd B0) = dens (map snd B0)).
    { apply items_indep. clear - R1. induction B0 as [|[w i] r IH]; [reflexivity|]. cbn [wf_pairs_s forallb fst snd] in R1.
      rewrite !andb_true_iff in R1. destruct R1 as [[[_ Hi] _] Hr]. cbn [map snd forallb]. rewrite Hi, (IH Hr). reflexivity. }
    pose proof (items_indep M (subset_misc t) (subset_misc_misc t Ht)) as Eds.
    rewrite <- Ed0', <- Eds in NR |- *.
    unfold parse_misc. cbn [CstLex.st s_rest]. fold (CstLex.st text p0 (r_pairs B0 ++ wB0 ++ rest0)).
    destruct (misc_loop_ok_s epieces M0 CstFullS3.m0_val_lex CstFullS3.m0_run_valid text D HD [] (m0_val_norm_g text [])
                B0 p0 wB0 rest0 c0 (S (length (r_pairs B0 ++ wB0 ++ rest0))) HWp R1 R2 Hstop0)
      as (c1 & K0 & E1 & S1 & I1 & A1 & Tr1 & F1).
    { pose proof (pairs_len_s epieces M0 B0 R1). rewrite app_length. clia. }
    { exact I0. } { exact A0. } { unfold CstNsItems.node_room in *. clia. }
    rewrite E1. cbn [bind]. clear E1.
    pose proof (WV_app _ _ _ _ HWp (pairs_valid_s epieces M0 CstFullS3.m0_val_lex CstFullS3.m0_run_valid B0 R1)) as HWa.
    pose proof (WV_lit _ _ _ _ HWa (s_lit _ R2)) as HWd. pose proof (WV_W _ _ _ HWd) as HWd'.
    set (p1 := p0 + blen (r_pairs B0) + blen wB0) in *.
    rewrite (CstDoc.skip_spaces_none text) by (try exact HWd'; apply Hstop0).
    rewrite starts_with_st by exact HWd'. change (b "<!DOCTYPE") with E.kw_doctype.
    replace (prefix_b E.kw_doctype rest0) with true by (unfold rest0, r_doctype; rewrite <- !app_assoc; rewrite prefix_b_app_same; reflexivity).
    cbn [negb bind].
    pose proof (CstFullS5Items.Stepn_nodes_len _ _ _ _ S1) as Ln1.
    rewrite (CstFullS5Items.Forall2_len_N _ _ _ F1) in Ln1. unfold len_N at 3 in Ln1. rewrite NT.tag_list_len in Ln1.
    pose proof (CstFullS5Items.Stepn_opt _ _ _ _ (proj1 S1)) as Lo1.
    pose proof (CstFullS5Items.Stepn_attrs_len _ _ _ _ (proj1 S1)) as La1. change (len_N []) with 0 in La1.
    destruct (sn_keep _ _ _ _ (proj1 S1)) as (_ & Ee1 & _ & Eld1).
    (* the DOCTYPE *)
    unfold rest0 in HWd |- *.
    destruct (doctype_ok text D HD p1 t (r_pairs B1 ++ wB1 ++ rest1) c1 HWd Ht I1 A1) as (c2 & Kd & es & E2 & S2 & Henv & I2 & A2 & Tr2 & F2).
    { unfold CstNsItems.node_room in *. rewrite Ln1, Lo1. clia. }
    rewrite E2. cbn [bind]. clear E2.
    rewrite Ee1, Hes0 in S2. cbn [app] in S2. set (c1' := set_entities c1 es) in *.
    pose proof (CstFullS5Items.Stepn_nodes_len _ _ _ _ S2) as Ln2. cbn [c1' c_doc set_entities] in Ln2.
    rewrite (CstFullS5Items.Forall2_len_N _ _ _ F2) in Ln2. unfold len_N at 3 in Ln2. rewrite NT.tag_list_len in Ln2.
    pose proof (CstFullS5Items.Stepn_opt _ _ _ _ (proj1 S2)) as Lo2. cbn [c1' c_opt set_entities] in Lo2.
    pose proof (CstFullS5Items.Stepn_attrs_len _ _ _ _ (proj1 S2)) as La2. change (len_N []) with 0 in La2. cbn [c1' c_doc set_entities] in La2.
    destruct (sn_keep _ _ _ _ (proj1 S2)) as (_ & Ee2 & _ & Eld2). cbn [c1' c_entities c_ld set_entities] in Ee2, Eld2.
    assert (HC2 : CstFullBuild.NC es c2) by (split; [exact Ee2|rewrite Eld2, Eld1; exact Hld0]).
    rewrite <- Edec in Henv.
    pose proof (WV_app _ _ _ _ HWd (doctype_valid t Ht)) as HWe.
    set (p2 := p1 + blen (r_doctype t)) in *.
    (* between the DOCTYPE and the root *)
    unfold parse_misc. cbn [CstLex.st s_rest]. fold (CstLex.st text p2 (r_pairs B1 ++ wB1 ++ rest1)).
    destruct (misc_loop_ok_s epieces M0 CstFullS3.m0_val_lex CstFullS3.m0_run_valid text D HD es (m0_val_norm_g text es)
                B1 p2 wB1 rest1 c2 (S (length (r_pairs B1 ++ wB1 ++ rest1))) HWe Q1' Q2 Hstop1)
      as (c3 & K1 & E3 & S3 & I3 & A3 & Tr3 & F3).
    { pose proof (pairs_len_s epieces M B1 Q1). rewrite app_length. clia. }
    { exact I2. } { exact A2. }
    { rewrite Ed1. unfold CstNsItems.node_room in *. rewrite Ln2, Lo2, Ln1, Lo1. clia. }
    rewrite Ed1 in F3. rewrite E3. cbn [bind]. clear E3.
    pose proof (WV_app _ _ _ _ HWe (pairs_valid_s epieces M (s3_val_lex decls) (s3_run_valid decls) B1 Q1)) as HWf.
    pose proof (WV_lit _ _ _ _ HWf (s_lit _ Q2)) as HWg.
    set (p3 := p2 + blen (r_pairs B1) + blen wB1) in *.
    pose proof (CstFullS5Items.Stepn_nodes_len _ _ _ _ S3) as Ln3.
    rewrite (CstFullS5Items.Forall2_len_N _ _ _ F3) in Ln3. unfold len_N at 3 in Ln3. rewrite NT.tag_list_len in Ln3.
    pose proof (CstFullS5Items.Stepn_opt _ _ _ _ (proj1 S3)) as Lo3.
    pose proof (CstFullS5Items.Stepn_attrs_len _ _ _ _ (proj1 S3)) as La3. change (len_N []) with 0 in La3.
    (* the root and the epilog *)
    destruct (tail_ok decls Hdk text D HD es Henv name ens ws body A wE p3 c3 H5 H7 HinD H6 H2 HWg I3) as (c5 & K23 & e23 & E5 & S5 & F5).
    { apply (CstFullS5Items.Stepn_NC _ _ _ _ _ S3 HC2). }
    { exact A3. }
    { unfold CstNsItems.node_room in *. rewrite Ln3, Lo3, Ln2, Lo2, Ln1, Lo1. fold root. rewrite <- !N.add_assoc. exact NR. }
    { unfold CstNsItems.attr_room in *. rewrite La3, La2, La1. fold root. clia. }
    { unfold CstNsItems.ns_room in *. rewrite Tr3, Tr2, Tr1. fold root. exact SR. }
    fold root in E5, F5. fold rest1 in E5.
    match goal with |- exists cf K, ?X = Ok cf /\ _ => change X with (doc_tail text (CstLex.st text p3 rest1) c3) end. rewrite E5.
    exists c5, (K0 ++ Kd ++ K1 ++ K23). split; [reflexivity|].
    destruct S1 as (S1 & P1a & P1b). destruct S2 as (S2 & P2a & P2b). destruct S3 as (S3 & P3a & P3b). destruct S5 as (S5 & P5a & P5b).
    cbn [c1' c_parent_id c_parent_prefixes set_entities] in P2a, P2b.
    split; [|split].
    + rewrite (sn_nodes _ _ _ _ S5), (sn_nodes _ _ _ _ S3), (sn_nodes _ _ _ _ S2). cbn [c1' c_doc set_entities].
      rewrite (sn_nodes _ _ _ _ S1), <- !app_assoc. reflexivity.
    + congruence.
    + assert (X35 : DocExt (c_doc c3) (c_doc c5)) by (apply (Step0n_DocExt _ _ _ _ S5)).
      assert (X25 : DocExt (c_doc c2) (c_doc c5)) by (eapply DocExt_trans; [apply (Step0n_DocExt _ _ _ _ S3)|exact X35]).
      assert (X15 : DocExt (c_doc c1) (c_doc c5)).
      { eapply DocExt_trans; [|exact X25]. pose proof (Step0n_DocExt _ _ _ _ S2) as X. exact X. }
      do 3 rewrite CstNsDoc.tag_list_app.
      apply Forall2_app; [|apply Forall2_app; [|apply Forall2_app]].
      * apply (CstFullS5Items.kmn_Forall2_ext text D HD (c_doc c1)); [exact X15|exact F1].
      * apply (CstFullS5Items.kmn_Forall2_ext text D HD (c_doc c2)); [exact X25|]. rewrite P1a, Ln1 in F2. exact F2.
      * apply (CstFullS5Items.kmn_Forall2_ext text D HD (c_doc c3)); [exact X35|]. rewrite P2a, P1a, Ln2, Ln1 in F3. exact F3.
      * rewrite P3a, P2a, P1a, Ln3, Ln2, Ln1 in F5. exact F5.
  - (* without a DOCTYPE *)
    assert (Eall : all_items = map snd B1 ++ root :: map snd A).
    { unfold all_items, S5.prolog_items. rewrite Ex, Eitems. reflexivity. }
    assert (Edec : decls = []) by (unfold decls5; rewrite Ex; reflexivity).
    assert (Ebody : dtd_bytes ++ render main = r_pairs B1 ++ wB1 ++ rest1).
    { unfold dtd_bytes. rewrite Ex, Emain. reflexivity. }
    assert (Erest : exists l', rest1 = 60 :: n :: l') by (unfold rest1; rewrite El; cbn [app]; eexists; reflexivity).
    destruct Erest as [l' Erest].
    destruct (head_pairs B1 wB1 n l' Q1' Q2 H63) as [Hdecl Hhead]. rewrite <- Erest, <- Ebody in Hdecl, Hhead.
    destruct (prefix_ok text (S5.x_bom d) (S5.x_decl d) (dtd_bytes ++ render main) text_eq Hvalid Hx Hdecl Hhead) as (P1 & P2 & HWp).
    rewrite P1. cbn [bind]. rewrite P2. cbn [bind]. clear P1 P2.
    set (p0 := pb (S5.x_bom d) + blen (r_opt r_xmldecl (S5.x_decl d))) in *.
    rewrite Ebody in HWp |- *.
    rewrite Eall in NR |- *. rewrite !(dens_app epieces M) in NR |- *. cbn [CstFullTree.dens] in NR |- *. rewrite !nsizes_app in NR.
    unfold parse_misc. cbn [CstLex.st s_rest]. fold (CstLex.st text p0 (r_pairs B1 ++ wB1 ++ rest1)).
    destruct (misc_loop_ok_s epieces M0 CstFullS3.m0_val_lex CstFullS3.m0_run_valid text D HD [] (m0_val_norm_g text [])
                B1 p0 wB1 rest1 c0 (S (length (r_pairs B1 ++ wB1 ++ rest1))) HWp Q1' Q2 Hstop1)
      as (c3 & K1 & E3 & S3 & I3 & A3 & Tr3 & F3).
    { pose proof (pairs_len_s epieces M B1 Q1). rewrite app_length. clia. }
    { exact I0. } { exact A0. } { rewrite Ed1. unfold CstNsItems.node_room in *. clia. }
    rewrite Ed1 in F3. rewrite E3. cbn [bind]. clear E3.
    pose proof (WV_app _ _ _ _ HWp (pairs_valid_s epieces M (s3_val_lex decls) (s3_run_valid decls) B1 Q1)) as HWf.
    pose proof (WV_lit _ _ _ _ HWf (s_lit _ Q2)) as HWg. pose proof (WV_W _ _ _ HWg) as HWg'.
    set (p3 := p0 + blen (r_pairs B1) + blen wB1) in *.
    rewrite (CstDoc.skip_spaces_none text) by (try exact HWg'; apply Hstop1).
    rewrite starts_with_st by exact HWg'. change (b "<!DOCTYPE") with [60; 33; 68; 79; 67; 84; 89; 80; 69]. rewrite Hdt1. cbn [bind].
    pose proof (CstFullS5Items.Stepn_nodes_len _ _ _ _ S3) as Ln3.
    rewrite (CstFullS5Items.Forall2_len_N _ _ _ F3) in Ln3. unfold len_N at 3 in Ln3. rewrite NT.tag_list_len in Ln3.
    pose proof (CstFullS5Items.Stepn_opt _ _ _ _ (proj1 S3)) as Lo3.
    pose proof (CstFullS5Items.Stepn_attrs_len _ _ _ _ (proj1 S3)) as La3. change (len_N []) with 0 in La3.
    destruct (sn_keep _ _ _ _ (proj1 S3)) as (_ & Ee3 & _ & Eld3).
    assert (Henv : Forall2 (uent_ok text) decls []) by (rewrite Edec; constructor).
    destruct (tail_ok decls Hdk text D HD [] Henv name ens ws body A wE p3 c3 H5 H7 HinD H6 H2 HWg I3) as (c5 & K23 & e23 & E5 & S5 & F5).
    { split; [rewrite Ee3; exact Hes0|rewrite Eld3; exact Hld0]. }
    { exact A3. }
    { unfold CstNsItems.node_room in *. rewrite Ln3, Lo3. fold root. rewrite <- !N.add_assoc. exact NR. }
    { unfold CstNsItems.attr_room in *. rewrite La3. fold root. clia. }
    { unfold CstNsItems.ns_room in *. rewrite Tr3. fold root. exact SR. }
    fold root in E5, F5. fold rest1 in E5.
    match goal with |- exists cf K, ?X = Ok cf /\ _ => change X with (doc_tail text (CstLex.st text p3 rest1) c3) end. rewrite E5.
    exists c5, (K1 ++ K23). split; [reflexivity|].
    destruct S3 as (S3 & P3a & P3b). destruct S5 as (S5 & P5a & P5b).
    split; [|split].
    + rewrite (sn_nodes _ _ _ _ S5), (sn_nodes _ _ _ _ S3), <- !app_assoc. reflexivity.
    + congruence.
    + rewrite CstNsDoc.tag_list_app. apply Forall2_app.
      * apply (CstFullS5Items.kmn_Forall2_ext text D HD (c_doc c3)); [apply (Step0n_DocExt _ _ _ _ S5)|exact F3].
      * rewrite P3a, Ln3 in F5. exact F5.
Qed.

End Doc5.

(* ------------------------------------------------------------------------------------------ *)
(* a DOCTYPE that the options do not allow                                                    *)
(* ------------------------------------------------------------------------------------------ *)
Section Refused.
Variable d : S5.doc.
Hypothesis Hwf : S5.wf_doc d = true.
Variable g : S5.dtd_part.
Hypothesis Ex : S5.x_dtd d = Some g.
Notation text := (S5.render d).
Notation dens0 := (dens5 M0).

Lemma parse_document_refused (c0 : context) :
  CstNsBuild.CIn text [] [] c0 -> c_after_text c0 = [] ->
  CstNsItems.node_room c0 (NT.nsizes (dens0 (map fst (S5.g_before g)))) ->
  parse_document text context (tok_ev text) false c0 = Err DtdDetected.
Proof.
  intros I0 A0 NR.
  destruct (s5_parts d Hwf) as (Hx & Hg & Hm). pose proof (text_valid d Hwf) as Hvalid.
  rewrite Ex in Hg. cbn [wf_opt] in Hg. destruct (dtd_part_parts g Hg) as (H0 & Hb & Ht).
  destruct (regroup_wf_s epieces M0 _ _ H0 Hb) as [R1 R2].
  set (B0 := regroup (S5.g_ws0 g) (S5.g_before g)) in *. set (wB0 := last_ws (S5.g_ws0 g) (S5.g_before g)) in *.
  set (t := S5.g_dtd g) in *.
  set (rest0 := r_doctype t ++ render (S5.x_main d)).
  assert (Ebody : dtd_bytes d ++ render (S5.x_main d) = r_pairs B0 ++ wB0 ++ rest0).
  { rewrite (dtd_bytes_shape d g Ex). unfold rest0. rewrite <- !app_assoc. reflexivity. }
  destruct (doctype_head t (render (S5.x_main d))) as [ld Eld]. fold rest0 in Eld.
  assert (Hstop0 : CstDoc.misc_stop rest0) by (rewrite Eld; split; [reflexivity|split; reflexivity]).
  destruct (head_pairs B0 wB0 33 (68 :: ld) R1 R2 ltac:(lia)) as [Hdecl Hhead]. rewrite <- Eld, <- Ebody in Hdecl, Hhead.
  destruct (prefix_ok text (S5.x_bom d) (S5.x_decl d) (dtd_bytes d ++ render (S5.x_main d)) (text_eq d) Hvalid Hx Hdecl Hhead) as (P1 & P2 & HWp).
  unfold parse_document. rewrite P1. cbn [bind]. rewrite P2. cbn [bind]. clear P1 P2.
  set (p0 := pb (S5.x_bom d) + blen (r_opt r_xmldecl (S5.x_decl d))) in *.
  rewrite Ebody in HWp |- *.
  unfold parse_misc. cbn [CstLex.st s_rest]. fold (CstLex.st text p0 (r_pairs B0 ++ wB0 ++ rest0)).
  assert (HD : forall l : list Scope.binding, NoDup l -> incl l [] -> N.of_nat (length l) <= 65535) by apply HD_nil.
  destruct (misc_loop_ok_s epieces M0 CstFullS3.m0_val_lex CstFullS3.m0_run_valid text [] HD [] (m0_val_norm_g text [])
              B0 p0 wB0 rest0 c0 (S (length (r_pairs B0 ++ wB0 ++ rest0))) HWp R1 R2 Hstop0)
    as (c1 & K0 & E1 & _).
  { pose proof (pairs_len_s epieces M0 B0 R1). rewrite app_length. clia. }
  { exact I0. } { exact A0. } { unfold B0. rewrite (regroup_items epieces). exact NR. }
  rewrite E1. cbn [bind]. clear E1.
  pose proof (WV_app _ _ _ _ HWp (pairs_valid_s epieces M0 CstFullS3.m0_val_lex CstFullS3.m0_run_valid B0 R1)) as HWa.
  pose proof (WV_lit _ _ _ _ HWa (s_lit _ R2)) as HWd. pose proof (WV_W _ _ _ HWd) as HWd'.
  rewrite (CstDoc.skip_spaces_none text) by (try exact HWd'; apply Hstop0).
  rewrite starts_with_st by exact HWd'. change (b "<!DOCTYPE") with E.kw_doctype.
  replace (prefix_b E.kw_doctype rest0) with true by (unfold rest0, r_doctype; rewrite <- !app_assoc; rewrite prefix_b_app_same; reflexivity).
  reflexivity.
Qed.

End Refused.

(* ------------------------------------------------------------------------------------------ *)
(* the theorems                                                                               *)
(* ------------------------------------------------------------------------------------------ *)
Notation M5 d := (ents_meaning (E.level (decls5 d) E.max_level)).

Lemma root_in_all5 (d : S5.doc) : S5.wf_doc d = true ->
  exists l1 name es ws body l2, dens5 (M5 d) (all_items d) = l1 ++ CstNs.IElem name es ws body :: l2.
Proof.
  intros Hwf. destruct (s5_parts d Hwf) as (_ & _ & Hm).
  pose proof (wf_main_parts epieces _ _ Hm) as [_ _ _ (name & es & ws & body & Er) _ _ _].
  unfold all_items, doc_items. rewrite !(dens_app epieces). cbn [CstFullTree.dens]. rewrite Er, den_elem. cbn [app].
  rewrite app_assoc. eauto 10.
Qed.

Lemma s5_meaning d : S5.meaning_of d = M5 d.
Proof. unfold S5.meaning_of. rewrite table5. reflexivity. Qed.

Theorem parse_render_sem_full_s5_bounded : forall (d : S5.doc) (opt : options),
  S5.wf_doc d = true -> (S5.has_dtd d = true -> allow_dtd opt = true) ->
  N.of_nat (length (S5.sem d)) < nodes_limit opt ->
  N.of_nat (length (S5.sem d)) < u32_max ->
  N.of_nat (NT.nattrs_items (den (S5.meaning_of d) (d_root (S5.x_main d)))) < u32_max ->
  S5.distinct_decls_le d (N.to_nat 65535) ->
  1 + N.of_nat (S5.ns_cost d) <= u32_max ->
  exists doc, parse (S5.render d) opt = Ok doc /\ view (S5.render d) doc = Some (S5.sem d).
Proof.
  intros d opt Hwf Hdtd Hlim Hmax Hattr Hdist Hcost. set (text := S5.render d).
  unfold S5.distinct_decls_le, S5.ns_cost in *. rewrite s5_meaning in *.
  set (D := doc_decls (M5 d) (S5.x_main d)).
  assert (HD : forall l, NoDup l -> incl l D -> N.of_nat (length l) <= 65535).
  { intros l N1 N2. pose proof (Hdist l N1 N2). lia. }
  assert (Hsz : NT.nsizes (dens5 (M5 d) (all_items d)) = N.of_nat (length (S5.sem d))).
  { rewrite (sem_all d), CstFullMain.sem_items_len. reflexivity. }
  destruct (parse_document_ok_5 d Hwf D HD (incl_refl _) (allow_dtd opt) (init_ctx text opt) Hdtd (CstNsMain.init_ctx_CIn text D opt) eq_refl eq_refl eq_refl)
    as (cf & K & E & Habs & Hpp & F).
  { unfold CstNsItems.node_room. cbn [CstNsMain.init_ctx c_doc c_opt d_nodes]. rewrite Hsz. unfold len_N. cbn [length]. lia. }
  { unfold CstNsItems.attr_room. cbn [CstNsMain.init_ctx c_doc d_attrs]. unfold len_N. cbn [length]. lia. }
  { unfold CstNsItems.ns_room. cbn [CstNsMain.init_ctx c_doc d_ns_tree]. unfold len_N. cbn [length]. lia. }
  cbn [c_parent_id CstNsMain.init_ctx c_doc d_nodes] in F. change (len_N [_]) with 1 in F.
  destruct (finish_g text opt cf K _ E Habs Hpp F (root_in_all5 d Hwf)) as (doc & P & V).
  { rewrite Hsz. exact Hmax. }
  exists doc. split; [exact P|]. rewrite V, (sem_all d). reflexivity.
Qed.

Lemma isizes_flat inh l : length (flat_map (CstNs.sem_item inh) l) = NT.isizes l.
Proof.
  rewrite <- (CstFullMain.sem_items_len inh). induction l as [|x r IH]; [reflexivity|].
  cbn [flat_map NT.sem_items]. rewrite !app_length, IH. reflexivity.
Qed.

Lemma sdecls_misc_le ds : forallb wf_sdecl ds = true -> (NT.isizes (dens5 M0 (smisc ds)) <= length (flat_map r_sdecl ds))%nat.
Proof.
  induction ds as [|s ds IH]; intros H; [cbn; lia|]. cbn [forallb] in H. apply andb_true_iff in H. destruct H as [H1 H2].
  specialize (IH H2). cbn [flat_map]. rewrite app_length. unfold smisc in *. cbn [flat_map].
  destruct s as [e|? ? ? ? ? ? ?|? ? ? ? ? ? ?|? ? ?|ws0 i]; cbn [app]; try lia.
  cbn [wf_sdecl r_sdecl] in *. apply andb_true_iff in H1. destruct H1 as [_ Hi]. rewrite app_length.
  cbn [CstFullTree.dens]. rewrite isizes_app.
  destruct i as [? ? ? ?|?|bs|t sp v]; try discriminate; cbn [den NT.isizes NT.isize r_item Cst.r_item]; rewrite !app_length; cbn [length]; lia.
Qed.

Lemma doctype_misc_le t : wf_doctype t = true -> (NT.isizes (dens5 M0 (subset_misc t)) <= length (r_doctype t))%nat.
Proof.
  unfold wf_doctype, subset_misc, subset_decls, r_doctype. rewrite !andb_true_iff. intros [_ Hsub].
  destruct (t_subset t) as [u|]; cbn [wf_opt r_opt] in *; [|cbn; lia].
  unfold wf_subset in Hsub. rewrite !andb_true_iff in Hsub. destruct Hsub as [[Hds _] _].
  pose proof (sdecls_misc_le _ Hds) as G. unfold smisc in G. unfold r_subset. rewrite !app_length. lia.
Qed.

Lemma s5_render_bounds (d : S5.doc) : S5.wf_doc d = true ->
  (length (S5.sem d) < length (S5.render d))%nat /\
  (NT.nattrs_items (den (S5.meaning_of d) (d_root (S5.x_main d))) < length (S5.render d))%nat.
Proof.
  intros Hwf. rewrite s5_meaning. destruct (s5_parts d Hwf) as (Hx & Hg & Hm).
  destruct (render_bounds_s epieces (M5 d) steps3 (s3_run_steps _) (S5.x_main d) Hm) as [B1 B2].
  rewrite (text_eq d), !app_length. split; [|clear - B2; lia].
  unfold S5.sem. rewrite s5_meaning, app_length, isizes_flat, (dens_flat epieces).
  assert (G : (NT.isizes (dens5 (M5 d) (S5.prolog_items d)) <= length (dtd_bytes d))%nat).
  { unfold S5.prolog_items, dtd_bytes. destruct (S5.x_dtd d) as [g|] eqn:Ex; [|cbn; lia].
    cbn [wf_opt r_opt] in *. destruct (dtd_part_parts g Hg) as (H0 & Hb & Ht).
    destruct (regroup_wf_s epieces M0 _ _ H0 Hb) as [R1 _].
    pose proof (pairs_sem_le_s epieces M0 (fun _ => O) ltac:(intros r H; discriminate H) _ R1) as P1.
    rewrite (regroup_items epieces) in P1.
    rewrite (dens_app epieces), isizes_app.
    rewrite <- (items_indep (M5 d) (map fst (S5.g_before g))).
    2:{ clear - Hb. induction (S5.g_before g) as [|[i w] r IH]; [reflexivity|]. cbn [forallb fst snd map] in *.
        rewrite !andb_true_iff in Hb. destruct Hb as [[[Hi _] _] Hr]. rewrite Hi, (IH Hr). reflexivity. }
    rewrite <- (items_indep (M5 d) (subset_misc (S5.g_dtd g)) (subset_misc_misc _ Ht)).
    pose proof (doctype_misc_le _ Ht) as P2.
    unfold S5.r_dtd_part. rewrite app_assoc, (regroup_render epieces), !app_length.
    eapply Nat.le_trans; [apply Nat.add_le_mono; [exact P1|exact P2]|]. clear. lia. }
  fold (CstFull.sem (M5 d) (S5.x_main d)). clear - G B1. lia.
Qed.

Theorem parse_render_sem_full_s5 : forall (d : S5.doc) (opt : options),
  S5.wf_doc d = true ->
  (S5.has_dtd d = true -> allow_dtd opt = true) ->                (* a DOCTYPE needs the option *)
  N.of_nat (length (S5.sem d)) < nodes_limit opt ->               (* room for all nodes + the Root *)
  N.of_nat (length (S5.render d)) <= u32_max ->                    (* the input is at most u32::MAX bytes long *)
  S5.distinct_decls_le d (N.to_nat 65535) ->                       (* at most 65535 distinct declared bindings *)
  1 + N.of_nat (S5.ns_cost d) <= u32_max ->                        (* the namespace table fits *)
  exists doc, parse (S5.render d) opt = Ok doc /\ view (S5.render d) doc = Some (S5.sem d).
Proof.
  intros d opt Hwf Hdtd Hlim Hsz Hd Hc. destruct (s5_render_bounds d Hwf) as [B1 B2].
  apply parse_render_sem_full_s5_bounded; [exact Hwf|exact Hdtd|exact Hlim|lia|lia|exact Hd|exact Hc].
Qed.
Print Assumptions parse_render_sem_full_s5.

(* a DOCTYPE is present and the options do not allow it: DtdDetected, whatever follows the keyword
   (the comments / PIs before the DOCTYPE are built first: hence the node bound) *)
Theorem dtd_refused_full : forall (d : S5.doc) (opt : options),
  S5.wf_doc d = true -> S5.has_dtd d = true -> allow_dtd opt = false ->
  N.of_nat (length (S5.sem d)) < nodes_limit opt ->
  N.of_nat (length (S5.render d)) <= u32_max ->
  parse (S5.render d) opt = Err DtdDetected.
Proof.
  intros d opt Hwf Hhas Hopt Hlim Hsz. destruct (s5_render_bounds d Hwf) as [B1 _].
  unfold S5.has_dtd in Hhas. destruct (S5.x_dtd d) as [g|] eqn:Ex; [|discriminate].
  assert (Hle : (NT.isizes (dens5 M0 (map fst (S5.g_before g))) <= length (S5.sem d))%nat).
  { destruct (s5_parts d Hwf) as (_ & Hg & _). rewrite Ex in Hg. cbn [wf_opt] in Hg. destruct (dtd_part_parts g Hg) as (_ & Hb & _).
    unfold S5.sem, S5.prolog_items. rewrite Ex, s5_meaning, app_length, isizes_flat, (dens_flat epieces), (dens_app epieces), isizes_app.
    rewrite <- (items_indep (M5 d) (map fst (S5.g_before g))); [lia|].
    clear - Hb. induction (S5.g_before g) as [|[i w] r IH]; [reflexivity|]. cbn [forallb fst snd map] in *.
    rewrite !andb_true_iff in Hb. destruct Hb as [[[Hi _] _] Hr]. rewrite Hi, (IH Hr). reflexivity. }
  unfold parse. rewrite CstNsMain.init_context_eq. cbn [bind]. rewrite Hopt.
  change (Parse.token (S5.render d)) with (tok_ev (S5.render d)).
  rewrite (parse_document_refused d Hwf g Ex (init_ctx (S5.render d) opt) (CstNsMain.init_ctx_CIn _ [] opt) eq_refl); [reflexivity|].
  unfold CstNsItems.node_room, NT.nsizes. cbn [CstNsMain.init_ctx c_doc c_opt d_nodes]. unfold len_N. cbn [length]. lia.
Qed.
Print Assumptions dtd_refused_full.

(* no DOCTYPE: the option makes no difference *)
Theorem no_dtd_any_option : forall (d : S5.doc) (lim : N),
  S5.wf_doc d = true -> S5.has_dtd d = false ->
  N.of_nat (length (S5.sem d)) < lim ->
  N.of_nat (length (S5.render d)) <= u32_max ->
  S5.distinct_decls_le d (N.to_nat 65535) ->
  1 + N.of_nat (S5.ns_cost d) <= u32_max ->
  parse (S5.render d) (OptionsMain.opts false lim) = parse (S5.render d) (OptionsMain.opts true lim) /\
  exists doc, parse (S5.render d) (OptionsMain.opts false lim) = Ok doc /\ view (S5.render d) doc = Some (S5.sem d).
Proof.
  intros d lim Hwf Hno Hlim Hsz Hd Hc.
  destruct (parse_render_sem_full_s5 d (OptionsMain.opts false lim) Hwf ltac:(rewrite Hno; discriminate) Hlim Hsz Hd Hc) as (doc & P & V).
  split; [|exists doc; split; assumption].
  destruct (OptionsMain.dtd_flag_relation (S5.render d) lim) as [E|E]; [rewrite P in E; discriminate|exact E].
Qed.
Print Assumptions no_dtd_any_option.

Theorem render_valid_utf8_s5 : forall d : S5.doc, S5.wf_doc d = true -> valid_utf8_b (S5.render d) = true.
Proof. intros d H. apply U8.valid_iff_Valid. apply text_valid. exact H. Qed.
Print Assumptions render_valid_utf8_s5.

(* documents with the same meaning -- whatever their prolog (byte order mark, XML declaration,
   DOCTYPE, declarations that bind nothing), layout and spelling -- have the same view *)
Theorem prolog_insensitive_full_s5 : forall (d1 d2 : S5.doc) opt,
  S5.wf_doc d1 = true -> S5.wf_doc d2 = true -> allow_dtd opt = true -> S5.sem d1 = S5.sem d2 ->
  N.of_nat (length (S5.sem d1)) < nodes_limit opt ->
  N.of_nat (length (S5.render d1)) <= u32_max -> N.of_nat (length (S5.render d2)) <= u32_max ->
  S5.distinct_decls_le d1 (N.to_nat 65535) -> S5.distinct_decls_le d2 (N.to_nat 65535) ->
  1 + N.of_nat (S5.ns_cost d1) <= u32_max -> 1 + N.of_nat (S5.ns_cost d2) <= u32_max ->
  exists x1 x2, parse (S5.render d1) opt = Ok x1 /\ parse (S5.render d2) opt = Ok x2 /\
                view (S5.render d1) x1 = view (S5.render d2) x2.
Proof.
  intros d1 d2 opt W1 W2 Hdtd E L S1 S2 D1 D2 C1 C2.
  destruct (parse_render_sem_full_s5 d1 opt W1 (fun _ => Hdtd) L S1 D1 C1) as (x1 & P1 & V1).
  destruct (parse_render_sem_full_s5 d2 opt W2 (fun _ => Hdtd) ltac:(rewrite <- E; exact L) S2 D2 C2) as (x2 & P2 & V2).
  exists x1, x2. split; [exact P1|]. split; [exact P2|]. rewrite V1, V2, E. reflexivity.
Qed.
Print Assumptions prolog_insensitive_full_s5.

(* ------------------------------------------------------------------------------------------ *)
(* S3 inside S5                                                                               *)
(* ------------------------------------------------------------------------------------------ *)
Lemma wf_item_s_of (M : meaning epieces) : forall i, wf_item M i = true -> wf_item_s M i = true.
Proof.
  intros i. induction i as [n a w|n a w cs w2 IH|r|bs|t s v] using fitem_ind; intros H.
  - rewrite wf_item_elem in H. rewrite wf_item_elem_s. rewrite !andb_true_iff in H |- *. destruct H as [[[Hn Ha] Hw] _].
    repeat split; try assumption; [|apply ws_s; exact Hw].
    clear - Ha. induction a as [|e a IHa]; [reflexivity|]. cbn [forallb] in *. apply andb_true_iff in Ha. destruct Ha as [He Ha].
    rewrite (IHa Ha), andb_true_r. unfold wf_entry in He. unfold wf_entry_s, wf_layout_s, is_quote. unfold CstNs.wf_layout in He.
    rewrite !andb_true_iff in He |- *. destruct He as [[[[[L1 L2] L3] L4] Hv] Hq]. repeat split; try assumption; [apply ws1_s1|apply ws_s|apply ws_s]; assumption.
  - rewrite wf_item_elem in H. rewrite wf_item_elem_s. rewrite !andb_true_iff in H |- *. destruct H as [[[Hn Ha] Hw] [[Hw2 Hna] Hcs]].
    repeat split; try assumption; [|apply ws_s; exact Hw|apply ws_s; exact Hw2|].
    + clear - Ha. induction a as [|e a IHa]; [reflexivity|]. cbn [forallb] in *. apply andb_true_iff in Ha. destruct Ha as [He Ha].
      rewrite (IHa Ha), andb_true_r. unfold wf_entry in He. unfold wf_entry_s, wf_layout_s, is_quote. unfold CstNs.wf_layout in He.
      rewrite !andb_true_iff in He |- *. destruct He as [[[[[L1 L2] L3] L4] Hv] Hq]. repeat split; try assumption; [apply ws1_s1|apply ws_s|apply ws_s]; assumption.
    + clear - IH Hcs. induction IH as [|c r Hc _ IHr]; [reflexivity|]. cbn [CstFullTree.wf_items wf_items_s] in *.
      apply andb_true_iff in Hcs. destruct Hcs as [H1 H2]. rewrite (Hc H1), (IHr H2). reflexivity.
  - exact H.
  - exact H.
  - cbn [wf_item CstU.wf_item] in H. cbn [wf_item_s wf_misc_s]. unfold wf_pi_s. rewrite !andb_true_iff in H |- *.
    destruct H as [[[[[H1 H2] H3] H4] H5] H6]. repeat split; try assumption; [apply ws_s; exact H2|].
    destruct v as [|x v]; [reflexivity|]. apply andb_true_iff in H6. destruct H6 as [H6 H7]. rewrite H7, andb_true_r.
    cbn [forallb] in H3. apply andb_true_iff in H3. destruct H3 as [Hx _]. unfold CstU.is_char in Hx. apply andb_true_iff in Hx.
    unfold Cst.is_ws in H6. unfold Chars.xml_S. lia.
Qed.

Lemma ge_of_entities l : flat_map (fun s => match s with SEntity e => [e] | _ => [] end) (map SEntity l) = l.
Proof. induction l as [|e r IH]; [reflexivity|]. cbn [map flat_map app]. rewrite IH. reflexivity. Qed.
Lemma misc_of_entities l : flat_map (fun s => match s with SMisc _ i => [i] | _ => [] end) (map SEntity l) = @nil (item epieces).
Proof. induction l as [|e r IH]; [reflexivity|]. cbn [map flat_map app]. exact IH. Qed.

Lemma sentity_render l : flat_map r_sdecl (map SEntity l) = flat_map E.r_decl (map enc_decl l).
Proof. induction l as [|e r IH]; [reflexivity|]. cbn [map flat_map r_sdecl]. rewrite IH. reflexivity. Qed.

Theorem s3_in_s5 : forall d : S3.doc, S3.wf_doc d = true ->
  S5.wf_doc (S5.of_s3 d) = true /\ S5.render (S5.of_s3 d) = S3.render d /\ S5.sem (S5.of_s3 d) = S3.sem d /\
  S5.has_dtd (S5.of_s3 d) = true.
Proof.
  intros d Hwf. unfold S3.wf_doc in Hwf. rewrite !andb_true_iff in Hwf. destruct Hwf as [[[H0 Hb] Ht] Hm].
  assert (Eg : ge_decls (S5.g_dtd {| S5.g_ws0 := S3.x_ws0 d; S5.g_before := S3.x_before d;
                  S5.g_dtd := {| t_ws1 := E.t_ws1 (S3.x_dtd d); t_name := E.t_name (S3.x_dtd d); t_ws2 := E.t_ws2 (S3.x_dtd d); t_ext := None;
                                 t_subset := Some {| u_decls := map SEntity (E.t_decls (S3.x_dtd d)); u_ws3 := E.t_ws3 (S3.x_dtd d); u_ws4 := E.t_ws4 (S3.x_dtd d) |} |} |})
                = E.t_decls (S3.x_dtd d)).
  { unfold ge_decls, subset_decls. cbn [S5.g_dtd t_subset u_decls]. apply ge_of_entities. }
  assert (Em : S5.meaning_of (S5.of_s3 d) = S3.meaning_of d).
  { unfold S5.meaning_of, S3.meaning_of, S5.table, S5.of_s3, decls_table, table_of. cbn [S5.x_dtd]. rewrite Eg. reflexivity. }
  assert (Esm : subset_misc (S5.g_dtd {| S5.g_ws0 := S3.x_ws0 d; S5.g_before := S3.x_before d;
                  S5.g_dtd := {| t_ws1 := E.t_ws1 (S3.x_dtd d); t_name := E.t_name (S3.x_dtd d); t_ws2 := E.t_ws2 (S3.x_dtd d); t_ext := None;
                                 t_subset := Some {| u_decls := map SEntity (E.t_decls (S3.x_dtd d)); u_ws3 := E.t_ws3 (S3.x_dtd d); u_ws4 := E.t_ws4 (S3.x_dtd d) |} |} |})
                = []).
  { unfold subset_misc, subset_decls. cbn [S5.g_dtd t_subset u_decls]. apply misc_of_entities. }
  split; [|split; [|split; [|reflexivity]]].
  - unfold S5.wf_doc. rewrite Em. unfold S5.of_s3. cbn [S5.x_decl S5.x_dtd S5.x_main wf_opt andb].
    apply andb_true_iff. split.
    + unfold S5.wf_dtd_part. cbn [S5.g_ws0 S5.g_before S5.g_dtd]. rewrite !andb_true_iff. split; [split; [apply ws_s; exact H0|]|].
      * clear - Hb. induction (S3.x_before d) as [|[i w] r IH]; [reflexivity|]. cbn [forallb fst snd] in *.
        rewrite !andb_true_iff in Hb. destruct Hb as [[[Hi Hw] Hws] Hr]. rewrite (IH Hr), andb_true_r.
        rewrite (misc_s_item (S3.meaning_of d)), Hi, (wf_item_s_of _ _ Hw), (ws_s _ Hws). reflexivity.
      * unfold wf_udtd in Ht. rewrite !andb_true_iff in Ht. destruct Ht as [[[[[T1 Tn] T2] Td] T3] T4].
        unfold wf_doctype. cbn [t_ws1 t_name t_ws2 t_ext t_subset wf_opt]. rewrite !andb_true_iff.
        split; [split; [split; [split; [apply ws1_s1; exact T1|exact Tn]|apply ws_s; exact T2]|reflexivity]|].
        unfold wf_subset. cbn [u_decls u_ws3 u_ws4]. rewrite (ws_s _ T3), (ws_s _ T4), !andb_true_r.
        clear - Td. induction (E.t_decls (S3.x_dtd d)) as [|e r IH]; [reflexivity|]. cbn [forallb map] in *.
        apply andb_true_iff in Td. destruct Td as [He Hr]. rewrite (IH Hr), andb_true_r. cbn [wf_sdecl].
        unfold wf_udecl in He. unfold wf_udecl_s, is_quote. rewrite !andb_true_iff in He |- *.
        destruct He as [[[[[[E0 E1] En] E2] Eq] Ev] E3]. repeat split; try assumption;
          [apply ws_s; exact E0|apply ws1_s1; exact E1|apply ws1_s1; exact E2|apply ws_s; exact E3].
    + unfold wf_doc in Hm. unfold wf_main_s. rewrite !andb_true_iff in Hm |- *.
      destruct Hm as [[[[[M1 M2] M3] M4] M5] M6]. repeat split; try assumption; try (apply ws_s; assumption).
      * clear - M3. induction (d_before (S3.x_main d)) as [|[i w] r IH]; [reflexivity|]. cbn [forallb fst snd] in *.
        rewrite !andb_true_iff in M3. destruct M3 as [[[Hi Hw] Hws] Hr]. rewrite (IH Hr), andb_true_r.
        rewrite (misc_s_item (S3.meaning_of d)), Hi, (wf_item_s_of _ _ Hw), (ws_s _ Hws). reflexivity.
      * destruct (d_root (S3.x_main d)); try discriminate. apply wf_item_s_of. exact M4.
      * clear - M5. induction (d_after (S3.x_main d)) as [|[w i] r IH]; [reflexivity|]. cbn [forallb fst snd] in *.
        rewrite !andb_true_iff in M5. destruct M5 as [[[Hws Hi] Hw] Hr]. rewrite (IH Hr), andb_true_r.
        rewrite (misc_s_item (S3.meaning_of d)), Hi, (wf_item_s_of _ _ Hw), (ws_s _ Hws). reflexivity.
  - unfold S5.render, S3.render, S5.of_s3. cbn [S5.x_bom S5.x_decl S5.x_dtd S5.x_main r_opt app].
    unfold S5.r_dtd_part. cbn [S5.g_ws0 S5.g_before S5.g_dtd]. rewrite <- !app_assoc. f_equal. f_equal. f_equal.
    unfold r_doctype, E.r_dtd, r_subset, enc_dtd.
    cbn [t_ws1 t_name t_ws2 t_ext t_subset r_opt u_decls u_ws3 u_ws4 E.t_ws1 E.t_name E.t_ws2 E.t_decls E.t_ws3 E.t_ws4 app].
    rewrite sentity_render, <- !app_assoc. reflexivity.
  - unfold S5.sem, S3.sem. rewrite Em. unfold S5.prolog_items, S5.of_s3. cbn [S5.x_dtd S5.x_main S5.g_before].
    rewrite Esm, app_nil_r. reflexivity.
Qed.
Print Assumptions s3_in_s5.

(* ------------------------------------------------------------------------------------------ *)
(* the theorems are not vacuous                                                               *)
(* ------------------------------------------------------------------------------------------ *)
Module Example5.
Definition layb ws w1 w2 q := {| CstNs.l_ws := ws; CstNs.l_ws1 := w1; CstNs.l_ws2 := w2; CstNs.l_quote := q |}.
Definition qn (p l : scalars) : qname := {| q_prefix := p; q_local := l |}.
Definition tx (r : list E.epiece) : item epieces := @IText epieces r.
Definition lit cs := E.EP (T.PLit cs).
Definition decl n v : E.edecl :=
  {| E.e_ws0 := [13; 10]; E.e_ws1 := [32]; E.e_name := n; E.e_ws2 := [13]; E.e_quote := 34; E.e_value := E.EText v; E.e_ws3 := [13] |}.
Definition ps ws w1 w2 q v : pseudo := {| p_ws := ws; p_ws1 := w1; p_ws2 := w2; p_quote := q; p_value := v |}.
(* EF BB BF
   <?xml CR version CR = TAB '1.0' LF encoding="UTF-8" CR standalone ='yes' CR ?> CR LF
   <!--c--> CR <!DOCTYPE CR P SP PUBLIC SP "-//A//B" CR 'p.dtd' LF [
   <!-- in the subset -->
   <!ENTITY % u '<b> & %c;'>
   <!ENTITY u SYSTEM "u.ent" NDATA gif>
   <!ELEMENT r (#PCDATA)>
   <!ENTITY u "urn:&P;">                                  (the binding declaration of u)
   <!ENTITY P "P CR">
   <?pi CR in the subset?> CR ] CR >
   <p:P CR xmlns:p CR = CR '&u;' CR LF a= "&P;x" CR > &u; CR LF <c CR /> </p:P CR SP > CR <!--after--> LF      (P = U+540D) *)
Definition ex : S5.doc :=
  {| S5.x_bom := true;
     S5.x_decl := Some {| xd_version := ps [32; 13] [13] [9] 39 (b "1.0"); xd_encoding := Some (ps [10] [] [] 34 (b "UTF-8"));
                          xd_standalone := Some (ps [13] [32] [] 39 (b "yes")); xd_ws := [13] |};
     S5.x_dtd := Some
       {| S5.g_ws0 := [13; 10]; S5.g_before := [(IComment (b "c"), [13])];
          S5.g_dtd := {| t_ws1 := [13]; t_name := [21517]; t_ws2 := [32];
                         t_ext := Some (XPublic [32] 34 (b "-//A//B") [13] 39 (b "p.dtd"), [10]);
                         t_subset := Some
                           {| u_decls := [ SMisc [10] (IComment (b " in the subset "));
                                           SParam [10] [32] [32] (b "u") [32] (PLiteral 39 (b "<b> & %c;")) [];
                                           SExternal [10] [32] (b "u") [32] (XSystem [32] 34 (b "u.ent")) (Some ([32], [32], b "gif")) [];
                                           SMarkup [10] MElement (b " r (#PCDATA)");
                                           SEntity (decl (b "u") [lit (b "urn:"); E.ERef [21517]]);
                                           SEntity (decl [21517] [lit [21517; 13]]);
                                           SMisc [10] (IPI (b "pi") [13] (b "in the subset")) ];
                              u_ws3 := [13]; u_ws4 := [13] |} |} |};
     S5.x_main := {| d_before := []; d_ws0 := [10];
                     d_root := IElem (qn (b "p") [21517])
                                 [@EDecl epieces (layb [13] [13] [13] 39) (b "p") [E.ERef (b "u")];
                                  @EAttr epieces (layb [13; 10] [] [32] 34) (qn [] (b "a")) [E.ERef [21517]; lit (b "x")]] [13]
                                 (Some ([ tx [E.ERef (b "u"); lit [13; 10]]; IElem (qn [] (b "c")) [] [13] None ], [13; 32]));
                     d_after := [([13], IComment (b "after"))]; d_ws_end := [10] |} |}.
Definition opt := {| allow_dtd := true; nodes_limit := default_nodes_limit |}.

Example ex_parses : exists x, parse (S5.render ex) opt = Ok x /\ view (S5.render ex) x = Some (S5.sem ex).
Proof.
  apply parse_render_sem_full_s5.
  - vm_compute. reflexivity.
  - reflexivity.
  - vm_compute. reflexivity.
  - vm_compute. intros H. discriminate H.
  - unfold S5.distinct_decls_le. apply CstFullMain.distinct_by_count.
    remember (length (doc_decls (S5.meaning_of ex) (S5.x_main ex))) as n eqn:En. vm_compute in En. subst n. lia.
  - vm_compute. intros H. discriminate H.
Qed.

Example ex_refused : parse (S5.render ex) {| allow_dtd := false; nodes_limit := default_nodes_limit |} = Err DtdDetected.
Proof.
  apply dtd_refused_full.
  - vm_compute. reflexivity.
  - reflexivity.
  - reflexivity.
  - vm_compute. reflexivity.
  - vm_compute. intros H. discriminate H.
Qed.
End Example5.
Print Assumptions Example5.ex_parses.
Print Assumptions Example5.ex_refused.
