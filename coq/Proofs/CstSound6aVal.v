(* Proofs/CstSound6aVal.v -- C08 soundness on stage S6, markup-valued entities referenced from the body:
   [ValOK] of Proofs/CstSound6aLex.v.  A literal accepted by [markup_ok] without '&' is the rendering of
   the items [snd (build fl)] of a flat list fl (Proofs/CstSound6aFlat.v), well formed inside an entity value,
   and every run of the content tokenizer on its range reads the tokens [ftoks vs fl]. *)
From Coq Require Import String.
From Coq Require Import List Arith NArith Bool Lia ZifyBool ZifyN ZifyNat.
Import ListNotations.
From RX Require Import Generated.
From RX.Model Require Import Base CharClass Stream Tokenizer.
From RX.Spec Require Cst Chars CstU CstNs CstEnt.
From RX.Spec Require Import CstFull CstFullS4 CstFullS5 CstFullS6.
From RX.Proofs Require Import Tactics CstLex CstULex.
From RX.Proofs Require RejectProofs CstEntCLex CstFullS4Lex CstFullTree CstFullS6Text CstSoundBuild CstSound6Val.
From RX.Proofs Require Import CstSound CstSoundLex CstSoundU CstSoundULex CstSoundT CstSoundTLex CstSoundTText CstSoundN CstSoundNLex CstSoundNText.
From RX.Proofs Require Import CstSoundP CstSoundPLex.
From RX.Proofs Require Import CstSound6 CstSound6Lex CstSound6Tok CstSound6U CstSound6a CstSound6aFlat CstSound6aLex CstSound6aDtd.
Open Scope N_scope.

Lemma Frag6a_FragL text : Frag6a text -> FragL text.
Proof. intros [A B0 C0 D E F G H I _ _ _ _ _ _ _]. constructor; assumption. Qed.

Theorem val_ok6a text : Frag6a text -> ValOK text.
Proof.
  intros HF vs cs y tail HWV Hvs Hy Hu Hm H38 H60. pose proof (CstULex.WV_W text _ _ HWV) as HW.
  unfold markup_ok in Hm.
  destruct (stream_from_substr_ws text vs (utf8s cs) ([y] ++ tail) HW) as (Es & _). rewrite Es in Hm.
  destruct (parse_content text bst (bal_ev text) _ (None, [])) as [[s' [o stF]]| | |] eqn:Ep; try discriminate.
  destruct o; [discriminate|]. destruct stF; [|discriminate]. clear Hm.
  unfold parse_content in Ep.
  set (en := vs + blen (utf8s cs)) in *. set (tl := [y] ++ tail) in *.
  set (s0 := CstTextLex.sst en vs (utf8s cs ++ tl)) in *.
  (* the run that also records the tokens *)
  set (fuel := S (length (s_rest s0))) in *.
  assert (EP : exists lg, parse_content_loop text pst (pev text) fuel 0 s0 ([], (None, [])) = Ok (s', (lg, (None, [])))).
  { pose proof (rel_content_loop text bst pst (bal_ev text) (pev text) (fun b0 q => snd q = b0)) as HR.
    assert (Hev : forall tk c1 c2 c1', snd c2 = c1 -> bal_ev text tk c1 = Ok c1' -> exists c2', pev text tk c2 = Ok c2' /\ snd c2' = c1').
    { intros tk c1 c2 c1' <- E. unfold pev. rewrite E. cbn [bind]. eexists. split; reflexivity. }
    destruct (HR Hev fuel 0 s0 (None, []) ([], (None, [])) eq_refl s' (None, []) Ep) as ([lg b0] & E & Eb). cbn [snd] in Eb. subst b0.
    exists lg. exact E. }
  destruct EP as (lg & EP).
  change s0 with (CstEntCLex.st en tl vs (utf8s cs)) in EP.
  assert (HWV6 : CstSound6Lex.WV text en tl vs (utf8s cs)).
  { split; [split; [exact HWV|reflexivity]|apply Valid_uchars; exact Hu]. }
  assert (Hxml : forall p r, CstEntCLex.W text en tl p r -> 3 < p -> xml_at r = true).
  { intros p r [HWp _] Hp. apply (CstSound6Val.xml_at_cut r y tail Hy).
    apply (CstSound6aDtd.xml_at_pos text HF p _ HWp). unfold CstSound6aDtd.bom_len. destruct (prefix_b [239; 187; 191] text); lia. }
  assert (H38' : Forall (fun z => z <> 38) (utf8s cs)) by (apply mem_b_Forall; exact H38).
  destruct (content_flat text (Frag6a_FragL _ HF) en tl Hxml _ _ _ _ _ _ _ [] [] HWV6 Hvs H38' eq_refl eq_refl EP eq_refl)
    as (fl & Efl & Hok & Elg & (E1 & E2 & _ & [A B0] & _) & Hbal).
  cbn [fst app] in Elg. subst lg.
  destruct (build fl) as [lv last] eqn:Eb. cbn [fst snd] in *. destruct lv; [|discriminate]. cbn [CstSound6Val.r_lv] in E2.
  exists last. split; [symmetry; exact E2|]. split; [exact A|]. split; [exact B0|].
  split; [rewrite <- E2; exact H60|]. split; [rewrite <- E2; exact H38|].
  exists fl. split; [exact Eb|]. split; [exact Hok|]. split; [exact Hbal|]. split; [rewrite <- Efl; exact E2|].
  intros es Hes. rewrite <- E2 in Hes. fold en in Hes. rewrite Es in Hes. injection Hes as <-.
  pose proof (rel_content_loop text pst (list token) (pev text) ev_log (fun q l => l = fst q)) as HR.
  assert (Hev : forall tk c1 (c2 : list token) c1', c2 = fst c1 -> pev text tk c1 = Ok c1' -> exists c2', ev_log tk c2 = Ok c2' /\ c2' = fst c1').
  { intros tk c1 c2 c1' -> E. destruct (pev_inv _ _ _ _ E) as [_ E']. unfold ev_log. eexists. split; [reflexivity|]. symmetry. exact E'. }
  destruct (HR Hev fuel 0 s0 ([], (None, [])) [] eq_refl s' _ EP) as (l' & E & El). cbn [fst] in El. subst l'.
  exists s'. unfold parse_content. exact E.
Qed.
Print Assumptions val_ok6a.
