(* BudgetBytesAcct.v -- C09, bytes: the accounting, parallel to BudgetAcct.v with the
   potential B (text and attribute value bytes) in place of the node count. *)
From Coq Require Import Ascii String.
From Coq Require Import Lia ZifyBool ZifyN ZifyNat.
From RX Require Import Generated.
From RX.Model Require Import Base CharClass Stream Tokenizer Doc Builder Parse.
From RX.Proofs Require Import Tactics OptionsParam OptionsBuild BudgetStream BudgetBuild
  BudgetAcct BudgetBytesBuild BudgetBytesTok.

Section Acct.
Variable text : bytes.
Notation T := (tlen text).
Notation wfl := (wfl text).
Notation mvk := (mvk text).
Notation A := (A text).
Notation B := (B text).
Notation sz := BudgetBytesBuild.sz.

(** * References *)

Lemma consume_bytes_nonempty f s sl s' x r : consume_bytes text f s = Ok (sl, s') -> wfl s ->
  slice_bytes text sl = x :: r -> mvk 1 s s'.
Proof.
  intros H W Hne. pose proof (mv_consume_bytes _ _ _ _ _ H W) as (W' & E & P).
  unfold consume_bytes in H. bsteps. apply slice_back_spec in Hb. destruct Hb as (Ha & He & _).
  unfold slice_bytes, sub in Hne. rewrite Ha, He in Hne.
  split; [assumption|]. split; [assumption|].
  destruct (N.eq_dec (s_pos (skip_bytes f s) - s_pos s) 0) as [Z|Z]; [|lia].
  rewrite Z in Hne. discriminate.
Qed.

(* the bytes a character reference yields are paid by the bytes it consumed *)
Lemma ref_char_len s ch s' : consume_reference text s = Ok (Some (RefChar ch, s')) -> wfl s ->
  wfl s' /\ s_end s' = s_end s /\ s_pos s + blen (encode_utf8 ch) <= s_pos s'.
Proof.
  intros H W. pose proof (encode_utf8_len ch) as H4.
  pose proof (mv_consume_reference _ _ _ _ H W) as (W' & E' & P').
  split; [assumption|]. split; [assumption|].
  unfold consume_reference in H. bsteps;
  repeat match goal with
  | W0 : BudgetStream.wfl _ ?s, H : try_consume_byte _ ?s = (_, _) |- _ => fwdm H mv_try_consume_byte
  | W0 : BudgetStream.wfl _ ?s, H : consume_bytes _ _ ?s = Ok _, E : slice_bytes _ _ = _ :: _ |- _ =>
    eapply consume_bytes_nonempty in H; [ | eassumption | exact E ];
    unfold BudgetStream.mvk in H; destruct H as (? & ? & ?)
  | W0 : BudgetStream.wfl _ ?s, H : consume_byte _ _ ?s = Ok _ |- _ => fwdm H mv_consume_byte
  end;
  repeat match goal with b : bool |- _ => destruct b end; try discriminate; try lia.
  (* named references: one byte *)
  all: repeat match goal with
       | H : (if ?b then _ else _) = RefChar _ |- _ => destruct b
       | H : RefChar _ = RefChar _ |- _ => inversion H; subst; clear H
       | H : RefEntity _ = RefChar _ |- _ => discriminate H
       end; try (change (blen (encode_utf8 _)) with 1; lia).
Qed.

Lemma pnc_char s ents cp s1 : parse_next_chunk text s ents = Ok (ChChar cp, s1) -> wfl s ->
  s_pos s + blen (encode_utf8 cp) <= s_pos s1.
Proof.
  unfold parse_next_chunk. intros H W. bsteps.
  eapply ref_char_len in Hb0; [|eassumption]. tauto.
Qed.

(** * Attribute values *)

Section NA.
Variable rec : slice -> text_buffer -> loop_detector -> res (text_buffer * loop_detector).
Variable entities : list entity.
(* nested values start at depth >= 1 and are charged to the counter *)
Hypothesis Hrec : forall v t ld t' ld', rec v t ld = Ok (t', ld') -> ldok ld -> 1 <= ld_depth ld ->
  ldle ld ld' /\ sl_end v <= sl_start v + T /\
  sz t' + sl_start v + T * ld_references ld <= sz t + sl_end v + T * ld_references ld'.

Lemma na_loop_budget K fuel : forall s t ld t' ld',
  na_loop text rec entities fuel s t ld = Ok (t', ld') ->
  wfl s -> ldok ld -> (ld_depth ld = 0 -> 256 * T <= K) ->
  ldle ld ld' /\
  sz t' + s_pos s + T * ld_references ld + K * A (s_pos s)
    <= sz t + s_end s + T * ld_references ld' + K * A (s_end s).
Proof.
  induction fuel; intros s t ld t' ld' H W Hok HK; [discriminate|].
  cbn [na_loop] in H.
  destruct (at_end s) eqn:He.
  { inversion H; subst. unfold at_end in He. destruct W as (_ & ? & _).
    replace (s_end s) with (s_pos s) by lia. split; [apply ldle_refl; assumption|lia]. }
  apply bind_ok in H. destruct H as [x [Hx H]]. cbv beta in H.
  destruct (negb (x =? 38)) eqn:E38.
  - (* a literal byte *)
    destruct (_ && _); [exfalso; eapply err_at_not_ok; eauto|].
    apply bind_ok in H. destruct H as [s1 [Hadv H]]. cbv beta in H.
    pose proof (mv_advance _ _ _ _ Hadv W) as (W1 & E1 & P1).
    apply IHfuel in H; try assumption. destruct H as [Hle Hn].
    pose proof (sz_push_from_attr x (curr_byte_opt s1) t).
    pose proof (KA_mono text K (s_pos s) (s_pos s1) ltac:(lia)).
    rewrite E1 in Hn. split; [assumption|lia].
  - (* a reference *)
    assert (x = 38) by lia. subst x.
    destruct (wfl_curr text _ _ W Hx) as [rr Hamp].
    cbv zeta in H. apply bind_ok in H. destruct H as [r [Href H]]. cbv beta in H.
    destruct r as [[[name|ch] s1]|]; [ | | exfalso; eapply err_from_not_ok; eauto].
    + (* entity *)
      pose proof (mv_consume_reference _ _ _ _ Href W) as (W1 & E1 & P1).
      destruct (find_entity text entities (slice_bytes text name)) as [e|];
        [|exfalso; eapply err_from_not_ok; eauto].
      apply bind_ok in H. destruct H as [ld1 [Hir H]]. cbv beta in H.
      apply bind_ok in H. destruct H as [ld2 [Hid H]]. cbv beta in H.
      apply bind_ok in H. destruct H as [[t2 ld3] [Hrun H]]. cbv beta iota in H.
      assert (Hld2 : ld2 = {| ld_depth := ld_depth ld1 + 1; ld_references := ld_references ld1 |})
        by (eapply inc_depth_spec; eauto).
      assert (Hok2 : ldok ld2).
      { subst ld2. pose proof (inc_references_spec _ _ _ _ Hir) as Hs.
        destruct Hok as [Hr Hz]. unfold ldok.
        destruct Hs as [[Hd0 ->]|(Hd0 & Hr0 & ->)]; cbn [ld_depth ld_references]; lia. }
      apply Hrec in Hrun; [ | assumption | subst ld2; cbn [ld_depth]; lia ].
      destruct Hrun as ((Hd3 & Hr3 & Hok3) & Hpf & Hcost).
      destruct (expansion_cost text _ _ _ _ _ _ _ _ _ _ Hok Hir Hid Hd3 Hr3 Hok3 Hpf Hcost)
        as [Hle Hexp].
      apply IHfuel in H; try assumption.
      * destruct H as [Hle' Hn]. split; [eapply ldle_trans; eassumption|].
        pose proof (KA_step text K _ (s_pos s1) _ Hamp ltac:(lia)) as HKA.
        rewrite E1 in Hn.
        destruct (ld_depth ld =? 0) eqn:Ez.
        -- assert (256 * T <= K) by (apply HK; lia). lia.
        -- lia.
      * apply Hle.
      * destruct Hle as (Hd & _). rewrite Hd. exact HK.
    + (* character *)
      pose proof (ref_char_len _ _ _ Href W) as (W1 & E1 & P1).
      destruct (push_char_bytes_attr (encode_utf8 ch) (0 <? ld_depth ld) t) as [t1|] eqn:Ep;
        [|exfalso; eapply err_from_not_ok; eauto].
      apply sz_push_chars_attr in Ep.
      apply IHfuel in H; try assumption. destruct H as [Hle Hn].
      pose proof (KA_mono text K (s_pos s) (s_pos s1) ltac:(lia)).
      rewrite E1 in Hn. split; [assumption|lia].
Qed.
End NA.

Lemma norm_attr_budget lvl : forall K entities v t ld t' ld',
  norm_attr_lvl text lvl entities v t ld = Ok (t', ld') ->
  ldok ld -> (ld_depth ld = 0 -> 256 * T <= K) ->
  ldle ld ld' /\ sl_start v <= sl_end v /\ sl_end v <= T /\
  sz t' + sl_start v + T * ld_references ld + K * A (sl_start v)
    <= sz t + sl_end v + T * ld_references ld' + K * A (sl_end v).
Proof.
  induction lvl; intros K entities v t ld t' ld' H Hok HK; [discriminate|].
  rewrite norm_attr_lvl_S in H. apply bind_ok in H. destruct H as [s0 [Hs0 H]]. cbv beta in H.
  apply wfl_from_substr in Hs0. destruct Hs0 as (W0 & Ea & Ee).
  assert (Hrec : forall v0 t0 ld0 t0' ld0', norm_attr_lvl text lvl entities v0 t0 ld0 = Ok (t0', ld0') ->
            ldok ld0 -> 1 <= ld_depth ld0 ->
            ldle ld0 ld0' /\ sl_end v0 <= sl_start v0 + T /\
            sz t0' + sl_start v0 + T * ld_references ld0 <= sz t0 + sl_end v0 + T * ld_references ld0').
  { intros v0 t0 ld0 t0' ld0' Hr Hok0 Hd0.
    apply (IHlvl 0) in Hr; [ | assumption | lia ].
    destruct Hr as (Hle & ? & ? & Hn). rewrite !N.mul_0_l, !N.add_0_r in Hn.
    split; [assumption|]. split; [lia|assumption]. }
  apply (na_loop_budget _ _ Hrec K) in H; try assumption.
  destruct H as [Hle Hn]. rewrite Ea, Ee in Hn. destruct W0 as (_ & ? & ?).
  split; [assumption|]. split; [lia|]. split; [lia|assumption].
Qed.

(** * The budget invariant, for bytes *)

Definition BIB (K p0 : N) (c0 : context) (p : N) (c : context) : Prop :=
  p0 <= p /\ dp c = dp c0 /\ rf c0 <= rf c /\ ldok (c_ld c) /\
  B c + p0 + T * rf c0 + K * A p0 <= B c0 + p + T * rf c + K * A p.

Lemma BIB_refl K p c : ldok (c_ld c) -> BIB K p c p c.
Proof. unfold BIB. intros. split; [lia|]. split; [reflexivity|]. split; [lia|]. split; [assumption|lia]. Qed.

Lemma BIB_mono K p0 c0 p p' c : p <= p' -> BIB K p0 c0 p c -> BIB K p0 c0 p' c.
Proof.
  unfold BIB. intros Hp (H1 & H2 & H3 & H4 & H5). pose proof (KA_mono text K p p' Hp).
  split; [lia|]. split; [assumption|]. split; [assumption|]. split; [assumption|lia].
Qed.

(* an attribute token: the value slice pays for the stored value *)
Lemma attribute_budget K r q e p l v c c' :
  process_attribute text r q e p l v c = Ok c' ->
  ldok (c_ld c) -> (dp c = 0 -> 256 * T <= K) -> sl_start v <= sl_end v ->
  dp c' = dp c /\ rf c <= rf c' /\ ldok (c_ld c') /\
  B c' + sl_start v + T * rf c + K * A (sl_start v)
    <= B c + sl_end v + T * rf c' + K * A (sl_end v).
Proof.
  unfold process_attribute. intros H Hok HK Hv.
  apply bind_ok in H. destruct H as [[val c1] [Hnorm H]]. cbv beta iota zeta in H.
  (* the normalised value *)
  assert (Hn : dp c1 = dp c /\ rf c <= rf c1 /\ ldok (c_ld c1) /\
               BudgetBytesBuild.kinds c1 = BudgetBytesBuild.kinds c /\
               c_after_text c1 = c_after_text c /\ c_cur_attrs c1 = c_cur_attrs c /\
               d_attrs (c_doc c1) = d_attrs (c_doc c) /\ c_doc c1 = c_doc c /\
               c_ns_start_idx c1 = c_ns_start_idx c /\
               blen (storage_bytes text val) + sl_start v + T * rf c + K * A (sl_start v)
                 <= sl_end v + T * rf c1 + K * A (sl_end v)).
  { unfold normalize_attribute in Hnorm.
    pose proof (KA_mono text K (sl_start v) (sl_end v) Hv).
    destruct (existsb _ _).
    - apply bind_ok in Hnorm. destruct Hnorm as [[t ld] [Hrun Hnorm]]. cbv beta iota in Hnorm.
      apply bind_ok in Hnorm. destruct Hnorm as [bs [Hfin Hnorm]]. inversion Hnorm; subst.
      apply (norm_attr_budget _ K) in Hrun; [ | assumption | exact HK ].
      destruct Hrun as ((Hd & Hr & Hok1) & _ & _ & Hcost).
      apply sz_finish in Hfin. rewrite sz_new in Hcost.
      unfold dp, rf, BudgetBytesBuild.kinds. cproj. cbn [storage_bytes].
      repeat split; try assumption; try reflexivity; try apply Hok1; lia.
    - inversion Hnorm; subst. cbn [storage_bytes str_bytes].
      pose proof (slice_bytes_len text v).
      repeat split; try reflexivity; try lia; apply Hok. }
  destruct Hn as (Hd & Hr & Hok1 & Hk & Hat & Hca & Hda & Hdoc & Hns & Hcost).
  assert (Hsame : forall d', d_nodes d' = d_nodes (c_doc c1) -> d_attrs d' = d_attrs (c_doc c1) ->
            B (set_doc c1 d') = B c).
  { intros d' H1 H2. unfold BudgetBytesBuild.B, Pt, Va, BudgetBytesBuild.kinds in *. cproj.
    rewrite H1, H2, Hat, Hca, Hda. rewrite Hk. reflexivity. }
  assert (HBc1 : B c1 = B c).
  { unfold BudgetBytesBuild.B, Pt, Va in *. rewrite Hk, Hat, Hca, Hda. reflexivity. }
  usteps;
  repeat match goal with
  | H : push_ns _ _ _ _ = Ok _ |- _ =>
    pose proof (push_ns_nodes _ _ _ _ _ H); apply push_ns_attrs in H
  end;
  unfold dp, rf in *; cproj;
  try (rewrite Hsame by assumption);
  try rewrite HBc1;
  try (split; [assumption|]; split; [assumption|]; split; [assumption|]; lia).
  (* an ordinary attribute *)
  split; [assumption|]. split; [assumption|]. split; [assumption|].
  unfold BudgetBytesBuild.B, Pt, Va, BudgetBytesBuild.kinds in *. cproj.
  rewrite curval_app. cbn [curval fold_right ta_value].
  rewrite Hk, Hat, Hca, Hda in *. lia.
Qed.

(** * process_text *)

Section PT.
Variable pc : stream -> context -> res (stream * context).
Hypothesis Hpc : forall s c s' c', pc s c = Ok (s', c') -> wfl s -> 1 <= dp c -> ldok (c_ld c) ->
  mvk 0 s s' /\ BIB 0 (s_pos s) c (s_pos s') c'.

(* B only looks at the document, the open run and the pending attributes *)
Lemma B_frame c c' : c_doc c' = c_doc c -> c_after_text c' = c_after_text c ->
  c_cur_attrs c' = c_cur_attrs c -> B c' = B c.
Proof.
  intros H1 H2 H3. unfold BudgetBytesBuild.B, Pt, Va, BudgetBytesBuild.kinds.
  rewrite H1, H2, H3. reflexivity.
Qed.

Lemma pt_loop_bytes K r fuel : forall s buf c buf' c',
  pt_loop text pc r fuel s buf c = Ok (buf', c') ->
  wfl s -> ldok (c_ld c) -> (dp c = 0 -> 256 * T <= K) ->
  dp c' = dp c /\ rf c <= rf c' /\ ldok (c_ld c') /\
  B c' + sz buf' + s_pos s + T * rf c + K * A (s_pos s)
    <= B c + sz buf + s_end s + T * rf c' + K * A (s_end s).
Proof.
  induction fuel; intros s buf c buf' c' H W Hok HK; [discriminate|].
  cbn [pt_loop] in H.
  destruct (at_end s) eqn:He.
  { inversion H; subst. unfold at_end in He. destruct W as (_ & ? & _).
    replace (s_end s) with (s_pos s) by lia.
    split; [reflexivity|]. split; [lia|]. split; [assumption|lia]. }
  apply bind_ok in H. destruct H as [[ch s1] [Hch H]]. cbv beta iota in H.
  destruct (pnc_spec text _ _ _ _ Hch W) as [(W1 & E1 & P1) Hc].
  assert (Hend : s_pos s1 <= s_end s) by (destruct W1 as (_ & ? & _); lia).
  pose proof (KA_mono text K (s_pos s) (s_pos s1) ltac:(lia)) as HKm.
  destruct ch as [x|cp|value].
  - apply IHfuel in H; try assumption. destruct H as (? & ? & ? & Hn).
    pose proof (sz_push_from_text x buf).
    rewrite E1 in Hn. split; [assumption | split; [assumption | split; [assumption | lia]]].
  - apply IHfuel in H; try assumption. destruct H as (? & ? & ? & Hn).
    pose proof (sz_push_chars_text (encode_utf8 cp) (0 <? ld_depth (c_ld c)) buf).
    pose proof (pnc_char _ _ _ _ Hch W).
    rewrite E1 in Hn. split; [assumption | split; [assumption | split; [assumption | lia]]].
  - destruct Hc as [P2 [rr Hamp]].
    apply bind_ok in H. destruct H as [ca [Hflush H]]. cbv beta in H.
    assert (Hca : B ca <= B c + sz buf /\ c_ld ca = c_ld c).
    { destruct (negb (tb_is_empty buf)) eqn:Eb.
      - apply bind_ok in Hflush. destruct Hflush as [bs [Hfin Hf]].
        pose proof (B_append_text text _ _ _ _ Hf) as [Hf1 Hf2].
        cbn [cow_bytes] in Hf1. apply sz_finish in Hfin. split; [lia|assumption].
      - inversion Hflush; subst. split; [lia|reflexivity]. }
    destruct Hca as (Hn1 & Hld).
    apply bind_ok in H. destruct H as [ld1 [Hir H]]. cbv beta in H.
    apply bind_ok in H. destruct H as [ld2 [Hid H]]. cbv beta zeta in H.
    apply bind_ok in H. destruct H as [es [Hes H]]. cbv beta in H.
    apply bind_ok in H. destruct H as [[es' c2] [Hrun H]]. cbv beta iota in H.
    destruct (negb (len_N (c_parent_prefixes c2) =? c_entity_floor c2)); [discriminate|].
    apply wfl_from_substr in Hes. destruct Hes as (Wes & Ea & Ee).
    assert (Hok_a : ldok (c_ld ca)) by (rewrite Hld; exact Hok).
    assert (Hld2 : ld2 = {| ld_depth := ld_depth ld1 + 1; ld_references := ld_references ld1 |})
      by (eapply inc_depth_spec; eauto).
    assert (Hok2 : ldok ld2).
    { subst ld2. pose proof (inc_references_spec _ _ _ _ Hir) as Hs.
      destruct Hok_a as [Hr Hz]. unfold ldok.
      destruct Hs as [[Hd0 ->]|(Hd0 & Hr0 & ->)]; cbn [ld_depth ld_references]; lia. }
    apply Hpc in Hrun; try assumption;
      [ | unfold dp; cproj; subst ld2; cbn [ld_depth]; lia ].
    destruct Hrun as [(Wes' & Ees' & Pes') (Hp0 & Hdp & Hrf & Hok_2 & Hcost)].
    rewrite (B_frame ca (set_entity_floor _ _)) in Hcost by reflexivity.
    unfold dp, rf in Hdp, Hrf, Hcost. cproj.
    assert (Hpf : s_pos es' <= s_pos es + T).
    { destruct Wes' as (_ & ? & ?). lia. }
    rewrite !N.mul_0_l, !N.add_0_r in Hcost.
    destruct (expansion_cost text _ _ _ _ _ _ _ _ _ _ Hok_a Hir Hid Hdp Hrf Hok_2 Hpf Hcost)
      as [Hle Hexp].
    apply IHfuel in H; try assumption.
    + destruct H as (Hd' & Hr' & Hok' & Hn).
      rewrite (B_frame c2 (set_ld _ _)) in Hn by reflexivity.
      unfold dp, rf in Hd', Hr', Hn |- *. cproj.
      destruct Hle as (Hd3 & Hr3 & Hok3).
      pose proof (KA_step text K _ (s_pos s1) _ Hamp ltac:(lia)) as HKA.
      rewrite E1, sz_new in Hn. rewrite Hld in *.
      split; [lia|]. split; [lia|]. split; [assumption|].
      destruct (ld_depth (c_ld c) =? 0) eqn:Ez.
      * assert (256 * T <= K) by (apply HK; unfold dp; lia). lia.
      * lia.
    + unfold dp. cproj. exact (proj2 (proj2 Hle)).
    + unfold dp. cproj. destruct Hle as (Hd3 & _). rewrite Hd3, Hld. exact HK.
Qed.

Lemma process_text_bytes K t r c c' :
  process_text_with text pc t r c = Ok c' ->
  sl_start t = fst r -> sl_end t = snd r -> fst r < snd r ->
  ldok (c_ld c) -> (dp c = 0 -> 256 * T <= K) ->
  dp c' = dp c /\ rf c <= rf c' /\ ldok (c_ld c') /\
  B c' + fst r + T * rf c + K * A (fst r) <= B c + snd r + T * rf c' + K * A (snd r).
Proof.
  rewrite process_text_with_eq. intros H Ht1 Ht2 Hr Hok HK.
  pose proof (KA_mono text K (fst r) (snd r) ltac:(lia)) as HA.
  destruct (negb (existsb _ _)).
  - pose proof (B_append_text text _ _ _ _ H) as (Hn & Hld). cbn [cow_bytes] in Hn.
    pose proof (slice_bytes_len text t). unfold dp, rf. rewrite Hld.
    split; [reflexivity|]. split; [lia|]. split; [assumption|lia].
  - apply bind_ok in H. destruct H as [s0 [Hs0 H]]. cbv beta in H.
    apply bind_ok in H. destruct H as [[buf c1] [Hloop H]]. cbv beta iota in H.
    apply wfl_from_substr in Hs0. destruct Hs0 as (W0 & Ea & Ee).
    apply (pt_loop_bytes K) in Hloop; try assumption.
    destruct Hloop as (Hd & Hrf & Hok1 & Hn). rewrite Ea, Ee, sz_new in Hn.
    assert (Hc' : B c' <= B c1 + sz buf /\ c_ld c' = c_ld c1).
    { destruct (negb (tb_is_empty buf)) eqn:Eb.
      - apply bind_ok in H. destruct H as [bs [Hfin Hf]].
        pose proof (B_append_text text _ _ _ _ Hf) as [Hf1 Hf2].
        cbn [cow_bytes] in Hf1. apply sz_finish in Hfin. split; [lia|assumption].
      - inversion H; subst. split; [lia|reflexivity]. }
    destruct Hc' as (? & Hld). unfold dp, rf in *. rewrite Hld.
    split; [assumption|]. split; [assumption|]. split; [assumption|lia].
Qed.

(** * One token *)

Lemma token_bytes_r K p0 c0 tk r c c' p :
  (dp c0 = 0 -> 256 * T <= K) ->
  tok_range tk = Some r -> tok_ok tk ->
  token_with text (process_text_with text pc) tk c = Ok c' ->
  BIB K p0 c0 p c -> p <= fst r -> fst r < snd r -> BIB K p0 c0 (snd r) c'.
Proof.
  intros HK Htr Htok H (Hp0 & Hdp & Hrf & Hok & Hn) Hp Hr.
  pose proof (KA_mono text K p (snd r) ltac:(lia)) as HA.
  (* a token that does not add bytes and keeps the detector *)
  assert (Hfree : B c' <= B c -> c_ld c' = c_ld c -> BIB K p0 c0 (snd r) c').
  { intros H1 Hld. unfold BIB, dp, rf in *. rewrite Hld.
    split; [lia|]. split; [assumption|]. split; [assumption|]. split; [assumption|lia]. }
  destruct tk; cbn [tok_range] in Htr; inversion Htr; subst; cbn [token_with tok_ok] in *.
  - (* PI *) usteps. pose proof (B_reset_after_text text _ _ Hb) as (H1 & H2 & H3).
    pose proof (append_node_view _ _ _ _ _ Hb0) as (Hk & Ha & Hc & Hd & Hl).
    apply Hfree; [|congruence].
    unfold BudgetBytesBuild.B, Pt, Va in *. rewrite Hk, Ha, Hc, Hd, H3 in *.
    rewrite tl_app. cbn [fragsum fold_right tl klen] in *. lia.
  - (* Comment *) usteps. pose proof (B_reset_after_text text _ _ Hb) as (H1 & H2 & H3).
    pose proof (append_node_view _ _ _ _ _ Hb0) as (Hk & Ha & Hc & Hd & Hl).
    apply Hfree; [|congruence].
    unfold BudgetBytesBuild.B, Pt, Va in *. rewrite Hk, Ha, Hc, Hd, H3 in *.
    rewrite tl_app. cbn [fragsum fold_right tl klen] in *. lia.
  - (* Attribute *)
    destruct Htok as (Hv1 & Hv2 & Hv3).
    apply (attribute_budget K) in H; try assumption; [|rewrite Hdp; exact HK].
    destruct H as (Hd' & Hr' & Hok' & Hn').
    pose proof (KA_mono text K p (sl_start value) ltac:(lia)).
    pose proof (KA_mono text K (sl_end value) (snd r) ltac:(lia)).
    unfold BIB. split; [lia|]. split; [lia|]. split; [lia|]. split; [assumption|lia].
  - (* ElementEnd *) usteps. pose proof (B_reset_after_text text _ _ Hb) as (H1 & H2 & H3).
    pose proof (B_process_element text _ _ _ _ H H3) as (H4 & H5).
    apply Hfree; [lia|congruence].
  - (* Text *)
    destruct Htok as (Ht1 & Ht2).
    apply (process_text_bytes K) in H; try assumption; [|rewrite Hdp; exact HK].
    destruct H as (Hd' & Hr' & Hok' & Hn').
    pose proof (KA_mono text K p (fst r) Hp).
    unfold BIB. split; [lia|]. split; [lia|]. split; [lia|]. split; [assumption|lia].
  - (* Cdata *)
    destruct Htok as (Ht1 & Ht2).
    pose proof (B_process_cdata text _ _ _ _ H) as (H1 & Hld).
    pose proof (slice_bytes_len text text0).
    unfold BIB, dp, rf in *. rewrite Hld.
    split; [lia|]. split; [assumption|]. split; [assumption|]. split; [assumption|lia].
Qed.

Lemma token_bytes_0 K p0 c0 tk c c' p :
  tok_range tk = None ->
  token_with text (process_text_with text pc) tk c = Ok c' ->
  BIB K p0 c0 p c -> BIB K p0 c0 p c'.
Proof.
  intros Htr H (Hp0 & Hdp & Hrf & Hok & Hn).
  assert (Hfree : B c' <= B c -> c_ld c' = c_ld c -> BIB K p0 c0 p c').
  { intros H1 Hld. unfold BIB, dp, rf in *. rewrite Hld.
    split; [lia|]. split; [assumption|]. split; [assumption|]. split; [assumption|lia]. }
  destruct tk; cbn [tok_range] in Htr; try discriminate; cbn [token_with] in H.
  - (* EntityDecl *) inversion H; subst. apply Hfree; [|reflexivity].
    rewrite (B_frame c (set_entities _ _)) by reflexivity. lia.
  - (* ElementStart *) usteps. pose proof (B_reset_after_text text _ _ Hb) as (H1 & H2 & H3).
    apply Hfree; [|exact H2]. rewrite (B_frame a (set_tag_name _ _)) by reflexivity. lia.
Qed.

End PT.

End Acct.
