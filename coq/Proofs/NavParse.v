(* Proofs/NavParse.v -- the navigation theorems on the result of [parse]: a parsed document is
   the arena of a well-formed document tree, hence ids are dense and in pre-order, descendants
   are contiguous id ranges, children iterate in both directions over the same list, the root
   element exists, and the whole navigation API is total (no panic) on every node id. *)
From Coq Require Import List PeanoNat NArith Bool Lia ZifyBool ZifyN ZifyNat.
From RX.Model Require Import Base Doc Builder Parse Api.
From RX.Spec Require Import Tree Deque.
From RX.Proofs Require Import NavEnc NavLinks NavIter NavAxes NavElem.
From RX.Proofs Require KeystoneBuilder KeystoneParseWf OptionsMain.
Import ListNotations.
Open Scope N_scope.

(* the two developments use the same abstraction of a node row *)
Lemma links_of_nodes_same ns : KeystoneBuilder.links_of_nodes ns = links_of_nodes ns.
Proof. reflexivity. Qed.

Lemma links_len ns t : links_of_nodes ns = encode t -> len_N ns = size t.
Proof.
  intros H. unfold len_N.
  assert (E : length ns = length (encode t)).
  { rewrite <- H. unfold links_of_nodes. rewrite map_length. reflexivity. }
  rewrite E, encode_length. lia.
Qed.

(* ------------------------------------------------------------------ *)
(* 1. a parsed document is an arena *)
Theorem parse_arena' : forall text opt d,
  parse text opt = Ok d -> len_N (d_nodes d) <= 4294967295 ->
  exists t, Arena' d t /\ wf_doc_tree t.
Proof.
  intros text opt d H Hb.
  destruct (KeystoneParseWf.parse_wf_doc_tree _ _ _ H) as (t & H1 & H2).
  rewrite links_of_nodes_same in H1.
  exists t. split; [|exact H2]. split; [exact H1|].
  rewrite <- (links_len _ _ H1). exact Hb.
Qed.
Print Assumptions parse_arena'.

Theorem parse_arena : forall text opt d,
  parse text opt = Ok d -> len_N (d_nodes d) < 4294967295 ->
  exists t, Arena d t /\ wf_doc_tree t.
Proof.
  intros text opt d H Hb.
  destruct (KeystoneParseWf.parse_wf_doc_tree _ _ _ H) as (t & H1 & H2).
  rewrite links_of_nodes_same in H1.
  exists t. split; [|exact H2]. split; [exact H1|].
  rewrite <- (links_len _ _ H1). exact Hb.
Qed.
Print Assumptions parse_arena.

(* the bound holds whenever the nodes limit is a u32, in particular for the default options *)
Theorem parse_len_bound : forall text dtd lim d,
  parse text (OptionsMain.opts dtd lim) = Ok d -> lim <= 4294967295 ->
  len_N (d_nodes d) <= 4294967295.
Proof.
  intros text dtd lim d H Hl. pose proof (OptionsMain.limit_caps _ _ _ _ H). lia.
Qed.
Print Assumptions parse_len_bound.

Theorem parse_default_len_bound : forall text d,
  parse_default text = Ok d -> len_N (d_nodes d) <= 4294967295.
Proof.
  intros text d H. unfold parse_default in H. rewrite OptionsMain.default_options_are in H.
  apply (parse_len_bound _ _ _ _ H). lia.
Qed.
Print Assumptions parse_default_len_bound.

Theorem parse_default_arena : forall text d,
  parse_default text = Ok d -> exists t, Arena' d t /\ wf_doc_tree t.
Proof.
  intros text d H. apply (parse_arena' text default_options d H).
  apply (parse_default_len_bound _ _ H).
Qed.
Print Assumptions parse_default_arena.

(* ------------------------------------------------------------------ *)
(* helpers *)
Lemma in_table_lt t id : id < size t -> exists par s, In (id, par, s) (table t).
Proof.
  intros Hlt.
  assert (Hin : In id (map (fun e : N * option N * tree => fst (fst e)) (table t))).
  { rewrite table_ids. apply N_range_In. lia. }
  apply in_map_iff in Hin. destruct Hin as ([[i par] s] & E & Hin). cbn [fst] in E. subst i.
  eauto.
Qed.

Lemma arena'_row d t id :
  Arena' d t -> id < len_N (d_nodes d) -> exists par s, In (id, par, s) (table t).
Proof.
  intros HA Hlt. apply in_table_lt. rewrite <- (arena_len _ _ HA). exact Hlt.
Qed.

Lemma kind_eqb_eq a b : kind_eqb a b = true -> a = b.
Proof. destruct a, b; cbn [kind_eqb]; congruence. Qed.

Lemma count_one_exists k cs : count_kind k cs = 1%nat -> exists c, In c cs /\ tkind c = k.
Proof.
  unfold count_kind. intros H.
  destruct (filter (fun c => kind_eqb (tkind c) k) cs) as [|c r] eqn:E; [discriminate|].
  assert (Hc : In c (filter (fun c => kind_eqb (tkind c) k) cs)) by (rewrite E; left; reflexivity).
  apply filter_In in Hc. destruct Hc as [Hc Hk]. exists c. split; [exact Hc|].
  apply kind_eqb_eq. exact Hk.
Qed.

(* an element child is found by [first_elem] *)
Lemma first_elem_exists t p pp k cs :
  In (p, pp, T k cs) (table t) -> (exists c, In c cs /\ tkind c = KdElem) ->
  exists i, first_elem t (child_ids (p + 1) cs) = Some i /\ In i (child_ids (p + 1) cs).
Proof.
  intros Hp (c & Hc & Hk). unfold first_elem.
  destruct (find (is_elem_id t) (child_ids (p + 1) cs)) as [i|] eqn:E.
  - exists i. split; [reflexivity|]. apply find_some in E. apply E.
  - exfalso. apply in_split in Hc. destruct Hc as (l1 & l2 & ->).
    pose proof (table_child _ _ _ _ _ _ _ Hp) as Hrow.
    assert (Hx : In (p + 1 + sizes l1) (child_ids (p + 1) (l1 ++ c :: l2))).
    { rewrite child_ids_app. apply in_or_app. right. left. reflexivity. }
    pose proof (find_none _ _ E _ Hx) as Hf.
    unfold is_elem_id in Hf. rewrite (table_find _ _ _ _ Hrow) in Hf.
    destruct c as [kc ccs]. cbn [tkind] in Hk. subst kc. discriminate.
Qed.

(* ------------------------------------------------------------------ *)
(* 2. corollaries on parse results.  Primed: under [len <= u32::MAX] (which holds for every
   u32 nodes limit, see parse_len_bound); unprimed: under the strict bound. *)

Theorem parse_ids_dense' : forall text opt d,
  parse text opt = Ok d -> len_N (d_nodes d) <= 4294967295 ->
  exists t, Arena' d t /\
    map (fun e => fst (fst e)) (table t) = N_range 0 (N.to_nat (len_N (d_nodes d))).
Proof.
  intros text opt d H Hb. destruct (parse_arena' _ _ _ H Hb) as (t & HA & _).
  exists t. split; [exact HA|]. rewrite (arena_len _ _ HA). apply table_ids.
Qed.
Print Assumptions parse_ids_dense'.

Theorem parse_ids_dense : forall text opt d,
  parse text opt = Ok d -> len_N (d_nodes d) < 4294967295 ->
  exists t, Arena d t /\
    map (fun e => fst (fst e)) (table t) = N_range 0 (N.to_nat (len_N (d_nodes d))).
Proof.
  intros text opt d H Hb. destruct (parse_arena _ _ _ H Hb) as (t & HA & _).
  exists t. split; [exact HA|]. rewrite (arena_len _ _ (Arena_weaken _ _ HA)). apply table_ids.
Qed.
Print Assumptions parse_ids_dense.

(* descendants of a node: the contiguous id range [id, hi) -- document order is id order *)
Theorem parse_descendants_preorder' : forall text opt d,
  parse text opt = Ok d -> len_N (d_nodes d) <= 4294967295 ->
  forall id, id < len_N (d_nodes d) ->
  exists hi, descendants d id = Ok {| it_lo := id; it_hi := hi |} /\
             id < hi /\ hi <= len_N (d_nodes d) /\
             sit_list {| it_lo := id; it_hi := hi |} = N_range id (N.to_nat (hi - id)) /\
             forall ops, run_slice ops {| it_lo := id; it_hi := hi |} =
                         deque_run ops (N_range id (N.to_nat (hi - id))).
Proof.
  intros text opt d H Hb id Hid. destruct (parse_arena' _ _ _ H Hb) as (t & HA & _).
  destruct (arena'_row _ _ _ HA Hid) as (par & s & Hin).
  exists (id + size s). rewrite (arena_len _ _ HA).
  destruct (in_table_table'' _ _ _ _ Hin) as [pv Hin'].
  pose proof (table'_bounds _ _ _ _ _ Hin'). pose proof (size_pos s).
  split; [apply (nav_descendants' _ _ _ _ _ HA Hin)|].
  split; [lia|]. split; [lia|]. split; [reflexivity|].
  intros ops. rewrite slice_deque by (cbn [it_lo it_hi]; lia). reflexivity.
Qed.
Print Assumptions parse_descendants_preorder'.

Theorem parse_descendants_preorder : forall text opt d,
  parse text opt = Ok d -> len_N (d_nodes d) < 4294967295 ->
  forall id, id < len_N (d_nodes d) ->
  exists hi, descendants d id = Ok {| it_lo := id; it_hi := hi |} /\
             id < hi /\ hi <= len_N (d_nodes d) /\
             sit_list {| it_lo := id; it_hi := hi |} = N_range id (N.to_nat (hi - id)) /\
             forall ops, run_slice ops {| it_lo := id; it_hi := hi |} =
                         deque_run ops (N_range id (N.to_nat (hi - id))).
Proof.
  intros text opt d H Hb. apply (parse_descendants_preorder' text opt d H). lia.
Qed.
Print Assumptions parse_descendants_preorder.

(* children: one duplicate-free list [l] (the one children_list returns) drives every mixed
   next / next_back consumption; in particular reverse iteration yields [rev l] *)
Theorem parse_children_rev' : forall text opt d,
  parse text opt = Ok d -> len_N (d_nodes d) <= 4294967295 ->
  forall id it, id < len_N (d_nodes d) -> children d id = Ok it ->
  exists l, children_list d id = Ok l /\ NoDup l /\
    forall ops, Forall (fun o => o = DNext \/ o = DNextBack) ops ->
                run_children d ops it = Ok (deque_run ops l).
Proof.
  intros text opt d H Hb id it Hid Hit. destruct (parse_arena' _ _ _ H Hb) as (t & HA & _).
  destruct (arena'_row _ _ _ HA Hid) as (par & s & Hin).
  exists (child_ids (id + 1) (tchildren s)).
  split; [apply (nav_children' _ _ _ _ _ HA Hin)|].
  split; [apply child_ids_NoDup|].
  intros ops HF. apply (children_deque' _ _ _ _ _ _ _ HA Hin HF Hit).
Qed.
Print Assumptions parse_children_rev'.

Theorem parse_children_rev : forall text opt d,
  parse text opt = Ok d -> len_N (d_nodes d) < 4294967295 ->
  forall id it, id < len_N (d_nodes d) -> children d id = Ok it ->
  exists l, children_list d id = Ok l /\ NoDup l /\
    forall ops, Forall (fun o => o = DNext \/ o = DNextBack) ops ->
                run_children d ops it = Ok (deque_run ops l).
Proof.
  intros text opt d H Hb. apply (parse_children_rev' text opt d H). lia.
Qed.
Print Assumptions parse_children_rev.

(* the root element exists and is a child of the root *)
Theorem parse_root_element' : forall text opt d,
  parse text opt = Ok d -> len_N (d_nodes d) <= 4294967295 ->
  exists i, root_element d = Ok i /\ parent d i = Ok (Some 0).
Proof.
  intros text opt d H Hb. destruct (parse_arena' _ _ _ H Hb) as (t & HA & Hwf).
  destruct Hwf as (_ & _ & _ & Hone & _).
  pose proof (table_root t) as Hroot.
  destruct t as [k cs]. cbn [tchildren] in Hone.
  destruct (first_elem_exists _ 0 None k cs Hroot (count_one_exists _ _ Hone)) as (i & Hi & Hin).
  change (0 + 1) with 1 in Hi.
  exists i. split.
  - apply (nav_root_element' _ _ _ HA). exact Hi.
  - destruct (child_row d _ 0 None (T k cs) i HA Hroot Hin) as (sx & Hrow & _).
    apply (nav_parent' _ _ _ _ _ HA Hrow).
Qed.
Print Assumptions parse_root_element'.

Theorem parse_root_element : forall text opt d,
  parse text opt = Ok d -> len_N (d_nodes d) < 4294967295 ->
  exists i, root_element d = Ok i /\ parent d i = Ok (Some 0).
Proof.
  intros text opt d H Hb. apply (parse_root_element' text opt d H). lia.
Qed.
Print Assumptions parse_root_element.

(* the navigation API never panics on a node of a parsed document *)
Definition nav_total (d : document) (id : N) : Prop :=
  (exists x, parent d id = Ok x) /\
  (exists x, prev_sibling d id = Ok x) /\
  (exists x, next_sibling d id = Ok x) /\
  (exists x, first_child d id = Ok x) /\
  (exists x, last_child d id = Ok x) /\
  (exists x, children_list d id = Ok x) /\
  (exists x, has_children d id = Ok x) /\
  (exists x, has_siblings d id = Ok x) /\
  (forall a, exists x, axis_list d a id = Ok x) /\
  (exists x, parent_element d id = Ok x) /\
  (exists x, prev_sibling_element d id = Ok x) /\
  (exists x, next_sibling_element d id = Ok x) /\
  (exists x, first_element_child d id = Ok x) /\
  (exists x, last_element_child d id = Ok x) /\
  (exists x, descendants d id = Ok x).

Theorem parse_nav_total' : forall text opt d,
  parse text opt = Ok d -> len_N (d_nodes d) <= 4294967295 ->
  forall id, id < len_N (d_nodes d) -> nav_total d id.
Proof.
  intros text opt d H Hb id Hid. destruct (parse_arena' _ _ _ H Hb) as (t & HA & _).
  destruct (arena'_row _ _ _ HA Hid) as (par & s & Hin).
  unfold nav_total. repeat split.
  - eexists. apply (nav_parent' _ _ _ _ _ HA Hin).
  - eexists. apply (nav_prev_sibling' _ _ _ _ _ HA Hin).
  - eexists. apply (nav_next_sibling' _ _ _ _ _ HA Hin).
  - eexists. apply (nav_first_child' _ _ _ _ _ HA Hin).
  - eexists. apply (nav_last_child' _ _ _ _ _ HA Hin).
  - eexists. apply (nav_children' _ _ _ _ _ HA Hin).
  - eexists. apply (nav_has_children' _ _ _ _ _ HA Hin).
  - eexists. apply (nav_has_siblings' _ _ _ _ _ HA Hin).
  - intros a. destruct a; eexists.
    + apply (nav_ancestors' _ _ _ _ _ HA Hin).
    + apply (nav_prev_siblings' _ _ _ _ _ HA Hin).
    + apply (nav_next_siblings' _ _ _ _ _ HA Hin).
    + apply (nav_first_children' _ _ _ _ _ HA Hin).
    + apply (nav_last_children' _ _ _ _ _ HA Hin).
  - eexists. apply (nav_parent_element' _ _ _ _ _ HA Hin).
  - eexists. apply (nav_prev_sibling_element' _ _ _ _ _ HA Hin).
  - eexists. apply (nav_next_sibling_element' _ _ _ _ _ HA Hin).
  - eexists. apply (nav_first_element_child' _ _ _ _ _ HA Hin).
  - eexists. apply (nav_last_element_child' _ _ _ _ _ HA Hin).
  - eexists. apply (nav_descendants' _ _ _ _ _ HA Hin).
Qed.
Print Assumptions parse_nav_total'.

Theorem parse_nav_total : forall text opt d,
  parse text opt = Ok d -> len_N (d_nodes d) < 4294967295 ->
  forall id, id < len_N (d_nodes d) -> nav_total d id.
Proof.
  intros text opt d H Hb. apply (parse_nav_total' text opt d H). lia.
Qed.
Print Assumptions parse_nav_total.
