(* Proofs/NonVacuity_C12.v -- non-vacuity of the hypotheses of the theorems pinned under C12
   (LookupProofs.v): the lookups return Ok on the document of NonVacuity_Doc.v (node 2 = <p:c b='x&e;'>
   in scope of xmlns:p='u'), in the found and in the not-found case; theorems applied. *)
From Coq Require Import Ascii String List NArith Bool.
Import ListNotations.
From RX Require Import Generated.
From RX.Model Require Import Base CharClass Stream Tokenizer Doc Builder Parse Api.
From RX.Proofs Require Import LookupProofs NonVacuity_Doc.
Open Scope N_scope.

(* attribute_node_first_match / has_attribute_iff / attribute_is_value_of_node: found *)
Example nv_attribute_node_first_match :
  enum_attrs d0 2 = Ok [1] /\ attribute_node text0 d0 2 (None, b "b") = Ok (Some 1).
Proof. split; vm_compute; reflexivity. Qed.

(* ... and not found *)
Example nv_attribute_node_first_match_none :
  enum_attrs d0 2 = Ok [1] /\ attribute_node text0 d0 2 (None, b "zz") = Ok None.
Proof. split; vm_compute; reflexivity. Qed.

Example nv_has_attribute_iff_applied : has_attribute text0 d0 2 (None, b "b") = Ok true.
Proof. exact (has_attribute_iff text0 d0 2 (None, b "b") (Some 1) (proj2 nv_attribute_node_first_match)). Qed.

Example nv_attribute_is_value_of_node_applied :
  attribute text0 d0 2 (None, b "b") = Ok (Some (b "xv")).   (* the entity reference is expanded *)
Proof.
  rewrite (attribute_is_value_of_node text0 d0 2 (None, b "b") (Some 1) (proj2 nv_attribute_node_first_match)).
  vm_compute. reflexivity.
Qed.

(* has_tag_name_spec: an element with a namespace *)
Example nv_has_tag_name_spec :
  tag_name text0 d0 2 = Ok (Some (b "u"), b "c") /\
  exists nd ns local a nss, node_data_of d0 2 = Ok nd /\ nd_kind nd = KElement ns local a nss.
Proof. split; [vm_compute; reflexivity|]. do 5 eexists. split; vm_compute; reflexivity. Qed.

Example nv_has_tag_name_spec_applied : has_tag_name text0 d0 2 (Some (b "u"), b "c") = Ok true.
Proof.
  destruct nv_has_tag_name_spec as [H1 H2].
  rewrite (has_tag_name_spec text0 d0 2 (Some (b "u"), b "c") _ H1 H2). vm_compute. reflexivity.
Qed.

(* has_tag_name_non_element: node 3 is the text "tv" *)
Example nv_has_tag_name_non_element :
  exists nd, node_data_of d0 3 = Ok nd /\ is_element_kind (nd_kind nd) = false.
Proof. eexists. split; vm_compute; reflexivity. Qed.

(* lookup_namespace_uri_first: found (prefix p) and not found (prefix q) *)
Example nv_lookup_namespace_uri_first :
  enum_ns d0 2 = Ok [1] /\ lookup_namespace_uri text0 d0 2 (Some (b "p")) = Ok (Some (b "u")).
Proof. split; vm_compute; reflexivity. Qed.

Example nv_lookup_namespace_uri_first_none :
  enum_ns d0 2 = Ok [1] /\ lookup_namespace_uri text0 d0 2 (Some (b "q")) = Ok None.
Proof. split; vm_compute; reflexivity. Qed.

(* lookup_prefix_first: a uri different from the xml namespace *)
Example nv_lookup_prefix_first :
  bytes_eqb (b "u") ns_xml_uri = false /\ enum_ns d0 2 = Ok [1] /\
  lookup_prefix text0 d0 2 (b "u") = Ok (Some (b "p")).
Proof. repeat split; vm_compute; reflexivity. Qed.

(* attr_eqb_spec: the two attributes of the document (a='1' on r, b='xv' on p:c) *)
Example nv_attr_eqb_spec :
  exists a c na nc, attr_at d0 0 = Ok a /\ attr_at d0 1 = Ok c /\
                    attr_ename text0 d0 a = Ok na /\ attr_ename text0 d0 c = Ok nc.
Proof. do 4 eexists. repeat split; vm_compute; reflexivity. Qed.

Example nv_attr_eqb_spec_applied : attr_eqb text0 d0 0 1 = Ok false.
Proof.
  destruct nv_attr_eqb_spec as (a & c & na & nc & H1 & H2 & H3 & H4).
  vm_compute. reflexivity.
Qed.
