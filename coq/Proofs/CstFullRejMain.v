(* Proofs/CstFullRejMain.v -- C09 on the capstone fragment: the REJECTION half, on the whole supported subset
   (Spec/CstFullS6.v: byte order mark, XML declaration, DOCTYPE with every kind of declaration, general entities whose
   value is character data or MARKUP, qualified Unicode names, namespaces, CR in markup white space).

   A document d is taken that satisfies every condition of S6.wf_doc that does not look at the expansion of its references
   ([wf_syntax6], Proofs/CstFullRejSem.v), and whose references can be unfolded 12 levels deep
   ([ginline6 d = Some (cT, tr)]: every name referred to -- in the body and, 12 levels down, in the values -- is declared,
   no entity with markup is used in an attribute value, no '<' comes into an attribute value from an entity; a cycle does
   not prevent this unfolding, it is simply cut at level 12).  The conditions that S6.wf_doc puts on the INLINED body are
   asked of this unfolding cT: the line-end proviso, the NAMESPACE RULES (every prefix used in cT is bound where it
   stands, no reserved prefix / URI declared, no prefix declared twice in a tag, no attribute twice) and the size
   hypotheses of the acceptance theorem.  Then

     [limits_rejected_full_s6]  if the trace tr of the unfolding is outside the limits of Spec/Detector.v (depth 10,
                                255 nested references), parse answers Err (EntityReferenceLoop _);
     [limits_decide_full_s6]    and otherwise it answers Ok with the meaning of the unfolding: the limits decide,

   and the three clauses of C09 are corollaries, stated on the abstract syntax (Proofs/CstFullRejTrace.v):

     [cycle_rejected_full_s6]           some name reachable from a reference in the body refers to itself;
     [depth_exceeded_rejected_full_s6]  a reference path of 11 (or more) names starts in the body;
     [budget_exceeded_rejected_full_s6] a name referred to in the body has more than 255 expansions below it.

   What is NOT claimed: which error wins when the document has another defect before the place where the detector
   stops.  In particular a namespace error can pre-empt the loop error: an element with an unbound prefix inside a
   cyclic entity, standing before the reference that closes the cycle, is met by the parser before the detector
   stops, and the model answers UnknownNamespace (Proofs/CstFullRejSanity.v, [unb_before]); this is excluded by the
   hypothesis that the namespace rules hold on the unfolding cT (which contains that element, 12 times).  The
   hypothesis is sufficient, not necessary: if the offending element stands AFTER the reference the model answers
   EntityReferenceLoop although the hypothesis fails ([unb_after]). *)
From Coq Require Import Ascii String.
From Coq Require Import List NArith PeanoNat Bool Lia ZifyBool ZifyN ZifyNat.
Import ListNotations.
From RX Require Import Generated.
From RX.Model Require Import Base CharClass Stream Tokenizer Doc Builder Parse.
From RX.Spec Require Cst CstText CstEnt Detector Scope CstU CstNs Chars.
From RX.Spec Require Import CstFullS5.
From RX.Spec Require Import Text CstFull CstFullS4.
From RX.Spec Require Import CstFullS6.
From RX.Proofs Require Import Tactics CstLex CstBuild CstNsLex CstNsView CstNsBuild CstULex DetectorProofs.
From RX.Proofs Require Import CstFullLex CstFullBuild CstFullTree CstFullDoc.
From RX.Proofs Require Import CstFullS4Sem.
From RX.Proofs Require Import CstFullS5Ws CstFullS5Doc.
From RX.Proofs Require Import CstFullS6Text CstFullS6Items CstFullS6Dtd CstFullS6Doc CstFullS6Main.
From RX.Proofs Require Import CstFullRejSem CstFullRejTrace CstFullRejDoc.
From RX.Proofs Require CstNsItems CstNsDoc CstNsMain CstFullMain CstFullS3 CstFullS4Main CstFullS5 OptionsMain.
Open Scope N_scope.

(* ------------------------------------------------------------------------------------------ *)
(* the meaning of the unfolding                                                               *)
(* ------------------------------------------------------------------------------------------ *)
(* S6.sem, with the unfolding cT in the place of the inlined body *)
Definition usem6 (d : S6.doc) (cT : CstFull.doc bpieces) : list CstNs.vnode :=
  flat_map (CstNs.sem_item []) (flat_map (den bmeaning) (map S4.misc_item (S6.prolog_items d))) ++ CstFull.sem bmeaning cT.

Lemma ginline6_root d cT tr : ginline6 d = Some (cT, tr) ->
  exists root', inline_item (glevel4 (S6.decls d) glevels) false (d_root (S6.x_main d)) = Some ([root'], tr) /\ cT = cI d root'.
Proof.
  unfold ginline6, ginline4, inline_with4. change (t_decls (S4.x_dtd (S6.core d))) with (S6.decls d).
  change (S4.x_main (S6.core d)) with (S6.x_main d). intros H.
  destruct (inline_item (glevel4 (S6.decls d) glevels) false (d_root (S6.x_main d))) as [[its tr0]|]; [|discriminate].
  cbn [E.obind fst snd] in H. destruct its as [|root' [|x its]]; try discriminate. injection H as <- <-.
  exists root'. split; reflexivity.
Qed.

Section SemS.
Variable d : S6.doc.
Hypothesis Hwf : wf_syntax6 d = true.
Notation main := (S6.x_main d).

Lemma prolog_misc_s : forallb (is_misc epieces) (S6.prolog_items d) = true.
Proof.
  destruct (s6_sparts d Hwf) as [_ Hg _ _ _ _ _ _]. unfold S6.prolog_items. destruct (S6.x_dtd d) as [g|]; [|reflexivity].
  cbn [wf_opt] in Hg. destruct (dtd_part_parts6 g Hg) as (H0 & Hb & Ht). rewrite forallb_app, (subset_misc6_misc _ Ht), andb_true_r.
  clear - Hb. induction (S6.g_before g) as [|[i w] r IH]; [reflexivity|]. cbn [forallb fst snd map] in *.
  rewrite !andb_true_iff in Hb. destruct Hb as [[[Hi _] _] Hr]. rewrite Hi, (IH Hr). reflexivity.
Qed.

Lemma before_misc_s (l : list (uitem * bytes)) :
  forallb (fun p => is_misc epieces (fst p) && wf_item_s M0 (fst p) && wf_s (snd p)) l = true ->
  forallb (is_misc epieces) (map fst l) = true.
Proof.
  induction l as [|[i w] r IH]; intros H; [reflexivity|]. cbn [forallb fst snd map] in *.
  rewrite !andb_true_iff in H. destruct H as [[[Hi _] _] Hr]. rewrite Hi, (IH Hr). reflexivity.
Qed.

Lemma usem_all6 root' : usem6 d (cI d root') = NT.sem_items [] (L6 d root').
Proof.
  destruct (s6_sparts d Hwf) as [_ _ _ _ H3 _ _ H6].
  unfold usem6. unfold L6, CstFull.sem, doc_items. cbn [cI d_before d_root d_after].
  rewrite !flat_sem, !bdens_flat, <- CstNsDoc.sem_items_app. f_equal.
  rewrite (dens_misc _ prolog_misc_s). f_equal.
  rewrite (bdens_app _ (_ :: _)). cbn [CstFullTree.dens]. f_equal; [|f_equal].
  - unfold B1. rewrite (regroup_items epieces). etransitivity; [|symmetry; apply dens_misc; apply (before_misc_s _ H3)].
    rewrite !map_map. reflexivity.
  - etransitivity; [|symmetry; apply dens_misc; apply (pairs_misc _ H6)]. rewrite !map_map. reflexivity.
Qed.

End SemS.

(* ------------------------------------------------------------------------------------------ *)
(* outside the limits: rejected                                                               *)
(* ------------------------------------------------------------------------------------------ *)
Theorem limits_rejected_full_s6 : forall (d : S6.doc) (opt : options) (cT : CstFull.doc bpieces) (tr : list Detector.lop),
  wf_syntax6 d = true -> ginline6 d = Some (cT, tr) ->
  provisos_item (d_root cT) = true ->                               (* the line-end proviso, on the unfolding *)
  forallb (ns_ok []) (den bmeaning (d_root cT)) = true ->           (* the namespace rules, on the unfolding *)
  Detector.within_limits 10 255 0 0 tr = false ->
  (S6.has_dtd d = true -> allow_dtd opt = true) ->
  N.of_nat (length (usem6 d cT)) < nodes_limit opt ->
  N.of_nat (length (usem6 d cT)) < u32_max ->
  N.of_nat (vattrs (usem6 d cT)) < u32_max ->
  CstFull.distinct_decls_le bmeaning cT (N.to_nat 65535) ->
  1 + N.of_nat (CstFull.ns_cost bmeaning cT) <= u32_max ->
  exists pos, parse (S6.render d) opt = Err (EntityReferenceLoop pos).
Proof.
  intros d opt cT tr Hwf Hinl Hprov Hns Hlim Hdtd Hn Hmax Hattr Hdist Hcost. set (text := S6.render d).
  destruct (ginline6_root d cT tr Hinl) as (root' & Hroot & ->). cbn [cI d_root] in Hprov, Hns.
  pose proof (usem_all6 d Hwf root') as Esem.
  unfold CstFull.distinct_decls_le, doc_decls in Hdist. unfold CstFull.ns_cost in Hcost. cbn [d_root cI] in Hdist, Hcost.
  set (D := flat_map CstNs.item_decls (bden root')) in *.
  assert (HD : forall l, NoDup l -> incl l D -> N.of_nat (length l) <= 65535).
  { intros l N1 N2. pose proof (Hdist l N1 N2). lia. }
  assert (Hsz : NT.nsizes (L6 d root') = N.of_nat (length (usem6 d (cI d root')))).
  { rewrite Esem, CstFullMain.sem_items_len. reflexivity. }
  assert (Hat : NT.nattrs_items (bden root') = vattrs (usem6 d (cI d root'))).
  { rewrite Esem, CstFullS4Main.vattrs_sems. unfold L6.
    destruct (s6_sparts d Hwf) as [_ _ H1 _ H3 _ _ H6].
    destruct (regroup_wf_s epieces M0 _ _ H1 H3) as [Q1 _].
    destruct (pairs_dens_s epieces M0 _ Q1) as (_ & _ & X1 & _). destruct (pairs_dens_s epieces M0 _ H6) as (_ & _ & X2 & _).
    pose proof (misc_nattrs _ (prolog_misc_s d Hwf)) as X0.
    assert (G : forall x y z w : nat, x = 0%nat -> y = 0%nat -> w = 0%nat -> (x + (y + (z + w)) = z)%nat) by (intros; lia).
    rewrite !nattrs_items_app. symmetry. apply G; [exact X0|exact X1|exact X2]. }
  rewrite ns_oks_forallb in Hns.
  destruct (fparse_document6 d Hwf D HD (allow_dtd opt) root' tr (CstNsMain.init_ctx text opt) Hdtd Hroot Hlim Hprov Hns)
    as [pos E].
  { unfold D. rewrite items_decls_flat. apply incl_refl. }
  { apply (CstNsMain.init_ctx_CIn text D opt). }
  { reflexivity. } { reflexivity. } { reflexivity. }
  { unfold CstNsItems.node_room. cbn [CstNsMain.init_ctx c_doc c_opt d_nodes]. rewrite Hsz. unfold len_N. cbn [length]. lia. }
  { unfold CstNsItems.attr_room. cbn [CstNsMain.init_ctx c_doc d_attrs]. rewrite Hat. unfold len_N. cbn [length]. lia. }
  { unfold CstNsItems.ns_room. cbn [CstNsMain.init_ctx c_doc d_ns_tree]. unfold len_N. cbn [length]. rewrite ns_costs_sum. lia. }
  exists pos. fold text in E. unfold parse. rewrite (CstNsMain.init_context_eq text opt). cbn [bind].
  unfold tok_ev in E. rewrite E. reflexivity.
Qed.

(* within the limits: accepted (Proofs/CstFullS6Main.v); so the limits decide *)
Theorem limits_decide_full_s6 : forall (d : S6.doc) (opt : options) (cT : CstFull.doc bpieces) (tr : list Detector.lop),
  wf_syntax6 d = true -> ginline6 d = Some (cT, tr) ->
  provisos_item (d_root cT) = true ->
  forallb (ns_ok []) (den bmeaning (d_root cT)) = true ->
  (S6.has_dtd d = true -> allow_dtd opt = true) ->
  N.of_nat (length (usem6 d cT)) < nodes_limit opt ->
  N.of_nat (length (usem6 d cT)) < u32_max ->
  N.of_nat (vattrs (usem6 d cT)) < u32_max ->
  CstFull.distinct_decls_le bmeaning cT (N.to_nat 65535) ->
  1 + N.of_nat (CstFull.ns_cost bmeaning cT) <= u32_max ->
  (Detector.within_limits 10 255 0 0 tr = true ->
     exists x, parse (S6.render d) opt = Ok x /\ view (S6.render d) x = Some (usem6 d cT) /\
               S6.wf_doc d = true /\ S6.sem d = usem6 d cT) /\
  (Detector.within_limits 10 255 0 0 tr = false ->
     exists pos, parse (S6.render d) opt = Err (EntityReferenceLoop pos)) /\
  ((exists x, parse (S6.render d) opt = Ok x) <-> Detector.within_limits 10 255 0 0 tr = true) /\
  ((exists pos, parse (S6.render d) opt = Err (EntityReferenceLoop pos)) <-> Detector.within_limits 10 255 0 0 tr = false).
Proof.
  intros d opt cT tr Hwf Hinl Hprov Hns Hdtd Hn Hmax Hattr Hdist Hcost.
  assert (Hacc : Detector.within_limits 10 255 0 0 tr = true ->
                 exists x, parse (S6.render d) opt = Ok x /\ view (S6.render d) x = Some (usem6 d cT) /\
                           S6.wf_doc d = true /\ S6.sem d = usem6 d cT).
  { intros Hlim. destruct (detector_complete_gen tr 0 0 Hlim) as [ld' Hrun]. change (DetectorProofs.mk 0 0) with ld_init in Hrun.
    pose proof (ginline4_inline (S6.core d) cT tr ld' Hinl Hrun) as Hi.
    assert (Hwfd : S6.wf_doc d = true).
    { rewrite wf_doc6_split, Hwf, Hi. unfold limits_ok. rewrite Hlim, Hprov, Hns. reflexivity. }
    assert (Esem : S6.sem d = usem6 d cT) by (unfold S6.sem, S4.sem, usem6; rewrite Hi; reflexivity).
    assert (Eatt : S6.nattrs d = vattrs (usem6 d cT)) by (unfold S6.nattrs; rewrite Esem; reflexivity).
    destruct (parse_render_sem_full_s6 d opt Hwfd Hdtd ltac:(rewrite Esem; exact Hn) ltac:(rewrite Esem; exact Hmax)
                ltac:(rewrite Eatt; exact Hattr)) as (x & Hp & Hv).
    { unfold S6.distinct_decls_le, S4.distinct_decls_le. rewrite Hi. exact Hdist. }
    { unfold S6.ns_cost, S4.ns_cost. rewrite Hi. exact Hcost. }
    exists x. split; [exact Hp|]. split; [rewrite Hv, Esem; reflexivity|]. split; [exact Hwfd|exact Esem]. }
  assert (Hrej : Detector.within_limits 10 255 0 0 tr = false ->
                 exists pos, parse (S6.render d) opt = Err (EntityReferenceLoop pos))
    by (intros Hlim; apply (limits_rejected_full_s6 d opt cT tr); assumption).
  split; [exact Hacc|]. split; [exact Hrej|]. split; split.
  - intros [x Hx]. destruct (Detector.within_limits 10 255 0 0 tr) eqn:Hl; [reflexivity|].
    destruct (Hrej eq_refl) as [pos Hp]. rewrite Hp in Hx. discriminate.
  - intros Hl. destruct (Hacc Hl) as (x & Hx & _). eauto.
  - intros [pos Hp]. destruct (Detector.within_limits 10 255 0 0 tr) eqn:Hl; [|reflexivity].
    destruct (Hacc eq_refl) as (x & Hx & _). rewrite Hp in Hx. discriminate.
  - exact Hrej.
Qed.

(* ------------------------------------------------------------------------------------------ *)
(* the three clauses of C09, on the abstract syntax                                           *)
(* ------------------------------------------------------------------------------------------ *)
Notation body_of d := (d_root (S6.x_main d)).

(* a reference path of L names n1 -> n2 -> ... -> nL starts in the body: n1 is referred to in the root element (in
   character data, in an attribute value or in the URI of a namespace declaration) and the value of the first declaration
   of each n_i refers to n_(i+1) *)
Definition deep_doc6 (d : S6.doc) (L : nat) : Prop :=
  exists n, In n (urefs_item (body_of d)) /\ rpath4 (S6.decls d) n L.

(* some name reachable from a reference in the body refers to itself, directly or indirectly *)
Definition cyclic_doc6 (d : S6.doc) : Prop :=
  exists n m, In n (urefs_item (body_of d)) /\ reach4 (S6.decls d) n m /\ on_cycle4 (S6.decls d) m.

(* a name referred to in the body has more than 255 expansions below it (counted 12 levels down) *)
Definition over_budget_doc6 (d : S6.doc) : Prop :=
  exists n, In n (urefs_item (body_of d)) /\ (255 < nested4 (S6.decls d) glevels n)%nat.

Lemma cyclic_deep6 d : cyclic_doc6 d -> forall L, (1 <= L)%nat -> deep_doc6 d L.
Proof. intros (n & m & Hn & Hr & Hc) L HL. exists n. split; [exact Hn|]. apply (cycle4_rpath _ n m L Hr Hc HL). Qed.

Section Clauses.
Variables (d : S6.doc) (opt : options) (cT : CstFull.doc bpieces) (tr : list Detector.lop).
Hypothesis Hwf : wf_syntax6 d = true.
Hypothesis Hinl : ginline6 d = Some (cT, tr).
Hypothesis Hprov : provisos_item (d_root cT) = true.
Hypothesis Hns : forallb (ns_ok []) (den bmeaning (d_root cT)) = true.
Hypothesis Hdtd : S6.has_dtd d = true -> allow_dtd opt = true.
Hypothesis Hn : N.of_nat (length (usem6 d cT)) < nodes_limit opt.
Hypothesis Hmax : N.of_nat (length (usem6 d cT)) < u32_max.
Hypothesis Hattr : N.of_nat (vattrs (usem6 d cT)) < u32_max.
Hypothesis Hdist : CstFull.distinct_decls_le bmeaning cT (N.to_nat 65535).
Hypothesis Hcost : 1 + N.of_nat (CstFull.ns_cost bmeaning cT) <= u32_max.

Theorem depth_exceeded_rejected_s : forall L, (11 <= L)%nat -> deep_doc6 d L ->
  exists pos, parse (S6.render d) opt = Err (EntityReferenceLoop pos).
Proof.
  intros L HL (n & Hin & Hp). destruct (ginline6_root d cT tr Hinl) as (root' & Hr & _).
  apply (limits_rejected_full_s6 d opt cT tr); try assumption.
  apply (deep_limits4 (S6.decls d) _ [root'] tr n L Hr Hin Hp HL).
Qed.

Theorem cycle_rejected_s : cyclic_doc6 d ->
  exists pos, parse (S6.render d) opt = Err (EntityReferenceLoop pos).
Proof. intros Hc. apply (depth_exceeded_rejected_s 11 ltac:(lia)). apply cyclic_deep6; [exact Hc|lia]. Qed.

Theorem budget_exceeded_rejected_s : over_budget_doc6 d ->
  exists pos, parse (S6.render d) opt = Err (EntityReferenceLoop pos).
Proof.
  intros (n & Hin & Hc). destruct (ginline6_root d cT tr Hinl) as (root' & Hr & _).
  apply (limits_rejected_full_s6 d opt cT tr); try assumption.
  apply (budget_limits4 (S6.decls d) _ [root'] tr n Hr Hin Hc).
Qed.

End Clauses.

Theorem cycle_rejected_full_s6 : forall (d : S6.doc) (opt : options) (cT : CstFull.doc bpieces) (tr : list Detector.lop),
  wf_syntax6 d = true -> ginline6 d = Some (cT, tr) ->
  provisos_item (d_root cT) = true ->
  forallb (ns_ok []) (den bmeaning (d_root cT)) = true ->
  (S6.has_dtd d = true -> allow_dtd opt = true) ->
  N.of_nat (length (usem6 d cT)) < nodes_limit opt ->
  N.of_nat (length (usem6 d cT)) < u32_max ->
  N.of_nat (vattrs (usem6 d cT)) < u32_max ->
  CstFull.distinct_decls_le bmeaning cT (N.to_nat 65535) ->
  1 + N.of_nat (CstFull.ns_cost bmeaning cT) <= u32_max ->
  cyclic_doc6 d ->
  exists pos, parse (S6.render d) opt = Err (EntityReferenceLoop pos).
Proof. intros. eapply cycle_rejected_s; eassumption. Qed.

Theorem depth_exceeded_rejected_full_s6 : forall (d : S6.doc) (opt : options) (cT : CstFull.doc bpieces) (tr : list Detector.lop) (L : nat),
  wf_syntax6 d = true -> ginline6 d = Some (cT, tr) ->
  provisos_item (d_root cT) = true ->
  forallb (ns_ok []) (den bmeaning (d_root cT)) = true ->
  (S6.has_dtd d = true -> allow_dtd opt = true) ->
  N.of_nat (length (usem6 d cT)) < nodes_limit opt ->
  N.of_nat (length (usem6 d cT)) < u32_max ->
  N.of_nat (vattrs (usem6 d cT)) < u32_max ->
  CstFull.distinct_decls_le bmeaning cT (N.to_nat 65535) ->
  1 + N.of_nat (CstFull.ns_cost bmeaning cT) <= u32_max ->
  (11 <= L)%nat -> deep_doc6 d L ->
  exists pos, parse (S6.render d) opt = Err (EntityReferenceLoop pos).
Proof. intros. eapply depth_exceeded_rejected_s; eassumption. Qed.

Theorem budget_exceeded_rejected_full_s6 : forall (d : S6.doc) (opt : options) (cT : CstFull.doc bpieces) (tr : list Detector.lop),
  wf_syntax6 d = true -> ginline6 d = Some (cT, tr) ->
  provisos_item (d_root cT) = true ->
  forallb (ns_ok []) (den bmeaning (d_root cT)) = true ->
  (S6.has_dtd d = true -> allow_dtd opt = true) ->
  N.of_nat (length (usem6 d cT)) < nodes_limit opt ->
  N.of_nat (length (usem6 d cT)) < u32_max ->
  N.of_nat (vattrs (usem6 d cT)) < u32_max ->
  CstFull.distinct_decls_le bmeaning cT (N.to_nat 65535) ->
  1 + N.of_nat (CstFull.ns_cost bmeaning cT) <= u32_max ->
  over_budget_doc6 d ->
  exists pos, parse (S6.render d) opt = Err (EntityReferenceLoop pos).
Proof. intros. eapply budget_exceeded_rejected_s; eassumption. Qed.

Print Assumptions limits_rejected_full_s6.
Print Assumptions limits_decide_full_s6.
Print Assumptions cycle_rejected_full_s6.
Print Assumptions depth_exceeded_rejected_full_s6.
Print Assumptions budget_exceeded_rejected_full_s6.
