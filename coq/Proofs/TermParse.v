(* Proofs/TermParse.v -- termination, part 4: the recursion through entity expansion
   (parse_content -> token -> process_text -> parse_content) and the main theorems:
   OutOfFuel is unreachable for every valid UTF-8 input. *)
From Coq Require Import List NArith Bool Lia ZifyBool ZifyN ZifyNat.
Import ListNotations.
From RX Require Import Generated.
From RX.Model Require Import Base CharClass Stream Tokenizer Doc Builder Parse.
From RX.Proofs Require Import TermStream TermTokenizer TermUtf8 TermBuilder.
Open Scope N_scope.

Section WithText.
Variable text : bytes.
Hypothesis Hsafe : safe text.

Hint Resolve from_substr_good' append_node_good append_text_good reset_after_text_good
  process_element_good process_cdata_good tb_finish_good inc_references_good inc_depth_good
  parse_next_chunk_good : good.

(* ---- token_with: every callback keeps the depth ---- *)
Lemma token_with_good ptext d :
  d <= 10 ->
  (forall t r c, depth c = d -> good (fun c' => depth c' = d) (ptext t r c)) ->
  forall tk c, depth c = d -> good (fun c' => depth c' = d) (token_with text ptext tk c).
Proof.
  intros Hd Hp tk c Hc. unfold token_with. destruct tk.
  - gauto.
  - gauto.
  - gauto.
  - gauto.
  - eapply good_weaken; [apply process_attribute_good; [exact Hsafe|unfold depth in *; lia]|].
    intros; kfin.
  - gauto.
  - apply Hp; assumption.
  - gauto.
Qed.

(* ---- process_text_with: the inner loop with a name ---- *)
Definition ptext_loop (pc : Stream.stream -> context -> res (Stream.stream * context)) (r : range) :=
  fix loop (fuel : nat) (s : Stream.stream) (buf : text_buffer) (c : context) {struct fuel}
    : res (text_buffer * context) :=
    match fuel with
    | O => OutOfFuel
    | S fu =>
      if at_end s then Ok (buf, c) else
      let! (ch, s) := parse_next_chunk text s (c_entities c) in
      match ch with
      | ChByte x => loop fu s (tb_push_from_text x buf) c
      | ChChar cp =>
        loop fu s (push_char_bytes_text (encode_utf8 cp) (0 <? ld_depth (c_ld c)) buf) c
      | ChText value =>
        let! c := if negb (tb_is_empty buf)
                  then let! bs := tb_finish buf in append_text (CowOwned bs) r c
                  else Ok c in
        let! ld := inc_references text s (c_ld c) in
        let! ld := inc_depth text s ld in
        let c := set_ld c ld in
        let! es := stream_from_substr text (sl_start value) (sl_end value) in
        let prev_tag_name := c_tag_name c in
        let prev_floor := c_entity_floor c in
        let c := set_entity_floor (set_tag_name c tag_name_null) (len_N (c_parent_prefixes c)) in
        let! (_, c) := pc es c in
        if negb (len_N (c_parent_prefixes c) =? c_entity_floor c) then Err UnexpectedEndOfStream
        else
          let c := set_entity_floor (set_tag_name c prev_tag_name) prev_floor in
          let c := set_ld c (dec_depth (c_ld c)) in
          loop fu s tb_new c
      end
    end.

Lemma process_text_with_eq pc t r c :
  process_text_with text pc t r c =
  let tb := slice_bytes text t in
  if negb (existsb (fun x => (x =? 38) || (x =? 13)) tb) then append_text (CowBorrowed t) r c
  else
    let! s0 := stream_from_substr text (fst r) (snd r) in
    let! (buf, c) := ptext_loop pc r (S (length (s_rest s0))) s0 tb_new c in
    if negb (tb_is_empty buf)
    then let! bs := tb_finish buf in append_text (CowOwned bs) r c
    else Ok c.
Proof. reflexivity. Qed.

Lemma ptext_loop_good pc r d :
  (d < 10 -> forall es c, wf es -> depth c = d + 1 ->
     good (fun p => depth (snd p) = d + 1) (pc es c)) ->
  forall fuel s buf c, wf s -> depth c = d -> s_end s - s_pos s < N.of_nat fuel ->
  good (fun p => depth (snd p) = d) (ptext_loop pc r fuel s buf c).
Proof.
  intros Hpc. induction fuel; intros s buf c W Hd Hf; [lia|]. cbn [ptext_loop].
  gstep; [gauto|]. gb. gstep.
  - apply IHfuel; [eauto with good|assumption|measure].
  - apply IHfuel; [eauto with good|assumption|measure].
  - eapply good_bind with (Q := fun c' => depth c' = d); [gauto|]. intros c1 H1.
    gb. gb. gb.
    eapply good_bind; [apply Hpc; [unfold depth in *; lia|assumption|kfin]|].
    intros [s' c2] Hc2; gsimp. gstep; [gauto|].
    apply IHfuel; [eauto with good| |measure].
    unfold depth in *. cbn [c_ld set_ld set_entity_floor set_tag_name] in *.
    apply dec_depth_succ. assumption.
Qed.

Lemma process_text_with_good pc d :
  (d < 10 -> forall es c, wf es -> depth c = d + 1 ->
     good (fun p => depth (snd p) = d + 1) (pc es c)) ->
  forall t r c, depth c = d -> good (fun c' => depth c' = d) (process_text_with text pc t r c).
Proof.
  intros Hpc t r c Hd. rewrite process_text_with_eq. gstep. gstep; [gauto|]. gb.
  eapply good_bind; [apply ptext_loop_good; [exact Hpc|assumption|exact Hd|apply fuel_enough; assumption]|].
  intros [buf c'] H'; gsimp. gauto.
Qed.

(* ---- parse_content_lvl: [lvl] levels are enough when the detector is at depth d
   and lvl + d >= 11 ---- *)
Lemma parse_content_lvl_good lvl : forall d, d <= 10 -> (11 <= lvl + N.to_nat d)%nat ->
  forall s c, wf s -> depth c = d ->
  good (fun p => depth (snd p) = d) (parse_content_lvl text lvl s c).
Proof.
  induction lvl; intros d Hd Hl s c W Hc; [lia|]. cbn [parse_content_lvl].
  eapply good_weaken.
  - apply (parse_content_good text context _ (fun c => depth c = d)); [|assumption|assumption].
    intros tok c0 Hc0. apply token_with_good; [assumption| |assumption].
    apply process_text_with_good. intros Hlt es c1 We Hc1.
    apply IHlvl; [lia|lia|assumption|assumption].
  - intros [s' c'] [_ H]. exact H.
Qed.

Lemma token_good tok c : depth c = 0 -> good (fun c' => depth c' = 0) (token text tok c).
Proof.
  intros Hc. unfold token, process_text.
  apply token_with_good; [lia| |assumption].
  apply process_text_with_good. intros _ es c1 We Hc1.
  apply parse_content_lvl_good; [lia|rewrite entity_levels_eq; lia|assumption|assumption].
Qed.

End WithText.

(* ------------------------------------------------------------------ *)
(* Main theorems.  The hypothesis [valid_utf8_b text = true] (the input is a Rust &str) is
   necessary: see TermUtf8.termination_needs_valid_utf8. *)

(* 1. the tokenizer with ANY callback that itself never runs out of fuel *)
Theorem tokenizer_terminates : forall (text : bytes) (C : Type) (ev : Tokenizer.token -> C -> res C) (dtd : bool) (c : C),
  valid_utf8_b text = true ->
  (forall tok c0, ev tok c0 <> OutOfFuel) ->
  parse_document text C ev dtd c <> OutOfFuel.
Proof.
  intros text C ev dtd c Hv Hev.
  eapply good_nofuel.
  apply (parse_document_good text C ev (fun _ => True)); [|apply valid_utf8_safe; assumption|exact I].
  intros tok c0 _. apply nofuel_good. apply Hev.
Qed.
Print Assumptions tokenizer_terminates.

(* the callback keeps the detector at depth 0 between top-level tokens *)
Theorem token_preserves_depth0 : forall text tok c c',
  valid_utf8_b text = true ->
  ld_depth (c_ld c) = 0 -> token text tok c = Ok c' -> ld_depth (c_ld c') = 0.
Proof.
  intros text tok c c' Hv Hc E.
  pose proof (token_good text (valid_utf8_safe _ Hv) tok c Hc) as H.
  rewrite E in H. exact H.
Qed.
Print Assumptions token_preserves_depth0.

(* 2. the real callback never runs out of fuel *)
Theorem token_terminates : forall text tok c,
  valid_utf8_b text = true ->
  ld_depth (c_ld c) = 0 -> token text tok c <> OutOfFuel.
Proof.
  intros text tok c Hv Hc. eapply good_nofuel.
  apply (token_good text (valid_utf8_safe _ Hv) tok c Hc).
Qed.
Print Assumptions token_terminates.

(* 3. the document-level run *)
Theorem parse_document_terminates : forall text opt c,
  valid_utf8_b text = true ->
  init_context text opt = Ok c ->
  parse_document text context (token text) (allow_dtd opt) c <> OutOfFuel.
Proof.
  intros text opt c Hv Hi. pose proof (valid_utf8_safe _ Hv) as Hs.
  eapply good_nofuel.
  apply (parse_document_good text context (token text) (fun c => depth c = 0)); [|assumption|].
  - intros tok c0 Hc0. apply token_good; assumption.
  - unfold init_context in Hi. destruct (push_ns text _ _ _); try discriminate.
    cbn [bind] in Hi. injection Hi as <-. reflexivity.
Qed.
Print Assumptions parse_document_terminates.
