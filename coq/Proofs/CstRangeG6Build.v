(* Proofs/CstRangeG6Build.v -- C13 / C18 on the capstone fragment, stage S6: what is OBSERVED of the tokens handled by
   the callback of any level (Proofs/CstFullS4Build.v): a token that is no character data does to a
   context what it does to its shadow, so the observations of CstRangeFBuild.v / CstRangeBuild.v apply;
   the end of an open run of character data with the storage of its Text node made explicit. *)
From Coq Require Import Ascii String.
From Coq Require Import List NArith PeanoNat Bool Lia ZifyBool ZifyN ZifyNat.
Import ListNotations.
From RX Require Import Generated.
From RX.Model Require Import Base CharClass Stream Tokenizer Doc Builder Parse.
From RX.Spec Require Cst CstText CstEnt Detector Scope CstNs CstFull.
From RX.Spec Require Import Text.
From RX.Proofs Require Import Tactics CstLex CstBuild CstNsLex CstNsView CstNsBuild CstFullBuild.
From RX.Proofs Require Import CstEntText CstEntCFloor CstEntCBuild CstFullS2Build CstFullS4Build TextMerge.
From RX.Proofs Require Import CstRangeDefs CstRangeBuild CstRangeTDefs CstRangeTBuild CstRangeEDefs CstRangeEText CstRangeEFrags.
From RX.Proofs Require Import CstRangeFDefs CstRangeFBuild CstRangeFItems CstRangeFS2 CstRangeG6Defs.
Open Scope N_scope.

Import CstNs.

(* what a node holds against its description *)
Definition fkshape6 (k : node_kind) (s : xshape) : Prop :=
  match s with XS sh => fkshape k sh | XSOwnedText => exists bs, k = KText (Owned bs) end.

Section ObsN.
Variable text : bytes.
Notation ev := (CstBuild.tok_ev text).
Notation evl := (CstEntCBuild.evl text).

Lemma evl_plain_inv lvl tk c c' : plain_tok tk ->
  (forall pr lo r, tk = TElementEnd (EClose pr lo) r ->
     c_entity_floor c < len_N (c_parent_prefixes c) /\ 0 < len_N (c_parent_prefixes c)) ->
  evl lvl tk c = Ok c' -> exists x', ev tk (sh c) = Ok x' /\ c' = back c x'.
Proof.
  intros Hp Hcl H. rewrite (evl_shadow text lvl tk c Hp Hcl) in H.
  destruct (ev tk (sh c)) as [x'| | |]; cbn [rmap] in H; try discriminate. injection H as <-. exists x'. split; reflexivity.
Qed.

Lemma comment_obs_n lvl s r c c' : evl lvl (TComment s r) c = Ok c' ->
  rng c' = rng c ++ [r] /\ d_ns_values (c_doc c') = d_ns_values (c_doc c).
Proof.
  intros H. destruct (evl_plain_inv lvl (TComment s r) c c' ltac:(split; discriminate) ltac:(intros ? ? ? Ht; discriminate Ht) H) as (x' & E & ->).
  split; [apply (comment_rng text _ _ _ _ E)|apply (comment_nsv text _ _ _ _ E)].
Qed.

Lemma pi_obs_n lvl t v r c c' : evl lvl (TPI t v r) c = Ok c' ->
  rng c' = rng c ++ [r] /\ d_ns_values (c_doc c') = d_ns_values (c_doc c).
Proof.
  intros H. destruct (evl_plain_inv lvl (TPI t v r) c c' ltac:(split; discriminate) ltac:(intros ? ? ? Ht; discriminate Ht) H) as (x' & E & ->).
  split; [apply (pi_rng text _ _ _ _ _ E)|apply (pi_nsv text _ _ _ _ _ E)].
Qed.

Lemma close_obs_n lvl pfx loc r c c' A old B :
  c_entity_floor c < len_N (c_parent_prefixes c) ->
  evl lvl (TElementEnd (EClose pfx loc) r) c = Ok c' ->
  rng c = A ++ old :: B -> length A = N.to_nat (c_parent_id c) ->
  rng c' = A ++ (fst old, snd r) :: B /\ d_ns_values (c_doc c') = d_ns_values (c_doc c).
Proof.
  intros Hfl H Hr Hl.
  destruct (evl_plain_inv lvl (TElementEnd (EClose pfx loc) r) c c' ltac:(split; discriminate) ltac:(intros pr0 lo0 r0 _; lia) H) as (x' & E & ->).
  split; [apply (close_rng text _ _ _ _ _ _ _ _ E Hr Hl)|apply (close_nsv text _ _ _ _ _ E)].
Qed.
End ObsN.

Section FlushN.
Variable text : bytes.
Variable D : list Scope.binding.
Hypothesis HD : forall l, NoDup l -> incl l D -> N.of_nat (length l) <= 65535.
Notation CIn := (CstNsBuild.CIn text D).

Lemma Run_nsv c0 c frs : Run c0 c frs -> d_ns_values (c_doc c) = d_ns_values (c_doc c0).
Proof.
  unfold Run. destruct frs as [|t0 r].
  - intros (_ & _ & _ & _ & _ & _ & _ & _ & H). rewrite <- H. reflexivity.
  - intros (nodes' & _ & (_ & _ & _ & _ & _ & _ & _ & _ & H)). rewrite <- H. reflexivity.
Qed.

(* c0: the context before the run; K: the Text node of the run if there is one *)
Lemma flush_run_n_r inh c0 c fr : CIn inh c0 -> c_after_text c0 = [] -> c_entity_floor c0 = 0 -> c_ld c0 = ld_init -> RunR c0 c fr ->
  exists cr K,
    reset_after_text text c = Ok cr /\ c_after_text cr = [] /\ Stepn c0 (sh cr) K [] /\ CIn inh (sh cr) /\
    c_ld cr = c_ld c /\ c_tag_name cr = c_tag_name c /\ c_entity_floor cr = c_entity_floor c /\
    d_ns_tree (c_doc cr) = d_ns_tree (c_doc c0) /\
    match map fst fr with
    | [] => K = []
    | _ => exists st, K = [(Some (c_parent_id c0), KText st)] /\
                     storage_bytes text st = concat (map (cow_bytes text) (map fst fr))
    end /\
    Forall2 fkshape6 (map snd K) (map snd (node_of_group (map gdesc fr))) /\
    rng cr = rng c0 ++ map fst (node_of_group (map gdesc fr)) /\
    d_ns_values (c_doc cr) = d_ns_values (c_doc c0).
Proof.
  intros I Hat Hf Hl [HR Hg].
  assert (Hrest : forall cr, reset_after_text text c = Ok cr ->
            rng cr = rng c0 ++ map fst (node_of_group (map gdesc fr)) /\ d_ns_values (c_doc cr) = d_ns_values (c_doc c0)).
  { intros cr Er. pose proof (reset_after_text_Rsame text c cr Er) as (R1 & _).
    destruct (reset_after_text_nsv text _ _ Er) as [V1 _]. rewrite R1, V1, Hg, (Run_nsv _ _ _ HR). split; [|reflexivity].
    f_equal. destruct fr as [|[t0 r0] [|[t1 r1] rest]]; cbn [map firstn gdesc fst snd node_of_group]; try reflexivity.
    - destruct t0; reflexivity.
    - destruct t0; reflexivity. }
  destruct fr as [|[t0 r0] rest0]; cbn [map fst] in *; cbn [Run] in HR.
  - pose proof HR as (H1 & H2 & H3 & H4 & H5 & H6 & H7 & H8 & H9).
    assert (Hatc : c_after_text c = []) by (rewrite <- H7; exact Hat).
    assert (Er : reset_after_text text c = Ok c) by (unfold reset_after_text; rewrite Hatc; reflexivity).
    exists c, []. split; [exact Er|]. split; [exact Hatc|].
    assert (F : same_frame c0 (sh c)) by (eapply same_frame_trans; [exact HR|apply sh_frame]).
    split; [apply (Stepn_frame c0 c0 (sh c) [] [] F); [rewrite Hf; reflexivity|rewrite Hl; reflexivity|apply Stepn_refl]|].
    split; [apply (CIn_frame text D inh c0 (sh c) F eq_refl I)|]. split; [reflexivity|]. split; [reflexivity|]. split; [reflexivity|].
    split; [rewrite <- H9; reflexivity|]. split; [reflexivity|]. split; [constructor|]. apply (Hrest c Er).
  - destruct HR as (nodes' & M & S).
    destruct (run_reset_n_r text D HD inh c0 nodes' t0 (map fst rest0) I M) as (c2 & stg & E2 & S2 & I2 & A2 & T2 & Tr2 & B2 & B3).
    destruct (reset_frame text _ c c2 S E2) as (cr & Er & Fr & L1 & L2 & L3).
    assert (F : same_frame c2 (sh cr)) by (eapply same_frame_trans; [exact Fr|apply sh_frame]).
    destruct (sn_keep _ _ _ _ (proj1 S2)) as (_ & _ & K4 & K5).
    exists cr, [(Some (c_parent_id c0), KText stg)]. split; [exact Er|].
    split; [destruct Fr as (_ & _ & _ & _ & _ & _ & F7 & _); rewrite <- F7; exact A2|].
    split; [apply (Stepn_frame c0 c2 (sh cr) _ _ F); [rewrite K4, Hf; reflexivity|rewrite K5, Hl; reflexivity|exact S2]|].
    split; [apply (CIn_frame text D inh c2 (sh cr) F eq_refl I2)|].
    split; [exact L1|]. split; [exact L2|]. split; [exact L3|].
    split; [destruct Fr as (_ & _ & _ & _ & _ & _ & _ & _ & F9); rewrite <- F9; exact Tr2|].
    split; [exists stg; split; [reflexivity|exact B2]|]. split; [|apply (Hrest cr Er)].
    cbn [map snd]. destruct rest0 as [|[t1 r1] rest1]; cbn [map fst] in B3; subst stg.
    + cbn [map gdesc fst snd node_of_group]. destruct t0 as [s|bs]; cbn [cow_storage node_of_group map snd];
        (constructor; [|constructor]); cbn [fkshape6 fkshape stored]; [reflexivity|eexists; reflexivity].
    + cbn [map gdesc fst snd node_of_group]. destruct t0 as [s|bs]; cbn [node_of_group map snd];
        (constructor; [|constructor]); cbn [fkshape6]; eexists; reflexivity.
Qed.
End FlushN.

(* ------------------------------------------------------------------------------------------ *)
(* start tags at any depth: as Proofs/CstFullS4Build.v [start_tag_gn], with the run on the shadow *)
(* ------------------------------------------------------------------------------------------ *)
Section StartNR.
Variable text : bytes.
Variable D : list Scope.binding.
Hypothesis HD : forall l, NoDup l -> incl l D -> N.of_nat (length l) <= 65535.
Variable es0 : list entity.

Notation W := (CstLex.W text).
Notation ev := (CstBuild.tok_ev text).
Notation evl := (CstEntCBuild.evl text).
Notation CIn := (CstNsBuild.CIn text D).
Notation kmn := (CstNsBuild.kmn text).
Notation norms := (CstFullS4Build.norms text es0).
Notation entries_transport := (CstFullS4Build.entries_transport text es0).

Lemma start_tag_gn_r lvl inh p name xs ws_end empty post c ld' :
  W p ([60] ++ r_qname name ++ flat_map r_entry (raws xs) ++ ws_end ++ tag_tail empty ++ post) ->
  let own := own_bindings (CstFullBuild.dens xs) in
  let sc := Scope.scope_of own inh in
  q_local name <> [] -> Scope.bytes_eqb (q_prefix name) xmlns_b = false ->
  sentries_ok text es0 (p + 1 + blen (r_qname name)) xs ->
  norms (p + 1 + blen (r_qname name)) xs (c_ld c) ld' ->
  forallb CstFull.ns_entry_ok (CstFullBuild.dens xs) = true -> Scope.prefixes_unique own = true ->
  is_bound (Scope.resolve_elem sc (q_prefix name)) = true ->
  forallb (fun e => match e with EAttr _ n _ => is_bound (Scope.resolve_attr sc (q_prefix n)) | EDecl _ _ _ => true end) (CstFullBuild.dens xs) = true ->
  enames_distinct (map (fun a => (fst (fst a), snd (fst a))) (sem_attrs sc (CstFullBuild.dens xs))) = true ->
  incl own D ->
  CIn inh (sh c) -> c_entities c = es0 -> room c ->
  len_N (d_attrs (c_doc c)) + N.of_nat (length (sem_attrs sc (CstFullBuild.dens xs))) < u32_max ->
  len_N (d_ns_tree (c_doc c)) + own_cost own sc <= u32_max ->
  let q' := p + 1 + blen (r_qname name) + blen (flat_map r_entry (raws xs)) + blen ws_end in
  let id := len_N (d_nodes (c_doc c)) in
  exists c' kind ext,
    (let! c1 := evs context (evl lvl) (start_toks_ns p name (raws xs)) c in evl lvl (end_tok q' empty) c1) = Ok c' /\
    Step0n (sh c) (sh c') [(Some (c_parent_id c), kind)] ext /\ length ext = length (sem_attrs sc (CstFullBuild.dens xs)) /\
    (forall m, kmn (c_doc c') (Some (c_parent_id c), kind)
                 (c_parent_id c, VElem (ns_of (Scope.resolve_elem sc (q_prefix name))) (q_local name) (sem_attrs sc (CstFullBuild.dens xs)) sc m)) /\
    c_after_text c' = [] /\ tn_set c' /\
    len_N (d_ns_tree (c_doc c')) = len_N (d_ns_tree (c_doc c)) + own_cost own sc /\
    c_ld c' = ld' /\ c_entity_floor c' = c_entity_floor c /\
    (let! c1 := evs context ev (start_toks_ns p name (raws xs)) (sh c) in ev (end_tok q' empty) c1) = Ok (sh c') /\
    if empty
    then CIn inh (sh c') /\ c_parent_id c' = c_parent_id c /\ c_parent_prefixes c' = c_parent_prefixes c
    else CIn sc (sh c') /\ c_parent_id c' = id /\
         c_parent_prefixes c' = c_parent_prefixes c ++ [sl (p + 1) (p + 1 + blen (q_prefix name))] /\
         c_awaiting c' = [].
Proof.
  intros HW own sc Hn N1 Hok Hnorms Hns N6 N2e N2a N7 HinD I Hes R Hlim Hnsc q' id.
  destruct (start_tag_ok_g text D HD es0 inh p name xs ws_end empty post (sh c) HW Hn N1 Hok Hns N6 N2e N2a N7 HinD I
              ltac:(split; [exact Hes|reflexivity]) R Hlim Hnsc)
    as (x' & kind & ext & E & S & Lext & Hkm & Hat & Htn & Lns & Hfin).
  fold q' in E.
  destruct (sn_keep _ _ _ _ S) as (_ & _ & Kf & Kl). change (c_entity_floor (sh c)) with 0 in Kf. change (c_ld (sh c)) with ld_init in Kl.
  exists (bk (c_entity_floor c) ld' x'), kind, ext.
  rewrite (sh_bk _ _ x' Kf Kl).
  split.
  { unfold start_toks_ns in *. cbn [evs] in *.
    (* ElementStart *)
    match goal with |- context [evl lvl ?tk c] => set (tk0 := tk) in * end.
    assert (Hp0 : plain_tok tk0) by (split; discriminate).
    rewrite (evl_shadow text lvl tk0 c Hp0) by (intros pr lo r0 Ht; discriminate Ht).
    destruct (ev tk0 (sh c)) as [x0| | |] eqn:E0; cbn [bind rmap] in E |- *; try discriminate.
    destruct (plain_keeps text (process_text text) tk0 (sh c) x0 Hp0 E0) as [F0 L0].
    pose proof (start_entities text (process_text text) _ _ _ _ _ E0) as Es0.
    change (c_entity_floor (sh c)) with 0 in F0. change (c_ld (sh c)) with ld_init in L0. change (c_entities (sh c)) with (c_entities c) in Es0.
    rewrite bk_back.
    (* the entries *)
    rewrite (entries_transport lvl xs _ (bk (c_entity_floor c) (c_ld c) x0) ld' Hok Hnorms ltac:(rewrite bk_entities, Es0; exact Hes)).
    rewrite bk_floor, (sh_bk _ _ x0 F0 L0).
    destruct (evs context ev (entry_toks (p + 1 + blen (r_qname name)) (raws xs)) x0) as [x1| | |] eqn:E1; cbn [bind rmap] in E |- *; try discriminate.
    (* ElementEnd *)
    assert (Hp1 : plain_tok (end_tok q' empty)) by (split; discriminate).
    assert (K1 : c_entity_floor x1 = 0 /\ c_ld x1 = ld_init).
    { destruct (plain_keeps text (process_text text) (end_tok q' empty) x1 x' Hp1 E) as [A B0]. split; congruence. }
    destruct K1 as [F1 L1].
    rewrite (evl_shadow text lvl (end_tok q' empty) _ Hp1) by (intros pr lo r0 Ht; unfold end_tok in Ht; destruct empty; discriminate Ht).
    rewrite (sh_bk _ _ x1 F1 L1), E. cbn [rmap]. rewrite bk_back, bk_floor, bk_ld. reflexivity. }
  change (sh c) with (sh c) in S.
  split; [exact S|]. split; [exact Lext|]. split; [exact Hkm|]. split; [exact Hat|]. split; [exact Htn|].
  split; [exact Lns|]. split; [reflexivity|]. split; [reflexivity|]. split; [exact E|].
  destruct empty; exact Hfin.
Qed.

End StartNR.

Print Assumptions flush_run_n_r.
Print Assumptions start_tag_gn_r.
