(* Proofs/CstUBuild.v -- the attribute part of Proofs/CstBuild.v with the two facts about an
   attribute that the builder really needs (instead of Cst.wf_attr): the value needs no
   normalisation and the name is not "xmlns".  Used for the Unicode fragment (Spec/CstU.v). *)
From Coq Require Import Ascii String.
From Coq Require Import List NArith PeanoNat Bool Lia ZifyBool ZifyN ZifyNat.
Import ListNotations.
From RX Require Import Generated.
From RX.Model Require Import Base CharClass Stream Tokenizer Doc Builder Parse.
From RX.Spec Require Cst.
From RX.Proofs Require Import Tactics CstLex CstBuild.
Open Scope N_scope.

Definition attr_okb (a : Cst.attr) : Prop :=
  existsb (fun x => (x =? 38) || (x =? 9) || (x =? 10) || (x =? 13)) (Cst.a_value a) = false /\
  Cst.a_name a <> xmlns_str.

Section UBuild.
Variable text : bytes.

Lemma tok_attr_g q a more c : W text q (Cst.r_attr a ++ more) -> attr_okb a ->
  tok_ev text (attr_tok q a) c = Ok (set_cur_attrs c (c_cur_attrs c ++ [ta_of q a])).
Proof.
  intros HW [Hv Hx]. destruct (attr_slices text _ _ _ HW) as [S1 S2]. cbv zeta in S1, S2.
  unfold tok_ev, Parse.token, attr_tok. cbv zeta. cbn [token_with].
  unfold process_attribute, normalize_attribute. cbv zeta. rewrite S2, Hv.
  cbn [bind]. rewrite (slice_empty text), S1.
  change (bytes_eqb [] xmlns_str) with false. cbv iota.
  rewrite bytes_eqb_neq by exact Hx. rewrite ?andb_false_r. reflexivity.
Qed.

Lemma attrs_evs_g more : forall attrs q c,
  W text q (flat_map Cst.r_attr attrs ++ more) -> Forall attr_okb attrs ->
  evs context (tok_ev text) (attr_toks q attrs) c = Ok (set_cur_attrs c (c_cur_attrs c ++ tas q attrs)).
Proof.
  induction attrs as [|a attrs IH]; intros q c HW Hok; cbn [attr_toks evs tas].
  - rewrite app_nil_r. destruct c; reflexivity.
  - inversion Hok as [|? ? H1 H2]; subst.
    cbn [flat_map] in HW. rewrite <- app_assoc in HW.
    rewrite (tok_attr_g q a _ c HW H1). cbn [bind].
    rewrite IH; [|apply (W_app _ _ _ _ HW)|exact H2].
    cbn [c_cur_attrs set_cur_attrs]. rewrite <- app_assoc. reflexivity.
Qed.


Notation tok_ev := (CstBuild.tok_ev text).
Notation km := (CstBuild.km text).
Notation tas_names := (CstBuild.tas_names text).
Notation reset_after_text_ok := (CstBuild.reset_after_text_ok text).
Notation slice_empty := (CstBuild.slice_empty text).
Notation resolve_namespaces_ok := (CstBuild.resolve_namespaces_ok text).
Notation resolve_attributes_ok := (CstBuild.resolve_attributes_ok text).
Notation get_ns_ok := (CstBuild.get_ns_ok text).
Notation attrs_list_new := (CstBuild.attrs_list_new text).
Notation km_ext := (CstBuild.km_ext text).

Lemma start_tag_ok_g p name attrs ws_end empty post c :
  W text p ([60] ++ name ++ flat_map Cst.r_attr attrs ++ ws_end ++ tag_tail empty ++ post) ->
  name <> [] -> Forall attr_okb attrs -> NoDup (map Cst.a_name attrs) ->
  CI c -> room c -> len_N (d_attrs (c_doc c)) + len_N attrs < u32_max ->
  let q' := p + 1 + blen name + blen (flat_map Cst.r_attr attrs) + blen ws_end in
  let id := len_N (d_nodes (c_doc c)) in
  exists c' ar,
    (let! c1 := evs context tok_ev (start_toks p name attrs) c in tok_ev (end_tok q' empty) c1) = Ok c' /\
    Step0 c c' [(Some (c_parent_id c), KElement None (sl (p + 1) (p + 1 + blen name)) ar (1, 1))]
          (map ad_of (tas (p + 1 + blen name) attrs)) /\
    (forall m, km (d_attrs (c_doc c')) (Some (c_parent_id c), KElement None (sl (p + 1) (p + 1 + blen name)) ar (1, 1))
       (c_parent_id c, Cst.VElem name (map (fun a => (Cst.a_name a, Cst.a_value a)) attrs) m)) /\
    CI c' /\ c_after_text c' = [] /\ tn_set c' /\
    if empty
    then c_parent_id c' = c_parent_id c /\ c_parent_prefixes c' = c_parent_prefixes c
    else c_parent_id c' = id /\ c_parent_prefixes c' = c_parent_prefixes c ++ [sl (p + 1) (p + 1)] /\
         c_awaiting c' = [].
Proof.
  intros HW Hne Hok Hnd I R Hlim q' id.
  pose proof (W_app _ _ _ _ HW) as HW1. change (blen [60]) with 1 in HW1.
  pose proof (W_app _ _ _ _ HW1) as HW2.
  destruct (tas_names _ _ _ HW2) as (Tn & Tv & Tp).
  unfold start_toks. cbn [evs].
  (* ElementStart *)
  unfold tok_ev at 1, Parse.token at 1. cbn [token_with].
  rewrite reset_after_text_ok by apply (ci_at _ I). cbn [bind].
  rewrite slice_empty. change (bytes_eqb [] xmlns_str) with false. cbv iota. cbn [bind].
  fold tok_ev. fold (tn_of p name).
  (* attributes *)
  rewrite (attrs_evs_g _ attrs _ _ HW2 Hok). cbn [bind].
  cbn [c_cur_attrs set_tag_name set_after_text]. rewrite (ci_cur _ I). cbn [app].
  (* ElementEnd *)
  unfold tok_ev, Parse.token, end_tok. cbn [token_with].
  rewrite reset_after_text_ok by (cbn; lia). cbn [bind].
  unfold process_element.
  cbn [c_tag_name set_after_text set_cur_attrs set_tag_name tn_name tn_of].
  unfold slice_len at 1. cbn [sl sl_start sl_end].
  replace (p + 1 + blen name - (p + 1) =? 0) with false
    by (destruct name; [congruence|rewrite blen_cons; lia]).
  rewrite resolve_namespaces_ok; [|apply (ci_ns _ I)|apply (ci_tree _ I)|apply (ci_pid _ I)|apply (ci_par _ I)].
  cbn [bind].
  rewrite resolve_attributes_ok.
  2:{ cbn. exact Tp. }
  2:{ cbn. rewrite Tn. exact Hnd. }
  2:{ cbn. rewrite tas_len. exact Hlim. }
  cbn [bind].
  cbn [c_cur_attrs c_doc set_ns_start_idx set_after_text set_cur_attrs set_tag_name set_doc c_tag_name tn_of
       tn_prefix tn_prefix_pos tn_name tn_pos].
  rewrite get_ns_ok; [|cbn; apply (ci_tree _ I)|apply slice_empty].
  set (A := d_attrs (c_doc c)). set (T := tas (p + 1 + blen name) attrs).
  set (ar := attr_range A T).
  set (kind := KElement None (sl (p + 1) (p + 1 + blen name)) ar (1, 1)).
  assert (Hkm : forall m ext, km ((A ++ map ad_of T) ++ ext) (Some (c_parent_id c), kind)
                 (c_parent_id c, Cst.VElem name (map (fun a => (Cst.a_name a, Cst.a_value a)) attrs) m)).
  { intros m ext. apply km_ext. split; [reflexivity|]. cbn [snd kind].
    split; [reflexivity|]. split; [apply (W_slice _ _ _ _ HW1)|]. split.
    - unfold ar. rewrite attrs_list_new. unfold T.
      clear - Tn Tv. revert Tn Tv. generalize (tas (p + 1 + blen name) attrs). intros L. revert L.
      induction attrs as [|a attrs IH]; intros [|t L] Tn Tv; cbn [map] in *; try discriminate; [reflexivity|].
      injection Tn as Tn1 Tn2. injection Tv as Tv1 Tv2. rewrite Tn1, Tv1. f_equal. apply IH; assumption.
    - unfold ar, attr_range. rewrite len_N_app, len_N_map. destruct T; cbn [fst snd]; lia. }
  destruct empty; cbv iota; cbn [bind]; fold kind;
  (match goal with |- context [append_node kind ?r ?cc] =>
    destruct (append_node_ok kind r cc) as (nodes' & E & M & Ln);
      [apply (ci_pid _ I)|apply (ci_aw _ I)|exact R|]; rewrite E; clear E end);
  cbn [bind]; cbn in M, Ln.
  - eexists. exists ar. split; [reflexivity|].
    match goal with |- Step0 c ?c' _ _ /\ _ => assert (S : Step0 c c' [(Some (c_parent_id c), kind)] (map ad_of T)) end.
    { constructor.
      - repeat split; cbn; try reflexivity. rewrite (ci_ns _ I). apply (ci_tree _ I).
      - cbn. symmetry. apply (ci_cur _ I).
      - exact M.
      - reflexivity.
      - clear. induction T; constructor; [reflexivity|assumption]. }
    split; [exact S|]. split.
    { intros m. cbn. rewrite <- (app_nil_r (A ++ map ad_of T)). apply Hkm. }
    split.
    { eapply CI_intro; [exact I|exact S| | | | |].
      - cbn. apply (ci_pp _ I).
      - cbn. rewrite Ln. pose proof (ci_pid _ I). lia.
      - cbn. destruct (ci_par _ I) as (par & k & Ep & Hk). exists par, k. split; [|exact Hk].
        unfold absn. cbn. rewrite M. rewrite nth_error_app1; [exact Ep|].
        pose proof (ci_pid _ I) as Hp. rewrite <- absn_len in Hp. unfold len_N, absn in Hp. lia.
      - cbn. constructor; [|constructor]. rewrite Ln. lia.
      - cbn. lia. }
    split; [reflexivity|]. split.
    { unfold tn_set. cbn. unfold slice_len. cbn. destruct name; [congruence|rewrite blen_cons; lia]. }
    split; reflexivity.
  - eexists. exists ar. split; [reflexivity|].
    match goal with |- Step0 c ?c' _ _ /\ _ => assert (S : Step0 c c' [(Some (c_parent_id c), kind)] (map ad_of T)) end.
    { constructor.
      - repeat split; cbn; try reflexivity. rewrite (ci_ns _ I). apply (ci_tree _ I).
      - cbn. symmetry. apply (ci_cur _ I).
      - exact M.
      - reflexivity.
      - clear. induction T; constructor; [reflexivity|assumption]. }
    split; [exact S|]. split.
    { intros m. cbn. rewrite <- (app_nil_r (A ++ map ad_of T)). apply Hkm. }
    split.
    { eapply CI_intro; [exact I|exact S| | | | |].
      - cbn. destruct (c_parent_prefixes c); discriminate.
      - cbn. rewrite Ln. lia.
      - cbn. exists (Some (c_parent_id c)), kind. split; [|reflexivity].
        unfold absn. cbn. rewrite M.
        replace (N.to_nat (len_N (d_nodes (c_doc c)))) with (length (map abs_nd (d_nodes (c_doc c))))
          by (unfold len_N; rewrite map_length; lia).
        rewrite nth_error_app2 by lia. rewrite Nat.sub_diag. reflexivity.
      - cbn. constructor.
      - cbn. lia. }
    split; [reflexivity|]. split.
    { unfold tn_set. cbn. unfold slice_len. cbn. destruct name; [congruence|rewrite blen_cons; lia]. }
    repeat split.
Qed.

End UBuild.

Print Assumptions start_tag_ok_g.
