(* Proofs/StrictModel.v -- STRICT variants of the model functions that hide a panic site of the
   source: where the model uses a total function (truncated subtraction, total list functions,
   a swallowed Panic), the strict variant returns [Panic site] exactly where the source would
   panic.  Definitions only; the theorems are in Proofs/Strict*.v (table in Proofs/Strict.v). *)
From Coq Require Import Ascii String.
From Coq Require Import List NArith Bool.
Import ListNotations.
From RX Require Import Generated.
From RX.Model Require Import Base CharClass Stream Tokenizer Doc Builder Parse Api Debug.
Open Scope N_scope.

(* ---------------------------------------------------------------------------------------- *)
(* Api: Descendants::{next, nth, next_back}: NodeId::from(self.from + idx)                   *)
(* ---------------------------------------------------------------------------------------- *)

(* NodeId::from(usize): debug_assert!(id <= u32::MAX); NodeId::new: debug_assert!(id < u32::MAX) *)
Definition node_id_from (k : N) : res N :=
  if u32_max <? k then Panic P_debug_assert else node_id_new k.

Definition desc_item (r : option N * slice_it) : res (option N * slice_it) :=
  match fst r with
  | Some k => let! id := node_id_from k in Ok (Some id, snd r)
  | None => Ok (None, snd r)
  end.
Definition desc_next_s (it : slice_it) := desc_item (sit_next it).
Definition desc_next_back_s (it : slice_it) := desc_item (sit_next_back it).
Definition desc_nth_s (n : N) (it : slice_it) := desc_item (sit_nth n it).

(* ---------------------------------------------------------------------------------------- *)
(* Debug: print_children, `depth - 2`                                                       *)
(* ---------------------------------------------------------------------------------------- *)

Section Debug.
Variable d : document.

(* the stack of the source: (children iterator, depth) *)
Fixpoint print_loop_s (fuel : nat) (stack : list (children_it * N)) (lines : N) (maxh : N)
  : res (N * N) :=
  match fuel with
  | O => OutOfFuel
  | S fu =>
    match stack with
    | [] => Ok (lines, maxh)
    | (it, depth) :: rest =>
      let! (o, it') := children_next d it in
      match o with
      | Some child =>
        let! (n, descend) := print_node_lines d child in
        if descend then
          let! cit := children d child in
          let st := (cit, depth + 2) :: (it', depth) :: rest in
          print_loop_s fu st (lines + n) (N.max maxh (len_N st))
        else print_loop_s fu ((it', depth) :: rest) (lines + n) maxh
      | None =>
        match rest with
        | [] => print_loop_s fu rest lines maxh
        | _ =>
          (* writeln_indented!(depth - 2, ..): usize underflow *)
          if depth <? 2 then Panic P_overflow else print_loop_s fu rest (lines + 2) maxh
        end
      end
    end
  end.

Definition debug_document_s : res (N * N) :=
  let! hc := has_children d 0 in
  if negb hc then Ok (0, 0)
  else
    let! it := children d 0 in
    let! (lines, maxh) := print_loop_s (S (2 * length (d_nodes d) + 2)) [(it, 1)] 1 1 in
    Ok (lines + 1, maxh).
End Debug.

Section WithText.
Variable text : bytes.
Notation stream := Stream.stream.

(* ---------------------------------------------------------------------------------------- *)
(* Stream primitives                                                                        *)
(* ---------------------------------------------------------------------------------------- *)

(* Stream::as_bytes / starts_with: &self.span.text.as_bytes()[self.pos..self.end] *)
Definition as_bytes_guard (s : stream) : bool := (s_pos s <=? s_end s) && (s_end s <=? tlen text).
Definition avail_s (s : stream) : res bytes :=
  if as_bytes_guard s then Ok (avail s) else Panic P_slice.
Definition starts_with_s (s : stream) (p : bytes) : res bool :=
  let! a := avail_s s in Ok (prefix_b p a).

(* Stream::chars: self.span.as_str()[self.pos..self.end].chars() -- the slice is taken eagerly *)
Definition chars_guard (s : stream) : bool :=
  as_bytes_guard s && is_boundary text (s_pos s) && is_boundary text (s_end s).
Definition next_char_s (s : stream) : res (option (N * N)) :=
  if chars_guard s then next_char s else Panic P_slice.

(* Stream::try_consume_byte: the debug_assert of advance is not swallowed *)
Definition try_consume_byte_s (c : N) (s : stream) : res (bool * stream) :=
  match curr_byte_opt s with
  | Some x => if x =? c then let! s' := advance 1 s in Ok (true, s') else Ok (false, s)
  | None => Ok (false, s)
  end.

(* Stream::skip_string: str::from_utf8(text).unwrap() on the expected text *)
Definition skip_string_s (p : bytes) (s : stream) : res stream :=
  let! sw := starts_with_s s p in
  if negb sw then
    let! tp := gen_text_pos text s in
    if valid_utf8_b p then Err (InvalidString p tp) else Panic P_unwrap
  else advance (blen p) s.

(* advance_until2: memchr2 over as_bytes() *)
Definition advance_until2_s (n1 n2 : N) (s : stream) : res stream :=
  let! a := avail_s s in
  match find_idx (fun x => (x =? n1) || (x =? n2)) a with
  | Some i => advance i s
  | None => Err UnexpectedEndOfStream
  end.

(* ---------------------------------------------------------------------------------------- *)
(* Namespaces::push_ns: debug_assert_ne!(name, Some(""))                                     *)
(* ---------------------------------------------------------------------------------------- *)

Definition push_ns_s (name : option str) (uri : storage) (d : document) : res document :=
  match name with
  | Some s => match str_bytes text s with
              | [] => Panic P_debug_assert
              | _ => push_ns text name uri d
              end
  | None => push_ns text name uri d
  end.

(* ---------------------------------------------------------------------------------------- *)
(* resolve_namespaces: (start..len).into() -- both debug_asserts of ShortRange::from         *)
(* ---------------------------------------------------------------------------------------- *)

Definition ns_range_s (start len : N) : res range :=
  if u32_max <? len then Err NamespacesLimitReached
  else if (u32_max <? start) || (u32_max <? len) then Panic P_debug_assert
  else Ok (start, len).

Definition resolve_namespaces_s (c : context) : res (range * context) :=
  let d := c_doc c in
  let! pnd := match nth_N (d_nodes d) (c_parent_id c) with Some x => Ok x | None => Panic P_index end in
  match nd_kind pnd with
  | KElement _ _ _ parent_ns =>
    if c_ns_start_idx c =? len_N (d_ns_tree d) then Ok (parent_ns, c)
    else
      let '(pa, pe) := parent_ns in
      let! d := resolve_ns_loop text (c_ns_start_idx c) (N_range pa (N.to_nat (pe - pa))) d in
      let! r := ns_range_s (c_ns_start_idx c) (len_N (d_ns_tree d)) in
      Ok (r, set_doc c d)
  | _ =>
    let! r := ns_range_s (c_ns_start_idx c) (len_N (d_ns_tree d)) in Ok (r, c)
  end.

(* process_element calls resolve_namespaces first (after the tag-name test); resolve_namespaces
   is pure, so the strict process_element is: the strict resolve_namespaces as a monitor, then
   the model (which recomputes the same value) *)
Definition process_element_s (e : element_end) (r : range) (c : context) : res context :=
  if slice_len (tn_name (c_tag_name c)) =? 0 then process_element text e r c
  else match resolve_namespaces_s c with
       | Panic p => Panic p
       | _ => process_element text e r c
       end.

(* ---------------------------------------------------------------------------------------- *)
(* process_attribute with the strict push_ns                                                *)
(* ---------------------------------------------------------------------------------------- *)

Definition process_attribute_s (r : range) (qname_len eq_len : N) (prefix local value : slice)
           (c : context) : res context :=
  let! (value, c) := normalize_attribute text value c in
  let vb := storage_bytes text value in
  let pb := slice_bytes text prefix in
  let lb := slice_bytes text local in
  if bytes_eqb pb xmlns_str then
    if bytes_eqb lb xmlns_str then err_from text (fst r) InvalidElementNamePrefix
    else if bytes_eqb vb ns_xmlns_uri then err_from text (fst r) UnexpectedXmlnsUri
    else
      let is_xml_ns_uri := bytes_eqb vb ns_xml_uri in
      if bytes_eqb lb ns_xml_prefix && negb is_xml_ns_uri then err_from text (fst r) InvalidXmlPrefixUri
      else if negb (bytes_eqb lb ns_xml_prefix) && is_xml_ns_uri then err_from text (fst r) UnexpectedXmlUri
      else
        let! ex := ns_exists text (c_doc c) (c_ns_start_idx c) (Some lb) in
        if ex then err_from text (fst r) (DuplicatedNamespace lb)
        else if negb is_xml_ns_uri then
          let! d := push_ns_s (Some (SIn local)) value (c_doc c) in Ok (set_doc c d)
        else Ok c
  else if (slice_len prefix =? 0) && bytes_eqb lb xmlns_str then
    if bytes_eqb vb ns_xml_uri then err_from text (fst r) UnexpectedXmlUri
    else if bytes_eqb vb ns_xmlns_uri then err_from text (fst r) UnexpectedXmlnsUri
    else
      let! ex := ns_exists text (c_doc c) (c_ns_start_idx c) None in
      if ex then err_from text (fst r) (DuplicatedAttribute lb)
      else let! d := push_ns_s None value (c_doc c) in Ok (set_doc c d)
  else
    Ok (set_cur_attrs c (c_cur_attrs c ++
          [{| ta_prefix := prefix; ta_local := local; ta_value := value; ta_range := r;
              ta_qname_len := qname_len; ta_eq_len := eq_len |}])).

(* ---------------------------------------------------------------------------------------- *)
(* process_cdata: text.split_at(pos1), &rest[2..], &rest[1..] on the &str [l]               *)
(* ---------------------------------------------------------------------------------------- *)

Fixpoint cdata_loop_s (fuel : nat) (l buf : bytes) : res bytes :=
  match fuel with
  | O => OutOfFuel
  | S fu =>
    match find_idx (fun x => x =? 13) l with
    | None => Ok (buf ++ l)
    | Some pos1 =>
      (* split_at: pos1 must be a char boundary of l *)
      if negb (is_boundary l pos1) then Panic P_slice else
      let line := firstn (N.to_nat pos1) l in
      let rest := skipn (N.to_nat pos1) l in
      let buf := buf ++ line ++ [10] in
      let k := match rest with _ :: y :: _ => if y =? 10 then 2 else 1 | _ => 1 end in
      (* &rest[k..] *)
      if negb (is_boundary rest k) then Panic P_slice
      else cdata_loop_s fu (skipn (N.to_nat k) rest) buf
    end
  end.
Definition cdata_norm_s (l : bytes) : res bytes := cdata_loop_s (S (length l)) l [].

Definition process_cdata_s (txt : slice) (r : range) (c : context) : res context :=
  let tb := slice_bytes text txt in
  if mem_b 13 tb then let! nb := cdata_norm_s tb in append_text (CowOwned nb) r c
  else append_text (CowBorrowed txt) r c.

(* ---------------------------------------------------------------------------------------- *)
(* the callback and parse with the strict builder functions (the tokenizer is generic in its  *)
(* callback, so it needs no copy for these sites)                                             *)
(* ---------------------------------------------------------------------------------------- *)

Definition token_with_s (ptext : slice -> range -> context -> res context) (tk : Tokenizer.token) (c : context)
  : res context :=
  match tk with
  | TAttribute r qname_len eq_len prefix local value =>
    process_attribute_s r qname_len eq_len prefix local value c
  | TElementEnd e r =>
    let! c := reset_after_text text c in
    process_element_s e r c
  | TCdata t r => process_cdata_s t r c
  | _ => token_with text ptext tk c
  end.

Fixpoint parse_content_lvl_s (lvl : nat) (s : stream) (c : context) {struct lvl}
  : res (stream * context) :=
  match lvl with
  | O => OutOfFuel
  | S lvl' =>
    parse_content text context
      (token_with_s (process_text_with text (parse_content_lvl_s lvl'))) s c
  end.

Definition process_text_s := process_text_with text (parse_content_lvl_s entity_levels).
Definition token_s := token_with_s process_text_s.

Definition init_context_s (opt : options) : res context :=
  let d0 := {| d_nodes := [{| nd_parent := None; nd_prev_sibling := None; nd_next_subtree := None;
                              nd_last_child := None; nd_kind := KRoot; nd_range := (0, tlen text) |}];
               d_attrs := []; d_ns_values := []; d_ns_tree := [] |} in
  let! d := push_ns_s (ns_name xml_ns) (ns_uri xml_ns) d0 in
  Ok {| c_opt := opt; c_ns_start_idx := 1; c_cur_attrs := []; c_awaiting := [];
        c_parent_prefixes := [empty_slice]; c_entities := []; c_after_text := [];
        c_parent_id := 0; c_tag_name := tag_name_null; c_entity_floor := 0;
        c_ld := ld_init; c_doc := d |}.

(* parse with the strict builder *)
Definition parse_builder_strict (opt : options) : res document :=
  let! c := init_context_s opt in
  let! c := parse_document text context token_s (allow_dtd opt) c in
  let d := c_doc c in
  let! it := children d 0 in
  let! has_elem := children_any_element (S (length (d_nodes d))) d it in
  if negb has_elem then Err NoRootNode
  else if 1 <? len_N (c_parent_prefixes c) then Err UnclosedRootNode
  else Ok d.

End WithText.
