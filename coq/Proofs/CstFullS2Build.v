(* Proofs/CstFullS2Build.v -- the capstone fragment, stage S2: the builder side of pieces
   (Proofs/CstTextBuild.v over a UTF-8 text and with the namespace invariant of
   Proofs/CstNsBuild.v): the fragment appended for a segment of a run, the run as a whole and the
   reset that ends it, [normalize_attribute] on a value given by pieces. *)
From Coq Require Import Ascii String.
From Coq Require Import List NArith PeanoNat Bool Lia ZifyBool ZifyN ZifyNat.
Import ListNotations.
From RX Require Import Generated.
From RX.Model Require Import Base CharClass Stream Tokenizer Doc Builder Parse.
From RX.Spec Require Cst CstText Scope.
From RX.Spec Require Import Text CstFull.
From RX.Proofs Require Import CstLex CstBuild CstULex TextMachine TextMerge CstTextSem CstTextLex CstTextBuild CstNsBuild.
From RX.Proofs Require Import CstFullLex CstFullBuild CstFullS2Sem CstFullS2Lex.
Open Scope N_scope.

Section UBuild.
Variable text : bytes.

Notation W := (CstLex.W text).
Notation WV := (CstULex.WV text).
Notation tok_ev := (CstBuild.tok_ev text).

Lemma frag_bytes_u p s more : W p (r_seg s ++ more) -> seg_wf_u s -> cow_bytes text (frag p s) = seg_sem s.
Proof.
  intros HW Hwf. destruct s as [l|bs]; cbn [frag r_seg seg_wf_u] in *.
  - cbv zeta. destruct (existsb (fun y => (y =? 38) || (y =? 13)) (T.r_pieces l)) eqn:E; [reflexivity|].
    cbn [cow_bytes]. rewrite (W_slice _ _ _ _ HW). destruct Hwf as (_ & H1 & H2 & _).
    destruct (existsb_or_false _ _ _ E) as [E1 E2]. cbn [seg_sem].
    rewrite (chunks_no_amp_u 60) by (try apply ss_vpieces_u; assumption).
    rewrite decode_lits, norm_eol_nocr by exact E2. reflexivity.
  - destruct (mem_b 13 bs) eqn:E; [reflexivity|]. cbn [cow_bytes seg_sem].
    rewrite <- !app_assoc in HW. pose proof (W_app _ _ _ _ HW) as HW1. change (blen T.cdata_open) with 9 in HW1.
    rewrite (W_slice _ _ _ _ HW1). rewrite mem_b_existsb in E. rewrite norm_eol_nocr by exact E. reflexivity.
Qed.

Lemma tok_seg_u p s more c : WV p (r_seg s ++ more) -> seg_wf_u s -> LD c ->
  tok_ev (seg_tok p s) c = append_text (frag p s) (seg_range p s) c.
Proof.
  intros HWv Hwf Hld. pose proof (WV_W _ _ _ HWv) as HW. destruct s as [l|bs]; cbn [seg_tok frag r_seg seg_wf_u seg_range] in *.
  - (* a text token *)
    destruct Hwf as (Hne & H1 & H2 & H3). pose proof (ss_vpieces_u l H1 H2) as Hv.
    unfold CstBuild.tok_ev, Parse.token. cbn [token_with]. unfold process_text. cbv zeta.
    destruct (existsb (fun y => (y =? 38) || (y =? 13)) (T.r_pieces l)) eqn:E.
    + pose proof (W_app _ _ _ _ HW) as HWe. pose proof (W_le _ _ _ HWe) as Hle.
      rewrite (process_text_with_chunks_fueled text _ _ _ c (sst (p + blen (T.r_pieces l)) p (T.r_pieces l ++ more))
                 (flat_map T.piece_chunks l)).
      * unfold LD in Hld. rewrite Hld. change (0 <? 0) with false. cbn [seg_sem]. unfold seg_range. cbn [r_seg].
        destruct (CV_vpieces 60 l Hv) as [Hok Hnr].
        rewrite text_chunks_decode_partial by exact Hnr.
        unfold text_result.
        assert (Hval : valid_utf8_b (decode_chunks (flat_map T.piece_chunks l)) = true).
        { apply NoPanicUtf8.valid_iff_Valid. apply CV_decode. exact Hok. }
        rewrite Hval.
        destruct (decode_chunks (flat_map T.piece_chunks l)) as [|y out] eqn:Ed; [|reflexivity].
        exfalso. destruct l as [|pc l']; [congruence|]. cbn [flat_map] in Ed.
        rewrite decode_chunks_gen in Ed. apply Forall_cons_iff in Hv. destruct Hv as [Hv _].
        destruct (T.piece_chunks pc) as [|ch chs] eqn:Ech.
        { destruct pc as [b0|? ?|?|?]; cbn in Ech; try discriminate. destruct Hv as (Hb0 & _).
          destruct b0; [congruence|discriminate]. }
        cbn [app] in Ed. revert Ed. apply gen_cons_ne.
        destruct ch as [x|b1]; [exact I|].
        destruct (CV_vpiece 60 pc Hv) as [_ Hn]. rewrite Ech in Hn. inversion Hn as [|? ? Hh _]. cbv beta. intros Eb. apply Hh. rewrite Eb. reflexivity.
      * cbn [sl slice_bytes sl_start sl_end]. unfold slice_bytes. cbn [sl sl_start sl_end].
        rewrite (W_sub _ _ _ _ HW). exact E.
      * cbn [fst snd]. apply stream_from_substr_W. exact HW.
      * apply (reads_pieces_u text 60); auto.
      * cbn [sst s_rest]. rewrite app_length. pose proof (chunks_le_bytes_u 60 l Hv). lia.
    + unfold process_text_with. cbv zeta. unfold slice_bytes at 1. cbn [sl sl_start sl_end].
      rewrite (W_sub _ _ _ _ HW). rewrite E. reflexivity.
  - (* a CDATA token *)
    unfold CstBuild.tok_ev, Parse.token. cbn [token_with]. rewrite process_cdata_spec.
    rewrite <- !app_assoc in HW. pose proof (W_app _ _ _ _ HW) as HW1. change (blen T.cdata_open) with 9 in HW1.
    rewrite (W_slice _ _ _ _ HW1). f_equal.
    unfold seg_range. cbn [r_seg]. rewrite !blen_app. change (blen T.cdata_open) with 9. change (blen T.cdata_close) with 3.
    f_equal. lia.
Qed.

(* ---- the value of an attribute or of a namespace declaration ---- *)
Lemma normalize_attribute_ok_u vs ps quote more c : WV vs (T.r_pieces ps ++ [quote] ++ more) ->
  Forall (bvpiece quote) ps -> LD c ->
  normalize_attribute text (sl vs (vs + blen (T.r_pieces ps))) c =
  Ok (if needs_norm (T.r_pieces ps) then Owned (T.value_sem ps)
      else Borrowed (SIn (sl vs (vs + blen (T.r_pieces ps)))), c).
Proof.
  intros HWv Hv Hld. pose proof (WV_W _ _ _ HWv) as HW. unfold normalize_attribute. cbv zeta. rewrite (W_slice _ _ _ _ HW).
  fold (needs_norm (T.r_pieces ps)). destruct (needs_norm (T.r_pieces ps)) eqn:E; [|reflexivity].
  set (cs := flat_map T.piece_chunks ps).
  destruct (attr_chunks_total_top cs) as [t' Hp].
  pose proof (attr_chunks_normalise cs t' Hp) as Hn.
  unfold entity_levels.
  pose proof (W_le _ _ _ (W_app _ _ _ _ HW)) as Hle.
  rewrite (norm_attr_lvl_chunks_fueled text _ (c_entities c) _ tb_new (c_ld c)
             (sst (vs + blen (T.r_pieces ps)) vs (T.r_pieces ps ++ [quote] ++ more)) cs t').
  - cbn [bind]. unfold tb_finish. rewrite Hn.
    assert (Hval : valid_utf8_b (norm_attr_chunks cs) = true).
    { apply NoPanicUtf8.valid_iff_Valid. apply CV_norm_attr. apply (CV_vpieces quote ps Hv). }
    rewrite Hval. cbn [bind]. rewrite set_ld_same. reflexivity.
  - cbn [sl sl_start sl_end]. apply stream_from_substr_W. exact HW.
  - unfold LD in Hld. rewrite Hld. change (0 <? 0) with false.
    apply (areads_pieces_u text quote); try assumption. reflexivity.
  - unfold LD in Hld. rewrite Hld. exact Hp.
  - cbn [sst s_rest]. rewrite app_length. pose proof (chunks_le_bytes_u quote ps Hv). unfold cs. lia.
Qed.

Lemma value_plain_u q ps : Forall (bvpiece q) ps -> needs_norm (T.r_pieces ps) = false ->
  T.value_sem ps = T.r_pieces ps.
Proof.
  intros Hv Hn. unfold T.value_sem. unfold needs_norm in Hn.
  assert (H38 : existsb (fun x => x =? 38) (T.r_pieces ps) = false).
  { clear - Hn. induction (T.r_pieces ps) as [|x l IH]; [reflexivity|]. cbn [existsb] in *. apply orb_false_iff in Hn.
    destruct Hn as [H1 H2]. rewrite (IH H2). lia. }
  rewrite (chunks_no_amp_u q ps Hv H38). apply norm_attr_lits_plain.
  clear - Hn. induction (T.r_pieces ps) as [|x l IH]; [reflexivity|]. cbn [existsb] in *. apply orb_false_iff in Hn.
  destruct Hn as [H1 H2]. rewrite (IH H2). lia.
Qed.

(* ------------------------------------------------------------------------------------------ *)
(* the context during a run, and the reset that ends it (with the namespace invariant)         *)
(* ------------------------------------------------------------------------------------------ *)
Variable D : list Scope.binding.
Hypothesis HD : forall l, NoDup l -> incl l D -> N.of_nat (length l) <= 65535.
Notation CIn := (CstNsBuild.CIn text D).

Lemma first_frag_n inh t r c : CIn inh c -> room c -> c_after_text c = [] ->
  exists nodes',
    append_text t r c = Ok (set_after_text (run_ctx c nodes') [t]) /\
    map abs_nd nodes' = absn (c_doc c) ++ [(Some (c_parent_id c), KText (cow_storage t))] /\
    len_N nodes' = len_N (d_nodes (c_doc c)) + 1.
Proof.
  intros I R Hat. unfold append_text. rewrite Hat. fold (cow_storage t).
  destruct (append_node_ok (KText (cow_storage t)) r c) as (nodes' & E & M & Ln);
    [apply (cn_pid _ _ _ _ I)|apply (cn_aw _ _ _ _ I)|exact R|].
  rewrite E. cbn [bind]. exists nodes'. split; [|split; assumption].
  cbn [is_element_kind]. unfold run_ctx. cbn. rewrite Hat. reflexivity.
Qed.

Lemma run_reset_n inh c nodes' t0 rest :
  CIn inh c ->
  map abs_nd nodes' = absn (c_doc c) ++ [(Some (c_parent_id c), KText (cow_storage t0))] ->
  exists c2 st,
    reset_after_text text (set_after_text (run_ctx c nodes') (t0 :: rest)) = Ok c2 /\
    Stepn c c2 [(Some (c_parent_id c), KText st)] [] /\ CIn inh c2 /\ c_after_text c2 = [] /\
    c_tag_name c2 = c_tag_name c /\ d_ns_tree (c_doc c2) = d_ns_tree (c_doc c) /\
    storage_bytes text st = concat (map (cow_bytes text) (t0 :: rest)).
Proof.
  intros I M.
  assert (Hfin : forall nodes2 st, map abs_nd nodes2 = absn (c_doc c) ++ [(Some (c_parent_id c), KText st)] ->
            let c2 := set_after_text (run_ctx c nodes2) [] in
            Stepn c c2 [(Some (c_parent_id c), KText st)] [] /\ CIn inh c2 /\ c_after_text c2 = [] /\
            c_tag_name c2 = c_tag_name c /\ d_ns_tree (c_doc c2) = d_ns_tree (c_doc c)).
  { intros nodes2 st M2 c2.
    assert (S : Stepn c c2 [(Some (c_parent_id c), KText st)] []).
    { split; [|split; reflexivity]. constructor.
      - repeat split.
      - reflexivity.
      - exact M2.
      - cbn. rewrite app_nil_r. reflexivity.
      - apply NsExt_same; reflexivity. }
    split; [exact S|]. split; [|repeat split].
    eapply (CIn_step text D HD); [exact I|exact S|reflexivity|reflexivity|reflexivity| |cbn; lia].
    cbn. constructor; [|constructor].
    assert (L : length nodes2 = (length (d_nodes (c_doc c)) + 1)%nat).
    { pose proof (f_equal (@length _) M2) as L. rewrite map_length, app_length in L. unfold absn in L.
      rewrite map_length in L. exact L. }
    unfold len_N. lia. }
  destruct rest as [|t1 rest].
  - (* a single fragment: nothing to merge *)
    exists (set_after_text (run_ctx c nodes') []), (cow_storage t0). split; [reflexivity|].
    destruct (Hfin nodes' _ M) as (S & I' & A & Tn & Tr).
    split; [exact S|]. split; [exact I'|]. split; [exact A|]. split; [exact Tn|]. split; [exact Tr|].
    cbn [map concat]. rewrite cow_storage_bytes, app_nil_r. reflexivity.
  - (* several fragments: the Text node gets the concatenation *)
    destruct (map_snoc_inv abs_nd _ _ _ M) as (l0 & nd & El & M0 & Mr). subst nodes'.
    unfold abs_nd in Mr. injection Mr as Mp Mk.
    set (joined := concat (map (cow_bytes text) (t0 :: t1 :: rest))).
    exists (set_after_text (run_ctx c (l0 ++ [nd_set_kind nd (KText (Owned joined))])) []), (Owned joined).
    split.
    + unfold reset_after_text. cbn [c_after_text set_after_text].
      unfold merge_text. cbv zeta. cbn [c_doc set_after_text run_ctx set_awaiting set_doc d_nodes set_nodes].
      rewrite rev_unit, Mk. cbn [c_after_text set_after_text]. fold joined.
      unfold upd_node. replace (N.to_nat (len_N (l0 ++ [nd]) - 1)) with (length l0)
        by (unfold len_N; rewrite app_length; cbn; lia).
      rewrite list_upd_snoc. cbn [bind]. reflexivity.
    + assert (M2 : map abs_nd (l0 ++ [nd_set_kind nd (KText (Owned joined))]) =
                   absn (c_doc c) ++ [(Some (c_parent_id c), KText (Owned joined))]).
      { rewrite map_app, M0. cbn [map]. unfold abs_nd at 1. unfold nd_set_kind. cbn [nd_parent nd_kind]. rewrite Mp. reflexivity. }
      destruct (Hfin _ _ M2) as (S & I' & A & Tn & Tr).
      split; [exact S|]. split; [exact I'|]. split; [exact A|]. split; [exact Tn|]. split; [exact Tr|]. reflexivity.
Qed.

End UBuild.

Print Assumptions tok_seg_u.
Print Assumptions normalize_attribute_ok_u.
Print Assumptions run_reset_n.
