(* Proofs/CstSoundMain.v -- C08 soundness on the Cst fragment: the run of the tokenizer with the
   real callback, inverted.  Start tags, the content loop (all nesting levels at once, as the crate
   does it), the prolog and the epilog; the main theorem and its corollary with CstMain.v. *)
From Coq Require Import String.
From Coq Require Import List Arith NArith Bool Lia ZifyBool ZifyN ZifyNat.
Import ListNotations.
From RX Require Import Generated.
From RX.Model Require Import Base CharClass Stream Tokenizer Doc Builder Parse.
From RX.Spec Require Cst.
From RX.Proofs Require Import Tactics CstLex CstTree.
From RX.Proofs Require CstBuild RejectProofs.
From RX.Proofs Require Import CstSound CstSoundLex CstSoundBuild.
Open Scope N_scope.

Definition levels := list (list Cst.item * bytes).

Fixpoint r_levels (names : list bytes) (lv : levels) : bytes :=
  match names, lv with
  | n :: ns, (cs, w) :: lv' => r_items cs ++ [60; 47] ++ n ++ w ++ [62] ++ r_levels ns lv'
  | _, _ => []
  end.

Definition lv_wf (lv : levels) : Prop :=
  Forall (fun cw => wf_items (fst cw) = true /\ Cst.no_adjacent_text (fst cw) = true /\
                    Cst.wf_ws (snd cw) = true) lv.

Definition head_nontext (lv : levels) : Prop :=
  match lv with (i :: _, _) :: _ => Cst.is_text i = false | _ => True end.

Lemma NoDup_names_distinct : forall l : list Cst.bytes, NoDup l -> Cst.names_distinct l = true.
Proof.
  induction 1 as [|n r Hn _ IH]; [reflexivity|]. cbn [Cst.names_distinct]. rewrite IH, andb_true_r.
  apply negb_true_iff.
  destruct (existsb (fun m => if list_eq_dec N.eq_dec n m then true else false) r) eqn:E; [|reflexivity]. exfalso.
  apply existsb_exists in E. destruct E as (m & Hm & Hd). destruct (list_eq_dec N.eq_dec n m); [subst; auto|discriminate].
Qed.

Section Main.
Variable text : bytes.
Hypothesis HF : Frag text.
Notation T := (Parse.token text).
Notation st := (CstLex.st text).
Notation W := (CstLex.W text).
Notation sb := (slice_bytes text).
Notation Sim := (Sim text).
Notation InTag := (InTag text).
Notation evs := (CstLex.evs context T).

(* attributes only grow *)
Definition Ext (c c' : context) : Prop := exists ext, attrs_of c' = attrs_of c ++ ext.
Lemma Ext_refl c : Ext c c. Proof. exists []. rewrite app_nil_r. reflexivity. Qed.
Lemma Ext_trans c1 c2 c3 : Ext c1 c2 -> Ext c2 c3 -> Ext c1 c3.
Proof. intros [e1 H1] [e2 H2]. exists (e1 ++ e2). rewrite H2, H1, app_assoc. reflexivity. Qed.
Lemma Ext_eq c c' : attrs_of c' = attrs_of c -> Ext c c'.
Proof. intros H. exists []. rewrite app_nil_r. exact H. Qed.

Definition AttrRaw (c : context) : Prop :=
  Forall (fun a => exists s, ad_value a = Borrowed (SIn s)) (attrs_of c).
Lemma AttrRaw_ext c c' : Ext c c' -> AttrRaw c' -> AttrRaw c.
Proof. intros [e H] A. unfold AttrRaw in *. rewrite H in A. apply Forall_app in A. tauto. Qed.

Lemma not_xmlns_at p x l : W p (x ++ l) -> x <> xmlns_bytes.
Proof.
  intros HW ->. pose proof (W_noprefix text _ _ _ HW (fr_xmlns _ HF) ltac:(discriminate)) as H.
  unfold xmlns_bytes in H. rewrite prefix_b_app_same in H. discriminate.
Qed.

Lemma no_amp_cr l : Suf l -> existsb (fun x => (x =? 38) || (x =? 13)) l = false.
Proof.
  intros [Hp Ha _]. destruct (existsb _ l) eqn:E; [|reflexivity]. exfalso.
  apply existsb_exists in E. destruct E as (x & Hx & Hd). rewrite forallb_forall in Hp. rewrite Forall_forall in Ha.
  specialize (Hp x Hx). specialize (Ha x Hx). destruct (plain_char _ Hp) as (_ & _ & H13). lia.
Qed.

(* ---- the attributes of a start tag ---- *)
Definition val_clean (a : Cst.attr) : Prop :=
  forallb (fun x => negb (x =? 9) && negb (x =? 10)) (Cst.a_value a) = true.

Lemma attrs_steps : forall attrs q rest c1 c2 stk tp tn cur,
  W q (flat_map Cst.r_attr attrs ++ rest) -> InTag c1 stk tp tn cur ->
  evs (attr_toks q attrs) c1 = Ok c2 ->
  InTag c2 stk tp tn (cur ++ map Cst.a_name attrs) /\ rows c2 = rows c1 /\ attrs_of c2 = attrs_of c1 /\
  Forall (fun a => Cst.a_name a <> xmlns_bytes) attrs /\
  exists tas, c_cur_attrs c2 = c_cur_attrs c1 ++ tas /\
    Forall2 (fun a ta => (exists s, ta_value ta = Borrowed (SIn s)) -> val_clean a) attrs tas.
Proof.
  induction attrs as [|a attrs IH]; intros q rest c1 c2 stk tp tn cur HW HI H.
  - cbn [attr_toks CstLex.evs] in H. inversion H; subst. cbn [map]. rewrite app_nil_r.
    split; [exact HI|]. split; [reflexivity|]. split; [reflexivity|]. split; [constructor|].
    exists []. rewrite app_nil_r. split; [reflexivity|constructor].
  - cbn [attr_toks CstLex.evs] in H. ib H c1' H1. cbn [flat_map] in HW. rewrite <- app_assoc in HW.
    destruct (CstBuild.attr_slices text q a _ HW) as (Sn & Sv). cbv zeta in Sn, Sv.
    assert (Hnx : Cst.a_name a <> xmlns_bytes).
    { unfold Cst.r_attr in HW. rewrite <- !app_assoc in HW. apply (W_app text) in HW.
      eapply not_xmlns_at. exact HW. }
    unfold attr_tok in H1. cbv zeta in H1.
    destruct (step_attr text _ _ _ _ _ _ _ _ _ _ _ _ HI (CstBuild.slice_empty text _) ltac:(rewrite Sn; exact Hnx) H1)
      as (HI' & R1 & A1 & _ & ta & Hta & Hval).
    rewrite Sn in HI'.
    destruct (IH _ _ _ _ _ _ _ _ (W_app text _ _ _ HW) HI' H) as (HI2 & R2 & A2 & Hx & tas & Htas & HF2).
    rewrite <- app_assoc in HI2. split; [exact HI2|]. split; [congruence|]. split; [congruence|].
    split; [constructor; assumption|].
    exists (ta :: tas). split; [rewrite Htas, Hta, <- app_assoc; reflexivity|].
    constructor; [|exact HF2]. intros [s Hs]. destruct Hval as [[_ Hcl]|[bs Hbs]]; [|congruence].
    rewrite Sv in Hcl. unfold val_clean. apply forallb_forall. intros x Hx0.
    destruct (negb (x =? 9) && negb (x =? 10)) eqn:E; [reflexivity|exfalso].
    assert (existsb (fun x => (x =? 38) || (x =? 9) || (x =? 10) || (x =? 13)) (Cst.a_value a) = true).
    { apply existsb_exists. exists x. split; [exact Hx0|]. lia. }
    congruence.
Qed.

(* ---- a whole start tag ---- *)
Lemma tag_sound p name attrs ws_end open l' c c1 c2 c' stk :
  W p ([60] ++ name ++ flat_map Cst.r_attr attrs ++ ws_end ++ tag_tail (negb open) ++ l') ->
  forallb attr_raw_ok attrs = true -> Sim c stk ->
  T (TElementStart (sl (p + 1) (p + 1)) (sl (p + 1) (p + 1 + blen name)) p) c = Ok c1 ->
  evs (attr_toks (p + 1 + blen name) attrs) c1 = Ok c2 ->
  T (end_tok (p + 1 + blen name + blen (flat_map Cst.r_attr attrs) + blen ws_end) (negb open)) c2 = Ok c' ->
  Sim c' (if open then name :: stk else stk) /\ Ext c c' /\ c_after_text c' = [] /\
  name <> xmlns_bytes /\ Forall (fun a => Cst.a_name a <> xmlns_bytes) attrs /\
  Cst.names_distinct (map Cst.a_name attrs) = true /\
  (AttrRaw c' -> forallb Cst.wf_attr attrs = true) /\
  (exists ns ar nss pid sl0, rows c' = rows c ++ [(Some pid, KElement ns sl0 ar nss)]).
Proof.
  intros HW Hraw HS H1 H2 H3.
  pose proof (W_app text _ _ _ HW) as HW1. change (blen [60]) with 1 in HW1.
  pose proof (W_slice text _ _ _ HW1) as Sname.
  pose proof (W_app text _ _ _ HW1) as HW2.
  destruct (step_start text _ _ _ _ _ _ HS (CstBuild.slice_empty text _) H1) as (HI & R1 & A1 & _).
  destruct (attrs_steps _ _ _ _ _ _ _ _ _ HW2 HI H2) as (HI2 & R2 & A2 & Hx & tas & Htas & HF2).
  cbn [app] in HI2.
  assert (Hc1 : c_cur_attrs c1 = []).
  { destruct HI as [_ _ _ _ Hc _ _]. destruct (c_cur_attrs c1); [reflexivity|discriminate]. }
  rewrite Hc1 in Htas. cbn [app] in Htas.
  unfold end_tok in H3.
  destruct (step_tagend text (if negb open then EEmpty else EOpen) _ _ _ _ _ _ _ HI2 (CstBuild.slice_empty text _)
              ltac:(destruct open; auto) H3) as (Hnd & HS' & (ns & ar & nss & Hrows) & A3 & Hat & _).
  rewrite Sname in HS'.
  split; [destruct open; exact HS'|].
  split; [exists (map (ad_of None) (c_cur_attrs c2)); rewrite A3, A2, A1; reflexivity|].
  split; [exact Hat|]. split; [eapply not_xmlns_at; exact HW1|]. split; [exact Hx|].
  split; [apply NoDup_names_distinct; exact Hnd|]. split.
  - intros HA. unfold AttrRaw in HA. rewrite A3, Htas in HA. apply Forall_app in HA. destruct HA as [_ HA].
    clear - Hraw HF2 HA. revert tas HF2 HA. induction attrs as [|a attrs IH]; intros tas HF2 HA; [reflexivity|].
    inversion HF2 as [|? ta ? tas' Ha Hr]; subst. cbn [map] in HA. inversion HA as [|? ? Hh Ht]; subst.
    cbn [forallb] in Hraw |- *. apply andb_true_iff in Hraw. destruct Hraw as [Hr1 Hr2].
    rewrite (IH Hr2 _ Hr Ht), andb_true_r. apply wf_attr_of_raw; [exact Hr1|]. apply Ha. exact Hh.
  - exists ns, ar, nss, (c_parent_id c2), (sl (p + 1) (p + 1 + blen name)). rewrite Hrows, R2, R1. reflexivity.
Qed.

(* ---- the content loop ---- *)
Definition Closed (depth : N) (l : bytes) (stk : list bytes) (s' : stream) (c' : context) : Prop :=
  exists lv l' p' opn rest,
    stk = opn ++ rest /\ length opn = length lv /\ N.of_nat (length lv) = depth + 1 /\
    l = r_levels opn lv ++ l' /\ s' = st p' l' /\ W p' l' /\ Sim c' rest /\ c_after_text c' = [] /\
    (text_stop l -> head_nontext lv) /\ (AttrRaw c' -> lv_wf lv).

Lemma Closed_prepend depth i l1 stk s' c' :
  Closed depth l1 stk s' c' -> (AttrRaw c' -> Cst.wf_item i = true) ->
  (Cst.is_text i = true -> text_stop l1) ->
  (text_stop (Cst.r_item i ++ l1) -> Cst.is_text i = false) ->
  Closed depth (Cst.r_item i ++ l1) stk s' c'.
Proof.
  intros (lv & l' & p' & opn & rest & E1 & E2 & E3 & E4 & E5 & E6 & E7 & E8 & E9 & E10) Hwf Htx Hhd.
  destruct lv as [|[cs w] lv']; [cbn [length] in E3; lia|].
  destruct opn as [|n opn']; [cbn [length] in E2; lia|].
  exists ((i :: cs, w) :: lv'), l', p', (n :: opn'), rest.
  split; [exact E1|]. split; [exact E2|]. split; [exact E3|]. split.
  { rewrite E4. cbn [r_levels r_items]. rewrite <- !app_assoc. reflexivity. }
  split; [exact E5|]. split; [exact E6|]. split; [exact E7|]. split; [exact E8|]. split.
  { intros Hs. cbn [head_nontext]. apply Hhd. exact Hs. }
  intros HA. specialize (E10 HA). inversion E10 as [|? ? (A1 & A2 & A3) Hr]; subst. cbn [fst snd] in *.
  constructor; [|exact Hr]. cbn [fst snd wf_items]. rewrite (Hwf HA), A1. split; [reflexivity|]. split; [|exact A3].
  destruct cs as [|c0 r]; [reflexivity|].
  change (Cst.no_adjacent_text (i :: c0 :: r)) with
    (negb (Cst.is_text i && Cst.is_text c0) && Cst.no_adjacent_text (c0 :: r)).
  rewrite A2, andb_true_r. apply negb_true_iff. destruct (Cst.is_text i) eqn:Ei; [|reflexivity]. cbn [andb].
  specialize (E9 (Htx eq_refl)). cbn [head_nontext] in E9. exact E9.
Qed.

Definition elem_ok (name : bytes) (attrs : list Cst.attr) (ws_end : bytes) : Prop :=
  Cst.wf_name name = true /\ name <> xmlns_bytes /\ forallb Cst.wf_attr attrs = true /\
  Forall (fun a => Cst.a_name a <> xmlns_bytes) attrs /\
  Cst.names_distinct (map Cst.a_name attrs) = true /\ Cst.wf_ws ws_end = true.

Lemma wf_elem_intro name attrs ws_end body : elem_ok name attrs ws_end ->
  match body with
  | None => True
  | Some (cs, ws2) => Cst.wf_ws ws2 = true /\ Cst.no_adjacent_text cs = true /\ wf_items cs = true
  end -> Cst.wf_item (Cst.IElem name attrs ws_end body) = true.
Proof.
  intros (H1 & H2 & H3 & H4 & H5 & H6) Hb. rewrite wf_item_elem. rewrite H1, H3, H5, H6.
  destruct (list_eq_dec N.eq_dec name xmlns_b) as [E|_]; [exfalso; apply H2; exact E|]. cbn [negb andb].
  assert (Hx : forallb (fun a => negb (if list_eq_dec N.eq_dec (Cst.a_name a) xmlns_b then true else false)) attrs = true).
  { apply forallb_forall. intros a Ha. rewrite Forall_forall in H4. specialize (H4 a Ha).
    destruct (list_eq_dec N.eq_dec (Cst.a_name a) xmlns_b) as [E|_]; [exfalso; apply H4; exact E|reflexivity]. }
  rewrite Hx. cbn [andb]. destruct body as [[cs ws2]|]; [|reflexivity].
  destruct Hb as (B1 & B2 & B3). rewrite B1, B2, B3. reflexivity.
Qed.

Lemma Closed_nest depth name attrs ws_end l1 stk s' c' :
  Closed (depth + 1) l1 (name :: stk) s' c' -> (AttrRaw c' -> elem_ok name attrs ws_end) ->
  Closed depth ([60] ++ name ++ flat_map Cst.r_attr attrs ++ ws_end ++ [62] ++ l1) stk s' c'.
Proof.
  intros (lv & l' & p' & opn & rest & E1 & E2 & E3 & E4 & E5 & E6 & E7 & E8 & E9 & E10) Hok.
  destruct lv as [|[cs_in w_in] [|[cs w] lv']]; [cbn [length] in E3; lia|cbn [length] in E3; lia|].
  destruct opn as [|n0 [|n1 opn']]; [cbn [length] in E2; lia|cbn [length] in E2; lia|].
  cbn [app] in E1. injection E1 as En Estk. subst n0.
  set (item := Cst.IElem name attrs ws_end (Some (cs_in, w_in))).
  exists ((item :: cs, w) :: lv'), l', p', (n1 :: opn'), rest.
  split; [exact Estk|]. split; [cbn [length] in *; lia|]. split; [cbn [length] in *; lia|]. split.
  { rewrite E4. cbn [r_levels r_items]. unfold item. rewrite r_item_elem. rewrite <- !app_assoc. cbn [app].
    rewrite <- ?app_assoc. reflexivity. }
  split; [exact E5|]. split; [exact E6|]. split; [exact E7|]. split; [exact E8|]. split.
  { intros _. reflexivity. }
  intros HA. specialize (E10 HA). inversion E10 as [|? ? (A1 & A2 & A3) Hr]; subst.
  inversion Hr as [|? ? (B1 & B2 & B3) Hr']; subst. cbn [fst snd] in *.
  constructor; [|exact Hr']. cbn [fst snd wf_items]. split; [|split; [|exact B3]].
  - rewrite B1, andb_true_r. unfold item. apply wf_elem_intro; [apply Hok; exact HA|]. auto.
  - destruct cs as [|c0 r]; [reflexivity|].
    change (Cst.no_adjacent_text (item :: c0 :: r)) with
      (negb (Cst.is_text item && Cst.is_text c0) && Cst.no_adjacent_text (c0 :: r)).
    rewrite B2. reflexivity.
Qed.

Lemma Closed_prepend_empty depth name attrs ws_end l1 stk s' c' :
  Closed depth l1 stk s' c' -> (AttrRaw c' -> elem_ok name attrs ws_end) ->
  Closed depth ([60] ++ name ++ flat_map Cst.r_attr attrs ++ ws_end ++ [47; 62] ++ l1) stk s' c'.
Proof.
  intros HC Hok.
  pose proof (Closed_prepend depth (Cst.IElem name attrs ws_end None) l1 stk s' c' HC) as H.
  rewrite r_item_elem in H. rewrite <- !app_assoc in H. apply H.
  - intros HA. apply wf_elem_intro; [apply Hok; exact HA|exact I].
  - discriminate.
  - reflexivity.
Qed.

Lemma Closed_close depth name ws2 l1 stk' s' c' :
  Closed (depth - 1) l1 stk' s' c' -> 0 < depth -> Cst.wf_ws ws2 = true ->
  Closed depth ([60; 47] ++ name ++ ws2 ++ [62] ++ l1) (name :: stk') s' c'.
Proof.
  intros (lv & l' & p' & opn & rest & E1 & E2 & E3 & E4 & E5 & E6 & E7 & E8 & E9 & E10) Hd Hw.
  exists (([], ws2) :: lv), l', p', (name :: opn), rest.
  split; [rewrite E1; reflexivity|]. split; [cbn [length]; lia|]. split; [cbn [length]; lia|]. split.
  { rewrite E4. cbn [r_levels r_items app]. rewrite <- !app_assoc. reflexivity. }
  split; [exact E5|]. split; [exact E6|]. split; [exact E7|]. split; [exact E8|]. split; [intros _; exact I|].
  intros HA. constructor; [cbn; auto|apply E10; exact HA].
Qed.

Lemma Closed_base name ws2 l' p' stk' c' : W p' l' -> Sim c' stk' -> c_after_text c' = [] ->
  Cst.wf_ws ws2 = true ->
  Closed 0 ([60; 47] ++ name ++ ws2 ++ [62] ++ l') (name :: stk') (st p' l') c'.
Proof.
  intros HW HS Hat Hw. exists [([], ws2)], l', p', [name], stk'.
  split; [reflexivity|]. split; [reflexivity|]. split; [reflexivity|]. split.
  { cbn [r_levels r_items app]. rewrite <- !app_assoc. reflexivity. }
  split; [reflexivity|]. split; [exact HW|]. split; [exact HS|]. split; [exact Hat|]. split; [intros _; exact I|].
  intros _. constructor; [cbn; auto|constructor].
Qed.

Lemma text_stop_lt l : text_stop (60 :: l). Proof. reflexivity. Qed.

Lemma content_sound : forall fuel depth p l c s' c' stk,
  W p l -> Sim c stk -> N.of_nat (length stk) = depth + 1 ->
  (c_after_text c <> [] -> text_stop l) ->
  parse_content_loop text context T fuel depth (st p l) c = Ok (s', c') ->
  Ext c c' /\ (Closed depth l stk s' c' \/
               exists stk2 p2 l2, s' = st p2 l2 /\ W p2 l2 /\ Sim c' stk2 /\ stk2 <> []).
Proof.
  induction fuel as [|fu IH]; intros depth p l c s' c' stk HW HS Hlen Hat H;
    cbn [parse_content_loop] in H; [noerr|].
  rewrite (at_end_st text) in H by exact HW.
  destruct l as [|x l0].
  { inversion H; subst. split; [apply Ext_refl|]. right. exists stk, p, [].
    split; [reflexivity|]. split; [exact HW|]. split; [exact HS|].
    destruct stk; [cbn [length] in Hlen; lia|discriminate]. }
  cbn [curr_byte_unchecked CstLex.st s_rest bind] in H. fold (st p (x :: l0)) in H.
  destruct (x =? 60) eqn:E60.
  2:{ (* text *)
    ib H q Hq. destruct q as [s1 c1].
    destruct (inv_text text HF context T _ _ _ _ _ _ HW ltac:(lia) Hq) as (bs & l1 & El & Hwf & Hstop & -> & HW1 & Hev).
    assert (Hat0 : c_after_text c = []).
    { destruct (c_after_text c) eqn:Ea; [reflexivity|]. exfalso. specialize (Hat ltac:(discriminate)).
      cbn [text_stop] in Hat. lia. }
    rewrite El in HW.
    assert (Hex : existsb (fun x => (x =? 38) || (x =? 13)) (sb (sl p (p + blen bs))) = false).
    { rewrite (W_slice text _ _ _ HW). apply no_amp_cr. eapply Suf_firstn. eapply (W_Suf text HF). exact HW. }
    destruct (step_text text _ _ _ _ _ HS Hat0 Hex Hev) as (HS1 & _ & A1 & _).
    destruct (IH _ _ _ _ _ _ _ HW1 HS1 Hlen ltac:(intros _; exact Hstop) H) as (HE & HR).
    split; [eapply Ext_trans; [apply Ext_eq; exact A1|exact HE]|].
    destruct HR as [HC|HU]; [left|right; exact HU].
    rewrite El. change bs with (Cst.r_item (Cst.IText bs)).
    apply Closed_prepend; [exact HC|intros _; exact Hwf|intros _; exact Hstop|].
    intros Hs. exfalso. cbn [Cst.r_item] in Hs. rewrite <- El in Hs. cbn [text_stop] in Hs. lia. }
  assert (x = 60) by lia. subst x.
  destruct l0 as [|y l1].
  { (* a lone '<' at the end *)
    unfold next_byte in H. cbn [CstLex.st s_pos s_end s_rest] in H. destruct HW as [_ HW].
    unfold blen in HW. cbn [length] in HW. replace (tlen text <=? p + 1) with true in H by lia. noerr. }
  rewrite (next_byte_st text) in H by exact HW.
  destruct (y =? 33) eqn:E33.
  { assert (y = 33) by lia. subst y. rewrite !(starts_with_st text) in H by exact HW.
    destruct (prefix_b (b "<!--") (60 :: 33 :: l1)) eqn:Ec.
    - change (b "<!--") with [60; 33; 45; 45] in Ec. destruct (prefix_b_split _ _ Ec) as (l2 & El).
      rewrite El in H, HW. ib H q Hq. destruct q as [s1 c1].
      destruct (inv_comment text HF context T _ _ _ _ _ HW Hq) as (bs & l3 & -> & Hwf & -> & HW1 & Hev).
      destruct (step_comment text _ _ _ _ _ HS Hev) as (HS1 & _ & A1 & Hat1 & _).
      destruct (IH _ _ _ _ _ _ _ HW1 HS1 Hlen ltac:(intros Hn; congruence) H) as (HE & HR).
      split; [eapply Ext_trans; [apply Ext_eq; exact A1|exact HE]|].
      destruct HR as [HC|HU]; [left|right; exact HU].
      rewrite El. pose proof (Closed_prepend depth (Cst.IComment bs) l3 stk s' c' HC) as HP.
      cbn [Cst.r_item] in HP. rewrite <- !app_assoc in HP. apply HP.
      + intros _; exact Hwf.
      + discriminate.
      + reflexivity.
    - destruct (prefix_b (b "<![CDATA[") (60 :: 33 :: l1)) eqn:Ed; [|noerr]. exfalso.
      change (b "<![CDATA[") with ([60; 33; 91] ++ [67; 68; 65; 84; 65; 91]) in Ed. apply prefix_b_app_l in Ed.
      rewrite (W_noprefix text _ _ _ HW (fr_cdata _ HF) ltac:(discriminate)) in Ed. discriminate. }
  destruct (y =? 63) eqn:E63.
  { assert (y = 63) by lia. subst y. ib H q Hq. destruct q as [s1 c1].
    change (60 :: 63 :: l1) with ([60; 63] ++ l1) in *.
    destruct (inv_pi text HF context T _ _ _ _ _ HW Hq) as (tg & sep & v & l3 & -> & Hwf & -> & HW1 & Hev).
    unfold pi_tok in Hev. cbv zeta in Hev.
    destruct (step_pi text _ _ _ _ _ _ HS Hev) as (HS1 & _ & A1 & Hat1 & _).
    destruct (IH _ _ _ _ _ _ _ HW1 HS1 Hlen ltac:(intros Hn; congruence) H) as (HE & HR).
    split; [eapply Ext_trans; [apply Ext_eq; exact A1|exact HE]|].
    destruct HR as [HC|HU]; [left|right; exact HU].
    pose proof (Closed_prepend depth (Cst.IPI tg sep v) l3 stk s' c' HC) as HP.
    cbn [Cst.r_item] in HP. rewrite <- !app_assoc in HP. apply HP.
    - intros _; exact Hwf.
    - discriminate.
    - reflexivity. }
  destruct (y =? 47) eqn:E47.
  { assert (y = 47) by lia. subst y. ib H q Hq. destruct q as [s1 c1].
    change (60 :: 47 :: l1) with ([60; 47] ++ l1) in *.
    destruct (inv_close text HF context T _ _ _ _ _ HW Hq) as (name & ws2 & l3 & -> & Hname & Hws & -> & HW1 & Hev).
    unfold close_tok in Hev.
    destruct (step_close text _ _ _ _ _ _ HS (CstBuild.slice_empty text _) Hev) as (stk' & Estk & HS1 & _ & A1 & Hat1 & _).
    pose proof (W_app text _ _ _ HW) as HWn. change (blen [60; 47]) with 2 in HWn.
    rewrite (W_slice text _ _ _ HWn) in Estk. subst stk.
    destruct (depth =? 0) eqn:Ed.
    - inversion H; subst. assert (depth = 0) by lia. subst depth.
      split; [apply Ext_eq; exact A1|]. left. apply Closed_base; assumption.
    - assert (Hlen' : N.of_nat (length stk') = depth - 1 + 1) by (cbn [length] in Hlen; lia).
      destruct (IH _ _ _ _ _ _ _ HW1 HS1 Hlen' ltac:(intros Hn; congruence) H) as (HE & HR).
      split; [eapply Ext_trans; [apply Ext_eq; exact A1|exact HE]|].
      destruct HR as [HC|HU]; [left|right; exact HU].
      apply Closed_close; [exact HC|lia|exact Hws]. }
  (* a start tag *)
  ib H q Hq. destruct q as [[open s1] c1].
  change (60 :: y :: l1) with ([60] ++ (y :: l1)) in *.
  destruct (inv_element text HF context T _ _ _ _ _ _ HW Hq)
    as (name & attrs & ws_end & l3 & ca & cb & El & Hname & Hraw & Hwe & Hev1 & Hev2 & Hev3 & -> & HW1).
  rewrite El in HW.
  destruct (tag_sound _ _ _ _ _ _ _ _ _ _ _ HW Hraw HS Hev1 Hev2 Hev3)
    as (HS1 & HE1 & Hat1 & Hnx & Hax & Hnd & Hwa & _).
  assert (Hok : forall cf, Ext c1 cf -> AttrRaw cf -> elem_ok name attrs ws_end).
  { intros cf HEf HA. repeat split; auto. apply Hwa. eapply AttrRaw_ext; eauto. }
  rewrite El. destruct open.
  - assert (Hlen' : N.of_nat (length (name :: stk)) = depth + 1 + 1).
    { cbn [length]. rewrite Nat2N.inj_succ. etransitivity; [apply f_equal; exact Hlen|lia]. }
    destruct (IH _ _ _ _ _ _ _ HW1 HS1 Hlen' ltac:(intros Hn; congruence) H) as (HE & HR).
    split; [eapply Ext_trans; eauto|].
    destruct HR as [HC|HU]; [left|right; exact HU].
    cbn [negb tag_tail] in *. apply Closed_nest; [exact HC|]. intros HA. eapply Hok; eauto.
  - destruct (IH _ _ _ _ _ _ _ HW1 HS1 Hlen ltac:(intros Hn; congruence) H) as (HE & HR).
    split; [eapply Ext_trans; eauto|].
    destruct HR as [HC|HU]; [left|right; exact HU].
    cbn [negb tag_tail] in *. apply Closed_prepend_empty; [exact HC|]. intros HA. eapply Hok; eauto.
Qed.

End Main.
