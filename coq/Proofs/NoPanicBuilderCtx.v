(* Proofs/NoPanicBuilderCtx.v -- the invariant of Context and the panic-freedom of append_node,
   append_text, merge_text, reset_after_text, resolve_namespaces, resolve_attributes,
   process_element. *)
From Coq Require Import Ascii String.
From Coq Require Import List Arith NArith Bool Lia ZifyBool ZifyN ZifyNat.
Import ListNotations.
From RX Require Import Generated.
From RX.Model Require Import Base CharClass Stream Tokenizer Doc Builder.
From RX.Proofs Require Import Tactics NoPanicUtf8 NoPanicStream NoPanicBuilder.
Open Scope N_scope.

Definition LastText (nodes : list node_data) : Prop :=
  exists l nd, nodes = l ++ [nd] /\ is_text_kind (nd_kind nd) = true.

Lemma last_split {A} : forall (l : list A) n x,
  length l = S n -> nth_error l n = Some x -> l = firstn n l ++ [x].
Proof.
  induction l as [|y l IH]; intros n x Hl Hn; [discriminate|].
  destruct n as [|n]; cbn in *.
  - destruct l; [|discriminate]. inversion Hn; reflexivity.
  - f_equal. apply IH; auto.
Qed.

Lemma LastText_sim l l' : NodesSim l l' -> LastText l -> LastText l'.
Proof.
  intros [Hl Hs] (l0 & nd & -> & Ht).
  assert (Hn : nth_error (l0 ++ [nd]) (length l0) = Some nd).
  { rewrite nth_error_app2 by lia. rewrite Nat.sub_diag. reflexivity. }
  destruct (Hs _ _ Hn) as (nd' & Hn' & _ & K).
  exists (firstn (length l0) l'), nd'. split.
  - apply last_split; auto. rewrite Hl, app_length. cbn. lia.
  - destruct K as [->|[_ K]]; auto.
Qed.

Definition InTag (c : context) : Prop := slice_len (tn_name (c_tag_name c)) <> 0.

Section WithText.
Variable text : bytes.
Hypothesis Hvalid : valid_utf8_b text = true.

Record Core (c : context) : Prop := {
  core_lim : nodes_limit (c_opt c) <= u32_max;
  core_chain : Chain (d_nodes (c_doc c)) (c_parent_id c) (length (c_parent_prefixes c) - 1);
  core_prefixes : c_parent_prefixes c <> [];
  core_awaiting : Forall (fun i => i < len_N (d_nodes (c_doc c))) (c_awaiting c);
  core_after : c_after_text c <> [] -> LastText (d_nodes (c_doc c));
  core_ns_start : c_ns_start_idx c <= len_N (d_ns_tree (c_doc c));
  core_doc : DocOk (c_doc c);
  core_entities : Forall (fun e => SliceOk text (en_value e)) (c_entities c);
  core_cur : Forall (fun a => snd (ta_range a) <> 0) (c_cur_attrs c)
}.

Lemma Core_set_doc c d' : Core c -> DocRel (c_doc c) d' -> Core (set_doc c d').
Proof.
  clear Hvalid.
  intros [L Ch P Aw Af Ns D En Cu] [Rn Rt Rv Ro]. split; cbn; auto.
  - eapply Chain_sim; eauto.
  - rewrite (NodesSim_len _ _ Rn). auto.
  - intros H. eapply LastText_sim; eauto.
  - lia.
Qed.

Lemma DocRel_set_nodes d nodes' : DocOk d -> NodesSim (d_nodes d) nodes' ->
  DocRel d (set_nodes d nodes').
Proof.
  clear Hvalid.
  intros [T V Nn A] Hs. split; cbn; auto; try lia. split; cbn; auto.
  eapply nodes_ok_sim; eauto.
Qed.

Lemma Core_set_nodes c nodes' : Core c -> NodesSim (d_nodes (c_doc c)) nodes' ->
  Core (set_doc c (set_nodes (c_doc c) nodes')).
Proof.
  clear Hvalid. intros Hc Hs. apply Core_set_doc; auto. apply DocRel_set_nodes; auto. apply Hc.
Qed.

(* ---- append_node ---- *)

Definition new_node (c : context) (kind : node_kind) (r : range) : node_data :=
  {| nd_parent := Some (c_parent_id c); nd_prev_sibling := None; nd_next_subtree := None;
     nd_last_child := None; nd_kind := kind; nd_range := r |}.

Lemma append_node_safe kind r c : Core c ->
  safe (append_node kind r c)
       (fun '(id, c') => exists nodes',
          NodesSim (d_nodes (c_doc c) ++ [new_node c kind r]) nodes' /\
          id = len_N (d_nodes (c_doc c)) /\
          c' = set_awaiting (set_doc c (set_nodes (c_doc c) nodes'))
                            (if is_element_kind kind then [] else [id])).
Proof.
  clear Hvalid.
  intros Hc. unfold append_node. cbv zeta.
  set (d := c_doc c). set (n := len_N (d_nodes d)).
  destruct (nodes_limit (c_opt c) <=? n) eqn:El; [exact I|].
  pose proof (core_lim c Hc) as Hlim.
  unfold node_id_new. destruct (u32_max <=? n) eqn:Eu; [lia|]. cbn [bind].
  fold (new_node c kind r). set (nodes0 := d_nodes d ++ [new_node c kind r]).
  pose proof (Chain_lt _ _ _ (core_chain c Hc)) as Hp. fold d in Hp.
  assert (Hlen0 : len_N nodes0 = n + 1) by (unfold nodes0; rewrite len_N_app; reflexivity).
  destruct (nth_N_some nodes0 (c_parent_id c) ltac:(lia)) as [pnd Epnd]. rewrite Epnd. cbn [bind].
  eapply safe_bind; [apply upd_node_safe; [lia|apply GoodAt_keep; intros; cbn; auto]|].
  intros nodes1 H1. cbv beta.
  eapply safe_bind; [apply upd_node_safe;
                     [rewrite (NodesSim_len _ _ H1); lia|apply GoodAt_keep; intros; cbn; auto]|].
  intros nodes2 H2. cbv beta.
  assert (H02 : NodesSim nodes0 nodes2) by (eapply NodesSim_trans; eauto).
  eapply safe_bind; [apply set_next_subtree_all_safe|].
  { eapply Forall_impl; [|apply (core_awaiting c Hc)]. cbn. intros i Hi.
    rewrite (NodesSim_len _ _ H02). fold d in Hi. lia. }
  intros nodes3 H3. cbn. exists nodes3. split; [eapply NodesSim_trans; eauto|auto].
Qed.

Lemma Core_appended c kind r nodes' aw :
  Core c -> c_after_text c = [] -> KindOk (c_doc c) kind ->
  NodesSim (d_nodes (c_doc c) ++ [new_node c kind r]) nodes' ->
  Forall (fun i => i < len_N nodes') aw ->
  Core (set_awaiting (set_doc c (set_nodes (c_doc c) nodes')) aw).
Proof.
  clear Hvalid.
  intros [L Ch P Aw Af Ns D En Cu] Haf Hk Hs Haw. split; cbn; auto.
  - eapply Chain_sim; eauto. apply Chain_app; auto.
  - intros H. rewrite Haf in H. contradiction.
  - destruct D as [T V Nn A]. split; cbn; auto.
    eapply nodes_ok_sim; eauto. apply Forall_app; split; auto.
Qed.

Lemma appended_len c kind r nodes' :
  NodesSim (d_nodes (c_doc c) ++ [new_node c kind r]) nodes' ->
  len_N nodes' = len_N (d_nodes (c_doc c)) + 1.
Proof. clear Hvalid. intros H. rewrite (NodesSim_len _ _ H), len_N_app. reflexivity. Qed.

Lemma appended_new c kind r nodes' :
  NodesSim (d_nodes (c_doc c) ++ [new_node c kind r]) nodes' ->
  exists nd, nth_N nodes' (len_N (d_nodes (c_doc c))) = Some nd /\
             nd_parent nd = Some (c_parent_id c) /\ KindSim kind (nd_kind nd).
Proof.
  clear Hvalid.
  intros [Hl Hs]. pose proof (nth_N_app_new (d_nodes (c_doc c)) (new_node c kind r)) as Hn.
  apply nth_N_inv in Hn as [_ Hn]. destruct (Hs _ _ Hn) as (nd & Hn' & P & K).
  exists nd. split; [apply nth_N_of_nth_error; auto|]. auto.
Qed.

Lemma appended_last_text c kind r nodes' : is_text_kind kind = true ->
  NodesSim (d_nodes (c_doc c) ++ [new_node c kind r]) nodes' -> LastText nodes'.
Proof.
  clear Hvalid.
  intros Hk Hs. eapply LastText_sim; eauto. exists (d_nodes (c_doc c)), (new_node c kind r). auto.
Qed.

(* ---- text ---- *)

Lemma append_text_safe t r c : Core c ->
  safe (append_text t r c) (fun c' => Core c' /\ c_tag_name c' = c_tag_name c).
Proof.
  clear Hvalid.
  intros Hc. unfold append_text.
  destruct (c_after_text c) as [|t0 ts] eqn:Ea.
  - cbv zeta.
    eapply safe_bind.
    { eapply safe_bind; [apply append_node_safe; auto|]. intros [id c1] H. cbv beta iota.
      instantiate (1 := fun c1 => Core c1 /\ c_tag_name c1 = c_tag_name c /\ c_after_text c1 = [] /\
                                  LastText (d_nodes (c_doc c1))). cbn.
      destruct H as (nodes' & Hs & -> & ->). cbn.
      assert (Htk : is_text_kind (KText match t with CowBorrowed s => Borrowed (SIn s)
                                                    | CowOwned bs => Owned bs end) = true) by reflexivity.
      split; [|split; [reflexivity|split; [exact Ea|eapply appended_last_text; eauto]]].
      refine (Core_appended c _ _ nodes' _ Hc Ea _ Hs _); [exact I|]. constructor; auto.
      rewrite (appended_len _ _ _ _ Hs). lia. }
    intros c1 (H1 & Ht & Ha & Hl). cbn. split; auto.
    destruct H1 as [L Ch P Aw Af Ns D En Cu]. split; cbn; auto.
  - cbn. split; auto. destruct Hc as [L Ch P Aw Af Ns D En Cu]. split; cbn; auto.
    intros _. apply Af. rewrite Ea. discriminate.
Qed.

Lemma merge_text_safe c : Core c -> c_after_text c <> [] ->
  safe (merge_text text c) (fun c' => Core c' /\ c_tag_name c' = c_tag_name c /\
                                      c_after_text c' = c_after_text c /\
                                      d_ns_tree (c_doc c') = d_ns_tree (c_doc c)).
Proof.
  clear Hvalid.
  intros Hc Ha. unfold merge_text. cbv zeta.
  destruct (core_after c Hc Ha) as (l & nd & El & Ht). rewrite El, rev_app_distr. cbn [rev app].
  destruct (nd_kind nd) eqn:Ek; try discriminate.
  eapply safe_bind.
  { apply upd_node_safe.
    - rewrite len_N_app. unfold len_N; cbn. lia.
    - intros nd0 Hn0. replace (N.to_nat (len_N (l ++ [nd]) - 1)) with (length l) in Hn0
        by (rewrite len_N_app; unfold len_N; cbn; lia).
      rewrite nth_error_app2 in Hn0 by lia. rewrite Nat.sub_diag in Hn0. inversion Hn0; subst nd0.
      cbn. split; auto. right. rewrite Ek. auto. }
  intros nodes' Hs. cbn. rewrite <- El in Hs. split; [apply Core_set_nodes; auto|auto].
Qed.

Lemma reset_after_text_safe c : Core c ->
  safe (reset_after_text text c)
       (fun c' => Core c' /\ c_after_text c' = [] /\ c_tag_name c' = c_tag_name c /\
                  d_ns_tree (c_doc c') = d_ns_tree (c_doc c)).
Proof.
  clear Hvalid.
  intros Hc. unfold reset_after_text.
  assert (Hset : forall c1, Core c1 -> Core (set_after_text c1 [])).
  { intros c1 [L Ch P Aw Af Ns D En Cu]. split; cbn; auto; intros H; contradiction. }
  destruct (c_after_text c) as [|t0 [|t1 ts]] eqn:Ea.
  - cbn. auto.
  - cbn. auto.
  - eapply safe_bind; [apply merge_text_safe; auto; rewrite Ea; discriminate|].
    intros c1 (H1 & Ht & _ & Hn). cbn. auto.
Qed.

(* ---- resolve_namespaces ---- *)

Variable allow : panic_site -> Prop.

Lemma ns_range_checked_safe a e :
  safe (ns_range_checked a e) (fun r => r = (a, e)).
Proof.
  clear Hvalid. unfold ns_range_checked. destruct (u32_max <? e); cbn; auto.
Qed.

Lemma resolve_namespaces_safe c : Core c ->
  safeP allow (resolve_namespaces text c)
        (fun '(r, c') => Core c' /\ RangeOk (c_doc c') r /\
                         c_after_text c' = c_after_text c /\ c_tag_name c' = c_tag_name c).
Proof.
  clear Hvalid.
  intros Hc. unfold resolve_namespaces. cbv zeta.
  pose proof (Chain_lt _ _ _ (core_chain c Hc)) as Hp.
  destruct (nth_N_some _ _ Hp) as [pnd Epnd]. rewrite Epnd. cbn [bind].
  pose proof (core_ns_start c Hc) as Hns. pose proof (core_doc c Hc) as Hd.
  assert (Hroot : safeP allow
            (let! r := ns_range_checked (c_ns_start_idx c) (len_N (d_ns_tree (c_doc c))) in Ok (r, c))
            (fun '(r, c') => Core c' /\ RangeOk (c_doc c') r /\
                         c_after_text c' = c_after_text c /\ c_tag_name c' = c_tag_name c)).
  { eapply safeP_bind; [apply safe_safeP, ns_range_checked_safe|].
    intros r ->. cbn. split; [exact Hc|]. split; [unfold RangeOk; cbn; lia|auto]. }
  destruct (nd_kind pnd) as [|nsi loc at_r [pa pe]| | |] eqn:Ek; try exact Hroot.
  destruct (c_ns_start_idx c =? len_N (d_ns_tree (c_doc c))) eqn:Es.
  { cbn. split; auto. split; auto.
    pose proof (Forall_nth_N _ _ _ _ (dok_nodes _ Hd) Epnd) as Hk. cbn in Hk. rewrite Ek in Hk. apply Hk. }
  pose proof (Forall_nth_N _ _ _ _ (dok_nodes _ Hd) Epnd) as Hk. cbn in Hk. rewrite Ek in Hk.
  destruct Hk as ([Hk1 Hk2] & _). cbn [fst snd] in Hk1, Hk2.
  eapply safeP_bind.
  { apply safe_safeP. apply resolve_ns_loop_safe; auto.
    apply N_range_lt. rewrite N2Nat.id. lia. }
  intros d' (R & S & L1 & L2). cbv beta.
  unfold len_N in L2 at 3. rewrite N_range_len in L2.
  eapply safeP_bind; [apply safe_safeP, ns_range_checked_safe|].
  intros r ->. cbn. split; [apply Core_set_doc; auto|]. split; [|auto].
    unfold RangeOk; cbn. lia.
Qed.

(* ---- resolve_attributes ---- *)

Lemma resolve_attributes_safe nss c : Core c -> RangeOk (c_doc c) nss ->
  safe (resolve_attributes text nss c)
       (fun '(r, c') => Core c' /\ RangeOk (c_doc c') nss /\
                        c_after_text c' = c_after_text c /\ c_tag_name c' = c_tag_name c /\
                        len_N (d_ns_tree (c_doc c')) = len_N (d_ns_tree (c_doc c)) /\
                        fst r <= snd r /\ snd r <= len_N (d_attrs (c_doc c'))).
Proof.
  intros Hc Hr. unfold resolve_attributes.
  pose proof (core_cur c Hc) as Hcur.
  destruct (c_cur_attrs c) as [|a l] eqn:Ea. { cbn. split; [exact Hc|]. split; [exact Hr|]. repeat split; auto; lia. }
  cbv zeta. destruct (u32_max <=? _) eqn:El; [exact I|].
  eapply safe_bind; [apply resolve_attrs_loop_safe; auto; apply Hc|].
  intros d' (R & (S1 & S2 & S3) & L). cbv beta.
  unfold short_range.
  destruct ((u32_max <? len_N (d_attrs (c_doc c))) || (u32_max <? len_N (d_attrs d'))) eqn:E; [lia|].
  cbn.
  assert (Hc' : Core (set_doc (set_cur_attrs c []) d')).
  { apply (Core_set_doc (set_cur_attrs c [])); auto.
    destruct Hc as [L' Ch P Aw Af Ns D En Cu]. split; cbn; auto. }
  split; auto. split; [unfold RangeOk in *; cbn; rewrite S2; auto|]. split; auto. split; auto.
  split; [rewrite S2; reflexivity|]. lia.
Qed.

(* ---- process_element ---- *)

Lemma removelast_len {A} (l : list A) : l <> [] -> length (removelast l) = (length l - 1)%nat.
Proof.
  clear. intros H. destruct (exists_last H) as (l' & x & ->). rewrite removelast_last, app_length. cbn. lia.
Qed.

Lemma Chain_inv nodes id n : Chain nodes id n ->
  exists nd, nth_N nodes id = Some nd /\
    forall p, nd_parent nd = Some p -> exists m, n = S m /\ Chain nodes p m.
Proof.
  clear. destruct n; intros (nd & Hn & H); exists nd; split; auto; intros p Hp.
  - congruence.
  - destruct H as (p' & Hp' & Hc). exists n. split; auto. congruence.
Qed.

Lemma append_node_core kind r c : Core c -> c_after_text c = [] -> KindOk (c_doc c) kind ->
  safe (append_node kind r c)
       (fun '(id, c') => Core c' /\ c_after_text c' = [] /\ c_tag_name c' = c_tag_name c /\
          c_parent_prefixes c' = c_parent_prefixes c /\ c_parent_id c' = c_parent_id c /\
          c_awaiting c' = (if is_element_kind kind then [] else [id]) /\
          id < len_N (d_nodes (c_doc c')) /\
          (exists nd, nth_N (d_nodes (c_doc c')) id = Some nd /\
                      nd_parent nd = Some (c_parent_id c) /\ KindSim kind (nd_kind nd)) /\
          d_ns_tree (c_doc c') = d_ns_tree (c_doc c)).
Proof.
  clear Hvalid.
  intros Hc Haf Hk. eapply safe_mono; [apply append_node_safe; auto|].
  intros [id c'] (nodes' & Hs & -> & ->). cbn.
  pose proof (appended_len _ _ _ _ Hs) as Hl.
  split.
  { refine (Core_appended c _ _ nodes' _ Hc Haf Hk Hs _).
    destruct (is_element_kind kind); constructor; auto. lia. }
  repeat split; auto; try lia.
  eapply appended_new; eauto.
Qed.

Lemma process_element_safe e r c : Core c -> c_after_text c = [] ->
  (match e with EClose _ _ => True | _ => InTag c end) ->
  safeP allow (process_element text e r c) (fun c' => Core c' /\ c_tag_name c' = c_tag_name c).
Proof.
  intros Hc Haf Htag. unfold process_element.
  destruct (slice_len (tn_name (c_tag_name c)) =? 0) eqn:Et.
  { destruct e; try (exfalso; apply Htag; lia). apply safe_safeP, err_from_safe; auto. }
  eapply safeP_bind; [apply resolve_namespaces_safe; auto|].
  intros [namespaces c1] (H1 & Hr1 & Ha1 & Ht1). cbv beta iota zeta.
  set (c1' := set_ns_start_idx c1 (len_N (d_ns_tree (c_doc c1)))).
  assert (H1' : Core c1').
  { destruct H1 as [L Ch P Aw Af Ns D En Cu]. split; cbn; auto. lia. }
  eapply safeP_bind; [apply safe_safeP; apply (resolve_attributes_safe namespaces c1'); auto|].
  intros [attributes c2] (H2 & Hr2 & Ha2 & Ht2 & Hl2 & Hat1 & Hat2). cbv beta iota.
  assert (Haf2 : c_after_text c2 = []) by (rewrite Ha2; cbn; rewrite Ha1; exact Haf).
  assert (Htn2 : c_tag_name c2 = c_tag_name c) by (rewrite Ht2; cbn; exact Ht1).
  pose proof (core_doc c2 H2) as Hd2.
  destruct e as [|prefix local|].
  - (* EOpen *)
    eapply safeP_bind; [apply safe_safeP, get_ns_idx_by_prefix_safe; auto|]. intros tag_ns_idx Hidx. cbv beta.
    eapply safeP_bind; [apply safe_safeP, append_node_core; auto; cbn; auto|].
    intros [new_id c3] (H3 & Ha3 & Ht3 & Hp3 & Hi3 & Hw3 & Hlt3 & (nd & Hn & Hpar & _) & _).
    cbv beta iota. cbn. split; [|congruence].
    destruct H3 as [L Ch P Aw Af Ns D En Cu]. split; cbn; auto.
    + rewrite app_length. cbn [length]. rewrite Hp3 in *.
      replace (length (c_parent_prefixes c2) + 1 - 1)%nat with (S (length (c_parent_prefixes c2) - 1)).
      2:{ destruct (c_parent_prefixes c2); [contradiction|cbn; lia]. }
      exists nd. split; auto. exists (c_parent_id c2). split; auto. rewrite <- Hi3. exact Ch.
    + intros H. destruct (c_parent_prefixes c3); discriminate.
  - (* EClose *)
    destruct (len_N (c_parent_prefixes c2) <=? c_entity_floor c2); [apply safe_safeP, err_from_safe; auto|].
    destruct (Chain_inv _ _ _ (core_chain c2 H2)) as (pnd & Epnd & Hup).
    rewrite Epnd. cbn [bind].
    destruct (rev (c_parent_prefixes c2)) as [|pp0 rp] eqn:Erev.
    { exfalso. apply (core_prefixes c2 H2). rewrite <- (rev_involutive (c_parent_prefixes c2)), Erev. reflexivity. }
    cbn [bind].
    pose proof (Chain_lt _ _ _ (core_chain c2 H2)) as Hplt.
    eapply safeP_bind; [apply safe_safeP, upd_node_safe; [auto|apply GoodAt_keep; intros; cbn; auto]|].
    intros nodes' Hs. cbv beta.
    eapply safeP_bind with (Q := fun _ => True).
    { destruct (nd_kind pnd); try exact I.
      destruct (_ || _); [apply safe_safeP, err_from_safe; auto|exact I]. }
    intros _ _. cbn [c_parent_prefixes set_awaiting set_doc].
    destruct (nd_parent pnd) as [id|] eqn:Epar; [|apply safe_safeP, err_from_safe; auto].
    destruct (Hup id eq_refl) as (m & Hm & Hcm).
    pose proof (removelast_len _ (core_prefixes c2 H2)) as Hrl.
    destruct (removelast (c_parent_prefixes c2)) as [|q qs] eqn:Er.
    { cbn in Hrl. lia. }
    cbn. split; [|cbn; congruence].
    destruct H2 as [L Ch P Aw Af Ns D En Cu]. split; cbn; auto.
    + eapply Chain_sim; eauto. cbn [length] in Hrl.
      replace (length qs - 0)%nat with m by lia. exact Hcm.
    + discriminate.
    + rewrite (NodesSim_len _ _ Hs). apply Forall_app; split; auto.
    + intros H. rewrite Haf2 in H. contradiction.
    + apply DocRel_set_nodes; auto.
  - (* EEmpty *)
    eapply safeP_bind; [apply safe_safeP, get_ns_idx_by_prefix_safe; auto|]. intros tag_ns_idx Hidx. cbv beta.
    eapply safeP_bind; [apply safe_safeP, append_node_core; auto; cbn; auto|].
    intros [new_id c3] (H3 & Ha3 & Ht3 & Hp3 & Hi3 & Hw3 & Hlt3 & _ & _).
    cbv beta iota. cbn. split; [|congruence].
    destruct H3 as [L Ch P Aw Af Ns D En Cu]. split; cbn; auto.
    apply Forall_app; split; auto.
Qed.

End WithText.
