(* Proofs/CstNsDoc.v -- C06, M3: parse_document on the rendering of a well-formed document of
   Spec/CstNs.v: prolog, root element, epilog.  (Proofs/CstDoc.v for the fragment with namespaces;
   the byte-level facts about BOM / declaration tests are those of Proofs/CstDoc.v.) *)
From Coq Require Import Ascii String.
From Coq Require Import List NArith PeanoNat Bool Lia ZifyBool ZifyN ZifyNat.
Import ListNotations.
From RX Require Import Generated.
From RX.Model Require Import Base CharClass Stream Tokenizer Doc Builder Parse.
From RX.Spec Require Cst Scope CstNs.
From RX.Proofs Require Import Tactics CstLex CstBuild CstNsLex CstNsView CstNsBuild CstNsTree CstNsItems.
From RX.Proofs Require CstItems CstDoc.
Open Scope N_scope.

Import CstNs.
Notation asc := CstDoc.asc.

(* ---- renderings are ASCII ---- *)
Lemma asc_qname q : wf_qname q = true -> asc (r_qname q).
Proof.
  intros H. destruct (wf_qname_parts _ H) as [Hp Hl]. unfold r_qname. destruct (q_prefix q) as [|c x] eqn:E.
  - apply CstDoc.asc_name. exact Hl.
  - destruct Hp as [Hp|Hp]; [discriminate|]. repeat apply CstDoc.asc_app.
    + apply CstDoc.asc_name. exact Hp.
    + apply CstDoc.asc_lit. reflexivity.
    + apply CstDoc.asc_name. exact Hl.
Qed.

Lemma asc_entry e : wf_entry e = true -> asc (r_entry e).
Proof.
  intros H. destruct (wf_entry_lex _ H) as (_ & H1 & H3 & H4 & H5 & H6 & H2).
  unfold r_entry. cbv zeta. rewrite e_name_qname. repeat apply CstDoc.asc_app; try (apply CstDoc.asc_ws; assumption).
  - apply asc_qname. exact H2.
  - apply CstDoc.asc_lit. reflexivity.
  - constructor; [lia|constructor].
  - revert H6. unfold wf_value. apply CstDoc.forallb_asc. intros x Hx.
    assert (Hp : Cst.is_plain x = true) by lia. apply (plain_char _ Hp).
  - constructor; [lia|constructor].
Qed.

Lemma asc_entries es : forallb wf_entry es = true -> asc (flat_map r_entry es).
Proof.
  induction es as [|a r IH]; intros H; [constructor|]. cbn [forallb] in H.
  apply andb_true_iff in H. destruct H as [H1 H2]. cbn [flat_map]. apply CstDoc.asc_app; [apply asc_entry; exact H1|auto].
Qed.

Lemma asc_item : forall i inh, wf_item inh i = true -> asc (r_item i).
Proof.
  intros i. induction i as [n a w|n a w cs w2 IH|bs|bs|t s v] using item_ind'; intros inh Hwf.
  - destruct (wf_elem_parts _ _ _ _ _ Hwf) as ([Hn _ Ha _ _ _ _ Hw] & _). rewrite r_item_elem.
    repeat apply CstDoc.asc_app; try (apply CstDoc.asc_lit; reflexivity).
    + apply asc_qname; exact Hn.
    + apply asc_entries; exact Ha.
    + apply CstDoc.asc_ws; exact Hw.
  - destruct (wf_elem_parts _ _ _ _ _ Hwf) as ([Hn _ Ha _ _ _ _ Hw] & Hw2 & _ & Hcs). rewrite r_item_elem.
    repeat apply CstDoc.asc_app; try (apply CstDoc.asc_lit; reflexivity).
    + apply asc_qname; exact Hn.
    + apply asc_entries; exact Ha.
    + apply CstDoc.asc_ws; exact Hw.
    + revert Hcs. generalize (esc a inh). intros sc Hcs. clear - IH Hcs. induction IH as [|c r Hc _ IHr]; [constructor|].
      cbn [wf_items] in Hcs. apply andb_true_iff in Hcs. destruct Hcs as [H1 H2].
      cbn [r_items]. apply CstDoc.asc_app; [apply (Hc sc H1)|auto].
    + apply asc_qname; exact Hn.
    + apply CstDoc.asc_ws; exact Hw2.
  - apply (CstDoc.asc_item (Cst.IText bs)). exact Hwf.
  - apply (CstDoc.asc_item (Cst.IComment bs)). exact Hwf.
  - apply (CstDoc.asc_item (Cst.IPI t s v)). exact Hwf.
Qed.

(* ---- comments and PIs separated by whitespace (prolog and epilog) ---- *)
Definition pairs := list (Cst.bytes * item).
Definition r_pairs (l : pairs) : bytes := flat_map (fun x => fst x ++ r_item (snd x)) l.
Definition wf_pairs (l : pairs) : bool :=
  forallb (fun x => Cst.wf_ws (fst x) && is_misc (snd x) && wf_item [] (snd x)) l.

Lemma asc_pairs l : wf_pairs l = true -> asc (r_pairs l).
Proof.
  induction l as [|[w i] r IH]; intros H; [constructor|]. cbn [wf_pairs forallb fst snd] in H.
  rewrite !andb_true_iff in H. destruct H as [[[H1 H2] H3] H4]. cbn [r_pairs flat_map fst snd].
  repeat apply CstDoc.asc_app; [apply CstDoc.asc_ws; exact H1|apply (asc_item _ _ H3)|apply IH; exact H4].
Qed.

Lemma misc_no_cost i : is_misc i = true -> ns_cost [] i = O /\ item_decls i = [] /\ nattrs i = O.
Proof. destruct i; try discriminate; intros _; repeat split. Qed.

Section Doc.
Variable text : bytes.
Hypothesis Hascii : Forall (fun x => x < 128) text.
Variable D : list Scope.binding.
Hypothesis HD : forall l, NoDup l -> incl l D -> N.of_nat (length l) <= 65535.

Notation ev := (tok_ev text).
Notation st := (CstLex.st text).
Notation W := (CstLex.W text).
Notation CIn := (CstNsBuild.CIn text D).

Lemma pairs_len l : wf_pairs l = true -> (length l <= length (r_pairs l))%nat.
Proof.
  induction l as [|[w i] r IH]; intros H; [cbn; lia|]. cbn [wf_pairs forallb fst snd] in H.
  rewrite !andb_true_iff in H. destruct H as [[[H1 H2] H3] H4]. cbn [r_pairs flat_map fst snd length].
  rewrite !app_length. specialize (IH H4). unfold r_pairs in IH.
  pose proof (steps_le D HD i [] H3) as Hs. destruct i; try discriminate; cbn [steps] in Hs; lia.
Qed.

Lemma misc_loop_ok_n : forall (l : pairs) p wl rest c fuel,
  W p (r_pairs l ++ wl ++ rest) -> wf_pairs l = true -> Cst.wf_ws wl = true -> CstDoc.misc_stop rest ->
  (length l < fuel)%nat -> CIn [] c -> c_after_text c = [] -> node_room c (nsizes (map snd l)) ->
  exists c' K,
    parse_misc_loop text context ev fuel (st p (r_pairs l ++ wl ++ rest)) c =
    Ok (st (p + blen (r_pairs l) + blen wl) rest, c') /\
    Stepn c c' K [] /\ CIn [] c' /\ c_after_text c' = [] /\
    d_ns_tree (c_doc c') = d_ns_tree (c_doc c) /\
    Forall2 (kmn text (c_doc c')) K (tag_list [] (c_parent_id c) (len_N (d_nodes (c_doc c))) (map snd l)).
Proof.
  induction l as [|[w i] l IH]; intros p wl rest c fuel HW Hwf Hwl (Hs1 & Hs2 & Hs3) Hf I Hat NR.
  - cbn [r_pairs flat_map app map tag_list] in *. change (blen []) with 0. rewrite N.add_0_r.
    destruct fuel as [|fu]; [cbn in Hf; lia|]. cbn [parse_misc_loop].
    exists c, []. split; [|split; [apply Stepn_refl|split; [exact I|split; [exact Hat|split; [reflexivity|constructor]]]]].
    rewrite at_end_st by exact HW.
    destruct (wl ++ rest) as [|x0 l0] eqn:E0.
    + apply app_eq_nil in E0. destruct E0 as [-> ->]. change (blen []) with 0. rewrite N.add_0_r. reflexivity.
    + rewrite <- E0 in *. clear E0 x0 l0. cbv zeta.
      rewrite skip_spaces_st; [|exact HW|apply ws_spaces; exact Hwl|exact Hs1].
      pose proof (W_app _ _ _ _ HW) as HW1.
      rewrite !starts_with_st by exact HW1.
      change (b "<!--") with [60; 33; 45; 45]. change (b "<?") with [60; 63]. rewrite Hs2, Hs3. reflexivity.
  - cbn [wf_pairs forallb fst snd] in Hwf. rewrite !andb_true_iff in Hwf. destruct Hwf as [[[H1 H2] H3] H4].
    cbn [r_pairs flat_map fst snd] in HW |- *. fold (r_pairs l) in HW |- *.
    rewrite <- !app_assoc in HW |- *.
    cbn [map snd] in NR. rewrite nsizes_cons in NR.
    cbn [length] in Hf. destruct fuel as [|fu]; [lia|]. cbn [parse_misc_loop].
    rewrite at_end_st by exact HW.
    assert (Hst : exists l0, r_item i = 60 :: l0) by (apply nontext_starts; destruct i; try discriminate; reflexivity).
    destruct Hst as [l0 El0].
    replace (match w ++ r_item i ++ r_pairs l ++ wl ++ rest with [] => true | _ :: _ => false end) with false
      by (rewrite El0; destruct w; reflexivity).
    cbv zeta.
    rewrite skip_spaces_st; [|exact HW|apply ws_spaces; exact H1|rewrite El0; reflexivity].
    pose proof (W_app _ _ _ _ HW) as HW1.
    assert (R : room c) by (apply (node_room_room D HD _ _ NR); pose proof (nsize_pos i); lia).
    destruct i as [? ? ? ?|?|bs|t s v]; try discriminate.
    + (* comment *)
      rewrite starts_with_st by exact HW1. change (b "<!--") with [60; 33; 45; 45].
      cbn [r_item] in HW1 |- *. rewrite <- !app_assoc in HW1 |- *. rewrite prefix_b_app_same.
      pose proof (evn_comment text Hascii D HD [] bs (p + blen w) (r_pairs l ++ wl ++ rest) c H3) as Hev.
      cbn [r_item] in Hev. rewrite <- !app_assoc in Hev.
      destruct (Hev HW1 I R) as (c1 & K1 & E1 & S1 & I1 & A1 & _ & _ & F1 & _ & Tr1). clear Hev.
      rewrite E1. cbn [bind].
      pose proof (Stepn_nodes_len _ _ _ _ S1) as Ln1.
      rewrite (Forall2_len_N D HD _ _ _ F1) in Ln1. unfold len_N at 3 in Ln1. rewrite tag_len in Ln1.
      pose proof (Stepn_opt _ _ _ _ (proj1 S1)) as Lo1.
      set (p1 := p + blen w + blen ([60; 33; 45; 45] ++ bs ++ [45; 45; 62])) in *.
      assert (HW2 : W p1 (r_pairs l ++ wl ++ rest)).
      { pose proof (W_app _ _ ([60; 33; 45; 45] ++ bs ++ [45; 45; 62]) _ ltac:(rewrite <- !app_assoc; exact HW1)) as X.
        exact X. }
      destruct (IH p1 wl rest c1 fu HW2 H4 Hwl (conj Hs1 (conj Hs2 Hs3)) ltac:(clia) I1 (A1 eq_refl))
        as (c2 & K2 & E2 & S2 & I2 & A2 & Tr2 & F2).
      { unfold node_room in *. rewrite Ln1, Lo1. clia. }
      rewrite E2. exists c2, (K1 ++ K2). split.
      { f_equal. f_equal. f_equal. unfold p1. rewrite !blen_app. clia. }
      split; [apply (Stepn_trans _ _ _ _ _ _ _ S1 S2)|]. split; [exact I2|]. split; [exact A2|]. split.
      { rewrite Tr2. cbn [ns_cost] in Tr1. destruct S1 as ([_ _ _ _ [[t Et] _]] & _).
        rewrite Et in Tr1 |- *. rewrite len_N_app in Tr1. destruct t; [apply app_nil_r|unfold len_N in Tr1; cbn [length] in Tr1; lia]. }
      cbn [map snd tag_list]. apply Forall2_app.
      * apply (kmn_Forall2_ext text D HD (c_doc c1)); [apply (Step0n_DocExt _ _ _ _ (proj1 S2))|exact F1].
      * destruct S1 as (_ & P1 & _). rewrite P1, Ln1 in F2. exact F2.
    + (* processing instruction *)
      rewrite !starts_with_st by exact HW1. change (b "<!--") with [60; 33; 45; 45]. change (b "<?") with [60; 63].
      cbn [r_item] in HW1 |- *. rewrite <- !app_assoc in HW1 |- *. rewrite prefix_b_app_same.
      replace (prefix_b [60; 33; 45; 45] ([60; 63] ++ t ++ s ++ v ++ [63; 62] ++ r_pairs l ++ wl ++ rest)) with false
        by reflexivity.
      pose proof (evn_pi text Hascii D HD [] t s v (p + blen w) (r_pairs l ++ wl ++ rest) c H3) as Hev.
      cbn [r_item] in Hev. rewrite <- !app_assoc in Hev.
      destruct (Hev HW1 I R) as (c1 & K1 & E1 & S1 & I1 & A1 & _ & _ & F1 & _ & Tr1). clear Hev.
      rewrite E1. cbn [bind].
      pose proof (Stepn_nodes_len _ _ _ _ S1) as Ln1.
      rewrite (Forall2_len_N D HD _ _ _ F1) in Ln1. unfold len_N at 3 in Ln1. rewrite tag_len in Ln1.
      pose proof (Stepn_opt _ _ _ _ (proj1 S1)) as Lo1.
      set (p1 := p + blen w + blen ([60; 63] ++ t ++ s ++ v ++ [63; 62])) in *.
      assert (HW2 : W p1 (r_pairs l ++ wl ++ rest)).
      { pose proof (W_app _ _ ([60; 63] ++ t ++ s ++ v ++ [63; 62]) _ ltac:(rewrite <- !app_assoc; exact HW1)) as X.
        exact X. }
      destruct (IH p1 wl rest c1 fu HW2 H4 Hwl (conj Hs1 (conj Hs2 Hs3)) ltac:(clia) I1 (A1 eq_refl))
        as (c2 & K2 & E2 & S2 & I2 & A2 & Tr2 & F2).
      { unfold node_room in *. rewrite Ln1, Lo1. clia. }
      rewrite E2. exists c2, (K1 ++ K2). split.
      { f_equal. f_equal. f_equal. unfold p1. rewrite !blen_app. clia. }
      split; [apply (Stepn_trans _ _ _ _ _ _ _ S1 S2)|]. split; [exact I2|]. split; [exact A2|]. split.
      { rewrite Tr2. cbn [ns_cost] in Tr1. destruct S1 as ([_ _ _ _ [[t0 Et] _]] & _).
        rewrite Et in Tr1 |- *. rewrite len_N_app in Tr1. destruct t0; [apply app_nil_r|unfold len_N in Tr1; cbn [length] in Tr1; lia]. }
      cbn [map snd tag_list]. apply Forall2_app.
      * apply (kmn_Forall2_ext text D HD (c_doc c1)); [apply (Step0n_DocExt _ _ _ _ (proj1 S2))|exact F1].
      * destruct S1 as (_ & P1 & _). rewrite P1, Ln1 in F2. exact F2.
Qed.

End Doc.

(* ------------------------------------------------------------------------------------------ *)
(* the shape of a rendered document                                                            *)
(* ------------------------------------------------------------------------------------------ *)

Fixpoint regroup (w0 : Cst.bytes) (l : list (item * Cst.bytes)) : pairs :=
  match l with [] => [] | (i, w) :: r => (w0, i) :: regroup w r end.
Fixpoint last_ws (w0 : Cst.bytes) (l : list (item * Cst.bytes)) : Cst.bytes :=
  match l with [] => w0 | (i, w) :: r => last_ws w r end.

Lemma regroup_render : forall l w0,
  w0 ++ flat_map (fun p => r_item (fst p) ++ snd p) l = r_pairs (regroup w0 l) ++ last_ws w0 l.
Proof.
  induction l as [|[i w] r IH]; intros w0; cbn [flat_map regroup last_ws r_pairs app fst snd]; [apply app_nil_r|].
  fold (r_pairs (regroup w r)). rewrite <- !app_assoc. rewrite <- IH. reflexivity.
Qed.

Lemma regroup_wf : forall l w0, Cst.wf_ws w0 = true ->
  forallb (fun p => is_misc (fst p) && wf_item [] (fst p) && Cst.wf_ws (snd p)) l = true ->
  wf_pairs (regroup w0 l) = true /\ Cst.wf_ws (last_ws w0 l) = true.
Proof.
  induction l as [|[i w] r IH]; intros w0 H0 H; cbn [regroup last_ws wf_pairs forallb fst snd] in *; [auto|].
  rewrite !andb_true_iff in H. destruct H as [[[H1 H2] H3] H4].
  destruct (IH w H3 H4) as [I1 I2]. split; [|exact I2].
  rewrite H0, H1, H2. exact I1.
Qed.

Lemma regroup_items : forall l w0, map snd (regroup w0 l) = map fst l.
Proof. induction l as [|[i w] r IH]; intros w0; cbn [regroup map fst snd]; [reflexivity|]. rewrite IH. reflexivity. Qed.

Definition doc_items (c : doc) : list item := map fst (d_before c) ++ d_root c :: map snd (d_after c).

Lemma sem_items_app inh l1 l2 : sem_items inh (l1 ++ l2) = sem_items inh l1 ++ sem_items inh l2.
Proof. induction l1 as [|c r IH]; cbn [app sem_items]; [reflexivity|]. rewrite IH, app_assoc. reflexivity. Qed.

Lemma sem_doc_items c : sem c = sem_items [] (doc_items c).
Proof.
  unfold sem, doc_items. rewrite sem_items_app. cbn [sem_items]. f_equal; [|f_equal].
  - induction (d_before c) as [|x r IH]; cbn [flat_map map sem_items]; [reflexivity|]. rewrite IH. reflexivity.
  - induction (d_after c) as [|x r IH]; cbn [flat_map map sem_items]; [reflexivity|]. rewrite IH. reflexivity.
Qed.

Lemma tag_list_app inh p : forall l1 l2 id,
  tag_list inh p id (l1 ++ l2) = tag_list inh p id l1 ++ tag_list inh p (id + nsizes l1) l2.
Proof.
  induction l1 as [|c r IH]; intros l2 id; cbn [app tag_list].
  - change (nsizes []) with 0. rewrite N.add_0_r. reflexivity.
  - rewrite IH, nsizes_cons, <- app_assoc. f_equal. f_equal. f_equal. lia.
Qed.

Lemma nsizes_app l1 l2 : nsizes (l1 ++ l2) = nsizes l1 + nsizes l2.
Proof. induction l1 as [|c r IH]; [reflexivity|]. cbn [app]. rewrite !nsizes_cons, IH. lia. Qed.

Record doc_parts (c : doc) : Prop := {
  dp_ws0 : Cst.wf_ws (d_ws0 c) = true;
  dp_wsend : Cst.wf_ws (d_ws_end c) = true;
  dp_before : forallb (fun p => is_misc (fst p) && wf_item [] (fst p) && Cst.wf_ws (snd p)) (d_before c) = true;
  dp_root : exists name es ws body, d_root c = IElem name es ws body;
  dp_rootwf : wf_item [] (d_root c) = true;
  dp_after : wf_pairs (d_after c) = true
}.

Lemma wf_doc_parts c : wf_doc c = true -> doc_parts c.
Proof.
  unfold wf_doc. rewrite !andb_true_iff. intros [[[[H1 H2] H3] H4] H5].
  constructor; try assumption.
  - destruct (d_root c); try discriminate. eauto.
  - destruct (d_root c); try discriminate. exact H4.
Qed.

Lemma render_shape c :
  render c =
  r_pairs (regroup (d_ws0 c) (d_before c)) ++ last_ws (d_ws0 c) (d_before c) ++
  r_item (d_root c) ++ r_pairs (d_after c) ++ d_ws_end c ++ [].
Proof. unfold render. rewrite app_nil_r. rewrite app_assoc, regroup_render, <- app_assoc. reflexivity. Qed.

Lemma render_asc c : wf_doc c = true -> asc (render c).
Proof.
  intros H. apply wf_doc_parts in H. destruct H as [H1 H2 H3 H4 H5 H6].
  destruct (regroup_wf _ _ H1 H3) as [R1 R2].
  rewrite render_shape. repeat apply CstDoc.asc_app.
  - apply asc_pairs; exact R1.
  - apply CstDoc.asc_ws; exact R2.
  - apply (asc_item _ _ H5).
  - apply asc_pairs; exact H6.
  - apply CstDoc.asc_ws; exact H2.
  - constructor.
Qed.

Lemma root_starts name es ws body : wf_qname name = true ->
  exists n l, r_item (IElem name es ws body) = 60 :: n :: l /\ Cst.is_name_start n = true.
Proof.
  intros Hn. rewrite r_item_elem. destruct (qname_head _ Hn) as (n & r & En & Hns). rewrite En.
  eexists. eexists. split; [reflexivity|exact Hns].
Qed.

Lemma decl_render c : wf_doc c = true -> CstDoc.decl_test (render c) = false.
Proof.
  intros H. apply wf_doc_parts in H. destruct H as [H1 H2 H3 (name & es & ws & body & Er) H5 H6].
  destruct (regroup_wf _ _ H1 H3) as [R1 R2]. rewrite render_shape.
  destruct (wf_elem_parts _ _ _ _ _ ltac:(rewrite <- Er; exact H5)) as ([Hn _ _ _ _ _ _ _] & _).
  destruct (root_starts name es ws body Hn) as (n & l & El & Hns).
  destruct (name_start_byte _ Hns) as (_ & _ & _ & _ & _ & _ & H63 & _).
  destruct (regroup (d_ws0 c) (d_before c)) as [|[w i] B].
  - cbn [r_pairs flat_map app]. destruct (last_ws (d_ws0 c) (d_before c)) as [|x wl].
    + cbn [app]. rewrite Er, El. cbn [app]. apply CstDoc.decl_lt. exact H63.
    + cbn [app]. apply CstDoc.decl_ws. cbn [Cst.wf_ws forallb] in R2. apply andb_true_iff in R2.
      destruct R2 as [R2 _]. unfold Cst.is_ws in R2. clear - R2. lia.
  - cbn [wf_pairs forallb fst snd] in R1. rewrite !andb_true_iff in R1. destruct R1 as [[[W1 M1] I1] _].
    cbn [r_pairs flat_map fst snd]. rewrite <- !app_assoc. destruct w as [|x w].
    + cbn [app]. destruct i as [? ? ? ?|?|bs|t s v]; try discriminate.
      * cbn [r_item app]. apply CstDoc.decl_lt. clear. lia.
      * cbn [r_item]. rewrite <- !app_assoc. apply CstDoc.decl_pi. apply CstItems.wf_pi. exact I1.
    + cbn [app]. apply CstDoc.decl_ws. cbn [Cst.wf_ws forallb] in W1. apply andb_true_iff in W1.
      destruct W1 as [W1 _]. unfold Cst.is_ws in W1. clear - W1. lia.
Qed.

Lemma pairs_decls (l : pairs) : wf_pairs l = true ->
  items_decls (map snd l) = [] /\ ns_costs [] (map snd l) = O /\ nattrs_items (map snd l) = O.
Proof.
  induction l as [|[w i] r IH]; intros H; [repeat split|]. cbn [wf_pairs forallb fst snd] in H.
  rewrite !andb_true_iff in H. destruct H as [[[H1 H2] H3] H4]. destruct (IH H4) as (I1 & I2 & I3).
  destruct (misc_no_cost i H2) as (M1 & M2 & M3).
  cbn [map snd items_decls ns_costs nattrs_items]. rewrite I1, I2, I3, M1, M2, M3. repeat split.
Qed.

(* ------------------------------------------------------------------------------------------ *)
(* parse_document                                                                             *)
(* ------------------------------------------------------------------------------------------ *)

Lemma parse_document_ok_n (D : list Scope.binding)
      (HD : forall l, NoDup l -> incl l D -> N.of_nat (length l) <= 65535)
      (c : doc) (dtd : bool) (c0 : context) :
  wf_doc c = true -> incl (item_decls (d_root c)) D ->
  let text := render c in
  CstNsBuild.CIn text D [] c0 -> c_after_text c0 = [] ->
  node_room c0 (nsizes (doc_items c)) -> attr_room c0 (nattrs (d_root c)) -> ns_room c0 (ns_cost [] (d_root c)) ->
  exists cf K ext,
    parse_document text context (tok_ev text) dtd c0 = Ok cf /\
    Stepn c0 cf K ext /\ CstNsBuild.CIn text D [] cf /\
    Forall2 (kmn text (c_doc cf)) K
            (tag_list [] (c_parent_id c0) (len_N (d_nodes (c_doc c0))) (doc_items c)).
Proof.
  intros Hwf HinD text I0 A0 NR AR SR.
  pose proof (render_asc c Hwf) as Hascii. fold text in Hascii.
  pose proof (decl_render c Hwf) as Hdecl. fold text in Hdecl.
  pose proof (wf_doc_parts c Hwf) as [H1 H2 H3 (name & es & ws & body & Er) H5 H6].
  clear Hwf.
  destruct (regroup_wf _ _ H1 H3) as [R1 R2].
  assert (Etext : text = r_pairs (regroup (d_ws0 c) (d_before c)) ++ last_ws (d_ws0 c) (d_before c) ++
                         r_item (d_root c) ++ r_pairs (d_after c) ++ d_ws_end c ++ [])
    by apply render_shape.
  assert (Eitems : doc_items c = map snd (regroup (d_ws0 c) (d_before c)) ++ d_root c :: map snd (d_after c)).
  { unfold doc_items. rewrite regroup_items. reflexivity. }
  rewrite Eitems in *. clear Eitems. rewrite Er in *. clear Er H1 H3.
  set (B := regroup (d_ws0 c) (d_before c)) in *.
  set (wB := last_ws (d_ws0 c) (d_before c)) in *.
  set (A := d_after c) in *. set (wE := d_ws_end c) in *.
  set (root := IElem name es ws body) in *.
  rewrite nsizes_app, nsizes_cons in NR.
  pose proof (W_new text) as HW0.
  destruct (wf_elem_parts _ _ _ _ _ H5) as ([Hn _ _ _ _ _ _ _] & _).
  destruct (root_starts name es ws body Hn) as (n & l & El & Hns). fold root in El.
  destruct (name_start_byte _ Hns) as (_ & _ & Hnsp & _ & _ & H33 & H63 & _). clear Hns Hn.
  remember (r_item root ++ r_pairs A ++ wE ++ []) as rest eqn:Erest.
  assert (Hstop : CstDoc.misc_stop rest).
  { rewrite Erest, El. cbn [app]. split; [reflexivity|]. cbn [prefix_b].
    replace (33 =? n) with false by clia. replace (63 =? n) with false by clia. split; reflexivity. }
  assert (Hdt : prefix_b [60; 33; 68; 79; 67; 84; 89; 80; 69] rest = false).
  { rewrite Erest, El. cbn [app prefix_b]. replace (33 =? n) with false by clia. rewrite andb_false_r. reflexivity. }
  assert (Hcb : forall p, CstLex.W text p rest ->
            match curr_byte_opt (CstLex.st text p rest) with Some x => x =? 60 | None => false end = true).
  { intros p HWp. rewrite Erest, El in *. cbn [app] in *. rewrite curr_byte_opt_st by exact HWp. reflexivity. }
  clear El.
  unfold parse_document. rewrite st_new.
  rewrite starts_with_st by exact HW0. rewrite CstDoc.bom_false by exact Hascii. cbn [bind].
  unfold starts_with_declaration. rewrite starts_with_st, avail_st by exact HW0.
  change (b "<?xml") with [60; 63; 120; 109; 108]. fold (CstDoc.decl_test text). rewrite Hdecl. cbn [bind].
  (* prolog *)
  unfold parse_misc. cbn [CstLex.st s_rest].
  fold (CstLex.st text 0 text).
  assert (HW0' : CstLex.W text 0 (r_pairs B ++ wB ++ rest)) by (rewrite <- Etext; exact HW0).
  replace (CstLex.st text 0 text) with (CstLex.st text 0 (r_pairs B ++ wB ++ rest))
    by (rewrite <- Etext; reflexivity).
  assert (Elen : length text = length (r_pairs B ++ wB ++ rest)) by (rewrite <- Etext; reflexivity).
  destruct (misc_loop_ok_n text Hascii D HD B 0 wB rest c0 (S (length text)) HW0' R1 R2 Hstop)
    as (c1 & K1 & E1 & S1 & I1 & A1 & Tr1 & F1).
  { pose proof (pairs_len D HD B R1). rewrite Elen, app_length. clia. }
  { exact I0. } { exact A0. } { unfold node_room in *. clia. }
  rewrite E1. cbn [bind]. clear E1.
  pose proof (W_app _ _ _ _ HW0') as HWa. pose proof (W_app _ _ _ _ HWa) as HW1.
  set (p1 := 0 + blen (r_pairs B) + blen wB) in *.
  rewrite (CstDoc.skip_spaces_none text) by (try exact HW1; apply Hstop).
  rewrite starts_with_st by exact HW1. change (b "<!DOCTYPE") with [60; 33; 68; 79; 67; 84; 89; 80; 69].
  rewrite Hdt.
  cbn [bind]. rewrite (CstDoc.skip_spaces_none text) by (try exact HW1; apply Hstop).
  rewrite (Hcb p1 HW1).
  (* root *)
  pose proof (Stepn_nodes_len _ _ _ _ S1) as Ln1.
  rewrite (Forall2_len_N D HD _ _ _ F1) in Ln1. unfold len_N at 3 in Ln1. rewrite tag_list_len in Ln1.
  pose proof (Stepn_opt _ _ _ _ (proj1 S1)) as Lo1.
  pose proof (Stepn_attrs_len _ _ _ _ (proj1 S1)) as La1. change (len_N []) with 0 in La1.
  rewrite Erest in HW1 |- *.
  destruct (root_ok_ns text Hascii D HD [] name es ws body p1 (r_pairs A ++ wE ++ []) c1 H5 HinD HW1 I1)
    as (c2 & K2 & e2 & E2 & S2 & I2 & A2 & _ & _ & F2 & L2 & Tr2).
  { unfold node_room in *. rewrite Ln1, Lo1. fold root. clia. }
  { unfold attr_room in *. rewrite La1. fold root. clia. }
  { unfold ns_room in *. rewrite Tr1. fold root. exact SR. }
  fold root in E2, S2, A2, F2, L2, Tr2, HW1.
  rewrite E2. cbn [bind]. clear E2.
  pose proof (W_app _ _ _ _ HW1) as HW2.
  set (p2 := p1 + blen (r_item root)) in *.
  pose proof (Stepn_nodes_len _ _ _ _ S2) as Ln2.
  rewrite (Forall2_len_N D HD _ _ _ F2) in Ln2. unfold len_N at 3 in Ln2. rewrite tag_len in Ln2.
  pose proof (Stepn_opt _ _ _ _ (proj1 S2)) as Lo2.
  (* epilog *)
  unfold parse_misc. cbn [CstLex.st s_rest]. fold (CstLex.st text p2 (r_pairs A ++ wE ++ [])).
  destruct (misc_loop_ok_n text Hascii D HD A p2 wE [] c2
              (S (length (r_pairs A ++ wE ++ []))) HW2 H6 H2)
    as (c3 & K3 & E3 & S3 & I3 & A3 & Tr3 & F3).
  { split; [exact Logic.I|split; reflexivity]. }
  { pose proof (pairs_len D HD A H6). rewrite app_length. clia. }
  { exact I2. } { apply A2. reflexivity. }
  { unfold node_room in *. rewrite Ln2, Lo2, Ln1, Lo1, <- !N.add_assoc. exact NR. }
  rewrite E3. cbn [bind]. clear E3.
  pose proof (W_app _ _ _ _ HW2) as HWb. pose proof (W_app _ _ _ _ HWb) as HW3.
  rewrite at_end_st by exact HW3. cbn [negb].
  exists c3, (K1 ++ K2 ++ K3), ([] ++ e2 ++ []). split; [reflexivity|].
  split; [apply (Stepn_trans _ _ _ _ _ _ _ S1 (Stepn_trans _ _ _ _ _ _ _ S2 S3))|]. split; [exact I3|].
  rewrite tag_list_app. cbn [tag_list].
  destruct S1 as (S1 & P1 & _). destruct S2 as (S2 & P2 & _). destruct S3 as (S3 & _ & _).
  apply Forall2_app; [|apply Forall2_app].
  - apply (kmn_Forall2_ext text D HD (c_doc c1)); [|exact F1].
    eapply DocExt_trans; [apply (Step0n_DocExt _ _ _ _ S2)|apply (Step0n_DocExt _ _ _ _ S3)].
  - apply (kmn_Forall2_ext text D HD (c_doc c2)); [apply (Step0n_DocExt _ _ _ _ S3)|].
    rewrite P1, Ln1 in F2. exact F2.
  - rewrite P2, P1, Ln2, Ln1 in F3. exact F3.
Qed.

Print Assumptions parse_document_ok_n.
