(* Proofs/ErrShiftDtdProlog.v -- C14 (whitespace inserted after the DOCTYPE), part 4: the builder
   context of the prolog when entity declarations may have been recorded: the shape [PS] of
   ErrShiftMidProlog.v up to the list of entities. *)
From Coq Require Import Ascii String.
From Coq Require Import List Arith NArith Bool Lia ZifyBool ZifyN ZifyNat.
Import ListNotations.
From RX Require Import Generated.
From RX.Model Require Import Base CharClass Stream Tokenizer Doc Builder Parse.
From RX.Proofs Require Import Tactics ErrShiftMidLocal ErrShiftMidProlog ErrShiftDtdLocal.
Open Scope N_scope.

Definition PS0 (T : bytes) (q : N) (c : context) : Prop := PS T q (set_entities c []).

Definition rmapc (g : context -> context) (r : res context) : res context :=
  match r with Ok c => Ok (g c) | Err e => Err e | Panic p => Panic p | OutOfFuel => OutOfFuel end.

Lemma PS_mono' T q q' c : q <= q' -> PS T q c -> PS T q' c.
Proof.
  intros Hq [P1 P2 P3 P4 P5 P6 P7 P8 [HR Hold]]. split; try assumption. split; [exact HR|].
  intros i n Hi Hn. eapply isold_mono; [exact Hq|]. eapply Hold; eassumption.
Qed.

Lemma PS0_mono T q q' c : q <= q' -> PS0 T q c -> PS0 T q' c.
Proof. apply PS_mono'. Qed.

Lemma append_node_ent kind r c E :
  append_node kind r (set_entities c E) =
  match append_node kind r c with
  | Ok x => Ok (fst x, set_entities (snd x) E) | Err e => Err e | Panic p => Panic p | OutOfFuel => OutOfFuel end.
Proof.
  unfold append_node. cbv zeta. cbn [set_entities c_doc c_opt c_parent_id c_awaiting].
  destruct (_ <=? _); [reflexivity|].
  destruct (node_id_new _) as [new_id| | |]; cbn [bind]; try reflexivity.
  destruct (match nth_N _ _ with Some x => Ok x | None => Panic P_index end) as [pnd| | |]; cbn [bind]; try reflexivity.
  destruct (upd_node _ new_id _) as [l1| | |]; cbn [bind]; try reflexivity.
  destruct (upd_node l1 _ _) as [l2| | |]; cbn [bind]; try reflexivity.
  destruct (set_next_subtree_all l2 _ _) as [l3| | |]; cbn [bind]; reflexivity.
Qed.

Lemma token_ent T a e tok c E : tok_in a e tok -> c_after_text c = [] ->
  Parse.token T tok (set_entities c E) = rmapc (fun c' => set_entities c' E) (Parse.token T tok c).
Proof.
  intros Ht Hat.
  destruct tok as [t v r|t r| | | | | |]; cbn [tok_in] in Ht; try contradiction;
    unfold Parse.token; cbn [token_with]; unfold reset_after_text;
    change (c_after_text (set_entities c E)) with (c_after_text c); rewrite Hat; cbn [bind];
    rewrite append_node_ent; destruct (append_node _ r c) as [[id c1]| | |]; reflexivity.
Qed.

Lemma set_entities_eta c : set_entities c (c_entities c) = c.
Proof. destruct c. reflexivity. Qed.

Lemma token_ent_keep T a e tok c c' : tok_in a e tok -> c_after_text c = [] ->
  Parse.token T tok c = Ok c' -> c_entities c' = c_entities c.
Proof.
  intros Ht Hat H. pose proof (token_ent T a e tok c (c_entities c) Ht Hat) as E.
  rewrite set_entities_eta, H in E. cbn [rmapc] in E. injection E as E. rewrite E. reflexivity.
Qed.

Lemma token_PS0 T q a e tok c c' : PS0 T q c -> q <= a -> tok_in2 a e tok ->
  Parse.token T tok c = Ok c' -> PS0 T e c'.
Proof.
  intros HP Hqa [Ht|(Hae & nm & v & ->)] H.
  - unfold PS0 in *. assert (Hat : c_after_text c = []) by exact (ps_at _ _ _ HP).
    pose proof (token_ent T a e tok c [] Ht Hat) as E. rewrite H in E. cbn [rmapc] in E.
    eapply token_PS; eassumption.
  - unfold Parse.token in H. cbn [token_with] in H. injection H as <-. unfold PS0 in *.
    change (set_entities (set_entities c (c_entities c ++ [{| en_name := nm; en_value := v |}])) [])
      with (set_entities c []).
    eapply PS_mono'; [|exact HP]. lia.
Qed.

Lemma rr_ent E c : rr E c = set_entities (rr E (set_entities c [])) (c_entities c).
Proof. reflexivity. Qed.

Lemma token_rr0 T1 T2 q a e tok c c' : PS0 T1 q c -> tok_in2 a e tok ->
  Parse.token T1 tok c = Ok c' -> Parse.token T2 tok (rr (tlen T2) c) = Ok (rr (tlen T2) c').
Proof.
  intros HP [Ht|(Hae & nm & v & ->)] H.
  - unfold PS0 in HP. assert (Hat : c_after_text c = []) by exact (ps_at _ _ _ HP).
    pose proof (token_ent T1 a e tok c [] Ht Hat) as E. rewrite H in E. cbn [rmapc] in E.
    pose proof (token_rr T1 T2 q a e tok _ _ HP Ht E) as E2.
    rewrite (rr_ent (tlen T2) c).
    rewrite (token_ent T2 a e tok _ (c_entities c) Ht) by exact Hat.
    rewrite E2. cbn [rmapc]. f_equal. rewrite (rr_ent (tlen T2) c').
    rewrite (token_ent_keep T1 a e tok c c' Ht Hat H). reflexivity.
  - unfold Parse.token in *. cbn [token_with] in *. injection H as <-. reflexivity.
Qed.

Lemma PS0_rr T1 T2 q c : PS0 T1 q c -> PS0 T2 q (rr (tlen T2) c).
Proof. unfold PS0. intros H. apply (PS_rr T1 T2 q _ H). Qed.

Lemma PS0_PS T q c : PS0 T q c -> c_entities c = [] -> PS T q c.
Proof. unfold PS0. intros H E. rewrite <- E, set_entities_eta in H. exact H. Qed.

Lemma init_PS0 T opt c : init_context T opt = Ok c -> PS0 T 0 c.
Proof.
  intros H. unfold PS0. pose proof (init_PS T opt c H) as HP.
  replace (set_entities c []) with c; [exact HP|].
  rewrite <- (ps_ent _ _ _ HP). symmetry. apply set_entities_eta.
Qed.
