(* Proofs/CstRangeDefs.v -- C13 / C18 on the fragment of Spec/Cst.v, part 1: where every node and
   every attribute of an abstract document is written inside its rendering.  Everything here is
   computed from the abstract document alone (no model, no proof internals). *)
From Coq Require Import List NArith Bool Lia.
Import ListNotations.
From RX.Spec Require Import Cst.
Open Scope N_scope.

Definition nlen (l : bytes) : N := N.of_nat (length l).

(* ---- the items of a document in document order, each with the offset of its first byte ---- *)
Definition start_tag_len (name : bytes) (attrs : list attr) (ws_end : bytes) : N :=
  1 + nlen name + nlen (flat_map r_attr attrs) + nlen ws_end + 1.     (* "<" name attrs ws ">" *)

Fixpoint items_at (p : N) (i : item) : list (N * item) :=
  match i with
  | IElem name attrs ws_end body =>
    (p, i) ::
    match body with
    | None => []
    | Some (children, _) =>
      (fix go (q : N) (l : list item) : list (N * item) :=
         match l with [] => [] | c :: r => items_at q c ++ go (q + nlen (r_item c)) r end)
        (p + start_tag_len name attrs ws_end) children
    end
  | _ => [(p, i)]
  end.

Fixpoint before_at (p : N) (l : list (item * bytes)) : list (N * item) :=
  match l with
  | [] => []
  | (i, w) :: r => items_at p i ++ before_at (p + nlen (r_item i) + nlen w) r
  end.
Fixpoint after_at (p : N) (l : list (bytes * item)) : list (N * item) :=
  match l with
  | [] => []
  | (w, i) :: r => items_at (p + nlen w) i ++ after_at (p + nlen w + nlen (r_item i)) r
  end.

Definition before_len (l : list (item * bytes)) : N := nlen (flat_map (fun p => r_item (fst p) ++ snd p) l).

Definition root_offset (c : doc) : N := nlen (d_ws0 c) + before_len (d_before c).

(* all nodes below the Root, in document order (the order of [sem c]) *)
Definition doc_items_at (c : doc) : list (N * item) :=
  before_at (nlen (d_ws0 c)) (d_before c) ++ items_at (root_offset c) (d_root c)
  ++ after_at (root_offset c + nlen (r_item (d_root c))) (d_after c).

(* ---- (1) the span [start, end) of every node ---- *)
Definition span_of (x : N * item) : N * N := (fst x, fst x + nlen (r_item (snd x))).
Definition spans (c : doc) : list (N * N) := map span_of (doc_items_at c).

(* ---- (3) where the names and the contents are written ---- *)
Inductive nshape :=
| SElem (local : N * N)                       (* the name after '<' *)
| SText (content : N * N)                     (* the whole text *)
| SComment (content : N * N)                  (* between "<!--" and "-->" *)
| SPI (target : N * N) (value : option (N * N)).

Definition shape_of (x : N * item) : nshape :=
  let p := fst x in
  match snd x with
  | IElem name _ _ _ => SElem (p + 1, p + 1 + nlen name)
  | IText bs => SText (p, p + nlen bs)
  | IComment bs => SComment (p + 4, p + 4 + nlen bs)
  | IPI target sep value =>
    SPI (p + 2, p + 2 + nlen target)
        (match value with
         | [] => None
         | _ => Some (p + 2 + nlen target + nlen sep, p + 2 + nlen target + nlen sep + nlen value)
         end)
  end.
Definition shapes (c : doc) : list nshape := map shape_of (doc_items_at c).

(* ---- (2) the attributes of all elements, in document order ---- *)
Record aspan := {
  as_range : N * N;      (* first byte of the name .. closing quote inclusive *)
  as_qname : N * N;      (* the name *)
  as_value : N * N       (* between the quotes *)
}.

(* [q]: offset of the first byte of the attribute's rendering (its leading whitespace) *)
Definition aspan_at (q : N) (a : attr) : aspan :=
  let start := q + nlen (a_ws a) in
  let ne := start + nlen (a_name a) in
  let quote := ne + nlen (a_ws1 a) + 1 + nlen (a_ws2 a) in
  {| as_range := (start, quote + 1 + nlen (a_value a) + 1);
     as_qname := (start, ne);
     as_value := (quote + 1, quote + 1 + nlen (a_value a)) |}.

Fixpoint aspans_at (q : N) (attrs : list attr) : list aspan :=
  match attrs with [] => [] | a :: r => aspan_at q a :: aspans_at (q + nlen (r_attr a)) r end.

Definition item_aspans (x : N * item) : list aspan :=
  match snd x with
  | IElem name attrs _ _ => aspans_at (fst x + 1 + nlen name) attrs
  | _ => []
  end.
Definition attr_spans (c : doc) : list aspan := flat_map item_aspans (doc_items_at c).

(* all attributes of the document, in the same order *)
Definition item_attrs (x : N * item) : list attr :=
  match snd x with IElem _ attrs _ _ => attrs | _ => [] end.
Definition doc_attrs (c : doc) : list attr := flat_map item_attrs (doc_items_at c).

(* below the saturation limits of the stored lengths: the name fits 16 bits, the distance from the
   name to the opening quote fits 8 bits *)
Definition attr_small (a : attr) : Prop :=
  nlen (a_name a) <= 65535 /\ nlen (a_ws1 a) + 1 + nlen (a_ws2 a) <= 255.
Definition attrs_small (c : doc) : Prop := Forall attr_small (doc_attrs c).
