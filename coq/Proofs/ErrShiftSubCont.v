(* Proofs/ErrShiftSubCont.v -- C14 (whitespace inserted INSIDE the internal subset), part 1:
   - [dtd_steps n]: n rounds of the loop of parse_doctype (the declarations, comments and
     processing instructions of the internal subset), none of which closes the subset;
   - [sub_open]: the DOCTYPE up to and including its '[';
   - [cont3]: the rest of parse_document from a head of that loop;
   - parse_document as [cont3] from such a head; the frame property of [cont3]. *)
From Coq Require Import Ascii String.
From Coq Require Import List Arith NArith Bool Lia ZifyBool ZifyN ZifyNat.
Import ListNotations.
From RX Require Import Generated.
From RX.Model Require Import Base CharClass Stream Tokenizer Doc Builder Parse.
From RX.Proofs Require Import Tactics OptionsParam ErrShiftMidGen ErrShiftMidFrame ErrShiftMidCont ErrShiftDtdCont.
Open Scope N_scope.

Section Def.
Variable text : bytes.
Variable C : Type.
Variable ev : Tokenizer.token -> C -> res C.

(* n rounds of the loop of the internal subset, each of which finds a declaration, a comment or a PI *)
Fixpoint dtd_steps (n : nat) (s : stream) (c : C) : option (stream * C) :=
  match n with
  | O => Some (s, c)
  | S n' =>
    if at_end s then None else
    let s1 := skip_spaces s in
    if starts_with s1 (b "<!ENTITY") then
      match parse_entity_decl text C ev s1 c with Ok x => dtd_steps n' (fst x) (snd x) | _ => None end
    else if starts_with s1 (b "<!--") then
      match parse_comment text C ev s1 c with Ok x => dtd_steps n' (fst x) (snd x) | _ => None end
    else if starts_with s1 (b "<?") then
      match parse_pi text C ev s1 c with Ok x => dtd_steps n' (fst x) (snd x) | _ => None end
    else if starts_with s1 (b "]") then None
    else if starts_with s1 (b "<!ELEMENT") || starts_with s1 (b "<!ATTLIST") || starts_with s1 (b "<!NOTATION") then
      match consume_decl text s1 with Ok s2 => dtd_steps n' s2 c | _ => None end
    else None
  end.

Lemma dtd_steps_loop : forall n s c s' c', dtd_steps n s c = Some (s', c') ->
  forall fu start, parse_doctype_loop text C ev (n + fu) start s c = parse_doctype_loop text C ev fu start s' c'.
Proof.
  induction n as [|n IH]; intros s c s' c' H fu start; cbn [dtd_steps] in H.
  - injection H as <- <-. reflexivity.
  - cbn [Nat.add parse_doctype_loop]. destruct (at_end s); [discriminate|]. cbv zeta in *.
    destruct (starts_with (skip_spaces s) (b "<!ENTITY")).
    { destruct (parse_entity_decl text C ev (skip_spaces s) c) as [[s1 c1]| | |]; try discriminate.
      cbn [bind fst snd] in *. apply IH. exact H. }
    destruct (starts_with (skip_spaces s) (b "<!--")).
    { destruct (parse_comment text C ev (skip_spaces s) c) as [[s1 c1]| | |]; try discriminate.
      cbn [bind fst snd] in *. apply IH. exact H. }
    destruct (starts_with (skip_spaces s) (b "<?")).
    { destruct (parse_pi text C ev (skip_spaces s) c) as [[s1 c1]| | |]; try discriminate.
      cbn [bind fst snd] in *. apply IH. exact H. }
    destruct (starts_with (skip_spaces s) (b "]")); [discriminate|].
    destruct (_ || _); [|discriminate].
    destruct (consume_decl text (skip_spaces s)) as [s1| | |]; try discriminate. apply IH. exact H.
Qed.

Lemma dtd_steps_fuel : forall n s c s' c', dtd_steps n s c = Some (s', c') ->
  forall fu start, (fu <= n)%nat -> parse_doctype_loop text C ev fu start s c = OutOfFuel.
Proof.
  induction n as [|n IH]; intros s c s' c' H fu start Hle.
  - replace fu with O by lia. reflexivity.
  - destruct fu as [|fu]; [reflexivity|]. cbn [dtd_steps] in H. cbn [parse_doctype_loop].
    destruct (at_end s); [discriminate|]. cbv zeta in *.
    destruct (starts_with (skip_spaces s) (b "<!ENTITY")).
    { destruct (parse_entity_decl text C ev (skip_spaces s) c) as [[s1 c1]| | |]; try discriminate.
      cbn [bind fst snd] in *. eapply IH; [exact H|lia]. }
    destruct (starts_with (skip_spaces s) (b "<!--")).
    { destruct (parse_comment text C ev (skip_spaces s) c) as [[s1 c1]| | |]; try discriminate.
      cbn [bind fst snd] in *. eapply IH; [exact H|lia]. }
    destruct (starts_with (skip_spaces s) (b "<?")).
    { destruct (parse_pi text C ev (skip_spaces s) c) as [[s1 c1]| | |]; try discriminate.
      cbn [bind fst snd] in *. eapply IH; [exact H|lia]. }
    destruct (starts_with (skip_spaces s) (b "]")); [discriminate|].
    destruct (_ || _); [|discriminate].
    destruct (consume_decl text (skip_spaces s)) as [s1| | |]; try discriminate. eapply IH; [exact H|lia].
Qed.

(* the DOCTYPE up to its '[': where it starts, and the stream behind the '[' *)
Definition sub_open (s3 : stream) : option (N * stream) :=
  match parse_doctype_start text s3 with
  | Ok s =>
    let s := skip_spaces s in
    if match curr_byte_opt s with Some x => x =? 62 | None => false end then None
    else match advance 1 s with Ok s' => Some (s_pos s3, s') | _ => None end
  | _ => None
  end.

(* the rest of parse_document from a head of the loop of the internal subset *)
Definition cont3 (fuel : nat) (start : N) (s : stream) (c : C) : res C :=
  let! x := parse_doctype_loop text C ev fuel start s c in
  cont2 text C ev (S (length (s_rest (fst x)))) (fst x) (snd x).

Lemma parse_document_sub c s2 s3 c3 start s4 :
  doc_start text = Ok s2 -> parse_misc text C ev s2 c = Ok (s3, c3) ->
  starts_with (skip_spaces s3) (b "<!DOCTYPE") = true ->
  sub_open (skip_spaces s3) = Some (start, s4) ->
  parse_document text C ev true c = cont3 (S (length (s_rest s4))) start s4 c3.
Proof.
  intros H1 H2 H3 H4. rewrite parse_document_cont, H1. cbn [bind]. unfold cont.
  change (parse_misc_loop text C ev (S (length (s_rest s2))) s2 c) with (parse_misc text C ev s2 c).
  rewrite H2. cbn [bind]. unfold doc_tail. cbn [fst snd].
  remember (skip_spaces s3) as s3' eqn:E3. clear E3. rewrite H3. cbn [negb].
  unfold sub_open in H4. unfold parse_doctype. cbv zeta.
  destruct (parse_doctype_start text s3') as [s5| | |]; try discriminate. cbn [bind]. cbv zeta in H4.
  destruct (match curr_byte_opt (skip_spaces s5) with Some x => x =? 62 | None => false end); [discriminate|].
  destruct (advance 1 (skip_spaces s5)) as [s6| | |]; try discriminate. injection H4 as <- <-. cbn [bind].
  unfold cont3.
  destruct (parse_doctype_loop text C ev (S (length (s_rest s6))) (s_pos s3') s6 c3) as [[s7 c7]| | |];
    cbn [bind fst snd]; reflexivity.
Qed.

End Def.

(* ---- frame ---- *)
Section Frame.
Variable text : bytes.
Variable olds : list (node_kind * range).
Hypothesis Holds : Forall (fun o => ntext (fst o)) olds.
Notation tk := (Parse.token text).
Notation Inv := (Inv olds).
Notation pc := (pc olds).
Notation gp := (gp olds).
Notation RF := (RF olds).

Lemma doctype_loop_fr fu start s c : Inv c ->
  fsim (fun x => Inv (snd x)) gp (parse_doctype_loop text context tk fu start s c)
       (parse_doctype_loop text context tk fu start s (pc c)).
Proof.
  intros HI. eapply (grel_fsim2 olds NoRootNode).
  apply (b_parse_doctype_loop text context context tk tk False NoRootNode RF QT (tk_RF text olds Holds) (QT_ok text)).
  split; [exact HI|reflexivity].
Qed.

Lemma cont3_fr fu start s c : Inv c ->
  fsim Inv pc (cont3 text context tk fu start s c) (cont3 text context tk fu start s (pc c)).
Proof.
  intros HI. unfold cont3.
  eapply fsim_bind; [apply doctype_loop_fr; exact HI|]. intros [s1 c1] H1.
  cbn [ErrShiftMidFrame.gp fst snd] in *. apply (cont2_fr text olds Holds). exact H1.
Qed.

End Frame.

(* ---- the state of the prolog at a head of the loop of the internal subset, after n rounds ---- *)
Definition subset_state (text : bytes) (opt : options) (n : nat) : option (N * stream * context) :=
  match init_context text opt, doc_start text with
  | Ok ci, Ok s2 =>
    match parse_misc text context (Parse.token text) s2 ci with
    | Ok x3 =>
      let s3 := skip_spaces (fst x3) in
      if starts_with s3 (b "<!DOCTYPE") && allow_dtd opt then
        match sub_open text s3 with
        | Some (start, s4) =>
          match dtd_steps text context (Parse.token text) n s4 (snd x3) with
          | Some (sQ, cQ) => Some (start, sQ, cQ)
          | None => None
          end
        | None => None
        end
      else None
    | _ => None
    end
  | _, _ => None
  end.
