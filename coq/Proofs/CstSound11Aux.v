(* Proofs/CstSound11Aux.v -- helpers of the soundness chain with witness in stage S11 (Spec/CstFullS11.v):
   - the conditions on the declarations AS READ by the lexical layer ([wf_xdecl11w]: a literal without '<' is read as
     character data [XText ps] whose pieces satisfy [wf_uepieces11], i.e. may contain references to TAB / LF; the
     classification of Proofs/CstSound11Cls.v turns those into content values, which is what S11 asks);
   - what such pieces are for the character-data machine ([xtext_weak]: [uep_ok false]);
   - (P2) from "no CR byte" ([lf_ok_nocr]);
   - the use-site condition [refs_in_content] of Proofs/CstSound11.v on a window ([ref_use_refute]). *)
From Coq Require Import String.
From Coq Require Import List Arith PeanoNat NArith Bool Lia ZifyBool ZifyN ZifyNat.
Import ListNotations.
From RX Require Import Generated.
From RX.Model Require Import Base CharClass.
From RX.Spec Require Cst Chars CstU CstNs CstEnt CstText.
From RX.Spec Require Import CstFull CstFullS4 CstFullS5 CstFullS6 CstFullS7 CstFullS9 CstFullS10 CstFullS11.
From RX.Proofs Require Import CstLex CstULex CstSoundULex.
From RX.Proofs Require CstSoundLex CstBuild.
From RX.Proofs Require CstTextLex CstFullS10aSem CstFullS10aPlug CstFullS11Base CstFullS11Main.
From RX.Proofs Require Import CstSound CstSoundP CstSound6 CstSound10 CstSound11.
Open Scope N_scope.

(* ---- the declarations as read ---- *)
Definition wf_xvalue11w (q : N) (v : X4.xvalue) : bool :=
  forallb (fun x => negb (x =? q)) (X4.r_xvalue v) &&
  match v with
  | X4.XText ps => wf_uepieces11 q false true true ps
  | X4.XContent its => forallb (wf_uitem10 true) its && no_adjacent_text epieces its
  end.
Definition wf_xdecl11w (e : X4.xdecl) : bool :=
  wf_s (X4.x_ws0 e) && wf_s1 (X4.x_ws1 e) && wf_name7 (X4.x_name e) && wf_s1 (X4.x_ws2 e) &&
  X5.is_quote (X4.x_quote e) && wf_xvalue11w (X4.x_quote e) (X4.x_value e) && wf_s (X4.x_ws3 e).
Definition wf_sdecl11w (s : sdecl6) : bool :=
  match s with XEntity e => wf_xdecl11w e | XOther s => negb (is_sentity s) && wf_other7 s end.
Definition wf_subset11w (u : subset6) : bool :=
  forallb wf_sdecl11w (zu_decls u) && wf_s (zu_ws3 u) && wf_s (zu_ws4 u).
Definition wf_doctype11w (t : doctype6) : bool :=
  wf_s1 (z_ws1 t) && wf_name7 (z_name t) && wf_s (z_ws2 t) &&
  match z_ext t with
  | Some (x, w) => wf_s1 (z_ws2 t) && X5.wf_extid x && wf_s w
  | None => true
  end && X5.wf_opt wf_subset11w (z_subset t).

Lemma xdecl_11w e : wf_xdecl10 e = true -> wf_xdecl11w e = true.
Proof.
  unfold wf_xdecl10, wf_xdecl11w, wf_xvalue10, wf_xvalue11w. rewrite !andb_true_iff. intros [[[[[[H0 H1] Hn] H2] Hq] [Hv1 Hv2]] H3].
  repeat split; try assumption.
  destruct (X4.x_value e) as [ps|its]; [apply CstFullS11Main.uepieces_11; exact Hv2|exact Hv2].
Qed.

(* ---- pieces ---- *)
Definition is_ws_ref (p : E.epiece) : bool :=
  match p with E.EP (T.PCharRef hex ds) => (T.ref_val hex ds =? 9) || (T.ref_val hex ds =? 10) | _ => false end.
Definition has_ws (ps : list E.epiece) : bool := existsb is_ws_ref ps.

Lemma uepiece11_10f q cd ch p : wf_uepiece11 q cd ch true p = true -> wf_uepiece10 q cd ch false p = true.
Proof.
  destruct p as [[cs|hex ds|e|cs]|n]; cbn [wf_uepiece11 wf_uepiece10]; try (intros H; exact H).
  all: rewrite !andb_true_iff; intros [H1 _]; split; [exact H1|reflexivity].
Qed.
Lemma uepieces11_10f q cd ch ps : wf_uepieces11 q cd ch true ps = true -> wf_uepieces10 q cd ch false ps = true.
Proof.
  unfold wf_uepieces11, wf_uepieces10. rewrite !andb_true_iff. intros [[H1 H2] _]. split; [|exact H2].
  revert H1. apply CstLex.forallb_imp. intros p. apply uepiece11_10f.
Qed.

Lemma uepiece11_10 q cd ch p : wf_uepiece11 q cd ch true p = true -> is_ws_ref p = false -> wf_uepiece10 q cd ch true p = true.
Proof.
  destruct p as [[cs|hex ds|e|cs]|n]; cbn [wf_uepiece11 wf_uepiece10 is_ws_ref]; try (intros H _; exact H).
  rewrite !andb_true_iff. intros [H1 H2] Hw. split; [exact H1|]. cbn [charref_ok10 charref_ok11] in *. cbv zeta. lia.
Qed.
Lemma uepieces11_10 q cd ch ps : wf_uepieces11 q cd ch true ps = true -> has_ws ps = false -> wf_uepieces10 q cd ch true ps = true.
Proof.
  unfold wf_uepieces11, wf_uepieces10, has_ws. rewrite !andb_true_iff. intros [[H1 H2] _] Hw. split; [|exact H2].
  apply forallb_forall. intros p Hp. rewrite forallb_forall in H1. apply uepiece11_10; [exact (H1 p Hp)|].
  destruct (is_ws_ref p) eqn:E; [|reflexivity].
  assert (existsb is_ws_ref ps = true) by (apply existsb_exists; exists p; split; assumption). congruence.
Qed.

(* what the pieces of a literal without '<' are for the character-data machine (any mode) *)
Lemma xtext_weak q ps : q < 128 -> wf_uepieces11 q false true true ps = true ->
  Forall (CstFullS10aSem.uep_ok false) (enc_epieces ps) /\ contains_b CstTextLex.n3 (E.r_epieces (enc_epieces ps)) = false /\
  E.no_adjacent_elit (enc_epieces ps) = true.
Proof.
  intros Hq H. pose proof (uepieces11_10f _ _ _ _ H) as H10.
  pose proof H10 as Hw0. unfold wf_uepieces10 in Hw0. apply andb_true_iff in Hw0. destruct Hw0 as [Hw _].
  destruct (CstFullS10aPlug.uepieces_ok q false true false ps Hq H10 (CstFullS10aPlug.no_cdata_of _ _ _ _ Hw)) as (Hok & Hadj & H3c).
  split; [exact Hok|]. split; [|exact Hadj]. apply CstFullS10aSem.ustretch_no_cdata_end; [exact Hok|apply H3c; reflexivity|exact Hadj].
Qed.

(* ---- (P2) is free without CR ---- *)
Lemma lf_ok_noends : forall ps, Forall (fun p => lit_ends_cr p = false) ps -> lf_ok false ps = true.
Proof.
  induction 1 as [|p r Hp _ IH]; [reflexivity|]. cbn [lf_ok andb negb]. rewrite Hp. exact IH.
Qed.

Lemma lf_ok_nocr ps : Forall (fun y => y <> 13) (E.r_epieces (enc_epieces ps)) -> lf_ok false ps = true.
Proof.
  intros H. apply lf_ok_noends. induction ps as [|p r IH]; [constructor|].
  unfold enc_epieces, E.r_epieces in H. cbn [map flat_map] in H. apply Forall_app in H. destruct H as [H1 H2].
  constructor; [|apply IH; exact H2].
  destruct p as [[cs|hex ds|e|cs]|n]; try reflexivity.
  cbn [lit_ends_cr E.ends_cr]. cbn [enc_epiece enc_piece E.r_epiece T.r_piece] in H1.
  pose proof (scalars_ne 13 cs ltac:(lia) H1) as Hs.
  destruct (rev cs) as [|x t] eqn:Er; [reflexivity|].
  assert (Hin : In x cs) by (apply in_rev; rewrite Er; left; reflexivity).
  rewrite Forall_forall in Hs. specialize (Hs x Hin). lia.
Qed.

(* ---- the use-site condition on a window ---- *)
Definition Qm (more : bytes) : Prop := exists q rest, more = q :: rest /\ (q = 34 \/ q = 39).

Lemma lt_first_false : forall a more, mem_b 60 a = false -> Qm more -> lt_first (a ++ more) = false.
Proof.
  induction a as [|x a IH]; intros more H (q & rest & -> & Hq).
  - cbn [app lt_first]. destruct Hq as [-> | ->]; reflexivity.
  - cbn [app lt_first]. cbn [mem_b] in H. apply orb_false_iff in H. destruct H as [Hx Ha].
    replace (x =? 60) with false by lia. destruct ((x =? 34) || (x =? 39)); [reflexivity|].
    apply IH; [exact Ha|]. exists q, rest. auto.
Qed.

Lemma all_suffixes_at P : forall n (l : bytes), all_suffixes P l = true -> P (skipn n l) = true.
Proof.
  induction n as [|n IH]; intros l H.
  - destruct l; cbn [all_suffixes skipn] in *; [exact H|]. apply andb_true_iff in H. tauto.
  - destruct l as [|x l]; [cbn [skipn]; exact H|]. cbn [skipn]. apply IH. cbn [all_suffixes] in H. apply andb_true_iff in H. tauto.
Qed.

(* a reference "&r..." (r does not start with '#') in a window without '<' that is followed by a quote *)
Lemma ref_use_refute text n r more : refs_in_content text = true -> skipn n text = (38 :: r) ++ more ->
  (forall r', r <> 35 :: r') -> is_predef_ref (r ++ more) = false -> mem_b 60 r = false -> Qm more -> False.
Proof.
  intros HU E Hr Hpd H60 HQ. unfold refs_in_content in HU. pose proof (all_suffixes_at _ n _ HU) as H. rewrite E in H.
  cbn [app ref_use_ok] in H. change (38 =? 38) with true in H. cbv iota in H.
  pose proof (lt_first_false r more H60 HQ) as Hf.
  destruct r as [|y r']; [destruct HQ as (q & rest & -> & [-> | ->]); vm_compute in H; discriminate|].
  cbn [app] in H, Hf, Hpd. destruct (y =? 35) eqn:Ey; [assert (y = 35) by lia; subst y; exact (Hr _ eq_refl)|].
  rewrite Hf, Hpd in H. discriminate.
Qed.

Lemma mem60_app : forall a c, mem_b 60 (a ++ c) = mem_b 60 a || mem_b 60 c.
Proof. induction a as [|x a IH]; intros c; [reflexivity|]. cbn [app mem_b]. rewrite IH, orb_assoc. reflexivity. Qed.

(* scalars without '<' have no byte '<' *)
Lemma scalars_nomem60 : forall cs, Forall (fun c => c <> 60) cs -> mem_b 60 (utf8s cs) = false.
Proof.
  induction 1 as [|c cs Hc _ IH]; [reflexivity|]. rewrite utf8s_cons, mem60_app, IH, orb_false_r.
  destruct (N.ltb_spec c 128) as [L|L].
  - rewrite (utf8_ascii c L). cbn [mem_b]. rewrite orb_false_r. lia.
  - destruct (utf8_high c L) as [Hh _]. induction Hh as [|y t Hy _ IHt]; [reflexivity|]. cbn [mem_b]. rewrite IHt, orb_false_r. lia.
Qed.

Lemma forallb_nomem60 l : forallb (fun y => negb (y =? 60)) l = true -> mem_b 60 l = false.
Proof.
  induction l as [|x l IH]; [reflexivity|]. cbn [forallb mem_b]. intros H. apply andb_true_iff in H. destruct H as [H1 H2].
  rewrite (IH H2), orb_false_r. lia.
Qed.

Lemma mem60_skipn : forall n l, mem_b 60 l = false -> mem_b 60 (skipn n l) = false.
Proof.
  induction n as [|n IH]; intros l H; [exact H|]. destruct l as [|x l]; [exact H|]. cbn [skipn]. apply IH.
  cbn [mem_b] in H. apply orb_false_iff in H. apply H.
Qed.
Lemma skipn_add {A : Type} : forall y x (l : list A), skipn x (skipn y l) = skipn (x + y) l.
Proof.
  induction y as [|y IH]; intros x l; [rewrite Nat.add_0_r; reflexivity|].
  destruct l as [|a l]; [rewrite !skipn_nil; reflexivity|]. rewrite Nat.add_succ_r. cbn [skipn]. apply IH.
Qed.

(* a name that is none of the five predefined names does not start a predefined reference *)
Lemma first59 : forall a c t1 t2, Forall (fun y => y <> 59) a -> Forall (fun y => y <> 59) c ->
  a ++ 59 :: t1 = c ++ 59 :: t2 -> a = c.
Proof.
  induction a as [|x a IH]; intros c t1 t2 Ha Hc E.
  - destruct c as [|y c]; [reflexivity|]. cbn [app] in E. injection E as E _. inversion Hc; subst. congruence.
  - inversion Ha as [|? ? Hx Ha']; subst. destruct c as [|y c]; cbn [app] in E.
    + injection E as E _. congruence.
    + injection E as -> E. inversion Hc as [|? ? _ Hc']; subst. f_equal. exact (IH _ _ _ Ha' Hc' E).
Qed.

Lemma nomem_Forall x : forall l, mem_b x l = false -> Forall (fun y => y <> x) l.
Proof.
  induction l as [|y l IH]; intros H; [constructor|]. cbn [mem_b] in H. apply orb_false_iff in H. destruct H as [H1 H2].
  constructor; [lia|exact (IH H2)].
Qed.

Lemma predef_ref_false name rest : Forall (fun y => y <> 59) name ->
  forallb (fun n => negb (bytes_eqb name n)) [b "quot"; b "amp"; b "apos"; b "lt"; b "gt"] = true ->
  is_predef_ref (name ++ 59 :: rest) = false.
Proof.
  intros Hn Hp. unfold is_predef_ref, predef_refs.
  assert (ONE : forall n, Forall (fun y => y <> 59) n -> bytes_eqb name n = false -> prefix_b (n ++ [59]) (name ++ 59 :: rest) = false).
  { intros n Hn59 Hne. destruct (prefix_b (n ++ [59]) (name ++ 59 :: rest)) eqn:Ep; [|reflexivity]. exfalso.
    destruct (CstSoundLex.prefix_b_split _ _ Ep) as (t & Et). rewrite <- app_assoc in Et. cbn [app] in Et.
    pose proof (first59 _ _ _ _ Hn Hn59 Et) as En. subst n. rewrite CstBuild.bytes_eqb_refl in Hne. discriminate. }
  cbn [forallb] in Hp. repeat (apply andb_true_iff in Hp; destruct Hp as [? Hp]).
  repeat match goal with X : negb _ = true |- _ => apply negb_true_iff in X end.
  cbn [existsb].
  change (b "quot;") with (b "quot" ++ [59]). change (b "amp;") with (b "amp" ++ [59]). change (b "apos;") with (b "apos" ++ [59]).
  change (b "lt;") with (b "lt" ++ [59]). change (b "gt;") with (b "gt" ++ [59]).
  rewrite (ONE (b "quot")), (ONE (b "amp")), (ONE (b "apos")), (ONE (b "lt")), (ONE (b "gt")); try assumption; try reflexivity.
  all: apply nomem_Forall; reflexivity.
Qed.
