(* Proofs/CstSound6rCor.v -- C08 on the fragment [in_fragment_6a] (markup-valued entities referenced from content):
   the analogue of Proofs/CstSound6uCor.v.  [parse_sound_fragment_6a_res]: the accepted input is the rendering of a
   well-formed S6 document whose two namespace resources are within the limits (accounting restored through
   Proofs/CstSound6r{Nest,BText,BMain,RDoc}.v); [parse_sound_and_complete_6a]: and the tree the parser returns is the
   meaning of that document ([view text d = Some (S6.sem c)]), by the completeness theorem of Proofs/CstFullS6Main.v and
   determinism of parse.  [parse_view_of_witness]: the same for EVERY witness within the limits; there the hypothesis on
   [nodes_limit] of the completeness theorem is DISCHARGED: the parse succeeded under [nodes_limit opt], hence under
   every larger limit with the same document (Proofs/OptionsMain.v, C15), and the completeness theorem is used with a
   limit large enough for the meaning ([parse_sound_and_complete_6a_nl]). *)
From Coq Require Import String.
From Coq Require Import List NArith Bool Lia ZifyBool ZifyN ZifyNat.
Import ListNotations.
From RX Require Import Generated.
From RX.Model Require Import Base CharClass Stream Tokenizer Doc Builder Parse.
From RX.Spec Require Import CstFull CstFullS5 CstFullS6.
From RX.Proofs Require CstNsView CstFullS6Main OptionsMain CstSound6rRDoc.
From RX.Proofs Require Import CstSound CstSoundT CstSoundN CstSoundP CstSound6 CstSound6a CstSound6bLex CstSound6bVal CstSound6bFinal.
Open Scope N_scope.

Lemma opts_eta opt : opt = OptionsMain.opts (allow_dtd opt) (nodes_limit opt).
Proof. destruct opt; reflexivity. Qed.

(* a successful parse is the parse under every larger node limit *)
Lemma parse_limit_up text dtd lim big d : lim <= big ->
  parse text (OptionsMain.opts dtd lim) = Ok d -> parse text (OptionsMain.opts dtd big) = Ok d.
Proof.
  intros Hle H. pose proof (OptionsMain.opts_rel text dtd big lim Hle) as R. rewrite H in R.
  inversion R as [x1 x2 E| | | |]; subst. reflexivity.
Qed.

(* the tree of an accepted input is the meaning of EVERY well-formed S6 document it renders, within the size limits
   of the completeness theorem other than the node limit of the options *)
Theorem parse_view_of_witness : forall text opt d (c : S6.doc),
  parse text opt = Ok d -> S6.wf_doc c = true -> S6.render c = text ->
  (S6.has_dtd c = true -> allow_dtd opt = true) ->
  N.of_nat (length (S6.sem c)) < u32_max -> N.of_nat (S6.nattrs c) < u32_max ->
  S6.distinct_decls_le c (N.to_nat 65535) -> 1 + N.of_nat (S6.ns_cost c) <= u32_max ->
  CstNsView.view text d = Some (S6.sem c).
Proof.
  intros text opt d c H Hwf Hr Hdtd L2 L3 Hd Hc.
  set (big := N.max (nodes_limit opt) (N.of_nat (length (S6.sem c)) + 1)).
  assert (L1 : N.of_nat (length (S6.sem c)) < nodes_limit (OptionsMain.opts (allow_dtd opt) big)).
  { unfold OptionsMain.opts. cbn [nodes_limit]. unfold big. lia. }
  assert (Hle : nodes_limit opt <= big) by (unfold big; lia).
  destruct (CstFullS6Main.parse_render_sem_full_s6 c (OptionsMain.opts (allow_dtd opt) big) Hwf Hdtd L1 L2 L3 Hd Hc) as (d' & Hp & Hv).
  rewrite Hr in Hp, Hv. rewrite (opts_eta opt) in H.
  rewrite (parse_limit_up text _ _ big d Hle H) in Hp. injection Hp as <-. exact Hv.
Qed.
Print Assumptions parse_view_of_witness.

(* ---- soundness with the two namespace resources of the witness bounded: the accounting [Res] of
   Proofs/CstSoundPBuild.v restored through the chain (Proofs/CstSound6r{Nest,BText,BMain,RDoc}.v) ---- *)
Theorem parse_sound_fragment_6a_res : forall text opt d,
  in_fragment_6a text = true -> allow_dtd opt = true -> parse text opt = Ok d ->
  exists c : S6.doc, S6.wf_doc c = true /\ S6.render c = text /\
    S6.distinct_decls_le c (N.to_nat 65535) /\ 1 + N.of_nat (S6.ns_cost c) <= u32_max.
Proof.
  intros text opt d HF Ha H.
  exact (CstSound6rRDoc.parse_sound_fragment_6a_val text opt d (val_ok6b text (in_fragment_6a_Frag6b _ HF)) HF Ha H).
Qed.
Print Assumptions parse_sound_fragment_6a_res.

(* ---- the statement of Proofs/CstSound6uCor.v [parse_sound_and_complete_6u], on the fragment 6a: the tree is the
   meaning of the witness.  The size hypotheses are those of the completeness theorem on the MEANING of the witness
   (markup-valued and character-data entities are expanded: the meaning is not bounded by the length of the input);
   the two namespace resource hypotheses are derived from acceptance. ---- *)
Theorem parse_sound_and_complete_6a : forall text opt d,
  in_fragment_6a text = true -> allow_dtd opt = true -> parse text opt = Ok d ->
  exists c : S6.doc, S6.wf_doc c = true /\ S6.render c = text /\
    (N.of_nat (length (S6.sem c)) < nodes_limit opt -> N.of_nat (length (S6.sem c)) < u32_max -> N.of_nat (S6.nattrs c) < u32_max ->
     CstNsView.view text d = Some (S6.sem c)).
Proof.
  intros text opt d HF Ha H.
  destruct (parse_sound_fragment_6a_res text opt d HF Ha H) as (c & Hwf & Hr & Hd & Hc).
  exists c. split; [exact Hwf|]. split; [exact Hr|]. intros _ L2 L3.
  exact (parse_view_of_witness text opt d c H Hwf Hr (fun _ => Ha) L2 L3 Hd Hc).
Qed.
Print Assumptions parse_sound_and_complete_6a.

(* the same without the hypothesis on the node limit (it follows from acceptance: [parse_view_of_witness]) *)
Theorem parse_sound_and_complete_6a_nl : forall text opt d,
  in_fragment_6a text = true -> allow_dtd opt = true -> parse text opt = Ok d ->
  exists c : S6.doc, S6.wf_doc c = true /\ S6.render c = text /\
    S6.distinct_decls_le c (N.to_nat 65535) /\ 1 + N.of_nat (S6.ns_cost c) <= u32_max /\
    (N.of_nat (length (S6.sem c)) < u32_max -> N.of_nat (S6.nattrs c) < u32_max -> CstNsView.view text d = Some (S6.sem c)).
Proof.
  intros text opt d HF Ha H.
  destruct (parse_sound_fragment_6a_res text opt d HF Ha H) as (c & Hwf & Hr & Hd & Hc).
  exists c. split; [exact Hwf|]. split; [exact Hr|]. split; [exact Hd|]. split; [exact Hc|]. intros L2 L3.
  exact (parse_view_of_witness text opt d c H Hwf Hr (fun _ => Ha) L2 L3 Hd Hc).
Qed.
Print Assumptions parse_sound_and_complete_6a_nl.

(* the converse direction is the completeness theorem itself: a well-formed S6 document within the limits is accepted,
   and by the above (determinism of parse) every accepted input of the fragment arises in this way up to the three
   size hypotheses on the meaning *)
Theorem parse_complete_6a : forall (c : S6.doc) opt,
  S6.wf_doc c = true -> allow_dtd opt = true ->
  N.of_nat (length (S6.sem c)) < nodes_limit opt -> N.of_nat (length (S6.sem c)) < u32_max -> N.of_nat (S6.nattrs c) < u32_max ->
  S6.distinct_decls_le c (N.to_nat 65535) -> 1 + N.of_nat (S6.ns_cost c) <= u32_max ->
  exists d, parse (S6.render c) opt = Ok d /\ CstNsView.view (S6.render c) d = Some (S6.sem c).
Proof. intros c opt Hwf Ha L1 L2 L3 Hd Hc. exact (CstFullS6Main.parse_render_sem_full_s6 c opt Hwf (fun _ => Ha) L1 L2 L3 Hd Hc). Qed.

(* ---- an accepted input of the fragment that references a markup-valued entity (through a '<'-free literal), its
   witness, and the tree: [ex_text], [ex_doc] of Proofs/CstSound6bFinal.v ---- *)
Definition ex6r_c : S6.doc := ex_doc (X4.XContent [etx [elit "x"; E.ERef (b "m")]]).
Example ex6r_view :
  in_fragment_6a ex_text = true /\ S6.wf_doc ex6r_c = true /\ S6.render ex6r_c = ex_text /\
  exists d, parse ex_text od = Ok d /\ CstNsView.view ex_text d = Some (S6.sem ex6r_c) /\
            S6.sem ex6r_c = [CstNs.VElem None (b "r") [] [] 2; CstNs.VText (b "x"); CstNs.VElem None (b "b") [] [] 0].
Proof.
  split; [vm_compute; reflexivity|]. split; [vm_compute; reflexivity|]. split; [vm_compute; reflexivity|].
  assert (E : match parse ex_text od with Ok d => CstNsView.view ex_text d | _ => None end = Some (S6.sem ex6r_c))
    by (vm_compute; reflexivity).
  destruct (parse ex_text od) as [d| | |]; try discriminate. exists d. split; [reflexivity|]. split; [exact E|].
  vm_compute. reflexivity.
Qed.

(* a markup-valued entity with a namespace declaration, referenced twice: the meaning has two p:b elements in the
   namespace u, the declaration is counted once among the distinct bindings and costs two entries of the namespace
   table ([S6.ns_cost] = 2) *)
Definition ex6r_text2 : bytes := b "<!DOCTYPE r [<!ENTITY m ""<p:b xmlns:p='u'/>"">]><r>&m;&m;</r>".
Definition xd2 n v : X4.xdecl :=
  {| X4.x_ws0 := []; X4.x_ws1 := [32]; X4.x_name := n; X4.x_ws2 := [32]; X4.x_quote := 34; X4.x_value := v; X4.x_ws3 := [] |}.
Definition ex6r_c2 : S6.doc :=
  {| S6.x_bom := false; S6.x_decl := None;
     S6.x_dtd := Some {| S6.g_ws0 := []; S6.g_before := []; S6.g_dtd :=
        {| z_ws1 := [32]; z_name := b "r"; z_ws2 := [32]; z_ext := None;
           z_subset := Some {| zu_decls := [XEntity (xd2 (b "m") (X4.XContent [eem (b "p") (b "b") [edc (b "p") [elit "u"]]]))];
                               zu_ws3 := []; zu_ws4 := [] |} |} |};
     S6.x_main := {| d_before := []; d_ws0 := []; d_root := eel [] (b "r") [] [etx [E.ERef (b "m"); E.ERef (b "m")]];
                     d_after := []; d_ws_end := [] |} |}.
Example ex6r_view2 :
  in_fragment_6a ex6r_text2 = true /\ S6.wf_doc ex6r_c2 = true /\ S6.render ex6r_c2 = ex6r_text2 /\ S6.ns_cost ex6r_c2 = 2%nat /\
  exists d, parse ex6r_text2 od = Ok d /\ CstNsView.view ex6r_text2 d = Some (S6.sem ex6r_c2) /\
            S6.sem ex6r_c2 = [CstNs.VElem None (b "r") [] [] 2;
                              CstNs.VElem (Some (b "u")) (b "b") [] [(Some (b "p"), b "u")] 0;
                              CstNs.VElem (Some (b "u")) (b "b") [] [(Some (b "p"), b "u")] 0].
Proof.
  split; [vm_compute; reflexivity|]. split; [vm_compute; reflexivity|]. split; [vm_compute; reflexivity|]. split; [vm_compute; reflexivity|].
  assert (E : match parse ex6r_text2 od with Ok d => CstNsView.view ex6r_text2 d | _ => None end = Some (S6.sem ex6r_c2))
    by (vm_compute; reflexivity).
  destruct (parse ex6r_text2 od) as [d| | |]; try discriminate. exists d. split; [reflexivity|]. split; [exact E|].
  vm_compute. reflexivity.
Qed.

(* the theorem applied to the two inputs *)
Example ex6r_applied : forall t, In t [ex_text; ex6r_text2] -> forall d, parse t od = Ok d ->
  exists c : S6.doc, S6.wf_doc c = true /\ S6.render c = t /\
    (N.of_nat (length (S6.sem c)) < nodes_limit od -> N.of_nat (length (S6.sem c)) < u32_max -> N.of_nat (S6.nattrs c) < u32_max ->
     CstNsView.view t d = Some (S6.sem c)).
Proof.
  intros t Ht d Hd. apply (parse_sound_and_complete_6a t od d); [|reflexivity|exact Hd].
  destruct Ht as [<-|[<-|[]]]; vm_compute; reflexivity.
Qed.
Print Assumptions ex6r_applied.
