(* Proofs/NonVacuity_C03.v -- non-vacuity of the hypotheses of the theorems pinned under C03 that had no instance yet.
   Already instantiated elsewhere: parse_render_sem_u (CstUMain.ex_u_parses), parse_render_sem_full_s5 (CstFullS5.Example5.ex_parses),
   parse_render_sem_full_s6 (CstFullS6Example.ex1_parses, ex2_parses_without_option), parse_render_sem_full_s7(_api)
   (CstFullS7Example.ex7_parses), the lexer post-conditions of comments / PIs / CDATA / text / tags (NonVacuity_C13.v).
   Here: the ASCII fragment (Spec/Cst.v), the two-document theorems (layout / prolog / hoisting insensitivity) on pairs of
   DIFFERENT documents with the same meaning, the embeddings, the token-shape theorems. *)
From Coq Require Import Ascii String List NArith Bool Lia.
Import ListNotations.
From RX Require Import Generated.
From RX.Model Require Import Base CharClass Stream Tokenizer Doc Builder Parse Api.
From RX.Spec Require Cst.
From RX.Spec Require CstU CstNs CstFull CstFullS4 CstFullS5 CstFullS6 CstFullS7.
From RX.Proofs Require Import LexerProofs RejectProofs CstMain CstUMain NonVacuity_Doc NonVacuity_C13.
From RX.Proofs Require CstNsView CstFullMain CstFullS5 CstFullS6Main CstFullS6Embed5 CstFullS6Sanity CstFullS6Example
     CstFullS4Sanity CstFullS7Main ApiView ApiViewProofs ApiViewCapstone.
Open Scope N_scope.

(* ---- Spec/Cst.v: <?p v?> LF <r a="1" b = 'x y'>t<!--k--><c/><d></d></r> LF  and a second layout of the same meaning ---- *)
Definition at1 ws n w1 w2 q v : Cst.attr :=
  {| Cst.a_ws := ws; Cst.a_name := b n; Cst.a_ws1 := w1; Cst.a_ws2 := w2; Cst.a_quote := q; Cst.a_value := b v |}.
Definition ca : Cst.doc :=
  {| Cst.d_before := [(Cst.IPI (b "p") [32] (b "v"), [10])]; Cst.d_ws0 := [];
     Cst.d_root := Cst.IElem (b "r") [at1 [32] "a" [] [] 34 "1"; at1 [32] "b" [32] [32] 39 "x y"] []
       (Some ([Cst.IText (b "t"); Cst.IComment (b "k"); Cst.IElem (b "c") [] [] None;
               Cst.IElem (b "d") [] [] (Some ([], []))], []));
     Cst.d_after := []; Cst.d_ws_end := [10] |}.
Definition cb : Cst.doc :=
  {| Cst.d_before := [(Cst.IPI (b "p") [9; 32] (b "v"), [])]; Cst.d_ws0 := [32];
     Cst.d_root := Cst.IElem (b "r") [at1 [10] "a" [32] [] 39 "1"; at1 [9] "b" [] [] 34 "x y"] [32]
       (Some ([Cst.IText (b "t"); Cst.IComment (b "k"); Cst.IElem (b "c") [] [] (Some ([], [32]));
               Cst.IElem (b "d") [] [32] None], [10]));
     Cst.d_after := []; Cst.d_ws_end := [] |}.

Example nv_layout_insensitive :
  Cst.wf_doc ca = true /\ Cst.wf_doc cb = true /\ Cst.sem ca = Cst.sem cb /\ Cst.render ca <> Cst.render cb /\
  N.of_nat (length (Cst.sem ca)) < nodes_limit default_options /\
  N.of_nat (length (Cst.render ca)) <= u32_max /\ N.of_nat (length (Cst.render cb)) <= u32_max /\
  length (Cst.sem ca) = 6%nat.
Proof. repeat split; try (vm_compute; reflexivity); vm_compute; discriminate. Qed.

Example nv_parse_render_sem_applied :
  exists d, parse (Cst.render ca) default_options = Ok d /\ view (Cst.render ca) d = Cst.sem ca.
Proof.
  destruct nv_layout_insensitive as (H1 & _ & _ & _ & H2 & H3 & _).
  destruct (parse_render_sem ca default_options H1 H2 H3) as (d & P & V & _). eauto.
Qed.
Example nv_layout_insensitive_applied :
  exists d1 d2, parse (Cst.render ca) default_options = Ok d1 /\ parse (Cst.render cb) default_options = Ok d2 /\
                view (Cst.render ca) d1 = view (Cst.render cb) d2.
Proof.
  destruct nv_layout_insensitive as (H1 & H2 & H3 & _ & H4 & H5 & H6 & _).
  exact (layout_insensitive ca cb default_options H1 H2 H3 H4 H5 H6).
Qed.

(* ---- Spec/CstU.v: ex_u of CstUMain.v and a second layout ---- *)
Definition ex_u2 : Cst.doc :=
  {| Cst.d_before := []; Cst.d_ws0 := [10];
     Cst.d_root := Cst.IElem [233]
       [{| Cst.a_ws := [9]; Cst.a_name := [21517]; Cst.a_ws1 := [32]; Cst.a_ws2 := [32]; Cst.a_quote := 39;
           Cst.a_value := [65536; 8364] |}] [32]
       (Some ([Cst.IText [252]; Cst.IComment [223]; Cst.IElem [98] [] [] (Some ([], []))], [32]));
     Cst.d_after := []; Cst.d_ws_end := [] |}.
Example nv_layout_insensitive_u :
  CstU.wf_doc ex_u = true /\ CstU.wf_doc ex_u2 = true /\ CstU.sem ex_u = CstU.sem ex_u2 /\ CstU.render ex_u <> CstU.render ex_u2 /\
  N.of_nat (length (CstU.sem ex_u)) < nodes_limit default_options /\
  N.of_nat (length (CstU.render ex_u)) <= u32_max /\ N.of_nat (length (CstU.render ex_u2)) <= u32_max.
Proof. repeat split; try (vm_compute; reflexivity); vm_compute; discriminate. Qed.
Example nv_render_valid_utf8_applied : valid_utf8_b (CstU.render ex_u2) = true.
Proof. exact (render_valid_utf8 ex_u2 (proj1 (proj2 nv_layout_insensitive_u))). Qed.

(* ---- S5: the document of CstFullS5.Example5 and the same document with another prolog ---- *)
Module G7.
Import RX.Spec.CstFull. Import RX.Spec.CstFullS5. Import RX.Proofs.CstNsView. Import RX.Proofs.CstFullMain. Import RX.Proofs.CstFullS5.
Import Example5.
Definition ex' : S5.doc :=   (* no byte order mark, no XML declaration, no misc before the DOCTYPE, no external id *)
  {| S5.x_bom := false; S5.x_decl := None;
     S5.x_dtd := match S5.x_dtd ex with
                 | Some g => Some {| S5.g_ws0 := []; S5.g_before := [(IComment (b "c"), [])];
                                     S5.g_dtd := {| t_ws1 := t_ws1 (S5.g_dtd g); t_name := t_name (S5.g_dtd g); t_ws2 := [];
                                                    t_ext := None; t_subset := t_subset (S5.g_dtd g) |} |}
                 | None => None end;
     S5.x_main := S5.x_main ex |}.
Ltac dd5 d :=
  unfold S5.distinct_decls_le; apply CstFullMain.distinct_by_count;
  let n := fresh "n" in let En := fresh "En" in
  remember (length (doc_decls (S5.meaning_of d) (S5.x_main d))) as n eqn:En; vm_compute in En; subst n; lia.
Example nv_prolog_insensitive_full_s5 :
  S5.wf_doc ex = true /\ S5.wf_doc ex' = true /\ allow_dtd opt = true /\ S5.sem ex = S5.sem ex' /\ S5.render ex <> S5.render ex' /\
  N.of_nat (length (S5.sem ex)) < nodes_limit opt /\
  N.of_nat (length (S5.render ex)) <= u32_max /\ N.of_nat (length (S5.render ex')) <= u32_max /\
  S5.distinct_decls_le ex (N.to_nat 65535) /\ S5.distinct_decls_le ex' (N.to_nat 65535) /\
  1 + N.of_nat (S5.ns_cost ex) <= u32_max /\ 1 + N.of_nat (S5.ns_cost ex') <= u32_max.
Proof.
  split; [vm_compute; reflexivity|]. split; [vm_compute; reflexivity|]. split; [reflexivity|].
  split; [vm_compute; reflexivity|]. split; [vm_compute; discriminate|]. split; [vm_compute; reflexivity|].
  split; [vm_compute; discriminate|]. split; [vm_compute; discriminate|].
  split; [dd5 ex|]. split; [dd5 ex'|].
  split; vm_compute; discriminate.
Qed.
Example nv_s5_in_s6_applied : CstFullS6.S6.wf_doc (CstFullS6.S6.of_s5 ex) = true /\ CstFullS6.S6.render (CstFullS6.S6.of_s5 ex) = S5.render ex.
Proof.
  destruct (CstFullS6Embed5.s5_in_s6 ex (proj1 nv_prolog_insensitive_full_s5)) as (H1 & H2 & _). split; assumption.
Qed.
End G7.

(* ---- S6: the document ex1 of CstFullS6Sanity.v and the same meaning with another prolog; the embeddings ---- *)
Module G5.
Import RX.Spec.CstFull. Import RX.Spec.CstFullS4. Import RX.Spec.CstFullS6. Import RX.Proofs.CstNsView. Import RX.Proofs.CstFullS6Main.
Import CstFullS6Sanity CstFullS6Example.
Definition ex1' : S6.doc := {| S6.x_bom := false; S6.x_decl := None; S6.x_dtd := S6.x_dtd ex1; S6.x_main := S6.x_main ex1 |}.
Ltac dd6 :=
  unfold S6.distinct_decls_le, X4.S4.distinct_decls_le;
  match goal with |- match ?x with _ => _ end => let y := eval vm_compute in x in change x with y end;
  apply CstFullMain.distinct_by_count;
  match goal with |- (length ?l <= _)%nat => let n := eval vm_compute in (length l) in change (length l) with n end; lia.
Example nv_hoist_prolog_insensitive_full_s6 :
  S6.wf_doc ex1 = true /\ S6.wf_doc ex1' = true /\ allow_dtd optx = true /\ nodes_limit optx <= u32_max /\
  S6.sem ex1 = S6.sem ex1' /\ S6.render ex1 <> S6.render ex1' /\
  N.of_nat (length (S6.sem ex1)) < nodes_limit optx /\ N.of_nat (length (S6.sem ex1)) < u32_max /\
  N.of_nat (S6.nattrs ex1) < u32_max /\
  S6.distinct_decls_le ex1 (N.to_nat 65535) /\ S6.distinct_decls_le ex1' (N.to_nat 65535) /\
  1 + N.of_nat (S6.ns_cost ex1) <= u32_max /\ 1 + N.of_nat (S6.ns_cost ex1') <= u32_max.
Proof.
  split; [vm_compute; reflexivity|]. split; [vm_compute; reflexivity|]. split; [reflexivity|].
  split; [vm_compute; discriminate|]. split; [vm_compute; reflexivity|]. split; [vm_compute; discriminate|].
  split; [vm_compute; reflexivity|]. split; [vm_compute; reflexivity|]. split; [vm_compute; reflexivity|].
  split; [dd6|]. split; [dd6|]. split; vm_compute; discriminate.
Qed.
Example nv_hoist_prolog_insensitive_full_s6_api_applied :
  exists x1 x2, parse (S6.render ex1) optx = Ok x1 /\ parse (S6.render ex1') optx = Ok x2 /\
                ApiView.api_view (S6.render ex1) x1 = ApiView.api_view (S6.render ex1') x2.
Proof.
  destruct nv_hoist_prolog_insensitive_full_s6 as (H1 & H2 & H3 & H4 & H5 & _ & H6 & H7 & H8 & H9 & H10 & H11 & H12).
  exact (ApiViewCapstone.hoist_prolog_insensitive_full_s6_api ex1 ex1' optx H1 H2 H3 H4 H5 H6 H7 H8 H9 H10 H11 H12).
Qed.
(* a genuinely different distribution over entities: S4 documents of CstFullS4Sanity.v embedded *)
Example nv_s4_in_s6_applied :
  S6.wf_doc (S6.of_s4 CstFullS4Sanity.ex1) = true /\ S6.render (S6.of_s4 CstFullS4Sanity.ex1) = S4.render CstFullS4Sanity.ex1.
Proof.
  assert (W : S4.wf_doc CstFullS4Sanity.ex1 = true) by (vm_compute; reflexivity).
  destruct (s4_in_s6 _ W) as (H1 & H2 & _). split; assumption.
Qed.
Example nv_s6_in_s7_applied : CstFullS7.S7.wf_doc ex1 = true /\ CstFullS7.S7.render ex1 = S6.render ex1.
Proof. destruct (CstFullS7Main.s6_in_s7 ex1 (proj1 nv_hoist_prolog_insensitive_full_s6)) as (H1 & H2 & _). split; assumption. Qed.
End G5.

(* ---- the token-shape theorems ---- *)
Module G8.
Local Notation token := Tokenizer.token.
Example nv_parse_doctype_tokens :
  exists s' acc', parse_doctype text0 (list token) LexerProofs.rec_ev (st_at 0) [] = Ok (s', acc') /\ length acc' = 1%nat /\ s_pos s' = 30.
Proof. do 2 eexists. split; [vm_compute; reflexivity|]. split; reflexivity. Qed.
Definition text_m : bytes := b "<!--a--> <?p q?>  <r/>".
Example nv_parse_misc_tokens :
  exists s' acc', parse_misc text_m (list token) LexerProofs.rec_ev {| s_pos := 0; s_end := 22; s_rest := text_m |} [] = Ok (s', acc') /\
                  length acc' = 2%nat /\ s_pos s' = 18.
Proof. do 2 eexists. split; [vm_compute; reflexivity|]. split; reflexivity. Qed.
Example nv_ok_document_shape :
  exists toks, parse_document text0 (list token) RejectProofs.rec_ev true [] = Ok toks /\ length toks = 15%nat.
Proof. eexists. split; vm_compute; reflexivity. Qed.
Example nv_ok_document_shape_applied :
  exists toks pre root post, parse_document text0 (list token) RejectProofs.rec_ev true [] = Ok toks /\
    toks = pre ++ root ++ post /\ Forall is_prolog_tok pre /\ root_shape root post.
Proof.
  destruct nv_ok_document_shape as (toks & H & _).
  destruct (ok_document_shape text0 true toks H) as (pre & root & post & E & F & _ & _ & R).
  exists toks, pre, root, post. repeat split; assumption.
Qed.
End G8.
