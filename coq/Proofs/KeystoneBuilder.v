(* Proofs/KeystoneBuilder.v -- the builder refines a zipper: invariant [Inv] between the
   context of Model/Builder.v and a zipper of open frames, preserved by append_node,
   open / empty / close tag and the text operations. *)
From Coq Require Import List NArith Bool Lia ZifyBool ZifyN ZifyNat.
From RX Require Import Generated.
From RX.Model Require Import Base CharClass Stream Tokenizer Doc Builder.
From RX.Spec Require Import Tree.
From RX.Proofs Require Import Tactics KeystoneEnc.
Import ListNotations.
Open Scope N_scope.

Definition kind_of (k : node_kind) : kind :=
  match k with KRoot => KdRoot | KElement _ _ _ _ => KdElem | KPI _ _ => KdPI
             | KComment _ => KdComment | KText _ => KdText end.

Definition link_of (nd : node_data) : links :=
  {| l_kind := kind_of (nd_kind nd); l_parent := nd_parent nd;
     l_prev := nd_prev_sibling nd; l_last := nd_last_child nd;
     l_next_subtree := nd_next_subtree nd |}.

Definition links_of_nodes (ns : list node_data) : list links :=
  map (fun nd => {| l_kind := kind_of (nd_kind nd); l_parent := nd_parent nd;
                    l_prev := nd_prev_sibling nd; l_last := nd_last_child nd;
                    l_next_subtree := nd_next_subtree nd |}) ns.

Lemma links_of_nodes_map ns : links_of_nodes ns = map link_of ns.
Proof. reflexivity. Qed.

Lemma links_of_nodes_len ns : len_N (links_of_nodes ns) = len_N ns.
Proof. apply len_N_map. Qed.

Lemma encode_len t : len_N (encode t) = size t.
Proof. unfold encode. apply enc_len. Qed.

(* ------------------------------------------------------------------ *)
(** * Row setters at the level of links *)

Definition lk_set_next (r : links) (v : N) : links :=
  {| l_kind := l_kind r; l_parent := l_parent r; l_prev := l_prev r;
     l_last := l_last r; l_next_subtree := Some v |}.
Definition lk_set_prev (r : links) (v : option N) : links :=
  {| l_kind := l_kind r; l_parent := l_parent r; l_prev := v;
     l_last := l_last r; l_next_subtree := l_next_subtree r |}.
Definition lk_set_last (r : links) (v : option N) : links :=
  {| l_kind := l_kind r; l_parent := l_parent r; l_prev := l_prev r;
     l_last := v; l_next_subtree := l_next_subtree r |}.

Lemma link_of_set_next nd v : link_of (nd_set_next_subtree nd (Some v)) = lk_set_next (link_of nd) v.
Proof. reflexivity. Qed.
Lemma link_of_set_prev nd v : link_of (nd_set_prev nd v) = lk_set_prev (link_of nd) v.
Proof. reflexivity. Qed.
Lemma link_of_set_last nd v : link_of (nd_set_last_child nd v) = lk_set_last (link_of nd) v.
Proof. reflexivity. Qed.
Lemma link_of_set_range_end nd e : link_of (nd_set_range_end nd e) = link_of nd.
Proof. reflexivity. Qed.

Lemma bump_alt v r : bump v r = if has_next r then r else lk_set_next r v.
Proof. unfold bump, has_next. destruct (l_next_subtree r); reflexivity. Qed.

(* ------------------------------------------------------------------ *)
(** * Updates as indexed maps *)

Lemma upd_node_spec nodes i f nodes' :
  upd_node nodes i f = Ok nodes' ->
  nodes' = mapi_N 0 (fun j x => if j =? i then f x else x) nodes /\ i < len_N nodes.
Proof.
  unfold upd_node. destruct (list_upd nodes (N.to_nat i) f) as [l|] eqn:E; [|discriminate].
  intros H. injection H as <-. apply (list_upd_mapi_N f nodes (N.to_nat i) 0) in E.
  destruct E as [E1 E2]. rewrite N2Nat.id in E1, E2. split; [|exact E2].
  rewrite E1. apply mapi_N_ext. intros j x _ _. rewrite N.add_0_l. reflexivity.
Qed.

Definition memN (i : N) (l : list N) : bool := existsb (N.eqb i) l.

Lemma memN_In i l : memN i l = true <-> In i l.
Proof.
  unfold memN. rewrite existsb_exists. split.
  - intros [x [H1 H2]]. apply N.eqb_eq in H2. subst. exact H1.
  - intros H. exists i. split; [exact H|apply N.eqb_refl].
Qed.

Lemma set_next_subtree_all_spec ids : forall nodes v nodes',
  set_next_subtree_all nodes ids v = Ok nodes' ->
  nodes' = mapi_N 0 (fun j nd => if memN j ids then nd_set_next_subtree nd (Some v) else nd) nodes.
Proof.
  induction ids as [|i r IH]; intros nodes v nodes' H; cbn [set_next_subtree_all] in H.
  - injection H as <-. symmetry. apply mapi_N_id. intros. reflexivity.
  - inv_bind H. apply upd_node_spec in Hb. destruct Hb as [-> _].
    apply IH in Hk. rewrite Hk, mapi_N_comp. apply mapi_N_ext.
    intros j x _ _. unfold memN. cbn [existsb].
    destruct (j =? i); destruct (existsb (N.eqb j) r); reflexivity.
Qed.

Lemma nth_N_Some {A} (l : list A) i x :
  nth_N l i = Some x -> nth_error l (N.to_nat i) = Some x /\ i < len_N l.
Proof.
  unfold nth_N. destruct (len_N l <=? i) eqn:E; [discriminate|]. intros H. split; [exact H|lia].
Qed.

Lemma nth_error_mid {A} (l1 : list A) x l2 i :
  len_N l1 = i -> nth_error (l1 ++ x :: l2) (N.to_nat i) = Some x.
Proof.
  intros H. unfold len_N in H. subst i. rewrite Nat2N.id.
  rewrite nth_error_app2 by lia. replace (length l1 - length l1)%nat with O by lia. reflexivity.
Qed.

(* bumping the rows after the innermost open node *)
Lemma mapi_bump (mem : N -> bool) v B : forall off,
  (forall j r, nth_error B j = Some r -> mem (off + N.of_nat j) = negb (has_next r)) ->
  mapi_N off (fun i x => if mem i then lk_set_next x v else x) B = map (bump v) B.
Proof.
  induction B as [|x rs IH]; intros off H; [reflexivity|].
  cbn [mapi_N map]. f_equal.
  - specialize (H O x eq_refl). rewrite N.add_0_r in H. rewrite H, bump_alt.
    destruct (has_next x); reflexivity.
  - apply IH. intros j r Hj. specialize (H (S j) r Hj).
    replace (off + 1 + N.of_nat j) with (off + N.of_nat (S j)) by lia. exact H.
Qed.

Lemma memN_none_ids off B j r :
  nth_error B j = Some r ->
  memN (off + N.of_nat j) (rev (none_ids off B)) = negb (has_next r).
Proof.
  intros Hn. pose proof (none_ids_nth B off j r Hn) as H.
  destruct (memN (off + N.of_nat j) (rev (none_ids off B))) eqn:E.
  - apply memN_In in E. apply in_rev in E. apply H in E. rewrite E. reflexivity.
  - destruct (has_next r) eqn:E2; [reflexivity|].
    assert (In (off + N.of_nat j) (none_ids off B)) as Hin by (apply H; reflexivity).
    apply in_rev in Hin. apply memN_In in Hin. congruence.
Qed.

Lemma memN_none_ids_out off B i :
  (i < off \/ off + len_N B <= i) -> memN i (rev (none_ids off B)) = false.
Proof.
  intros H. destruct (memN i (rev (none_ids off B))) eqn:E; [|reflexivity].
  apply memN_In in E. apply in_rev in E. apply none_ids_ge in E. lia.
Qed.

(* ------------------------------------------------------------------ *)
(** * The invariant *)

Definition closed_ok (t : tree) : bool :=
  negb (kind_eqb (tkind t) KdRoot) && no_root_below t && only_containers_have_children t.

Fixpoint kinds_ok (k : kind) (outer : list frame) : Prop :=
  match outer with
  | [] => k = KdRoot
  | (k', _) :: o => k = KdElem /\ kinds_ok k' o
  end.

(* rows after the innermost open node, whose id is [zoff outer] *)
Definition zrest (cs : list tree) (outer : list frame) : list links :=
  enc_children (zoff outer + 1 + sizes cs) (Some (zoff outer)) None (zoff outer + 1) cs.

Record Inv (k : kind) (cs : list tree) (outer : list frame) (c : context) : Prop := {
  inv_rows : links_of_nodes (d_nodes (c_doc c)) = encode (ztree k cs outer);
  inv_pid : c_parent_id c = zoff outer;
  inv_aw : c_awaiting c = rev (none_ids (zoff outer + 1) (zrest cs outer));
  inv_pp : length (c_parent_prefixes c) = S (length outer);
  inv_kinds : kinds_ok k outer;
  inv_cs : forallb closed_ok cs = true;
  inv_outer : forallb (fun f => forallb closed_ok (snd f)) outer = true
}.

Lemma inv_len k cs outer c :
  Inv k cs outer c -> len_N (d_nodes (c_doc c)) = zoff outer + 1 + sizes cs.
Proof.
  intros H. rewrite <- links_of_nodes_len, (inv_rows _ _ _ _ H), encode_len.
  unfold ztree. rewrite size_plug, size_T. lia.
Qed.

(* the invariant only looks at these fields *)
Lemma Inv_same k cs outer c c' :
  Inv k cs outer c ->
  d_nodes (c_doc c') = d_nodes (c_doc c) ->
  c_parent_id c' = c_parent_id c ->
  c_awaiting c' = c_awaiting c ->
  c_parent_prefixes c' = c_parent_prefixes c ->
  Inv k cs outer c'.
Proof.
  intros [H1 H2 H3 H4 H5 H6 H7] E1 E2 E3 E4.
  constructor; try assumption; congruence.
Qed.
