(* Proofs/KeystoneBuilder.v -- the builder refines a zipper: invariant [Inv] between the
   context of Model/Builder.v and a zipper of open frames, preserved by append_node,
   open / empty / close tag and the text operations. *)
From Coq Require Import List NArith Bool Lia ZifyBool ZifyN ZifyNat.
From RX Require Import Generated.
From RX.Model Require Import Base CharClass Stream Tokenizer Doc Builder.
From RX.Spec Require Import Tree.
From RX.Proofs Require Import Tactics KeystoneEnc.
Import ListNotations.
Open Scope N_scope.

Definition kind_of (k : node_kind) : kind :=
  match k with KRoot => KdRoot | KElement _ _ _ _ => KdElem | KPI _ _ => KdPI
             | KComment _ => KdComment | KText _ => KdText end.

Definition link_of (nd : node_data) : links :=
  {| l_kind := kind_of (nd_kind nd); l_parent := nd_parent nd;
     l_prev := nd_prev_sibling nd; l_last := nd_last_child nd;
     l_next_subtree := nd_next_subtree nd |}.

Definition links_of_nodes (ns : list node_data) : list links :=
  map (fun nd => {| l_kind := kind_of (nd_kind nd); l_parent := nd_parent nd;
                    l_prev := nd_prev_sibling nd; l_last := nd_last_child nd;
                    l_next_subtree := nd_next_subtree nd |}) ns.

Lemma links_of_nodes_map ns : links_of_nodes ns = map link_of ns.
Proof. reflexivity. Qed.

Lemma links_of_nodes_len ns : len_N (links_of_nodes ns) = len_N ns.
Proof. apply len_N_map. Qed.

Lemma encode_len t : len_N (encode t) = size t.
Proof. unfold encode. apply enc_len. Qed.

(* ------------------------------------------------------------------ *)
(** * Row setters at the level of links *)

Definition lk_set_next (r : links) (v : N) : links :=
  {| l_kind := l_kind r; l_parent := l_parent r; l_prev := l_prev r;
     l_last := l_last r; l_next_subtree := Some v |}.
Definition lk_set_prev (r : links) (v : option N) : links :=
  {| l_kind := l_kind r; l_parent := l_parent r; l_prev := v;
     l_last := l_last r; l_next_subtree := l_next_subtree r |}.
Definition lk_set_last (r : links) (v : option N) : links :=
  {| l_kind := l_kind r; l_parent := l_parent r; l_prev := l_prev r;
     l_last := v; l_next_subtree := l_next_subtree r |}.

Lemma link_of_set_next nd v : link_of (nd_set_next_subtree nd (Some v)) = lk_set_next (link_of nd) v.
Proof. reflexivity. Qed.
Lemma link_of_set_prev nd v : link_of (nd_set_prev nd v) = lk_set_prev (link_of nd) v.
Proof. reflexivity. Qed.
Lemma link_of_set_last nd v : link_of (nd_set_last_child nd v) = lk_set_last (link_of nd) v.
Proof. reflexivity. Qed.
Lemma link_of_set_range_end nd e : link_of (nd_set_range_end nd e) = link_of nd.
Proof. reflexivity. Qed.

Lemma bump_alt v r : bump v r = if has_next r then r else lk_set_next r v.
Proof. unfold bump, has_next. destruct (l_next_subtree r); reflexivity. Qed.

(* ------------------------------------------------------------------ *)
(** * Updates as indexed maps *)

Lemma upd_node_spec nodes i f nodes' :
  upd_node nodes i f = Ok nodes' ->
  nodes' = mapi_N 0 (fun j x => if j =? i then f x else x) nodes /\ i < len_N nodes.
Proof.
  unfold upd_node. destruct (list_upd nodes (N.to_nat i) f) as [l|] eqn:E; [|discriminate].
  intros H. injection H as <-. apply (list_upd_mapi_N f nodes (N.to_nat i) 0) in E.
  destruct E as [E1 E2]. rewrite N2Nat.id in E1, E2. split; [|exact E2].
  rewrite E1. apply mapi_N_ext. intros j x _ _. rewrite N.add_0_l. reflexivity.
Qed.

Definition memN (i : N) (l : list N) : bool := existsb (N.eqb i) l.

Lemma memN_In i l : memN i l = true <-> In i l.
Proof.
  unfold memN. rewrite existsb_exists. split.
  - intros [x [H1 H2]]. apply N.eqb_eq in H2. subst. exact H1.
  - intros H. exists i. split; [exact H|apply N.eqb_refl].
Qed.

Lemma set_next_subtree_all_spec ids : forall nodes v nodes',
  set_next_subtree_all nodes ids v = Ok nodes' ->
  nodes' = mapi_N 0 (fun j nd => if memN j ids then nd_set_next_subtree nd (Some v) else nd) nodes.
Proof.
  induction ids as [|i r IH]; intros nodes v nodes' H; cbn [set_next_subtree_all] in H.
  - injection H as <-. symmetry. apply mapi_N_id. intros. reflexivity.
  - inv_bind H. apply upd_node_spec in Hb. destruct Hb as [-> _].
    apply IH in Hk. rewrite Hk, mapi_N_comp. apply mapi_N_ext.
    intros j x _ _. unfold memN. cbn [existsb].
    destruct (j =? i); destruct (existsb (N.eqb j) r); reflexivity.
Qed.

Lemma nth_N_Some {A} (l : list A) i x :
  nth_N l i = Some x -> nth_error l (N.to_nat i) = Some x /\ i < len_N l.
Proof.
  unfold nth_N. destruct (len_N l <=? i) eqn:E; [discriminate|]. intros H. split; [exact H|lia].
Qed.

Lemma nth_error_mid {A} (l1 : list A) x l2 i :
  len_N l1 = i -> nth_error (l1 ++ x :: l2) (N.to_nat i) = Some x.
Proof.
  intros H. unfold len_N in H. subst i. rewrite Nat2N.id.
  rewrite nth_error_app2 by lia. replace (length l1 - length l1)%nat with O by lia. reflexivity.
Qed.

(* bumping the rows after the innermost open node *)
Lemma mapi_bump (mem : N -> bool) v B : forall off,
  (forall j r, nth_error B j = Some r -> mem (off + N.of_nat j) = negb (has_next r)) ->
  mapi_N off (fun i x => if mem i then lk_set_next x v else x) B = map (bump v) B.
Proof.
  induction B as [|x rs IH]; intros off H; [reflexivity|].
  cbn [mapi_N map]. f_equal.
  - specialize (H O x eq_refl). rewrite N.add_0_r in H. rewrite H, bump_alt.
    destruct (has_next x); reflexivity.
  - apply IH. intros j r Hj. specialize (H (S j) r Hj).
    replace (off + 1 + N.of_nat j) with (off + N.of_nat (S j)) by lia. exact H.
Qed.

Lemma memN_none_ids off B j r :
  nth_error B j = Some r ->
  memN (off + N.of_nat j) (rev (none_ids off B)) = negb (has_next r).
Proof.
  intros Hn. pose proof (none_ids_nth B off j r Hn) as H.
  destruct (memN (off + N.of_nat j) (rev (none_ids off B))) eqn:E.
  - apply memN_In in E. apply in_rev in E. apply H in E. rewrite E. reflexivity.
  - destruct (has_next r) eqn:E2; [reflexivity|].
    assert (In (off + N.of_nat j) (none_ids off B)) as Hin by (apply H; reflexivity).
    apply in_rev in Hin. apply memN_In in Hin. congruence.
Qed.

Lemma memN_none_ids_out off B i :
  (i < off \/ off + len_N B <= i) -> memN i (rev (none_ids off B)) = false.
Proof.
  intros H. destruct (memN i (rev (none_ids off B))) eqn:E; [|reflexivity].
  apply memN_In in E. apply in_rev in E. apply none_ids_ge in E. lia.
Qed.

(* ------------------------------------------------------------------ *)
(** * The invariant *)

Definition closed_ok (t : tree) : bool :=
  negb (kind_eqb (tkind t) KdRoot) && no_root_below t && only_containers_have_children t.

Fixpoint kinds_ok (k : kind) (outer : list frame) : Prop :=
  match outer with
  | [] => k = KdRoot
  | (k', _) :: o => k = KdElem /\ kinds_ok k' o
  end.

(* rows after the innermost open node, whose id is [zoff outer] *)
Definition zrest (cs : list tree) (outer : list frame) : list links :=
  enc_children (zoff outer + 1 + sizes cs) (Some (zoff outer)) None (zoff outer + 1) cs.

Record Inv (k : kind) (cs : list tree) (outer : list frame) (c : context) : Prop := {
  inv_rows : links_of_nodes (d_nodes (c_doc c)) = encode (ztree k cs outer);
  inv_pid : c_parent_id c = zoff outer;
  inv_aw : c_awaiting c = rev (none_ids (zoff outer + 1) (zrest cs outer));
  inv_pp : length (c_parent_prefixes c) = S (length outer);
  inv_kinds : kinds_ok k outer;
  inv_cs : forallb closed_ok cs = true;
  inv_outer : forallb (fun f => forallb closed_ok (snd f)) outer = true
}.

Lemma inv_len k cs outer c :
  Inv k cs outer c -> len_N (d_nodes (c_doc c)) = zoff outer + 1 + sizes cs.
Proof.
  intros H. rewrite <- links_of_nodes_len, (inv_rows _ _ _ _ H), encode_len.
  unfold ztree. rewrite size_plug, size_T. lia.
Qed.

(* the invariant only looks at these fields *)
Lemma Inv_same k cs outer c c' :
  Inv k cs outer c ->
  links_of_nodes (d_nodes (c_doc c')) = links_of_nodes (d_nodes (c_doc c)) ->
  c_parent_id c' = c_parent_id c ->
  c_awaiting c' = c_awaiting c ->
  c_parent_prefixes c' = c_parent_prefixes c ->
  Inv k cs outer c'.
Proof.
  intros [H1 H2 H3 H4 H5 H6 H7] E1 E2 E3 E4.
  constructor; try assumption; congruence.
Qed.

(* ------------------------------------------------------------------ *)
(** * append_node *)

Lemma append_node_rows k cs outer c kind r id c' :
  Inv k cs outer c ->
  append_node kind r c = Ok (id, c') ->
  exists nodes',
    id = zoff outer + 1 + sizes cs /\
    c' = set_awaiting (set_doc c (set_nodes (c_doc c) nodes'))
                      (if is_element_kind kind then [] else [id]) /\
    links_of_nodes nodes' = encode (ztree k (cs ++ [T (kind_of kind) []]) outer).
Proof.
  intros HI H. pose proof (inv_len _ _ _ _ HI) as Hlen.
  pose proof (inv_rows _ _ _ _ HI) as Hrows.
  pose proof (inv_pid _ _ _ _ HI) as Hpid.
  pose proof (inv_aw _ _ _ _ HI) as Haw.
  unfold append_node in H.
  set (pid := zoff outer) in *.
  set (n := len_N (d_nodes (c_doc c))) in *.
  destruct (nodes_limit (c_opt c) <=? n); [discriminate|].
  unfold node_id_new in H. destruct (u32_max <=? n); [discriminate|].
  cbn [bind] in H.
  match type of H with bind (match ?x with _ => _ end) _ = _ => destruct x as [pnd|] eqn:Epnd end;
    [|discriminate].
  cbn [bind] in H.
  apply bind_ok in H. destruct H as [nodes2 [Hu1 H]].
  apply bind_ok in H. destruct H as [nodes3 [Hu2 H]].
  apply bind_ok in H. destruct H as [nodes4 [Hu3 H]].
  injection H as <- <-.
  exists nodes4. split; [exact Hlen|]. split; [reflexivity|].
  pose proof (encode_ztree k cs outer) as E. cbv zeta in E. fold pid in E.
  rewrite <- Hlen in E. rewrite E in Hrows. clear E.
  set (A := zpre n outer) in *.
  set (R := open_row k (zpar outer) (zprev outer) (last_child_id (pid + 1) cs)) in *.
  assert (HB : zrest cs outer = enc_children n (Some pid) None (pid + 1) cs)
    by (unfold zrest; fold pid; rewrite <- Hlen; reflexivity).
  rewrite HB in Haw.
  set (B := enc_children n (Some pid) None (pid + 1) cs) in *.
  assert (HlenA : len_N A = pid) by apply zpre_len.
  assert (HlenB : len_N B = sizes cs) by apply enc_children_len.
  set (new0 := {| nd_parent := Some (c_parent_id c); nd_prev_sibling := None;
                  nd_next_subtree := None; nd_last_child := None;
                  nd_kind := kind; nd_range := r |}) in *.
  assert (Hrows1 : map link_of (d_nodes (c_doc c) ++ [new0]) = A ++ R :: B ++ [link_of new0]).
  { rewrite map_app. rewrite links_of_nodes_map in Hrows. rewrite Hrows, <- app_assoc. reflexivity. }
  (* the parent row *)
  assert (Hlc : nd_last_child pnd = last_child_id (pid + 1) cs).
  { apply nth_N_Some in Epnd. destruct Epnd as [Epnd _].
    apply (map_nth_error link_of) in Epnd. rewrite Hrows1, Hpid in Epnd.
    rewrite nth_error_mid in Epnd by exact HlenA.
    assert (Ep : link_of pnd = R) by (clear - Epnd; congruence).
    change (nd_last_child pnd) with (l_last (link_of pnd)).
    rewrite Ep. reflexivity. }
  apply upd_node_spec in Hu1. destruct Hu1 as [-> _].
  apply upd_node_spec in Hu2. destruct Hu2 as [-> _].
  apply set_next_subtree_all_spec in Hu3. subst nodes4.
  rewrite links_of_nodes_map.
  rewrite (map_mapi_N link_of _ (fun j x => if memN j (c_awaiting c) then lk_set_next x n else x))
    by (intros i x; destruct (memN i (c_awaiting c)); reflexivity).
  rewrite (map_mapi_N link_of _ (fun j x => if j =? c_parent_id c then lk_set_last x (Some n) else x))
    by (intros i x; destruct (i =? c_parent_id c); reflexivity).
  rewrite (map_mapi_N link_of _ (fun j x => if j =? n then lk_set_prev x (nd_last_child pnd) else x))
    by (intros i x; destruct (i =? n); reflexivity).
  rewrite !mapi_N_comp, Hrows1, Hpid, Hlc, Haw.
  match goal with |- mapi_N 0 ?g _ = _ => set (G := g) end.
  rewrite mapi_N_app. cbn [mapi_N]. rewrite mapi_N_app. cbn [mapi_N].
  rewrite N.add_0_l, HlenA, HlenB.
  assert (HA : mapi_N 0 G A = A).
  { apply mapi_N_id. intros i x _ Hi. rewrite HlenA in Hi. unfold G.
    rewrite memN_none_ids_out by lia.
    replace (i =? pid) with false by lia. replace (i =? n) with false by lia. reflexivity. }
  assert (HR : G pid R = lk_set_last R (Some n)).
  { unfold G. rewrite memN_none_ids_out by lia.
    rewrite N.eqb_refl. replace (pid =? n) with false by lia. reflexivity. }
  assert (HBm : mapi_N (pid + 1) G B = map (bump n) B).
  { transitivity (mapi_N (pid + 1)
       (fun i x => if memN i (rev (none_ids (pid + 1) B)) then lk_set_next x n else x) B).
    2: apply (mapi_bump (fun i => memN i (rev (none_ids (pid + 1) B)))).
    - apply mapi_N_ext. intros i x Hi1 Hi2. rewrite HlenB in Hi2. unfold G.
      replace (i =? pid) with false by lia. replace (i =? n) with false by lia. reflexivity.
    - intros j r0 Hj. apply memN_none_ids. exact Hj. }
  assert (HN : G (pid + 1 + sizes cs) (link_of new0) =
               lk_set_prev (link_of new0) (last_child_id (pid + 1) cs)).
  { unfold G. rewrite memN_none_ids_out by lia. rewrite <- Hlen.
    replace (n =? pid) with false by lia. rewrite N.eqb_refl. reflexivity. }
  rewrite HA, HR, HBm, HN. clear HA HR HBm HN G.
  pose proof (encode_ztree k (cs ++ [T (kind_of kind) []]) outer) as E. cbv zeta in E.
  fold pid in E. rewrite E. clear E.
  assert (Hn' : pid + 1 + sizes (cs ++ [T (kind_of kind) []]) = n + 1).
  { rewrite sizes_app, sizes_cons, sizes_nil, size_T, sizes_nil. lia. }
  rewrite Hn'. rewrite (zpre_ext (n + 1) n) by (fold pid; lia). fold A.
  f_equal. f_equal.
  - unfold R, open_row, lk_set_last. cbn [l_kind l_parent l_prev l_last l_next_subtree].
    rewrite last_child_id_app_one. f_equal. f_equal. lia.
  - rewrite enc_children_snoc, enc_children_bump by lia. fold B. f_equal.
    rewrite enc_T, enc_children_nil. f_equal.
    unfold row_of, lk_set_prev, link_of, new0.
    cbn [l_kind l_parent l_prev l_last l_next_subtree nd_kind nd_parent nd_prev_sibling
         nd_last_child nd_next_subtree last_child_id].
    rewrite prev_after_None, sizes_nil, Hpid.
    replace (pid + 1 + sizes cs + (1 + 0) <? n + 1) with false by lia. reflexivity.
Qed.

(* the row of the innermost open node *)
Lemma inv_parent_row k cs outer c pnd :
  Inv k cs outer c ->
  nth_N (d_nodes (c_doc c)) (c_parent_id c) = Some pnd ->
  link_of pnd = open_row k (zpar outer) (zprev outer) (last_child_id (zoff outer + 1) cs).
Proof.
  intros HI Hn. apply nth_N_Some in Hn. destruct Hn as [Hn _].
  apply (map_nth_error link_of) in Hn. rewrite <- links_of_nodes_map in Hn.
  rewrite (inv_rows _ _ _ _ HI), (inv_pid _ _ _ _ HI) in Hn.
  pose proof (encode_ztree k cs outer) as E. cbv zeta in E. rewrite E in Hn. clear E.
  rewrite nth_error_mid in Hn by apply zpre_len. congruence.
Qed.

Lemma closed_ok_leaf kd : kd <> KdRoot -> closed_ok (T kd []) = true.
Proof.
  intros H. unfold closed_ok. cbn [tkind no_root_below only_containers_have_children forallb].
  destruct kd; try reflexivity. congruence.
Qed.

(* a childless node appended under the innermost open node (leaf, or empty-element tag) *)
Lemma Inv_append_closed k cs outer c kind r id c' :
  Inv k cs outer c ->
  append_node kind r c = Ok (id, c') ->
  kind_of kind <> KdRoot ->
  Inv k (cs ++ [T (kind_of kind) []]) outer (set_awaiting c' [id]).
Proof.
  intros HI H Hk. destruct (append_node_rows _ _ _ _ _ _ _ _ HI H) as [nodes' [Hid [Hc' Hrows]]].
  subst c'. constructor.
  - exact Hrows.
  - exact (inv_pid _ _ _ _ HI).
  - cbn [c_awaiting set_awaiting].
    unfold zrest. set (pid := zoff outer) in *.
    rewrite sizes_app, sizes_cons, sizes_nil, size_T, sizes_nil.
    replace (pid + 1 + (sizes cs + (1 + 0 + 0))) with (pid + 1 + sizes cs + 1) by lia.
    rewrite enc_children_snoc, enc_children_bump by lia.
    rewrite none_ids_app, (none_ids_all_next (map _ _)) by apply forallb_has_next_bump.
    rewrite len_N_map, enc_children_len, enc_T, enc_children_nil.
    cbn [app none_ids]. unfold has_next, row_of. cbn [l_next_subtree]. rewrite sizes_nil.
    replace (pid + 1 + sizes cs + (1 + 0) <? pid + 1 + sizes cs + 1) with false by lia.
    cbn [app rev]. rewrite Hid. reflexivity.
  - exact (inv_pp _ _ _ _ HI).
  - exact (inv_kinds _ _ _ _ HI).
  - rewrite forallb_app, (inv_cs _ _ _ _ HI). cbn [forallb]. rewrite closed_ok_leaf by exact Hk.
    reflexivity.
  - exact (inv_outer _ _ _ _ HI).
Qed.

(* open tag: the new element becomes the innermost open node *)
Lemma Inv_open k cs outer c kind r id c' px :
  Inv k cs outer c ->
  append_node kind r c = Ok (id, c') ->
  kind_of kind = KdElem ->
  Inv KdElem [] ((k, cs) :: outer)
      (set_parent_prefixes (set_parent_id c' id) (c_parent_prefixes c' ++ [px])).
Proof.
  intros HI H Hk. destruct (append_node_rows _ _ _ _ _ _ _ _ HI H) as [nodes' [Hid [Hc' Hrows]]].
  assert (Hel : is_element_kind kind = true) by (destruct kind; try discriminate; reflexivity).
  subst c'. rewrite Hel. constructor.
  - cbn [c_doc set_parent_prefixes set_parent_id set_awaiting set_doc d_nodes set_nodes].
    rewrite Hrows, Hk. reflexivity.
  - cbn [c_parent_id set_parent_prefixes set_parent_id zoff]. exact Hid.
  - reflexivity.
  - cbn [c_parent_prefixes set_parent_prefixes set_parent_id set_awaiting set_doc].
    rewrite app_length, (inv_pp _ _ _ _ HI). cbn [length]. lia.
  - cbn [kinds_ok]. split; [reflexivity|exact (inv_kinds _ _ _ _ HI)].
  - reflexivity.
  - cbn [forallb snd]. rewrite (inv_cs _ _ _ _ HI), (inv_outer _ _ _ _ HI). reflexivity.
Qed.

(* close tag: the innermost open node becomes the last child of its parent *)
Lemma Inv_close k cs k' cs' o c c' :
  Inv k cs ((k', cs') :: o) c ->
  links_of_nodes (d_nodes (c_doc c')) = links_of_nodes (d_nodes (c_doc c)) ->
  c_parent_id c' = zoff o ->
  c_awaiting c' = c_awaiting c ++ [c_parent_id c] ->
  length (c_parent_prefixes c') = S (length o) ->
  Inv k' (cs' ++ [T k cs]) o c'.
Proof.
  intros HI E1 E2 E3 E4. constructor.
  - rewrite E1, (inv_rows _ _ _ _ HI). reflexivity.
  - exact E2.
  - rewrite E3, (inv_aw _ _ _ _ HI), (inv_pid _ _ _ _ HI).
    unfold zrest. cbn [zoff]. set (p' := zoff o).
    rewrite sizes_app, sizes_cons, sizes_nil, size_T.
    replace (p' + 1 + (sizes cs' + (1 + sizes cs + 0))) with (p' + 1 + sizes cs' + 1 + sizes cs) by lia.
    set (n := p' + 1 + sizes cs' + 1 + sizes cs).
    rewrite enc_children_snoc, none_ids_app.
    rewrite (none_ids_all_next (enc_children _ _ _ _ cs'))
      by (apply enc_children_all_next; unfold n; lia).
    rewrite enc_children_len, enc_T. cbn [app none_ids].
    unfold has_next at 1, row_of at 1. cbn [l_next_subtree].
    replace (p' + 1 + sizes cs' + (1 + sizes cs) <? n) with false by (unfold n; lia).
    cbn [app rev]. reflexivity.
  - exact E4.
  - pose proof (inv_kinds _ _ _ _ HI) as Hk. cbn [kinds_ok] in Hk. exact (proj2 Hk).
  - pose proof (inv_outer _ _ _ _ HI) as Ho. cbn [forallb snd] in Ho.
    apply andb_true_iff in Ho. destruct Ho as [Ho1 Ho2].
    pose proof (inv_kinds _ _ _ _ HI) as Hk. cbn [kinds_ok] in Hk. destruct Hk as [-> _].
    rewrite forallb_app, Ho1. cbn [forallb]. unfold closed_ok.
    cbn [tkind kind_eqb negb no_root_below only_containers_have_children is_container orb andb].
    assert (Hcs := inv_cs _ _ _ _ HI).
    assert (H1 : forallb (fun c0 => negb (kind_eqb (tkind c0) KdRoot) && no_root_below c0) cs = true).
    { rewrite forallb_forall in *. intros x Hx. specialize (Hcs x Hx). unfold closed_ok in Hcs.
      apply andb_true_iff in Hcs. destruct Hcs as [Hcs _]. exact Hcs. }
    assert (H2 : forallb only_containers_have_children cs = true).
    { rewrite forallb_forall in *. intros x Hx. specialize (Hcs x Hx). unfold closed_ok in Hcs.
      apply andb_true_iff in Hcs. destruct Hcs as [_ Hcs]. exact Hcs. }
    rewrite H1, H2. reflexivity.
  - pose proof (inv_outer _ _ _ _ HI) as Ho. cbn [forallb snd] in Ho.
    apply andb_true_iff in Ho. exact (proj2 Ho).
Qed.

(* ------------------------------------------------------------------ *)
(** * Operations that do not touch the tree *)

Definition same_tree (c c' : context) : Prop :=
  links_of_nodes (d_nodes (c_doc c')) = links_of_nodes (d_nodes (c_doc c)) /\
  c_parent_id c' = c_parent_id c /\
  c_awaiting c' = c_awaiting c /\
  c_parent_prefixes c' = c_parent_prefixes c.

Lemma same_tree_refl c : same_tree c c.
Proof. repeat split. Qed.

Lemma same_tree_trans c1 c2 c3 : same_tree c1 c2 -> same_tree c2 c3 -> same_tree c1 c3.
Proof. unfold same_tree. intuition congruence. Qed.

Definition P (c : context) : Prop := exists k cs outer, Inv k cs outer c.

Lemma same_tree_nodes c c' :
  d_nodes (c_doc c') = d_nodes (c_doc c) ->
  c_parent_id c' = c_parent_id c ->
  c_awaiting c' = c_awaiting c ->
  c_parent_prefixes c' = c_parent_prefixes c ->
  same_tree c c'.
Proof. intros E1 E2 E3 E4. repeat split; try assumption. rewrite E1. reflexivity. Qed.

Lemma P_same c c' : P c -> same_tree c c' -> P c'.
Proof.
  intros [k [cs [outer HI]]] [E1 [E2 [E3 E4]]]. exists k, cs, outer.
  eapply Inv_same; eassumption.
Qed.

Lemma err_from_ok {A} text p mk (x : A) : err_from text p mk = Ok x -> False.
Proof. unfold err_from. intros H. apply bind_ok in H. destruct H as [? [_ H]]. discriminate. Qed.

Lemma err_at_ok {A} text s mk (x : A) : err_at text s mk = Ok x -> False.
Proof. unfold err_at. intros H. apply bind_ok in H. destruct H as [? [_ H]]. discriminate. Qed.

(* one step of inversion of a hypothesis [_ = Ok _] *)
Ltac mstep H :=
  lazymatch type of H with
  | bind _ _ = Ok _ =>
    let a := fresh "a" in let Hb := fresh "Hb" in
    apply bind_ok in H; destruct H as [a [Hb H]]
  | err_from _ _ _ = Ok _ => exfalso; exact (err_from_ok _ _ _ _ H)
  | err_at _ _ _ = Ok _ => exfalso; exact (err_at_ok _ _ _ _ H)
  | Err _ = Ok _ => discriminate H
  | Panic _ = Ok _ => discriminate H
  | OutOfFuel = Ok _ => discriminate H
  | (if ?b then _ else _) = Ok _ => let E := fresh "E" in destruct b eqn:E
  | (match ?x with _ => _ end) = Ok _ => let E := fresh "E" in destruct x eqn:E
  end.

Ltac mbind H x Hx := apply bind_ok in H; destruct H as [x [Hx H]].

Section WithText.
Variable text : bytes.

Lemma push_ns_nodes name uri d d' : push_ns text name uri d = Ok d' -> d_nodes d' = d_nodes d.
Proof.
  unfold push_ns. destruct (find_ns _ _ _ _ _).
  - intros H. injection H as <-. reflexivity.
  - destruct (ns_values_limit <? _); [discriminate|]. intros H. injection H as <-. reflexivity.
Qed.

Lemma push_ref_nodes i d d' : push_ref i d = Ok d' -> d_nodes d' = d_nodes d.
Proof.
  unfold push_ref. destruct (nth_N _ _); [|discriminate]. intros H. injection H as <-. reflexivity.
Qed.

Lemma resolve_ns_loop_nodes start is : forall d d',
  resolve_ns_loop text start is d = Ok d' -> d_nodes d' = d_nodes d.
Proof.
  induction is as [|i r IH]; intros d d' H; cbn [resolve_ns_loop] in H.
  - injection H as <-. reflexivity.
  - apply bind_ok in H. destruct H as [vidx [_ H]].
    apply bind_ok in H. destruct H as [name [_ H]].
    apply bind_ok in H. destruct H as [ex [_ H]].
    apply bind_ok in H. destruct H as [d1 [Hd1 H]].
    apply IH in H. rewrite H. destruct ex.
    + injection Hd1 as <-. reflexivity.
    + apply push_ref_nodes in Hd1. exact Hd1.
Qed.

Lemma resolve_namespaces_same c r c' :
  resolve_namespaces text c = Ok (r, c') -> same_tree c c'.
Proof.
  unfold resolve_namespaces. intros H.
  apply bind_ok in H. destruct H as [pnd [_ H]].
  destruct (nd_kind pnd).
  - apply bind_ok in H. destruct H as [r0 [_ H]]. injection H as _ <-. apply same_tree_refl.
  - destruct (c_ns_start_idx c =? _).
    + injection H as _ <-. apply same_tree_refl.
    + destruct nss as [pa pe].
      apply bind_ok in H. destruct H as [d1 [Hd1 H]].
      apply bind_ok in H. destruct H as [r0 [_ H]]. injection H as _ <-.
      apply resolve_ns_loop_nodes in Hd1. apply same_tree_nodes; try reflexivity. exact Hd1.
  - apply bind_ok in H. destruct H as [r0 [_ H]]. injection H as _ <-. apply same_tree_refl.
  - apply bind_ok in H. destruct H as [r0 [_ H]]. injection H as _ <-. apply same_tree_refl.
  - apply bind_ok in H. destruct H as [r0 [_ H]]. injection H as _ <-. apply same_tree_refl.
Qed.

Lemma resolve_attrs_loop_nodes nss start l : forall d d',
  resolve_attrs_loop text nss start l d = Ok d' -> d_nodes d' = d_nodes d.
Proof.
  induction l as [|a r IH]; intros d d' H; cbn [resolve_attrs_loop] in H.
  - injection H as <-. reflexivity.
  - apply bind_ok in H. destruct H as [ns_idx [_ H]].
    apply bind_ok in H. destruct H as [name [_ H]].
    apply bind_ok in H. destruct H as [dup [_ H]].
    destruct dup.
    + unfold err_from in H. apply bind_ok in H. destruct H as [? [_ H]]. discriminate.
    + apply IH in H. rewrite H. reflexivity.
Qed.

Lemma resolve_attributes_same nss c r c' :
  resolve_attributes text nss c = Ok (r, c') -> same_tree c c'.
Proof.
  unfold resolve_attributes. destruct (c_cur_attrs c) as [|a l] eqn:E.
  - intros H. injection H as _ <-. apply same_tree_refl.
  - destruct (u32_max <=? _); [discriminate|]. intros H.
    apply bind_ok in H. destruct H as [d1 [Hd1 H]].
    apply bind_ok in H. destruct H as [r0 [_ H]]. injection H as _ <-.
    apply resolve_attrs_loop_nodes in Hd1. apply same_tree_nodes; try reflexivity. exact Hd1.
Qed.

Lemma normalize_attribute_same value c v c' :
  normalize_attribute text value c = Ok (v, c') -> same_tree c c'.
Proof.
  unfold normalize_attribute. intros H. mstep H.
  - mstep H. destruct a as [t ld]. mstep H. injection H as _ <-. repeat split.
  - injection H as _ <-. apply same_tree_refl.
Qed.

Lemma process_attribute_same r ql el prefix local value c c' :
  process_attribute text r ql el prefix local value c = Ok c' -> same_tree c c'.
Proof.
  unfold process_attribute. intros H. mstep H. destruct a as [v c1].
  apply normalize_attribute_same in Hb.
  eapply same_tree_trans; [exact Hb|]. clear Hb.
  repeat (mstep H).
  all: try (injection H as <-); try apply same_tree_refl.
  all: try (repeat split; fail).
  all: match goal with Hp : push_ns _ _ _ _ = Ok _ |- _ => apply push_ns_nodes in Hp; apply same_tree_nodes; try reflexivity; exact Hp end.
Qed.

(* ---- text ---- *)
Lemma rev_cons_inv {A} (l : list A) x r : rev l = x :: r -> l = rev r ++ [x].
Proof. intros H. rewrite <- (rev_involutive l), H. reflexivity. Qed.

Lemma merge_text_same c c' : merge_text text c = Ok c' -> same_tree c c'.
Proof.
  unfold merge_text. intros H.
  destruct (rev (d_nodes (c_doc c))) as [|nd l] eqn:E; [discriminate|].
  destruct (nd_kind nd) eqn:Ek; try discriminate.
  mstep H. injection H as <-.
  apply rev_cons_inv in E. apply upd_node_spec in Hb. destruct Hb as [-> _].
  repeat split. cbn [c_doc set_doc d_nodes set_nodes].
  change (links_of_nodes ?x) with (map link_of x).
  rewrite E. rewrite mapi_N_app, !map_app. f_equal.
  - f_equal. apply mapi_N_id. intros i x _ Hi. rewrite len_N_app, len_N_cons, len_N_nil.
    replace (i =? len_N (rev l) + (1 + 0) - 1) with false by lia. reflexivity.
  - cbn [mapi_N map]. f_equal.
    destruct (_ =? _); [|reflexivity].
    unfold link_of. cbn [nd_set_kind nd_kind nd_parent nd_prev_sibling nd_last_child nd_next_subtree].
    rewrite Ek. reflexivity.
Qed.

Lemma reset_after_text_same c c' : reset_after_text text c = Ok c' -> same_tree c c'.
Proof.
  unfold reset_after_text. intros H.
  destruct (c_after_text c) as [|x [|y l]].
  - injection H as <-. apply same_tree_refl.
  - injection H as <-. repeat split.
  - mstep H. injection H as <-. apply merge_text_same in Hb.
    eapply same_tree_trans; [exact Hb|]. repeat split.
Qed.

Lemma P_append_leaf kind r c id c' :
  P c -> append_node kind r c = Ok (id, c') ->
  is_element_kind kind = false -> kind_of kind <> KdRoot -> P c'.
Proof.
  intros [k [cs [outer HI]]] H He Hk.
  exists k, (cs ++ [T (kind_of kind) []]), outer.
  pose proof (Inv_append_closed _ _ _ _ _ _ _ _ HI H Hk) as HI'.
  destruct (append_node_rows _ _ _ _ _ _ _ _ HI H) as [nodes' [_ [Hc' _]]].
  rewrite He in Hc'. rewrite Hc' in HI' |- *. exact HI'.
Qed.

Lemma append_text_P t r c c' : P c -> append_text t r c = Ok c' -> P c'.
Proof.
  unfold append_text. intros HP H. mstep H. injection H as <-.
  apply (P_same a); [|repeat split].
  destruct (c_after_text c).
  - mstep Hb. destruct a0 as [id c1]. injection Hb as <-.
    eapply P_append_leaf; [exact HP|exact Hb0|reflexivity|].
    destruct t; discriminate.
  - injection Hb as <-. exact HP.
Qed.

Lemma process_cdata_P txt r c c' : P c -> process_cdata text txt r c = Ok c' -> P c'.
Proof.
  unfold process_cdata. intros HP H. destruct (mem_b 13 _); eapply append_text_P; eassumption.
Qed.

Lemma removelast_len {A} (l : list A) : length (removelast l) = pred (length l).
Proof.
  induction l as [|x r IH]; [reflexivity|].
  destruct r as [|y r']; [reflexivity|].
  change (removelast (x :: y :: r')) with (x :: removelast (y :: r')).
  cbn [length] in *. rewrite IH. reflexivity.
Qed.

Lemma links_mapi_same (g : N -> node_data -> node_data) nodes :
  (forall i x, link_of (g i x) = link_of x) ->
  links_of_nodes (mapi_N 0 g nodes) = links_of_nodes nodes.
Proof.
  intros H. rewrite !links_of_nodes_map.
  rewrite (map_mapi_N link_of g (fun _ x => x)) by exact H.
  apply mapi_N_id. intros. reflexivity.
Qed.

Lemma process_element_P e r c c' : P c -> process_element text e r c = Ok c' -> P c'.
Proof.
  unfold process_element. intros HP H.
  destruct (slice_len _ =? 0). { destruct e; try discriminate; mstep H. }
  mstep H. destruct a as [nss c1]. apply resolve_namespaces_same in Hb.
  mstep H. destruct a as [attrs c2]. apply resolve_attributes_same in Hb0.
  assert (HP2 : P c2).
  { eapply P_same; [|exact Hb0]. eapply P_same; [eapply P_same; [exact HP|exact Hb]|].
    repeat split. }
  clear HP Hb Hb0. destruct HP2 as [k [cs [outer HI]]].
  destruct e as [|prefix local|].
  - (* open *)
    mstep H. mstep H. destruct a0 as [id c3]. injection H as <-.
    exists KdElem, [], ((k, cs) :: outer).
    eapply Inv_open; [exact HI|exact Hb0|reflexivity].
  - (* close *)
    mstep H; [mstep H|]. mbind H pnd' Hpnd.
    destruct (nth_N _ _) as [pnd|] eqn:Epnd; [|discriminate].
    injection Hpnd as <-.
    mbind H ppx Hppx. mbind H nodes1 Hb1. mbind H u Hu.
    pose proof (inv_parent_row _ _ _ _ _ HI Epnd) as Hrow.
    assert (Hpar : nd_parent pnd = zpar outer).
    { change (nd_parent pnd) with (l_parent (link_of pnd)). rewrite Hrow. reflexivity. }
    rewrite Hpar in H. destruct outer as [|[k' cs'] o]; cbn [zpar] in H; [mstep H|].
    destruct (removelast _) eqn:Erl in H; [discriminate|]. injection H as <-.
    exists k', (cs' ++ [T k cs]), o.
    apply upd_node_spec in Hb1. destruct Hb1 as [-> _].
    eapply Inv_close; [exact HI| | | |].
    + cbn [c_doc set_parent_prefixes set_parent_id set_awaiting set_doc d_nodes set_nodes].
      apply links_mapi_same. intros i x. destruct (i =? _); reflexivity.
    + reflexivity.
    + reflexivity.
    + cbn [c_parent_prefixes set_parent_prefixes]. rewrite <- Erl.
      cbn [c_parent_prefixes set_parent_id set_awaiting set_doc].
      rewrite removelast_len, (inv_pp _ _ _ _ HI). reflexivity.
  - (* empty *)
    mstep H. mstep H. destruct a0 as [id c3]. injection H as <-.
    exists k, (cs ++ [T KdElem []]), outer.
    pose proof (Inv_append_closed _ _ _ _ _ _ _ _ HI Hb0) as HI'.
    destruct (append_node_rows _ _ _ _ _ _ _ _ HI Hb0) as [nodes' [_ [Hc' _]]].
    cbn [is_element_kind] in Hc'. rewrite Hc'. cbn [c_awaiting set_awaiting app].
    rewrite Hc' in HI'. apply HI'. discriminate.
Qed.
End WithText.
