(* Proofs/CstFullS2Lex.v -- the capstone fragment, stage S2: the lexer side of pieces over a UTF-8 text
   (Proofs/CstTextLex.v without the ASCII hypothesis): names and references read from a
   sub-stream, the chunks read from encoded pieces by the text and attribute machines, text
   stretches and CDATA sections. *)
From Coq Require Import Ascii String.
From Coq Require Import List NArith PeanoNat Bool Lia ZifyBool ZifyN ZifyNat.
Import ListNotations.
From RX Require Import Generated.
From RX.Model Require Import Base CharClass Stream Tokenizer Doc Builder Parse.
From RX.Spec Require Cst CstText Chars CstU.
From RX.Spec Require Import Text CstFull.
From RX.Proofs Require Import CstLex CstULex TextMachine CstTextSem CstTextLex CstFullLex CstFullS2Sem.
Open Scope N_scope.

Ltac clia := repeat match goal with H : @eq bool _ true |- _ => clear H end; lia.

(* ---- one character / a name read from a sub-stream ---- *)
Lemma next_char_sst_u e p c l : p + blen (utf8 c) <= e -> is_scalar c = true ->
  next_char (sst e p (utf8 c ++ l)) = Ok (Some (c, blen (utf8 c))).
Proof.
  intros H Hc. unfold next_char. rewrite at_end_sst. pose proof (utf8_len c) as Hl.
  replace (e <=? p) with false by lia. cbn [sst s_rest]. rewrite utf8_enc, (U8.decode1_encode c l Hc).
  rewrite <- utf8_enc. cbn [sst s_end s_pos]. replace (e <? p + blen (utf8 c)) with false by lia. reflexivity.
Qed.

Lemma advance_sst_u e p c l : p + blen (utf8 c) <= e ->
  advance (blen (utf8 c)) (sst e p (utf8 c ++ l)) = Ok (sst e (p + blen (utf8 c)) l).
Proof. intros H. apply advance_sst; [reflexivity|exact H]. Qed.

Lemma skip_name_loop_sst_u e : forall x p l fuel,
  forallb CstU.is_name_char x = true -> name_stop l -> l <> [] -> p + blen (utf8s x) < e -> (length x < fuel)%nat ->
  skip_name_loop fuel (sst e p (utf8s x ++ l)) = Ok (sst e (p + blen (utf8s x)) l).
Proof.
  induction x as [|c x IH]; intros p l fuel Hx Hl Hne He Hf.
  - cbn [CstU.utf8s flat_map app] in *. rewrite blen_nil, N.add_0_r in *. destruct fuel as [|fu]; [cbn in Hf; lia|].
    cbn [skip_name_loop]. destruct l as [|c l]; [congruence|]. destruct Hl as (H1 & H2 & H3).
    rewrite next_char_sst by assumption. cbn [bind].
    rewrite char_is_name_ascii by exact H1. rewrite H3. reflexivity.
  - destruct fuel as [|fu]; [cbn in Hf; lia|]. cbn [length] in Hf.
    cbn [forallb] in Hx. apply andb_true_iff in Hx. destruct Hx as [Hc Hx].
    destruct (uname_char_facts _ Hc) as (Hs & Hn & _ & _).
    rewrite utf8s_cons, <- app_assoc in *. rewrite blen_app in He.
    cbn [skip_name_loop]. rewrite next_char_sst_u by (try exact Hs; lia). cbn [bind]. rewrite Hn.
    rewrite advance_sst_u by lia. cbn [bind].
    rewrite IH; [|exact Hx|exact Hl|exact Hne|lia|lia]. rewrite blen_app, N.add_assoc. reflexivity.
Qed.

Section Sub.
Variable text : bytes.

Notation W := (CstLex.W text).
Notation WV := (CstULex.WV text).

Lemma consume_name_sst_u e name p l : WV p (utf8s name ++ l) -> CstU.wf_name name = true -> name_stop l -> l <> [] ->
  p + blen (utf8s name) < e -> e <= tlen text ->
  consume_name text (sst e p (utf8s name ++ l)) = Ok (sl p (p + blen (utf8s name)), sst e (p + blen (utf8s name)) l).
Proof.
  intros HW Hn Hl Hne He Hle. unfold consume_name, skip_name. cbn [sst s_pos].
  destruct (wf_uname_parts name Hn) as (c & x & E & Hc & Hx). subst name.
  assert (Hv : U8.Valid (utf8s (c :: x))) by (apply Valid_utf8s; apply uname_scalars; exact Hx).
  cbn [forallb] in Hx. apply andb_true_iff in Hx. destruct Hx as [Hc' Hx].
  destruct (uname_start_facts c Hc) as (_ & Hcs & _). destruct (uname_char_facts c Hc') as (Hs & _).
  rewrite utf8s_cons, <- app_assoc in *. rewrite blen_app in He.
  fold (sst e p (utf8 c ++ utf8s x ++ l)). rewrite next_char_sst_u by (try exact Hs; lia). cbn [bind]. rewrite Hcs.
  rewrite advance_sst_u by lia. cbn [bind].
  rewrite skip_name_loop_sst_u; [|exact Hx|exact Hl|exact Hne|lia|].
  2:{ cbn [sst s_rest]. rewrite app_length. pose proof (utf8s_len_le x). lia. }
  cbn [bind]. unfold slice_back. cbn [sst s_pos].
  rewrite <- N.add_assoc, <- blen_app.
  rewrite (mk_slice_v text p (utf8 c ++ utf8s x) l); [|rewrite <- app_assoc; exact HW|rewrite <- utf8s_cons; exact Hv].
  cbn [bind]. unfold slice_len. cbn [sl sl_start sl_end].
  pose proof (utf8_len c) as Hlen.
  replace (p + blen (utf8 c ++ utf8s x) - p =? 0) with false by (rewrite blen_app; lia).
  reflexivity.
Qed.

(* ---- references ---- *)
Lemma predef_uname pe : CstU.wf_name (T.predef_name pe) = true /\ utf8s (T.predef_name pe) = T.predef_name pe.
Proof. destruct pe; split; vm_compute; reflexivity. Qed.

Lemma cref_predef_u e p pe more : WV p (T.r_piece (T.PPredef pe) ++ more) ->
  p + blen (T.r_piece (T.PPredef pe)) <= e -> e <= tlen text ->
  consume_reference text (sst e p (T.r_piece (T.PPredef pe) ++ more)) =
  Ok (Some (RefChar (T.predef_char pe), sst e (p + blen (T.r_piece (T.PPredef pe))) more)).
Proof.
  intros HW He Hle. cbn [T.r_piece] in *. rewrite <- !app_assoc in *. cbn [app] in HW |- *.
  rewrite !blen_app, !blen_cons, blen_nil in *.
  unfold consume_reference. rewrite try_yes by lia.
  assert (Hfirst : exists x r, T.predef_name pe = x :: r /\ x <> 35) by (destruct pe; cbn; eexists; eexists; split; try reflexivity; lia).
  destruct Hfirst as (x0 & r0 & Ex & Hx0).
  replace (try_consume_byte 35 (sst e (p + 1) (T.predef_name pe ++ 59 :: more)))
    with (false, sst e (p + 1) (T.predef_name pe ++ 59 :: more))
    by (rewrite Ex; cbn [app]; symmetry; apply try_no; exact Hx0).
  cbn [negb].
  pose proof (WV_cons _ _ _ _ HW ltac:(lia)) as HW1.
  destruct (predef_uname pe) as [Hn Eu]. rewrite <- Eu in HW1 |- * at 1.
  rewrite (consume_name_sst_u e (T.predef_name pe) (p + 1) (59 :: more)); try assumption; try (rewrite Eu; lia).
  2:{ cbn [name_stop]. unfold not_name_byte. cls. lia. }
  2:{ discriminate. }
  rewrite (W_slice _ _ _ _ (WV_W _ _ _ HW1)). cbn [bind]. rewrite Eu.
  rewrite consume_byte_sst by lia.
  destruct pe; cbn [T.predef_name T.predef_char]; f_equal; f_equal; f_equal; f_equal; cbn; lia.
Qed.

Lemma digits_lit hex ds : forallb (T.is_digit hex) ds = true -> forallb (fun y => y <? 128) ds = true.
Proof. apply forallb_imp. intros x Hx. unfold T.is_digit in Hx. lia. Qed.

Lemma cref_charref_u e p hex ds more : WV p (T.r_piece (T.PCharRef hex ds) ++ more) -> T.wf_charref hex ds = true ->
  p + blen (T.r_piece (T.PCharRef hex ds)) <= e -> e <= tlen text ->
  consume_reference text (sst e p (T.r_piece (T.PCharRef hex ds) ++ more)) =
  Ok (Some (RefChar (T.ref_val hex ds), sst e (p + blen (T.r_piece (T.PCharRef hex ds))) more)).
Proof.
  intros HW Hwf He Hle. unfold T.wf_charref in Hwf. rewrite !andb_true_iff in Hwf.
  destruct Hwf as [[Hne Hd] Hc]. destruct (xml_Char_model _ Hc) as (Hs & Hcc & Hmax).
  assert (Hd0 : exists x r, ds = x :: r /\ T.is_digit hex x = true).
  { destruct ds as [|x r]; [discriminate|]. cbn [forallb] in Hd. apply andb_true_iff in Hd. eexists. eexists. split; [reflexivity|apply Hd]. }
  destruct Hd0 as (x0 & r0 & Eds & Hx0).
  pose proof (digit_filter hex ds Hd) as Hflt. pose proof (digits_val_ref hex ds 0 Hd) as Hval.
  pose proof (Valid_lit _ (digits_lit hex ds Hd)) as Hvd.
  fold (T.ref_val hex ds) in Hval.
  unfold consume_reference.
  destruct hex; cbn [T.r_piece app] in *; rewrite <- ?app_assoc in *; cbn [app] in *;
    repeat rewrite ?blen_app, ?blen_cons, ?blen_nil in He.
  - rewrite try_yes by lia. rewrite try_yes by lia. cbn [negb]. rewrite try_yes by lia.
    pose proof (WV_cons _ _ _ _ (WV_cons _ _ _ _ (WV_cons _ _ _ _ HW ltac:(lia)) ltac:(lia)) ltac:(lia)) as HW3.
    unfold consume_bytes.
    rewrite skip_bytes_sst; [|exact Hflt|reflexivity|lia].
    unfold slice_back. cbn [sst s_pos].
    rewrite (mk_slice_v text _ ds _ HW3 Hvd). cbn [bind].
    rewrite (W_slice _ _ _ _ (WV_W _ _ _ HW3)). rewrite Hval.
    replace (u32_max <? T.ref_val true ds) with false by (unfold u32_max; lia).
    rewrite Hs, Hcc. cbn [negb].
    replace (match ds with [] => @Ok (option (reference * stream)) None | _ :: _ => Ok (Some (RefChar (T.ref_val true ds), sst e (p + 1 + 1 + 1 + blen ds) (59 :: more))) end)
      with (@Ok (option (reference * stream)) (Some (RefChar (T.ref_val true ds), sst e (p + 1 + 1 + 1 + blen ds) (59 :: more))))
      by (destruct ds; [discriminate Hne|reflexivity]).
    cbn [bind]. rewrite consume_byte_sst by lia.
    f_equal. f_equal. f_equal. f_equal. rewrite !blen_cons, blen_app, blen_cons, blen_nil. lia.
  - rewrite try_yes by lia. rewrite try_yes by lia. cbn [negb].
    replace (try_consume_byte 120 (sst e (p + 1 + 1) (ds ++ 59 :: more)))
      with (false, sst e (p + 1 + 1) (ds ++ 59 :: more))
      by (rewrite Eds; cbn [app]; symmetry; apply try_no; unfold T.is_digit in Hx0; lia).
    pose proof (WV_cons _ _ _ _ (WV_cons _ _ _ _ HW ltac:(lia)) ltac:(lia)) as HW3.
    unfold consume_bytes.
    rewrite skip_bytes_sst; [|exact Hflt|reflexivity|lia].
    unfold slice_back. cbn [sst s_pos].
    rewrite (mk_slice_v text _ ds _ HW3 Hvd). cbn [bind].
    rewrite (W_slice _ _ _ _ (WV_W _ _ _ HW3)). rewrite Hval.
    replace (u32_max <? T.ref_val false ds) with false by (unfold u32_max; lia).
    rewrite Hs, Hcc. cbn [negb].
    replace (match ds with [] => @Ok (option (reference * stream)) None | _ :: _ => Ok (Some (RefChar (T.ref_val false ds), sst e (p + 1 + 1 + blen ds) (59 :: more))) end)
      with (@Ok (option (reference * stream)) (Some (RefChar (T.ref_val false ds), sst e (p + 1 + 1 + blen ds) (59 :: more))))
      by (destruct ds; [discriminate Hne|reflexivity]).
    cbn [bind]. rewrite consume_byte_sst by lia.
    f_equal. f_equal. f_equal. f_equal. rewrite !blen_cons, blen_app, blen_cons, blen_nil. lia.
Qed.

(* the rendering of a piece of a value is valid UTF-8 *)
Lemma vpiece_valid q p : bvpiece q p -> U8.Valid (T.r_piece p).
Proof.
  intros H. destruct (vpieces_bytes_u 60 ltac:(auto) [p]) as [Hu _].
  - constructor; [|constructor]. destruct p as [bs|hex ds|e|bs]; cbn [bvpiece] in *; try exact H.
    destruct H as (H1 & H2 & H3). split; [exact H1|]. split; [exact H2|]. revert H3. apply forallb_imp. intros x Hx. lia.
  - rewrite r_pieces_cons in Hu. cbn [T.r_pieces flat_map] in Hu. rewrite app_nil_r in Hu. apply ustr_valid. exact Hu.
Qed.

Lemma blit_not_amp q bs : blit q bs -> forallb (fun x => negb (x =? 38) && negb (x =? 60)) bs = true.
Proof. intros (_ & _ & H). revert H. apply forallb_imp. intros x Hx. lia. Qed.

(* ---- the chunks read from the rendering of reference-and-literal pieces ---- *)
Lemma reads_pieces_u q es e : forall ps p more,
  WV p (T.r_pieces ps ++ more) -> Forall (bvpiece q) ps ->
  p + blen (T.r_pieces ps) = e -> e <= tlen text ->
  reads text es (sst e p (T.r_pieces ps ++ more)) (flat_map T.piece_chunks ps).
Proof.
  induction ps as [|pc ps IH]; intros p more HW Hwf He Hle.
  - cbn [T.r_pieces flat_map app] in *. rewrite blen_nil in He. apply reads_end.
    rewrite at_end_sst. lia.
  - apply Forall_cons_iff in Hwf. destruct Hwf as [Hp Hps].
    cbn [T.r_pieces flat_map] in *. fold (T.r_pieces ps) in *. rewrite <- app_assoc in *.
    rewrite blen_app in He.
    assert (IH' : reads text es (sst e (p + blen (T.r_piece pc)) (T.r_pieces ps ++ more)) (flat_map T.piece_chunks ps)).
    { apply IH; [apply (WV_app _ _ _ _ HW (vpiece_valid q pc Hp))|exact Hps|lia|exact Hle]. }
    destruct (vpiece_ne q pc Hp) as (x1 & r1 & Ex1).
    assert (Hlt : p < e) by (rewrite Ex1, blen_cons in He; lia). clear x1 r1 Ex1.
    destruct pc as [bs|hex ds|pe|bs]; cbn [bvpiece] in Hp; try contradiction.
    + (* literal bytes, one by one *)
      apply blit_not_amp in Hp. cbn [T.r_piece T.piece_chunks] in *. pose proof (WV_W _ _ _ HW) as HW0.
      clear IH Hps Hlt HW. revert p HW0 He IH'. induction bs as [|x bs IHb]; intros p HW He IH'.
      * cbn [map app] in *. rewrite blen_nil, N.add_0_r in IH'. exact IH'.
      * cbn [forallb] in Hp. apply andb_true_iff in Hp. destruct Hp as [Hx Hb].
        cbn [map app] in *. rewrite blen_cons in *.
        eapply reads_byte.
        -- rewrite at_end_sst. lia.
        -- apply pnc_byte; lia.
        -- apply IHb; [exact Hb|apply (W_cons _ _ _ _ HW)|lia|].
           replace (p + 1 + blen bs) with (p + (1 + blen bs)) by lia. exact IH'.
    + cbn [T.piece_chunks app]. rewrite utf8_encode.
      pose proof (cref_charref_u e p hex ds (T.r_pieces ps ++ more) HW Hp ltac:(lia) Hle) as E.
      cbn [T.r_piece] in E, HW, He, IH' |- *. rewrite <- !app_assoc in *. cbn [app] in E |- *.
      eapply reads_char; [rewrite at_end_sst; lia| |exact IH'].
      apply pnc_ref; [exact Hlt|exact E].
    + cbn [T.piece_chunks app].
      replace [T.predef_char pe] with (encode_utf8 (T.predef_char pe)) by (destruct pe; reflexivity).
      pose proof (cref_predef_u e p pe (T.r_pieces ps ++ more) HW ltac:(lia) Hle) as E.
      cbn [T.r_piece] in E, HW, He, IH' |- *. rewrite <- !app_assoc in *. cbn [app] in E |- *.
      eapply reads_char; [rewrite at_end_sst; lia| |exact IH'].
      apply pnc_ref; [exact Hlt|exact E].
Qed.

(* the same for an attribute value: what the loop of [norm_attr_lvl] reads at the top level *)
Lemma areads_pieces_u q e : forall ps p more,
  WV p (T.r_pieces ps ++ more) -> Forall (bvpiece q) ps ->
  p + blen (T.r_pieces ps) = e -> e <= tlen text ->
  areads text false (sst e p (T.r_pieces ps ++ more)) (flat_map T.piece_chunks ps).
Proof.
  induction ps as [|pc ps IH]; intros p more HW Hwf He Hle.
  - cbn [T.r_pieces flat_map app] in *. rewrite blen_nil in He. apply areads_end.
    rewrite at_end_sst. lia.
  - apply Forall_cons_iff in Hwf. destruct Hwf as [Hp Hps].
    cbn [T.r_pieces flat_map] in *. fold (T.r_pieces ps) in *. rewrite <- app_assoc in *.
    rewrite blen_app in He.
    assert (IH' : areads text false (sst e (p + blen (T.r_piece pc)) (T.r_pieces ps ++ more)) (flat_map T.piece_chunks ps)).
    { apply IH; [apply (WV_app _ _ _ _ HW (vpiece_valid q pc Hp))|exact Hps|lia|exact Hle]. }
    destruct (vpiece_ne q pc Hp) as (x1 & r1 & Ex1).
    assert (Hlt : p < e) by (rewrite Ex1, blen_cons in He; lia). clear x1 r1 Ex1.
    destruct pc as [bs|hex ds|pe|bs]; cbn [bvpiece] in Hp; try contradiction.
    + apply blit_not_amp in Hp. cbn [T.r_piece T.piece_chunks] in *. pose proof (WV_W _ _ _ HW) as HW0.
      clear IH Hps Hlt HW. revert p HW0 He IH'. induction bs as [|x bs IHb]; intros p HW He IH'.
      * cbn [map app] in *. rewrite blen_nil, N.add_0_r in IH'. exact IH'.
      * cbn [forallb] in Hp. apply andb_true_iff in Hp. destruct Hp as [Hx Hb].
        cbn [map app] in *. rewrite blen_cons in *.
        eapply areads_byte.
        -- rewrite at_end_sst. lia.
        -- reflexivity.
        -- lia.
        -- apply andb_false_r.
        -- apply advance1_sst. lia.
        -- apply IHb; [exact Hb|apply (W_cons _ _ _ _ HW)|lia|].
           replace (p + 1 + blen bs) with (p + (1 + blen bs)) by lia. exact IH'.
    + cbn [T.piece_chunks app]. rewrite utf8_encode.
      pose proof (cref_charref_u e p hex ds (T.r_pieces ps ++ more) HW Hp ltac:(lia) Hle) as E.
      cbn [T.r_piece] in E, HW, He, IH' |- *. rewrite <- !app_assoc in *. cbn [app] in E |- *.
      eapply areads_char; [rewrite at_end_sst; lia|reflexivity|exact E|exact IH'].
    + cbn [T.piece_chunks app].
      replace [T.predef_char pe] with (encode_utf8 (T.predef_char pe)) by (destruct pe; reflexivity).
      pose proof (cref_predef_u e p pe (T.r_pieces ps ++ more) HW ltac:(lia) Hle) as E.
      cbn [T.r_piece] in E, HW, He, IH' |- *. rewrite <- !app_assoc in *. cbn [app] in E |- *.
      eapply areads_char; [rewrite at_end_sst; lia|reflexivity|exact E|exact IH'].
Qed.

(* ------------------------------------------------------------------------------------------ *)
(* the token parsers: text stretches and CDATA sections                                       *)
(* ------------------------------------------------------------------------------------------ *)
Variable C : Type.
Variable ev : Tokenizer.token -> C -> res C.
Notation st := (CstLex.st text).

Lemma text_walk_g : forall cs p post, uchars cs -> forallb (fun x => negb (x =? 60)) cs = true ->
  walk_u text text_f p cs post.
Proof.
  induction cs as [|c r IH]; intros p post Hu H; cbn [walk_u]; [exact I|].
  inversion Hu as [|? ? [Hs Hc] Hu']; subst. cbn [forallb] in H. apply andb_true_iff in H. destruct H as [H60 H].
  split; [exact Hs|]. split; [exact Hc|]. split; [exact H60|]. apply IH; assumption.
Qed.

Lemma no60_scalars cs : forallb (fun y => negb (y =? 60)) (utf8s cs) = true -> forallb (fun x => negb (x =? 60)) cs = true.
Proof.
  induction cs as [|c cs IH]; intros H; [reflexivity|]. rewrite utf8s_cons, forallb_app in H.
  apply andb_true_iff in H. destruct H as [H1 H2]. cbn [forallb]. rewrite (IH H2), andb_true_r.
  destruct (c =? 60) eqn:E; [|reflexivity]. apply N.eqb_eq in E. subst c. discriminate H1.
Qed.

(* a text token: UTF-8 of Chars other than '<', without "]]>" *)
Lemma lex_text_g p bs post c : WV p (bs ++ post) -> ustr bs ->
  forallb (fun y => negb (y =? 60)) bs = true -> contains_b n3 bs = false -> text_stop post ->
  parse_text text C ev (st p (bs ++ post)) c =
  let! c' := ev (TText (sl p (p + blen bs)) (p, p + blen bs)) c in Ok (st (p + blen bs) post, c').
Proof.
  intros HW (cs & -> & Hu) H1 H2 Hs. unfold parse_text. cbv zeta.
  change (fun (_ : stream) (ch : N) => negb (ch =? 60)) with text_f.
  rewrite (consume_chars_v text); [|exact HW|apply text_walk_g; [exact Hu|apply no60_scalars; exact H1]|].
  2:{ destruct post as [|x post]; cbn [stop_u]; [exact I|]. cbn [text_stop] in Hs. subst x.
      split; [lia|]. split; reflexivity. }
  cbn [bind]. rewrite (W_slice _ _ _ _ (WV_W _ _ _ HW)). change (b "]]>") with n3. rewrite H2, andb_false_r.
  reflexivity.
Qed.

Lemma cdata_walk_u : forall cs p post, W p (utf8s cs ++ n3 ++ post) ->
  uchars cs -> contains_b n3 (utf8s cs) = false ->
  walk_u text cdata_f p cs (n3 ++ post).
Proof.
  induction cs as [|c r IH]; intros p post HW Hu H2; cbn [walk_u]; [exact I|].
  inversion Hu as [|? ? [Hs Hc] Hu']; subst.
  split; [exact Hs|]. split; [exact Hc|]. rewrite utf8s_cons, <- app_assoc in *. split.
  - unfold cdata_f. rewrite (starts_with_st text) by exact HW.
    destruct (c =? 93) eqn:E; [|reflexivity]. cbn [andb]. apply N.eqb_eq in E. subst c.
    rewrite (utf8_ascii 93) in * by lia. cbn [app] in *.
    cbn [contains_b] in H2. apply orb_false_iff in H2. destruct H2 as [H2 H2'].
    unfold n3, CstTextLex.n3 in *. destruct (utf8s r) as [|y [|z r']]; cbn [app prefix_b] in *.
    + reflexivity.
    + rewrite !N.eqb_refl. cbn [andb]. destruct (93 =? y); reflexivity.
    + rewrite H2. reflexivity.
  - assert (Hv : U8.Valid (utf8 c)) by (rewrite utf8_enc; apply U8.Valid_encode; exact Hs).
    apply IH; [apply (W_app _ _ _ _ HW)|exact Hu'|].
    destruct (contains_b n3 (utf8s r)) eqn:E; [|reflexivity].
    exfalso. clear - E H2. induction (utf8 c) as [|x l IHl]; cbn [app contains_b] in H2; [congruence|].
    apply orb_false_iff in H2. apply IHl. apply H2.
Qed.

Lemma lex_cdata_u p bs post c : WV p (T.cdata_open ++ bs ++ n3 ++ post) ->
  ustr bs -> contains_b n3 bs = false ->
  parse_cdata text C ev (st p (T.cdata_open ++ bs ++ n3 ++ post)) c =
  let! c' := ev (TCdata (sl (p + 9) (p + 9 + blen bs)) (p, p + 9 + blen bs + 3)) c in
  Ok (st (p + 9 + blen bs + 3) post, c').
Proof.
  intros HW (cs & -> & Hu) H2. pose proof (WV_W _ _ _ HW) as HW0. unfold parse_cdata. cbv zeta.
  rewrite (advance_st text 9 p T.cdata_open) by (try reflexivity; exact HW0). cbn [bind].
  pose proof (WV_lit _ _ _ _ HW (eq_refl : forallb (fun y => y <? 128) T.cdata_open = true)) as HW1. change (blen T.cdata_open) with 9 in HW1.
  change (b "]]>") with n3.
  change (fun (s : stream) (ch : N) => negb ((ch =? 93) && starts_with s n3)) with cdata_f.
  rewrite (consume_chars_v text); [|exact HW1|apply cdata_walk_u; [apply (WV_W _ _ _ HW1)|exact Hu|exact H2]|].
  2:{ cbn [stop_u app n3 CstTextLex.n3]. split; [lia|]. split; [reflexivity|]. unfold cdata_f.
      rewrite (starts_with_st text) by (apply (W_app _ _ _ _ (WV_W _ _ _ HW1))). reflexivity. }
  cbn [bind]. pose proof (W_app _ _ _ _ (WV_W _ _ _ HW1)) as HW2.
  rewrite (skip_string_st text) by exact HW2. cbn [bind]. cbn [CstLex.st s_pos].
  change (blen n3) with 3. reflexivity.
Qed.

End Sub.

Print Assumptions reads_pieces_u.
Print Assumptions areads_pieces_u.
Print Assumptions lex_text_g.
Print Assumptions lex_cdata_u.
