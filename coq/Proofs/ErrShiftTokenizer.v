(* Proofs/ErrShiftTokenizer.v -- C14, part 3: the tokenizer under the shift, with related errors,
   for any two callbacks that are related (errors included) on shifted tokens. *)
From Coq Require Import Ascii String.
From Coq Require Import List Arith NArith Bool Lia ZifyBool ZifyN ZifyNat.
Import ListNotations.
From RX Require Import Generated.
From RX.Model Require Import Base CharClass Stream Tokenizer.
From RX.Proofs Require Import Tactics NoPanicUtf8 NoPanicStream RangeShiftBase RangeShiftStream
  RangeShiftTokenizer ErrShiftBase ErrShiftStream.
Open Scope N_scope.

Section Shift.
Variable ws text : bytes.
Hypothesis Hvalid : valid_utf8_b text = true.
Hypothesis Hws : forallb byte_is_space ws = true.
Variable C : Type.
Variable ev1 ev2 : token -> C -> res C.
Variable fc : C -> C.
Notation text2 := (ws ++ text).
Notation k := (blen ws).
Notation shs := (sh_s k).
Notation shl := (sh_sl k).
Notation rsimE := (rsimE ws text).
Notation sh_qn := (RangeShiftStream.sh_qn ws).
Hypothesis Hev : forall tok c, tok_wf tok -> rsimE fc (ev1 tok c) (ev2 (sh_tok k tok) (fc c)).

Definition shp (x : stream * C) : stream * C := (shs (fst x), fc (snd x)).
Definition she (x : bool * stream * C) : bool * stream * C := (fst (fst x), shs (snd (fst x)), fc (snd x)).

Lemma sub_kk a b : a + k - (b + k) = a - b.
Proof. lia. Qed.

Ltac sync1 :=
  rewrite ?(at_end_sh ws), ?(starts_with_sh ws), ?(curr_byte_opt_sh ws), ?(starts_with_space_sh ws),
          ?(skip_spaces_sh ws), ?(skip_bytes_sh ws), ?(next_byte_sh ws),
          ?(slice_bytes_shift ws), ?(slice_len_shift ws), ?(avail_sh ws), ?s_rest_sh, ?s_pos_sh, ?sub_kk.
Ltac sync := repeat (progress sync1).

Ltac eat := apply (err_at_shE ws text Hvalid); pc.
Ltac efr := apply (err_from_shE ws text Hvalid); [pc|first [reflexivity|lia]].
Ltac use L := solve [eapply L; try eassumption; try (intros; sync; reflexivity)].
Ltac base :=
  first [ eat | efr
        | use advance_shE
        | use consume_byte_shE | use skip_string_shE | use slice_back_shE | use consume_bytes_shE
        | use consume_spaces_shE | use advance_until2_shE | use skip_name_shE | use consume_name_shE
        | use consume_qname_shE | use consume_eq_shE | use consume_quote_shE | use is_xml_str_shE
        | use curr_byte_simE | use curr_byte_unchecked_simE
        | use consume_chars_shE | use skip_chars_shE ].

Ltac unpack :=
  repeat match goal with
         | x : (_ * _)%type |- _ => destruct x
         end;
  cbn [pmap RangeShiftStream.sh_qn shp she fst snd] in *; unfold idf in *.

Ltac re spec := sync; re_core ltac:(first [spec | base]); unpack.
Ltac re0 := sync; re_core ltac:(base); unpack.
Ltac evs :=
  sync;
  lazymatch goal with
  | |- ErrShiftBase.rsimE _ _ _ (bind (ev1 ?tok ?c) _) (bind (ev2 _ _) _) =>
    eapply rsimE_bind; [ refine (Hev tok c _); exact I | let c1 := fresh "c" in intros c1 _; cbv beta ]
  end.
Ltac go := repeat (first [re0 | evs]).

Lemma parse_comment_shE s c :
  rsimE shp (parse_comment text C ev1 s c) (parse_comment text2 C ev2 (shs s) (fc c)).
Proof. unfold parse_comment. cbv zeta. go. Qed.

Lemma parse_pi_shE s c :
  rsimE shp (parse_pi text C ev1 s c) (parse_pi text2 C ev2 (shs s) (fc c)).
Proof.
  unfold parse_pi. cbv zeta. go. sync.
  eapply rsimE_bind.
  { destruct (starts_with _ (b "?>")); [apply rsimE_ret; reflexivity | use consume_spaces_shE]. }
  intros s2 _; cbv beta. go. sync.
  match goal with |- context [slice_len ?x =? 0] => destruct (slice_len x =? 0) end; go.
Qed.

Lemma parse_misc_loop_shE : forall fuel s c,
  rsimE shp (parse_misc_loop text C ev1 fuel s c) (parse_misc_loop text2 C ev2 fuel (shs s) (fc c)).
Proof.
  induction fuel as [|fu IH]; intros s c; cbn [parse_misc_loop]; [reflexivity|].
  repeat re ltac:(first [apply parse_comment_shE | apply parse_pi_shE | apply IH]).
Qed.

Lemma parse_external_literal_shE s :
  rsimE shs (parse_external_literal text s) (parse_external_literal text2 (shs s)).
Proof. unfold parse_external_literal. cbv zeta. go. Qed.

Lemma parse_pubid_literal_shE s :
  rsimE shs (parse_pubid_literal text s) (parse_pubid_literal text2 (shs s)).
Proof. unfold parse_pubid_literal. cbv zeta. go. Qed.

Lemma parse_external_id_shE s :
  rsimE (pmap idf shs) (parse_external_id text s) (parse_external_id text2 (shs s)).
Proof.
  unfold parse_external_id. cbv zeta.
  repeat re ltac:(first [apply parse_external_literal_shE | apply parse_pubid_literal_shE]).
Qed.

Lemma parse_entity_def_shE s is_ge :
  rsimE (pmap (option_map shl) shs) (parse_entity_def text s is_ge) (parse_entity_def text2 (shs s) is_ge).
Proof.
  unfold parse_entity_def. cbv zeta. repeat re ltac:(first [apply parse_external_id_shE]).
Qed.

Lemma parse_entity_decl_shE s c :
  rsimE shp (parse_entity_decl text C ev1 s c) (parse_entity_decl text2 C ev2 (shs s) (fc c)).
Proof.
  unfold parse_entity_decl. go.
  match goal with |- context [try_consume_byte 37 (shs ?x)] => rewrite (try_consume_byte_sh ws 37 x);
    destruct (try_consume_byte 37 x) as [pe s2] end. cbn [pmap fst snd idf].
  eapply rsimE_bind with (f := shs). { destruct pe; [base|reflexivity]. }
  intros s3 _. cbv beta. cbv zeta.
  repeat re ltac:(first [apply parse_entity_def_shE]).
  eapply rsimE_bind with (f := fc).
  { match goal with |- rsimE _ (match ?o with _ => _ end) _ => destruct o as [d|] end;
      cbn [option_map]; [|reflexivity].
    destruct (negb pe); [|reflexivity]. refine (Hev (TEntityDecl _ _) c I). }
  intros c1 _. cbv beta. go.
Qed.

Lemma consume_decl_loop_shE : forall fuel s,
  rsimE shs (consume_decl_loop text fuel s) (consume_decl_loop text2 fuel (shs s)).
Proof.
  induction fuel as [|fu IH]; intros s; cbn [consume_decl_loop]; [reflexivity|].
  cbv zeta. repeat re ltac:(first [apply IH]).
Qed.

Lemma consume_decl_shE s : rsimE shs (consume_decl text s) (consume_decl text2 (shs s)).
Proof. unfold consume_decl. sync. apply consume_decl_loop_shE. Qed.

Lemma parse_doctype_start_shE s :
  rsimE shs (parse_doctype_start text s) (parse_doctype_start text2 (shs s)).
Proof. unfold parse_doctype_start. cbv zeta. repeat re ltac:(first [apply parse_external_id_shE]). Qed.

Lemma parse_doctype_loop_shE : forall fuel start s c,
  rsimE shp (parse_doctype_loop text C ev1 fuel start s c)
        (parse_doctype_loop text2 C ev2 fuel (start + k) (shs s) (fc c)).
Proof.
  induction fuel as [|fu IH]; intros start s c; cbn [parse_doctype_loop]; [reflexivity|].
  cbv zeta. sync. destruct (at_end s); [reflexivity|].
  destruct (starts_with (skip_spaces s) (b "<!ENTITY")).
  { eapply rsimE_bind; [apply parse_entity_decl_shE|]. intros [s1 c1] _. apply IH. }
  destruct (starts_with (skip_spaces s) (b "<!--")).
  { eapply rsimE_bind; [apply parse_comment_shE|]. intros [s1 c1] _. apply IH. }
  destruct (starts_with (skip_spaces s) (b "<?")).
  { eapply rsimE_bind; [apply parse_pi_shE|]. intros [s1 c1] _. apply IH. }
  destruct (starts_with (skip_spaces s) (b "]")).
  { go. }
  destruct (_ || _).
  { pose proof (consume_decl_shE (skip_spaces s)) as H.
    destruct (consume_decl text (skip_spaces s)); cbn -[consume_decl] in H.
    - rewrite H. apply IH.
    - destruct H as [e' [-> _]]. base.
    - rewrite H. reflexivity.
    - rewrite H. reflexivity. }
  base.
Qed.

Lemma parse_doctype_shE s c :
  rsimE shp (parse_doctype text C ev1 s c) (parse_doctype text2 C ev2 (shs s) (fc c)).
Proof.
  unfold parse_doctype. cbv zeta.
  re ltac:(first [apply parse_doctype_start_shE]). sync.
  match goal with |- rsimE _ (if ?b then _ else _) _ => destruct b end.
  - go.
  - re0. sync. apply parse_doctype_loop_shE.
Qed.

Lemma parse_element_loop_shE : forall fuel ts ts' s c,
  rsimE she (parse_element_loop text C ev1 fuel ts s c)
        (parse_element_loop text2 C ev2 fuel ts' (shs s) (fc c)).
Proof.
  induction fuel as [|fu IH]; intros ts ts' s c; cbn [parse_element_loop]; [reflexivity|].
  cbv zeta. sync. destruct (at_end s); [apply rsimE_same_err; reflexivity|].
  go.
  eapply rsimE_bind with (f := shs).
  { destruct (starts_with_space s); [reflexivity|base]. }
  intros s2 _. cbv beta. go. apply IH.
Qed.

Lemma parse_element_shE s c :
  rsimE she (parse_element text C ev1 s c) (parse_element text2 C ev2 (shs s) (fc c)).
Proof.
  unfold parse_element. cbv zeta.
  eapply rsimE_bind; [base|]. intros s1 E1. cbv beta.
  eapply rsimE_bind; [base|]. intros [[p l] s2] Eq. cbn [sh_qn fst snd]. cbv beta iota.
  eapply rsimE_bind.
  { refine (Hev (TElementStart _ _ _) c _). cbn [tok_wf]. split.
    - eapply consume_qname_nonempty; exact Eq.
    - rewrite (consume_qname_prefix_start _ _ _ _ _ Eq). apply advance_pos in E1. lia. }
  intros c1 _. cbv beta. sync. apply parse_element_loop_shE.
Qed.

Lemma parse_cdata_shE s c :
  rsimE shp (parse_cdata text C ev1 s c) (parse_cdata text2 C ev2 (shs s) (fc c)).
Proof. unfold parse_cdata. cbv zeta. go. Qed.

Lemma parse_close_element_shE s c :
  rsimE shp (parse_close_element text C ev1 s c) (parse_close_element text2 C ev2 (shs s) (fc c)).
Proof. unfold parse_close_element. cbv zeta. go. Qed.

Lemma parse_text_shE s c :
  rsimE shp (parse_text text C ev1 s c) (parse_text text2 C ev2 (shs s) (fc c)).
Proof. unfold parse_text. cbv zeta. go. Qed.

Lemma parse_content_loop_shE : forall fuel depth s c,
  rsimE shp (parse_content_loop text C ev1 fuel depth s c)
        (parse_content_loop text2 C ev2 fuel depth (shs s) (fc c)).
Proof.
  induction fuel as [|fu IH]; intros depth s c; cbn [parse_content_loop]; [reflexivity|].
  sync. destruct (at_end s); [reflexivity|].
  re0. match goal with |- rsimE _ (if ?b then _ else _) _ => destruct b end.
  2:{ eapply rsimE_bind; [apply parse_text_shE|]. intros [s1 c1] _. apply IH. }
  sync. destruct (next_byte s) as [y|e|p|]; [|base|reflexivity|reflexivity].
  destruct (y =? 33).
  { destruct (starts_with s (b "<!--")).
    { eapply rsimE_bind; [apply parse_comment_shE|]. intros [s1 c1] _. apply IH. }
    destruct (starts_with s (b "<![CDATA[")).
    { eapply rsimE_bind; [apply parse_cdata_shE|]. intros [s1 c1] _. apply IH. }
    base. }
  destruct (y =? 63).
  { eapply rsimE_bind; [apply parse_pi_shE|]. intros [s1 c1] _. apply IH. }
  destruct (y =? 47).
  { eapply rsimE_bind; [apply parse_close_element_shE|]. intros [s1 c1] _. cbn [shp fst snd]. cbv beta iota.
    destruct (depth =? 0); [reflexivity|apply IH]. }
  eapply rsimE_bind; [apply parse_element_shE|]. intros [[o s1] c1] _. apply IH.
Qed.

Lemma parse_content_shE s c :
  rsimE shp (parse_content text C ev1 s c) (parse_content text2 C ev2 (shs s) (fc c)).
Proof. unfold parse_content. rewrite s_rest_sh. apply parse_content_loop_shE. Qed.

(* ---- the whole document ---- *)
(* the relation of the results when the fuel of the two runs may differ: nothing is said when the
   first run panics or runs out of fuel *)
Definition resE {A B} (f : A -> B) (r1 : res A) (r2 : res B) : Prop :=
  match r1 with
  | Ok a => r2 = Ok (f a)
  | Err e => exists e', r2 = Err e' /\ ErrRel ws text e e'
  | _ => True
  end.

Lemma rsimE_resE {A B} (f : A -> B) r1 r2 : rsimE f r1 r2 -> resE f r1 r2.
Proof. destruct r1; cbn; auto. Qed.

Lemma resE_bind {A B A' B'} (f : A -> A') (g : B -> B') r1 r2 k1 k2 :
  resE f r1 r2 -> (forall a, r1 = Ok a -> resE g (k1 a) (k2 (f a))) ->
  resE g (bind r1 k1) (bind r2 k2).
Proof.
  intros H Hk. destruct r1; cbn [resE bind] in *; auto.
  - subst r2. cbn [bind]. apply Hk. reflexivity.
  - destruct H as [e' [-> He]]. cbn. eauto.
Qed.

Lemma parse_misc_loop_fuelE : forall fu1 fu2 s c, (fu1 <= fu2)%nat ->
  resE shp (parse_misc_loop text C ev1 fu1 s c) (parse_misc_loop text2 C ev2 fu2 (shs s) (fc c)).
Proof.
  induction fu1 as [|fu1 IH]; intros fu2 s c Hle; [exact I|].
  destruct fu2 as [|fu2]; [lia|]. cbn [parse_misc_loop]. sync.
  destruct (at_end s); [reflexivity|]. cbv zeta. sync.
  destruct (starts_with (skip_spaces s) (b "<!--")).
  { eapply resE_bind; [apply rsimE_resE, parse_comment_shE|]. intros [s1 c1] _. apply IH. lia. }
  destruct (starts_with (skip_spaces s) (b "<?")).
  { eapply resE_bind; [apply rsimE_resE, parse_pi_shE|]. intros [s1 c1] _. apply IH. lia. }
  reflexivity.
Qed.

Lemma parse_document_shE dtd c : ws <> [] ->
  starts_with (stream_new text) [239; 187; 191] = false ->
  starts_with_declaration (stream_new text) = false ->
  resE fc (parse_document text C ev1 dtd c) (parse_document text2 C ev2 dtd (fc c)).
Proof.
  intros Hne Hbom Hdecl. unfold parse_document. cbv zeta.
  rewrite Hbom. cbn [bind]. rewrite Hdecl. cbn [bind].
  destruct (first_is_space ws Hws Hne) as (w & r & Ews & Hw). apply (space_cases ws text) in Hw.
  assert (Hb2 : starts_with (stream_new text2) [239; 187; 191] = false).
  { unfold starts_with, avail, stream_new. cbn [s_pos s_end s_rest]. rewrite Ews.
    unfold tlen, blen. cbn [app length]. rewrite Nat2N.inj_succ, N.sub_0_r, N2Nat.inj_succ.
    cbn [firstn prefix_b]. replace (239 =? w) with false by lia. reflexivity. }
  assert (Hd2 : starts_with_declaration (stream_new text2) = false).
  { unfold starts_with_declaration, starts_with, avail, stream_new. cbn [s_pos s_end s_rest]. rewrite Ews.
    unfold tlen, blen. cbn [app length]. rewrite Nat2N.inj_succ, N.sub_0_r, N2Nat.inj_succ.
    cbn [firstn]. change (b "<?xml") with (60 :: b "?xml"). cbn [prefix_b].
    replace (60 =? w) with false by lia. reflexivity. }
  rewrite Hb2. cbn [bind]. rewrite Hd2. cbn [bind].
  assert (Hmisc : forall s c0, rsimE shp (parse_misc text C ev1 s c0) (parse_misc text2 C ev2 (shs s) (fc c0))).
  { intros s c0. unfold parse_misc. rewrite s_rest_sh. apply parse_misc_loop_shE. }
  (* the first parse_misc *)
  eapply resE_bind with (f := shp).
  { unfold parse_misc. cbn [stream_new s_rest]. cbn [parse_misc_loop].
    assert (A2 : at_end (stream_new text2) = false).
    { unfold at_end, stream_new, tlen, blen. cbn. rewrite Ews. cbn [app length]. lia. }
    cbv zeta. fold (stream_new text). fold (stream_new text2).
    rewrite A2, (skip_spaces_init ws text Hws). sync.
    destruct (at_end (stream_new text)) eqn:A1.
    { (* an empty text: the second run skips the whitespace and stops as well *)
      assert (Et : text = []).
      { unfold at_end, stream_new, tlen, blen in A1. cbn in A1. destruct text; [reflexivity|]. cbn [length] in A1. lia. }
      clear A2 Hb2 Hd2 Hbom Hdecl Hmisc A1. revert Hvalid Hev. rewrite Et. intros Hvalid' Hev'.
      change (skip_spaces (stream_new [])) with (stream_new []).
      change (starts_with (stream_new []) (b "<!--")) with false.
      change (starts_with (stream_new []) (b "<?")) with false. reflexivity. }
    set (s1 := skip_spaces (stream_new text)).
    destruct (starts_with s1 (b "<!--")).
    { eapply resE_bind; [apply rsimE_resE, parse_comment_shE|]. intros [s4 c4] _.
      apply parse_misc_loop_fuelE. rewrite app_length. lia. }
    destruct (starts_with s1 (b "<?")).
    { eapply resE_bind; [apply rsimE_resE, parse_pi_shE|]. intros [s4 c4] _.
      apply parse_misc_loop_fuelE. rewrite app_length. lia. }
    reflexivity. }
  intros [s3 c3] _. cbn [shp fst snd]. cbv beta iota. sync.
  eapply resE_bind with (f := shp).
  { destruct (starts_with (skip_spaces s3) (b "<!DOCTYPE")); [|reflexivity].
    destruct (negb dtd); [cbn; eexists; split; [reflexivity|apply ER_same; reflexivity]|].
    eapply resE_bind; [apply rsimE_resE, parse_doctype_shE|]. intros [s6 c6] _.
    apply rsimE_resE, Hmisc. }
  intros [s5 c5] _. cbn [shp fst snd]. cbv beta iota. sync.
  eapply resE_bind with (f := shp).
  { destruct (match curr_byte_opt (skip_spaces s5) with Some x => x =? 60 | None => false end); [|reflexivity].
    eapply resE_bind; [apply rsimE_resE, parse_element_shE|]. intros [[o s8] c8] _. cbn [she fst snd]. cbv beta iota.
    destruct o; [|reflexivity]. apply rsimE_resE, parse_content_shE. }
  intros [s7 c7] _. cbn [shp fst snd]. cbv beta iota.
  eapply resE_bind; [apply rsimE_resE, Hmisc|]. intros [s9 c9] _. cbn [shp fst snd]. cbv beta iota. sync.
  destruct (negb (at_end s9)); [apply rsimE_resE; eat|reflexivity].
Qed.

End Shift.
