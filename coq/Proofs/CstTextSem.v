(* Proofs/CstTextSem.v -- facts about the meaning functions of Spec/CstText.v (no model): the
   segments of a text run (stretches of literal / reference pieces, CDATA sections), decoding is
   segment-wise, decoded strings are valid UTF-8, plain strings decode to themselves. *)
From Coq Require Import List NArith PeanoNat Bool Lia ZifyBool ZifyN ZifyNat.
Import ListNotations.
From RX Require Import Generated.
From RX.Model Require Import Base.
From RX.Spec Require Cst CstText Chars.
From RX.Spec Require Import Text.
From RX.Proofs Require Import TextMachine NoPanicUtf8.
From RX.Proofs Require CstLex.
Open Scope N_scope.

Module T := CstText.

(* ------------------------------------------------------------------------------------------ *)
(* the generic piece-list function of TextMachine.v: cutting at a reference chunk              *)
(* ------------------------------------------------------------------------------------------ *)

Section GenFacts.
Variable f : bytes -> bytes.
Variable k : N -> N.

Lemma gen_app_ref_len : forall n a bs b, (length a <= n)%nat ->
  gen f k (a ++ CRef bs :: b) = gen f k a ++ f bs ++ gen f k b.
Proof.
  induction n as [|n IH]; intros a bs b Hl.
  - destruct a; [|cbn in Hl; lia]. cbn [app]. rewrite gen_ref, gen_nil. reflexivity.
  - destruct a as [|[x|b1] a']; cbn [app].
    + rewrite gen_ref, gen_nil. reflexivity.
    + cbn [length] in Hl. destruct (x =? 13) eqn:E13.
      * destruct a' as [|[y|b2] a'']; cbn [app].
        -- rewrite (gen_cr f k x (CRef bs :: b)) by (assumption || exact I).
           rewrite (gen_cr f k x []) by (assumption || exact I). rewrite gen_ref, gen_nil. reflexivity.
        -- destruct (y =? 10) eqn:E10.
           ++ rewrite !(gen_crlf f k x y) by assumption. cbn [length] in Hl.
              rewrite IH by lia. reflexivity.
           ++ rewrite (gen_cr f k x (CLit y :: a'' ++ CRef bs :: b)) by assumption.
              rewrite (gen_cr f k x (CLit y :: a'')) by assumption.
              change (CLit y :: a'' ++ CRef bs :: b) with ((CLit y :: a'') ++ CRef bs :: b).
              rewrite IH by lia. reflexivity.
        -- rewrite (gen_cr f k x (CRef b2 :: a'' ++ CRef bs :: b)) by (assumption || exact I).
           rewrite (gen_cr f k x (CRef b2 :: a'')) by (assumption || exact I).
           change (CRef b2 :: a'' ++ CRef bs :: b) with ((CRef b2 :: a'') ++ CRef bs :: b).
           rewrite IH by lia. reflexivity.
      * rewrite !(gen_lit_ne f k x) by assumption. rewrite IH by lia. reflexivity.
    + cbn [length] in Hl. rewrite !gen_ref. rewrite IH by lia. rewrite <- app_assoc. reflexivity.
Qed.

Lemma gen_app_ref : forall a bs b, gen f k (a ++ CRef bs :: b) = gen f k a ++ f bs ++ gen f k b.
Proof. intros a bs b. apply (gen_app_ref_len (length a)). lia. Qed.

Lemma lits_prefix_lits : forall l, lits_prefix (map CLit l) = (l, []).
Proof. induction l as [|x l IH]; [reflexivity|]. cbn [map lits_prefix]. rewrite IH. reflexivity. Qed.

Lemma gen_lits : forall l, gen f k (map CLit l) = map k (norm_eol l).
Proof.
  intros l. rewrite gen_split, lits_prefix_lits. cbn [fst snd]. rewrite gen_nil, app_nil_r. reflexivity.
Qed.

(* the output is built from k-images of literal bytes and f-images of references *)
Variable P : bytes -> Prop.
Hypothesis P_nil : P [].
Hypothesis P_app : forall a b, P a -> P b -> P (a ++ b).

Lemma gen_P_len : forall n cs, (length cs <= n)%nat ->
  Forall (fun c => match c with CLit x => P [k x] /\ P [k 10] | CRef bs => P (f bs) end) cs ->
  P (gen f k cs).
Proof.
  induction n as [|n IH]; intros cs Hl HF.
  - destruct cs; [rewrite gen_nil; exact P_nil|cbn in Hl; lia].
  - destruct cs as [|[x|b1] r]; [rewrite gen_nil; exact P_nil| |].
    + inversion HF as [|? ? Hc Hr]; subst. cbv beta iota in Hc. destruct Hc as [Hx H10]. cbn [length] in Hl.
      destruct (x =? 13) eqn:E13.
      * destruct r as [|[y|b2] r'].
        -- rewrite (gen_cr f k x []) by (assumption || exact I). rewrite gen_nil. exact H10.
        -- destruct (y =? 10) eqn:E10.
           ++ rewrite (gen_crlf f k x y) by assumption. inversion Hr; subst. cbn [length] in Hl.
              apply (P_app [k 10]); [exact H10|apply IH; [lia|assumption]].
           ++ rewrite (gen_cr f k x (CLit y :: r')) by assumption.
              apply (P_app [k 10]); [exact H10|apply IH; [lia|assumption]].
        -- rewrite (gen_cr f k x (CRef b2 :: r')) by (assumption || exact I).
           apply (P_app [k 10]); [exact H10|apply IH; [lia|assumption]].
      * rewrite (gen_lit_ne f k x) by assumption.
        apply (P_app [k x]); [exact Hx|apply IH; [lia|assumption]].
    + inversion HF as [|? ? Hb Hr]; subst. cbv beta iota in Hb. cbn [length] in Hl. rewrite gen_ref.
      apply P_app; [exact Hb|apply IH; [lia|assumption]].
Qed.

Lemma gen_P : forall cs,
  Forall (fun c => match c with CLit x => P [k x] /\ P [k 10] | CRef bs => P (f bs) end) cs ->
  P (gen f k cs).
Proof. intros cs. apply (gen_P_len (length cs)). lia. Qed.

Lemma gen_cons_ne : forall c cs, match c with CLit _ => True | CRef bs => f bs <> [] end ->
  gen f k (c :: cs) <> [].
Proof.
  intros [x|bs] cs H.
  - destruct (x =? 13) eqn:E13.
    + destruct cs as [|[y|b2] r'].
      * rewrite (gen_cr f k x []) by (assumption || exact I). discriminate.
      * destruct (y =? 10) eqn:E10.
        -- rewrite (gen_crlf f k x y) by assumption. discriminate.
        -- rewrite (gen_cr f k x (CLit y :: r')) by assumption. discriminate.
      * rewrite (gen_cr f k x (CRef b2 :: r')) by (assumption || exact I). discriminate.
    + rewrite (gen_lit_ne f k x) by assumption. discriminate.
  - rewrite gen_ref. destruct (f bs); [congruence|discriminate].
Qed.
End GenFacts.

Lemma norm_eol_nocr : forall l, existsb (fun x => x =? 13) l = false -> norm_eol l = l.
Proof.
  induction l as [|x l IH]; intros H; [reflexivity|]. cbn [existsb] in H. apply orb_false_iff in H.
  destruct H as [H1 H2]. rewrite norm_eol_ne by exact H1. rewrite IH by exact H2. reflexivity.
Qed.

Lemma decode_lits : forall l, decode_chunks (map CLit l) = norm_eol l.
Proof. intros l. rewrite decode_chunks_gen, gen_lits, map_id. reflexivity. Qed.

Lemma decode_app_ref : forall a bs b,
  decode_chunks (a ++ CRef bs :: b) = decode_chunks a ++ bs ++ decode_chunks b.
Proof. intros. rewrite !decode_chunks_gen. apply gen_app_ref. Qed.

Lemma norm_attr_lits_plain : forall l, existsb (fun x => (x =? 9) || (x =? 10) || (x =? 13)) l = false ->
  norm_attr_chunks (map CLit l) = l.
Proof.
  intros l H. rewrite norm_attr_chunks_gen, gen_lits.
  rewrite norm_eol_nocr.
  - induction l as [|x l IH]; [reflexivity|]. cbn [existsb] in H. apply orb_false_iff in H.
    destruct H as [H1 H2]. cbn [map]. rewrite IH by exact H2. unfold ws_to_space. rewrite H1. reflexivity.
  - induction l as [|x l IH]; [reflexivity|]. cbn [existsb] in *. apply orb_false_iff in H.
    destruct H as [H1 H2]. rewrite IH by exact H2. lia.
Qed.

(* ------------------------------------------------------------------------------------------ *)
(* pieces                                                                                     *)
(* ------------------------------------------------------------------------------------------ *)

Definition chunk_ok (c : chunk) : Prop := match c with CLit x => x < 128 | CRef bs => Valid bs end.

Lemma Valid_ascii1 x : x < 128 -> Valid [x].
Proof. intros H. apply Valid_ascii. unfold ascii. lia. Qed.

Lemma Valid_decode cs : Forall chunk_ok cs -> Valid (decode_chunks cs).
Proof.
  intros H. rewrite decode_chunks_gen. apply (gen_P (fun bs => bs) (fun x => x) Valid).
  - constructor.
  - apply Valid_app.
  - eapply Forall_impl; [|exact H]. intros [x|bs] Hc; cbn in *; [|exact Hc].
    split; apply Valid_ascii1; lia.
Qed.

Lemma Valid_norm_attr cs : Forall chunk_ok cs -> Valid (norm_attr_chunks cs).
Proof.
  intros H. rewrite norm_attr_chunks_gen. apply (gen_P (fun bs => bs) ws_to_space Valid).
  - constructor.
  - apply Valid_app.
  - eapply Forall_impl; [|exact H]. intros [x|bs] Hc; cbn in *; [|exact Hc].
    split; apply Valid_ascii1; unfold ws_to_space; [destruct ((x =? 9) || (x =? 10) || (x =? 13)); lia|reflexivity].
Qed.

Lemma xml_Char_scalar n : Chars.xml_Char n = true -> is_scalar n = true.
Proof.
  unfold Chars.xml_Char, Chars.in_ranges, Chars.xml_Char_ranges. cbn [existsb fst snd].
  unfold is_scalar. lia.
Qed.

Lemma tplain_ascii x : T.is_tplain x = true -> x < 128.
Proof. unfold T.is_tplain. lia. Qed.

(* the chunks of well-formed pieces *)
Lemma piece_chunks_ok q p : T.wf_vpiece q p = true \/ T.wf_tpiece p = true ->
  Forall chunk_ok (T.piece_chunks p) /\
  Forall (fun c => c <> CRef []) (match p with T.PCData _ => [] | _ => T.piece_chunks p end).
Proof.
  intros H.
  assert (Hlit : forall bs, forallb T.is_tplain bs = true -> Forall chunk_ok (map CLit bs)).
  { intros bs Hb. apply Forall_forall. intros c Hin. apply in_map_iff in Hin. destruct Hin as (x & <- & Hx).
    rewrite forallb_forall in Hb. apply tplain_ascii. apply Hb. exact Hx. }
  assert (Hne : forall bs, Forall (fun c => c <> CRef []) (map CLit bs)).
  { intros bs. apply Forall_forall. intros c Hin. apply in_map_iff in Hin. destruct Hin as (x & <- & _). discriminate. }
  destruct p as [bs|hex ds|e|bs]; cbn [T.piece_chunks].
  - split; [|apply Hne]. apply Hlit.
    assert (Hl : exists q', T.wf_lit q' bs = true).
    { destruct H as [H|H]; cbn in H; [eauto|]. apply andb_true_iff in H. destruct H. eauto. }
    destruct Hl as [q' Hl]. unfold T.wf_lit in Hl. apply andb_true_iff in Hl. destruct Hl as [_ Hl].
    revert Hl. apply CstLex.forallb_imp. intros x Hx. cbv beta in Hx. rewrite !andb_true_iff in Hx. apply Hx.
  - assert (Hc : T.wf_charref hex ds = true) by (destruct H as [H|H]; exact H).
    unfold T.wf_charref in Hc. rewrite !andb_true_iff in Hc. destruct Hc as [_ Hc].
    split; constructor; try constructor.
    + cbn. apply Valid_encode. apply xml_Char_scalar. exact Hc.
    + intros E. injection E as E. pose proof (encode_nonempty (T.ref_val hex ds)) as L.
      change (T.utf8 (T.ref_val hex ds)) with (encode_utf8 (T.ref_val hex ds)) in E. rewrite E in L. cbn in L. lia.
  - split; constructor; try constructor; [|discriminate].
    cbn. apply Valid_ascii1. destruct e; cbn; lia.
  - split; [|constructor]. constructor; [cbn; constructor|]. apply Forall_app. split; [|constructor; [cbn; constructor|constructor]].
    apply Hlit. destruct H as [H|H]; cbn in H; [discriminate|]. apply andb_true_iff in H. apply H.
Qed.

Lemma chunks_ok_v q ps : forallb (T.wf_vpiece q) ps = true ->
  Forall chunk_ok (flat_map T.piece_chunks ps) /\ Forall (fun c => c <> CRef []) (flat_map T.piece_chunks ps).
Proof.
  induction ps as [|p ps IH]; intros H; [split; constructor|]. cbn [forallb] in H. apply andb_true_iff in H.
  destruct H as [H1 H2]. destruct (IH H2) as [I1 I2]. destruct (piece_chunks_ok q p (or_introl H1)) as [J1 J2].
  cbn [flat_map]. split; apply Forall_app; split; try assumption.
  destruct p; try exact J2. discriminate.
Qed.

(* a value without '&' consists of literals only *)
Lemma chunks_no_amp q : forall ps, forallb (T.wf_vpiece q) ps = true ->
  existsb (fun x => x =? 38) (T.r_pieces ps) = false ->
  flat_map T.piece_chunks ps = map CLit (T.r_pieces ps).
Proof.
  induction ps as [|p ps IH]; intros H Hn; [reflexivity|]. cbn [forallb] in H. apply andb_true_iff in H.
  destruct H as [H1 H2]. cbn [T.r_pieces flat_map] in *. fold (T.r_pieces ps) in *.
  rewrite existsb_app in Hn. apply orb_false_iff in Hn. destruct Hn as [Hn1 Hn2].
  rewrite map_app, IH by assumption. f_equal.
  destruct p as [bs|hex ds|e|bs]; cbn [T.piece_chunks T.r_piece T.wf_vpiece] in *; try reflexivity; discriminate.
Qed.

(* ------------------------------------------------------------------------------------------ *)
(* the segments of a text run                                                                 *)
(* ------------------------------------------------------------------------------------------ *)

Inductive seg := SS (ps : list T.piece) | SC (bs : bytes).

Fixpoint segs (ps : list T.piece) : list seg :=
  match ps with
  | [] => []
  | T.PCData bs :: r => SC bs :: segs r
  | p :: r => match segs r with SS l :: t => SS (p :: l) :: t | t => SS [p] :: t end
  end.

Definition r_seg (s : seg) : bytes :=
  match s with SS l => T.r_pieces l | SC bs => T.cdata_open ++ bs ++ T.cdata_close end.
Definition seg_sem (s : seg) : bytes :=
  match s with SS l => decode_chunks (flat_map T.piece_chunks l) | SC bs => norm_eol bs end.
Definition is_ss (s : seg) : bool := match s with SS _ => true | SC _ => false end.
Definition no_cdata (p : T.piece) : bool := match p with T.PCData _ => false | _ => true end.

Definition seg_wf (s : seg) : Prop :=
  match s with
  | SS l => l <> [] /\ forallb T.wf_tpiece l = true /\ forallb no_cdata l = true /\ T.no_adjacent_lit l = true
  | SC bs => forallb T.is_tplain bs = true /\ contains_b T.cdata_close bs = false
  end.
(* a stretch is maximal: it is followed by a CDATA section or by nothing *)
Fixpoint alt (l : list seg) : Prop :=
  match l with
  | a :: ((c :: _) as r) => (is_ss a = true -> is_ss c = false) /\ alt r
  | _ => True
  end.

Lemma segs_cons_plain p r : no_cdata p = true ->
  segs (p :: r) = match segs r with SS l :: t => SS (p :: l) :: t | t => SS [p] :: t end.
Proof. destruct p; try reflexivity. discriminate. Qed.

Lemma r_pieces_cons p ps : T.r_pieces (p :: ps) = T.r_piece p ++ T.r_pieces ps.
Proof. reflexivity. Qed.

Lemma segs_render : forall ps, flat_map r_seg (segs ps) = T.r_pieces ps.
Proof.
  induction ps as [|p ps IH]; [reflexivity|]. rewrite r_pieces_cons, <- IH.
  destruct p as [bs|hex ds|e|bs]; try reflexivity; cbn [segs];
    destruct (segs ps) as [|[l|b0] t]; cbn [flat_map r_seg]; rewrite ?r_pieces_cons, ?app_nil_r, <- ?app_assoc; reflexivity.
Qed.

Lemma segs_ne : forall ps, ps <> [] -> segs ps <> [].
Proof. intros [|p ps] H; [congruence|]. destruct p; cbn [segs]; try destruct (segs ps) as [|[l|b0] t]; discriminate. Qed.

Lemma no_adj_tail p ps : T.no_adjacent_lit (p :: ps) = true -> T.no_adjacent_lit ps = true.
Proof. destruct ps as [|d r]; [reflexivity|]. cbn [T.no_adjacent_lit]. intros H. apply andb_true_iff in H. apply H. Qed.

Lemma no_adj_cons2 a c r : T.no_adjacent_lit (a :: c :: r) = negb (T.is_lit a && T.is_lit c) && T.no_adjacent_lit (c :: r).
Proof. reflexivity. Qed.

Definition segs_ok (ps : list T.piece) : Prop :=
  Forall seg_wf (segs ps) /\ alt (segs ps) /\
  match ps, segs ps with
  | p :: _, SS (p' :: _) :: _ => p' = p
  | _, _ => True
  end.

Lemma segs_ok_plain p ps : no_cdata p = true -> T.wf_tpiece p = true ->
  T.no_adjacent_lit (p :: ps) = true -> segs_ok ps -> segs_ok (p :: ps).
Proof.
  intros Hn Hw Hadj (F & A & Hd). unfold segs_ok. rewrite segs_cons_plain by exact Hn.
  destruct (segs ps) as [|[l|b0] t] eqn:Es.
  - split; [|split; [exact I|reflexivity]]. constructor; [|constructor].
    cbn [seg_wf forallb T.no_adjacent_lit]. rewrite Hw, Hn. repeat split. discriminate.
  - inversion F as [|? ? Hs Ft]; subst. cbn [seg_wf] in Hs. destruct Hs as (Hne & Hf1 & Hf2 & Hf3).
    split; [|split; [|reflexivity]].
    + constructor; [|exact Ft]. cbn [seg_wf forallb]. rewrite Hw, Hn, Hf1, Hf2.
      split; [discriminate|]. split; [reflexivity|]. split; [reflexivity|].
      destruct l as [|p' l']; [congruence|]. destruct ps as [|p0 ps0]; [discriminate Es|]. rewrite Es in Hd. subst p'.
      rewrite no_adj_cons2 in Hadj |- *. apply andb_true_iff in Hadj. destruct Hadj as [Ha _].
      rewrite Ha, Hf3. reflexivity.
    + destruct t as [|c t']; [exact I|]. exact A.
  - split; [|split; [|reflexivity]].
    + constructor; [|exact F]. cbn [seg_wf forallb T.no_adjacent_lit]. rewrite Hw, Hn. repeat split. discriminate.
    + split; [intros _; reflexivity|exact A].
Qed.

Lemma segs_wf : forall ps, forallb T.wf_tpiece ps = true -> T.no_adjacent_lit ps = true -> segs_ok ps.
Proof.
  induction ps as [|p ps IH]; intros Hwf Hadj; [repeat split; constructor|].
  cbn [forallb] in Hwf. apply andb_true_iff in Hwf. destruct Hwf as [Hw1 Hw2].
  specialize (IH Hw2 (no_adj_tail _ _ Hadj)).
  destruct p as [bs|hex ds|e|bs]; try (apply segs_ok_plain; [reflexivity|assumption|assumption|assumption]).
  destruct IH as (F & A & _). unfold segs_ok. cbn [segs]. split; [|split; [|exact I]].
  - constructor; [|exact F]. cbn [seg_wf T.wf_tpiece] in *. apply andb_true_iff in Hw1.
    destruct Hw1 as [H1 H2]. split; [exact H1|]. apply negb_true_iff in H2. rewrite CstLex.contains_eq in H2. exact H2.
  - destruct (segs ps) as [|c t]; [exact I|]. split; [discriminate|exact A].
Qed.

Definition seg_chunks (s : seg) : list chunk :=
  match s with SS l => flat_map T.piece_chunks l | SC bs => CRef [] :: map CLit bs ++ [CRef []] end.

Lemma segs_chunks : forall ps, flat_map seg_chunks (segs ps) = flat_map T.piece_chunks ps.
Proof.
  induction ps as [|p ps IH]; [reflexivity|]. cbn [flat_map] in *. rewrite <- IH.
  destruct p as [bs|hex ds|e|bs]; try reflexivity; cbn [segs];
    destruct (segs ps) as [|[l|b0] t]; cbn [flat_map seg_chunks]; rewrite ?app_nil_r, <- ?app_assoc; reflexivity.
Qed.

Lemma decode_ref_nil cs : decode_chunks (CRef [] :: cs) = decode_chunks cs.
Proof. change (CRef [] :: cs) with ([] ++ CRef [] :: cs). rewrite (decode_app_ref [] [] cs). reflexivity. Qed.

Lemma decode_segs : forall L, alt L -> decode_chunks (flat_map seg_chunks L) = concat (map seg_sem L).
Proof.
  induction L as [|s L IH]; intros A; [reflexivity|].
  assert (A' : alt L) by (destruct L; [exact I|apply A]).
  specialize (IH A'). cbn [flat_map map concat]. destruct s as [l|bs]; cbn [seg_chunks seg_sem].
  - destruct L as [|[l'|bs'] L'].
    + cbn [flat_map map concat]. rewrite !app_nil_r. reflexivity.
    + destruct A as [A _]. specialize (A eq_refl). discriminate.
    + cbn [flat_map seg_chunks app] in IH |- *. rewrite decode_app_ref. cbn [app].
      rewrite decode_ref_nil in IH. rewrite IH. reflexivity.
  - cbn [app]. rewrite decode_ref_nil, <- app_assoc. cbn [app]. rewrite decode_app_ref, decode_lits. cbn [app].
    rewrite IH. reflexivity.
Qed.

Lemma text_sem_segs : forall ps, forallb T.wf_tpiece ps = true -> T.no_adjacent_lit ps = true ->
  T.text_sem ps = concat (map seg_sem (segs ps)).
Proof.
  intros ps H1 H2. unfold T.text_sem. rewrite <- segs_chunks. apply decode_segs. apply (segs_wf ps H1 H2).
Qed.
