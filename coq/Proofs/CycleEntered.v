(* CycleEntered.v -- C09: entering a cycle from outside, at the level of the text token;
   assumptions of the main theorems. *)
From Coq Require Import Ascii String.
From Coq Require Import Lia ZifyBool ZifyN ZifyNat.
From RX Require Import Generated.
From RX.Model Require Import Base CharClass Stream Tokenizer Doc Builder Parse.
From RX.Proofs Require Import CycleStream CycleContent CycleAttr.

Lemma value_into_mono text (S S' : bytes -> Prop) v :
  (forall n, S n -> S' n) -> value_into text S v -> value_into text S' v.
Proof.
  intros HS (pre & m & mid & tail & H). exists pre, m, mid, tail.
  repeat match goal with H : _ /\ _ |- _ => destruct H end. repeat split; auto.
Qed.

(* a set stays closed when an entity whose value leads into it is added *)
Lemma closed_extend text es (S : bytes -> Prop) n e :
  closed text es S -> find_entity text es n = Some e -> value_into text S (en_value e) ->
  closed text es (fun x => S x \/ x = n).
Proof.
  intros Hc Hf Hv x [Hx| ->].
  - destruct (Hc x Hx) as (e' & Hf' & Hv'). exists e'. split; [exact Hf'|].
    eapply value_into_mono; [|exact Hv']. auto.
  - exists e. split; [exact Hf|]. eapply value_into_mono; [|exact Hv]. auto.
Qed.

(* a text token "pre &n; mid" where n itself need not be in S: it is enough that the first
   declaration of n has a value that leads into S *)
Theorem cycle_in_content_entered : forall text es (S : bytes -> Prop) lvl t r c pre n mid e,
  closed text es S ->
  find_entity text es n = Some e -> value_into text S (en_value e) ->
  (entity_levels <= lvl)%nat ->
  sl_start t = fst r -> sl_end t = snd r -> fst r <= snd r -> snd r <= tlen text ->
  sub text (fst r) (snd r) = pre ++ 38 :: n ++ 59 :: mid ->
  plain pre -> ascii_name n -> predefined_b n = false ->
  is_boundary text (fst r + blen pre + blen n + 2) = true ->
  c_entities c = es -> app_ok c ->
  exists p, process_text_with text (parse_content_lvl text lvl) t r c = Err (EntityReferenceLoop p).
Proof.
  intros text es S lvl t r c pre n mid e Hc Hf Hv. intros.
  eapply (cycle_in_content text es (fun x => S x \/ x = n) (closed_extend _ _ _ _ _ Hc Hf Hv));
    eauto.
Qed.

Print Assumptions cycle_in_content.
Print Assumptions cycle_in_content_token.
Print Assumptions cycle_entered.
Print Assumptions nested_cycle.
Print Assumptions cycle_in_content_entered.
Print Assumptions cycle_in_attribute.
Print Assumptions cycle_in_normalize_attribute.
Print Assumptions cycle_in_process_attribute.
