(* Proofs/CstEntRejLevel.v -- C09 on whole documents: an inlining at level k + 1 of Spec/CstEnt.v through whose trace the
   loop detector runs is the inlining at level k, as long as 10 <= k + the depth at which it starts.  (Two more levels
   than E.max_level are used by Proofs/CstEntRejSem.v.) *)
From Coq Require Import List NArith PeanoNat Bool Lia ZifyBool ZifyN ZifyNat.
Import ListNotations.
From RX Require Import Generated.
From RX.Model Require Import Base Stream Builder Parse.
From RX.Spec Require Cst CstText CstEnt Chars Detector.
From RX.Spec Require Import Text.
From RX.Proofs Require Import DetectorProofs CstTextSem CstTextItems CstEntSem CstEntText CstEntAttr CstEntMeaning CstEntInline CstEntItems.
From RX.Proofs Require Import CstEntRejSem.
Open Scope N_scope.

Section D.
Variable decls : list E.edecl.

Definition Down {A} (k : nat) (g : E.table -> option (A * list Detector.lop)) : Prop :=
  forall res tr ld ld', g (E.level decls (S k)) = Some (res, tr) -> ld_run ld tr = Some ld' ->
    10 <= N.of_nat k + ld_depth ld ->
    g (E.level decls k) = Some (res, tr) /\ ld_depth ld' = ld_depth ld.

Definition DownV (k : nat) : Prop :=
  forall v x ld ld', E.inline_value (E.level decls (S k)) v = Some x -> ld_run ld (E.x_trace x) = Some ld' ->
    10 <= N.of_nat k + ld_depth ld ->
    E.inline_value (E.level decls k) v = Some x /\ ld_depth ld' = ld_depth ld.

(* a reference *)
Lemma lookup_level_S k n :
  E.lookup (E.level decls (S k)) n =
  match first_decl decls n with Some d => E.inline_value (E.level decls k) (E.e_value d) | None => None end.
Proof. exact (lookup_level decls (S k) n). Qed.

Lemma down_lookup k n v ld ld1 ld1' :
  (forall k', k = S k' -> DownV k') ->
  E.lookup (E.level decls (S k)) n = Some v -> ld_enter ld = Some ld1 -> ld_run ld1 (E.x_trace v) = Some ld1' ->
  10 <= N.of_nat k + ld_depth ld ->
  E.lookup (E.level decls k) n = Some v /\ ld_depth (dec_depth ld1') = ld_depth ld.
Proof.
  intros IH Hl He Hr Hk. destruct (enter_d _ _ He) as [D1 D2].
  destruct k as [|k']; [lia|].
  rewrite lookup_level_S in Hl. rewrite lookup_level_S. destruct (first_decl decls n) as [d|]; [|discriminate].
  destruct (IH k' eq_refl _ _ ld1 ld1' Hl Hr ltac:(lia)) as [E1 E2].
  split; [exact E1|]. rewrite dec_d by lia. lia.
Qed.

Section Lvl.
Variable k : nat.
Hypothesis IH : forall k', k = S k' -> DownV k'.

Lemma down_ps fa ie : forall ps, Down k (fun tb => E.inline_ps tb fa ie ps).
Proof.
  induction ps as [|p ps IHp]; intros res tr ld ld' H Hr Hk.
  - cbn [E.inline_ps] in *. injection H as <- <-. cbn [ld_run] in Hr. injection Hr as <-. auto.
  - cbn [E.inline_ps] in *. destruct p as [q|n].
    + destruct (fa && ie && E.is_lt_ref q); [discriminate|].
      destruct (E.inline_ps (E.level decls (S k)) fa ie ps) as [[q' tr']|] eqn:Er; [|discriminate]. cbn [E.obind fst snd] in H.
      injection H as <- <-. destruct (IHp _ _ _ _ Er Hr Hk) as [E1 E2]. rewrite E1. auto.
    + destruct (E.lookup (E.level decls (S k)) n) as [v|] eqn:El; [|discriminate]. cbn [E.obind] in H.
      destruct (E.x_pieces v) as [qv|] eqn:Ex; [|discriminate]. cbn [E.obind] in H.
      destruct (fa && existsb E.is_lt_ref qv) eqn:Elt; [discriminate|].
      destruct (E.inline_ps (E.level decls (S k)) fa ie ps) as [[q' tr']|] eqn:Er; [|discriminate]. cbn [E.obind fst snd] in H.
      injection H as <- <-.
      cbn [ld_run] in Hr. destruct (ld_enter ld) as [ld1|] eqn:Een; [|discriminate].
      rewrite ld_run_app in Hr. destruct (ld_run ld1 (E.x_trace v)) as [ld1'|] eqn:Er1; [|discriminate]. cbn [ld_run] in Hr.
      destruct (down_lookup k n v ld ld1 ld1' IH El Een Er1 Hk) as [L1 L2].
      destruct (IHp _ _ _ _ Er Hr ltac:(lia)) as [E1 E2].
      rewrite L1. cbn [E.obind]. rewrite Ex. cbn [E.obind]. rewrite Elt, E1. split; [reflexivity|lia].
Qed.

Lemma down_run ie : forall ps, Down k (fun tb => E.inline_run tb ie ps).
Proof.
  induction ps as [|p ps IHp]; intros res tr ld ld' H Hr Hk.
  - cbn [E.inline_run] in *. injection H as <- <-. cbn [ld_run] in Hr. injection Hr as <-. auto.
  - cbn [E.inline_run] in *. destruct p as [q|n].
    + destruct (E.inline_run (E.level decls (S k)) ie ps) as [[q' tr']|] eqn:Er; [|discriminate]. cbn [E.obind fst snd] in H.
      injection H as <- <-. destruct (IHp _ _ _ _ Er Hr Hk) as [E1 E2]. rewrite E1. auto.
    + destruct (E.lookup (E.level decls (S k)) n) as [v|] eqn:El; [|discriminate]. cbn [E.obind] in H.
      destruct (E.inline_run (E.level decls (S k)) ie ps) as [[q' tr']|] eqn:Er; [|discriminate]. cbn [E.obind fst snd] in H.
      injection H as <- <-.
      cbn [ld_run] in Hr. destruct (ld_enter ld) as [ld1|] eqn:Een; [|discriminate].
      rewrite ld_run_app in Hr. destruct (ld_run ld1 (E.x_trace v)) as [ld1'|] eqn:Er1; [|discriminate]. cbn [ld_run] in Hr.
      destruct (down_lookup k n v ld ld1 ld1' IH El Een Er1 Hk) as [L1 L2].
      destruct (IHp _ _ _ _ Er Hr ltac:(lia)) as [E1 E2].
      rewrite L1. cbn [E.obind]. rewrite E1. split; [reflexivity|lia].
Qed.

Lemma down_attrs ie : forall attrs, Down k (fun tb => E.inline_attrs tb ie attrs).
Proof.
  induction attrs as [|a r IHa]; intros res tr ld ld' H Hr Hk.
  - cbn [E.inline_attrs] in *. injection H as <- <-. cbn [ld_run] in Hr. injection Hr as <-. auto.
  - cbn [E.inline_attrs] in *. unfold E.inline_attr in *.
    destruct (E.inline_ps (E.level decls (S k)) true ie (E.a_value a)) as [[qv tra]|] eqn:Ea; [|discriminate].
    cbn [E.obind fst snd] in H.
    destruct (E.inline_attrs (E.level decls (S k)) ie r) as [[ar trr]|] eqn:Er; [|discriminate].
    cbn [E.obind fst snd] in H. injection H as <- <-.
    rewrite ld_run_app in Hr. destruct (ld_run ld tra) as [ld1|] eqn:El1; [|discriminate].
    destruct (down_ps true ie _ _ _ _ _ Ea El1 Hk) as [E1 E2].
    destruct (IHa _ _ _ _ Er Hr ltac:(lia)) as [E3 E4].
    rewrite E1. cbn [E.obind fst snd]. rewrite E3. split; [reflexivity|lia].
Qed.

Definition DownL (ie : bool) (cs : list E.item) : Prop := Down k (fun tb => E.inline_items tb ie cs).

Lemma down_items_of ie cs : Forall (fun i => Down k (fun tb => E.inline_item tb ie i)) cs -> DownL ie cs.
Proof.
  induction 1 as [|i r Hi _ IHr]; intros res tr ld ld' H Hr Hk.
  - cbn [E.inline_items] in *. injection H as <- <-. cbn [ld_run] in Hr. injection Hr as <-. auto.
  - cbn [E.inline_items] in *.
    destruct (E.inline_item (E.level decls (S k)) ie i) as [[its1 tr1]|] eqn:Ei; [|discriminate]. cbn [E.obind fst snd] in H.
    destruct (E.inline_items (E.level decls (S k)) ie r) as [[its2 tr2]|] eqn:Er; [|discriminate]. cbn [E.obind fst snd] in H.
    injection H as <- <-.
    rewrite ld_run_app in Hr. destruct (ld_run ld tr1) as [ld1|] eqn:El1; [|discriminate].
    destruct (Hi _ _ _ _ Ei El1 Hk) as [E1 E2]. destruct (IHr _ _ _ _ Er Hr ltac:(lia)) as [E3 E4].
    rewrite E1. cbn [E.obind fst snd]. rewrite E3. split; [reflexivity|lia].
Qed.

Lemma down_item ie : forall i, Down k (fun tb => E.inline_item tb ie i).
Proof.
  intros i. induction i as [n a w|n a w cs w2 IHc|ps|bs|t s v] using eitem_ind; intros res tr ld ld' H Hr Hk.
  - rewrite inline_elem in *. destruct (E.inline_attrs (E.level decls (S k)) ie a) as [[a' ta]|] eqn:Ea; [|discriminate].
    cbn [E.obind fst snd] in H. injection H as <- <-.
    destruct (down_attrs ie _ _ _ _ _ Ea Hr Hk) as [E1 E2]. rewrite E1. auto.
  - rewrite inline_elem in *. destruct (E.inline_attrs (E.level decls (S k)) ie a) as [[a' ta]|] eqn:Ea; [|discriminate].
    cbn [E.obind fst snd] in H. destruct (E.inline_items (E.level decls (S k)) ie cs) as [[b0 tb0]|] eqn:Ec; [|discriminate].
    cbn [E.obind fst snd] in H. injection H as <- <-.
    rewrite ld_run_app in Hr. destruct (ld_run ld ta) as [ld1|] eqn:El1; [|discriminate].
    destruct (down_attrs ie _ _ _ _ _ Ea El1 Hk) as [E1 E2].
    destruct (down_items_of ie cs IHc _ _ _ _ Ec Hr ltac:(lia)) as [E3 E4].
    rewrite E1. cbn [E.obind fst snd]. rewrite E3. split; [reflexivity|lia].
  - cbn [E.inline_item] in *. apply (down_run ie ps _ _ _ _ H Hr Hk).
  - cbn [E.inline_item] in *. injection H as <- <-. cbn [ld_run] in Hr. injection Hr as <-. auto.
  - cbn [E.inline_item] in *. injection H as <- <-. cbn [ld_run] in Hr. injection Hr as <-. auto.
Qed.

Lemma down_items ie cs : DownL ie cs.
Proof. apply down_items_of. apply Forall_forall. intros i _. apply down_item. Qed.

Lemma down_value : DownV k.
Proof.
  intros v x ld ld' H Hr Hk. destruct v as [ps|its]; cbn [E.inline_value] in *.
  - destruct (E.inline_ps (E.level decls (S k)) false true ps) as [[q tr]|] eqn:Ei; [|discriminate].
    cbn [E.obind fst snd] in H. injection H as <-. cbn [E.x_trace] in Hr.
    destruct (down_ps false true ps _ _ _ _ Ei Hr Hk) as [E1 E2]. rewrite E1. auto.
  - destruct (E.inline_items (E.level decls (S k)) true its) as [[it tr]|] eqn:Ei; [|discriminate].
    cbn [E.obind fst snd] in H. injection H as <-. cbn [E.x_trace] in Hr.
    destruct (down_items true its _ _ _ _ Ei Hr Hk) as [E1 E2]. rewrite E1. auto.
Qed.

End Lvl.

Theorem down_value_all : forall k, DownV k.
Proof.
  induction k as [|k IHk].
  - apply down_value. intros k' E0. discriminate.
  - apply down_value. intros k' E0. injection E0 as <-. exact IHk.
Qed.

Lemma IHdown k : forall k', k = S k' -> DownV k'.
Proof. intros k' _. apply down_value_all. Qed.

End D.

(* the unfolding of Proofs/CstEntRejSem.v is the inlining of Spec/CstEnt.v when the detector runs through its trace *)
Theorem ginline_inline (c : E.doc) cT tr ld' :
  ginline c = Some (cT, tr) -> ld_run ld_init tr = Some ld' -> E.inline c = Some (cT, tr).
Proof.
  intros H Hr. unfold ginline, inline_with in H. unfold E.inline, E.table_of, E.max_level.
  set (decls := E.t_decls (E.d_dtd c)) in *.
  destruct (E.inline_item (glevel decls glevels) false (E.d_root c)) as [[its tr0]|] eqn:Ei; [|discriminate].
  cbn [E.obind fst snd] in H.
  assert (tr0 = tr) by (destruct its as [|r [|x its]]; try discriminate; injection H as _ <-; reflexivity). subst tr0.
  destruct (agree_item decls glevels (IHall decls glevels) false _ _ _ _ _ Ei Hr ltac:(unfold glevels; cbn; lia)) as [E1 _].
  unfold glevels in E1.
  destruct (down_item decls 11 (IHdown decls 11) false _ _ _ _ _ E1 Hr ltac:(cbn; lia)) as [E2 _].
  destruct (down_item decls 10 (IHdown decls 10) false _ _ _ _ _ E2 Hr ltac:(cbn; lia)) as [E3 _].
  rewrite E3. cbn [E.obind fst snd]. exact H.
Qed.

Print Assumptions ginline_inline.
