(* Proofs/CstEntRejMain.v -- C09 on whole documents: the REJECTION half, on the fragment of Spec/CstEnt.v.

   A document c is taken that is well-formed in everything that does not look at the expansion of its references
   ([wf_syntax]: E.wf_doc without its conjunct about E.inline, Proofs/CstEntRejSem.v), and whose references can be
   unfolded 12 levels deep ([ginline c = Some (cT, tr)]: every name referred to -- in the body and, 12 levels down, in the
   values -- is declared, no entity with markup is used in an attribute value, no '<' comes into an attribute value
   from an entity; a cycle does not prevent this unfolding, it is simply cut at level 12).  The line-end proviso of
   Spec/CstEnt.v and the size hypotheses of the acceptance theorem are asked of this unfolding cT.  Then

     [limits_rejected_ent]   if the trace tr of the unfolding is outside the limits of Spec/Detector.v (depth 10,
                             255 nested references), parse answers Err (EntityReferenceLoop _);
     [limits_decide_ent]     and otherwise it answers Ok: on these documents the limits decide,

   and the three clauses of C09 are corollaries, stated on the abstract syntax (Proofs/CstEntRejTrace.v):

     [cycle_rejected_ent]          some name reachable from a reference in the body refers to itself, directly or not;
     [depth_exceeded_rejected_ent] a reference path of 11 (or more) names starts in the body;
     [budget_exceeded_rejected_ent] a name referred to in the body has more than 255 expansions below it.

   What is NOT claimed: which error wins when the document has another defect before the place where the detector
   stops (an undeclared name, '<' coming from an entity into an attribute value: the model then answers
   UnknownEntityReference / InvalidAttributeValue -- both excluded here by [ginline c = Some _]). *)
From Coq Require Import Ascii String.
From Coq Require Import List NArith PeanoNat Bool Lia ZifyBool ZifyN ZifyNat.
Import ListNotations.
From RX Require Import Generated.
From RX.Model Require Import Base CharClass Stream Tokenizer Doc Builder Parse.
From RX.Spec Require Cst CstText CstEnt Detector.
From RX.Spec Require Tree.
From RX.Spec Require Import Text.
From RX.Proofs Require Import Tactics CstLex CstBuild CstTree CstItems CstDoc CstMain DetectorProofs.
From RX.Proofs Require Import CstTextSem CstTextLex CstTextBuild CstTextItems CstTextDoc CstTextMain.
From RX.Proofs Require Import CstEntSem CstEntText CstEntAttr CstEntMeaning CstEntRun CstEntLex CstEntDtd CstEntBuild CstEntInline CstEntItems CstEntDoc CstEntMain.
From RX.Proofs Require Import CstEntCFloor CstEntCAttr CstEntCBuild CstEntCSem CstEntCLex CstEntCLex2 CstEntCLoop CstEntCText CstEntCItems CstEntCDoc CstEntCMain.
From RX.Proofs Require Import CstEntRejSem CstEntRejAttr CstEntRejText CstEntRejItems CstEntRejDoc CstEntRejTrace CstEntRejLevel.
Open Scope N_scope.

(* ------------------------------------------------------------------------------------------ *)
(* outside the limits: rejected                                                               *)
(* ------------------------------------------------------------------------------------------ *)
Theorem limits_rejected_ent : forall (c : E.doc) (opt : options) (cT : T.doc) (tr : list Detector.lop),
  wf_syntax c = true -> ginline c = Some (cT, tr) ->
  E.provisos_item (T.d_root cT) = true ->
  Detector.within_limits 10 255 0 0 tr = false ->
  allow_dtd opt = true ->
  N.of_nat (length (T.sem cT)) < nodes_limit opt ->
  N.of_nat (length (T.sem cT)) < u32_max ->
  N.of_nat (tdoc_nattrs cT) < u32_max ->
  exists pos, parse (E.render c) opt = Err (EntityReferenceLoop pos).
Proof.
  intros c opt cT tr Hwf Hinl Hprov Hlim Hdtd Hn Hmax Hattr. set (text := E.render c).
  destruct (fparse_document c (init_ctx text opt) cT tr Hwf Hinl Hprov Hlim (init_ctx_CI text opt) eq_refl eq_refl eq_refl)
    as [pos E].
  { unfold node_room. rewrite tnsizes_doc. cbn [c_doc init_ctx d_nodes c_opt]. unfold len_N. cbn [length]. lia. }
  { unfold attr_room. cbn [c_doc init_ctx d_attrs]. unfold len_N. cbn [length]. unfold tdoc_nattrs in Hattr. lia. }
  exists pos. fold text in E. unfold parse. rewrite init_context_eq. cbn [bind]. rewrite Hdtd.
  unfold tok_ev in E. rewrite E. reflexivity.
Qed.

(* within the limits: accepted (Proofs/CstEntCMain.v); so the limits decide *)
Theorem limits_decide_ent : forall (c : E.doc) (opt : options) (cT : T.doc) (tr : list Detector.lop),
  wf_syntax c = true -> ginline c = Some (cT, tr) ->
  E.provisos_item (T.d_root cT) = true ->
  allow_dtd opt = true ->
  N.of_nat (length (T.sem cT)) < nodes_limit opt ->
  N.of_nat (length (T.sem cT)) < u32_max ->
  N.of_nat (tdoc_nattrs cT) < u32_max ->
  (Detector.within_limits 10 255 0 0 tr = true ->
     exists d, parse (E.render c) opt = Ok d /\ view (E.render c) d = T.sem cT) /\
  (Detector.within_limits 10 255 0 0 tr = false ->
     exists pos, parse (E.render c) opt = Err (EntityReferenceLoop pos)) /\
  ((exists d, parse (E.render c) opt = Ok d) <-> Detector.within_limits 10 255 0 0 tr = true) /\
  ((exists pos, parse (E.render c) opt = Err (EntityReferenceLoop pos)) <-> Detector.within_limits 10 255 0 0 tr = false).
Proof.
  intros c opt cT tr Hwf Hinl Hprov Hdtd Hn Hmax Hattr.
  assert (Hacc : Detector.within_limits 10 255 0 0 tr = true ->
                 exists d, parse (E.render c) opt = Ok d /\ view (E.render c) d = T.sem cT).
  { intros Hlim. destruct (detector_complete_gen tr 0 0 Hlim) as [ld' Hrun].
    pose proof (ginline_inline c cT tr ld' Hinl Hrun) as Hi.
    assert (Hwfd : E.wf_doc c = true) by (rewrite wf_doc_split, Hwf, Hi, Hlim, Hprov; reflexivity).
    assert (Esem : E.sem c = T.sem cT) by (unfold E.sem; rewrite Hi; reflexivity).
    assert (Eatt : edoc_nattrs c = tdoc_nattrs cT) by (unfold edoc_nattrs; rewrite Hi; reflexivity).
    destruct (parse_render_sem_ent c opt Hwfd Hdtd ltac:(rewrite Esem; exact Hn) ltac:(rewrite Esem; exact Hmax)
                ltac:(rewrite Eatt; exact Hattr)) as (d & Hp & Hv & _).
    exists d. split; [exact Hp|]. rewrite Hv. exact Esem. }
  assert (Hrej : Detector.within_limits 10 255 0 0 tr = false ->
                 exists pos, parse (E.render c) opt = Err (EntityReferenceLoop pos))
    by (intros Hlim; apply (limits_rejected_ent c opt cT tr); assumption).
  split; [exact Hacc|]. split; [exact Hrej|]. split; split.
  - intros [d Hd]. destruct (Detector.within_limits 10 255 0 0 tr) eqn:Hl; [reflexivity|].
    destruct (Hrej eq_refl) as [pos Hp]. rewrite Hp in Hd. discriminate.
  - intros Hl. destruct (Hacc Hl) as (d & Hd & _). eauto.
  - intros [pos Hp]. destruct (Detector.within_limits 10 255 0 0 tr) eqn:Hl; [|reflexivity].
    destruct (Hacc eq_refl) as (d & Hd & _). rewrite Hp in Hd. discriminate.
  - exact Hrej.
Qed.

(* ------------------------------------------------------------------------------------------ *)
(* the three clauses of C09, on the abstract syntax                                           *)
(* ------------------------------------------------------------------------------------------ *)
Notation decls_of c := (E.t_decls (E.d_dtd c)).

(* a reference path of L names n1 -> n2 -> ... -> nL starts in the body: n1 is referred to in the root element and the
   value of the first declaration of each n_i refers to n_(i+1) *)
Definition deep_doc (c : E.doc) (L : nat) : Prop :=
  exists n, In n (refs_item (E.d_root c)) /\ rpath (decls_of c) n L.

(* some name reachable from a reference in the body refers to itself, directly or indirectly *)
Definition cyclic_doc (c : E.doc) : Prop :=
  exists n m, In n (refs_item (E.d_root c)) /\ reach (decls_of c) n m /\ on_cycle (decls_of c) m.

(* a name referred to in the body has more than 255 expansions below it (counted 12 levels down) *)
Definition over_budget_doc (c : E.doc) : Prop :=
  exists n, In n (refs_item (E.d_root c)) /\ (255 < nested (decls_of c) glevels n)%nat.

Lemma cyclic_deep c : cyclic_doc c -> forall L, (1 <= L)%nat -> deep_doc c L.
Proof. intros (n & m & Hn & Hr & Hc) L HL. exists n. split; [exact Hn|]. apply (cycle_rpath _ n m L Hr Hc HL). Qed.

Lemma ginline_root c cT tr : ginline c = Some (cT, tr) ->
  exists its, E.inline_item (glevel (decls_of c) glevels) false (E.d_root c) = Some (its, tr).
Proof.
  unfold ginline, inline_with. intros H.
  destruct (E.inline_item (glevel (decls_of c) glevels) false (E.d_root c)) as [[its tr0]|]; [|discriminate].
  cbn [E.obind fst snd] in H. destruct its as [|r [|x its]]; try discriminate. injection H as _ <-. eauto.
Qed.

Section Clauses.
Variables (c : E.doc) (opt : options) (cT : T.doc) (tr : list Detector.lop).
Hypothesis Hwf : wf_syntax c = true.
Hypothesis Hinl : ginline c = Some (cT, tr).
Hypothesis Hprov : E.provisos_item (T.d_root cT) = true.
Hypothesis Hdtd : allow_dtd opt = true.
Hypothesis Hn : N.of_nat (length (T.sem cT)) < nodes_limit opt.
Hypothesis Hmax : N.of_nat (length (T.sem cT)) < u32_max.
Hypothesis Hattr : N.of_nat (tdoc_nattrs cT) < u32_max.

Theorem depth_exceeded_rejected_ent_s : forall L, (11 <= L)%nat -> deep_doc c L ->
  exists pos, parse (E.render c) opt = Err (EntityReferenceLoop pos).
Proof.
  intros L HL (n & Hin & Hp). destruct (ginline_root c cT tr Hinl) as [its Hr].
  apply (limits_rejected_ent c opt cT tr); try assumption.
  apply (deep_limits (decls_of c) _ its tr n L Hr Hin Hp HL).
Qed.

Theorem cycle_rejected_ent_s : cyclic_doc c ->
  exists pos, parse (E.render c) opt = Err (EntityReferenceLoop pos).
Proof. intros Hc. apply (depth_exceeded_rejected_ent_s 11 ltac:(lia)). apply cyclic_deep; [exact Hc|lia]. Qed.

Theorem budget_exceeded_rejected_ent_s : over_budget_doc c ->
  exists pos, parse (E.render c) opt = Err (EntityReferenceLoop pos).
Proof.
  intros (n & Hin & Hc). destruct (ginline_root c cT tr Hinl) as [its Hr].
  apply (limits_rejected_ent c opt cT tr); try assumption.
  apply (budget_limits (decls_of c) _ its tr n Hr Hin Hc).
Qed.

End Clauses.

Theorem cycle_rejected_ent : forall (c : E.doc) (opt : options) (cT : T.doc) (tr : list Detector.lop),
  wf_syntax c = true -> ginline c = Some (cT, tr) ->
  E.provisos_item (T.d_root cT) = true ->
  allow_dtd opt = true ->
  N.of_nat (length (T.sem cT)) < nodes_limit opt ->
  N.of_nat (length (T.sem cT)) < u32_max ->
  N.of_nat (tdoc_nattrs cT) < u32_max ->
  cyclic_doc c ->
  exists pos, parse (E.render c) opt = Err (EntityReferenceLoop pos).
Proof. intros. eapply cycle_rejected_ent_s; eassumption. Qed.

Theorem depth_exceeded_rejected_ent : forall (c : E.doc) (opt : options) (cT : T.doc) (tr : list Detector.lop) (L : nat),
  wf_syntax c = true -> ginline c = Some (cT, tr) ->
  E.provisos_item (T.d_root cT) = true ->
  allow_dtd opt = true ->
  N.of_nat (length (T.sem cT)) < nodes_limit opt ->
  N.of_nat (length (T.sem cT)) < u32_max ->
  N.of_nat (tdoc_nattrs cT) < u32_max ->
  (11 <= L)%nat -> deep_doc c L ->
  exists pos, parse (E.render c) opt = Err (EntityReferenceLoop pos).
Proof. intros. eapply depth_exceeded_rejected_ent_s; eassumption. Qed.

Theorem budget_exceeded_rejected_ent : forall (c : E.doc) (opt : options) (cT : T.doc) (tr : list Detector.lop),
  wf_syntax c = true -> ginline c = Some (cT, tr) ->
  E.provisos_item (T.d_root cT) = true ->
  allow_dtd opt = true ->
  N.of_nat (length (T.sem cT)) < nodes_limit opt ->
  N.of_nat (length (T.sem cT)) < u32_max ->
  N.of_nat (tdoc_nattrs cT) < u32_max ->
  over_budget_doc c ->
  exists pos, parse (E.render c) opt = Err (EntityReferenceLoop pos).
Proof. intros. eapply budget_exceeded_rejected_ent_s; eassumption. Qed.

Print Assumptions limits_rejected_ent.
Print Assumptions limits_decide_ent.
Print Assumptions cycle_rejected_ent.
Print Assumptions depth_exceeded_rejected_ent.
Print Assumptions budget_exceeded_rejected_ent.
