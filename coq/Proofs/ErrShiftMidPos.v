(* Proofs/ErrShiftMidPos.v -- C14 (whitespace inserted inside the prolog), part 4: positions.
   The (row, column) of an offset of A ++ T that lies in T is a function [pos_app A] of its
   (row, column) in T; what k spaces / k line breaks at the end of A do to [pos_app A]. *)
From Coq Require Import List Arith NArith Bool Lia ZifyBool ZifyN ZifyNat.
Import ListNotations.
From RX Require Import Generated.
From RX.Model Require Import Base CharClass Stream.
From RX.Proofs Require Import PositionProofs.
Open Scope N_scope.

Definition pos_app (A : bytes) (tp : textpos) : textpos :=
  (count_byte 10 A + fst tp,
   if fst tp =? 1 then char_count (after_last_lf A) + snd tp else snd tp).

Lemma after_last_lf_app : forall a l,
  after_last_lf (a ++ l) = if count_byte 10 l =? 0 then after_last_lf a ++ l else after_last_lf l.
Proof.
  induction a as [|x a IH]; intros l.
  - cbn [app]. destruct (count_byte 10 l =? 0) eqn:E; [|reflexivity].
    rewrite after_last_lf_nolf by lia. reflexivity.
  - cbn [app]. rewrite !after_last_lf_cons, IH, count_byte_app.
    destruct (x =? 10); [reflexivity|].
    destruct (count_byte 10 l =? 0) eqn:El.
    + assert (count_byte 10 l = 0) as -> by lia. rewrite N.add_0_r.
      destruct (count_byte 10 a =? 0); reflexivity.
    + destruct (count_byte 10 a + count_byte 10 l =? 0) eqn:E2; [lia|]. reflexivity.
Qed.

Lemma text_pos_at_concat : forall A T q r c,
  q <= tlen T -> is_boundary T q = true -> (q = 0 -> head_ok T) ->
  text_pos_at T q = Ok (r, c) ->
  text_pos_at (A ++ T) (blen A + q) = Ok (pos_app A (r, c)).
Proof.
  intros A T q r c Hle Hb Hh H.
  rewrite text_pos_on_boundary in H by assumption. inversion H; subst r c; clear H.
  rewrite text_pos_at_app by assumption. unfold pos_app. cbn [fst snd].
  rewrite count_byte_app, after_last_lf_app.
  set (l := firstn (N.to_nat q) T).
  destruct (count_byte 10 l =? 0) eqn:E.
  - assert (E' : count_byte 10 l = 0) by lia. rewrite E'.
    change (1 + 0 =? 1) with true. cbv iota.
    rewrite (after_last_lf_nolf l E'), char_count_app. f_equal. f_equal; lia.
  - destruct (1 + count_byte 10 l =? 1) eqn:E2; [lia|]. f_equal. f_equal. lia.
Qed.

(* ---- k spaces / k line breaks at the end of the prefix ---- *)
Lemma pos_app_spaces A k tp :
  pos_app (A ++ repeat 32 k) tp =
  (fst (pos_app A tp), if fst tp =? 1 then N.of_nat k + snd (pos_app A tp) else snd (pos_app A tp)).
Proof.
  unfold pos_app. cbn [fst snd].
  rewrite count_byte_app, count_byte_repeat_other by discriminate. rewrite N.add_0_r.
  rewrite after_last_lf_app, count_byte_repeat_other by discriminate. change (0 =? 0) with true. cbv iota.
  rewrite char_count_app, char_count_repeat_noncont by reflexivity.
  destruct (fst tp =? 1); f_equal; lia.
Qed.

Lemma pos_app_lines A k tp : (0 < k)%nat ->
  pos_app (A ++ repeat 10 k) tp =
  (N.of_nat k + fst (pos_app A tp), snd tp).
Proof.
  intros Hk. unfold pos_app. cbn [fst snd].
  rewrite count_byte_app, count_byte_repeat_same.
  rewrite after_last_lf_app, count_byte_repeat_same.
  destruct (N.of_nat k =? 0) eqn:E; [lia|].
  replace (repeat 10 k) with (repeat 10 k ++ []) by apply app_nil_r.
  rewrite after_last_lf_repeat_lf. change (char_count (after_last_lf [])) with 0.
  destruct (fst tp =? 1); f_equal; lia.
Qed.

(* the row of the insertion point itself *)
Lemma pos_app_row_here A tp : fst (pos_app A tp) = count_byte 10 A + fst tp.
Proof. reflexivity. Qed.
