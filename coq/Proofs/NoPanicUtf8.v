(* Proofs/NoPanicUtf8.v -- facts about valid UTF-8 byte strings used by the no-panic proofs:
   a valid string is a concatenation of well-formed encoded chars; char boundaries are exactly
   the starts of those chars; at a boundary [decode1] succeeds and lands on the next boundary. *)
From Coq Require Import List Arith NArith ZArith Bool Lia ZifyBool ZifyN ZifyNat.
Import ListNotations.
From RX.Model Require Import Base.
Open Scope N_scope.

Definition ascii (x : N) : bool := x <? 128.

Lemma ascii_not_cont x : ascii x = true -> is_cont x = false.
Proof. unfold ascii, is_cont. lia. Qed.

(* ---------------------------------------------------------------------------------------- *)
(* list helpers                                                                             *)
(* ---------------------------------------------------------------------------------------- *)

Lemma skipn_len_app {A} (a r : list A) : skipn (length a) (a ++ r) = r.
Proof. induction a; cbn; auto. Qed.

Lemma firstn_len_app {A} (a r : list A) : firstn (length a) (a ++ r) = a.
Proof. induction a; cbn; auto. f_equal; auto. Qed.

Lemma nth_error_len_app {A} (a r : list A) q : nth_error (a ++ r) (length a + q) = nth_error r q.
Proof. induction a; cbn; auto. Qed.

Lemma skipn_skipn' {A} (a c : nat) (l : list A) : skipn a (skipn c l) = skipn (c + a) l.
Proof. revert l; induction c; intros l; cbn; auto. destruct l; cbn; auto. destruct a; reflexivity. Qed.

Lemma skipn_nth_error {A} (p : nat) (l : list A) x r :
  skipn p l = x :: r -> nth_error l p = Some x.
Proof. revert l; induction p; intros [|y l] H; cbn in *; try discriminate; auto. congruence. Qed.

Lemma skipn_S_tail {A} (p : nat) (l : list A) x r :
  skipn p l = x :: r -> skipn (S p) l = r.
Proof. revert l; induction p; intros [|y l] H; cbn in *; try discriminate; auto. congruence. Qed.

Lemma skipn_app_split {A} (p : nat) (l : list A) : l = firstn p l ++ skipn p l.
Proof. symmetry; apply firstn_skipn. Qed.

Lemma skipn_length_lt {A} (p : nat) (l : list A) : (p < length l)%nat -> skipn p l <> [].
Proof. revert l; induction p; intros [|y l] H; cbn in *; try lia; try discriminate. apply IHp; lia. Qed.

Lemma skipn_add_app {A} (p : nat) (l : list A) a r :
  skipn p l = a ++ r -> skipn (p + length a) l = r.
Proof. intros H. rewrite <- skipn_skipn', H. apply skipn_len_app. Qed.

(* ---------------------------------------------------------------------------------------- *)
(* one encoded char                                                                         *)
(* ---------------------------------------------------------------------------------------- *)

Lemma decode1_struct l c n : decode1 l = Some (c, n) ->
  exists x cs r, l = x :: cs ++ r /\ is_cont x = false /\ forallb is_cont cs = true /\
    (length cs <= 3)%nat /\ n = N.of_nat (S (length cs)) /\
    forall r', decode1 (x :: cs ++ r') = Some (c, n).
Proof.
  destruct l as [|b0 r]; [discriminate|]. unfold decode1.
  destruct (b0 <? 128) eqn:E1.
  { intros H; inversion H; subst. exists c, [], r. cbn [app length forallb].
    rewrite E1. repeat split; auto. unfold is_cont; lia. }
  destruct (b0 <? 192) eqn:E2; [discriminate|].
  assert (C0 : is_cont b0 = false) by (unfold is_cont; lia).
  destruct (b0 <? 224) eqn:E3.
  { destruct r as [|b1 r]; [discriminate|]. destruct (is_cont b1) eqn:C1; [|discriminate].
    intros H; inversion H; subst. exists b0, [b1], r. cbn [app length forallb].
    rewrite E1, E2, E3, C1. repeat split; auto. }
  destruct (b0 <? 240) eqn:E4.
  { destruct r as [|b1 [|b2 r]]; try discriminate.
    destruct (is_cont b1) eqn:C1; [|discriminate]. destruct (is_cont b2) eqn:C2; [|discriminate].
    cbn [andb]. intros H; inversion H; subst. exists b0, [b1; b2], r. cbn [app length forallb].
    rewrite E1, E2, E3, E4, C1, C2. repeat split; auto. }
  destruct (b0 <? 248) eqn:E5; [|discriminate].
  destruct r as [|b1 [|b2 [|b3 r]]]; try discriminate.
  destruct (is_cont b1) eqn:C1; [|discriminate]. destruct (is_cont b2) eqn:C2; [|discriminate].
  destruct (is_cont b3) eqn:C3; [|discriminate].
  cbn [andb]. intros H; inversion H; subst. exists b0, [b1; b2; b3], r. cbn [app length forallb].
  rewrite E1, E2, E3, E4, E5, C1, C2, C3. repeat split; auto.
Qed.

Lemma bytes_eqb_eq : forall x y, bytes_eqb x y = true -> x = y.
Proof.
  induction x as [|a x IH]; intros [|c y] H; cbn in H; try discriminate; auto.
  apply andb_true_iff in H as [H1 H2]. f_equal; [lia|auto].
Qed.

Lemma bytes_eqb_refl : forall x, bytes_eqb x x = true.
Proof. induction x; cbn; auto. rewrite IHx. assert (a =? a = true) as -> by lia. reflexivity. Qed.

Lemma decode1_ascii x r : ascii x = true -> decode1 (x :: r) = Some (x, 1).
Proof. unfold ascii, decode1. intros ->. reflexivity. Qed.

(* ---------------------------------------------------------------------------------------- *)
(* well-formed = concatenation of encoded chars                                             *)
(* ---------------------------------------------------------------------------------------- *)

Inductive WF : bytes -> Prop :=
| WF_nil : WF []
| WF_char : forall x cs r c n,
    is_cont x = false -> forallb is_cont cs = true -> (length cs <= 3)%nat ->
    n = N.of_nat (S (length cs)) ->
    (forall r', decode1 (x :: cs ++ r') = Some (c, n)) ->
    is_scalar c = true -> encode_utf8 c = x :: cs ->
    WF r -> WF (x :: cs ++ r).

Lemma valid_fuel_WF : forall f l, valid_utf8_fuel f l = true -> WF l.
Proof.
  induction f; intros l H; [discriminate|]. cbn [valid_utf8_fuel] in H.
  destruct l as [|y l']; [constructor|]. remember (y :: l') as l.
  destruct (decode1 l) as [[c n]|] eqn:D; [|discriminate].
  apply andb_true_iff in H as [H0 H]. apply andb_true_iff in H0 as [Hsc Henc].
  destruct (decode1_struct _ _ _ D) as (x & cs & r & El & Hx & Hcs & Hlen & Hn & Hd).
  rewrite El in *. rewrite Hn, Nat2N.id in H, Henc.
  change (x :: cs ++ r) with ((x :: cs) ++ r) in H, Henc.
  change (S (length cs)) with (length (x :: cs)) in H, Henc.
  rewrite skipn_len_app in H. rewrite firstn_len_app in Henc. apply bytes_eqb_eq in Henc.
  eapply WF_char; eauto.
Qed.

Lemma valid_WF l : valid_utf8_b l = true -> WF l.
Proof. apply valid_fuel_WF. Qed.

Lemma WF_head_noncont x r : WF (x :: r) -> is_cont x = false.
Proof. intros H; inversion H; subst; auto. Qed.

(* ---------------------------------------------------------------------------------------- *)
(* boundaries, on unary positions                                                           *)
(* ---------------------------------------------------------------------------------------- *)

Definition bnd (l : bytes) (p : nat) : bool :=
  match p with
  | O => true
  | S _ => match nth_error l p with
           | None => Nat.eqb p (length l)
           | Some x => negb (is_cont x)
           end
  end.

Lemma is_boundary_bnd t p : is_boundary t p = bnd t (N.to_nat p).
Proof.
  unfold is_boundary, bnd. destruct (p =? 0) eqn:E.
  - assert (p = 0) by lia. subst. reflexivity.
  - destruct (N.to_nat p) eqn:En; [lia|]. rewrite <- En.
    destruct (nth_error t (N.to_nat p)); auto.
    unfold blen. destruct (p =? N.of_nat (length t)) eqn:E1;
      destruct (Nat.eqb (N.to_nat p) (length t)) eqn:E2; auto; lia.
Qed.

Lemma bnd_len l : bnd l (length l) = true.
Proof.
  unfold bnd. destruct (length l) eqn:E; auto. rewrite <- E.
  assert (nth_error l (length l) = None) as -> by (apply nth_error_None; lia).
  apply Nat.eqb_refl.
Qed.

Lemma bnd_le l p : bnd l p = true -> (p <= length l)%nat.
Proof.
  unfold bnd. destruct p; [lia|]. destruct (nth_error l (S p)) eqn:E.
  - intros _. assert (S p < length l)%nat by (apply nth_error_Some; congruence). lia.
  - intros H. apply Nat.eqb_eq in H. lia.
Qed.

Lemma bnd_noncont l p x : nth_error l p = Some x -> is_cont x = false -> bnd l p = true.
Proof. unfold bnd. destruct p; auto. intros -> ->. reflexivity. Qed.

Lemma bnd_shift x cs r q : WF r -> bnd (x :: cs ++ r) (S (length cs) + q) = bnd r q.
Proof.
  intros Hr. unfold bnd at 1. cbn [plus nth_error]. rewrite nth_error_len_app.
  destruct q as [|q].
  - cbn [bnd]. destruct r as [|y r']; cbn [nth_error].
    + cbn [length]. rewrite app_nil_r. apply Nat.eqb_eq. lia.
    + rewrite (WF_head_noncont _ _ Hr). reflexivity.
  - unfold bnd. destruct (nth_error r (S q)); auto.
    cbn [length]. rewrite app_length.
    destruct (Nat.eqb (S (length cs + S q)) (S (length cs + length r))) eqn:E1;
      destruct (Nat.eqb (S q) (length r)) eqn:E2; auto; lia.
Qed.

Lemma bnd_inside x cs r i :
  forallb is_cont cs = true -> (1 <= i <= length cs)%nat -> bnd (x :: cs ++ r) i = false.
Proof.
  intros Hcs Hi. destruct i as [|i]; [lia|]. unfold bnd. cbn [nth_error].
  rewrite nth_error_app1 by lia.
  destruct (nth_error cs i) eqn:E.
  - apply nth_error_In in E. rewrite forallb_forall in Hcs. rewrite (Hcs _ E). reflexivity.
  - apply nth_error_None in E. lia.
Qed.

(* the char that starts at a boundary *)
Lemma WF_char_at l : WF l -> forall p, (p < length l)%nat -> bnd l p = true ->
  exists x cs r c n,
    skipn p l = x :: cs ++ r /\ (length cs <= 3)%nat /\ n = N.of_nat (S (length cs)) /\
    is_cont x = false /\
    (forall r', decode1 (x :: cs ++ r') = Some (c, n)) /\
    bnd l (p + S (length cs)) = true /\
    (forall q, (p < q < p + S (length cs))%nat -> bnd l q = false) /\
    is_scalar c = true /\ encode_utf8 c = x :: cs.
Proof.
  induction 1 as [|x cs r c n Hx Hcs Hlen Hn Hd Hsc Henc Hr IH]; intros p Hp Hb.
  { cbn in Hp; lia. }
  destruct (Nat.eq_dec p 0) as [->|Hp0].
  { exists x, cs, r, c, n. cbn [skipn]. repeat split; auto.
    - replace (0 + S (length cs))%nat with (S (length cs) + 0)%nat by lia.
      rewrite bnd_shift by auto. reflexivity.
    - intros q Hq. apply bnd_inside; auto; lia. }
  destruct (Nat.le_gt_cases p (length cs)) as [Hle|Hgt].
  { rewrite bnd_inside in Hb by (auto; lia). discriminate. }
  cbn [length] in Hp. rewrite app_length in Hp.
  remember (p - S (length cs))%nat as q eqn:Eq.
  assert (Ep : p = (S (length cs) + q)%nat) by lia. subst p.
  rewrite bnd_shift in Hb by auto.
  destruct (IH q ltac:(lia) Hb) as (x' & cs' & r' & c' & n' & Hs & Hl' & Hn' & Hx' & Hd' & Hb' & Hin & Hsc' & Henc').
  exists x', cs', r', c', n'. repeat split; auto.
  - change (x :: cs ++ r) with ((x :: cs) ++ r).
    change (S (length cs)) with (length (x :: cs)).
    rewrite <- skipn_skipn', skipn_len_app. exact Hs.
  - rewrite <- Nat.add_assoc. rewrite bnd_shift by auto. exact Hb'.
  - intros q' Hq'. replace q' with (S (length cs) + (q' - S (length cs)))%nat by lia.
    rewrite bnd_shift by auto. apply Hin. lia.
Qed.

(* a boundary at most three bytes back *)
Lemma WF_floor l : WF l -> forall p, (p <= length l)%nat ->
  exists k, (k <= 3 /\ k <= p)%nat /\ bnd l (p - k) = true.
Proof.
  induction 1 as [|x cs r c n Hx Hcs Hlen Hn Hd Hsc Henc Hr IH]; intros p Hp.
  { exists 0%nat. cbn in Hp. assert (p = 0)%nat by lia. subst. split; [lia|reflexivity]. }
  destruct (Nat.le_gt_cases p (length cs)) as [Hle|Hgt].
  { exists p. split; [lia|]. rewrite Nat.sub_diag. reflexivity. }
  cbn [length] in Hp. rewrite app_length in Hp.
  destruct (IH (p - S (length cs))%nat ltac:(lia)) as (k & Hk & Hb).
  exists k. split; [lia|].
  replace (p - k)%nat with (S (length cs) + (p - S (length cs) - k))%nat by lia.
  rewrite bnd_shift by auto. exact Hb.
Qed.

(* ---------------------------------------------------------------------------------------- *)
(* the same on binary positions, for a fixed valid text                                     *)
(* ---------------------------------------------------------------------------------------- *)


(* ---------------------------------------------------------------------------------------- *)
(* strict validity as an inductive predicate: concatenation of canonical encodings          *)
(* ---------------------------------------------------------------------------------------- *)

Ltac Zify.zify_post_hook ::= Z.div_mod_to_equations.

Lemma decode1_encode c r : is_scalar c = true ->
  decode1 (encode_utf8 c ++ r) = Some (c, blen (encode_utf8 c)).
Proof.
  unfold is_scalar, encode_utf8. intros Hs.
  destruct (c <? 128) eqn:E1.
  { cbn [app]. unfold decode1. rewrite E1. reflexivity. }
  destruct (c <? 2048) eqn:E2.
  { cbn [app]. unfold decode1.
    assert ((192 + c / 64 <? 128) = false) as -> by lia.
    assert ((192 + c / 64 <? 192) = false) as -> by lia.
    assert ((192 + c / 64 <? 224) = true) as -> by lia.
    assert (is_cont (128 + c mod 64) = true) as -> by (unfold is_cont; lia).
    f_equal. f_equal. lia. }
  destruct (c <? 65536) eqn:E3.
  { cbn [app]. unfold decode1.
    assert ((224 + c / 4096 <? 128) = false) as -> by lia.
    assert ((224 + c / 4096 <? 192) = false) as -> by lia.
    assert ((224 + c / 4096 <? 224) = false) as -> by lia.
    assert ((224 + c / 4096 <? 240) = true) as -> by lia.
    assert (is_cont (128 + (c / 64) mod 64) = true) as -> by (unfold is_cont; lia).
    assert (is_cont (128 + c mod 64) = true) as -> by (unfold is_cont; lia).
    cbn [andb]. f_equal. f_equal. lia. }
  cbn [app]. unfold decode1.
  assert ((240 + c / 262144 <? 128) = false) as -> by lia.
  assert ((240 + c / 262144 <? 192) = false) as -> by lia.
  assert ((240 + c / 262144 <? 224) = false) as -> by lia.
  assert ((240 + c / 262144 <? 240) = false) as -> by lia.
  assert ((240 + c / 262144 <? 248) = true) as -> by lia.
  assert (is_cont (128 + (c / 4096) mod 64) = true) as -> by (unfold is_cont; lia).
  assert (is_cont (128 + (c / 64) mod 64) = true) as -> by (unfold is_cont; lia).
  assert (is_cont (128 + c mod 64) = true) as -> by (unfold is_cont; lia).
  cbn [andb]. f_equal. f_equal. lia.
Qed.

(* the bytes of a char above U+007F are all >= 128 *)
Lemma encode_high c : (c <? 128) = false -> forallb (fun x => 128 <=? x) (encode_utf8 c) = true.
Proof.
  intros E1. unfold encode_utf8. rewrite E1.
  destruct (c <? 2048); [|destruct (c <? 65536)]; cbn [forallb]; repeat (apply andb_true_iff; split); auto; lia.
Qed.

Ltac Zify.zify_post_hook ::= idtac.

Lemma encode_ascii c : (c <? 128) = true -> encode_utf8 c = [c].
Proof. unfold encode_utf8. intros ->. reflexivity. Qed.

Lemma encode_nonempty c : (1 <= length (encode_utf8 c))%nat.
Proof.
  unfold encode_utf8. destruct (c <? 128); [|destruct (c <? 2048); [|destruct (c <? 65536)]]; cbn; lia.
Qed.

Inductive Valid : bytes -> Prop :=
| Valid_nil : Valid []
| Valid_char : forall c r, is_scalar c = true -> Valid r -> Valid (encode_utf8 c ++ r).

Lemma Valid_app a r : Valid a -> Valid r -> Valid (a ++ r).
Proof. induction 1; cbn [app]; auto. rewrite <- app_assoc. constructor; auto. Qed.

Lemma Valid_encode c : is_scalar c = true -> Valid (encode_utf8 c).
Proof. intros H. rewrite <- (app_nil_r (encode_utf8 c)). constructor; auto. constructor. Qed.

Lemma Valid_ascii x : ascii x = true -> Valid [x].
Proof.
  intros H. unfold ascii in H. rewrite <- (encode_ascii x H). apply Valid_encode.
  unfold is_scalar. lia.
Qed.

Lemma valid_fuel_Valid : forall f l, valid_utf8_fuel f l = true -> Valid l.
Proof.
  induction f; intros l H; [discriminate|]. cbn [valid_utf8_fuel] in H.
  destruct l as [|y l']; [constructor|]. remember (y :: l') as l.
  destruct (decode1 l) as [[c n]|] eqn:D; [|discriminate].
  apply andb_true_iff in H as [H0 H]. apply andb_true_iff in H0 as [Hsc Henc].
  apply bytes_eqb_eq in Henc.
  rewrite <- (firstn_skipn (N.to_nat n) l), <- Henc. constructor; auto.
Qed.

Lemma Valid_valid_fuel l : Valid l -> forall f, (length l < f)%nat -> valid_utf8_fuel f l = true.
Proof.
  induction 1 as [|c r Hsc Hr IH]; intros f Hf.
  { destruct f; [lia|reflexivity]. }
  destruct f as [|f]; [lia|]. cbn [valid_utf8_fuel].
  pose proof (encode_nonempty c) as Hne. rewrite app_length in Hf.
  destruct (encode_utf8 c ++ r) as [|y l'] eqn:El; [reflexivity|]. rewrite <- El.
  rewrite decode1_encode by auto. rewrite Hsc. unfold blen. rewrite Nat2N.id.
  rewrite firstn_len_app, skipn_len_app, bytes_eqb_refl. cbn [andb]. apply IH. lia.
Qed.

Lemma valid_iff_Valid l : valid_utf8_b l = true <-> Valid l.
Proof.
  split; [apply valid_fuel_Valid|]. intros H. apply Valid_valid_fuel; auto.
Qed.

Section Valid.
Variable text : bytes.

Definition Boundary (p : N) : Prop := is_boundary text p = true /\ p <= blen text.

Lemma is_boundary_le p : is_boundary text p = true -> p <= blen text.
Proof. rewrite is_boundary_bnd. intros H. apply bnd_le in H. unfold blen. lia. Qed.

Lemma Boundary_of p : is_boundary text p = true -> Boundary p.
Proof. intros H; split; auto. apply is_boundary_le; auto. Qed.

Lemma Boundary_0 : Boundary 0.
Proof. split; [reflexivity|lia]. Qed.

Lemma Boundary_len : Boundary (blen text).
Proof.
  apply Boundary_of. rewrite is_boundary_bnd. unfold blen. rewrite Nat2N.id. apply bnd_len.
Qed.

(* a non-continuation byte sits at a boundary *)
Lemma Boundary_noncont p x r :
  skipn (N.to_nat p) text = x :: r -> is_cont x = false -> Boundary p.
Proof.
  intros Hs Hx. apply Boundary_of. rewrite is_boundary_bnd.
  eapply bnd_noncont; eauto. eapply skipn_nth_error; eauto.
Qed.

Lemma sub_split a m e : a <= m -> m <= e -> sub text a e = sub text a m ++ sub text m e.
Proof.
  intros H1 H2. unfold sub.
  replace (N.to_nat (e - a)) with (N.to_nat (m - a) + N.to_nat (e - m))%nat by lia.
  rewrite <- (firstn_skipn (N.to_nat (m - a)) (firstn (N.to_nat (m - a) + N.to_nat (e - m)) (skipn (N.to_nat a) text))).
  rewrite firstn_firstn. replace (Nat.min (N.to_nat (m - a)) (N.to_nat (m - a) + N.to_nat (e - m))) with (N.to_nat (m - a)) by lia.
  f_equal. rewrite skipn_firstn_comm, skipn_skipn'. f_equal; [lia|f_equal; lia].
Qed.

Lemma sub_nil a : sub text a a = [].
Proof. unfold sub. rewrite N.sub_diag. reflexivity. Qed.

(* from here on the text is valid UTF-8 *)
Hypothesis Hvalid : valid_utf8_b text = true.

Lemma text_WF : WF text.
Proof. apply valid_WF, Hvalid. Qed.

Lemma char_at p : Boundary p -> p < blen text ->
  exists c n,
    decode1 (skipn (N.to_nat p) text) = Some (c, n) /\
    1 <= n <= 4 /\ p + n <= blen text /\ Boundary (p + n) /\
    (forall q, p < q < p + n -> is_boundary text q = false) /\
    (forall m, (N.to_nat n <= m)%nat ->
       decode1 (firstn m (skipn (N.to_nat p) text)) = Some (c, n)) /\
    is_scalar c = true /\ firstn (N.to_nat n) (skipn (N.to_nat p) text) = encode_utf8 c.
Proof.
  intros [Hb _] Hp. rewrite is_boundary_bnd in Hb.
  destruct (WF_char_at text text_WF (N.to_nat p) ltac:(unfold blen in Hp; lia) Hb)
    as (x & cs & r & c & n & Hs & Hl & Hn & Hx & Hd & Hb' & Hin & Hsc & Henc).
  exists c, n.
  assert (Hb'' : is_boundary text (p + n) = true).
  { rewrite is_boundary_bnd. replace (N.to_nat (p + n)) with (N.to_nat p + S (length cs))%nat by lia.
    exact Hb'. }
  split; [rewrite Hs; apply Hd|]. split; [lia|]. split; [apply is_boundary_le; auto|].
  split; [apply Boundary_of; auto|]. split; [|split; [|split; [exact Hsc|]]].
  - intros q Hq. rewrite is_boundary_bnd. apply Hin. lia.
  - intros m Hm. rewrite Hs.
    change (x :: cs ++ r) with ((x :: cs) ++ r).
    rewrite firstn_app. rewrite firstn_all2 by (cbn [length]; lia).
    cbn [app]. apply Hd.
  - rewrite Hs, Henc. change (x :: cs ++ r) with ((x :: cs) ++ r).
    replace (N.to_nat n) with (length (x :: cs)) by (cbn [length]; lia).
    apply firstn_len_app.
Qed.

(* an ASCII byte at a boundary is a whole char *)
Lemma Boundary_ascii_step p x r :
  Boundary p -> skipn (N.to_nat p) text = x :: r -> ascii x = true -> Boundary (p + 1).
Proof.
  intros Hb Hs Hx.
  assert (Hp : p < blen text).
  { unfold blen. assert (N.to_nat p < length text)%nat; [|lia].
    destruct (Nat.lt_ge_cases (N.to_nat p) (length text)); auto.
    rewrite skipn_all2 in Hs by lia. discriminate. }
  destruct (char_at p Hb Hp) as (c & n & Hd & _ & _ & Hb' & _).
  rewrite Hs, decode1_ascii in Hd by auto. inversion Hd; subst. exact Hb'.
Qed.

(* a run of ASCII bytes from a boundary ends at a boundary *)
Lemma Boundary_ascii_run : forall a p r,
  Boundary p -> skipn (N.to_nat p) text = a ++ r -> forallb ascii a = true ->
  Boundary (p + N.of_nat (length a)).
Proof.
  induction a as [|x a IH]; intros p r Hb Hs Ha.
  - cbn [length]. replace (p + N.of_nat 0) with p by lia. exact Hb.
  - cbn [forallb] in Ha. apply andb_true_iff in Ha as [Hx Ha]. cbn [app] in Hs.
    pose proof (Boundary_ascii_step p x _ Hb Hs Hx) as Hb1.
    replace (p + N.of_nat (length (x :: a))) with (p + 1 + N.of_nat (length a))
      by (cbn [length]; lia).
    apply (IH (p + 1) r Hb1); auto.
    replace (N.to_nat (p + 1)) with (S (N.to_nat p)) by lia.
    eapply skipn_S_tail; eauto.
Qed.

(* floor: one of p, p-1, p-2, p-3 is a boundary *)
Lemma floor_exists p : p <= blen text ->
  exists k, k <= 3 /\ k <= p /\ Boundary (p - k).
Proof.
  intros Hp. destruct (WF_floor text text_WF (N.to_nat p) ltac:(unfold blen in Hp; lia))
    as (k & Hk & Hb).
  exists (N.of_nat k). split; [lia|]. split; [lia|]. apply Boundary_of.
  rewrite is_boundary_bnd. replace (N.to_nat (p - N.of_nat k)) with (N.to_nat p - k)%nat by lia.
  exact Hb.
Qed.


(* two boundaries a < e: the char at a ends at or before e *)
Lemma char_step a e : Boundary a -> Boundary e -> a < e ->
  exists c n, decode1 (skipn (N.to_nat a) text) = Some (c, n) /\ 1 <= n /\ a + n <= e /\
    Boundary (a + n) /\
    (forall m, (N.to_nat n <= m)%nat -> decode1 (firstn m (skipn (N.to_nat a) text)) = Some (c, n)) /\
    is_scalar c = true /\ firstn (N.to_nat n) (skipn (N.to_nat a) text) = encode_utf8 c.
Proof.
  intros Ha He Hae. pose proof (proj2 He) as Hel.
  destruct (char_at a Ha ltac:(lia)) as (c & n & Hd & Hn & _ & Hb & Hin & Hf & Hsc & Henc).
  exists c, n. repeat split; auto; try lia; try apply Hb.
  destruct (N.le_gt_cases (a + n) e) as [|Hlt]; auto.
  destruct He as [He1 _]. rewrite (Hin e ltac:(lia)) in He1. discriminate.
Qed.

(* a slice of the text between two boundaries is valid UTF-8 *)
Lemma Valid_sub : forall k a e, Boundary a -> Boundary e -> a <= e ->
  (N.to_nat (e - a) <= k)%nat -> Valid (sub text a e).
Proof.
  induction k; intros a e Ha He Hae Hk.
  { assert (a = e) by lia. subst. rewrite sub_nil. constructor. }
  destruct (N.eq_dec a e) as [->|Hne]. { rewrite sub_nil. constructor. }
  destruct (char_step a e Ha He ltac:(lia)) as (c & n & _ & Hn & Hle & Hb & _ & Hsc & Henc).
  rewrite (sub_split a (a + n) e) by lia.
  assert (E : sub text a (a + n) = encode_utf8 c).
  { unfold sub. replace (a + n - a) with n by lia. exact Henc. }
  rewrite E. constructor; auto. apply IHk; auto. lia.
Qed.

Lemma Valid_sub' a e : Boundary a -> Boundary e -> a <= e -> Valid (sub text a e).
Proof. intros. eapply Valid_sub; eauto. Qed.

End Valid.
