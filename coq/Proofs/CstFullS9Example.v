(* Proofs/CstFullS9Example.v -- the theorems of Proofs/CstFullS9Main.v are not vacuous, and stage S9 is strictly wider
   than stage S8: the sample document ex9 of Proofs/CstFullS9Sanity.v -- <!ENTITY a:b "x">, entities "ab" and ":ab"
   (three different entities), "u:" = "urn:&a:b;" (nested) used as the URI of xmlns:p, a name U+540D::U+540D nested
   twice, a MARKUP entity "m:k:" whose attribute value refers to "a:b" and "ab"; references in character data, in an
   attribute value and in a namespace URI; DOCTYPE name p:r -- satisfies the hypotheses of
   [parse_render_sem_full_s9_api] and is not a document of S8. *)
From Coq Require Import Ascii String.
From Coq Require Import List NArith Bool Lia.
Import ListNotations.
From RX Require Import Generated.
From RX.Model Require Import Base Stream Tokenizer Doc Builder Parse.
From RX.Spec Require CstNs CstU.
From RX.Spec Require Import CstFull CstFullS6 CstFullS7 CstFullS8 CstFullS9.
From RX.Proofs Require Import CstNsView CstFullMain CstFullS6Sanity CstFullS8Sanity CstFullS9Sanity CstFullS9Main.
From RX.Proofs Require ApiView.
Open Scope N_scope.

Definition optx := {| allow_dtd := true; nodes_limit := default_nodes_limit |}.

Theorem s9_wider : S9.wf_doc ex9 = true /\ S8.wf_doc ex9 = false.
Proof. split; vm_compute; reflexivity. Qed.

Example ex9_parses : exists x, parse (S9.render ex9) optx = Ok x /\ ApiView.api_view (S9.render ex9) x = Some (S9.sem ex9).
Proof.
  apply parse_render_sem_full_s9_api.
  - vm_compute. reflexivity.
  - reflexivity.
  - vm_compute. intros H. discriminate H.
  - vm_compute. reflexivity.
  - vm_compute. reflexivity.
  - vm_compute. reflexivity.
  - unfold S9.distinct_decls_le, S6.distinct_decls_le, X4.S4.distinct_decls_le.
    match goal with |- match ?x with _ => _ end => let y := eval vm_compute in x in change x with y end.
    apply distinct_by_count.
    match goal with |- (length ?l <= _)%nat => let n := eval vm_compute in (length l) in change (length l) with n end. lia.
  - vm_compute. intros H. discriminate H.
Qed.

Print Assumptions s9_wider.
Print Assumptions ex9_parses.
