(* Proofs/CstSound6a.v -- C08 soundness on stage S6 (Spec/CstFullS6.v), markup-valued entities REFERENCED
   from the body: the fragment [in_fragment_6a1] and the statement.
   [in_fragment_6a1 text] is [in_fragment_6a text] (Proofs/CstSound6.v: P0-P7, P8' -- every declared
   literal is a well-formed S6 value, a literal with '<' being checked by the crate's own content
   tokenizer -- and no '&' inside a literal that contains '<') together with
     M  [lits_nomk text] (scan): a literal WITHOUT '<' (character data) contains no "&name;" for a
        name declared with a literal that contains '<' (markup).  So a markup-valued entity is
        referenced from the body only (text of any element, any number of times), never through a
        character-data entity; the general case needs the classification "character data all the way
        down" of the '<'-free literals and is left to [in_fragment_6a]. *)
From Coq Require Import String.
From Coq Require Import List NArith Bool Lia.
Import ListNotations.
From RX Require Import Generated.
From RX.Model Require Import Base CharClass Stream Tokenizer Doc Builder Parse.
From RX.Spec Require Cst Chars CstU CstNs CstText CstEnt Scope.
From RX.Spec Require Import CstFull CstFullS5 CstFullS6.
From RX.Proofs Require Import CstSound CstSoundT CstSoundN CstSoundP CstSound6 CstSound6Sanity CstSound6U.
Open Scope N_scope.

(* [v] mentions no markup-valued entity declared in [text] (unref_decl v s: if the declaration at s has a
   literal with '<', "&name;" does not occur in v) *)
Definition nomk (text v : bytes) : bool := all_suffixes (unref_decl v) text.

(* [s] starts a declaration: if its literal has no '<', it mentions no markup-valued entity *)
Definition lit_nomk (text s : bytes) : bool :=
  if prefix_b (b "<!ENTITY") s then
    let r := skip_ws (skipn 8 s) in
    if is_pe r then true
    else match skip_ws (drop_name r) with
         | q :: v => if (q =? 39) || (q =? 34)
                     then (if mem_b 60 (take_until q v) then true else nomk text (take_until q v)) else true
         | [] => true
         end
  else true.
Definition lits_nomk (text : bytes) : bool := all_suffixes (lit_nomk text) text.
Definition in_fragment_6a1 (text : bytes) : bool := in_fragment_6a text && lits_nomk text.

Definition parse_sound_fragment_6a1_stmt : Prop :=
  forall text opt d, in_fragment_6a1 text = true -> allow_dtd opt = true -> parse text opt = Ok d ->
  exists c : S6.doc, S6.wf_doc c = true /\ S6.render c = text.

(* ---- sanity ---- *)
Definition witness_6a1 (c : S6.doc) : bool := let text := S6.render c in in_fragment_6a1 text && acc6 text && S6.wf_doc c.

Example ex6a1_in : forallb (fun t => in_fragment_6a1 (b t) && acc6 (b t))
  [ "<!DOCTYPE r [<!ENTITY m '<b/>'>]><r>&m;</r>";
    "<!DOCTYPE r [<!ENTITY m '<b>t</b>'>]><r>a&m;b<c>&m;</c>&m;</r>";
    "<!DOCTYPE r [<!ENTITY m '<p:b xmlns:p=""u"" p:a=""1""><!--c--><![CDATA[<]]></p:b>x'><!ENTITY n 'y'><!ENTITY f 'x&n;'>]><r a='&f;'>&f;&m;</r>" ]%string = true.
Proof. vm_compute. reflexivity. Qed.

(* in in_fragment_6a, outside this one: a markup entity referenced from a character-data literal *)
Example ex6a1_out : forallb (fun t => in_fragment_6a (b t) && negb (in_fragment_6a1 (b t)))
  [ "<!DOCTYPE r [<!ENTITY m '<b/>'><!ENTITY f 'x&m;'>]><r>&f;</r>" ]%string = true.
Proof. vm_compute. reflexivity. Qed.

(* rejected by the crate: a markup entity referenced in an attribute value; unbalanced value used *)
Example ex6a1_rej : forallb (fun t => in_fragment_6a1 (b t) && negb (acc6 (b t)))
  [ "<!DOCTYPE r [<!ENTITY m '<b/>'>]><r a='&m;'/>"; "<!DOCTYPE r [<!ENTITY m '<b/>'>]><r xmlns:p='&m;'/>" ]%string = true.
Proof. vm_compute. reflexivity. Qed.
