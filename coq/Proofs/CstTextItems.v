(* Proofs/CstTextItems.v -- C04/C05 on whole documents: parse_content_loop with the real callback
   on the rendering of an item of Spec/CstText.v appends exactly the rows of the item.  The items
   are related to those of Spec/Cst.v by an erasure (decode the text, normalise the values), so
   that the combinatorics of Proofs/CstTree.v and the invariants of Proofs/CstBuild.v are reused. *)
From Coq Require Import Ascii String.
From Coq Require Import List NArith PeanoNat Bool Lia ZifyBool ZifyN ZifyNat.
Import ListNotations.
From RX Require Import Generated.
From RX.Model Require Import Base CharClass Stream Tokenizer Doc Builder Parse.
From RX.Spec Require Cst CstText.
From RX.Spec Require Import Text.
From RX.Proofs Require Import Tactics CstLex CstBuild CstTree CstItems TextMerge CstTextSem CstTextLex CstTextBuild.
Open Scope N_scope.

(* ------------------------------------------------------------------------------------------ *)
(* erasure                                                                                    *)
(* ------------------------------------------------------------------------------------------ *)

Definition erase_attr (a : T.attr) : Cst.attr :=
  {| Cst.a_ws := T.a_ws a; Cst.a_name := T.a_name a; Cst.a_ws1 := T.a_ws1 a; Cst.a_ws2 := T.a_ws2 a;
     Cst.a_quote := T.a_quote a; Cst.a_value := T.value_sem (T.a_value a) |}.

Fixpoint erase (i : T.item) : Cst.item :=
  match i with
  | T.IElem n attrs w body =>
    Cst.IElem n (map erase_attr attrs) w
      (match body with
       | None => None
       | Some (cs, w2) =>
         Some ((fix go (l : list T.item) : list Cst.item := match l with [] => [] | c :: r => erase c :: go r end) cs, w2)
       end)
  | T.IText ps => Cst.IText (T.text_sem ps)
  | T.IComment bs => Cst.IComment bs
  | T.IPI t s v => Cst.IPI t s v
  end.

Lemma erase_elem n attrs w body :
  erase (T.IElem n attrs w body) =
  Cst.IElem n (map erase_attr attrs) w (match body with None => None | Some (cs, w2) => Some (map erase cs, w2) end).
Proof.
  destruct body as [[cs w2]|]; [|reflexivity]. cbn [erase].
  replace ((fix go (l : list T.item) : list Cst.item := match l with [] => [] | c :: r => erase c :: go r end) cs)
    with (map erase cs); [reflexivity|].
  induction cs as [|c r IH]; [reflexivity|]. cbn [map]. rewrite IH. reflexivity.
Qed.

Section TItemInd.
Variable P : T.item -> Prop.
Hypothesis Hempty : forall n a w, P (T.IElem n a w None).
Hypothesis Helem : forall n a w cs w2, Forall P cs -> P (T.IElem n a w (Some (cs, w2))).
Hypothesis Htext : forall ps, P (T.IText ps).
Hypothesis Hcomment : forall bs, P (T.IComment bs).
Hypothesis Hpi : forall t s v, P (T.IPI t s v).

Fixpoint titem_ind (i : T.item) : P i :=
  match i with
  | T.IElem n a w None => Hempty n a w
  | T.IElem n a w (Some (cs, w2)) =>
    Helem n a w cs w2
      ((fix go (l : list T.item) : Forall P l :=
          match l with [] => Forall_nil P | c :: r => Forall_cons c (titem_ind c) (go r) end) cs)
  | T.IText ps => Htext ps
  | T.IComment bs => Hcomment bs
  | T.IPI t s v => Hpi t s v
  end.
End TItemInd.

Fixpoint tr_items (l : list T.item) : bytes :=
  match l with [] => [] | c :: r => T.r_item c ++ tr_items r end.
Fixpoint twf_items (l : list T.item) : bool :=
  match l with [] => true | c :: r => T.wf_item c && twf_items r end.
Fixpoint tsem_items (l : list T.item) : list Cst.vnode :=
  match l with [] => [] | c :: r => T.sem_item c ++ tsem_items r end.

Lemma tr_item_elem name attrs ws body :
  T.r_item (T.IElem name attrs ws body) =
  [60] ++ name ++ flat_map T.r_attr attrs ++ ws ++
  match body with
  | None => [47; 62]
  | Some (cs, ws2) => [62] ++ tr_items cs ++ [60; 47] ++ name ++ ws2 ++ [62]
  end.
Proof. destruct body as [[cs ws2]|]; reflexivity. Qed.

Lemma twf_item_elem name attrs ws body :
  T.wf_item (T.IElem name attrs ws body) =
  Cst.wf_name name && negb (T.is_xmlns name)
  && forallb T.wf_attr attrs && forallb (fun a => negb (T.is_xmlns (T.a_name a))) attrs
  && Cst.names_distinct (map T.a_name attrs) && Cst.wf_ws ws &&
  match body with
  | None => true
  | Some (cs, ws2) => Cst.wf_ws ws2 && T.no_adjacent_text cs && twf_items cs
  end.
Proof. destruct body as [[cs ws2]|]; reflexivity. Qed.

Lemma tsem_item_elem name attrs ws body :
  T.sem_item (T.IElem name attrs ws body) =
  match body with
  | None => [Cst.VElem name (T.eattrs attrs) 0]
  | Some (cs, _) => Cst.VElem name (T.eattrs attrs) (length cs) :: tsem_items cs
  end.
Proof. destruct body as [[cs ws2]|]; reflexivity. Qed.

Lemma eattrs_erase attrs : CstTree.eattrs (map erase_attr attrs) = T.eattrs attrs.
Proof. unfold CstTree.eattrs, T.eattrs. rewrite map_map. reflexivity. Qed.

Lemma sem_erase : forall i, Cst.sem_item (erase i) = T.sem_item i.
Proof.
  intros i. induction i as [n a w|n a w cs w2 IH|ps|bs|t s v] using titem_ind; try reflexivity.
  - rewrite erase_elem, sem_item_elem, tsem_item_elem. fold (CstTree.eattrs (map erase_attr a)).
    rewrite eattrs_erase. reflexivity.
  - rewrite erase_elem, sem_item_elem, tsem_item_elem. fold (CstTree.eattrs (map erase_attr a)).
    rewrite eattrs_erase, map_length. f_equal.
    induction IH as [|c r Hc _ IHr]; [reflexivity|]. cbn [map sem_items tsem_items]. rewrite Hc, IHr. reflexivity.
Qed.

Lemma sem_items_erase : forall l, sem_items (map erase l) = tsem_items l.
Proof. induction l as [|c r IH]; [reflexivity|]. cbn [map sem_items tsem_items]. rewrite sem_erase, IH. reflexivity. Qed.

Lemma nattrs_erase_elem n a w body :
  nattrs (erase (T.IElem n a w body)) =
  (length a + match body with None => 0 | Some (cs, _) => nattrs_items (map erase cs) end)%nat.
Proof. rewrite erase_elem, nattrs_elem, map_length. destruct body as [[cs w2]|]; reflexivity. Qed.

(* iterations of parse_content_loop spent on an item: one per segment of a text run *)
Fixpoint tsteps (i : T.item) : nat :=
  match i with
  | T.IElem _ _ _ (Some (cs, _)) =>
    S ((fix go (l : list T.item) : nat := match l with [] => O | c :: r => tsteps c + go r end) cs + 1)
  | T.IText ps => length (segs ps)
  | _ => 1
  end%nat.
Fixpoint tsteps_list (l : list T.item) : nat :=
  match l with [] => O | c :: r => (tsteps c + tsteps_list r)%nat end.

Lemma tsteps_elem n a w cs w2 : tsteps (T.IElem n a w (Some (cs, w2))) = S (tsteps_list cs + 1)%nat.
Proof. reflexivity. Qed.

(* what must follow a text run: markup that makes the next token reset the pending text *)
Definition text_follow (post : bytes) : Prop :=
  exists y l, post = 60 :: y :: l /\ (y = 33 -> prefix_b [60; 33; 45; 45] post = true).

Lemma text_follow_stop post : text_follow post -> text_stop post.
Proof. intros (y & l & -> & _). reflexivity. Qed.

Section TItems.
Variable text : bytes.
Hypothesis Hascii : Forall (fun x => x < 128) text.

Notation ev := (tok_ev text).
Notation loop := (parse_content_loop text context (tok_ev text)).
Notation st := (CstLex.st text).
Notation W := (CstLex.W text).

(* ------------------------------------------------------------------------------------------ *)
(* the next token resets: the pending text can be merged beforehand                           *)
(* ------------------------------------------------------------------------------------------ *)

Section Ctx.
Variables c1 c2 : context.
Hypothesis Hev : forall tok, resets tok -> ev tok c1 = ev tok c2.

Lemma parse_comment_ctx s : parse_comment text context ev s c1 = parse_comment text context ev s c2.
Proof.
  unfold parse_comment. cbv zeta.
  destruct (advance 4 s) as [s1| | |]; cbn [bind]; try reflexivity.
  destruct (consume_chars text _ s1) as [[txt s2]| | |]; cbn [bind]; try reflexivity.
  destruct (skip_string text _ s2) as [s3| | |]; cbn [bind]; try reflexivity.
  destruct (contains_b _ _); [reflexivity|]. destruct (ends_with_byte _ _); [reflexivity|].
  rewrite Hev by exact I. reflexivity.
Qed.

Lemma parse_pi_ctx s : parse_pi text context ev s c1 = parse_pi text context ev s c2.
Proof.
  unfold parse_pi. destruct (starts_with s _); [reflexivity|]. cbv zeta.
  destruct (advance 2 s) as [s1| | |]; cbn [bind]; try reflexivity.
  destruct (consume_name text s1) as [[tg s2]| | |]; cbn [bind]; try reflexivity.
  destruct (if starts_with s2 _ then _ else _) as [s2'| | |]; cbn [bind]; try reflexivity.
  destruct (consume_chars text _ _) as [[ct s3]| | |]; cbn [bind]; try reflexivity.
  destruct (skip_string text _ s3) as [s4| | |]; cbn [bind]; try reflexivity.
  rewrite Hev by exact I. reflexivity.
Qed.

Lemma parse_close_ctx s : parse_close_element text context ev s c1 = parse_close_element text context ev s c2.
Proof.
  unfold parse_close_element. cbv zeta.
  destruct (advance 2 s) as [s1| | |]; cbn [bind]; try reflexivity.
  destruct (consume_qname text s1) as [[[pf lc] s2]| | |]; cbn [bind]; try reflexivity.
  destruct (consume_byte text 62 _) as [s3| | |]; cbn [bind]; try reflexivity.
  rewrite Hev by exact I. reflexivity.
Qed.

Lemma parse_element_ctx s : parse_element text context ev s c1 = parse_element text context ev s c2.
Proof.
  unfold parse_element. cbv zeta.
  destruct (advance 1 s) as [s1| | |]; cbn [bind]; try reflexivity.
  destruct (consume_qname text s1) as [[[pf lc] s2]| | |]; cbn [bind]; try reflexivity.
  rewrite Hev by exact I. reflexivity.
Qed.
End Ctx.

Lemma loop_reset_eq c c' p post : reset_after_text text c = Ok c' -> c_after_text c' = [] ->
  text_follow post -> W p post ->
  forall fuel depth, loop fuel depth (st p post) c = loop fuel depth (st p post) c'.
Proof.
  intros E A (y & l & -> & Hy) HW fuel depth. destruct fuel as [|fuel]; [reflexivity|].
  assert (Hev : forall tok, resets tok -> ev tok c = ev tok c') by (intros tok Ht; apply tok_reset; assumption).
  rewrite !(loop_lt text) by exact HW.
  destruct (y =? 33) eqn:E33.
  - apply N.eqb_eq in E33. specialize (Hy E33). rewrite (starts_with_st text) by exact HW.
    change (b "<!--") with [60; 33; 45; 45]. rewrite Hy.
    rewrite (parse_comment_ctx c c' Hev). reflexivity.
  - destruct (y =? 63).
    + rewrite (parse_pi_ctx c c' Hev). reflexivity.
    + destruct (y =? 47).
      * rewrite (parse_close_ctx c c' Hev). reflexivity.
      * rewrite (parse_element_ctx c c' Hev). reflexivity.
Qed.

(* ------------------------------------------------------------------------------------------ *)
(* one iteration of the content loop per segment of a text run                                *)
(* ------------------------------------------------------------------------------------------ *)

Lemma ss_bytes l : seg_wf (SS l) ->
  forallb (fun x => T.is_tplain x && negb (x =? 60)) (T.r_pieces l) = true /\
  contains_b n3 (T.r_pieces l) = false /\ exists x r, T.r_pieces l = x :: r /\ x <> 60.
Proof.
  intros (Hne & H1 & H2 & H3). pose proof (ss_vpieces l H1 H2) as Hv.
  pose proof (vpieces_bytes 60 l ltac:(auto) Hv) as Hb.
  assert (Hb' : forallb (fun x => T.is_tplain x && negb (x =? 60)) (T.r_pieces l) = true).
  { revert Hb. apply forallb_imp. intros x Hx. unfold vbyte in Hx. cbv beta. rewrite !andb_true_iff in Hx.
    destruct Hx as [[Ha Hb0] _]. rewrite Ha, Hb0. reflexivity. }
  split; [exact Hb'|]. split.
  - apply stretch_no_cdata_end; assumption.
  - destruct l as [|pc l']; [congruence|]. cbn [forallb] in Hv. apply andb_true_iff in Hv. destruct Hv as [Hv _].
    destruct (r_piece_ne 60 pc Hv) as (x & r & Er). rewrite r_pieces_cons, Er. cbn [app].
    exists x, (r ++ T.r_pieces l'). split; [reflexivity|].
    rewrite r_pieces_cons, Er in Hb'. cbn [app forallb] in Hb'. lia.
Qed.

Lemma seg_step s p rest c fuel depth : W p (r_seg s ++ rest) -> seg_wf s -> LD c ->
  (is_ss s = true -> text_stop rest) ->
  loop (S fuel) depth (st p (r_seg s ++ rest)) c =
  let! c' := append_text (frag p s) (seg_range p s) c in
  loop fuel depth (st (p + blen (r_seg s)) rest) c'.
Proof.
  intros HW Hwf Hld Hstop. destruct s as [l|bs]; cbn [r_seg] in *.
  - destruct (ss_bytes l Hwf) as (Hb & Hc & x & r & Ex & Hx60).
    rewrite Ex in HW |- *. cbn [app] in HW |- *. rewrite (loop_text text) by assumption.
    change (x :: r ++ rest) with ((x :: r) ++ rest) in *. rewrite <- Ex in *.
    rewrite (lex_text' text Hascii) by (try assumption; apply Hstop; reflexivity).
    pose proof (tok_seg text Hascii p (SS l) rest c HW Hwf Hld) as Et. cbn [seg_tok] in Et.
    rewrite Et. destruct (append_text _ _ c); reflexivity.
  - destruct Hwf as [H1 H2]. rewrite <- !app_assoc in HW |- *.
    change T.cdata_open with ([60; 33] ++ [91; 67; 68; 65; 84; 65; 91]) in HW |- * at 1.
    rewrite <- app_assoc in HW |- *. cbn [app] in HW |- *.
    rewrite (loop_lt text) by exact HW. change (33 =? 33) with true. cbv iota.
    rewrite !(starts_with_st text) by exact HW.
    change (prefix_b (b "<!--") (60 :: 33 :: 91 :: 67 :: 68 :: 65 :: 84 :: 65 :: 91 :: bs ++ T.cdata_close ++ rest)) with false.
    replace (prefix_b (b "<![CDATA[") (60 :: 33 :: 91 :: 67 :: 68 :: 65 :: 84 :: 65 :: 91 :: bs ++ T.cdata_close ++ rest)) with true
      by (cbn; reflexivity).
    change (60 :: 33 :: 91 :: 67 :: 68 :: 65 :: 84 :: 65 :: 91 :: bs ++ T.cdata_close ++ rest)
      with (T.cdata_open ++ bs ++ n3 ++ rest) in HW |- *.
    rewrite (lex_cdata text Hascii) by assumption.
    assert (HW' : W p (r_seg (SC bs) ++ rest)) by (cbn [r_seg]; rewrite <- !app_assoc; exact HW).
    pose proof (tok_seg text Hascii p (SC bs) rest c HW' (conj H1 H2) Hld) as Et. cbn [seg_tok] in Et.
    rewrite Et. destruct (append_text _ _ c); cbn [bind]; try reflexivity.
    rewrite !blen_app. change (blen T.cdata_open) with 9. change (blen T.cdata_close) with 3.
    replace (p + (9 + (blen bs + 3))) with (p + 9 + blen bs + 3) by lia. reflexivity.
Qed.

Fixpoint frags (p : N) (L : list seg) : list cow :=
  match L with [] => [] | s :: r => frag p s :: frags (p + blen (r_seg s)) r end.

Lemma frags_bytes : forall L p post, W p (flat_map r_seg L ++ post) -> Forall seg_wf L ->
  map (cow_bytes text) (frags p L) = map seg_sem L.
Proof.
  induction L as [|s L IH]; intros p post HW HF; [reflexivity|]. inversion HF as [|? ? Hs HL]; subst.
  cbn [flat_map] in HW. rewrite <- app_assoc in HW. cbn [frags map].
  rewrite (frag_bytes text p s _ HW Hs). f_equal. apply (IH _ post); [apply (W_app _ _ _ _ HW)|exact HL].
Qed.

Lemma alt_stop s L post : alt (s :: L) -> Forall seg_wf L -> text_follow post ->
  is_ss s = true -> text_stop (flat_map r_seg L ++ post).
Proof.
  intros A HF Hp Hs. destruct L as [|[l|bs] L']; cbn [flat_map app].
  - apply text_follow_stop. exact Hp.
  - destruct A as [A _]. specialize (A Hs). discriminate.
  - reflexivity.
Qed.

Lemma run_loop c1 post : LD c1 -> text_follow post -> forall L prev p frs fuel depth,
  frs <> [] -> Forall seg_wf L -> alt (prev :: L) -> W p (flat_map r_seg L ++ post) ->
  loop (length L + fuel) depth (st p (flat_map r_seg L ++ post)) (set_after_text c1 frs) =
  loop fuel depth (st (p + blen (flat_map r_seg L)) post) (set_after_text c1 (frs ++ frags p L)).
Proof.
  intros Hld Hp. induction L as [|s L IH]; intros prev p frs fuel depth Hne HF A HW.
  - cbn [length flat_map app frags Nat.add]. rewrite blen_nil, N.add_0_r, app_nil_r. reflexivity.
  - inversion HF as [|? ? Hs HL]; subst. cbn [flat_map] in HW |- *. rewrite <- app_assoc in HW |- *.
    assert (A' : alt (s :: L)) by (destruct A as [_ A]; exact A).
    cbn [length Nat.add]. rewrite seg_step; [|exact HW|exact Hs|exact Hld|intros Hss; eapply alt_stop; eassumption].
    rewrite next_frag by exact Hne. cbn [bind frags].
    rewrite (IH s); [|destruct frs; discriminate|exact HL|exact A'|apply (W_app _ _ _ _ HW)].
    rewrite <- app_assoc. cbn [app]. rewrite blen_app. rewrite N.add_assoc. reflexivity.
Qed.

(* ------------------------------------------------------------------------------------------ *)
(* what is proved of every item                                                               *)
(* ------------------------------------------------------------------------------------------ *)

Definition is_elem' (i : T.item) : bool := match i with T.IElem _ _ _ _ => true | _ => false end.

Definition PI' (i : T.item) : Prop :=
  forall p post c depth fuel,
    T.wf_item i = true -> W p (T.r_item i ++ post) ->
    (T.is_text i = true -> text_follow post) ->
    CI c -> LD c -> (T.is_text i = true -> c_after_text c = []) ->
    node_room c (nsize (erase i)) -> attr_room c (nattrs (erase i)) ->
    exists c' K ext,
      loop (tsteps i + fuel) depth (st p (T.r_item i ++ post)) c =
      loop fuel depth (st (p + blen (T.r_item i)) post) c' /\
      Post text (erase i) c c' K ext.

Lemma Step_LD c c' K ext : Step c c' K ext -> LD c -> LD c'.
Proof. intros [S _] H. destruct (s_keep _ _ _ _ S) as (_ & _ & _ & _ & E & _). unfold LD. rewrite E. exact H. Qed.

Lemma PI_text' ps : PI' (T.IText ps).
Proof.
  intros p post c depth fuel Hwf HW Hfol I Hld Hat NR _.
  specialize (Hfol eq_refl). specialize (Hat eq_refl). cbn [T.wf_item T.r_item tsteps erase] in *.
  unfold T.wf_text in Hwf. rewrite !andb_true_iff in Hwf. destruct Hwf as [[Hne H1] H2].
  destruct (segs_wf ps H1 H2) as (HF & A & _).
  assert (Hne' : segs ps <> []) by (apply segs_ne; destruct ps; [discriminate|discriminate]).
  rewrite <- (segs_render ps) in HW |- *.
  destruct (segs ps) as [|s0 L] eqn:Es; [congruence|]. clear Hne'.
  inversion HF as [|? ? Hs0 HL]; subst. cbn [flat_map] in HW |- *. rewrite <- app_assoc in HW |- *.
  cbn [length Nat.add].
  rewrite seg_step; [|exact HW|exact Hs0|exact Hld|intros Hss; eapply alt_stop; eassumption].
  assert (R : room c) by (apply (node_room_room _ _ NR); unfold nsize; cbn; lia).
  destruct (first_frag (frag p s0) (seg_range p s0) c I R Hat) as (nodes' & E1 & M & Ln).
  rewrite E1. cbn [bind].
  rewrite (run_loop (run_ctx c nodes') post Hld Hfol L s0); [|discriminate|exact HL|exact A|apply (W_app _ _ _ _ HW)].
  cbn [app].
  destruct (run_reset text c nodes' (frag p s0) (frags (p + blen (r_seg s0)) L) I M)
    as (c2 & stg & Er & S & I2 & A2 & Tn & Hst & _).
  pose proof (W_app _ _ _ _ (W_app _ _ _ _ HW)) as HWend.
  rewrite (loop_reset_eq _ c2 _ post Er A2 Hfol HWend).
  exists c2, [(Some (c_parent_id c), KText stg)], []. split.
  - rewrite blen_app, N.add_assoc. reflexivity.
  - split; [exact S|]. split; [exact I2|]. split; [intros _; exact A2|]. split; [apply same_tn; exact Tn|].
    split; [discriminate|]. split; [|reflexivity].
    cbn [tag]. constructor; [|constructor]. split; [reflexivity|]. cbn [snd].
    rewrite Hst. change (frag p s0 :: frags (p + blen (r_seg s0)) L) with (frags p (s0 :: L)).
    rewrite (frags_bytes (s0 :: L) p post); [|cbn [flat_map]; rewrite <- app_assoc; exact HW|exact HF].
    rewrite <- Es. symmetry. apply text_sem_segs; assumption.
Qed.


(* ---- comments and processing instructions: as in Spec/Cst.v ---- *)
Lemma PI_comment' bs : PI' (T.IComment bs).
Proof.
  intros p post c depth fuel Hwf HW _ I _ _ NR AR.
  exact (PI_comment text Hascii bs p post c depth fuel Hwf HW (fun H => ltac:(discriminate H)) I
           (fun H => ltac:(discriminate H)) NR AR).
Qed.

Lemma PI_pi' t s v : PI' (T.IPI t s v).
Proof.
  intros p post c depth fuel Hwf HW _ I _ _ NR AR.
  exact (PI_pi text Hascii t s v p post c depth fuel Hwf HW (fun H => ltac:(discriminate H)) I
           (fun H => ltac:(discriminate H)) NR AR).
Qed.

(* ---- elements ---- *)
Lemma twf_elem_parts name attrs ws body : T.wf_item (T.IElem name attrs ws body) = true ->
  Cst.wf_name name = true /\ forallb T.wf_attr attrs = true /\ forallb not_xmlns' attrs = true /\
  Cst.names_distinct (map T.a_name attrs) = true /\ Cst.wf_ws ws = true /\
  match body with
  | None => True
  | Some (cs, ws2) => Cst.wf_ws ws2 = true /\ T.no_adjacent_text cs = true /\ twf_items cs = true
  end.
Proof.
  rewrite twf_item_elem, !andb_true_iff. intros [[[[[[H1 _] H2] H3] H4] H5] H6].
  repeat split; try assumption. destruct body as [[cs ws2]|]; [|exact Logic.I].
  rewrite !andb_true_iff in H6. tauto.
Qed.

Lemma Step0_LD c c' K ext : Step0 c c' K ext -> LD c -> LD c'.
Proof. intros S H. destruct (s_keep _ _ _ _ S) as (_ & _ & _ & _ & E & _). unfold LD. rewrite E. exact H. Qed.

Lemma PI_empty' name attrs ws : PI' (T.IElem name attrs ws None).
Proof.
  intros p post c depth fuel Hwf HW _ I Hld _ NR AR.
  destruct (twf_elem_parts _ _ _ _ Hwf) as (Hn & Ha & Hx & Hd & Hw & _). clear Hwf.
  rewrite tr_item_elem in *. rewrite <- !app_assoc in HW |- *.
  change ([47; 62] ++ post) with (tag_tail true ++ post) in *.
  cbn [tsteps Nat.add]. rewrite (loop_elem' text) by assumption.
  rewrite (lex_element' text Hascii) by assumption. cbv zeta.
  rewrite nattrs_erase_elem, Nat.add_0_r in AR.
  destruct (start_tag_ok' text Hascii p name attrs ws true post c HW (wf_name_ne _ Hn) Ha Hx Hd I Hld)
    as (c' & ar & E & S & Hkm & I' & A & Tt & P1 & P2);
    [apply (node_room_room _ _ NR (nsize_pos _))|unfold attr_room, len_N in *; lia|].
  cbv zeta in E. apply bind_ok in E. destruct E as (c1 & E1 & E2).
  rewrite E1. cbn [bind]. rewrite E2. cbn [bind negb].
  exists c', [(Some (c_parent_id c), KElement None (sl (p + 1) (p + 1 + blen name)) ar (1, 1))],
    (map ad_of (tas' (p + 1 + blen name) attrs)).
  split.
  - f_equal. f_equal. rewrite !blen_app. change (blen [60]) with 1. change (blen (tag_tail true)) with 2.
    change (blen [47; 62]) with 2. lia.
  - rewrite erase_elem.
    split; [split; [exact S|split; assumption]|]. split; [exact I'|]. split; [intros _; exact A|].
    split; [intros _; exact Tt|]. split; [intros _; exact Tt|]. split.
    + cbn [tag]. fold (CstTree.eattrs (map erase_attr attrs)). rewrite eattrs_erase.
      constructor; [|constructor]. apply Hkm.
    + rewrite map_length, nattrs_elem, map_length, Nat.add_0_r. pose proof (tas_len' attrs (p + 1 + blen name)) as L.
      unfold len_N in L. lia.
Qed.

(* ---- lists of children ---- *)
Definition head_text_ok' (cs : list T.item) (c : context) : Prop :=
  match cs with i :: _ => T.is_text i = true -> c_after_text c = [] | [] => True end.

Definition PL' (cs : list T.item) : Prop :=
  forall p post c depth fuel,
    twf_items cs = true -> T.no_adjacent_text cs = true -> W p (tr_items cs ++ post) -> text_follow post ->
    CI c -> LD c -> head_text_ok' cs c -> node_room c (nsizes (map erase cs)) ->
    attr_room c (nattrs_items (map erase cs)) ->
    exists c' K ext,
      loop (tsteps_list cs + fuel) depth (st p (tr_items cs ++ post)) c =
      loop fuel depth (st (p + blen (tr_items cs)) post) c' /\
      Step c c' K ext /\ CI c' /\ (tn_set c -> tn_set c') /\
      Forall2 (km text (d_attrs (c_doc c'))) K (tag_list (c_parent_id c) (len_N (d_nodes (c_doc c))) (map erase cs)) /\
      length ext = nattrs_items (map erase cs).

Lemma is_text_erase i : Cst.is_text (erase i) = T.is_text i.
Proof. destruct i; reflexivity. Qed.

Lemma nontext_follow d rest : T.is_text d = false -> T.wf_item d = true -> text_follow (T.r_item d ++ rest).
Proof.
  intros Ht Hwf. destruct d as [n a w body|ps|bs|t s v]; try discriminate.
  - destruct (twf_elem_parts _ _ _ _ Hwf) as (Hn & _). rewrite tr_item_elem.
    destruct n as [|x n]; [discriminate|]. cbn [Cst.wf_name] in Hn. apply andb_true_iff in Hn. destruct Hn as [Hn _].
    destruct (name_start_byte _ Hn) as (_ & _ & _ & _ & _ & H33 & _).
    cbn [app]. eexists. eexists. split; [reflexivity|]. intros E. congruence.
  - cbn [T.r_item Cst.r_item app]. eexists. eexists. split; [reflexivity|]. intros _. reflexivity.
  - cbn [T.r_item Cst.r_item app]. eexists. eexists. split; [reflexivity|]. intros E. discriminate.
Qed.

Lemma PL_of' cs : Forall PI' cs -> PL' cs.
Proof.
  induction 1 as [|i r Hi _ IH]; intros p post c depth fuel Hwf Hna HW Hfol I Hld Hhd NR AR.
  - exists c, [], []. cbn [tsteps_list tr_items app Nat.add blen length] in *.
    change (N.of_nat 0) with 0. rewrite N.add_0_r.
    split; [reflexivity|]. split; [apply Step_refl|]. split; [exact I|]. split; [auto|].
    split; [constructor|reflexivity].
  - cbn [twf_items] in Hwf. apply andb_true_iff in Hwf. destruct Hwf as [Hw1 Hw2].
    cbn [tr_items] in HW |- *. rewrite <- app_assoc in HW |- *.
    cbn [map] in NR, AR. rewrite nsizes_cons in NR. cbn [nattrs_items] in AR.
    assert (Hna2 : T.no_adjacent_text r = true).
    { destruct r as [|d r']; [reflexivity|]. cbn [T.no_adjacent_text] in Hna.
      apply andb_true_iff in Hna. apply Hna. }
    assert (Hnext : forall d r', r = d :: r' -> T.is_text i = true -> T.is_text d = false).
    { intros d r' -> Hi1. cbn [T.no_adjacent_text] in Hna. apply andb_true_iff in Hna.
      destruct Hna as [Hna _]. rewrite Hi1 in Hna. cbn [andb] in Hna. apply negb_true_iff in Hna. exact Hna. }
    assert (Hfollow : T.is_text i = true -> text_follow (tr_items r ++ post)).
    { intros Hi1. destruct r as [|d r']; [exact Hfol|].
      cbn [tr_items]. rewrite <- app_assoc. apply nontext_follow; [apply (Hnext d r' eq_refl Hi1)|].
      cbn [twf_items] in Hw2. apply andb_true_iff in Hw2. apply Hw2. }
    destruct (Hi p (tr_items r ++ post) c depth (tsteps_list r + fuel)%nat Hw1 HW Hfollow I Hld Hhd)
      as (c1 & K1 & e1 & E1 & S1 & I1 & A1 & T1 & _ & F1 & L1).
    { unfold node_room in *. lia. }
    { unfold attr_room in *. lia. }
    pose proof (Step_nodes_len _ _ _ _ S1) as Ln1.
    rewrite (Forall2_len_N _ _ _ F1) in Ln1. unfold len_N at 3 in Ln1. rewrite tag_len in Ln1.
    pose proof (Step_attrs_len _ _ _ _ (proj1 S1)) as La1. unfold len_N at 3 in La1. rewrite L1 in La1.
    pose proof (Step_opt _ _ _ _ (proj1 S1)) as Lo1.
    destruct (IH (p + blen (T.r_item i)) post c1 depth fuel Hw2 Hna2 (W_app _ _ _ _ HW) Hfol I1 (Step_LD _ _ _ _ S1 Hld))
      as (c2 & K2 & e2 & E2 & S2 & I2 & T2 & F2 & L2).
    { destruct r as [|d r']; [exact Logic.I|]. cbn [head_text_ok']. intros Hd. apply A1.
      rewrite is_text_erase. destruct (T.is_text i) eqn:Ei; [|reflexivity].
      rewrite (Hnext d r' eq_refl eq_refl) in Hd. discriminate. }
    { unfold node_room in *. rewrite Ln1, Lo1. lia. }
    { unfold attr_room in *. rewrite La1. lia. }
    exists c2, (K1 ++ K2), (e1 ++ e2). split.
    { cbn [tsteps_list]. rewrite <- Nat.add_assoc, E1, E2. f_equal. f_equal. rewrite blen_app. lia. }
    split; [eapply Step_trans; eassumption|]. split; [exact I2|]. split; [auto|]. split.
    + cbn [map tag_list]. apply Forall2_app.
      * rewrite (s_attrs _ _ _ _ (proj1 S2)). apply km_Forall2_ext. exact F1.
      * destruct S1 as (_ & P1 & _). rewrite P1, Ln1 in F2. exact F2.
    + cbn [map nattrs_items]. rewrite app_length, L1, L2. reflexivity.
Qed.

Ltac clia := repeat match goal with H : @eq bool _ true |- _ => clear H end; lia.

Lemma close_follow name ws2 post : text_follow ([60; 47] ++ name ++ ws2 ++ [62] ++ post).
Proof. cbn [app]. eexists. eexists. split; [reflexivity|]. intros E. discriminate. Qed.

(* the part common to a nested open element and to the root element: after the start tag,
   the children, then the end tag *)
Lemma open_body name attrs ws cs ws2 p post c c1 ar :
  PL' cs ->
  Cst.wf_name name = true -> Cst.wf_ws ws2 = true -> T.no_adjacent_text cs = true -> twf_items cs = true ->
  W p ([60] ++ name ++ flat_map T.r_attr attrs ++ ws ++ tag_tail false ++ tr_items cs ++ [60; 47] ++ name ++ ws2 ++ [62] ++ post) ->
  CI c -> LD c ->
  node_room c (1 + nsizes (map erase cs)) -> attr_room c (length attrs + nattrs_items (map erase cs)) ->
  Step0 c c1 [(Some (c_parent_id c), KElement None (sl (p + 1) (p + 1 + blen name)) ar (1, 1))]
        (map ad_of (tas' (p + 1 + blen name) attrs)) ->
  (forall m, km text (d_attrs (c_doc c1)) (Some (c_parent_id c), KElement None (sl (p + 1) (p + 1 + blen name)) ar (1, 1))
     (c_parent_id c, Cst.VElem name (T.eattrs attrs) m)) ->
  CI c1 -> c_after_text c1 = [] -> tn_set c1 ->
  c_parent_id c1 = len_N (d_nodes (c_doc c)) -> c_parent_prefixes c1 = c_parent_prefixes c ++ [sl (p + 1) (p + 1)] ->
  let q := p + 1 + blen name + blen (flat_map T.r_attr attrs) + blen ws + blen (tag_tail false) in
  let e := q + blen (tr_items cs) in
  forall d fuel,
  exists c3 K ext,
    loop (tsteps_list cs + S fuel) d (st q (tr_items cs ++ [60; 47] ++ name ++ ws2 ++ [62] ++ post)) c1 =
    (let! c' := Ok c3 in
     if d =? 0 then Ok (st (e + 2 + blen name + blen ws2 + 1) post, c')
     else loop fuel (d - 1) (st (e + 2 + blen name + blen ws2 + 1) post) c') /\
    Post text (erase (T.IElem name attrs ws (Some (cs, ws2)))) c c3 K ext.
Proof.
  intros HPL Hn Hw2 Hna Hcs HW I Hld NR AR S1 Hkm I1 A1 T1 P1 P2 q e d fuel.
  set (post2 := [60; 47] ++ name ++ ws2 ++ [62] ++ post) in *.
  pose proof (W_app _ _ _ _ HW) as HW1. change (blen [60]) with 1 in HW1.
  pose proof (W_app _ _ _ _ HW1) as HW2. pose proof (W_app _ _ _ _ HW2) as HW3.
  pose proof (W_app _ _ _ _ HW3) as HW4. pose proof (W_app _ _ _ _ HW4) as HW5. fold q in HW5.
  pose proof (Step0_len _ _ _ _ S1) as Ln1. change (len_N [_]) with 1 in Ln1.
  pose proof (Step_attrs_len _ _ _ _ S1) as La1. rewrite len_N_map, tas_len' in La1.
  pose proof (Step_opt _ _ _ _ S1) as Lo1.
  destruct (HPL q post2 c1 d (S fuel) Hcs Hna HW5 (close_follow name ws2 post) I1 (Step0_LD _ _ _ _ S1 Hld))
    as (c2 & K2 & e2 & E2 & S2 & I2 & T2 & F2 & L2).
  { destruct cs; [exact Logic.I|]. intros _. exact A1. }
  { unfold node_room in *. rewrite Ln1, Lo1. clia. }
  { unfold attr_room, len_N in *. rewrite La1. clia. }
  rewrite E2. clear E2.
  pose proof (W_app _ _ _ _ HW5) as HW6. fold e in HW6 |- *.
  unfold post2 in HW6 |- *. rewrite (loop_close text) by exact HW6.
  rewrite (lex_close text Hascii) by assumption. cbv zeta.
  destruct S2 as (S2 & Pid2 & Pp2).
  pose proof (W_app _ _ _ _ HW6) as HW7. change (blen [60; 47]) with 2 in HW7.
  destruct (close_tag_ok text (sl (e + 2) (e + 2)) (sl (e + 2) (e + 2 + blen name))
              (e, e + 2 + blen name + blen ws2 + 1) c2 (c_parent_id c) None
              (sl (p + 1) (p + 1 + blen name)) ar (1, 1) name (c_parent_prefixes c) (sl (p + 1) (p + 1)) I2)
    as (c3 & E3 & S3 & I3 & Pid3 & Pp3 & A3 & Tn3).
  { rewrite Pid2, P1, (s_nodes _ _ _ _ S2), (s_nodes _ _ _ _ S1).
    replace (N.to_nat (len_N (d_nodes (c_doc c)))) with (length (absn (c_doc c)))
      by (unfold absn, len_N; rewrite map_length; clia).
    rewrite <- app_assoc, nth_error_app2 by clia. rewrite Nat.sub_diag. reflexivity. }
  { apply (W_slice _ _ _ _ HW1). }
  { apply (W_slice _ _ _ _ HW7). }
  { apply slice_empty. }
  { rewrite Pp2, P2. reflexivity. }
  { apply (ci_pp _ I). }
  { apply slice_empty. }
  { apply T2. exact T1. }
  { rewrite (Step0_len _ _ _ _ S2), Ln1. pose proof (ci_pid _ I). clia. }
  { destruct (ci_par _ I) as (par & k0 & Ep & Hk). exists par, k0. split; [|exact Hk].
    rewrite (s_nodes _ _ _ _ S2), (s_nodes _ _ _ _ S1), <- app_assoc.
    rewrite nth_error_app1; [exact Ep|].
    pose proof (ci_pid _ I) as Hp. rewrite <- absn_len in Hp. unfold len_N in Hp. clia. }
  rewrite E3. cbn [bind].
  exists c3, ((Some (c_parent_id c), KElement None (sl (p + 1) (p + 1 + blen name)) ar (1, 1)) :: K2),
    (map ad_of (tas' (p + 1 + blen name) attrs) ++ e2).
  split; [reflexivity|].
  pose proof (Step0_trans _ _ _ _ _ _ _ (Step0_trans _ _ _ _ _ _ _ S1 S2) S3) as S13.
  rewrite !app_nil_r in S13. cbn [app] in S13.
  rewrite erase_elem.
  split; [split; [exact S13|split; [exact Pid3|exact Pp3]]|]. split; [exact I3|].
  split; [intros _; exact A3|].
  assert (T3 : tn_set c3) by (apply (same_tn _ _ Tn3); apply T2; exact T1).
  split; [intros _; exact T3|]. split; [intros _; exact T3|]. split.
  - rewrite tag_elem. fold (CstTree.eattrs (map erase_attr attrs)). rewrite eattrs_erase, map_length.
    rewrite (s_attrs _ _ _ _ S3), app_nil_r. constructor.
    + rewrite (s_attrs _ _ _ _ S2). apply km_ext. apply Hkm.
    + rewrite P1, Ln1 in F2. exact F2.
  - rewrite app_length, map_length, L2, nattrs_elem, map_length. pose proof (tas_len' attrs (p + 1 + blen name)) as L.
    unfold len_N in L. clia.
Qed.

Lemma PI_open' name attrs ws cs ws2 : PL' cs -> PI' (T.IElem name attrs ws (Some (cs, ws2))).
Proof.
  intros HPL p post c depth fuel Hwf HW _ I Hld _ NR AR.
  destruct (twf_elem_parts _ _ _ _ Hwf) as (Hn & Ha & Hx & Hd & Hw & Hw2 & Hna & Hcs). clear Hwf.
  rewrite tr_item_elem in *. rewrite <- !app_assoc in HW |- *.
  change ([62] ++ tr_items cs ++ [60; 47] ++ name ++ ws2 ++ [62] ++ post)
    with (tag_tail false ++ (tr_items cs ++ [60; 47] ++ name ++ ws2 ++ [62] ++ post)) in *.
  rewrite erase_elem, nsize_elem in NR. rewrite nattrs_erase_elem in AR.
  rewrite tsteps_elem. cbn [Nat.add]. rewrite (loop_elem' text) by assumption.
  rewrite (lex_element' text Hascii) by assumption. cbv zeta.
  destruct (start_tag_ok' text Hascii p name attrs ws false _ c HW (wf_name_ne _ Hn) Ha Hx Hd I Hld)
    as (c1 & ar & E & S1 & Hkm & I1 & A1 & T1 & P1 & P2 & P3);
    [unfold node_room, room in *; clia|unfold attr_room, len_N in *; clia|].
  cbv zeta in E. apply bind_ok in E. destruct E as (c0 & E0 & E1).
  rewrite E0. cbn [bind]. rewrite E1. cbn [bind negb]. clear E0 E1 c0.
  replace (tsteps_list cs + 1 + fuel)%nat with (tsteps_list cs + S fuel)%nat by clia.
  destruct (open_body name attrs ws cs ws2 p post c c1 ar HPL Hn Hw2 Hna Hcs HW I Hld NR AR
              S1 Hkm I1 A1 T1 P1 P2 (depth + 1) fuel) as (c3 & K & ext & E & HP).
  rewrite E. cbn [bind]. replace (depth + 1 =? 0) with false by clia.
  replace (depth + 1 - 1) with depth by clia.
  exists c3, K, ext. split; [|exact HP].
  f_equal. f_equal. rewrite !blen_app. change (blen [60]) with 1. change (blen [60; 47]) with 2.
  change (blen [62]) with 1. change (blen (tag_tail false)) with 1. clear. clia.
Qed.

Theorem PI_all' : forall i, PI' i.
Proof.
  intros i. induction i as [n a w|n a w cs w2 IH|ps|bs|t s v] using titem_ind.
  - apply PI_empty'.
  - apply PI_open'. apply PL_of'. exact IH.
  - apply PI_text'.
  - apply PI_comment'.
  - apply PI_pi'.
Qed.

Theorem PL_all' : forall cs, PL' cs.
Proof. intros cs. apply PL_of'. apply Forall_forall. intros i _. apply PI_all'. Qed.

(* ---- the root element: parse_element, then parse_content at depth 0 ---- *)
Lemma tsteps_le : forall i, T.wf_item i = true -> (tsteps i <= length (T.r_item i))%nat.
Proof.
  intros i. induction i as [n a w|n a w cs w2 IH|ps|bs|t s v] using titem_ind; intros Hwf.
  - rewrite tr_item_elem, !app_length. cbn [tsteps length]. lia.
  - destruct (twf_elem_parts _ _ _ _ Hwf) as (_ & _ & _ & _ & _ & _ & _ & Hcs).
    rewrite tr_item_elem, tsteps_elem, !app_length. cbn [length].
    assert (G : (tsteps_list cs <= length (tr_items cs))%nat).
    { clear - IH Hcs. induction IH as [|c r Hc _ IHr]; [cbn; lia|].
      cbn [twf_items] in Hcs. apply andb_true_iff in Hcs. destruct Hcs as [H1 H2].
      cbn [tsteps_list tr_items]. rewrite app_length. specialize (Hc H1). specialize (IHr H2). lia. }
    lia.
  - cbn [tsteps T.r_item]. rewrite <- (segs_render ps).
    cbn [T.wf_item] in Hwf. unfold T.wf_text in Hwf. rewrite !andb_true_iff in Hwf. destruct Hwf as [[_ H1] H2].
    destruct (segs_wf ps H1 H2) as (HF & _). clear - HF.
    induction HF as [|s L Hs _ IH]; [cbn; lia|]. cbn [length flat_map]. rewrite app_length.
    assert (1 <= length (r_seg s))%nat; [|lia].
    destruct s as [l|bs]; cbn [r_seg].
    + destruct (ss_bytes l Hs) as (_ & _ & x & r & -> & _). cbn; lia.
    + rewrite !app_length. cbn. lia.
  - cbn [T.r_item Cst.r_item tsteps]. rewrite !app_length. cbn [length]. lia.
  - cbn [T.r_item Cst.r_item tsteps]. rewrite !app_length. cbn [length]. lia.
Qed.

Lemma tsteps_list_le : forall cs, twf_items cs = true -> (tsteps_list cs <= length (tr_items cs))%nat.
Proof.
  induction cs as [|c r IH]; intros Hwf; [cbn; lia|].
  cbn [twf_items] in Hwf. apply andb_true_iff in Hwf. destruct Hwf as [H1 H2].
  cbn [tsteps_list tr_items]. rewrite app_length. pose proof (tsteps_le c H1). specialize (IH H2). lia.
Qed.

Lemma root_ok' name attrs ws body p post c :
  T.wf_item (T.IElem name attrs ws body) = true ->
  W p (T.r_item (T.IElem name attrs ws body) ++ post) ->
  CI c -> LD c -> node_room c (nsize (erase (T.IElem name attrs ws body))) ->
  attr_room c (nattrs (erase (T.IElem name attrs ws body))) ->
  exists c' K ext,
    (let! (open, s, c) := parse_element text context ev
                            (st p (T.r_item (T.IElem name attrs ws body) ++ post)) c in
     if open then parse_content text context ev s c else Ok (s, c)) =
    Ok (st (p + blen (T.r_item (T.IElem name attrs ws body))) post, c') /\
    Post text (erase (T.IElem name attrs ws body)) c c' K ext.
Proof.
  intros Hwf HW I Hld NR AR. destruct body as [[cs ws2]|].
  - (* open *)
    destruct (twf_elem_parts _ _ _ _ Hwf) as (Hn & Ha & Hx & Hd & Hw & Hw2 & Hna & Hcs). clear Hwf.
    rewrite tr_item_elem in *. rewrite <- !app_assoc in HW |- *.
    change ([62] ++ tr_items cs ++ [60; 47] ++ name ++ ws2 ++ [62] ++ post)
      with (tag_tail false ++ (tr_items cs ++ [60; 47] ++ name ++ ws2 ++ [62] ++ post)) in *.
    rewrite erase_elem, nsize_elem in NR. rewrite nattrs_erase_elem in AR.
    rewrite (lex_element' text Hascii) by assumption. cbv zeta.
    destruct (start_tag_ok' text Hascii p name attrs ws false _ c HW (wf_name_ne _ Hn) Ha Hx Hd I Hld)
      as (c1 & ar & E & S1 & Hkm & I1 & A1 & T1 & P1 & P2 & P3);
      [unfold node_room, room in *; clia|unfold attr_room, len_N in *; clia|].
    cbv zeta in E. apply bind_ok in E. destruct E as (c0 & E0 & E1).
    rewrite E0. cbn [bind]. rewrite E1. cbn [bind negb]. clear E0 E1 c0.
    unfold parse_content. cbn [CstLex.st s_rest].
    set (post2 := [60; 47] ++ name ++ ws2 ++ [62] ++ post) in *.
    pose proof (tsteps_list_le cs Hcs) as Hst.
    replace (S (length (tr_items cs ++ post2)))
      with (tsteps_list cs + S (length (tr_items cs ++ post2) - tsteps_list cs))%nat
      by (rewrite app_length; clia).
    destruct (open_body name attrs ws cs ws2 p post c c1 ar (PL_all' cs) Hn Hw2 Hna Hcs HW I Hld NR AR
                S1 Hkm I1 A1 T1 P1 P2 0 (length (tr_items cs ++ post2) - tsteps_list cs)%nat) as (c3 & K & ext & E & HP).
    unfold post2 in E |- *. rewrite E. cbn [bind]. change (0 =? 0) with true. cbv iota.
    exists c3, K, ext. split; [|exact HP].
    f_equal. f_equal. f_equal. rewrite !blen_app. change (blen [60]) with 1. change (blen [60; 47]) with 2.
    change (blen [62]) with 1. change (blen (tag_tail false)) with 1. clear. clia.
  - (* empty *)
    destruct (twf_elem_parts _ _ _ _ Hwf) as (Hn & Ha & Hx & Hd & Hw & _). clear Hwf.
    rewrite tr_item_elem in *. rewrite <- !app_assoc in HW |- *.
    change ([47; 62] ++ post) with (tag_tail true ++ post) in *.
    rewrite (lex_element' text Hascii) by assumption. cbv zeta.
    rewrite nattrs_erase_elem, Nat.add_0_r in AR.
    destruct (start_tag_ok' text Hascii p name attrs ws true post c HW (wf_name_ne _ Hn) Ha Hx Hd I Hld)
      as (c' & ar & E & S & Hkm & I' & A & Tt & P1 & P2);
      [apply (node_room_room _ _ NR (nsize_pos _))|unfold attr_room, len_N in *; clia|].
    cbv zeta in E. apply bind_ok in E. destruct E as (c1 & E1 & E2).
    rewrite E1. cbn [bind]. rewrite E2. cbn [bind negb].
    exists c', [(Some (c_parent_id c), KElement None (sl (p + 1) (p + 1 + blen name)) ar (1, 1))],
      (map ad_of (tas' (p + 1 + blen name) attrs)).
    split.
    + f_equal. f_equal. f_equal. rewrite !blen_app. change (blen [60]) with 1. change (blen (tag_tail true)) with 2.
      change (blen [47; 62]) with 2. clia.
    + rewrite erase_elem.
      split; [split; [exact S|split; assumption]|]. split; [exact I'|]. split; [intros _; exact A|].
      split; [intros _; exact Tt|]. split; [intros _; exact Tt|]. split.
      * cbn [tag]. fold (CstTree.eattrs (map erase_attr attrs)). rewrite eattrs_erase.
        constructor; [|constructor]. apply Hkm.
      * rewrite map_length, nattrs_elem, map_length, Nat.add_0_r. pose proof (tas_len' attrs (p + 1 + blen name)) as L.
        unfold len_N in L. clia.
Qed.

(* C18, the fast path: a run that is one literal without CR is stored Borrowed, as the slice of
   the input it was read from *)
Lemma text_lit_borrowed bs p post c depth fuel :
  T.wf_item (T.IText [T.PLit bs]) = true -> existsb (fun x => x =? 13) bs = false ->
  W p (bs ++ post) -> text_follow post -> CI c -> LD c -> c_after_text c = [] -> node_room c 1 ->
  exists c',
    loop (1 + fuel) depth (st p (bs ++ post)) c = loop fuel depth (st (p + blen bs) post) c' /\
    Step c c' [(Some (c_parent_id c), KText (Borrowed (SIn (sl p (p + blen bs)))))] [] /\ CI c'.
Proof.
  intros Hwf H13 HW Hfol I Hld Hat NR.
  cbn [T.wf_item] in Hwf. unfold T.wf_text in Hwf. rewrite !andb_true_iff in Hwf. destruct Hwf as [[_ H1] H2].
  pose proof (segs_wf [T.PLit bs] H1 H2) as (HF & _). cbn [segs] in HF. inversion HF as [|? ? Hs0 _]; subst.
  assert (Er : T.r_pieces [T.PLit bs] = bs) by (cbn; apply app_nil_r).
  assert (HW' : W p (r_seg (SS [T.PLit bs]) ++ post)) by (cbn [r_seg]; rewrite Er; exact HW).
  assert (Efrag : frag p (SS [T.PLit bs]) = CowBorrowed (sl p (p + blen bs))).
  { cbn [frag]. cbv zeta. rewrite Er.
    replace (existsb (fun y => (y =? 38) || (y =? 13)) bs) with false; [reflexivity|]. symmetry.
    cbn [forallb T.wf_tpiece] in H1. rewrite !andb_true_iff in H1. destruct H1 as [[Hl _] _].
    apply lit_not_amp in Hl. clear - Hl H13. induction bs as [|x r IH]; [reflexivity|].
    cbn [forallb existsb] in *. apply andb_true_iff in Hl. apply orb_false_iff in H13. destruct Hl, H13.
    rewrite IH by assumption. lia. }
  replace (1 + fuel)%nat with (S fuel) by lia.
  pose proof (seg_step (SS [T.PLit bs]) p post c fuel depth HW' Hs0 Hld (fun _ => text_follow_stop _ Hfol)) as E.
  cbn [r_seg] in E. rewrite Er in E. rewrite E. clear E. rewrite Efrag.
  assert (R : room c) by (apply (node_room_room _ _ NR); lia).
  destruct (first_frag (CowBorrowed (sl p (p + blen bs))) (seg_range p (SS [T.PLit bs])) c I R Hat) as (nodes' & E1 & M & Ln).
  rewrite E1. cbn [bind].
  destruct (run_reset text c nodes' (CowBorrowed (sl p (p + blen bs))) [] I M)
    as (c2 & stg & Ereset & S & I2 & A2 & _ & _ & Hst).
  rewrite (loop_reset_eq _ c2 _ post Ereset A2 Hfol (W_app _ _ _ _ HW)).
  exists c2. split; [reflexivity|]. rewrite (Hst eq_refl) in S. split; [exact S|exact I2].
Qed.

End TItems.

Print Assumptions PI_all'.
Print Assumptions PL_all'.
Print Assumptions root_ok'.
Print Assumptions text_lit_borrowed.
