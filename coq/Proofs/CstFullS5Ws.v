(* Proofs/CstFullS5Ws.v -- the capstone fragment, stage S5 (Spec/CstFullS5.v): markup white space is the
   production S (SP TAB CR LF).  The bridge lemmas between [wf_s] and the byte classes of the
   tokenizer (the counterparts of ws_space, ws_spaces, ws_lit, ws_stop_name, ... of
   Proofs/CstLex.v / CstULex.v, which are stated for Cst.wf_ws), the end of a start tag and a
   processing instruction whose separator is S. *)
From Coq Require Import Ascii String.
From Coq Require Import List NArith PeanoNat Bool Lia ZifyBool ZifyN ZifyNat.
Import ListNotations.
From RX Require Import Generated.
From RX.Model Require Import Base CharClass Stream Tokenizer.
From RX.Spec Require Cst Scope CstNs CstU Chars.
From RX.Spec Require Import CstFull CstFullS5.
From RX.Proofs Require Import CstLex CstULex CstNsLex CstFullLex.
Open Scope N_scope.

Ltac cls5 := unfold Chars.xml_S in *; cls.

Lemma s_space x : Chars.xml_S x = true -> byte_is_space x = true.
Proof. cls5. lia. Qed.

Lemma s_not_name_byte x : Chars.xml_S x = true -> not_name_byte x.
Proof. unfold not_name_byte. cls5. lia. Qed.

Lemma s_spaces w : wf_s w = true -> forallb byte_is_space w = true.
Proof.
  unfold wf_s. induction w as [|x w IH]; cbn [forallb]; [reflexivity|].
  intros H. apply andb_true_iff in H. destruct H as [H1 H2]. rewrite (s_space _ H1), IH by exact H2. reflexivity.
Qed.

Lemma s_lit w : wf_s w = true -> forallb (fun x => x <? 128) w = true.
Proof. unfold wf_s. apply forallb_imp. intros x Hx. unfold Chars.xml_S in Hx. lia. Qed.

Lemma s_stop_name w l : wf_s w = true -> name_stop l -> name_stop (w ++ l).
Proof.
  destruct w as [|x w]; [auto|]. intros H _. cbn [app name_stop].
  cbn [wf_s forallb] in H. apply andb_true_iff in H. apply s_not_name_byte. apply H.
Qed.

Lemma s1_parts w : wf_s1 w = true -> w <> [] /\ wf_s w = true.
Proof. unfold wf_s1. destruct w; [discriminate|]. intros H. split; [discriminate|exact H]. Qed.

Lemma s_head x w : wf_s (x :: w) = true -> x <> 60 /\ x < 128 /\ byte_is_space x = true.
Proof.
  cbn [wf_s forallb]. intros H. apply andb_true_iff in H. destruct H as [H _]. split; [|split; [|apply s_space; exact H]];
    unfold Chars.xml_S in H; lia.
Qed.

Lemma s_app a c : wf_s (a ++ c) = wf_s a && wf_s c.
Proof. unfold wf_s. apply forallb_app. Qed.

Lemma s_valid w : wf_s w = true -> U8.Valid w.
Proof. intros H. apply Valid_lit, s_lit, H. Qed.

Lemma is_quote_cases q : is_quote q = true -> q = 39 \/ q = 34.
Proof. unfold is_quote. lia. Qed.

Lemma ws_s w : Cst.wf_ws w = true -> wf_s w = true.
Proof. unfold Cst.wf_ws, wf_s. apply forallb_imp. intros x. unfold Cst.is_ws, Chars.xml_S. lia. Qed.
Lemma ws1_s1 w : Cst.wf_ws1 w = true -> wf_s1 w = true.
Proof. unfold Cst.wf_ws1, wf_s1. destruct w; [auto|]. apply (ws_s (n :: w)). Qed.

Section Lex.
Variable text : bytes.
Variable C : Type.
Variable ev : token -> C -> res C.

Notation st := (CstLex.st text).
Notation W := (CstLex.W text).
Notation WV := (CstULex.WV text).

Lemma lex_elem_end_s fuel ts q ws_end empty post c :
  W q (ws_end ++ tag_tail empty ++ post) -> wf_s ws_end = true ->
  parse_element_loop text C ev (S fuel) ts (st q (ws_end ++ tag_tail empty ++ post)) c =
  let! c' := ev (end_tok (q + blen ws_end) empty) c in
  Ok (negb empty, st (q + blen ws_end + blen (tag_tail empty)) post, c').
Proof.
  intros HW Hws. cbn [parse_element_loop]. rewrite at_end_st by exact HW.
  replace (match ws_end ++ tag_tail empty ++ post with [] => true | _ => false end) with false
    by (destruct ws_end, empty; reflexivity). cbv zeta.
  rewrite skip_spaces_st; [|exact HW|apply s_spaces; exact Hws|destruct empty; reflexivity].
  pose proof (W_app _ _ _ _ HW) as HW1. unfold end_tok. destruct empty; cbn [tag_tail app negb] in *.
  - rewrite curr_byte_st by exact HW1. cbn [bind]. change (47 =? 47) with true. cbv iota.
    rewrite advance1_st by exact HW1. cbn [bind].
    rewrite consume_byte_st by (apply (W_cons _ _ _ _ HW1)). cbn [bind CstLex.st s_pos].
    change (blen [47; 62]) with 2. replace (q + blen ws_end + 1 + 1) with (q + blen ws_end + 2) by lia.
    reflexivity.
  - rewrite curr_byte_st by exact HW1. cbn [bind]. change (62 =? 47) with false. change (62 =? 62) with true. cbv iota.
    rewrite advance1_st by exact HW1. cbn [bind CstLex.st s_pos]. change (blen [62]) with 1. reflexivity.
Qed.

(* ---- a processing instruction ---- *)
Definition pi_ok_s (target : list N) (sep : bytes) (value : list N) : Prop :=
  CstU.wf_name target = true /\ wf_s sep = true /\ forallb CstU.is_char value = true /\
  contains_b [63; 62] value = false /\ Cst.prefix_is_xml target = false /\
  match value with
  | [] => True
  | x :: _ => Chars.xml_S x = false /\ sep <> []
  end.

Lemma swf_pi t s v : wf_pi_s t s v = true -> pi_ok_s t s v.
Proof.
  unfold wf_pi_s. rewrite !andb_true_iff. intros [[[[[H1 H2] H3] H4] H5] H6].
  split; [exact H1|]. split; [exact H2|]. split; [exact H3|]. split.
  { rewrite <- contains_eq. apply negb_true_iff. exact H4. }
  split; [apply negb_true_iff; exact H5|].
  destruct v as [|x v]; [exact Logic.I|]. apply andb_true_iff in H6. destruct H6 as [H6 H7].
  split; [apply negb_true_iff; exact H6|]. destruct s; [discriminate|discriminate].
Qed.

Lemma uchar_space_s x : CstU.is_char x = true -> Chars.xml_S x = false -> forall l,
  stops byte_is_space (utf8 x ++ l).
Proof.
  intros Hc Hw l. destruct (uchar_facts x Hc) as (_ & _ & H13). destruct (N.lt_ge_cases x 128) as [L|L].
  - rewrite (utf8_ascii x L). cbn [app stops]. revert Hw. cls5. lia.
  - destruct (utf8_high x L) as (_ & b0 & r & E & Hb). rewrite E. cbn [app stops]. cls. lia.
Qed.

Lemma pi_after_target_s target sep value post : pi_ok_s target sep value ->
  name_stop (sep ++ utf8s value ++ [63; 62] ++ post) /\ stops byte_is_space (utf8s value ++ [63; 62] ++ post).
Proof.
  intros (_ & Hs & Hv & _ & _ & Hx). split.
  - destruct sep as [|s sep].
    + destruct value as [|x v]; [|destruct Hx as [_ Hx]; congruence].
      cbn [app name_stop CstU.utf8s flat_map]. apply not_name_byte_lit. auto.
    + cbn [app name_stop]. cbn [wf_s forallb] in Hs. apply andb_true_iff in Hs.
      apply s_not_name_byte. apply Hs.
  - destruct value as [|x v]; [reflexivity|]. rewrite utf8s_cons, <- app_assoc.
    cbn [forallb] in Hv. apply andb_true_iff in Hv. destruct Hv as [Hp _]. destruct Hx as [Hx _].
    apply uchar_space_s; assumption.
Qed.

Lemma lex_pi_s p target sep value post c :
  WV p ([60; 63] ++ utf8s target ++ sep ++ utf8s value ++ [63; 62] ++ post) -> pi_ok_s target sep value ->
  let e := p + 2 + blen (utf8s target) + blen sep + blen (utf8s value) in
  parse_pi text C ev (st p ([60; 63] ++ utf8s target ++ sep ++ utf8s value ++ [63; 62] ++ post)) c =
  let! c' := ev (TPI (sl (p + 2) (p + 2 + blen (utf8s target)))
                     (match value with [] => None | _ => Some (sl (p + 2 + blen (utf8s target) + blen sep) e) end)
                     (p, e + 2)) c in
  Ok (st (e + 2) post, c').
Proof.
  intros HW Hok e. pose proof (pi_after_target_s _ _ _ post Hok) as [Hst1 Hst2].
  destruct Hok as (Hn & Hs & Hv & Hc & Hx & Hfirst).
  pose proof (WV_W _ _ _ HW) as HW0.
  unfold parse_pi. rewrite starts_with_st by exact HW0.
  change (b "<?xml ") with ([60; 63] ++ [120; 109; 108; 32]).
  assert (Hdecl : prefix_b ([60; 63] ++ [120; 109; 108; 32])
                    ([60; 63] ++ utf8s target ++ sep ++ utf8s value ++ [63; 62] ++ post) = false).
  { cbn [app prefix_b]. rewrite !N.eqb_refl. cbn [andb].
    apply (not_xml_decl_u target (sep ++ utf8s value ++ [63; 62] ++ post) Hn Hx Hst1). }
  rewrite Hdecl. cbv zeta.
  rewrite (advance_st text 2 p [60; 63]) by (try reflexivity; exact HW0). cbn [bind].
  pose proof (WV_lit _ _ _ _ HW eq_refl) as HW1. change (blen [60; 63]) with 2 in HW1.
  rewrite consume_name_u; [|exact HW1|exact Hn|exact Hst1]. cbn [bind].
  assert (Hvt : U8.Valid (utf8s target)) by (apply uname_valid; exact Hn).
  pose proof (WV_app _ _ _ _ HW1 Hvt) as HW2. pose proof (WV_W _ _ _ HW2) as HW2'.
  change (b "?>") with [63; 62].
  assert (Hsp : (if starts_with (st (p + 2 + blen (utf8s target)) (sep ++ utf8s value ++ [63; 62] ++ post)) [63; 62]
                 then Ok (st (p + 2 + blen (utf8s target)) (sep ++ utf8s value ++ [63; 62] ++ post))
                 else consume_spaces text (st (p + 2 + blen (utf8s target)) (sep ++ utf8s value ++ [63; 62] ++ post)))
                = Ok (st (p + 2 + blen (utf8s target) + blen sep) (utf8s value ++ [63; 62] ++ post))).
  { rewrite starts_with_st by exact HW2'. destruct sep as [|w sep'].
    - destruct value as [|x v]; [|destruct Hfirst as [_ Hf]; congruence].
      cbn [app prefix_b CstU.utf8s flat_map]. rewrite blen_nil, N.add_0_r. reflexivity.
    - assert (Hw : Chars.xml_S w = true).
      { cbn [wf_s forallb] in Hs. apply andb_true_iff in Hs. apply Hs. }
      replace (prefix_b [63; 62] ((w :: sep') ++ utf8s value ++ [63; 62] ++ post)) with false.
      2:{ cbn [app prefix_b]. destruct (63 =? w) eqn:E63; [|reflexivity].
          apply N.eqb_eq in E63. subst w. discriminate. }
      unfold consume_spaces. cbn [app]. rewrite at_end_st by exact HW2'.
      unfold starts_with_space. rewrite curr_byte_opt_st by exact HW2'.
      rewrite (s_space _ Hw). cbn [negb].
      f_equal. apply (skip_spaces_st text (p + 2 + blen (utf8s target)) (w :: sep') (utf8s value ++ [63; 62] ++ post));
        [exact HW2'|apply s_spaces; exact Hs|exact Hst2]. }
  rewrite Hsp. cbn [bind]. clear Hsp.
  pose proof (WV_lit _ _ _ _ HW2 (s_lit _ Hs)) as HW3.
  change (fun (s : stream) (ch : N) => negb ((ch =? 63) && starts_with s [63; 62])) with pi_f.
  rewrite consume_chars_v; [|exact HW3|apply pi_walk_u; assumption|].
  2:{ cbn [stop_u app]. split; [lia|]. split; [reflexivity|]. unfold pi_f.
      rewrite starts_with_st by (apply (W_app _ _ _ _ (WV_W _ _ _ HW3))). reflexivity. }
  cbn [bind]. pose proof (W_app _ _ _ _ (WV_W _ _ _ HW3)) as HW4.
  rewrite skip_string_st by exact HW4. cbn [bind]. cbn [CstLex.st s_pos]. change (blen [63; 62]) with 2.
  unfold slice_len. cbn [sl sl_start sl_end]. fold e.
  replace (p + 2 + blen (utf8s target) + blen sep + blen (utf8s value)) with e by reflexivity.
  destruct value as [|x v].
  - cbn [CstU.utf8s flat_map] in *. rewrite blen_nil in *.
    replace (e - (p + 2 + blen (utf8s target) + blen sep) =? 0) with true by (unfold e; rewrite blen_nil; lia).
    reflexivity.
  - pose proof (utf8_len x) as Hl.
    replace (e - (p + 2 + blen (utf8s target) + blen sep) =? 0) with false
      by (unfold e; rewrite utf8s_cons, blen_app; lia).
    reflexivity.
Qed.

End Lex.

Print Assumptions lex_pi_s.
