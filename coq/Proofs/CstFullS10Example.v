(* Proofs/CstFullS10Example.v -- the theorems of Proofs/CstFullS10Main.v are not vacuous, stage S10 is strictly wider than
   stage S9, and what Spec/CstFullS10.v still excludes is excluded for a reason.

   1. The sample document ex10 of Proofs/CstFullS10Sanity.v -- <!ENTITY amp2 "&#38;">, <!ENTITY lt2 "&#x3C;">,
      "&#38;lt;b&#x26;gt;" (the text &lt;b&gt;), "&#38;#60;" (the text &#60;), "&#60;b/>&lt2;&amp2;" (the text <b/><&,
      nested), a MARKUP entity with such references in an attribute value, in a namespace URI and in its text;
      referenced from character data, from an attribute value and from a namespace URI -- satisfies the hypotheses of
      [parse_render_sem_full_s10_api], is not a document of S9, and its meaning is the list written out in
      [ex10_meaning].  [hoist10]: the document with the entities and the document with everything written in place
      (&amp; &lt;) have the same meaning, hence the same tree.

   2. Necessity of the remaining exclusions (F-CR), (F-LF), (F-TAB): for each, a document [d c] parametrised by the
      digits c of ONE character reference inside an entity literal, such that [d "65"] (a reference to 'A') is a
      document of S10, [d c] for the excluded character is not, the crate accepts its rendering, and the tree it builds
      differs from the meaning by inlining -- both are written out.  [tab_text_agrees] / [lf_text_agrees]: in character
      data a referenced TAB, and a referenced LF that does not follow a literal CR, do behave as the inlining says
      (they are excluded because of the attribute values, see the header of Spec/CstFullS10.v). *)
From Coq Require Import Ascii String.
From Coq Require Import List NArith Bool Lia.
Import ListNotations.
From RX Require Import Generated.
From RX.Model Require Import Base Stream Tokenizer Doc Builder Parse.
From RX.Spec Require CstNs CstU.
From RX.Spec Require Import CstFull CstFullS6 CstFullS7 CstFullS8 CstFullS9 CstFullS10.
From RX.Proofs Require Import CstNsView CstFullMain CstFullS6Sanity CstFullS8Sanity CstFullS9Sanity CstFullS10Sanity CstFullS10Main.
From RX.Proofs Require ApiView.
Open Scope N_scope.

Ltac splits := match goal with |- _ /\ _ => split; [|splits] | _ => idtac end.

Definition optx := {| allow_dtd := true; nodes_limit := default_nodes_limit |}.

(* ------------------------------------------------------------------------------------------ *)
(* 1. in S10, not in S9                                                                       *)
(* ------------------------------------------------------------------------------------------ *)
Theorem s10_wider : S10.wf_doc ex10 = true /\ S9.wf_doc ex10 = false.
Proof. split; vm_compute; reflexivity. Qed.

Example ex10_parses : exists x, parse (S10.render ex10) optx = Ok x /\ ApiView.api_view (S10.render ex10) x = Some (S10.sem ex10).
Proof.
  apply parse_render_sem_full_s10_api.
  - vm_compute. reflexivity.
  - reflexivity.
  - vm_compute. intros H. discriminate H.
  - vm_compute. reflexivity.
  - vm_compute. reflexivity.
  - vm_compute. reflexivity.
  - unfold S10.distinct_decls_le, S6.distinct_decls_le, X4.S4.distinct_decls_le.
    match goal with |- match ?x with _ => _ end => let y := eval vm_compute in x in change x with y end.
    apply distinct_by_count.
    match goal with |- (length ?l <= _)%nat => let n := eval vm_compute in (length l) in change (length l) with n end. lia.
  - vm_compute. intros H. discriminate H.
Qed.

Definition crate (c : S10.doc) : option (list CstNs.vnode) :=
  match parse (S10.render c) opt_dtd with Ok x => view (S10.render c) x | _ => None end.

(* the predicted meaning, written out, and the crate's tree computed by the model *)
Example ex10_meaning :
  S10.sem ex10 =
  [ CstNs.VElem None (b "r") [(None, b "a", b "x&y&lt;b&gt;&#60;")] [(Some (b "p"), b "&u&#60;")] 3;
    CstNs.VText (b "&|<|&lt;b&gt;|&#60;|<b/><&");
    CstNs.VElem None (b "s") [] [(Some (b "p"), b "&u&#60;")] 0;
    CstNs.VElem None (b "p") [(None, b "k", b "a&b&&lt;b&gt;")] [(Some (b "q"), b "u&v"); (Some (b "p"), b "&u&#60;")] 1;
    CstNs.VText (b "<q/>&amp;<") ]
  /\ crate ex10 = Some (S10.sem ex10).
Proof. split; vm_compute; reflexivity. Qed.

(* hoisting: the same content written in place, with the predefined entities *)
Definition ex10_inline : S10.doc :=
  {| S6.x_bom := false; S6.x_decl := None; S6.x_dtd := None;
     S6.x_main := {| d_before := []; d_ws0 := [];
                     d_root := el [] (b "r") [@EDecl epieces (layb [32] [] [] 39) p_ [E.EP (T.PPredef T.Amp); lit (b "u"); E.EP (T.PPredef T.Amp); lit (b "#60;")];
                                              at1 [] (b "a") [lit (b "x"); dref "38"; lit (b "y"); E.EP (T.PPredef T.Amp); lit (b "lt;b"); E.EP (T.PPredef T.Amp); lit (b "gt;"); xref "26"; lit (b "#60;")]]
                                  [tx [E.EP (T.PPredef T.Amp); lit (b "|"); E.EP (T.PPredef T.Lt); lit (b "|"); E.EP (T.PCData (b "&lt;b&gt;|&#60;|<b/><&"))];
                                   em [] (b "s") [];
                                   el [] (b "p") [at2 [] (b "k") [lit (b "a"); E.EP (T.PPredef T.Amp); lit (b "b"); dref "38"; xref "26"; lit (b "lt;b"); dref "38"; lit (b "gt;")];
                                                  dc1 (b "q") [lit (b "u"); dref "38"; lit (b "v")]]
                                      [tx [dref "60"; lit (b "q/>"); E.EP (T.PPredef T.Amp); lit (b "amp;"); E.EP (T.PPredef T.Lt)]]];
                     d_after := []; d_ws_end := [] |} |}.
Example hoist10 :
  S10.wf_doc ex10_inline = true /\ S10.sem ex10_inline = S10.sem ex10 /\ crate ex10_inline = crate ex10.
Proof. splits; vm_compute; reflexivity. Qed.

(* ------------------------------------------------------------------------------------------ *)
(* 2. necessity of what stays excluded                                                        *)
(* ------------------------------------------------------------------------------------------ *)
Definition r1 (attrs : list (option Scope.bytes * Scope.bytes * Scope.bytes)) nss n : CstNs.vnode := CstNs.VElem None (b "r") attrs nss n.

(* <!ENTITY e "x&#c;y"> ... <r>&e;</r> *)
Definition in_text (c : string) : S10.doc := mk10 [XEntity (xd (b "e") (X4.XText [lit (b "x"); dref c; lit (b "y")]))] [] [rf (b "e")].
(* <!ENTITY e "x&#c;y"> ... <r a="&e;">t</r> *)
Definition in_attr (c : string) : S10.doc :=
  mk10 [XEntity (xd (b "e") (X4.XText [lit (b "x"); dref c; lit (b "y")]))] [at2 [] (b "a") [rf (b "e")]] [lit (b "t")].
(* <!ENTITY e "u&#c;v"> ... <r xmlns:p="&e;">t</r> *)
Definition in_nsuri (c : string) : S10.doc :=
  mk10 [XEntity (xd (b "e") (X4.XText [lit (b "u"); dref c; lit (b "v")]))] [@EDecl epieces (layb [32] [] [] 34) p_ [rf (b "e")]] [lit (b "t")].
(* <!ENTITY e "<p k='x&#c;y'/>"> ... <r>&e;</r> : the reference is written in an attribute value inside a markup entity *)
Definition in_markup_attr (c : string) : S10.doc :=
  mk10 [XEntity (xd (b "e") (X4.XContent [em [] (b "p") [at1 [] (b "k") [lit (b "x"); dref c; lit (b "y")]]]))] [] [rf (b "e")].
(* <!ENTITY e "x CR &#c;y"> ... <r>&e;</r> : the reference directly follows a literal CR of the same literal *)
Definition after_cr (c : string) : S10.doc := mk10 [XEntity (xd (b "e") (X4.XText [lit (b "x" ++ [cr]); dref c; lit (b "y")]))] [] [rf (b "e")].
(* <!ENTITY e "<p>x&#c;y</p>"> ... <r>&e;</r> : in the text of a markup entity *)
Definition in_markup_text (c : string) : S10.doc :=
  mk10 [XEntity (xd (b "e") (X4.XContent [el [] (b "p") [] [tx [lit (b "x"); dref c; lit (b "y")]]]))] [] [rf (b "e")].

(* every one of these is a document of S10 when the character referenced is 'A' (and when it is '&') *)
Example shapes_in_s10 :
  forallb (fun d : string -> S10.doc => S10.wf_doc (d "65"%string) && S10.wf_doc (d "38"%string))
          [in_text; in_attr; in_nsuri; in_markup_attr; after_cr; in_markup_text] = true.
Proof. vm_compute. reflexivity. Qed.

(* (F-CR) in character data the crate turns the referenced CR into LF; inlined it is a CR *)
Example nec_cr_text :
  S10.wf_doc (in_text "13") = false /\
  crate (in_text "13") = Some [r1 [] [] 1; CstNs.VText [120; 10; 121]] /\
  S10.sem (in_text "13") = [r1 [] [] 1; CstNs.VText [120; 13; 121]].
Proof. splits; vm_compute; reflexivity. Qed.
Example nec_cr_markup_text :
  S10.wf_doc (in_markup_text "13") = false /\
  crate (in_markup_text "13") = Some [r1 [] [] 1; CstNs.VElem None (b "p") [] [] 1; CstNs.VText [120; 10; 121]] /\
  S10.sem (in_markup_text "13") = [r1 [] [] 1; CstNs.VElem None (b "p") [] [] 1; CstNs.VText [120; 13; 121]].
Proof. splits; vm_compute; reflexivity. Qed.
(* (F-CR) in an attribute value the crate turns it into a space *)
Example nec_cr_attr :
  S10.wf_doc (in_attr "13") = false /\
  crate (in_attr "13") = Some [r1 [(None, b "a", [120; 32; 121])] [] 1; CstNs.VText (b "t")] /\
  S10.sem (in_attr "13") = [r1 [(None, b "a", [120; 13; 121])] [] 1; CstNs.VText (b "t")].
Proof. splits; vm_compute; reflexivity. Qed.

(* (F-LF) D30: directly after a literal CR the referenced LF pairs with it into one line end; inlined there are two *)
Example nec_lf_after_cr :
  S10.wf_doc (after_cr "10") = false /\
  crate (after_cr "10") = Some [r1 [] [] 1; CstNs.VText [120; 10; 121]] /\
  S10.sem (after_cr "10") = [r1 [] [] 1; CstNs.VText [120; 10; 10; 121]].
Proof. splits; vm_compute; reflexivity. Qed.
(* (F-LF) in an attribute value the crate turns the referenced LF into a space (as XML does); inlined it is a LF *)
Example nec_lf_attr :
  S10.wf_doc (in_attr "10") = false /\
  crate (in_attr "10") = Some [r1 [(None, b "a", [120; 32; 121])] [] 1; CstNs.VText (b "t")] /\
  S10.sem (in_attr "10") = [r1 [(None, b "a", [120; 10; 121])] [] 1; CstNs.VText (b "t")].
Proof. splits; vm_compute; reflexivity. Qed.
Example nec_lf_attr_markup :
  S10.wf_doc (in_markup_attr "10") = false /\
  crate (in_markup_attr "10") = Some [r1 [] [] 1; CstNs.VElem None (b "p") [(None, b "k", [120; 32; 121])] [] 0] /\
  S10.sem (in_markup_attr "10") = [r1 [] [] 1; CstNs.VElem None (b "p") [(None, b "k", [120; 10; 121])] [] 0].
Proof. splits; vm_compute; reflexivity. Qed.

(* (F-TAB) in an attribute value and in a namespace URI the crate turns the referenced TAB into a space *)
Example nec_tab_attr :
  S10.wf_doc (in_attr "9") = false /\
  crate (in_attr "9") = Some [r1 [(None, b "a", [120; 32; 121])] [] 1; CstNs.VText (b "t")] /\
  S10.sem (in_attr "9") = [r1 [(None, b "a", [120; 9; 121])] [] 1; CstNs.VText (b "t")].
Proof. splits; vm_compute; reflexivity. Qed.
Example nec_tab_attr_markup :
  S10.wf_doc (in_markup_attr "9") = false /\
  crate (in_markup_attr "9") = Some [r1 [] [] 1; CstNs.VElem None (b "p") [(None, b "k", [120; 32; 121])] [] 0] /\
  S10.sem (in_markup_attr "9") = [r1 [] [] 1; CstNs.VElem None (b "p") [(None, b "k", [120; 9; 121])] [] 0].
Proof. splits; vm_compute; reflexivity. Qed.
Example nec_tab_nsuri :
  S10.wf_doc (in_nsuri "9") = false /\
  crate (in_nsuri "9") = Some [r1 [] [(Some (b "p"), [117; 32; 118])] 1; CstNs.VText (b "t")] /\
  S10.sem (in_nsuri "9") = [r1 [] [(Some (b "p"), [117; 9; 118])] 1; CstNs.VText (b "t")].
Proof. splits; vm_compute; reflexivity. Qed.

(* in character data TAB, and LF when no literal CR precedes, are what the inlining says: excluded only because the
   same entity may be referenced from an attribute value *)
Example tab_text_agrees :
  S10.wf_doc (in_text "9") = false /\ crate (in_text "9") = Some (S10.sem (in_text "9")) /\
  S10.wf_doc (in_markup_text "9") = false /\ crate (in_markup_text "9") = Some (S10.sem (in_markup_text "9")) /\
  S10.wf_doc (after_cr "9") = false /\ crate (after_cr "9") = Some (S10.sem (after_cr "9")).
Proof. splits; vm_compute; reflexivity. Qed.
Example lf_text_agrees :
  S10.wf_doc (in_text "10") = false /\ crate (in_text "10") = Some (S10.sem (in_text "10")) /\
  S10.wf_doc (in_markup_text "10") = false /\ crate (in_markup_text "10") = Some (S10.sem (in_markup_text "10")).
Proof. splits; vm_compute; reflexivity. Qed.

Print Assumptions s10_wider.
Print Assumptions ex10_parses.
Print Assumptions ex10_meaning.
Print Assumptions hoist10.
Print Assumptions nec_cr_text.
Print Assumptions nec_lf_after_cr.
Print Assumptions nec_tab_nsuri.
