(* TruncBuild.v -- C08, truncation, part 3: the builder against a counter that only looks at
   ElementEnd tokens (nesting depth, and where the first element opened at depth 0 was
   closed).  For documents without entities (no DOCTYPE). *)
From Coq Require Import Ascii String.
From Coq Require Import PeanoNat Lia ZifyBool ZifyN ZifyNat.
From RX Require Import Generated.
From RX.Model Require Import Base CharClass Stream Tokenizer Doc Builder Parse.
From RX.Proofs Require Import Tactics OptionsParam OptionsBuild BudgetStream BudgetBuild BudgetNoEnt.

(** * The counter *)
Record cst := { cs_depth : N; cs_root : option N }.

Definition estep (e : element_end) (r : range) (st : cst) : cst :=
  match e with
  | EOpen => {| cs_depth := cs_depth st + 1; cs_root := cs_root st |}
  | EEmpty =>
    match cs_root st with
    | None => if cs_depth st =? 0 then {| cs_depth := 0; cs_root := Some (snd r) |} else st
    | Some _ => st
    end
  | EClose _ _ =>
    {| cs_depth := cs_depth st - 1;
       cs_root := match cs_root st with
                  | None => if cs_depth st =? 1 then Some (snd r) else None
                  | Some e => Some e
                  end |}
  end.

Definition evd (tk : Tokenizer.token) (st : cst) : res cst :=
  match tk with TElementEnd e r => Ok (estep e r st) | _ => Ok st end.

(* once recorded, the end of the root element stays *)
Lemma evd_root tk st st' e : evd tk st = Ok st' -> cs_root st = Some e -> cs_root st' = Some e.
Proof.
  destruct tk; cbn [evd]; intros H Hr; inversion H; subst; try exact Hr.
  destruct e0; cbn [estep]; rewrite ?Hr; cbn [cs_root]; first [exact Hr | reflexivity].
Qed.

(** * What the invariant looks at in the node vector *)

Definition is_el (nd : node_data) : bool := is_element_kind (nd_kind nd).

(* nodes' is nodes with the same parents and kinds of node (element or not); the ranges are the
   same except at index ex *)
Definition stab (ex : option nat) (nodes nodes' : list node_data) : Prop :=
  length nodes' = length nodes /\
  forall j nd, nth_error nodes j = Some nd ->
    exists nd', nth_error nodes' j = Some nd' /\ nd_parent nd' = nd_parent nd /\
                is_el nd' = is_el nd /\ (Some j <> ex -> nd_range nd' = nd_range nd).

Lemma stab_refl ex nodes : stab ex nodes nodes.
Proof. split; [reflexivity|]. intros j nd H. exists nd. auto. Qed.

Lemma stab_trans nodes1 nodes2 nodes3 ex :
  stab None nodes1 nodes2 -> stab ex nodes2 nodes3 -> stab ex nodes1 nodes3.
Proof.
  intros [L1 H1] [L2 H2]. split; [congruence|]. intros j nd Hj.
  destruct (H1 j nd Hj) as (nd2 & Hj2 & P2 & E2 & R2).
  destruct (H2 j nd2 Hj2) as (nd3 & Hj3 & P3 & E3 & R3).
  exists nd3. split; [exact Hj3|]. split; [congruence|]. split; [congruence|].
  intros Hne. rewrite R3 by exact Hne. apply R2. discriminate.
Qed.

Lemma stab_trans' nodes1 nodes2 nodes3 ex :
  stab ex nodes1 nodes2 -> stab None nodes2 nodes3 -> stab ex nodes1 nodes3.
Proof.
  intros [L1 H1] [L2 H2]. split; [congruence|]. intros j nd Hj.
  destruct (H1 j nd Hj) as (nd2 & Hj2 & P2 & E2 & R2).
  destruct (H2 j nd2 Hj2) as (nd3 & Hj3 & P3 & E3 & R3).
  exists nd3. split; [exact Hj3|]. split; [congruence|]. split; [congruence|].
  intros Hne. rewrite R3 by discriminate. apply R2. exact Hne.
Qed.

Lemma list_upd_nth {A} (f : A -> A) : forall (l : list A) i l', list_upd l i f = Some l' ->
  length l' = length l /\
  forall j, nth_error l' j = if Nat.eqb j i then option_map f (nth_error l j) else nth_error l j.
Proof.
  induction l as [|x l IH]; intros i l' H; destruct i; cbn [list_upd] in H; try discriminate.
  - inversion H; subst. split; [reflexivity|]. intros [|j]; reflexivity.
  - destruct (list_upd l i f) as [r|] eqn:E; [|discriminate]. inversion H; subst.
    destruct (IH _ _ E) as [L Hn]. split; [cbn; congruence|]. intros [|j]; [reflexivity|].
    cbn [nth_error Nat.eqb]. apply Hn.
Qed.

Lemma upd_node_stab nodes i f l (keep_range : bool) :
  (forall nd, nd_parent (f nd) = nd_parent nd /\ is_el (f nd) = is_el nd /\
              (keep_range = true -> nd_range (f nd) = nd_range nd)) ->
  upd_node nodes i f = Ok l ->
  stab (if keep_range then None else Some (N.to_nat i)) nodes l.
Proof.
  intros Hf H. unfold upd_node in H. destruct (list_upd nodes (N.to_nat i) f) as [l0|] eqn:E; [|discriminate].
  inversion H; subst l0. destruct (list_upd_nth _ _ _ _ E) as [L Hn]. split; [exact L|].
  intros j nd Hj. rewrite Hn, Hj. destruct (Nat.eqb j (N.to_nat i)) eqn:Ej.
  - cbn [option_map]. exists (f nd). destruct (Hf nd) as (P & K & R). split; [reflexivity|].
    split; [exact P|]. split; [exact K|]. intros Hne. destruct keep_range; [auto|].
    exfalso. apply Hne. f_equal. apply Nat.eqb_eq. exact Ej.
  - exists nd. auto.
Qed.

Lemma set_next_subtree_all_stab ids : forall nodes v l,
  set_next_subtree_all nodes ids v = Ok l -> stab None nodes l.
Proof.
  induction ids; intros nodes v l H; cbn [set_next_subtree_all] in H.
  - inversion H; subst. apply stab_refl.
  - usteps. eapply stab_trans; [|eapply IHids; eauto].
    eapply (upd_node_stab _ _ _ _ true); [|exact Hb]. intros nd. repeat split; reflexivity.
Qed.

(* appending: the old nodes are stable, the new one is known *)
Lemma append_node_nodes k r c id c' : append_node k r c = Ok (id, c') ->
  id = cnt c /\
  exists nodes1 ndn, stab None (d_nodes (c_doc c)) nodes1 /\
    d_nodes (c_doc c') = nodes1 ++ [ndn] /\
    nd_parent ndn = Some (c_parent_id c) /\ is_el ndn = is_element_kind k /\ nd_range ndn = r.
Proof.
  unfold append_node. intros H. usteps. unfold node_id_new in Hb. usteps.
  split; [reflexivity|].
  set (nodes0 := d_nodes (c_doc c)) in *.
  set (new := {| nd_parent := Some (c_parent_id c); nd_prev_sibling := None; nd_next_subtree := None;
                 nd_last_child := None; nd_kind := k; nd_range := r |}) in *.
  assert (S1 : stab None (nodes0 ++ [new]) a1).
  { eapply (upd_node_stab _ _ _ _ true); [|exact Hb1]. intros nd. repeat split; reflexivity. }
  assert (S2 : stab None a1 a2).
  { eapply (upd_node_stab _ _ _ _ true); [|exact Hb2]. intros nd. repeat split; reflexivity. }
  pose proof (set_next_subtree_all_stab _ _ _ _ Hb3) as S3.
  pose proof (stab_trans _ _ _ _ (stab_trans _ _ _ _ S1 S2) S3) as [L Hs].
  cproj.
  (* split the final list into the old part and the last node *)
  assert (Hlen : length a3 = S (length nodes0)) by (rewrite L, app_length; cbn; lia).
  destruct (Hs (length nodes0) new) as (ndn & Hn & P & K & R).
  { rewrite nth_error_app2 by lia. rewrite Nat.sub_diag. reflexivity. }
  exists (firstn (length nodes0) a3), ndn. split; [|split; [|split; [|split]]].
  - split; [rewrite firstn_length; lia|]. intros j nd Hj.
    assert (Hjl : (j < length nodes0)%nat) by (apply nth_error_Some; congruence).
    destruct (Hs j nd) as (nd' & Hj' & P' & K' & R').
    { rewrite nth_error_app1 by exact Hjl. exact Hj. }
    exists nd'. split; [|auto].
    rewrite <- (firstn_skipn (length nodes0) a3) in Hj'. rewrite nth_error_app1 in Hj'; [exact Hj'|].
    rewrite firstn_length. lia.
  - rewrite <- (firstn_skipn (length nodes0) a3) at 1. f_equal.
    rewrite <- (firstn_skipn (length nodes0) a3) in Hn.
    rewrite nth_error_app2 in Hn by (rewrite firstn_length; lia).
    rewrite firstn_length in Hn. replace (length nodes0 - Nat.min (length nodes0) (length a3))%nat with 0%nat in Hn by lia.
    assert (Hl : length (skipn (length nodes0) a3) = 1%nat) by (rewrite skipn_length; lia).
    destruct (skipn (length nodes0) a3) as [|z [|? ?]]; cbn in Hl; try lia. cbn in Hn. congruence.
  - rewrite P. reflexivity.
  - rewrite K. reflexivity.
  - rewrite R by discriminate. reflexivity.
Qed.

(** * The invariant on the node vector *)

Fixpoint chain (nodes : list node_data) (stk : list N) : Prop :=
  match stk with
  | [] => True
  | x :: r => (exists nd, nth_error nodes (N.to_nat x) = Some nd /\ nd_parent nd = Some (hd 0 r))
              /\ chain nodes r
  end.

Fixpoint desc (stk : list N) : Prop :=
  match stk with
  | [] => True
  | x :: r => (forall y, In y r -> y < x) /\ desc r
  end.

Definition noel (nodes : list node_data) : Prop :=
  forall j nd, nth_error nodes j = Some nd -> is_el nd = false.

Definition firstel (nodes : list node_data) (i : nat) (nd : node_data) : Prop :=
  nth_error nodes i = Some nd /\ is_el nd = true /\
  forall j nd', (j < i)%nat -> nth_error nodes j = Some nd' -> is_el nd' = false.

Definition rootinfo (nodes : list node_data) (stk : list N) (st : cst) : Prop :=
  (noel nodes /\ stk = [] /\ cs_root st = None) \/
  (exists i nd, firstel nodes i nd /\ nd_parent nd = Some 0 /\
     ((cs_root st = None /\ stk <> [] /\ last stk 0 = N.of_nat i) \/
      (cs_root st = Some (snd (nd_range nd)) /\ ~ In (N.of_nat i) stk))).

Definition Jn (nodes : list node_data) (stk : list N) (st : cst) : Prop :=
  cs_depth st = N.of_nat (length stk) /\ desc stk /\
  (forall x, In x stk -> x < len_N nodes) /\ chain nodes stk /\ rootinfo nodes stk st.

Lemma chain_stab ex nodes nodes' stk : stab ex nodes nodes' -> chain nodes stk -> chain nodes' stk.
Proof.
  intros [_ Hs]. induction stk as [|x r IH]; [auto|]. cbn [chain]. intros [(nd & Hn & Hp) Hc].
  split; [|auto]. destruct (Hs _ _ Hn) as (nd' & Hn' & P & _). exists nd'. split; [exact Hn'|congruence].
Qed.

Lemma noel_stab ex nodes nodes' : stab ex nodes nodes' -> noel nodes -> noel nodes'.
Proof.
  intros [L Hs] H j nd' Hj.
  destruct (nth_error nodes j) as [nd|] eqn:E.
  - destruct (Hs _ _ E) as (nd2 & Hn2 & _ & K & _). rewrite Hj in Hn2. inversion Hn2; subst.
    rewrite K. eapply H; eauto.
  - apply nth_error_None in E. assert (j < length nodes')%nat by (apply nth_error_Some; congruence). lia.
Qed.

Lemma firstel_stab ex nodes nodes' i nd : stab ex nodes nodes' -> firstel nodes i nd ->
  exists nd', firstel nodes' i nd' /\ nd_parent nd' = nd_parent nd /\
              (Some i <> ex -> nd_range nd' = nd_range nd).
Proof.
  intros [L Hs] (Hi & He & Hb). destruct (Hs _ _ Hi) as (nd' & Hi' & P & K & R).
  exists nd'. split; [|auto]. split; [exact Hi'|]. split; [congruence|].
  intros j nd2 Hj Hn2. destruct (nth_error nodes j) as [nd0|] eqn:E.
  - destruct (Hs _ _ E) as (nd3 & Hn3 & _ & K3 & _). rewrite Hn2 in Hn3. inversion Hn3; subst.
    rewrite K3. eapply Hb; eauto.
  - apply nth_error_None in E. assert (i < length nodes)%nat by (apply nth_error_Some; congruence). lia.
Qed.

(* nothing but links changed *)
Lemma Jn_same nodes nodes' stk st : stab None nodes nodes' -> Jn nodes stk st -> Jn nodes' stk st.
Proof.
  intros Hs (Hd & Hdesc & Hlt & Hc & Hr). pose proof Hs as [L _].
  split; [exact Hd|]. split; [exact Hdesc|]. split; [|split].
  - intros x Hx. specialize (Hlt x Hx). unfold len_N in *. lia.
  - eapply chain_stab; eauto.
  - destruct Hr as [(Hn & E1 & E2)|(i & nd & Hf & Hp & Hcase)].
    + left. split; [eapply noel_stab; eauto|auto].
    + right. destruct (firstel_stab _ _ _ _ _ Hs Hf) as (nd' & Hf' & P & R).
      exists i, nd'. split; [exact Hf'|]. split; [congruence|]. rewrite R by discriminate. exact Hcase.
Qed.

Lemma nth_snoc_old {A} (l : list A) x j y : nth_error l j = Some y -> nth_error (l ++ [x]) j = Some y.
Proof. intros H. rewrite nth_error_app1; [exact H|]. apply nth_error_Some. congruence. Qed.

Lemma nth_snoc_inv {A} (l : list A) x j y : nth_error (l ++ [x]) j = Some y ->
  nth_error l j = Some y \/ (j = length l /\ y = x).
Proof.
  intros H. destruct (Nat.lt_ge_cases j (length l)) as [Hl|Hl].
  - rewrite nth_error_app1 in H by exact Hl. left. exact H.
  - rewrite nth_error_app2 in H by exact Hl. destruct (j - length l)%nat as [|k] eqn:E.
    + cbn in H. inversion H. right. split; [lia|reflexivity].
    + cbn in H. destruct k; discriminate.
Qed.

Lemma chain_snoc nodes x stk : chain nodes stk -> chain (nodes ++ [x]) stk.
Proof.
  induction stk as [|y r IH]; [auto|]. cbn [chain]. intros [(nd & Hn & Hp) Hc].
  split; [|auto]. exists nd. split; [apply nth_snoc_old; exact Hn|exact Hp].
Qed.

Lemma firstel_snoc nodes x i nd : firstel nodes i nd -> firstel (nodes ++ [x]) i nd.
Proof.
  intros (Hi & He & Hb). split; [apply nth_snoc_old; exact Hi|]. split; [exact He|].
  intros j nd' Hj Hn. destruct (nth_snoc_inv _ _ _ _ Hn) as [H|[H _]]; [eapply Hb; eauto|].
  assert (i < length nodes)%nat by (apply nth_error_Some; congruence). lia.
Qed.

Lemma len_snoc {A} (l : list A) x : len_N (l ++ [x]) = len_N l + 1.
Proof. unfold len_N. rewrite app_length. cbn. lia. Qed.

(* a node that is not an element is appended *)
Lemma Jn_app_nonel nodes ndn stk st : is_el ndn = false -> Jn nodes stk st -> Jn (nodes ++ [ndn]) stk st.
Proof.
  intros Hk (Hd & Hdesc & Hlt & Hc & Hr).
  split; [exact Hd|]. split; [exact Hdesc|]. split; [|split].
  - intros x Hx. specialize (Hlt x Hx). rewrite len_snoc. lia.
  - apply chain_snoc. exact Hc.
  - destruct Hr as [(Hn & E1 & E2)|(i & nd & Hf & Hp & Hcase)].
    + left. split; [|auto]. intros j nd Hj. destruct (nth_snoc_inv _ _ _ _ Hj) as [H|[_ ->]]; [eapply Hn; eauto|exact Hk].
    + right. exists i, nd. split; [apply firstel_snoc; exact Hf|auto].
Qed.

(* an empty element <e/> *)
Lemma Jn_empty nodes ndn stk st r : is_el ndn = true -> nd_parent ndn = Some (hd 0 stk) ->
  snd (nd_range ndn) = snd r -> Jn nodes stk st -> Jn (nodes ++ [ndn]) stk (estep EEmpty r st).
Proof.
  intros Hk Hp He (Hd & Hdesc & Hlt & Hc & Hr).
  assert (Hdep : cs_depth (estep EEmpty r st) = N.of_nat (length stk)).
  { cbn [estep]. destruct (cs_root st); [exact Hd|]. destruct (cs_depth st =? 0) eqn:E; [cbn; lia|exact Hd]. }
  split; [exact Hdep|]. split; [exact Hdesc|]. split; [|split].
  - intros x Hx. specialize (Hlt x Hx). rewrite len_snoc. lia.
  - apply chain_snoc. exact Hc.
  - destruct Hr as [(Hn & E1 & E2)|(i & nd & Hf & Hp0 & Hcase)].
    + (* the first element: the root *)
      subst stk. right. exists (length nodes), ndn. split; [|split].
      * split; [rewrite nth_error_app2 by lia; rewrite Nat.sub_diag; reflexivity|]. split; [exact Hk|].
        intros j nd' Hj Hn'. destruct (nth_snoc_inv _ _ _ _ Hn') as [H|[H _]]; [eapply Hn; eauto|lia].
      * exact Hp.
      * right. cbn [estep]. rewrite E2. cbn [length] in Hd. replace (cs_depth st =? 0) with true by lia.
        cbn [cs_root]. rewrite He. split; [reflexivity|intros []].
    + right. exists i, nd. split; [apply firstel_snoc; exact Hf|]. split; [exact Hp0|].
      destruct Hcase as [(E1 & E2 & E3)|(E1 & E2)].
      * left. cbn [estep]. rewrite E1. destruct stk; [congruence|]. cbn [length] in Hd.
        replace (cs_depth st =? 0) with false by lia. auto.
      * right. cbn [estep]. rewrite E1. auto.
Qed.

(* a start tag <e> *)
Lemma Jn_open nodes ndn stk st r : is_el ndn = true -> nd_parent ndn = Some (hd 0 stk) ->
  Jn nodes stk st -> Jn (nodes ++ [ndn]) (len_N nodes :: stk) (estep EOpen r st).
Proof.
  intros Hk Hp (Hd & Hdesc & Hlt & Hc & Hr).
  split; [cbn [estep cs_depth length]; lia|]. split; [|split; [|split]].
  - cbn [desc]. split; [exact Hlt|exact Hdesc].
  - intros x [<-|Hx]; rewrite len_snoc; [lia|]. specialize (Hlt x Hx). lia.
  - cbn [chain]. split; [|apply chain_snoc; exact Hc].
    exists ndn. split; [|exact Hp]. unfold len_N. rewrite Nat2N.id, nth_error_app2 by lia.
    rewrite Nat.sub_diag. reflexivity.
  - destruct Hr as [(Hn & E1 & E2)|(i & nd & Hf & Hp0 & Hcase)].
    + subst stk. right. exists (length nodes), ndn. split; [|split].
      * split; [rewrite nth_error_app2 by lia; rewrite Nat.sub_diag; reflexivity|]. split; [exact Hk|].
        intros j nd' Hj Hn'. destruct (nth_snoc_inv _ _ _ _ Hn') as [H|[H _]]; [eapply Hn; eauto|lia].
      * exact Hp.
      * left. cbn [estep cs_root]. split; [exact E2|]. split; [discriminate|]. reflexivity.
    + right. exists i, nd. split; [apply firstel_snoc; exact Hf|]. split; [exact Hp0|].
      assert (Hi : (i < length nodes)%nat) by (destruct Hf as (Hi & _); apply nth_error_Some; congruence).
      destruct Hcase as [(E1 & E2 & E3)|(E1 & E2)].
      * left. cbn [estep cs_root]. split; [exact E1|]. split; [discriminate|].
        destruct stk; [congruence|]. exact E3.
      * right. cbn [estep cs_root]. split; [exact E1|]. intros [H|H]; [unfold len_N in H; lia|auto].
Qed.

(* an end tag: the node on top of the stack gets its final range end *)
Lemma Jn_close nodes nodes' x rs st pr lo r ndx :
  stab (Some (N.to_nat x)) nodes nodes' ->
  nth_error nodes' (N.to_nat x) = Some ndx -> snd (nd_range ndx) = snd r ->
  Jn nodes (x :: rs) st -> Jn nodes' rs (estep (EClose pr lo) r st).
Proof.
  intros Hs Hx He (Hd & Hdesc & Hlt & Hc & Hr). pose proof Hs as [L _].
  cbn [length] in Hd. cbn [desc] in Hdesc. destruct Hdesc as [Hxr Hdesc]. cbn [chain] in Hc. destruct Hc as [_ Hc].
  split; [cbn [estep cs_depth]; lia|]. split; [exact Hdesc|]. split; [|split].
  - intros y Hy. specialize (Hlt y (or_intror Hy)). unfold len_N in *. lia.
  - eapply chain_stab; eauto.
  - destruct Hr as [(_ & E1 & _)|(i & nd & Hf & Hp0 & Hcase)]; [discriminate|].
    destruct (firstel_stab _ _ _ _ _ Hs Hf) as (nd' & Hf' & P & R).
    right. exists i, nd'. split; [exact Hf'|]. split; [congruence|].
    destruct Hcase as [(E1 & _ & E3)|(E1 & E2)].
    + destruct rs as [|y rs'].
      * (* the root element is closed *)
        cbn [last] in E3. right. cbn [estep cs_root]. rewrite E1.
        replace (cs_depth st =? 1) with true by (cbn [length] in Hd; lia).
        split; [|intros []]. f_equal.
        assert (N.to_nat x = i) by lia. subst i. destruct Hf' as (Hi' & _). rewrite Hx in Hi'. inversion Hi'; subst.
        symmetry. exact He.
      * left. cbn [estep cs_root]. rewrite E1.
        replace (cs_depth st =? 1) with false by (cbn [length] in Hd; lia).
        split; [reflexivity|]. split; [discriminate|]. exact E3.
    + right. cbn [estep cs_root]. rewrite E1. split.
      * f_equal. rewrite R; [reflexivity|]. intros Heq. inversion Heq. apply E2. left. lia.
      * intros Hin. apply E2. right. exact Hin.
Qed.

(** * The builder functions: what they keep, what they do to the node vector *)

Definition frame (c c' : context) : Prop :=
  c_parent_id c' = c_parent_id c /\ c_parent_prefixes c' = c_parent_prefixes c /\
  c_entities c' = c_entities c /\ c_entity_floor c' = c_entity_floor c.

Lemma frame_refl c : frame c c.
Proof. unfold frame. auto. Qed.
Lemma frame_trans a b c : frame a b -> frame b c -> frame a c.
Proof. unfold frame. intros (?&?&?&?) (?&?&?&?). repeat split; congruence. Qed.

Ltac frm := unfold frame in *; cproj;
  repeat match goal with H : _ /\ _ |- _ => destruct H end;
  repeat split; try reflexivity; try congruence.

Section WithText.
Variable text : bytes.

Lemma fr_append_node k r c id c' : append_node k r c = Ok (id, c') -> frame c c'.
Proof. unfold append_node. intros H. usteps. frm. Qed.

Lemma fr_append_text t r c c' : append_text t r c = Ok c' ->
  frame c c' /\
  (stab None (d_nodes (c_doc c)) (d_nodes (c_doc c')) \/
   exists nodes1 ndn, stab None (d_nodes (c_doc c)) nodes1 /\
     d_nodes (c_doc c') = nodes1 ++ [ndn] /\ is_el ndn = false).
Proof.
  unfold append_text. intros H. usteps.
  - pose proof (fr_append_node _ _ _ _ _ Hb0) as Hf.
    destruct (append_node_nodes _ _ _ _ _ Hb0) as (_ & nodes1 & ndn & Hs & Hn & _ & Hk & _).
    split; [frm|]. right. exists nodes1, ndn. cproj. split; [exact Hs|]. split; [exact Hn|].
    rewrite Hk. reflexivity.
  - split; [frm|]. left. cproj. apply stab_refl.
Qed.

Lemma nth_last_rev {A} (l : list A) x r : rev l = x :: r -> nth_error l (length l - 1) = Some x.
Proof.
  intros H. assert (E : l = rev r ++ [x]) by (rewrite <- (rev_involutive l), H; reflexivity).
  rewrite E, app_length. cbn [length]. rewrite nth_error_app2 by lia.
  replace (length (rev r) + 1 - 1 - length (rev r))%nat with 0%nat by lia. reflexivity.
Qed.

Lemma fr_merge_text c c' : merge_text text c = Ok c' ->
  frame c c' /\ stab None (d_nodes (c_doc c)) (d_nodes (c_doc c')).
Proof.
  unfold merge_text. intros H. usteps. split; [frm|]. cproj.
  unfold upd_node in Hb. destruct (list_upd _ _ _) as [l0|] eqn:E; [|discriminate]. inversion Hb; subst l0.
  destruct (list_upd_nth _ _ _ _ E) as [L Hn]. split; [exact L|].
  intros j nd Hj. rewrite Hn, Hj. destruct (Nat.eqb j _) eqn:Ej; [|exists nd; auto].
  cbn [option_map]. eexists. split; [reflexivity|]. cbn [nd_set_kind nd_parent nd_range]. split; [reflexivity|].
  split; [|reflexivity].
  apply Nat.eqb_eq in Ej. pose proof (nth_last_rev _ _ _ Heql) as Hl.
  assert (Ejj : j = (length (d_nodes (c_doc c)) - 1)%nat) by (unfold len_N in Ej; lia).
  rewrite Ejj, Hl in Hj. inversion Hj; subst nd. unfold is_el. cbn [nd_kind]. rewrite Heqn0. reflexivity.
Qed.

Lemma fr_reset_after_text c c' : reset_after_text text c = Ok c' ->
  frame c c' /\ stab None (d_nodes (c_doc c)) (d_nodes (c_doc c')).
Proof.
  unfold reset_after_text. intros H. usteps.
  - split; [apply frame_refl|apply stab_refl].
  - split; [frm|cproj; apply stab_refl].
  - destruct (fr_merge_text _ _ Hb) as [Hf Hs]. split; [frm|cproj; exact Hs].
Qed.

Lemma fr_resolve_namespaces c x c' : resolve_namespaces text c = Ok (x, c') ->
  frame c c' /\ d_nodes (c_doc c') = d_nodes (c_doc c).
Proof.
  unfold resolve_namespaces. intros H. usteps; (split; [frm|]); cproj; try reflexivity.
  eapply resolve_ns_loop_nodes; eauto.
Qed.

Lemma fr_resolve_attributes nss c x c' : resolve_attributes text nss c = Ok (x, c') ->
  frame c c' /\ d_nodes (c_doc c') = d_nodes (c_doc c).
Proof.
  unfold resolve_attributes. intros H. usteps; (split; [frm|]); cproj; try reflexivity.
  eapply resolve_attrs_loop_nodes; eauto.
Qed.

Lemma fr_process_attribute r q e p l v c c' : process_attribute text r q e p l v c = Ok c' ->
  frame c c' /\ d_nodes (c_doc c') = d_nodes (c_doc c).
Proof.
  unfold process_attribute, normalize_attribute. intros H.
  usteps; (split; [frm|]); cproj; try reflexivity;
  repeat match goal with H : push_ns _ _ _ _ = Ok _ |- _ => apply push_ns_nodes in H end; congruence.
Qed.

(** * The invariant on contexts, token by token *)

Definition cstep (tk : Tokenizer.token) (st : cst) : cst :=
  match tk with TElementEnd e r => estep e r st | _ => st end.

Lemma evd_cstep tk st : evd tk st = Ok (cstep tk st).
Proof. destruct tk; reflexivity. Qed.

Definition Jc (c : context) (st : cst) : Prop :=
  exists stk, c_entities c = [] /\ c_entity_floor c = 0 /\ c_parent_id c = hd 0 stk /\
              len_N (c_parent_prefixes c) = N.of_nat (length stk) + 1 /\
              Jn (d_nodes (c_doc c)) stk st.

(* the fields besides the nodes are kept, the nodes only change in their links *)
Lemma Jc_same c c' st : frame c c' -> stab None (d_nodes (c_doc c)) (d_nodes (c_doc c')) ->
  Jc c st -> Jc c' st.
Proof.
  intros (F1 & F2 & F3 & F4) Hs (stk & E1 & E2 & E3 & E4 & HJ).
  exists stk. rewrite F1, F2, F3, F4.
  split; [exact E1|]. split; [exact E2|]. split; [exact E3|]. split; [exact E4|]. eapply Jn_same; eauto.
Qed.

Lemma Jc_app_nonel c c' st nodes1 ndn : frame c c' ->
  stab None (d_nodes (c_doc c)) nodes1 -> d_nodes (c_doc c') = nodes1 ++ [ndn] -> is_el ndn = false ->
  Jc c st -> Jc c' st.
Proof.
  intros (F1 & F2 & F3 & F4) Hs Hn Hk (stk & E1 & E2 & E3 & E4 & HJ).
  exists stk. rewrite F1, F2, F3, F4, Hn.
  split; [exact E1|]. split; [exact E2|]. split; [exact E3|]. split; [exact E4|].
  apply Jn_app_nonel; [exact Hk|]. eapply Jn_same; eauto.
Qed.

Lemma Jc_append_text t r c c' st : append_text t r c = Ok c' -> Jc c st -> Jc c' st.
Proof.
  intros H HJ. destruct (fr_append_text _ _ _ _ H) as [Hf [Hs|(nodes1 & ndn & Hs & Hn & Hk)]].
  - eapply Jc_same; eauto.
  - eapply Jc_app_nonel; eauto.
Qed.

Lemma Jc_reset c c' st : reset_after_text text c = Ok c' -> Jc c st -> Jc c' st.
Proof. intros H HJ. destruct (fr_reset_after_text _ _ H) as [Hf Hs]. eapply Jc_same; eauto. Qed.

Lemma Jc_append_nonel k r c id c' st : append_node k r c = Ok (id, c') -> is_element_kind k = false ->
  Jc c st -> Jc c' st.
Proof.
  intros H Hk HJ. pose proof (fr_append_node _ _ _ _ _ H) as Hf.
  destruct (append_node_nodes _ _ _ _ _ H) as (_ & nodes1 & ndn & Hs & Hn & _ & Hk' & _).
  eapply Jc_app_nonel; eauto; congruence.
Qed.

Lemma Jc_text t r c c' st : c_entities c = [] -> process_text text t r c = Ok c' -> Jc c st -> Jc c' st.
Proof.
  intros He H HJ. unfold process_text in H. rewrite process_text_with_eq in H.
  destruct (negb (existsb _ _)); [eapply Jc_append_text; eauto|].
  apply bind_ok in H. destruct H as [s0 [_ H]]. cbv beta in H.
  apply bind_ok in H. destruct H as [[buf c1] [Hl H]]. cbv beta iota in H.
  apply pt_loop_noent in Hl; [|exact He]. subst c1.
  destruct (negb (tb_is_empty buf)).
  - apply bind_ok in H. destruct H as [bs [_ H]]. eapply Jc_append_text; eauto.
  - inversion H; subst. exact HJ.
Qed.

Lemma Jc_cdata t r c c' st : process_cdata text t r c = Ok c' -> Jc c st -> Jc c' st.
Proof.
  unfold process_cdata. intros H HJ. destruct (mem_b 13 _); eapply Jc_append_text; eauto.
Qed.

Lemma Jc_element e r c c' st : process_element text e r c = Ok c' -> Jc c st ->
  Jc c' (estep e r st).
Proof.
  unfold process_element. intros H HJ.
  destruct (slice_len (tn_name (c_tag_name c)) =? 0).
  { destruct e; try discriminate. exfalso. eapply err_from_not_ok; eauto. }
  apply bind_ok in H. destruct H as [[nss c1] [H1 H]]. cbv beta iota zeta in H.
  apply bind_ok in H. destruct H as [[ats c2] [H2 H]]. cbv beta iota zeta in H.
  destruct (fr_resolve_namespaces _ _ _ H1) as [F1 N1].
  destruct (fr_resolve_attributes _ _ _ _ H2) as [F2 N2]. cproj.
  assert (HJ2 : Jc c2 st).
  { eapply (Jc_same c); [| |exact HJ].
    - clear - F1 F2. frm.
    - rewrite N2, N1. apply stab_refl. }
  clear HJ H1 H2 F1 F2 N1 N2.
  destruct HJ2 as (stk & E1 & E2 & E3 & E4 & HJ).
  destruct e as [|pr lo|].
  - (* <e> *)
    apply bind_ok in H. destruct H as [ns [_ H]]. cbv beta in H.
    apply bind_ok in H. destruct H as [[id c3] [H3 H]]. cbv beta iota in H. inversion H; subst c'. clear H.
    pose proof (fr_append_node _ _ _ _ _ H3) as (F1 & F2 & F3 & F4).
    destruct (append_node_nodes _ _ _ _ _ H3) as (Eid & nodes1 & ndn & Hs & Hn & Hp & Hk & Hr).
    exists (id :: stk). cproj. rewrite F3, F4, Hn. split; [exact E1|]. split; [exact E2|]. split; [reflexivity|].
    split.
    { unfold len_N in *. rewrite F2, app_length. cbn [length]. lia. }
    assert (El : id = len_N nodes1).
    { rewrite Eid. unfold cnt, len_N. destruct Hs as [L _]. rewrite L. reflexivity. }
    rewrite El. apply Jn_open; [rewrite Hk; reflexivity|rewrite Hp, E3; reflexivity|].
    eapply Jn_same; eauto.
  - (* </e> *)
    destruct (len_N (c_parent_prefixes c2) <=? c_entity_floor c2); [exfalso; eapply err_from_not_ok; eauto|].
    apply bind_ok in H. destruct H as [pnd [Hpnd H]]. cbv beta in H.
    apply bind_ok in H. destruct H as [pp [_ H]]. cbv beta in H.
    apply bind_ok in H. destruct H as [nodes' [Hupd H]]. cbv beta zeta in H.
    apply bind_ok in H. destruct H as [u [_ H]]. cbv beta zeta in H.
    destruct (nd_parent pnd) as [pid|] eqn:Epid; [|exfalso; eapply err_from_not_ok; eauto].
    cproj.
    destruct (removelast (c_parent_prefixes c2)) as [|q qs] eqn:Erl; [discriminate|].
    inversion H; subst c'. clear H.
    destruct stk as [|x rs].
    { (* depth 0: the prefixes would become empty *)
      exfalso. cbn [length] in E4. destruct (c_parent_prefixes c2) as [|a [|b l]]; cbn in *; try discriminate; lia. }
    cbn [hd] in E3.
    assert (Hst : stab (Some (N.to_nat x)) (d_nodes (c_doc c2)) nodes').
    { rewrite <- E3. eapply (upd_node_stab _ _ _ _ false); [|exact Hupd]. intros nd. repeat split; try reflexivity.
      discriminate. }
    (* the node that is closed *)
    assert (Hx : exists ndx, nth_error nodes' (N.to_nat x) = Some ndx /\ snd (nd_range ndx) = snd r).
    { unfold upd_node in Hupd. destruct (list_upd _ _ _) as [l0|] eqn:El; [|discriminate]. inversion Hupd; subst l0.
      destruct (list_upd_nth _ _ _ _ El) as [_ Hn]. rewrite E3 in Hn. specialize (Hn (N.to_nat x)).
      rewrite Nat.eqb_refl in Hn.
      destruct (nth_N (d_nodes (c_doc c2)) (c_parent_id c2)) as [p0|] eqn:Ep; [|discriminate].
      unfold nth_N in Ep. destruct (_ <=? _); [discriminate|]. rewrite E3 in Ep. rewrite Ep in Hn. cbn [option_map] in Hn.
      eexists. split; [exact Hn|]. reflexivity. }
    destruct Hx as (ndx & Hx & Hxe).
    (* the parent link of the closed node *)
    assert (Hpid : pid = hd 0 rs).
    { destruct HJ as (_ & _ & _ & Hc & _). cbn [chain] in Hc. destruct Hc as [(nd & Hn & Hp) _].
      destruct (nth_N (d_nodes (c_doc c2)) (c_parent_id c2)) as [p0|] eqn:Ep; [|discriminate].
      inversion Hpnd; subst p0. unfold nth_N in Ep. destruct (_ <=? _); [discriminate|].
      rewrite E3, Hn in Ep. inversion Ep; subst nd. congruence. }
    exists rs. cproj. split; [exact E1|]. split; [exact E2|]. split; [exact Hpid|]. split.
    { rewrite <- Erl. unfold len_N in *. cbn [length] in E4.
      assert (Hrl : forall (l : list slice), l <> [] -> length (removelast l) = (length l - 1)%nat).
      { intros l Hl. pose proof (app_removelast_last empty_slice Hl) as E.
        apply (f_equal (@length _)) in E. rewrite app_length in E. cbn [length] in E. lia. }
      rewrite Hrl; [lia|]. intros Hn. rewrite Hn in Erl. discriminate. }
    eapply Jn_close; eauto.
  - (* <e/> *)
    apply bind_ok in H. destruct H as [ns [_ H]]. cbv beta in H.
    apply bind_ok in H. destruct H as [[id c3] [H3 H]]. cbv beta iota in H. inversion H; subst c'. clear H.
    pose proof (fr_append_node _ _ _ _ _ H3) as (F1 & F2 & F3 & F4).
    destruct (append_node_nodes _ _ _ _ _ H3) as (Eid & nodes1 & ndn & Hs & Hn & Hp & Hk & Hr).
    exists stk. cproj. rewrite F1, F2, F3, F4, Hn.
    split; [exact E1|]. split; [exact E2|]. split; [exact E3|]. split; [exact E4|].
    apply Jn_empty; [rewrite Hk; reflexivity|rewrite Hp, E3; reflexivity|rewrite Hr; reflexivity|].
    eapply Jn_same; eauto.
Qed.

(* every token of a document without entity declarations *)
Lemma Jc_token tk c c' st : BudgetTok.is_decl tk = false -> token text tk c = Ok c' -> Jc c st ->
  Jc c' (cstep tk st).
Proof.
  intros Hd H HJ. unfold token in H.
  destruct tk; cbn [BudgetTok.is_decl] in Hd; try discriminate; cbn [token_with cstep] in *.
  - usteps. eapply Jc_append_nonel; eauto. eapply Jc_reset; eauto.
  - usteps. eapply Jc_append_nonel; eauto. eapply Jc_reset; eauto.
  - usteps. pose proof (Jc_reset _ _ _ Hb HJ) as (stk & E1 & E2 & E3 & E4 & HJn).
    exists stk. cproj. auto.
  - destruct (fr_process_attribute _ _ _ _ _ _ _ _ H) as [Hf Hn].
    eapply Jc_same; eauto. rewrite Hn. apply stab_refl.
  - usteps. eapply Jc_element; eauto. eapply Jc_reset; eauto.
  - destruct HJ as (stk & E1 & HJ'). eapply Jc_text; eauto. exists stk. auto.
  - eapply Jc_cdata; eauto.
Qed.

End WithText.
