(* Proofs/ApiUserExample.v -- the theorems of Proofs/ApiUserS7.v on a closed example: the sample document ex1 of
   Proofs/CstFullS6Sanity.v (byte order mark, XML declaration, DOCTYPE with PUBLIC identifier and an internal subset
   with comments, PIs, character-data and MARKUP entities; prefixes bound through entity references; CR everywhere).
   [ex1_predicted]: what the theorems say the API returns on the parsed document, the right-hand sides computed from
   the WRITTEN document ([S7.sem ex1]) by vm_compute;  [ex1_computed]: the same API calls evaluated by vm_compute on
   the document the model of the parser returns.  The two lists of results are the same. *)
From Coq Require Import Ascii String.
From Coq Require Import List NArith Bool Lia.
Import ListNotations.
From RX Require Import Generated.
From RX.Model Require Import Base Stream Tokenizer Doc Builder Parse Api.
From RX.Spec Require Scope CstNs CstU.
From RX.Spec Require Import CstFull CstFullS6 CstFullS7.
From RX.Proofs Require Import CstNsView CstFullMain CstFullS6Sanity.
From RX.Proofs Require Import ApiViewAcc ApiView ApiUserCore ApiUserS7.
Open Scope N_scope.

Definition optx := {| allow_dtd := true; nodes_limit := default_nodes_limit |}.
Definition text1 : bytes := S7.render ex1.

Lemma ex1_ok : s7_ok ex1 optx.
Proof.
  unfold s7_ok.
  split; [vm_compute; reflexivity|]. split; [intros _; reflexivity|]. split; [vm_compute; intros H; discriminate H|].
  split; [vm_compute; reflexivity|]. split; [vm_compute; reflexivity|]. split; [vm_compute; reflexivity|]. split.
  - unfold S7.distinct_decls_le, S6.distinct_decls_le, X4.S4.distinct_decls_le.
    match goal with |- match ?x with _ => _ end => let y := eval vm_compute in x in change x with y end.
    apply distinct_by_count.
    match goal with |- (length ?l <= _)%nat => let n := eval vm_compute in (length l) in change (length l) with n end. lia.
  - vm_compute. intros H. discriminate H.
Qed.

(* the queries *)
Definition name_a : option bytes * bytes := (None, b "a").
Definition name_inner_a : option bytes * bytes := (Some (b "inner"), b "a").
Definition uri_outer_q : bytes := b "outer-q".
Definition uri_other_q : bytes := b "other-q".

(* the results: (root_element, node types in document order,
                 root: tag_name, has_tag_name (2), attribute (2), has_attribute, lookup_namespace_uri (3), default_namespace,
                       lookup_prefix (3), number of children,
                 the element x (from the markup entity, inside c): tag_name, attribute with a namespace, lookup_namespace_uri q, lookup_prefix,
                 a text, a comment, a PI) *)
Definition results (doc : document) :=
  ( root_element doc,
    (let! it := descendants doc 0 in mapM (node_type doc) (sit_list it)),
    ( tag_name text1 doc 6, has_tag_name text1 doc 6 (None, [229; 144; 141]), has_tag_name text1 doc 6 (Some (b "urn:"), [229; 144; 141]),
      attribute text1 doc 6 name_a, attribute text1 doc 6 name_inner_a, has_attribute text1 doc 6 name_a,
      lookup_namespace_uri text1 doc 6 (Some (b "p")), lookup_namespace_uri text1 doc 6 (Some (b "q")), lookup_namespace_uri text1 doc 6 (Some (b "r")),
      default_namespace text1 doc 6,
      lookup_prefix text1 doc 6 uri_outer_q, lookup_prefix text1 doc 6 Scope.xml_uri, lookup_prefix text1 doc 6 uri_other_q,
      match children_list doc 6 with Ok ch => Some (length ch) | _ => None end ),
    ( tag_name text1 doc 14, attribute text1 doc 14 name_inner_a, lookup_namespace_uri text1 doc 14 (Some (b "q")),
      lookup_prefix text1 doc 14 (b "inner") ),
    ( match text_storage doc 10 with Ok (Some st) => Some (storage_bytes text1 st) | _ => None end,
      match text_storage doc 5 with Ok (Some st) => Some (storage_bytes text1 st) | _ => None end,
      pi text1 doc 4 ) ).

Definition expected :=
  ( @Ok N 6,
    @Ok (list ntype) [NtRoot; NtComment; NtPI; NtComment; NtPI; NtComment; NtElement; NtElement; NtText; NtElement; NtText; NtText;
        NtElement; NtText; NtElement; NtText; NtElement; NtText; NtText; NtComment],
    ( @Ok (option bytes * bytes) (Some [117; 114; 110; 58; 229; 144; 141; 32], [229; 144; 141]), @Ok bool true, @Ok bool false,
      @Ok (option bytes) (Some [229; 144; 141; 32; 120]), @Ok (option bytes) None, @Ok bool true,
      @Ok (option bytes) (Some [117; 114; 110; 58; 229; 144; 141; 32]), @Ok (option bytes) (Some (b "outer-q")), @Ok (option bytes) None,
      @Ok (option bytes) None,
      @Ok (option bytes) (Some (b "q")), @Ok (option bytes) (Some (b "xml")), @Ok (option bytes) None,
      Some 5%nat ),
    ( @Ok (option bytes * bytes) (Some (b "inner"), b "x"), @Ok (option bytes) (Some [117; 114; 110; 58; 229; 144; 141; 32]),
      @Ok (option bytes) (Some (b "other-q")), @Ok (option bytes) (Some (b "p")) ),
    ( Some [117; 114; 110; 58; 229; 144; 141; 10], Some [240; 159; 152; 128],
      @Ok (option (bytes * option bytes)) (Some (b "pi", Some (b "in the subset"))) ) ).

(* evaluated on the document the parser returns *)
Example ex1_computed : match parse text1 optx with Ok doc => results doc = expected | _ => False end.
Proof. vm_compute. reflexivity. Qed.

(* predicted from the written document by the theorems of Proofs/ApiUserS7.v *)
Ltac entry k H :=
  let v := eval vm_compute in (nth_error (S7.sem ex1) k) in
  assert (H : nth_error (S7.sem ex1) k = v) by (vm_compute; reflexivity).

Example ex1_predicted : forall doc, parse text1 optx = Ok doc -> results doc = expected.
Proof.
  intros doc P. unfold results, expected, text1 in *.
  destruct (user_nodes ex1 optx doc ex1_ok P) as (D & L & T0 & Tk).
  entry 5%nat E5. entry 13%nat E13. entry 9%nat E9. entry 4%nat E4. entry 3%nat E3.
  (* (A1) *)
  destruct (user_root_element ex1 optx doc ex1_ok P _ _ _ _ eq_refl) as (R & _).
  repeat match goal with |- (_, _) = (_, _) => f_equal end.
  - exact R.
  - (* (A3) *) rewrite D. cbn [bind]. rewrite L. cbn [mapM]. rewrite T0. cbn [bind].
    assert (M : forall l, mapM (node_type doc) (map id_of l) =
                          mapM (fun k => match nth_error (S7.sem ex1) k with Some v => Ok (ntype_of v) | None => node_type doc (id_of k) end) l).
    { induction l as [|k r IH]; [reflexivity|]. cbn [map mapM]. rewrite IH.
      destruct (nth_error (S7.sem ex1) k) as [v|] eqn:E; [rewrite (Tk k v E)|]; reflexivity. }
    rewrite M. vm_compute. reflexivity.
  - (* (A2) on the root *) exact (user_tag_name ex1 optx doc ex1_ok P _ _ _ _ _ _ E5).
  - etransitivity; [apply (user_has_tag_name ex1 optx doc ex1_ok P _ _ _ _ _ _ E5)|vm_compute; reflexivity].
  - etransitivity; [apply (user_has_tag_name ex1 optx doc ex1_ok P _ _ _ _ _ _ E5)|vm_compute; reflexivity].
  - etransitivity; [apply (user_attribute ex1 optx doc ex1_ok P _ _ _ _ _ _ E5)|vm_compute; reflexivity].
  - etransitivity; [apply (user_attribute ex1 optx doc ex1_ok P _ _ _ _ _ _ E5)|vm_compute; reflexivity].
  - etransitivity; [apply (user_has_attribute ex1 optx doc ex1_ok P _ _ _ _ _ _ E5)|vm_compute; reflexivity].
  - etransitivity; [apply (user_lookup_namespace_uri ex1 optx doc ex1_ok P _ _ _ _ _ _ E5)|vm_compute; reflexivity].
  - etransitivity; [apply (user_lookup_namespace_uri ex1 optx doc ex1_ok P _ _ _ _ _ _ E5)|vm_compute; reflexivity].
  - etransitivity; [apply (user_lookup_namespace_uri ex1 optx doc ex1_ok P _ _ _ _ _ _ E5)|vm_compute; reflexivity].
  - etransitivity; [apply (user_default_namespace ex1 optx doc ex1_ok P _ _ _ _ _ _ E5)|vm_compute; reflexivity].
  - etransitivity; [apply (user_lookup_prefix ex1 optx doc ex1_ok P _ _ _ _ _ _ E5)|vm_compute; reflexivity].
  (* lookup_prefix of the XML namespace: closed by computation already *)
  - etransitivity; [apply (user_lookup_prefix ex1 optx doc ex1_ok P _ _ _ _ _ _ E5)|vm_compute; reflexivity].
  - destruct (user_children ex1 optx doc ex1_ok P _ _ _ _ _ _ E5) as (ch & C1 & C2). change (id_of 5) with 6 in C1. rewrite C1, C2. reflexivity.
  - (* (A2) on the element x that comes from the markup entity, inside c *)
    exact (user_tag_name ex1 optx doc ex1_ok P _ _ _ _ _ _ E13).
  - etransitivity; [apply (user_attribute ex1 optx doc ex1_ok P _ _ _ _ _ _ E13)|vm_compute; reflexivity].
  - etransitivity; [apply (user_lookup_namespace_uri ex1 optx doc ex1_ok P _ _ _ _ _ _ E13)|vm_compute; reflexivity].
  - etransitivity; [apply (user_lookup_prefix ex1 optx doc ex1_ok P _ _ _ _ _ _ E13)|vm_compute; reflexivity].
  - (* (A4) *) destruct (user_text ex1 optx doc ex1_ok P _ _ E9) as (st & S1 & S2). change (id_of 9) with 10 in S1. rewrite S1, S2. reflexivity.
  - destruct (user_comment ex1 optx doc ex1_ok P _ _ E4) as (st & S1 & S2). change (id_of 4) with 5 in S1. rewrite S1, S2. reflexivity.
  - exact (user_pi ex1 optx doc ex1_ok P _ _ _ E3).
Qed.

Print Assumptions ex1_ok.
Print Assumptions ex1_computed.
Print Assumptions ex1_predicted.
