(* Proofs/CstULex.v -- lexer completeness over UNICODE (Spec/CstU.v): the stream invariant is
   "the remaining input is a concatenation of UTF-8 encodings"; the char-level consumers of
   Model/Stream.v step by whole characters (decode1 of an encoding is the character).  The
   byte-level primitives are those of Proofs/CstLex.v. *)
From Coq Require Import Ascii String.
From Coq Require Import List NArith PeanoNat Bool Lia ZifyBool ZifyN ZifyNat.
Import ListNotations.
From RX Require Import Generated.
From RX.Model Require Import Base CharClass Stream Tokenizer.
From RX.Spec Require Cst Chars CstU.
From RX.Proofs Require Import CstLex.
From RX.Proofs Require NoPanicUtf8 CharTablesProofs.
Module U8 := NoPanicUtf8.
Open Scope N_scope.

Notation utf8 := CstU.utf8.
Notation utf8s := CstU.utf8s.

(* ------------------------------------------------------------------------------------------ *)
(* UTF-8                                                                                      *)
(* ------------------------------------------------------------------------------------------ *)

Lemma utf8_enc c : utf8 c = encode_utf8 c.
Proof. reflexivity. Qed.

Lemma utf8s_cons c cs : utf8s (c :: cs) = utf8 c ++ utf8s cs.
Proof. reflexivity. Qed.

Lemma utf8s_app a r : utf8s (a ++ r) = utf8s a ++ utf8s r.
Proof. unfold CstU.utf8s. apply flat_map_app. Qed.

Lemma utf8_ascii c : c < 128 -> utf8 c = [c].
Proof. intros H. unfold CstU.utf8. replace (c <? 128) with true by lia. reflexivity. Qed.

Lemma utf8_high c : 128 <= c -> Forall (fun x => 128 <= x) (utf8 c) /\ exists b0 r, utf8 c = b0 :: r /\ 192 <= b0.
Proof.
  intros H. split.
  - pose proof (U8.encode_high c ltac:(lia)) as E. rewrite forallb_forall in E. apply Forall_forall.
    intros x Hx. specialize (E x Hx). lia.
  - unfold CstU.utf8. replace (c <? 128) with false by lia.
    destruct (c <? 2048); [|destruct (c <? 65536)]; eexists; eexists; (split; [reflexivity|lia]).
Qed.

Lemma utf8_len c : 1 <= blen (utf8 c).
Proof. pose proof (U8.encode_nonempty c). unfold blen. rewrite utf8_enc. lia. Qed.

Lemma utf8s_len_le cs : (length cs <= length (utf8s cs))%nat.
Proof.
  induction cs as [|c cs IH]; [cbn; lia|]. rewrite utf8s_cons, app_length. pose proof (U8.encode_nonempty c).
  rewrite utf8_enc. cbn [length]. lia.
Qed.

Definition scalars_ok (cs : list N) : Prop := Forall (fun c => is_scalar c = true) cs.

Lemma Valid_utf8s cs : scalars_ok cs -> U8.Valid (utf8s cs).
Proof.
  induction 1 as [|c cs Hc _ IH]; [constructor|]. rewrite utf8s_cons, utf8_enc. constructor; assumption.
Qed.

Lemma Valid_lit l : forallb (fun x => x <? 128) l = true -> U8.Valid l.
Proof.
  induction l as [|x l IH]; intros H; [constructor|]. cbn [forallb] in H. apply andb_true_iff in H.
  destruct H as [H1 H2]. change (x :: l) with ([x] ++ l). apply U8.Valid_app; [apply U8.Valid_ascii; exact H1|auto].
Qed.

Lemma Valid_head x r : U8.Valid (x :: r) -> is_cont x = false.
Proof.
  intros H. inversion H as [|c r0 Hc _ E]. destruct (c <? 128) eqn:Ec.
  - rewrite (U8.encode_ascii c Ec) in E. injection E as <- _. unfold is_cont. lia.
  - destruct (utf8_high c ltac:(lia)) as (_ & b0 & r1 & E1 & Hb). rewrite utf8_enc in E1. rewrite E1 in E.
    injection E as <- _. unfold is_cont. lia.
Qed.

Lemma Valid_app_inv : forall x l, U8.Valid x -> U8.Valid (x ++ l) -> U8.Valid l.
Proof.
  intros x l Hx. induction Hx as [|c r Hc _ IH]; intros H; [exact H|].
  rewrite <- app_assoc in H. inversion H as [|c' r' Hc' Hr' E].
  - exfalso. pose proof (U8.encode_nonempty c). destruct (encode_utf8 c); [cbn in *; lia|discriminate].
  - pose proof (U8.decode1_encode c' r' Hc') as D1. rewrite E in D1.
    rewrite (U8.decode1_encode c (r ++ l) Hc) in D1. injection D1 as <- _.
    apply app_inv_head in E. subst r'. apply IH. exact Hr'.
Qed.

(* character classes *)
Lemma name_char_scalar c : Chars.xml_NameChar c = true -> is_scalar c = true.
Proof.
  unfold Chars.xml_NameChar, Chars.xml_NameChar_ranges, Chars.xml_NameStartChar_ranges, Chars.in_ranges, is_scalar.
  cbn [app existsb fst snd]. lia.
Qed.

Lemma name_start_name c : Chars.xml_NameStartChar c = true -> Chars.xml_NameChar c = true.
Proof.
  unfold Chars.xml_NameChar, Chars.xml_NameStartChar, Chars.xml_NameChar_ranges, Chars.in_ranges.
  rewrite existsb_app. intros ->. reflexivity.
Qed.

Lemma char_scalar c : Chars.xml_Char c = true -> is_scalar c = true.
Proof.
  unfold Chars.xml_Char, Chars.xml_Char_ranges, Chars.in_ranges, is_scalar. cbn [existsb fst snd]. lia.
Qed.

Lemma uchar_facts c : CstU.is_char c = true -> is_scalar c = true /\ char_is_char c = true /\ c <> 13.
Proof.
  unfold CstU.is_char. intros H. apply andb_true_iff in H. destruct H as [H1 H2].
  pose proof (char_scalar c H1) as Hs. split; [exact Hs|]. split; [|lia].
  destruct (CharTablesProofs.char_tables_conform c Hs) as (E & _). rewrite E. exact H1.
Qed.

Lemma uname_char_facts c : CstU.is_name_char c = true ->
  is_scalar c = true /\ char_is_name c = true /\ c <> 58 /\ (c < 128 -> byte_is_name c = true).
Proof.
  unfold CstU.is_name_char. intros H. apply andb_true_iff in H. destruct H as [H1 H2].
  pose proof (name_char_scalar c H1) as Hs. split; [exact Hs|].
  destruct (CharTablesProofs.char_tables_conform c Hs) as (_ & _ & E). split; [rewrite E; exact H1|].
  split; [lia|]. intros Hl. destruct (CharTablesProofs.byte_tables_conform c Hl) as (_ & _ & E2). rewrite E2. exact H1.
Qed.

Lemma uname_start_facts c : CstU.is_name_start c = true ->
  CstU.is_name_char c = true /\ char_is_name_start c = true /\ (c < 128 -> byte_is_name_start c = true).
Proof.
  unfold CstU.is_name_start, CstU.is_name_char. intros H. apply andb_true_iff in H. destruct H as [H1 H2].
  pose proof (name_start_name c H1) as Hn. split; [rewrite Hn, H2; reflexivity|].
  pose proof (name_char_scalar c Hn) as Hs.
  destruct (CharTablesProofs.char_tables_conform c Hs) as (_ & E & _). split; [rewrite E; exact H1|].
  intros Hl. destruct (CharTablesProofs.byte_tables_conform c Hl) as (_ & E2 & _). rewrite E2. exact H1.
Qed.

Lemma wf_uname_parts n : CstU.wf_name n = true ->
  exists c x, n = c :: x /\ CstU.is_name_start c = true /\ forallb CstU.is_name_char (c :: x) = true.
Proof.
  destruct n as [|c x]; [discriminate|]. cbn [CstU.wf_name]. intros H. apply andb_true_iff in H.
  destruct H as [H1 H2]. exists c, x. split; [reflexivity|]. split; [exact H1|].
  cbn [forallb]. rewrite (proj1 (uname_start_facts c H1)), H2. reflexivity.
Qed.

Lemma uname_scalars n : forallb CstU.is_name_char n = true -> scalars_ok n.
Proof.
  induction n as [|c n IH]; intros H; [constructor|]. cbn [forallb] in H. apply andb_true_iff in H.
  destruct H as [H1 H2]. constructor; [apply (uname_char_facts c H1)|apply IH; exact H2].
Qed.

(* the first byte of an encoded name: not a space, not one of the bytes the lexer dispatches on *)
Lemma uname_head n : CstU.wf_name n = true ->
  exists b0 r, utf8s n = b0 :: r /\ byte_is_space b0 = false /\ b0 <> 47 /\ b0 <> 62 /\ b0 <> 33 /\ b0 <> 63 /\ b0 <> 60.
Proof.
  intros H. destruct (wf_uname_parts n H) as (c & x & -> & Hc & _). rewrite utf8s_cons.
  destruct (N.lt_ge_cases c 128) as [L|L].
  - rewrite (utf8_ascii c L). cbn [app]. exists c, (utf8s x). split; [reflexivity|].
    destruct (uname_start_facts c Hc) as (_ & _ & Hb). specialize (Hb L).
    revert Hb. cls. lia.
  - destruct (utf8_high c L) as (_ & b0 & r & E & Hb). rewrite E. cbn [app]. exists b0, (r ++ utf8s x).
    split; [reflexivity|]. cls. lia.
Qed.

(* ------------------------------------------------------------------------------------------ *)
(* streams positioned at a character boundary of a valid UTF-8 text                            *)
(* ------------------------------------------------------------------------------------------ *)

Section ULex.
Variable text : bytes.

Notation st := (CstLex.st text).
Notation W := (CstLex.W text).

(* r is the input from p on, and it is a concatenation of encodings *)
Definition WV (p : N) (r : bytes) : Prop := W p r /\ U8.Valid r.

Lemma WV_W p r : WV p r -> W p r.
Proof. intros H. apply H. Qed.

Lemma WV_app p x l : WV p (x ++ l) -> U8.Valid x -> WV (p + blen x) l.
Proof. intros [H1 H2] Hx. split; [apply (W_app _ _ _ _ H1)|apply (Valid_app_inv x l Hx H2)]. Qed.

Lemma WV_lit p x l : WV p (x ++ l) -> forallb (fun y => y <? 128) x = true -> WV (p + blen x) l.
Proof. intros H Hx. apply (WV_app _ _ _ H). apply Valid_lit. exact Hx. Qed.

Lemma WV_cons p x l : WV p (x :: l) -> x < 128 -> WV (p + 1) l.
Proof. intros H Hx. apply (WV_lit p [x] l H). cbn. replace (x <? 128) with true by lia. reflexivity. Qed.

Lemma WV_new : U8.Valid text -> WV 0 text.
Proof. intros H. split; [apply W_new|exact H]. Qed.

Lemma boundary_v p r : WV p r -> is_boundary text p = true.
Proof.
  intros [[H1 H2] Hv]. unfold is_boundary. destruct (p =? 0) eqn:E0; [reflexivity|].
  destruct (nth_error text (N.to_nat p)) as [x|] eqn:En.
  - destruct r as [|y r].
    + apply nth_error_Some_lt in En || idtac. exfalso. assert (N.to_nat p < length text)%nat by (apply nth_error_Some; congruence).
      unfold tlen, blen in H2. cbn [length] in H2. lia.
    + rewrite <- (firstn_skipn (N.to_nat p) text) in En. rewrite H1 in En.
      rewrite nth_error_app2 in En by (rewrite firstn_length; lia).
      rewrite firstn_length in En.
      replace (N.to_nat p - Nat.min (N.to_nat p) (length text))%nat with O in En
        by (unfold tlen, blen in H2; cbn [length] in H2; lia).
      cbn in En. injection En as <-. rewrite (Valid_head _ _ Hv). reflexivity.
  - apply nth_error_None in En. unfold tlen, blen in *. lia.
Qed.

Lemma mk_slice_v a x l : WV a (x ++ l) -> U8.Valid x -> mk_slice text a (a + blen x) = Ok (sl a (a + blen x)).
Proof.
  intros H Hx. pose proof (WV_app _ _ _ H Hx) as H'. unfold mk_slice.
  pose proof (W_le _ _ _ (WV_W _ _ H')) as Hle.
  replace ((a + blen x <? a) || (tlen text <? a + blen x)) with false by lia.
  rewrite (boundary_v _ _ H), (boundary_v _ _ H'). reflexivity.
Qed.

Lemma mk_slice_empty a l : WV a l -> mk_slice text a a = Ok (sl a a).
Proof.
  intros H. pose proof (mk_slice_v a [] l H U8.Valid_nil) as E. change (blen []) with 0 in E.
  rewrite N.add_0_r in E. exact E.
Qed.

(* ---- one character ---- *)
Lemma next_char_v p c l : WV p (utf8 c ++ l) -> is_scalar c = true ->
  next_char (st p (utf8 c ++ l)) = Ok (Some (c, blen (utf8 c))).
Proof.
  intros [HW _] Hc. unfold next_char. rewrite at_end_st by exact HW.
  pose proof (utf8_len c) as Hl.
  replace (match utf8 c ++ l with [] => true | _ :: _ => false end) with false
    by (destruct (utf8 c); [unfold blen in Hl; cbn in Hl; lia|reflexivity]).
  cbn [CstLex.st s_rest]. rewrite utf8_enc, (U8.decode1_encode c l Hc).
  destruct HW as [_ HW]. rewrite blen_app in HW. rewrite <- utf8_enc. cbn [CstLex.st s_end s_pos].
  replace (tlen text <? p + blen (utf8 c)) with false by lia. reflexivity.
Qed.

Lemma next_char_a p c l : WV p (c :: l) -> c < 128 -> next_char (st p (c :: l)) = Ok (Some (c, 1)).
Proof.
  intros H Hc. pose proof (next_char_v p c l) as E. rewrite (utf8_ascii c Hc) in E.
  apply E; [exact H|unfold is_scalar; lia].
Qed.

Lemma advance_v p c l : WV p (utf8 c ++ l) ->
  advance (blen (utf8 c)) (st p (utf8 c ++ l)) = Ok (st (p + blen (utf8 c)) l).
Proof. intros [HW _]. apply advance_st; [reflexivity|exact HW]. Qed.

(* ---- consume_chars over scalar values ---- *)
Fixpoint walk_u (f : stream -> N -> bool) (p : N) (cs : list N) (l : bytes) : Prop :=
  match cs with
  | [] => True
  | c :: cs' => is_scalar c = true /\ char_is_char c = true /\ f (st p (utf8s cs ++ l)) c = true /\
                walk_u f (p + blen (utf8 c)) cs' l
  end.
Definition stop_u (f : stream -> N -> bool) (p : N) (l : bytes) : Prop :=
  match l with [] => True | c :: _ => c < 128 /\ char_is_char c = true /\ f (st p l) c = false end.

Lemma walk_scalars f : forall cs p l, walk_u f p cs l -> scalars_ok cs.
Proof. induction cs as [|c cs IH]; intros p l H; [constructor|]. destruct H as (H1 & _ & _ & H4). constructor; [exact H1|apply (IH _ _ H4)]. Qed.

Lemma skip_chars_loop_v f : forall cs p l fuel, WV p (utf8s cs ++ l) -> walk_u f p cs l -> stop_u f (p + blen (utf8s cs)) l ->
  (length cs < fuel)%nat ->
  skip_chars_loop text fuel f (st p (utf8s cs ++ l)) = Ok (st (p + blen (utf8s cs)) l).
Proof.
  induction cs as [|c cs IH]; intros p l fuel HW Hx Hl Hf.
  - cbn [CstU.utf8s flat_map app] in *. rewrite blen_nil, N.add_0_r in *. destruct fuel as [|fu]; [cbn in Hf; lia|].
    cbn [skip_chars_loop]. destruct l as [|c l].
    + rewrite next_char_end by apply HW. reflexivity.
    + destruct Hl as (H0 & H1 & H2). rewrite next_char_a by assumption. cbn [bind]. rewrite H1, H2. reflexivity.
  - destruct fuel as [|fu]; [cbn in Hf; lia|]. cbn [length] in Hf.
    destruct Hx as (H0 & H1 & H2 & H3). rewrite utf8s_cons, <- app_assoc in *.
    cbn [skip_chars_loop]. rewrite next_char_v by assumption. cbn [bind].
    rewrite H1, H2. cbn [negb].
    rewrite advance_v by exact HW. cbn [bind].
    assert (HW' : WV (p + blen (utf8 c)) (utf8s cs ++ l)).
    { apply (WV_app _ _ _ HW). rewrite utf8_enc. apply U8.Valid_encode. exact H0. }
    rewrite IH; [|exact HW'|exact H3| |lia].
    + rewrite blen_app, N.add_assoc. reflexivity.
    + rewrite blen_app, N.add_assoc in Hl. exact Hl.
Qed.

Lemma consume_chars_v f cs p l : WV p (utf8s cs ++ l) -> walk_u f p cs l -> stop_u f (p + blen (utf8s cs)) l ->
  consume_chars text f (st p (utf8s cs ++ l)) = Ok (sl p (p + blen (utf8s cs)), st (p + blen (utf8s cs)) l).
Proof.
  intros HW Hx Hl. unfold consume_chars, skip_chars.
  rewrite skip_chars_loop_v; [|exact HW|exact Hx|exact Hl|].
  2:{ cbn [CstLex.st s_rest]. rewrite app_length. pose proof (utf8s_len_le cs). lia. }
  cbn [bind]. unfold slice_back. cbn [CstLex.st s_pos].
  rewrite (mk_slice_v p (utf8s cs) l); [reflexivity|exact HW|]. apply Valid_utf8s. apply (walk_scalars _ _ _ _ Hx).
Qed.


(* ---- names ---- *)
Lemma qname_loop_u start : forall x p l fuel, WV p (utf8s x ++ l) ->
  forallb CstU.is_name_char x = true -> name_stop l -> (length x < fuel)%nat ->
  consume_qname_loop text fuel start None (st p (utf8s x ++ l)) = Ok (None, st (p + blen (utf8s x)) l).
Proof.
  induction x as [|c x IH]; intros p l fuel HW Hx Hl Hf.
  - cbn [CstU.utf8s flat_map app] in *. rewrite blen_nil, N.add_0_r. destruct fuel as [|fu]; [cbn in Hf; lia|].
    cbn [consume_qname_loop]. rewrite at_end_st by apply HW. destruct l as [|c l]; [reflexivity|].
    cbn [curr_byte_unchecked CstLex.st s_rest bind]. destruct Hl as (H1 & H2 & H3).
    replace (c <? 128) with true by lia. replace (c =? 58) with false by lia. rewrite H3. reflexivity.
  - destruct fuel as [|fu]; [cbn in Hf; lia|]. cbn [length] in Hf.
    cbn [forallb] in Hx. apply andb_true_iff in Hx. destruct Hx as [Hc Hx].
    destruct (uname_char_facts _ Hc) as (Hs & Hn & H58 & Hb).
    rewrite utf8s_cons, <- app_assoc in *.
    assert (HW' : WV (p + blen (utf8 c)) (utf8s x ++ l)).
    { apply (WV_app _ _ _ HW). rewrite utf8_enc. apply U8.Valid_encode. exact Hs. }
    cbn [consume_qname_loop]. rewrite at_end_st by apply HW.
    pose proof (utf8_len c) as Hlen.
    replace (match utf8 c ++ utf8s x ++ l with [] => true | _ :: _ => false end) with false
      by (destruct (utf8 c); [unfold blen in Hlen; cbn in Hlen; lia|reflexivity]).
    destruct (N.lt_ge_cases c 128) as [L|L].
    + rewrite (utf8_ascii c L) in *. cbn [app] in *. cbn [curr_byte_unchecked CstLex.st s_rest bind].
      replace (c <? 128) with true by lia. replace (c =? 58) with false by lia. rewrite (Hb L).
      fold (st p (c :: utf8s x ++ l)). rewrite advance1_st by apply HW. cbn [bind].
      change (blen [c]) with 1 in HW'.
      rewrite IH; [|exact HW'|exact Hx|exact Hl|lia]. rewrite blen_cons, N.add_assoc. reflexivity.
    + destruct (utf8_high c L) as (_ & b0 & r & E & Hb0).
      assert (Ecb : curr_byte_unchecked (st p (utf8 c ++ utf8s x ++ l)) = Ok b0).
      { rewrite E. reflexivity. }
      rewrite Ecb. cbn [bind]. replace (b0 <? 128) with false by lia.
      rewrite next_char_v by assumption. cbn [bind]. rewrite Hn.
      rewrite advance_v by exact HW. cbn [bind].
      rewrite IH; [|exact HW'|exact Hx|exact Hl|lia]. rewrite blen_app, N.add_assoc. reflexivity.
Qed.

Lemma str_is_name_start_u n l : CstU.wf_name n = true -> str_is_name_start (utf8s n ++ l) = true.
Proof.
  intros H. destruct (wf_uname_parts n H) as (c & x & -> & Hc & _).
  destruct (uname_start_facts c Hc) as (Hnc & Hcs & Hbs). destruct (uname_char_facts c Hnc) as (Hs & _).
  rewrite utf8s_cons, <- app_assoc. destruct (N.lt_ge_cases c 128) as [L|L].
  - rewrite (utf8_ascii c L). cbn [app str_is_name_start]. replace (c <? 128) with true by lia. apply (Hbs L).
  - destruct (utf8_high c L) as (_ & b0 & r & E & Hb0). unfold str_is_name_start.
    rewrite utf8_enc, (U8.decode1_encode c _ Hs). rewrite <- utf8_enc, E. cbn [app].
    replace (b0 <? 128) with false by lia. exact Hcs.
Qed.

Lemma consume_qname_u name p l : WV p (utf8s name ++ l) -> CstU.wf_name name = true -> name_stop l ->
  consume_qname text (st p (utf8s name ++ l)) = Ok (sl p p, sl p (p + blen (utf8s name)), st (p + blen (utf8s name)) l).
Proof.
  intros HW Hn Hl. unfold consume_qname. cbn [CstLex.st s_pos s_rest].
  destruct (wf_uname_parts name Hn) as (c & x & E & Hc & Hx).
  fold (st p (utf8s name ++ l)).
  rewrite (qname_loop_u p name p l); [|exact HW|rewrite E; exact Hx|exact Hl|].
  2:{ rewrite app_length. pose proof (utf8s_len_le name). lia. }
  cbn [bind]. unfold slice_back. cbn [CstLex.st s_pos].
  assert (Hv : U8.Valid (utf8s name)) by (apply Valid_utf8s; apply uname_scalars; rewrite E; exact Hx).
  rewrite (mk_slice_v p (utf8s name) l HW Hv). cbn [bind]. rewrite (mk_slice_empty p _ HW). cbn [bind].
  unfold slice_len. cbn [sl sl_start sl_end]. rewrite N.sub_diag. change (0 =? 0) with true. cbn [negb andb].
  fold (sl p (p + blen (utf8s name))). rewrite (W_slice _ _ _ _ (WV_W _ _ HW)).
  rewrite <- (app_nil_r (utf8s name)), (str_is_name_start_u name [] Hn). reflexivity.
Qed.

Lemma skip_name_loop_u : forall x p l fuel, WV p (utf8s x ++ l) ->
  forallb CstU.is_name_char x = true -> name_stop l -> (length x < fuel)%nat ->
  skip_name_loop fuel (st p (utf8s x ++ l)) = Ok (st (p + blen (utf8s x)) l).
Proof.
  induction x as [|c x IH]; intros p l fuel HW Hx Hl Hf.
  - cbn [CstU.utf8s flat_map app] in *. rewrite blen_nil, N.add_0_r. destruct fuel as [|fu]; [cbn in Hf; lia|].
    cbn [skip_name_loop]. destruct l as [|c l].
    + rewrite next_char_end by apply HW. reflexivity.
    + destruct Hl as (H1 & H2 & H3). rewrite next_char_a by assumption. cbn [bind].
      rewrite char_is_name_ascii by exact H1. rewrite H3. reflexivity.
  - destruct fuel as [|fu]; [cbn in Hf; lia|]. cbn [length] in Hf.
    cbn [forallb] in Hx. apply andb_true_iff in Hx. destruct Hx as [Hc Hx].
    destruct (uname_char_facts _ Hc) as (Hs & Hn & H58 & Hb).
    rewrite utf8s_cons, <- app_assoc in *.
    assert (HW' : WV (p + blen (utf8 c)) (utf8s x ++ l)).
    { apply (WV_app _ _ _ HW). rewrite utf8_enc. apply U8.Valid_encode. exact Hs. }
    cbn [skip_name_loop]. rewrite next_char_v by assumption. cbn [bind]. rewrite Hn.
    rewrite advance_v by exact HW. cbn [bind].
    rewrite IH; [|exact HW'|exact Hx|exact Hl|lia]. rewrite blen_app, N.add_assoc. reflexivity.
Qed.

Lemma consume_name_u name p l : WV p (utf8s name ++ l) -> CstU.wf_name name = true -> name_stop l ->
  consume_name text (st p (utf8s name ++ l)) = Ok (sl p (p + blen (utf8s name)), st (p + blen (utf8s name)) l).
Proof.
  intros HW Hn Hl. unfold consume_name, skip_name. cbn [CstLex.st s_pos].
  destruct (wf_uname_parts name Hn) as (c & x & E & Hc & Hx). subst name.
  assert (Hv : U8.Valid (utf8s (c :: x))) by (apply Valid_utf8s; apply uname_scalars; exact Hx).
  cbn [forallb] in Hx. apply andb_true_iff in Hx. destruct Hx as [Hc' Hx].
  destruct (uname_start_facts c Hc) as (_ & Hcs & _). destruct (uname_char_facts c Hc') as (Hs & _).
  rewrite utf8s_cons, <- app_assoc in *.
  fold (st p (utf8 c ++ utf8s x ++ l)). rewrite next_char_v by assumption. cbn [bind]. rewrite Hcs.
  rewrite advance_v by exact HW. cbn [bind].
  assert (HW' : WV (p + blen (utf8 c)) (utf8s x ++ l)).
  { apply (WV_app _ _ _ HW). rewrite utf8_enc. apply U8.Valid_encode. exact Hs. }
  rewrite skip_name_loop_u; [|exact HW'|exact Hx|exact Hl|].
  2:{ cbn [CstLex.st s_rest]. rewrite app_length. pose proof (utf8s_len_le x). lia. }
  cbn [bind]. unfold slice_back. cbn [CstLex.st s_pos].
  rewrite <- N.add_assoc, <- blen_app.
  rewrite (mk_slice_v p (utf8 c ++ utf8s x) l); [|rewrite <- app_assoc; exact HW|rewrite <- utf8s_cons; exact Hv].
  cbn [bind]. unfold slice_len. cbn [sl sl_start sl_end].
  pose proof (utf8_len c) as Hlen.
  replace (p + blen (utf8 c ++ utf8s x) - p =? 0) with false by (rewrite blen_app; lia).
  reflexivity.
Qed.

End ULex.

(* ------------------------------------------------------------------------------------------ *)
(* the bytes of an encoded string                                                             *)
(* ------------------------------------------------------------------------------------------ *)

Lemma forallb_utf8 (g : N -> bool) : (forall b0, 128 <= b0 -> g b0 = true) ->
  forall cs, forallb g cs = true -> forallb g (utf8s cs) = true.
Proof.
  intros Hg. induction cs as [|c cs IH]; intros H; [reflexivity|]. cbn [forallb] in H.
  apply andb_true_iff in H. destruct H as [H1 H2]. rewrite utf8s_cons, forallb_app, (IH H2), andb_true_r.
  destruct (N.lt_ge_cases c 128) as [L|L].
  - rewrite (utf8_ascii c L). cbn [forallb]. rewrite H1. reflexivity.
  - destruct (utf8_high c L) as [F _]. apply forallb_forall. intros x Hx. rewrite Forall_forall in F. apply Hg. apply F. exact Hx.
Qed.

Lemma prefix_utf8 : forall n cs, forallb (fun x => x <? 128) n = true -> prefix_b n (utf8s cs) = prefix_b n cs.
Proof.
  induction n as [|a n IH]; intros cs Hn; [reflexivity|]. cbn [forallb] in Hn. apply andb_true_iff in Hn.
  destruct Hn as [Ha Hn]. destruct cs as [|c cs]; [reflexivity|]. rewrite utf8s_cons.
  destruct (N.lt_ge_cases c 128) as [L|L].
  - rewrite (utf8_ascii c L). cbn [app prefix_b]. rewrite IH by exact Hn. reflexivity.
  - destruct (utf8_high c L) as (_ & b0 & r & E & Hb). rewrite E. cbn [app prefix_b].
    replace (a =? b0) with false by lia. replace (a =? c) with false by lia. reflexivity.
Qed.

Lemma contains_high n : n <> [] -> forallb (fun x => x <? 128) n = true ->
  forall hs l, Forall (fun x => 128 <= x) hs -> contains_b n (hs ++ l) = contains_b n l.
Proof.
  intros Hne Hn. induction hs as [|h hs IH]; intros l F; [reflexivity|]. inversion F as [|? ? Hh F']; subst.
  cbn [app contains_b]. rewrite (IH l F'). destruct n as [|a n]; [congruence|]. cbn [prefix_b].
  cbn [forallb] in Hn. replace (a =? h) with false by lia. reflexivity.
Qed.

Lemma contains_utf8 n : n <> [] -> forallb (fun x => x <? 128) n = true ->
  forall cs, contains_b n (utf8s cs) = contains_b n cs.
Proof.
  intros Hne Hn. induction cs as [|c cs IH]; [reflexivity|]. rewrite utf8s_cons.
  destruct (N.lt_ge_cases c 128) as [L|L].
  - rewrite (utf8_ascii c L). cbn [app contains_b]. rewrite IH.
    assert (E : c :: utf8s cs = utf8s (c :: cs)) by (rewrite utf8s_cons, (utf8_ascii c L); reflexivity).
    rewrite E, prefix_utf8 by exact Hn. reflexivity.
  - destruct (utf8_high c L) as (F & _). rewrite (contains_high n Hne Hn _ _ F), IH.
    cbn [contains_b]. destruct n as [|a n]; [congruence|]. cbn [prefix_b]. cbn [forallb] in Hn.
    replace (a =? c) with false by lia. reflexivity.
Qed.

Lemma ends_app c l1 l2 : l2 <> [] -> ends_with_byte c (l1 ++ l2) = ends_with_byte c l2.
Proof.
  intros H. unfold ends_with_byte. rewrite rev_app_distr. destruct (rev l2) as [|x r] eqn:E.
  - apply (f_equal (@rev N)) in E. rewrite rev_involutive in E. cbn in E. congruence.
  - reflexivity.
Qed.

Lemma ends_utf8 q : q < 128 -> forall cs, ends_with_byte q (utf8s cs) = ends_with_byte q cs.
Proof.
  intros Hq. induction cs as [|c cs IH]; [reflexivity|]. rewrite utf8s_cons. destruct cs as [|c2 cs].
  - cbn [CstU.utf8s flat_map]. rewrite app_nil_r. destruct (N.lt_ge_cases c 128) as [L|L].
    + rewrite (utf8_ascii c L). reflexivity.
    + destruct (utf8_high c L) as (F & _). unfold ends_with_byte. cbn [rev app].
      destruct (rev (utf8 c)) as [|x r] eqn:E.
      * replace (c =? q) with false by lia. reflexivity.
      * assert (Hx : In x (utf8 c)) by (apply in_rev; rewrite E; left; reflexivity).
        rewrite Forall_forall in F. specialize (F x Hx). replace (x =? q) with false by lia.
        replace (c =? q) with false by lia. reflexivity.
  - rewrite ends_app.
    + rewrite IH. rewrite (ends_with_cons q c (c2 :: cs)). reflexivity.
    + rewrite utf8s_cons. pose proof (utf8_len c2). destruct (utf8 c2); [unfold blen in *; cbn in *; lia|discriminate].
Qed.

(* the head byte of the encoding of a scalar different from an ASCII byte *)
Lemma head_byte_ne y q l : q < 128 -> y <> q -> exists b0 t, utf8 y ++ l = b0 :: t /\ b0 <> q.
Proof.
  intros Hq Hy. destruct (N.lt_ge_cases y 128) as [L|L].
  - rewrite (utf8_ascii y L). cbn [app]. eauto.
  - destruct (utf8_high y L) as (_ & b0 & r & E & Hb). rewrite E. cbn [app]. exists b0, (r ++ l). split; [reflexivity|lia].
Qed.

Lemma ws_lit w : Cst.wf_ws w = true -> forallb (fun x => x <? 128) w = true.
Proof.
  unfold Cst.wf_ws. apply forallb_imp. intros x Hx. unfold Cst.is_ws in Hx. lia.
Qed.

Section ULex2.
Variable text : bytes.
Notation st := (CstLex.st text).
Notation W := (CstLex.W text).
Notation WV := (WV text).

Lemma is_xml_str_unicode_u : forall cs fuel i, Forall (fun c => is_scalar c = true /\ char_is_char c = true) cs ->
  (length cs < fuel)%nat -> is_xml_str_unicode text fuel (utf8s cs) i = Ok tt.
Proof.
  induction cs as [|c cs IH]; intros fuel i F Hf; (destruct fuel as [|fu]; [cbn in Hf; lia|]).
  - reflexivity.
  - inversion F as [|? ? [Hs Hc] F']; subst. cbn [length] in Hf. cbn [is_xml_str_unicode]. rewrite utf8s_cons.
    pose proof (utf8_len c) as Hl.
    destruct (utf8 c ++ utf8s cs) as [|y r] eqn:E.
    { exfalso. destruct (utf8 c); [unfold blen in Hl; cbn in Hl; lia|discriminate]. }
    rewrite <- E. rewrite utf8_enc, (U8.decode1_encode c _ Hs). rewrite Hc. cbn [negb].
    unfold blen. rewrite Nat2N.id, skipn_len_app. apply IH; [exact F'|lia].
Qed.

Lemma is_xml_str_u p cs l vstart : W p (utf8s cs ++ l) ->
  Forall (fun c => is_scalar c = true /\ char_is_char c = true) cs ->
  is_xml_str text (sl p (p + blen (utf8s cs))) vstart = Ok tt.
Proof.
  intros HW F. unfold is_xml_str. rewrite (W_slice _ _ _ _ HW).
  destruct (forallb (fun x => x <? 128) (utf8s cs)) eqn:E.
  - apply is_xml_str_ascii_ok. clear HW. induction F as [|c cs [Hs Hc] _ IH]; [reflexivity|].
    rewrite utf8s_cons, forallb_app in E |- *. apply andb_true_iff in E. destruct E as [E1 E2].
    rewrite (IH E2), andb_true_r. destruct (N.lt_ge_cases c 128) as [L|L].
    + rewrite (utf8_ascii c L). cbn [forallb]. destruct (CharTablesProofs.byte_char_agree c L) as (A & _).
      rewrite A, Hc. reflexivity.
    + exfalso. destruct (utf8_high c L) as (_ & b0 & r & Eb & Hb). rewrite Eb in E1. cbn [forallb] in E1. lia.
  - apply is_xml_str_unicode_u; [exact F|]. pose proof (utf8s_len_le cs). lia.
Qed.

(* ------------------------------------------------------------------------------------------ *)
(* the productions                                                                            *)
(* ------------------------------------------------------------------------------------------ *)

Variable C : Type.
Variable ev : token -> C -> res C.

Lemma chars_facts (g : N -> bool) cs : (forall x, g x = true -> CstU.is_char x = true) -> forallb g cs = true ->
  Forall (fun c => is_scalar c = true /\ char_is_char c = true) cs.
Proof.
  intros Hg. induction cs as [|c cs IH]; intros H; [constructor|]. cbn [forallb] in H. apply andb_true_iff in H.
  destruct H as [H1 H2]. constructor; [|apply IH; exact H2]. destruct (uchar_facts c (Hg c H1)) as (A & B0 & _). auto.
Qed.

Lemma chars_scalars cs : Forall (fun c => is_scalar c = true /\ char_is_char c = true) cs -> scalars_ok cs.
Proof. intros H. eapply Forall_impl; [|exact H]. cbv beta. intros c Hc. apply Hc. Qed.

(* ---- comments ---- *)
Definition comment_ok_u (bs : list N) : Prop :=
  forallb CstU.is_char bs = true /\ contains_b [45; 45] bs = false /\ ends_with_byte 45 bs = false.

Lemma comment_walk_u : forall bs p post, comment_ok_u bs ->
  walk_u text comment_f p bs ([45; 45; 62] ++ post).
Proof.
  induction bs as [|c r IH]; intros p post (H1 & H2 & H3); cbn [walk_u]; [exact I|].
  cbn [forallb] in H1. apply andb_true_iff in H1. destruct H1 as [Hc H1].
  destruct (uchar_facts _ Hc) as (Hs & K & _).
  cbn [contains_b] in H2. apply orb_false_iff in H2. destruct H2 as [H2 H2'].
  rewrite ends_with_cons in H3.
  split; [exact Hs|]. split; [exact K|]. split.
  - unfold comment_f. destruct (c =? 45) eqn:E; [|reflexivity]. cbn [andb]. apply N.eqb_eq in E. subst c.
    unfold starts_with, avail. cbn [CstLex.st s_rest]. rewrite utf8s_cons, (utf8_ascii 45) by lia.
    destruct r as [|y r]; [discriminate|].
    cbn [prefix_b] in H2. rewrite N.eqb_refl in H2. cbn [andb] in H2.
    assert (Hy : y <> 45) by (destruct (45 =? y) eqn:Ey; [discriminate|lia]).
    rewrite utf8s_cons, <- !app_assoc. destruct (head_byte_ne y 45 (utf8s r ++ [45; 45; 62] ++ post) ltac:(lia) Hy) as (b0 & t & Eb & Hb).
    rewrite Eb. cbn [app].
    destruct (N.to_nat (s_end (st p (45 :: b0 :: t)) - s_pos (st p (45 :: b0 :: t)))) as [|[|k]]; cbn [firstn prefix_b];
      try reflexivity. rewrite N.eqb_refl. replace (45 =? b0) with false by lia. reflexivity.
  - apply IH. split; [exact H1|]. split; [exact H2'|]. destruct r; [reflexivity|exact H3].
Qed.

Lemma lex_comment_u p bs post c : WV p ([60; 33; 45; 45] ++ utf8s bs ++ [45; 45; 62] ++ post) -> comment_ok_u bs ->
  parse_comment text C ev (st p ([60; 33; 45; 45] ++ utf8s bs ++ [45; 45; 62] ++ post)) c =
  let! c' := ev (TComment (sl (p + 4) (p + 4 + blen (utf8s bs))) (p, p + 4 + blen (utf8s bs) + 3)) c in
  Ok (st (p + 4 + blen (utf8s bs) + 3) post, c').
Proof.
  intros HW Hok. pose proof (WV_W _ _ _ HW) as HW0. unfold parse_comment. cbv zeta.
  rewrite (advance_st text 4 p [60; 33; 45; 45]) by (try reflexivity; exact HW0). cbn [bind].
  pose proof (WV_lit _ _ _ _ HW eq_refl) as HW1. change (blen [60; 33; 45; 45]) with 4 in HW1.
  change (b "-->") with [45; 45; 62]. change (b "--") with [45; 45].
  change (fun (s : stream) (ch : N) => negb ((ch =? 45) && starts_with s [45; 45; 62])) with comment_f.
  rewrite consume_chars_v; [|exact HW1|apply comment_walk_u; assumption|].
  2:{ cbn [stop_u app]. split; [lia|]. split; [reflexivity|]. unfold comment_f.
      assert (Hv : U8.Valid (utf8s bs)).
      { apply Valid_utf8s. apply chars_scalars. apply (chars_facts CstU.is_char); [auto|apply Hok]. }
      rewrite starts_with_st by (apply (W_app _ _ _ _ (WV_W _ _ _ HW1))). reflexivity. }
  cbn [bind]. pose proof (W_app _ _ _ _ (WV_W _ _ _ HW1)) as HW2.
  rewrite skip_string_st by exact HW2. cbn [bind].
  rewrite (W_slice _ _ _ _ (WV_W _ _ _ HW1)). destruct Hok as (_ & H2 & H3).
  rewrite (contains_utf8 [45; 45]) by (try discriminate; reflexivity). rewrite H2.
  rewrite ends_utf8 by lia. rewrite H3.
  cbn [CstLex.st s_pos]. change (blen [45; 45; 62]) with 3. reflexivity.
Qed.

(* ---- text ---- *)
Definition text_ok_u (bs : list N) : Prop :=
  forallb (fun x => CstU.is_char x && negb (x =? 60) && negb (x =? 38)) bs = true /\
  contains_b [93; 93; 62] bs = false.

Lemma text_walk_u : forall bs p post,
  forallb (fun x => CstU.is_char x && negb (x =? 60) && negb (x =? 38)) bs = true ->
  walk_u text text_f p bs post.
Proof.
  induction bs as [|c r IH]; intros p post H; cbn [walk_u]; [exact I|].
  cbn [forallb] in H. apply andb_true_iff in H. destruct H as [Hc H].
  apply andb_true_iff in Hc. destruct Hc as [Hc H38]. apply andb_true_iff in Hc. destruct Hc as [Hc H60].
  destruct (uchar_facts _ Hc) as (Hs & K & _).
  split; [exact Hs|]. split; [exact K|]. split; [exact H60|]. apply IH. exact H.
Qed.

Lemma lex_text_u p bs post c : WV p (utf8s bs ++ post) -> text_ok_u bs -> text_stop post ->
  parse_text text C ev (st p (utf8s bs ++ post)) c =
  let! c' := ev (TText (sl p (p + blen (utf8s bs))) (p, p + blen (utf8s bs))) c in Ok (st (p + blen (utf8s bs)) post, c').
Proof.
  intros HW [H1 H2] Hs. unfold parse_text. cbv zeta.
  change (fun (_ : stream) (ch : N) => negb (ch =? 60)) with text_f.
  rewrite consume_chars_v; [|exact HW|apply text_walk_u; exact H1|].
  2:{ destruct post as [|x post]; cbn [stop_u]; [exact I|]. cbn [text_stop] in Hs. subst x.
      split; [lia|]. split; reflexivity. }
  cbn [bind]. rewrite (W_slice _ _ _ _ (WV_W _ _ _ HW)). change (b "]]>") with [93; 93; 62].
  rewrite (contains_utf8 [93; 93; 62]) by (try discriminate; reflexivity). rewrite H2, andb_false_r.
  reflexivity.
Qed.


(* ---- processing instructions ---- *)
Lemma pi_walk_u : forall v p post,
  forallb CstU.is_char v = true -> contains_b [63; 62] v = false ->
  walk_u text pi_f p v ([63; 62] ++ post).
Proof.
  induction v as [|c r IH]; intros p post H1 H2; cbn [walk_u]; [exact I|].
  cbn [forallb] in H1. apply andb_true_iff in H1. destruct H1 as [Hc H1].
  destruct (uchar_facts _ Hc) as (Hs & K & _).
  cbn [contains_b] in H2. apply orb_false_iff in H2. destruct H2 as [H2 H2'].
  split; [exact Hs|]. split; [exact K|]. split.
  - unfold pi_f. destruct (c =? 63) eqn:E; [|reflexivity]. cbn [andb]. apply N.eqb_eq in E. subst c.
    unfold starts_with, avail. cbn [CstLex.st s_rest]. rewrite utf8s_cons, (utf8_ascii 63) by lia.
    destruct r as [|y r].
    + cbn [CstU.utf8s flat_map app].
      match goal with |- context [firstn ?n _] => destruct n as [|[|k]] end; cbn [firstn prefix_b app]; reflexivity.
    + cbn [prefix_b] in H2. rewrite N.eqb_refl in H2. cbn [andb] in H2.
      assert (Hy : y <> 62) by (destruct (62 =? y) eqn:Ey; [discriminate|lia]).
      rewrite utf8s_cons, <- !app_assoc.
      destruct (head_byte_ne y 62 (utf8s r ++ [63; 62] ++ post) ltac:(lia) Hy) as (b0 & t & Eb & Hb).
      rewrite Eb. cbn [app].
      destruct (N.to_nat (s_end (st p (63 :: b0 :: t)) - s_pos (st p (63 :: b0 :: t)))) as [|[|k]]; cbn [firstn prefix_b];
        try reflexivity. rewrite N.eqb_refl. replace (62 =? b0) with false by lia. reflexivity.
  - apply IH; [exact H1|exact H2'].
Qed.

Definition pi_ok_u (target : list N) (sep : bytes) (value : list N) : Prop :=
  CstU.wf_name target = true /\ Cst.wf_ws sep = true /\ forallb CstU.is_char value = true /\
  contains_b [63; 62] value = false /\ Cst.prefix_is_xml target = false /\
  match value with
  | [] => True
  | x :: _ => Cst.is_ws x = false /\ sep <> []
  end.

Lemma uchar_space x : CstU.is_char x = true -> Cst.is_ws x = false -> forall l,
  stops byte_is_space (utf8 x ++ l).
Proof.
  intros Hc Hw l. destruct (uchar_facts x Hc) as (_ & _ & H13). destruct (N.lt_ge_cases x 128) as [L|L].
  - rewrite (utf8_ascii x L). cbn [app stops]. revert Hw. cls. lia.
  - destruct (utf8_high x L) as (_ & b0 & r & E & Hb). rewrite E. cbn [app stops]. cls. lia.
Qed.

Lemma pi_after_target_u target sep value post : pi_ok_u target sep value ->
  name_stop (sep ++ utf8s value ++ [63; 62] ++ post) /\ stops byte_is_space (utf8s value ++ [63; 62] ++ post).
Proof.
  intros (_ & Hs & Hv & _ & _ & Hx). split.
  - destruct sep as [|s sep].
    + destruct value as [|x v]; [|destruct Hx as [_ Hx]; congruence].
      cbn [app name_stop CstU.utf8s flat_map]. apply not_name_byte_lit. auto.
    + cbn [app name_stop]. cbn [Cst.wf_ws forallb] in Hs. apply andb_true_iff in Hs.
      apply ws_not_name_byte. apply Hs.
  - destruct value as [|x v]; [reflexivity|]. rewrite utf8s_cons, <- app_assoc.
    cbn [forallb] in Hv. apply andb_true_iff in Hv. destruct Hv as [Hp _]. destruct Hx as [Hx _].
    apply uchar_space; assumption.
Qed.

(* "<?xml " cannot be a prefix of the rendering of a PI whose target is not xml *)
Lemma not_xml_gen_u x target rest : CstU.wf_name target = true -> Cst.prefix_is_xml target = false ->
  name_stop rest -> CstU.is_name_char x = false -> x < 128 ->
  prefix_b [120; 109; 108; x] (utf8s target ++ rest) = false.
Proof.
  intros Hn Hx Hr Hxn Hx128. destruct (wf_uname_parts target Hn) as (c0 & x0 & E0 & _ & Hall). clear Hn.
  assert (G : forall pre cs, forallb (fun x => x <? 128) pre = true -> forallb CstU.is_name_char cs = true ->
              prefix_b pre (utf8s cs ++ rest) = true ->
              (exists cs2, cs = pre ++ cs2) \/
              (exists pre2, pre = cs ++ pre2 /\ pre2 <> [] /\ prefix_b pre2 rest = true)).
  { induction pre as [|a pre IH]; intros cs Hp Hc Hpre; [left; exists cs; reflexivity|].
    cbn [forallb] in Hp. apply andb_true_iff in Hp. destruct Hp as [Ha Hp].
    destruct cs as [|c cs].
    - right. exists (a :: pre). split; [reflexivity|]. split; [discriminate|exact Hpre].
    - cbn [forallb] in Hc. apply andb_true_iff in Hc. destruct Hc as [Hc1 Hc].
      rewrite utf8s_cons, <- app_assoc in Hpre. destruct (N.lt_ge_cases c 128) as [L|L].
      + rewrite (utf8_ascii c L) in Hpre. cbn [app prefix_b] in Hpre. apply andb_true_iff in Hpre.
        destruct Hpre as [Hac Hpre]. apply N.eqb_eq in Hac. subst c.
        destruct (IH cs Hp Hc Hpre) as [(cs2 & ->)|(pre2 & -> & Hne & Hp2)].
        * left. exists cs2. reflexivity.
        * right. exists pre2. auto.
      + destruct (utf8_high c L) as (_ & b0 & r & E & Hb). rewrite E in Hpre. cbn [app prefix_b] in Hpre.
        replace (a =? b0) with false in Hpre by lia. discriminate. }
  destruct (prefix_b [120; 109; 108; x] (utf8s target ++ rest)) eqn:E; [|reflexivity]. exfalso.
  assert (Hpre : forallb (fun y => y <? 128) [120; 109; 108; x] = true) by (cbn; replace (x <? 128) with true by lia; reflexivity).
  rewrite E0 in *. destruct (G [120; 109; 108; x] (c0 :: x0) Hpre Hall E) as [(cs2 & Ec)|(pre2 & Ec & Hne & Hp2)].
  - (* the blank would be a name character *)
    rewrite Ec in Hall. cbn [app forallb] in Hall. rewrite !andb_true_iff in Hall.
    destruct Hall as (_ & _ & _ & H32 & _). congruence.
  - (* the target is a proper prefix of "xml ", followed by a byte of "xml " *)
    destruct x0 as [|c1 [|c2 [|c3 x3]]]; cbn [app] in Ec.
    + injection Ec as Ea Eb; subst c0 pre2. destruct rest as [|r0 rest]; [discriminate|]. cbn [prefix_b] in Hp2.
      apply andb_true_iff in Hp2. destruct Hp2 as [Hr0 _]. apply N.eqb_eq in Hr0. subst r0.
      destruct Hr as (_ & _ & Hr). vm_compute in Hr. discriminate.
    + injection Ec as Ea Eb Ed; subst c0 c1 pre2. destruct rest as [|r0 rest]; [discriminate|]. cbn [prefix_b] in Hp2.
      apply andb_true_iff in Hp2. destruct Hp2 as [Hr0 _]. apply N.eqb_eq in Hr0. subst r0.
      destruct Hr as (_ & _ & Hr). vm_compute in Hr. discriminate.
    + injection Ec as Ea Eb Ed Ee; subst c0 c1 c2 pre2. discriminate.
    + injection Ec as Ea Eb Ed Ee Ef. destruct x3; [|discriminate]. destruct pre2; [congruence|discriminate].
Qed.

Lemma not_xml_decl_u target rest : CstU.wf_name target = true -> Cst.prefix_is_xml target = false ->
  name_stop rest -> prefix_b [120; 109; 108; 32] (utf8s target ++ rest) = false.
Proof. intros Hn Hx Hr. apply not_xml_gen_u; [assumption..|reflexivity|lia]. Qed.


Lemma lex_pi_u p target sep value post c :
  WV p ([60; 63] ++ utf8s target ++ sep ++ utf8s value ++ [63; 62] ++ post) -> pi_ok_u target sep value ->
  let e := p + 2 + blen (utf8s target) + blen sep + blen (utf8s value) in
  parse_pi text C ev (st p ([60; 63] ++ utf8s target ++ sep ++ utf8s value ++ [63; 62] ++ post)) c =
  let! c' := ev (TPI (sl (p + 2) (p + 2 + blen (utf8s target)))
                     (match value with [] => None | _ => Some (sl (p + 2 + blen (utf8s target) + blen sep) e) end)
                     (p, e + 2)) c in
  Ok (st (e + 2) post, c').
Proof.
  intros HW Hok e. pose proof (pi_after_target_u _ _ _ post Hok) as [Hst1 Hst2].
  destruct Hok as (Hn & Hs & Hv & Hc & Hx & Hfirst).
  pose proof (WV_W _ _ _ HW) as HW0.
  unfold parse_pi. rewrite starts_with_st by exact HW0.
  change (b "<?xml ") with ([60; 63] ++ [120; 109; 108; 32]).
  assert (Hdecl : prefix_b ([60; 63] ++ [120; 109; 108; 32])
                    ([60; 63] ++ utf8s target ++ sep ++ utf8s value ++ [63; 62] ++ post) = false).
  { cbn [app prefix_b]. rewrite !N.eqb_refl. cbn [andb].
    apply (not_xml_decl_u target (sep ++ utf8s value ++ [63; 62] ++ post) Hn Hx Hst1). }
  rewrite Hdecl. cbv zeta.
  rewrite (advance_st text 2 p [60; 63]) by (try reflexivity; exact HW0). cbn [bind].
  pose proof (WV_lit _ _ _ _ HW eq_refl) as HW1. change (blen [60; 63]) with 2 in HW1.
  rewrite consume_name_u; [|exact HW1|exact Hn|exact Hst1]. cbn [bind].
  assert (Hvt : U8.Valid (utf8s target)).
  { destruct (wf_uname_parts target Hn) as (c0 & x0 & -> & _ & Hall). apply Valid_utf8s. apply uname_scalars. exact Hall. }
  pose proof (WV_app _ _ _ _ HW1 Hvt) as HW2. pose proof (WV_W _ _ _ HW2) as HW2'.
  change (b "?>") with [63; 62].
  assert (Hsp : (if starts_with (st (p + 2 + blen (utf8s target)) (sep ++ utf8s value ++ [63; 62] ++ post)) [63; 62]
                 then Ok (st (p + 2 + blen (utf8s target)) (sep ++ utf8s value ++ [63; 62] ++ post))
                 else consume_spaces text (st (p + 2 + blen (utf8s target)) (sep ++ utf8s value ++ [63; 62] ++ post)))
                = Ok (st (p + 2 + blen (utf8s target) + blen sep) (utf8s value ++ [63; 62] ++ post))).
  { rewrite starts_with_st by exact HW2'. destruct sep as [|w sep'].
    - destruct value as [|x v]; [|destruct Hfirst as [_ Hf]; congruence].
      cbn [app prefix_b CstU.utf8s flat_map]. rewrite blen_nil, N.add_0_r. reflexivity.
    - assert (Hw : Cst.is_ws w = true).
      { cbn [Cst.wf_ws forallb] in Hs. apply andb_true_iff in Hs. apply Hs. }
      replace (prefix_b [63; 62] ((w :: sep') ++ utf8s value ++ [63; 62] ++ post)) with false.
      2:{ cbn [app prefix_b]. destruct (63 =? w) eqn:E63; [|reflexivity].
          apply N.eqb_eq in E63. subst w. discriminate. }
      unfold consume_spaces. cbn [app]. rewrite at_end_st by exact HW2'.
      unfold starts_with_space. rewrite curr_byte_opt_st by exact HW2'.
      rewrite (ws_space _ Hw). cbn [negb].
      f_equal. apply (skip_spaces_st text (p + 2 + blen (utf8s target)) (w :: sep') (utf8s value ++ [63; 62] ++ post));
        [exact HW2'|apply ws_spaces; exact Hs|exact Hst2]. }
  rewrite Hsp. cbn [bind]. clear Hsp.
  pose proof (WV_lit _ _ _ _ HW2 (ws_lit _ Hs)) as HW3.
  change (fun (s : stream) (ch : N) => negb ((ch =? 63) && starts_with s [63; 62])) with pi_f.
  rewrite consume_chars_v; [|exact HW3|apply pi_walk_u; assumption|].
  2:{ cbn [stop_u app]. split; [lia|]. split; [reflexivity|]. unfold pi_f.
      rewrite starts_with_st by (apply (W_app _ _ _ _ (WV_W _ _ _ HW3))). reflexivity. }
  cbn [bind]. pose proof (W_app _ _ _ _ (WV_W _ _ _ HW3)) as HW4.
  rewrite skip_string_st by exact HW4. cbn [bind]. cbn [CstLex.st s_pos]. change (blen [63; 62]) with 2.
  unfold slice_len. cbn [sl sl_start sl_end]. fold e.
  replace (p + 2 + blen (utf8s target) + blen sep + blen (utf8s value)) with e by reflexivity.
  destruct value as [|x v].
  - cbn [CstU.utf8s flat_map] in *. rewrite blen_nil in *.
    replace (e - (p + 2 + blen (utf8s target) + blen sep) =? 0) with true by (unfold e; rewrite blen_nil; lia).
    reflexivity.
  - pose proof (utf8_len x) as Hl.
    replace (e - (p + 2 + blen (utf8s target) + blen sep) =? 0) with false
      by (unfold e; rewrite utf8s_cons, blen_app; lia).
    reflexivity.
Qed.


(* ---- start tags ---- *)
Notation enc_attr := CstU.enc_attr.

Lemma wf_uattr_parts a : CstU.wf_attr a = true ->
  Cst.a_ws a <> [] /\ Cst.wf_ws (Cst.a_ws a) = true /\ CstU.wf_name (Cst.a_name a) = true /\
  Cst.wf_ws (Cst.a_ws1 a) = true /\ Cst.wf_ws (Cst.a_ws2 a) = true /\
  (Cst.a_quote a = 39 \/ Cst.a_quote a = 34) /\
  forallb (fun x => CstU.is_char x && negb (x =? 60) && negb (x =? 38) && negb (x =? Cst.a_quote a)
                    && negb (x =? 9) && negb (x =? 10)) (Cst.a_value a) = true.
Proof.
  unfold CstU.wf_attr. rewrite !andb_true_iff. intros (((((H1 & H2) & H3) & H4) & H5) & H6).
  repeat split; try assumption.
  - unfold Cst.wf_ws1 in H1. destruct (Cst.a_ws a); [discriminate|discriminate].
  - unfold Cst.wf_ws1 in H1. unfold Cst.wf_ws. destruct (Cst.a_ws a); [reflexivity|exact H1].
  - lia.
Qed.

Lemma uattr_value_facts quote value :
  forallb (fun x => CstU.is_char x && negb (x =? 60) && negb (x =? 38) && negb (x =? quote)
                    && negb (x =? 9) && negb (x =? 10)) value = true ->
  (quote = 39 \/ quote = 34) ->
  forallb (fun y => negb ((y =? quote) || (y =? 60))) (utf8s value) = true /\
  Forall (fun c => is_scalar c = true /\ char_is_char c = true) value /\
  existsb (fun x => (x =? 38) || (x =? 9) || (x =? 10) || (x =? 13)) (utf8s value) = false.
Proof.
  intros Hv Hq. split; [|split].
  - apply forallb_utf8; [intros b0 Hb; destruct Hq as [-> | ->]; lia|].
    eapply forallb_imp; [|exact Hv]. intros x Hx. cbv beta in Hx. lia.
  - apply (chars_facts _ value) with (2 := Hv). intros x Hx. cbv beta in Hx. rewrite !andb_true_iff in Hx. apply Hx.
  - assert (G : forallb (fun x => negb ((x =? 38) || (x =? 9) || (x =? 10) || (x =? 13))) (utf8s value) = true).
    { apply forallb_utf8; [intros b0 Hb; lia|]. eapply forallb_imp; [|exact Hv]. intros x Hx. cbv beta in Hx.
      assert (Hc : CstU.is_char x = true) by (rewrite !andb_true_iff in Hx; apply Hx). destruct (uchar_facts x Hc) as (_ & _ & H13).
      rewrite !andb_true_iff in Hx. destruct Hx as [[[[[_ _] H38] _] H9] H10]. lia. }
    clear - G. induction (utf8s value) as [|x l IH]; [reflexivity|]. cbn [forallb existsb] in *.
    apply andb_true_iff in G. destruct G as [G1 G2]. rewrite (IH G2). lia.
Qed.

Lemma lex_attr_iter_u fuel ts q a more c : WV q (Cst.r_attr (enc_attr a) ++ more) -> CstU.wf_attr a = true ->
  parse_element_loop text C ev (S fuel) ts (st q (Cst.r_attr (enc_attr a) ++ more)) c =
  let! c' := ev (attr_tok q (enc_attr a)) c in
  parse_element_loop text C ev fuel ts (st (q + blen (Cst.r_attr (enc_attr a))) more) c'.
Proof.
  intros HW Hwf. destruct (wf_uattr_parts _ Hwf) as (Hne & Hws & Hn & Hw1 & Hw2 & Hq & Hv).
  unfold attr_tok. cbv zeta.
  assert (Elen : q + blen (Cst.r_attr (enc_attr a)) = q + blen (Cst.a_ws a) + blen (utf8s (Cst.a_name a)) + blen (Cst.a_ws1 a) + 1
                  + blen (Cst.a_ws2 a) + 1 + blen (utf8s (Cst.a_value a)) + 1).
  { clear. unfold Cst.r_attr, CstU.enc_attr. cbn [Cst.a_ws Cst.a_name Cst.a_ws1 Cst.a_ws2 Cst.a_quote Cst.a_value].
    rewrite !blen_app, !blen_cons, blen_nil. lia. }
  rewrite Elen. clear Elen.
  unfold Cst.r_attr, CstU.enc_attr in *. cbn [Cst.a_ws Cst.a_name Cst.a_ws1 Cst.a_ws2 Cst.a_quote Cst.a_value] in *.
  rewrite <- !app_assoc in *. cbn [app] in *.
  destruct a as [ws name ws1 ws2 quote value]. cbn [Cst.a_ws Cst.a_name Cst.a_ws1 Cst.a_ws2 Cst.a_quote Cst.a_value] in *.
  destruct (uattr_value_facts _ _ Hv Hq) as (Hv1 & Hv2 & _). clear Hv Hwf.
  assert (Hqq : (quote =? 39) || (quote =? 34) = true) by (clear - Hq; lia).
  assert (Hqsp : byte_is_space quote = false) by (clear - Hq; destruct Hq as [-> | ->]; reflexivity).
  assert (Hq128 : quote < 128) by (clear - Hq; lia). clear Hq.
  destruct ws as [|w ws]; [congruence|]. clear Hne.
  destruct (uname_head _ Hn) as (n & nr & En & Hnsp & Hn47 & Hn62 & _).
  apply N.eqb_neq in Hn47, Hn62.
  assert (Hwsp : byte_is_space w = true).
  { cbn [Cst.wf_ws forallb] in Hws. apply andb_true_iff in Hws. apply ws_space. apply Hws. }
  pose proof (WV_W _ _ _ HW) as HW0.
  cbn [parse_element_loop]. rewrite at_end_st by exact HW0. cbn [app].
  unfold starts_with_space. rewrite curr_byte_opt_st by exact HW0.
  rewrite Hwsp. cbv zeta.
  change (w :: ws ++ ?l) with ((w :: ws) ++ l) in HW, HW0 |- *.
  rewrite skip_spaces_st; [|exact HW0|apply ws_spaces; exact Hws|rewrite En; cbn [app stops]; exact Hnsp].
  pose proof (WV_lit _ _ _ _ HW (ws_lit _ Hws)) as HW1. pose proof (WV_W _ _ _ HW1) as HW1'. cbn [CstLex.st s_pos].
  assert (Ecb : curr_byte (st (q + blen (w :: ws)) (utf8s name ++ ws1 ++ 61 :: ws2 ++ quote :: utf8s value ++ quote :: more)) = Ok n).
  { revert HW1'. rewrite En. cbn [app]. intros HW1'. apply curr_byte_st. exact HW1'. }
  rewrite Ecb. cbn [bind]. rewrite Hn47, Hn62. clear Ecb En.
  rewrite consume_qname_u; [|exact HW1|exact Hn|].
  2:{ apply ws_stop_name; [exact Hw1|]. cbn [name_stop]. apply not_name_byte_lit. auto. }
  cbn [bind].
  assert (Hvn : U8.Valid (utf8s name)).
  { destruct (wf_uname_parts name Hn) as (c0 & x0 & -> & _ & Hall). apply Valid_utf8s. apply uname_scalars. exact Hall. }
  pose proof (WV_app _ _ _ _ HW1 Hvn) as HW2. pose proof (WV_W _ _ _ HW2) as HW2'.
  unfold consume_eq.
  rewrite skip_spaces_st; [|exact HW2'|apply ws_spaces; exact Hw1|reflexivity].
  pose proof (WV_lit _ _ _ _ HW2 (ws_lit _ Hw1)) as HW3.
  rewrite consume_byte_st by (apply (WV_W _ _ _ HW3)). cbn [bind].
  pose proof (WV_cons _ _ _ _ HW3 ltac:(lia)) as HW4.
  rewrite skip_spaces_st; [|apply (WV_W _ _ _ HW4)|apply ws_spaces; exact Hw2|cbn [stops]; exact Hqsp].
  pose proof (WV_lit _ _ _ _ HW4 (ws_lit _ Hw2)) as HW5. cbn [CstLex.st s_pos].
  unfold consume_quote. rewrite curr_byte_st by (apply (WV_W _ _ _ HW5)). cbn [bind].
  rewrite Hqq.
  rewrite advance1_st by (apply (WV_W _ _ _ HW5)). cbn [bind].
  pose proof (WV_cons _ _ _ _ HW5 Hq128) as HW6. pose proof (WV_W _ _ _ HW6) as HW6'. cbn [CstLex.st s_pos].
  unfold advance_until2. rewrite avail_st by exact HW6'.
  rewrite find_idx_run; [|exact Hv1|rewrite N.eqb_refl; reflexivity].
  rewrite advance_st by (try reflexivity; exact HW6'). cbn [bind].
  unfold slice_back. cbn [CstLex.st s_pos].
  rewrite (mk_slice_v text _ (utf8s value) _ HW6) by (apply Valid_utf8s; apply chars_scalars; exact Hv2). cbn [bind].
  rewrite (is_xml_str_u _ value _ _ HW6' Hv2). cbn [bind].
  pose proof (W_app _ _ _ _ HW6') as HW7.
  rewrite consume_byte_st by exact HW7. cbn [bind]. cbn [CstLex.st s_pos].
  reflexivity.
Qed.

Lemma lex_elem_loop_u ts ws_end empty post : forall attrs q c fuel,
  WV q (flat_map Cst.r_attr (map enc_attr attrs) ++ ws_end ++ tag_tail empty ++ post) ->
  forallb CstU.wf_attr attrs = true -> Cst.wf_ws ws_end = true -> (length attrs < fuel)%nat ->
  parse_element_loop text C ev fuel ts (st q (flat_map Cst.r_attr (map enc_attr attrs) ++ ws_end ++ tag_tail empty ++ post)) c =
  let q' := q + blen (flat_map Cst.r_attr (map enc_attr attrs)) + blen ws_end in
  let! c1 := evs C ev (attr_toks q (map enc_attr attrs)) c in
  let! c2 := ev (end_tok q' empty) c1 in
  Ok (negb empty, st (q' + blen (tag_tail empty)) post, c2).
Proof.
  induction attrs as [|a attrs IH]; intros q c fuel HW Ha Hws Hf; cbv zeta.
  - cbn [map flat_map app attr_toks evs bind] in *. rewrite blen_nil, N.add_0_r.
    destruct fuel as [|fu]; [cbn in Hf; lia|]. apply lex_elem_end; [apply (WV_W _ _ _ HW)|exact Hws].
  - cbn [forallb] in Ha. apply andb_true_iff in Ha. destruct Ha as [Ha1 Ha2].
    cbn [length] in Hf. destruct fuel as [|fu]; [lia|].
    cbn [map flat_map attr_toks evs] in *. rewrite <- app_assoc in *.
    rewrite lex_attr_iter_u by assumption.
    destruct (ev (attr_tok q (enc_attr a)) c) as [c'| | |]; cbn [bind]; try reflexivity.
    rewrite IH; [| |exact Ha2|exact Hws|lia].
    + cbv zeta. rewrite blen_app. rewrite !N.add_assoc. reflexivity.
    + apply (WV_app _ _ _ _ HW).
      destruct (wf_uattr_parts _ Ha1) as (_ & Hw & Hn & Hw1 & Hw2 & Hq & Hv).
      destruct (uattr_value_facts _ _ Hv Hq) as (_ & Hv2 & _).
      unfold Cst.r_attr, CstU.enc_attr. cbn [Cst.a_ws Cst.a_name Cst.a_ws1 Cst.a_ws2 Cst.a_quote Cst.a_value].
      repeat apply U8.Valid_app; try (apply Valid_lit; apply ws_lit; assumption).
      * destruct (wf_uname_parts _ Hn) as (c0 & x0 & -> & _ & Hall). apply Valid_utf8s. apply uname_scalars. exact Hall.
      * apply Valid_lit. reflexivity.
      * apply Valid_lit. cbn. destruct Hq as [-> | ->]; reflexivity.
      * apply Valid_utf8s. apply chars_scalars. exact Hv2.
      * apply Valid_lit. cbn. destruct Hq as [-> | ->]; reflexivity.
Qed.

Lemma flat_uattr_len attrs : (length attrs <= length (flat_map Cst.r_attr (map enc_attr attrs)))%nat.
Proof. rewrite <- (map_length enc_attr attrs). apply flat_attr_len. Qed.

Lemma uattrs_name_stop attrs ws_end empty post :
  forallb CstU.wf_attr attrs = true -> Cst.wf_ws ws_end = true ->
  name_stop (flat_map Cst.r_attr (map enc_attr attrs) ++ ws_end ++ tag_tail empty ++ post).
Proof.
  intros Ha Hws. destruct attrs as [|a attrs].
  - cbn [map flat_map app]. apply ws_stop_name; [exact Hws|]. destruct empty; cbn [tag_tail app name_stop];
      apply not_name_byte_lit; auto.
  - cbn [forallb] in Ha. apply andb_true_iff in Ha. destruct Ha as [Ha _].
    destruct (wf_uattr_parts _ Ha) as (Hne & Hw & _). cbn [map flat_map]. unfold Cst.r_attr, CstU.enc_attr.
    cbn [Cst.a_ws]. destruct (Cst.a_ws a) as [|w ws]; [congruence|]. cbn [app name_stop].
    cbn [Cst.wf_ws forallb] in Hw. apply andb_true_iff in Hw. apply ws_not_name_byte. apply Hw.
Qed.

Lemma lex_element_u p name attrs ws_end empty post c :
  WV p ([60] ++ utf8s name ++ flat_map Cst.r_attr (map enc_attr attrs) ++ ws_end ++ tag_tail empty ++ post) ->
  CstU.wf_name name = true -> forallb CstU.wf_attr attrs = true -> Cst.wf_ws ws_end = true ->
  let q' := p + 1 + blen (utf8s name) + blen (flat_map Cst.r_attr (map enc_attr attrs)) + blen ws_end in
  parse_element text C ev (st p ([60] ++ utf8s name ++ flat_map Cst.r_attr (map enc_attr attrs) ++ ws_end ++ tag_tail empty ++ post)) c =
  let! c1 := evs C ev (start_toks p (utf8s name) (map enc_attr attrs)) c in
  let! c2 := ev (end_tok q' empty) c1 in
  Ok (negb empty, st (q' + blen (tag_tail empty)) post, c2).
Proof.
  intros HW Hn Ha Hws q'. unfold parse_element. cbv zeta. cbn [CstLex.st s_pos].
  fold (st p ([60] ++ utf8s name ++ flat_map Cst.r_attr (map enc_attr attrs) ++ ws_end ++ tag_tail empty ++ post)).
  rewrite (advance_st text 1 p [60]) by (try reflexivity; apply (WV_W _ _ _ HW)). cbn [bind].
  pose proof (WV_lit _ _ _ _ HW eq_refl) as HW1. change (blen [60]) with 1 in HW1.
  rewrite consume_qname_u; [|exact HW1|exact Hn|apply uattrs_name_stop; assumption]. cbn [bind].
  unfold start_toks. cbn [evs].
  destruct (ev _ c) as [c0| | |]; cbn [bind]; try reflexivity.
  assert (Hvn : U8.Valid (utf8s name)).
  { destruct (wf_uname_parts name Hn) as (c1 & x0 & -> & _ & Hall). apply Valid_utf8s. apply uname_scalars. exact Hall. }
  pose proof (WV_app _ _ _ _ HW1 Hvn) as HW2.
  rewrite lex_elem_loop_u; [|exact HW2|exact Ha|exact Hws|].
  2:{ cbn [CstLex.st s_rest]. rewrite app_length. pose proof (flat_uattr_len attrs). lia. }
  reflexivity.
Qed.

(* ---- end tags ---- *)
Lemma lex_close_u p name ws2 post c : WV p ([60; 47] ++ utf8s name ++ ws2 ++ [62] ++ post) ->
  CstU.wf_name name = true -> Cst.wf_ws ws2 = true ->
  let e := p + 2 + blen (utf8s name) + blen ws2 + 1 in
  parse_close_element text C ev (st p ([60; 47] ++ utf8s name ++ ws2 ++ [62] ++ post)) c =
  let! c' := ev (TElementEnd (EClose (sl (p + 2) (p + 2)) (sl (p + 2) (p + 2 + blen (utf8s name)))) (p, e)) c in
  Ok (st e post, c').
Proof.
  intros HW Hn Hws e. unfold parse_close_element. cbv zeta. cbn [CstLex.st s_pos].
  fold (st p ([60; 47] ++ utf8s name ++ ws2 ++ [62] ++ post)).
  rewrite (advance_st text 2 p [60; 47]) by (try reflexivity; apply (WV_W _ _ _ HW)). cbn [bind].
  pose proof (WV_lit _ _ _ _ HW eq_refl) as HW1. change (blen [60; 47]) with 2 in HW1.
  rewrite consume_qname_u; [|exact HW1|exact Hn|].
  2:{ apply ws_stop_name; [exact Hws|]. cbn [app name_stop]. apply not_name_byte_lit. auto. }
  cbn [bind]. pose proof (W_app _ _ _ _ (WV_W _ _ _ HW1)) as HW2.
  rewrite skip_spaces_st; [|exact HW2|apply ws_spaces; exact Hws|reflexivity].
  pose proof (W_app _ _ _ _ HW2) as HW3. cbn [app] in *.
  rewrite consume_byte_st by exact HW3. cbn [bind CstLex.st s_pos]. reflexivity.
Qed.

End ULex2.

Print Assumptions lex_comment_u.
Print Assumptions lex_pi_u.
Print Assumptions lex_text_u.
Print Assumptions lex_element_u.
Print Assumptions lex_close_u.
