(* Proofs/CstRangeG6Frags.v -- C13 / C18 on the capstone fragment, stage S6: CstRangeG5Frags.v once more for
   declarations whose value may be MARKUP (Proofs/CstFullS4TSem.v [udecl_okc]: the character-data machine
   never looks inside such a value), and the fragments of the value of a character-data entity. *)
From Coq Require Import Ascii String.
From Coq Require Import List NArith PeanoNat Bool Lia ZifyBool ZifyN ZifyNat.
Import ListNotations.
From RX Require Import Generated.
From RX.Model Require Import Base CharClass Stream Tokenizer Doc Builder Parse.
From RX.Spec Require Cst CstText CstEnt Detector Scope CstU.
From RX.Spec Require Import Text CstFull.
From RX.Proofs Require Import Tactics CstLex CstBuild CstULex TextMachine TextMerge HoistProofs NoPanicUtf8 DetectorProofs.
From RX.Proofs Require Import CstTextSem CstTextLex CstTextBuild CstEntSem CstEntMeaning CstEntRun CstEntDtd.
From RX.Proofs Require Import CstFullS2Sem CstFullS3Sem CstFullS3Text CstFullS4TSem.
From RX.Proofs Require CstRangeG5Frags.
From RX.Proofs Require CstEntText.
From RX.Proofs Require Import CstRangeDefs CstRangeBuild CstRangeTDefs CstRangeTBuild CstRangeEDefs CstRangeEText CstRangeEFrags.
Open Scope N_scope.

Notation vt_of := CstRangeG5Frags.vt_of.

Section FragsE.
Variable text : bytes.
Variable decls : list E.edecl.
Variable es : list entity.
Hypothesis Henv : Forall2 (uent_ok text) decls es.
Hypothesis Hdecls : Forall udecl_okc decls.

Notation vt := (vt_of decls es).
Notation ExpG := (CstRangeEText.ExpG text decls es).
Notation ValG := (CstRangeEText.ValG text decls es).

Lemma lookup_pos_gen n d : forall ds es', Forall2 (uent_ok text) ds es' ->
  find (fun d0 => E.beq (E.e_name d0) n) ds = Some d ->
  exists en, find_entity text es' n = Some en /\
             vlookup (vt_of ds es') n = Some (sl_start (en_value en), E.e_value d) /\
             sl_end (en_value en) = sl_start (en_value en) + blen (E.r_value (E.e_value d)).
Proof.
  induction 1 as [|d0 e0 ds es' H0 _ IH]; intros Hf; [discriminate|].
  unfold CstRangeG5Frags.vt_of. cbn [find find_entity combine map vlookup fst snd] in *. destruct H0 as (Hn & vs & tail & Ev & _).
  rewrite Hn, <- CstEntText.beq_bytes_eqb. destruct (E.beq (E.e_name d0) n).
  - injection Hf as <-. exists e0. split; [reflexivity|]. split; [reflexivity|]. rewrite Ev. reflexivity.
  - apply IH. exact Hf.
Qed.

Lemma lookup_pos n d en : first_decl decls n = Some d -> find_entity text es n = Some en ->
  vlookup vt n = Some (sl_start (en_value en), E.e_value d) /\
  sl_end (en_value en) = sl_start (en_value en) + blen (E.r_value (E.e_value d)).
Proof.
  intros Hf He. destruct (lookup_pos_gen n d decls es Henv Hf) as (en' & E1 & E2 & E3).
  rewrite He in E1. injection E1 as <-. split; assumption.
Qed.

Lemma emitG_desc m acc r : acc_ok m acc ->
  map gdesc (emitG m acc r) = if match acc with [] => false | _ => true end then [(r, None)] else [].
Proof.
  intros Hacc. unfold emitG. destruct (emit_valid_u m acc Hacc) as [Eo _]. rewrite Eo.
  destruct acc as [|c acc'].
  - reflexivity.
  - pose proof (acc_decode_ne m c acc' Hacc) as Hne.
    destruct (decode_chunks (c :: acc')); [congruence|]. reflexivity.
Qed.

(* the fragments of the pieces of a token *)
Lemma ExpG_frs : forall m acc ps q tr F, Exp decls m acc ps q tr F ->
  forall r G fuel ld ld', ExpG m acc ps r G -> ld_run ld tr = Some ld' -> 10 <= N.of_nat fuel + ld_depth ld ->
  Forall (uep_ok m) ps -> acc_ok m acc ->
  map gdesc G = frs_ps fuel vt (neb acc) ps r.
Proof.
  intros m acc ps q tr F H.
  induction H as [m acc|m acc p rest q tr F _ IH|m acc n rest d vps qv trv Fv q tr F Hfd Hval Hev IHv Her IHr];
    intros r G fuel ld ld' HG Hld Hfu Hok Hacc.
  - inversion HG; subst. rewrite frs_ps_nil. apply emitG_desc. exact Hacc.
  - inversion HG; subst. rewrite frs_ps_piece.
    apply Forall_cons_iff in Hok. destruct Hok as [Hp Hr].
    pose proof (uep_nonmark _ _ Hp) as Em. destruct (nonmark_chunks p Em) as (Hne & _).
    match goal with X : CstRangeEText.ExpG _ _ _ _ _ _ _ _ |- _ =>
      rewrite (IH r G fuel ld ld' X Hld Hfu Hr ltac:(apply acc_app; [exact Hacc|apply uep_chunks; exact Hp])) end.
    destruct acc; [destruct (T.piece_chunks p); [congruence|reflexivity]|reflexivity].
  - apply Forall_cons_iff in Hok. destruct Hok as [_ Hr].
    cbn [ld_run] in Hld. destruct (ld_enter ld) as [ld1|] eqn:Ee; [|discriminate].
    rewrite ld_run_app in Hld. destruct (ld_run ld1 trv) as [ld1'|] eqn:E1; [|discriminate]. cbn [ld_run] in Hld.
    destruct (ld_enter_depth _ _ Ee) as [Hd1 Hd10].
    destruct fuel as [|fu]; [lia|]. rewrite frs_ps_ref.
    inversion HG as [| |m0 acc0 n0 rest0 r0 d' vps' en Gv G' Hfd' Hval' Hfe HV HG' ]; subst.
    rewrite Hfd in Hfd'. injection Hfd' as <-. rewrite Hval in Hval'. injection Hval' as <-.
    destruct (lookup_pos n d en Hfd Hfe) as [Elk Eend]. rewrite Elk, Hval.
    rewrite Hval in Eend. cbn [E.r_value] in Eend.
    rewrite !map_app. rewrite (emitG_desc m acc r Hacc). fold (neb acc). f_equal. f_equal.
    + (* the value *)
      cbv zeta. unfold nlen. fold (blen (E.r_epieces vps)). rewrite <- Eend.
      inversion HV as [vps0 s0 Hnil|vps0 s0 Hnn Hfast|vps0 s0 Gv0 Hnn Hslow HGv]; subst.
      * rewrite Hnil. reflexivity.
      * destruct (E.r_epieces vps) as [|x V] eqn:EV; [congruence|]. unfold has_amp_cr. rewrite Hfast. reflexivity.
      * destruct (E.r_epieces vps) as [|x V] eqn:EV; [congruence|]. unfold has_amp_cr. rewrite Hslow.
        apply (IHv _ _ fu ld1 ld1' HGv E1); [lia|apply (CstFullS4TSem.first_decl_ok_u decls Hdecls _ _ _ Hfd Hval)|apply acc_nil].
    + (* the rest *)
      apply (IHr r G' (S fu) _ ld' HG' Hld); [|exact Hr|apply acc_nil].
      rewrite dec_depth_depth, (Exp_depth decls _ _ _ _ _ _ Hev _ _ E1). lia.
Qed.

(* the fragments of the value of a character-data entity, read as a token of its own *)
Lemma ValG_frs vps s Gv qv trv Fv ld ld' : Exp decls true [] vps qv trv Fv -> ValG vps s Gv ->
  ld_run ld trv = Some ld' -> Forall (uep_ok true) vps ->
  sl_end s = sl_start s + blen (E.r_epieces vps) ->
  map gdesc Gv =
  match E.r_epieces vps with
  | [] => []
  | _ => if has_amp_cr (E.r_epieces vps) then frs_ps E.max_level vt false vps (sl_start s, sl_start s + nlen (E.r_epieces vps))
         else [((sl_start s, sl_start s + nlen (E.r_epieces vps)), Some (sl_start s, sl_start s + nlen (E.r_epieces vps)))]
  end.
Proof.
  intros Hv HV Hld Hok Eend. unfold nlen. fold (blen (E.r_epieces vps)). rewrite <- Eend.
  inversion HV as [vps0 s0 Hnil|vps0 s0 Hnn Hfast|vps0 s0 Gv0 Hnn Hslow HGv]; subst.
  - rewrite Hnil. reflexivity.
  - destruct (E.r_epieces vps) as [|x V] eqn:EV; [congruence|]. unfold has_amp_cr. rewrite Hfast. reflexivity.
  - destruct (E.r_epieces vps) as [|x V] eqn:EV; [congruence|]. unfold has_amp_cr. rewrite Hslow.
    apply (ExpG_frs _ _ _ _ _ _ Hv _ _ E.max_level ld ld' HGv Hld); [unfold E.max_level; lia|exact Hok|apply acc_nil].
Qed.

(* the fragments of a stretch written at p: appended as it is, or read through the buffer *)
Definition StretchG (l : list E.epiece) (p : N) (G : list (cow * range)) : Prop :=
  let e := p + blen (E.r_epieces l) in
  (existsb (fun x => (x =? 38) || (x =? 13)) (E.r_epieces l) = false /\ G = [(CowBorrowed (sl p e), (p, e))]) \/
  (existsb (fun x => (x =? 38) || (x =? 13)) (E.r_epieces l) = true /\ ExpG false [] l (p, e) G).

(* the fragments of the segments of a run written at p *)
Inductive RunG : list eseg -> N -> list (cow * range) -> Prop :=
| RunG_nil : forall p, RunG [] p []
| RunG_ss : forall ps L p G GG, StretchG ps p G -> RunG L (p + blen (E.r_epieces ps)) GG -> RunG (ESS ps :: L) p (G ++ GG)
| RunG_sc : forall bs L p GG, RunG L (p + blen (r_eseg (ESC bs))) GG ->
    RunG (ESC bs :: L) p ((frag p (SC bs), seg_range p (SC bs)) :: GG).

Lemma RunG_frs : forall L Q tr FF, RunExp decls L Q tr FF ->
  forall p G ld ld', RunG L p G -> ld_run ld tr = Some ld' -> ld_depth ld = 0 -> Forall ueseg_wf L ->
  map gdesc G = frs_segs vt p (map rseg_of L).
Proof.
  intros L Q tr FF H.
  induction H as [|ps q tr F L Q tr' FF He HR IH|bs L Q tr' FF HR IH]; intros p G ld ld' HG Hld Hd0 HF.
  - inversion HG; subst. reflexivity.
  - apply Forall_cons_iff in HF. destruct HF as [(_ & Hok & _) HL].
    inversion HG as [|ps0 L0 p0 G1 GG HS HGG|]; subst.
    rewrite ld_run_app in Hld. destruct (ld_run ld tr) as [ld1|] eqn:E1; [|discriminate].
    cbn [map rseg_of frs_segs]. rewrite map_app. unfold nlen. fold (blen (E.r_epieces ps)). f_equal.
    + destruct HS as [[Hf ->]|[Hs HX]]; unfold has_amp_cr.
      * rewrite Hf. reflexivity.
      * rewrite Hs. apply (ExpG_frs _ _ _ _ _ _ He _ _ E.max_level ld ld1 HX E1);
          [rewrite Hd0; unfold E.max_level; lia|exact Hok|apply acc_nil].
    + apply (IH _ _ ld1 ld' HGG Hld); [|exact HL]. rewrite (Exp_depth decls _ _ _ _ _ _ He _ _ E1). exact Hd0.
  - apply Forall_cons_iff in HF. destruct HF as [_ HL].
    inversion HG as [| |bs0 L0 p0 GG HGG]; subst.
    cbn [map rseg_of frs_segs]. f_equal.
    + unfold gdesc, seg_range. cbn [fst snd frag r_seg]. rewrite mem_b_existsb. fold (has_cr bs).
      f_equal.
      * f_equal. rewrite !blen_app. change (blen T.cdata_open) with 9. change (blen T.cdata_close) with 3. unfold nlen, blen. lia.
      * destruct (has_cr bs); reflexivity.
    + replace (p + 9 + nlen bs + 3) with (p + blen (r_eseg (ESC bs))).
      * apply (IH _ _ ld ld' HGG Hld Hd0 HL).
      * cbn [r_eseg]. rewrite !blen_app. change (blen T.cdata_open) with 9. change (blen T.cdata_close) with 3. unfold nlen, blen. lia.
Qed.

End FragsE.

Print Assumptions RunG_frs.
Print Assumptions ValG_frs.
