(* Proofs/CstRangeG5Plug.v -- C13 / C18 on the capstone fragment, stages with a general DOCTYPE (CstRangeGPlug.v for
   entities recorded at arbitrary places): what the stage supplies to
   the frame of CstRangeFItems.v: the storage of a value with entity references ([s3_val_norm_r]) and
   the statement [PIf_r] for runs of character data with entity references ([s3_run_r]). *)
From Coq Require Import Ascii String.
From Coq Require Import List NArith PeanoNat Bool Lia ZifyBool ZifyN ZifyNat.
Import ListNotations.
From RX Require Import Generated.
From RX.Model Require Import Base CharClass Stream Tokenizer Doc Builder Parse.
From RX.Spec Require Cst CstText CstEnt Detector Scope CstU CstNs.
From RX.Spec Require Import Text CstFull.
From RX.Proofs Require Import Tactics CstLex CstBuild CstULex CstNsLex CstNsView CstNsBuild TextMachine TextMerge DetectorProofs.
From RX.Proofs Require Import CstTextSem CstTextLex CstTextBuild CstEntSem CstEntMeaning CstEntRun CstEntInline CstEntDtd NoPanicUtf8.
From RX.Proofs Require Import CstFullLex CstFullBuild CstFullTree CstFullItems.
From RX.Proofs Require Import CstFullS2Sem CstFullS2Lex CstFullS2Build CstFullS3Sem CstFullS3Text CstFullS3Attr CstFullS3Run CstFullS3Dtd CstFullS3Plug.
From RX.Proofs Require CstItems CstNsItems CstTextItems CstEntAttr CstEntBuild.
From RX.Proofs Require Import CstRangeDefs CstRangeBuild CstRangeTDefs CstRangeTBuild CstRangeEDefs CstRangeEText CstRangeEFrags.
From RX.Proofs Require Import CstRangeFDefs CstRangeFBuild CstRangeFItems CstRangeGDefs CstRangeGText CstRangeG5Frags CstRangeG5Run.
Open Scope N_scope.

Section PlugR.
Variable decls : list E.edecl.           (* the encoded declarations *)
Hypothesis Hdecls : Forall udecl_ok decls.
Notation tb := (E.level decls E.max_level).
Notation M := (ents_meaning tb).
Variable text : bytes.
Variable D : list Scope.binding.
Hypothesis HD : forall l, NoDup l -> incl l D -> N.of_nat (length l) <= 65535.
Variable es : list entity.
Hypothesis Henv : Forall2 (uent_ok text) decls es.
Notation vt := (vt_of decls es).
Notation s3_run_parts := (CstFullS3Plug.s3_run_parts decls).
Notation ExtraF := (CstRangeFItems.ExtraF epieces M (vstore3 tb) (run_nodes3 tb vt) text).
Notation NsVals_nil := (CstRangeFBuild.NsVals_nil text).
Notation NsVals_same := (CstRangeFItems.NsVals_same text).

Lemma s3_val_norm_r : forall q v p more, wf_val M q v = true -> q = 39 \/ q = 34 ->
  CstULex.WV text p (r_val epieces v ++ [q] ++ more) ->
  exists stor, norm_ok text es (sl p (p + blen (r_val epieces v))) stor /\ storage_bytes text stor = val_sem M v /\
               stored stor (vstore3 tb p v).
Proof.
  intros q v p more Hv Hq HW. cbn [wf_val ents_meaning r_val epieces val_sem] in *. unfold wf_eval in Hv. unfold eval_sem.
  apply andb_true_iff in Hv. destruct Hv as [Hw Hi].
  destruct (E.inline_ps tb true false (enc_epieces v)) as [[Q tr]|] eqn:Ein; [|discriminate].
  apply andb_true_iff in Hi. destruct Hi as [Hlim Hcr].
  pose proof Hw as Hw0. unfold wf_uepieces in Hw0. apply andb_true_iff in Hw0. destruct Hw0 as [Hwp _].
  pose proof (no_cdata_of _ _ _ _ Hwp) as Hnc.
  destruct (uepieces_ok q false false false v ltac:(lia) Hw Hnc) as (Hok & Hadj & _).
  destruct (detector_complete_gen tr 0 0 Hlim) as [ld' Hld]. change (DetectorProofs.mk 0 0) with ld_init in Hld.
  exists (if needs_norm (E.r_epieces (enc_epieces v)) then Owned (T.value_sem Q)
          else Borrowed (SIn (sl p (p + blen (E.r_epieces (enc_epieces v)))))).
  split; [|split].
  - intros c [Hes Hc]. apply (normalize_attribute_ent_u text D HD decls es Henv Hdecls p _ q more c E.max_level Q tr ld'); assumption.
  - destruct (needs_norm (E.r_epieces (enc_epieces v))) eqn:En; [reflexivity|].
    cbn [storage_bytes str_bytes]. rewrite (W_slice _ _ _ _ (WV_W _ _ _ HW)). symmetry. unfold T.value_sem.
    unfold needs_norm in En.
    assert (H38 : existsb (fun x => x =? 38) (E.r_epieces (enc_epieces v)) = false).
    { clear - En. induction (E.r_epieces (enc_epieces v)) as [|x l IH]; [reflexivity|]. cbn [existsb] in *. apply orb_false_iff in En.
      destruct En as [H1 H2]. rewrite (IH H2). lia. }
    assert (Hnc' : forallb (fun p0 => negb (is_ecdata p0)) (enc_epieces v) = true).
    { clear - Hnc. unfold enc_epieces. rewrite forallb_forall in *. intros p0 Hp. apply in_map_iff in Hp. destruct Hp as (p1 & <- & Hp1).
      rewrite enc_is_ecdata. apply Hnc. exact Hp1. }
    pose proof (CstEntBuild.inline_plain tb true false _ Q tr H38 Hnc' Ein) as Ech. unfold chunks in Ech. rewrite Ech.
    apply norm_attr_lits_plain.
    clear - En. induction (E.r_epieces (enc_epieces v)) as [|x l IH]; [reflexivity|]. cbn [existsb] in *. apply orb_false_iff in En.
    destruct En as [H1 H2]. rewrite (IH H2). lia.
  - unfold vstore3, eval_sem. cbn [r_val epieces]. rewrite Ein.
    change (needs_norm_b (E.r_epieces (enc_epieces v))) with (needs_norm (E.r_epieces (enc_epieces v))).
    destruct (needs_norm (E.r_epieces (enc_epieces v))); reflexivity.
Qed.


Lemma s3_run_r : forall r, PIf_r epieces M steps3 (vstore3 tb) (run_nodes3 tb vt) text D es (IText r).
Proof.
  intros ps inh p post c depth fuel Hwf _ _ HW Hfol I [Hes Hld] Hat NR _ _.
  cbn [wf_item] in Hwf. destruct (s3_run_parts ps Hwf) as (Hne & HF & Q & tr & Ein & Hlim & Hcr).
  specialize (Hfol eq_refl). cbn [r_item r_run epieces steps den run_sem ents_meaning] in *. unfold steps3.
  assert (Esem : erun_sem tb ps = if forallb E.is_mark Q then None else Some (T.text_sem Q)) by (unfold erun_sem; rewrite Ein; reflexivity).
  unfold erun_sem in NR |- *. rewrite Ein in *.
  assert (Hne' : enc_epieces ps <> []) by (destruct ps; [congruence|discriminate]).
  destruct (erun_ok_r text D HD decls es Henv Hdecls inh (enc_epieces ps) p post c depth fuel E.max_level Q tr Hne' HF Ein Hlim Hcr HW Hfol I Hld Hes Hat)
    as (c' & E & A & I' & Tn & Tr & Hres).
  { intros Hm. rewrite Hm in NR. apply (node_room_room _ _ NR). rewrite nsizes_one. apply NT.nsize_pos. }
  destruct (forallb E.is_mark Q) eqn:Em.
  - destruct Hres as [-> Hfr]. exists c, [], []. split; [exact E|]. split; [apply Stepn_refl|]. split; [exact I|]. split; [exact Hat|]. split; [auto|].
    split; [discriminate|]. split; [constructor|]. split; [reflexivity|]. split; [cbn; lia|].
    unfold ExtraF. cbn [fitems_at flat_map fnode_of fitem_aspans fitem_decls fst snd app]. unfold run_nodes3. rewrite Hfr. cbn [map app].
    split; [constructor|]. split; [constructor|]. split; [rewrite app_nil_r; reflexivity|apply NsVals_nil].
  - destruct Hres as (stg & S & Hst & f & fs & Hfr & Rg & Vs & Hkind).
    exists c', [(Some (c_parent_id c), KText stg)], []. split; [exact E|].
    split; [exact S|]. split; [exact I'|]. split; [exact A|]. split; [apply same_tn; exact Tn|]. split; [discriminate|].
    split; [|split; [reflexivity|split; [rewrite Tr; cbn; lia|]]].
    { cbn [NT.tag_list NT.tag app]. constructor; [|constructor]. split; [reflexivity|]. cbn [snd]. exact Hst. }
    unfold ExtraF. cbn [fitems_at flat_map fnode_of fitem_aspans fitem_decls fst snd app]. unfold run_nodes3. rewrite Hfr, Esem.
    assert (Hown : forall bs, stg = Owned bs -> stored stg (TOwned (T.text_sem Q))).
    { intros bs ->. cbn [storage_bytes] in Hst. rewrite Hst. reflexivity. }
    destruct f as [rg [sp|]]; cbn [fst snd] in *.
    + destruct fs as [|f2 fs'].
      * subst stg. cbn [map app fst snd]. split; [constructor; [destruct sp; reflexivity|constructor]|].
        split; [constructor|]. split; [exact Rg|apply NsVals_same; exact Vs].
      * destruct Hkind as [bs Ek]. cbn [map app fst snd]. split; [constructor; [exact (Hown bs Ek)|constructor]|].
        split; [constructor|]. split; [exact Rg|apply NsVals_same; exact Vs].
    + assert (Ek : exists bs, stg = Owned bs) by (destruct fs; exact Hkind). destruct Ek as [bs Ek].
      assert (Er : forall (X : list ((N * N) * tstore)), match fs with [] => [(rg, TOwned (T.text_sem Q))] | _ :: _ => [(rg, TOwned (T.text_sem Q))] end = [(rg, TOwned (T.text_sem Q))])
        by (intros _; destruct fs; reflexivity).
      replace (match fs with [] => [(rg, TOwned (T.text_sem Q))] | _ :: _ => [(rg, TOwned (T.text_sem Q))] end) with [(rg, TOwned (T.text_sem Q))] by (destruct fs; reflexivity).
      cbn [map app fst snd]. split; [constructor; [exact (Hown bs Ek)|constructor]|].
      split; [constructor|]. split; [exact Rg|apply NsVals_same; exact Vs].
Qed.



End PlugR.

Print Assumptions s3_run_r.
