(* Proofs/CstFullS6Embed5.v -- the capstone fragment: stage S5 inside stage S6 ([s5_in_s6]).  A document of
   Spec/CstFullS5.v, whose entities are character data and whose meaning is defined value by value and run by run
   ([ents_meaning]: Spec/CstEnt.v [E.inline_ps] on the table [E.level]), is -- with its general entity declarations
   read as declarations of Spec/CstFullS4.v -- a well-formed document of Spec/CstFullS6.v with the same rendering and
   the same meaning: inlining the whole body item by item (Spec/CstFullS4.v) does to every value and every run what
   [E.inline_ps] does, the runs of one element stay apart, and the limits / provisos / namespace conditions asked of
   each value and run separately are those asked of the inlined body.  No parser is involved. *)
From Coq Require Import Ascii String.
From Coq Require Import List NArith PeanoNat Bool Lia ZifyBool ZifyN ZifyNat.
Import ListNotations.
From RX Require Import Generated.
From RX.Model Require Import Base CharClass Stream Tokenizer Doc Builder Parse.
From RX.Spec Require Cst CstText CstEnt Detector Scope CstU CstNs Chars.
From RX.Spec Require Import CstFullS5.
From RX.Spec Require Import Text CstFull CstFullS4.
From RX.Spec Require Import CstFullS6.
From RX.Proofs Require Import Tactics CstLex DetectorProofs CstFullTree.
From RX.Proofs Require CstFullDoc.
From RX.Proofs Require Import CstFullS4Sem CstFullS4Attr.
From RX.Proofs Require Import CstFullS5Ws CstFullS5Items CstFullS5Doc.
From RX.Proofs Require CstEntSem CstEntMeaning CstEntRejSem CstEntBuild CstFullS4Items CstFullS5 CstFullS6Doc CstFullS6Main.
Open Scope N_scope.

Notation Bal := CstEntRejSem.Bal.
Notation pieces_of := CstFullS4Items.pieces_of.

(* ------------------------------------------------------------------------------------------ *)
(* traces                                                                                     *)
(* ------------------------------------------------------------------------------------------ *)
Definition GoodT (tr : list Detector.lop) : Prop := Bal tr /\ ld_run ld_init tr = Some ld_init.

Lemma GoodT_nil : GoodT [].
Proof. split; [constructor|reflexivity]. Qed.

Lemma GoodT_app a c : GoodT a -> GoodT c -> GoodT (a ++ c).
Proof. intros [A1 A2] [C1 C2]. split; [constructor; assumption|]. rewrite ld_run_app, A2. exact C2. Qed.

Lemma GoodT_of tr : Bal tr -> limits_ok tr = true -> GoodT tr.
Proof.
  intros Hb Hl. split; [exact Hb|]. destruct (detector_complete_gen tr 0 0 Hl) as [st Hst]. change (mk 0 0) with ld_init in Hst.
  apply (ld_run_top tr ld_init st Hb Hst ld_ok_init).
Qed.

Lemma GoodT_limits tr : GoodT tr -> limits_ok tr = true.
Proof.
  intros [Hb Hr]. apply (detector_sound tr ld_init Hr). rewrite (CstEntRejSem.Bal_depth tr Hb). discriminate.
Qed.

(* ------------------------------------------------------------------------------------------ *)
(* regrouping blocks of character data                                                        *)
(* ------------------------------------------------------------------------------------------ *)
Definition head_nontext (l : list bitem) : Prop := match l with [] => True | i :: _ => is_btext i = false end.

Lemma regroup_block : forall ts r, ts <> [] -> forallb is_btext ts = true -> head_nontext r ->
  regroup (ts ++ r) = @IText bpieces (pieces_of ts) :: regroup r.
Proof.
  induction ts as [|t ts IH]; intros r Hne Ht Hr; [congruence|]. cbn [forallb] in Ht. apply andb_true_iff in Ht. destruct Ht as [H1 H2].
  destruct t as [? ? ? ?|p|?|? ? ?]; try discriminate. cbn [app CstFullS4Items.pieces_of].
  destruct ts as [|t2 ts'].
  - cbn [app CstFullS4Items.pieces_of]. rewrite app_nil_r. destruct r as [|i r0]; [reflexivity|].
    cbn [head_nontext] in Hr. rewrite (regroup_text_nontext _ _ _ Hr), (regroup_nontext _ _ Hr). reflexivity.
  - cbn [regroup]. fold regroup. rewrite (IH r ltac:(discriminate) H2 Hr). reflexivity.
Qed.

Lemma bden_pieces Q : bden (@IText bpieces Q) = if forallb E.is_mark Q then [] else [CstNs.IText (T.text_sem Q)].
Proof. cbn [den run_sem bmeaning]. destruct (forallb E.is_mark Q); reflexivity. Qed.

(* ------------------------------------------------------------------------------------------ *)
(* the declarations                                                                           *)
(* ------------------------------------------------------------------------------------------ *)
Definition etext (e : E.edecl) : Prop := exists ps, E.e_value e = E.EText ps.

Lemma pd_xdecl_of e : etext e -> pd (S6.xdecl_of e) = enc_decl e.
Proof. intros [ps Ev]. unfold pd, S6.xdecl_of, enc_decl. cbn [x_ws0 x_ws1 x_name x_ws2 x_quote x_value x_ws3]. rewrite Ev. reflexivity. Qed.

Lemma pd_xdecls_of l : Forall etext l -> map pd (map S6.xdecl_of l) = map enc_decl l.
Proof. induction 1 as [|e r He _ IH]; [reflexivity|]. cbn [map]. rewrite (pd_xdecl_of e He), IH. reflexivity. Qed.

Lemma udecl_s_etext e : wf_udecl_s e = true -> etext e.
Proof.
  unfold wf_udecl_s. rewrite !andb_true_iff. intros [[_ Hv] _]. unfold etext. destruct (E.e_value e); [eauto|discriminate].
Qed.

Lemma wf_xdecl_of e : wf_udecl_s e = true -> wf_xdecl_s (S6.xdecl_of e) = true.
Proof.
  intros H. destruct (udecl_s_etext e H) as [ps Ev]. unfold wf_udecl_s in H. unfold wf_xdecl_s, wf_xvalue_s, S6.xdecl_of.
  cbn [x_ws0 x_ws1 x_name x_ws2 x_quote x_value x_ws3]. rewrite Ev in *. cbn [r_xvalue]. exact H.
Qed.

Lemma r_xdecl_of e : r_xdecl (S6.xdecl_of e) = E.r_decl (enc_decl e).
Proof.
  unfold r_xdecl, E.r_decl, S6.xdecl_of, enc_decl. cbn [x_ws0 x_ws1 x_name x_ws2 x_quote x_value x_ws3 E.e_ws0 E.e_ws1 E.e_name E.e_ws2 E.e_quote E.e_value E.e_ws3].
  destruct (E.e_value e); reflexivity.
Qed.

Lemma pieces_of_app a c : pieces_of (a ++ c) = pieces_of a ++ pieces_of c.
Proof.
  induction a as [|i a IH]; [reflexivity|]. cbn [app CstFullS4Items.pieces_of]. rewrite IH.
  destruct i; try reflexivity. rewrite app_assoc. reflexivity.
Qed.

(* ------------------------------------------------------------------------------------------ *)
(* values, runs, items                                                                        *)
(* ------------------------------------------------------------------------------------------ *)
Section Items.
Variable ges : list E.edecl.
Hypothesis Hges : Forall etext ges.

Notation decls5 := (map enc_decl ges).
Notation tb5 := (E.level decls5 E.max_level).
Notation M5 := (ents_meaning tb5).
Notation decls4 := (map S6.xdecl_of ges).
Notation tb4 := (level decls4 E.max_level).
Notation bdens := (CstFullTree.dens bpieces bmeaning).
Notation dens5 := (CstFullTree.dens epieces M5).

Lemma ps_eq fa ie ps : E.inline_ps (ptable tb4) fa ie ps = E.inline_ps tb5 fa ie ps.
Proof. rewrite inline_ps_level, (pd_xdecls_of ges Hges). reflexivity. Qed.

Lemma balT5 : forall k, CstEntRejSem.BalT (E.level decls5 k).
Proof.
  induction k as [|k IH]; intros n v Hl; rewrite CstEntMeaning.lookup_level in Hl; [discriminate|].
  destruct (CstEntSem.first_decl decls5 n) as [d0|]; [|discriminate]. apply (CstEntRejSem.bal_value (E.level decls5 k) IH _ _ Hl).
Qed.

Lemma yitems_text k n yv : ylookup (level decls4 k) n = Some yv ->
  exists q, y_items yv = [@IText bpieces q] /\ y_pieces yv = Some q.
Proof.
  rewrite ylookup_level. destruct k as [|k']; [discriminate|].
  destruct (first_xdecl decls4 n) as [d0|] eqn:Ef; [|discriminate]. intros Hv.
  unfold first_xdecl in Ef. apply find_some in Ef. destruct Ef as [Hin _].
  apply in_map_iff in Hin. destruct Hin as (e & <- & He). rewrite Forall_forall in Hges. destruct (Hges e He) as [ps Ev].
  unfold S6.xdecl_of in Hv. cbn [x_value] in Hv. rewrite Ev in Hv. cbn [inline_value] in Hv.
  destruct (E.inline_ps _ false true (enc_epieces ps)) as [x|]; cbn [E.obind] in Hv; [|discriminate].
  injection Hv as <-. eexists. split; reflexivity.
Qed.

Lemma run_embed m : forall ps Q tr, E.inline_ps (ptable tb4) false m ps = Some (Q, tr) ->
  exists its, inline_run tb4 m ps = Some (its, tr) /\ forallb is_btext its = true /\ pieces_of its = Q /\ (ps <> [] -> its <> []).
Proof.
  induction ps as [|p ps IH]; intros Q tr H.
  - cbn [E.inline_ps] in H. injection H as <- <-. exists []. repeat split. intros X; congruence.
  - destruct p as [p|n]; cbn [E.inline_ps andb] in H.
    + destruct (E.inline_ps (ptable tb4) false m ps) as [[Q' tr']|] eqn:Er; [|discriminate]. cbn [E.obind fst snd] in H. injection H as <- <-.
      destruct (IH Q' tr' eq_refl) as (its' & E1 & E2 & E3 & _).
      exists (@IText bpieces [p] :: its'). cbn [inline_run]. rewrite E1. cbn [E.obind fst snd forallb is_btext CstFullS4Items.pieces_of app].
      rewrite E2, E3. repeat split. discriminate.
    + rewrite lookup_ptable in H. destruct (ylookup tb4 n) as [yv|] eqn:Ey; [|discriminate]. cbn [E.obind E.x_pieces E.x_trace] in H.
      destruct (yitems_text _ _ _ Ey) as (q & Ei & Ep). rewrite Ep in H. cbn [E.obind] in H.
      destruct (E.inline_ps (ptable tb4) false m ps) as [[Q' tr']|] eqn:Er; [|discriminate]. cbn [E.obind fst snd] in H. injection H as <- <-.
      destruct (IH Q' tr' eq_refl) as (its' & E1 & E2 & E3 & _).
      exists (bmark :: y_items yv ++ bmark :: its'). cbn [inline_run]. rewrite Ey. cbn [E.obind]. rewrite E1. cbn [E.obind fst snd].
      split; [reflexivity|]. rewrite Ei. cbn [app forallb is_btext bmark CstFullS4Items.pieces_of]. rewrite E2, E3.
      split; [reflexivity|]. split; [reflexivity|discriminate].
Qed.

Lemma entry_embed (e : uentry) : wf_entry_s M5 e = true ->
  wf_uentry_s false e = true /\
  exists e' tr, inline_entry tb4 false e = Some (e', tr) /\ GoodT tr /\
    x_entry bpieces T.value_sem e' = x_entry epieces (val_sem M5) e /\ E.crlf_split_ok (e_value bpieces e') = true.
Proof.
  unfold wf_entry_s. rewrite !andb_true_iff. intros [[Hl Hv] Hn].
  cbn [wf_val ents_meaning] in Hv. unfold wf_eval in Hv. apply andb_true_iff in Hv. destruct Hv as [Hw Hi].
  split; [unfold wf_uentry_s; rewrite Hl, Hw, Hn; reflexivity|].
  destruct (E.inline_ps tb5 true false (enc_epieces (e_value epieces e))) as [[Q tr]|] eqn:Ei; [|discriminate].
  apply andb_true_iff in Hi. destruct Hi as [Hlim Hcr].
  assert (HG : GoodT tr) by (apply GoodT_of; [apply (CstEntRejSem.bal_ps tb5 (balT5 _) _ _ _ _ _ Ei)|exact Hlim]).
  destruct e as [l n v|l p v]; cbn [e_value] in *; cbn [inline_entry]; rewrite ps_eq, Ei; cbn [E.obind fst snd];
    eexists; eexists; (split; [reflexivity|]); (split; [exact HG|]); cbn [x_entry e_value val_sem ents_meaning]; unfold eval_sem; rewrite Ei; split; [reflexivity|exact Hcr|reflexivity|exact Hcr].
Qed.

Lemma entries_embed (es : list uentry) : forallb (wf_entry_s M5) es = true ->
  forallb (wf_uentry_s false) es = true /\
  exists es' tr, inline_entries tb4 false es = Some (es', tr) /\ GoodT tr /\
    map (x_entry bpieces T.value_sem) es' = map (x_entry epieces (val_sem M5)) es /\
    forallb (fun e => E.crlf_split_ok (e_value bpieces e)) es' = true.
Proof.
  induction es as [|e es IH]; intros H.
  - split; [reflexivity|]. exists [], []. repeat split. apply GoodT_nil.
  - cbn [forallb] in H. apply andb_true_iff in H. destruct H as [H1 H2].
    destruct (entry_embed e H1) as (W1 & e' & t1 & E1 & G1 & X1 & C1). destruct (IH H2) as (W2 & es' & t2 & E2 & G2 & X2 & C2).
    split; [cbn [forallb]; rewrite W1, W2; reflexivity|].
    exists (e' :: es'), (t1 ++ t2). cbn [inline_entries]. rewrite E1. cbn [E.obind]. rewrite E2. cbn [E.obind fst snd].
    split; [reflexivity|]. split; [apply GoodT_app; assumption|]. cbn [map forallb]. rewrite X1, X2, C1, C2. split; reflexivity.
Qed.

Definition head_ok (cs : list uitem) (l : list bitem) : Prop :=
  match cs with [] => l = [] | c :: _ => is_text epieces c = false -> head_nontext l end.

Definition EmbI (i : uitem) : Prop := wf_item_s M5 i = true ->
  wf_uitem_s false i = true /\
  exists its tr, inline_item tb4 false i = Some (its, tr) /\ GoodT tr /\
    if is_text epieces i
    then its <> [] /\ forallb is_btext its = true /\ bden (@IText bpieces (pieces_of its)) = den M5 i /\
         E.crlf_split_ok (pieces_of its) = true
    else exists i', its = [i'] /\ is_btext i' = false /\ bden i' = den M5 i /\ provisos_item i' = true.

Definition EmbL (cs : list uitem) : Prop := wf_items_s epieces M5 cs = true -> no_adjacent_text epieces cs = true ->
  forallb (wf_uitem_s false) cs = true /\
  exists l tr, inline_items tb4 false cs = Some (l, tr) /\ GoodT tr /\
    bdens (regroup l) = dens5 cs /\ forallb provisos_item (regroup l) = true /\ head_ok cs l.

Lemma EmbL_of cs : Forall EmbI cs -> EmbL cs.
Proof.
  induction 1 as [|c r Hc _ IH]; intros Hwf Hna.
  - split; [reflexivity|]. exists [], []. repeat split. apply GoodT_nil.
  - cbn [wf_items_s] in Hwf. apply andb_true_iff in Hwf. destruct Hwf as [Hw1 Hw2].
    assert (Hna2 : no_adjacent_text epieces r = true).
    { destruct r as [|c2 r']; [reflexivity|]. cbn [no_adjacent_text] in Hna. apply andb_true_iff in Hna. apply Hna. }
    destruct (Hc Hw1) as (W1 & its & t1 & E1 & G1 & P1). destruct (IH Hw2 Hna2) as (W2 & l' & t2 & E2 & G2 & D2 & V2 & K2).
    split; [cbn [forallb]; rewrite W1, W2; reflexivity|].
    exists (its ++ l'), (t1 ++ t2). cbn [inline_items]. rewrite E1. cbn [E.obind]. rewrite E2. cbn [E.obind fst snd].
    split; [reflexivity|]. split; [apply GoodT_app; assumption|]. cbn [CstFullTree.dens].
    destruct (is_text epieces c) eqn:Et.
    + destruct P1 as (Hne & Ht & Hd & Hcr).
      assert (Hh : head_nontext l').
      { destruct r as [|c2 r']; [cbn [head_ok] in K2; rewrite K2; exact Logic.I|]. cbn [head_ok] in K2. apply K2.
        cbn [no_adjacent_text] in Hna. apply andb_true_iff in Hna. destruct Hna as [Hna _]. rewrite Et in Hna. cbn [andb] in Hna.
        apply negb_true_iff in Hna. exact Hna. }
      rewrite (regroup_block its l' Hne Ht Hh). cbn [CstFullTree.dens forallb provisos_item]. rewrite Hd, D2, Hcr, V2.
      split; [reflexivity|]. split; [reflexivity|]. cbn [head_ok]. intros X. rewrite Et in X. discriminate X.
    + destruct P1 as (i' & -> & Hnt & Hd & Hp). cbn [app]. rewrite (regroup_nontext _ _ Hnt). cbn [CstFullTree.dens forallb]. rewrite Hd, D2, Hp, V2.
      split; [reflexivity|]. split; [reflexivity|]. cbn [head_ok head_nontext]. intros _. exact Hnt.
Qed.

Lemma EmbI_all : forall i, EmbI i.
Proof.
  intros i. induction i as [n a w|n a w cs w2 IH|r|bs|t s v] using fitem_ind; intros Hwf.
  - (* empty element *)
    rewrite wf_item_elem_s in Hwf. rewrite !andb_true_iff in Hwf. destruct Hwf as [[[Hn Ha] Hw] _].
    destruct (entries_embed a Ha) as (Wa & a' & ta & Ea & Ga & Xa & Ca).
    split; [cbn [wf_uitem_s]; rewrite Hn, Wa, Hw; reflexivity|].
    rewrite inline_item_elem, Ea. cbn [E.obind fst snd]. eexists. eexists. split; [reflexivity|]. split; [exact Ga|].
    cbn [is_text]. eexists. split; [reflexivity|]. split; [reflexivity|]. split.
    + rewrite !den_elem. change (val_sem bmeaning) with T.value_sem. rewrite Xa. reflexivity.
    + cbn [provisos_item]. rewrite Ca. reflexivity.
  - (* element with content *)
    rewrite wf_item_elem_s in Hwf. rewrite !andb_true_iff in Hwf. destruct Hwf as [[[Hn Ha] Hw] [[Hw2 Hna] Hcs]].
    destruct (entries_embed a Ha) as (Wa & a' & ta & Ea & Ga & Xa & Ca).
    destruct (EmbL_of cs IH Hcs Hna) as (Wc & l & tc & Ec & Gc & Dc & Vc & _).
    split.
    { rewrite CstFullS6Text.wf_uitem_elem, Hn, Wa, Hw, Hw2, Hna. rewrite <- CstFullS6Text.wf_uitems_forallb. exact Wc. }
    rewrite inline_item_elem, Ea. cbn [E.obind]. rewrite Ec. cbn [E.obind fst snd]. eexists. eexists. split; [reflexivity|].
    split; [apply GoodT_app; assumption|]. cbn [is_text]. eexists. split; [reflexivity|]. split; [reflexivity|]. split.
    + rewrite !den_elem. change (val_sem bmeaning) with T.value_sem. rewrite Xa, Dc. reflexivity.
    + cbn [provisos_item]. rewrite Ca. cbn [andb].
      clear - Vc. induction (regroup l) as [|x y IHy]; [reflexivity|]. cbn [forallb] in Vc. apply andb_true_iff in Vc. destruct Vc as [V1 V2].
      rewrite V1. exact (IHy V2).
  - (* a run *)
    cbn [wf_item_s wf_run ents_meaning] in Hwf. unfold wf_erun in Hwf. rewrite !andb_true_iff in Hwf. destruct Hwf as [[Hne Hw] Hi].
    split; [cbn [wf_uitem_s]; rewrite Hne, Hw; reflexivity|].
    destruct (E.inline_ps tb5 false false (enc_epieces r)) as [[Q tr]|] eqn:Ei; [|discriminate].
    apply andb_true_iff in Hi. destruct Hi as [Hlim Hcr].
    assert (Ei' : E.inline_ps (ptable tb4) false false (enc_epieces r) = Some (Q, tr)) by (rewrite ps_eq; exact Ei).
    destruct (run_embed false _ _ _ Ei') as (its & E1 & E2 & E3 & E4).
    exists its, tr. cbn [inline_item]. split; [exact E1|].
    split; [apply GoodT_of; [apply (CstEntRejSem.bal_ps tb5 (balT5 _) _ _ _ _ _ Ei)|exact Hlim]|].
    cbn [is_text]. split; [apply E4; destruct r; [discriminate|unfold enc_epieces; cbn [map]; discriminate]|].
    split; [exact E2|]. rewrite E3. split; [|exact Hcr].
    rewrite bden_pieces. cbn [den run_sem ents_meaning]. unfold erun_sem. rewrite Ei. destruct (forallb E.is_mark Q); reflexivity.
  - split; [exact Hwf|]. exists [@IComment bpieces bs], []. split; [reflexivity|]. split; [apply GoodT_nil|].
    cbn [is_text]. eexists. repeat split.
  - split; [exact Hwf|]. exists [@IPI bpieces t s v], []. split; [reflexivity|]. split; [apply GoodT_nil|].
    cbn [is_text]. eexists. repeat split.
Qed.

End Items.

(* ------------------------------------------------------------------------------------------ *)
(* the DOCTYPE                                                                                *)
(* ------------------------------------------------------------------------------------------ *)
Lemma ge6_doctype_of t : ge_decls6 (S6.doctype_of t) = map S6.xdecl_of (ge_decls t).
Proof.
  unfold ge_decls6, subset_decls6, ge_decls, subset_decls, S6.doctype_of. cbn [z_subset]. destruct (t_subset t) as [u|]; [|reflexivity].
  cbn [zu_decls]. induction (u_decls u) as [|s r IH]; [reflexivity|]. cbn [map flat_map]. rewrite IH, map_app. f_equal.
  destruct s; reflexivity.
Qed.

Lemma misc6_doctype_of t : subset_misc6 (S6.doctype_of t) = subset_misc t.
Proof.
  unfold subset_misc6, subset_decls6, subset_misc, subset_decls, S6.doctype_of. cbn [z_subset]. destruct (t_subset t) as [u|]; [|reflexivity].
  cbn [zu_decls]. induction (u_decls u) as [|s r IH]; [reflexivity|]. cbn [map flat_map]. rewrite IH. f_equal.
  destruct s; reflexivity.
Qed.

Lemma r_sdecls_of ds : flat_map r_sdecl6 (map S6.sdecl_of ds) = flat_map r_sdecl ds.
Proof.
  induction ds as [|s r IH]; [reflexivity|]. cbn [map flat_map]. rewrite IH. f_equal.
  destruct s; cbn [S6.sdecl_of r_sdecl6 r_sdecl]; try reflexivity. apply r_xdecl_of.
Qed.

Lemma r_doctype_of t : r_doctype6 (S6.doctype_of t) = r_doctype t.
Proof.
  unfold r_doctype6, r_doctype, S6.doctype_of. cbn [z_ws1 z_name z_ws2 z_ext z_subset]. do 5 f_equal.
  destruct (t_subset t) as [u|]; [|reflexivity]. cbn [r_opt]. unfold r_subset6, r_subset. cbn [zu_decls zu_ws3 zu_ws4].
  rewrite r_sdecls_of. reflexivity.
Qed.

Lemma wf_doctype_of t : wf_doctype t = true -> wf_doctype6 (S6.doctype_of t) = true /\ Forall etext (ge_decls t).
Proof.
  unfold wf_doctype, wf_doctype6, S6.doctype_of, ge_decls, subset_decls. cbn [z_ws1 z_name z_ws2 z_ext z_subset].
  rewrite !andb_true_iff. intros [[[[H1 Hn] H2] He] Hs].
  destruct (t_subset t) as [u|]; cbn [wf_opt] in *; [|repeat split; try assumption; constructor].
  unfold wf_subset in Hs. unfold wf_subset6. cbn [zu_decls zu_ws3 zu_ws4]. rewrite !andb_true_iff in Hs |- *. destruct Hs as [[Hd H3] H4].
  assert (G : forallb wf_sdecl6 (map S6.sdecl_of (u_decls u)) = true /\
              Forall etext (flat_map (fun s => match s with SEntity e => [e] | _ => [] end) (u_decls u))).
  { clear - Hd. induction (u_decls u) as [|s r IH]; [split; [reflexivity|constructor]|]. cbn [forallb] in Hd. apply andb_true_iff in Hd.
    destruct Hd as [Hs Hr]. destruct (IH Hr) as [I1 I2]. cbn [map forallb flat_map]. rewrite I1, andb_true_r. split.
    - destruct s; cbn [S6.sdecl_of wf_sdecl6 is_sentity negb andb]; try exact Hs. apply wf_xdecl_of. exact Hs.
    - apply Forall_app. split; [|exact I2]. destruct s; try constructor; [|constructor]. apply udecl_s_etext. exact Hs. }
  destruct G as [G1 G2]. repeat split; assumption.
Qed.

Lemma misc_den_any (M : meaning epieces) (i : uitem) : is_misc epieces i = true -> den M i = bden (S4.misc_item i).
Proof. destruct i; try discriminate; reflexivity. Qed.

Lemma flat_den_misc (M : meaning epieces) (l : list uitem) : forallb (is_misc epieces) l = true ->
  flat_map (den M) l = flat_map bden (map S4.misc_item l).
Proof.
  induction l as [|i r IH]; intros H; [reflexivity|]. cbn [forallb] in H. apply andb_true_iff in H. destruct H as [H1 H2].
  cbn [map flat_map]. rewrite (misc_den_any M i H1), (IH H2). reflexivity.
Qed.

(* ------------------------------------------------------------------------------------------ *)
(* the theorem                                                                                *)
(* ------------------------------------------------------------------------------------------ *)
Definition ges5 (d : S5.doc) : list E.edecl := match S5.x_dtd d with Some g => ge_decls (S5.g_dtd g) | None => [] end.

Lemma decls5_ges d : CstFullS5.decls5 d = map enc_decl (ges5 d).
Proof. unfold CstFullS5.decls5, ges5. destruct (S5.x_dtd d); reflexivity. Qed.

Lemma decls6_of_s5 d : S6.decls (S6.of_s5 d) = map S6.xdecl_of (ges5 d).
Proof. unfold S6.decls, S6.of_s5, ges5. cbn [S6.x_dtd]. destruct (S5.x_dtd d) as [g|]; [|reflexivity]. cbn [S6.g_dtd]. apply ge6_doctype_of. Qed.

Lemma prolog_of_s5 d : S6.prolog_items (S6.of_s5 d) = S5.prolog_items d.
Proof.
  unfold S6.prolog_items, S5.prolog_items, S6.of_s5. cbn [S6.x_dtd]. destruct (S5.x_dtd d) as [g|]; [|reflexivity].
  cbn [S6.g_before S6.g_dtd]. rewrite misc6_doctype_of. reflexivity.
Qed.

Theorem s5_in_s6 : forall d : S5.doc, S5.wf_doc d = true ->
  S6.wf_doc (S6.of_s5 d) = true /\ S6.render (S6.of_s5 d) = S5.render d /\ S6.sem (S6.of_s5 d) = S5.sem d /\
  S6.has_dtd (S6.of_s5 d) = S5.has_dtd d.
Proof.
  intros d Hwf. destruct (CstFullS5.s5_parts d Hwf) as (Hx & Hg & Hm).
  assert (Hges : Forall etext (ges5 d) /\ X5.wf_opt S6.wf_dtd_part (S6.x_dtd (S6.of_s5 d)) = true).
  { unfold ges5, S6.of_s5. cbn [S6.x_dtd]. destruct (S5.x_dtd d) as [g|]; cbn [wf_opt] in *; [|split; [constructor|reflexivity]].
    unfold S5.wf_dtd_part in Hg. rewrite !andb_true_iff in Hg. destruct Hg as [[G0 Gb] Gt]. destruct (wf_doctype_of _ Gt) as [T1 T2].
    split; [exact T2|]. unfold S6.wf_dtd_part. cbn [S6.g_ws0 S6.g_before S6.g_dtd]. rewrite G0, Gb, T1. reflexivity. }
  destruct Hges as [Hges Hg6].
  rewrite decls5_ges in Hm.
  set (M := ents_meaning (E.level (map enc_decl (ges5 d)) E.max_level)) in *.
  pose proof Hm as Hm0. unfold wf_main_s in Hm. rewrite !andb_true_iff in Hm. destruct Hm as [[[[[M1 M2] M3] M4] M5] M6].
  destruct (d_root (S5.x_main d)) as [name es ws body| | |] eqn:Er; try discriminate.
  destruct (EmbI_all (ges5 d) Hges (IElem name es ws body) M4) as (Wr & its & tr & Ei & Gt & Pr).
  cbn [is_text] in Pr. destruct Pr as (root' & -> & Hnt & Hden & Hprov).
  assert (Einl : S4.inline (S6.core (S6.of_s5 d)) = Some (CstFullS6Doc.cI (S6.of_s5 d) root', tr)).
  { unfold S4.inline. change (S4.table (S6.core (S6.of_s5 d))) with (level (S6.decls (S6.of_s5 d)) E.max_level).
    change (S4.x_main (S6.core (S6.of_s5 d))) with (S5.x_main d). rewrite decls6_of_s5, Er, Ei. reflexivity. }
  assert (Em : S5.meaning_of d = M) by (rewrite CstFullS5.s5_meaning, decls5_ges; reflexivity).
  split; [|split; [|split]].
  - unfold S6.wf_doc. rewrite Einl. change (S6.x_decl (S6.of_s5 d)) with (S5.x_decl d). change (S6.x_main (S6.of_s5 d)) with (S5.x_main d).
    rewrite Hx, Hg6, M1, M2, M3, M5, Er, Wr. cbn [andb d_root CstFullS6Doc.cI].
    rewrite (GoodT_limits tr Gt), Hprov, Hden. cbn [andb]. exact M6.
  - unfold S6.render, S5.render, S6.of_s5. cbn [S6.x_bom S6.x_decl S6.x_dtd S6.x_main]. do 2 f_equal.
    destruct (S5.x_dtd d) as [g|]; [|reflexivity]. cbn [r_opt]. f_equal. unfold S6.r_dtd_part, S5.r_dtd_part.
    cbn [S6.g_ws0 S6.g_before S6.g_dtd]. rewrite r_doctype_of. reflexivity.
  - unfold S6.sem, S5.sem, S4.sem. rewrite Einl, prolog_of_s5, Em. cbn [S4.x_before S6.core map flat_map app].
    assert (Hpm : forallb (is_misc epieces) (S5.prolog_items d) = true).
    { pose proof (CstFullS6Main.prolog_misc (S6.of_s5 d)) as X. rewrite prolog_of_s5 in X. apply X.
      unfold S6.wf_doc. rewrite Einl. change (S6.x_decl (S6.of_s5 d)) with (S5.x_decl d). change (S6.x_main (S6.of_s5 d)) with (S5.x_main d).
      rewrite Hx, Hg6, M1, M2, M3, M5, Er, Wr. cbn [andb d_root CstFullS6Doc.cI].
      rewrite (GoodT_limits tr Gt), Hprov, Hden. cbn [andb]. exact M6. }
    rewrite (flat_den_misc M _ Hpm). f_equal.
    unfold CstFull.sem, doc_items. cbn [CstFullS6Doc.cI d_before d_root d_after]. change (S6.x_main (S6.of_s5 d)) with (S5.x_main d). rewrite Er.
    f_equal. rewrite !flat_map_app. cbn [flat_map]. rewrite Hden. f_equal; [|f_equal].
    + rewrite !map_map. cbn [fst]. rewrite <- (map_map fst S4.misc_item). apply eq_sym. apply flat_den_misc.
      clear - M3. induction (d_before (S5.x_main d)) as [|[i w] r IH]; [reflexivity|]. cbn [forallb fst snd map] in *.
      rewrite !andb_true_iff in M3. destruct M3 as [[Hi _] Hr]. rewrite (CstFullS6Doc.misc_is i Hi), (IH Hr). reflexivity.
    + rewrite !map_map. cbn [snd]. rewrite <- (map_map snd S4.misc_item). apply eq_sym. apply flat_den_misc.
      clear - M5. induction (d_after (S5.x_main d)) as [|[w i] r IH]; [reflexivity|]. cbn [forallb fst snd map] in *.
      rewrite !andb_true_iff in M5. destruct M5 as [[_ Hi] Hr]. rewrite (CstFullS6Doc.misc_is i Hi), (IH Hr). reflexivity.
  - unfold S6.has_dtd, S5.has_dtd, S6.of_s5. cbn [S6.x_dtd]. destruct (S5.x_dtd d); reflexivity.
Qed.
Print Assumptions s5_in_s6.
