(* Proofs/CstRangeG5Dtd.v -- C13 / C18 on the capstone fragment, stage S5: the DOCTYPE with its internal subset
   (CstFullS5Dtd.v once more): the entities are recorded with the places of their values, and the
   comments and PIs of the subset are nodes with the observations of CstRangeG5Items.v. *)
From Coq Require Import Ascii String.
From Coq Require Import List NArith PeanoNat Bool Lia ZifyBool ZifyN ZifyNat.
Import ListNotations.
From RX Require Import Generated.
From RX.Model Require Import Base CharClass Stream Tokenizer Doc Builder Parse.
From RX.Spec Require Cst Scope CstNs CstU CstText CstEnt Chars.
From RX.Spec Require Import Text CstFull CstFullS5.
From RX.Proofs Require Import Tactics CstLex CstBuild CstNsLex CstNsView CstNsBuild CstULex CstFullLex CstFullBuild CstFullTree CstFullDoc.
From RX.Proofs Require Import CstEntSem CstEntDtd CstFullS2Sem CstFullS3Sem CstFullS3Text CstFullS3Dtd CstFullS3.
From RX.Proofs Require Import CstFullS5Ws CstFullS5Lex CstFullS5Items CstFullS5Doc CstFullS5Dtd.
From RX.Proofs Require CstItems CstNsItems CstNsDoc CstUItems CstDoc.
From RX.Proofs Require Import CstRangeDefs CstRangeBuild CstRangeTDefs CstRangeTBuild CstRangeEDefs CstRangeFDefs CstRangeFBuild CstRangeFItems CstRangeFDoc.
From RX.Proofs Require Import CstRangeGDefs CstRangeGS3 CstRangeG5Defs CstRangeG5Frags.
From RX.Proofs Require CstRangeG5Items.
Open Scope N_scope.

Ltac clia := repeat match goal with H : @eq bool _ true |- _ => clear H end; lia.

(* the entities recorded for the internal subset whose first item is written at q *)
Fixpoint sents (q : N) (ds : list sdecl) : list entity :=
  match ds with
  | [] => []
  | s :: r =>
    match s with
    | SEntity e => decl_entity q (enc_decl e) :: sents (q + blen (r_sdecl s)) r
    | _ => sents (q + blen (r_sdecl s)) r
    end
  end.

Lemma vt_of_sents : forall ds q, vt_of (map enc_decl (sges ds)) (sents q ds) = svtable_at q ds.
Proof.
  induction ds as [|s r IH]; intros q; [reflexivity|].
  destruct s; cbn [sges flat_map app map sents svtable_at]; fold (sges r); try apply IH.
  unfold vt_of. cbn [combine map fst snd]. fold (vt_of (map enc_decl (sges r)) (sents (q + blen (r_sdecl (SEntity e))) r)).
  rewrite IH. f_equal. unfold decl_entity, decl_value_off, nlen, blen. cbv zeta. cbn [en_value sl sl_start]. f_equal. f_equal. lia.
Qed.

Section BuildR.
Variable text : bytes.
Variable D : list Scope.binding.
Hypothesis HD : forall l, NoDup l -> incl l D -> N.of_nat (length l) <= 65535.
Variable vstore : N -> val epieces -> tstore.
Variable run_nodes : N -> run epieces -> list ((N * N) * tstore).

Notation W := (CstLex.W text).
Notation WV := (CstULex.WV text).
Notation st := (CstLex.st text).
Notation ev := (tok_ev text).
Notation CIn := (CstNsBuild.CIn text D).
Notation kmn := (CstNsBuild.kmn text).
Notation node_room := CstNsItems.node_room.
Notation dens0 := (CstFullTree.dens epieces M0).
Notation evf_comment_r := (CstRangeG5Items.evf_comment_r epieces M0 vstore run_nodes CstFullS3.m0_val_lex text D HD [] (m0_val_norm_r text vstore)).
Notation evf_pi_r := (CstRangeG5Items.evf_pi_r epieces M0 vstore run_nodes CstFullS3.m0_val_lex text D HD [] (m0_val_norm_r text vstore)).
Notation kmn_Forall2_ext := (CstFullS5Items.kmn_Forall2_ext text D HD).
Notation ExtraF := (CstRangeFItems.ExtraF epieces M0 vstore run_nodes text).
Notation ExtraF_app := (CstRangeFItems.ExtraF_app epieces M0 vstore run_nodes text).
Notation ExtraF_nil := (CstRangeFItems.ExtraF_nil epieces M0 vstore run_nodes text).
Notation sdecl_head := (CstFullS5Dtd.sdecl_head).
Notation tok_entity := (CstFullS5Dtd.tok_entity text).

Lemma subset_loop_ok_r start ws3 ws4 post : forall ds q c fuel,
  WV q (flat_map r_sdecl ds ++ ws3 ++ [93] ++ ws4 ++ [62] ++ post) ->
  forallb wf_sdecl ds = true -> wf_s ws3 = true -> wf_s ws4 = true -> (length ds < fuel)%nat ->
  CIn [] c -> c_after_text c = [] -> node_room c (NT.nsizes (dens0 (smisc ds))) ->
  exists c' K es',
    parse_doctype_loop text context ev fuel start (st q (flat_map r_sdecl ds ++ ws3 ++ [93] ++ ws4 ++ [62] ++ post)) c =
    Ok (st (q + blen (flat_map r_sdecl ds) + blen ws3 + 1 + blen ws4 + 1) post, c') /\
    Stepn (set_entities c (c_entities c ++ es')) c' K [] /\
    Forall2 (uent_ok text) (map enc_decl (sges ds)) es' /\
    CIn [] c' /\ c_after_text c' = [] /\ d_ns_tree (c_doc c') = d_ns_tree (c_doc c) /\
    Forall2 (kmn (c_doc c')) K (NT.tag_list [] (c_parent_id c) (len_N (d_nodes (c_doc c))) (dens0 (smisc ds))) /\
    es' = sents q ds /\ ExtraF (smisc_at q ds) c c' K [].
Proof.
  induction ds as [|s ds IH]; intros q c fuel HWv Hds H3 H4 Hf I Hat NR; pose proof (WV_W _ _ _ HWv) as HW.
  - cbn [flat_map app sges smisc map CstFullTree.dens NT.tag_list] in *. destruct fuel as [|fu]; [lia|].
    exists c, [], []. split; [|split; [rewrite app_nil_r, set_entities_same; apply Stepn_refl|
                                  split; [constructor|split; [exact I|split; [exact Hat|split; [reflexivity|split; [constructor|split; [reflexivity|apply ExtraF_nil]]]]]]]].
    cbn [parse_doctype_loop]. rewrite (at_end_st text) by exact HW.
    replace (match ws3 ++ 93 :: ws4 ++ 62 :: post with [] => true | _ => false end) with false by (destruct ws3; reflexivity).
    cbv zeta. change (ws3 ++ 93 :: ws4 ++ 62 :: post) with (ws3 ++ [93] ++ ws4 ++ [62] ++ post) in *.
    rewrite (skip_spaces_st text); [|exact HW|apply s_spaces; exact H3|reflexivity].
    pose proof (W_app _ _ _ _ HW) as HW1. cbn [app] in HW1 |- *.
    rewrite !(starts_with_st text) by exact HW1.
    change (prefix_b (b "<!ENTITY") (93 :: ws4 ++ 62 :: post)) with false.
    change (prefix_b (b "<!--") (93 :: ws4 ++ 62 :: post)) with false.
    change (prefix_b (b "<?") (93 :: ws4 ++ 62 :: post)) with false.
    change (prefix_b (b "]") (93 :: ws4 ++ 62 :: post)) with true. cbv iota.
    rewrite (advance1_st text) by exact HW1. cbn [bind].
    pose proof (W_cons _ _ _ _ HW1) as HW2.
    change (ws4 ++ 62 :: post) with (ws4 ++ [62] ++ post) in *.
    rewrite (skip_spaces_st text); [|exact HW2|apply s_spaces; exact H4|reflexivity].
    pose proof (W_app _ _ _ _ HW2) as HW3. cbn [app] in HW3 |- *.
    rewrite (curr_byte_opt_st text) by exact HW3. change (62 =? 62) with true. cbv iota.
    rewrite (advance1_st text) by exact HW3. cbn [bind]. rewrite blen_nil, N.add_0_r. reflexivity.
  - cbn [forallb] in Hds. apply andb_true_iff in Hds. destruct Hds as [Hs Hds].
    cbn [flat_map] in *. rewrite <- app_assoc in HW, HWv |- *.
    destruct fuel as [|fu]; [lia|]. cbn [length] in Hf. cbn [parse_doctype_loop].
    rewrite (at_end_st text) by exact HW.
    set (rest := flat_map r_sdecl ds ++ ws3 ++ [93] ++ ws4 ++ [62] ++ post) in *.
    destruct (sdecl_head s rest Hs) as (w0 & l0 & Eh & Hw0).
    replace (match r_sdecl s ++ rest with [] => true | _ => false end) with false by (rewrite Eh; destruct w0; reflexivity).
    cbv zeta.
    pose proof (WV_app _ _ _ _ HWv (sdecl_valid s Hs)) as HWn.
    assert (Hf' : (length ds < fu)%nat) by lia.
    destruct s as [e|ws0 ws1 wsp name ws2 def ws3'|ws0 ws1 name ws2 x nd ws3'|ws0 k body|ws0 i]; cbn [wf_sdecl sges smisc flat_map map app] in Hs, NR, IH |- *; fold (sges ds) in *; fold (smisc ds) in *.
    + (* a general internal entity *)
      cbn [r_sdecl] in *.
      destruct (udecl_of_s e Hs) as [Hlex Hok].
      destruct (decl_starts (enc_decl e) rest) as [l El].
      assert (Esplit : E.r_decl (enc_decl e) ++ rest = E.e_ws0 (enc_decl e) ++ E.kw_entity ++ l).
      { rewrite <- El. unfold E.r_decl. rewrite <- !app_assoc, skipn_len_app. reflexivity. }
      rewrite Esplit. rewrite Esplit in HW.
      rewrite (skip_spaces_st text); [|exact HW|apply s_spaces; apply (us_ws0 _ Hlex)|reflexivity].
      pose proof (W_app _ _ _ _ HW) as HW1.
      rewrite (starts_with_st text) by exact HW1. change (b "<!ENTITY") with E.kw_entity. rewrite prefix_b_app_same.
      rewrite <- El.
      rewrite (lex_entity_decl_s text context ev q (enc_decl e) rest c HWv Hlex). rewrite tok_entity. cbn [bind].
      set (en := decl_entity q (enc_decl e)) in *.
      set (c1 := set_entities c (c_entities c ++ [{| en_name := en_name en; en_value := en_value en |}])).
      destruct (IH (q + blen (E.r_decl (enc_decl e))) c1 fu HWn Hds H3 H4 Hf') as (c' & K & es' & E & S & Fe & I' & A' & Tr & F & Es & XX).
      { apply CstFullS3.CIn_set_entities. exact I. } { exact Hat. } { exact NR. }
      fold rest in E. rewrite E. exists c', K, (en :: es'). split.
      { f_equal. f_equal. f_equal. rewrite blen_app. clear. lia. }
      split.
      { replace (set_entities c (c_entities c ++ en :: es')) with (set_entities c1 (c_entities c1 ++ es')); [exact S|].
        unfold c1. cbn [set_entities c_entities c_opt c_ns_start_idx c_cur_attrs c_awaiting c_parent_prefixes c_after_text c_parent_id c_tag_name c_entity_floor c_ld c_doc].
        rewrite <- app_assoc. cbn [app]. destruct en. reflexivity. }
      split; [constructor; [apply (decl_ent_ok_s text q (enc_decl e) rest HWv Hlex)|exact Fe]|].
      split; [exact I'|]. split; [exact A'|]. split; [exact Tr|]. split; [exact F|].
      split; [cbn [sents]; rewrite Es; reflexivity|exact XX].
    + (* a parameter entity *)
      rewrite !andb_true_iff in Hs. destruct Hs as [[[[[[H0 H1] Hp] Hn] H2] Hd] H3'].
      rewrite r_sparam_eq in HW, HWv |- *.
      rewrite (skip_spaces_st text); [|exact HW|apply s_spaces; exact H0|reflexivity].
      pose proof (WV_lit _ _ _ _ HWv (s_lit _ H0)) as HWa. pose proof (WV_W _ _ _ HWa) as HWa'.
      rewrite (starts_with_st text) by exact HWa'. change (b "<!ENTITY") with E.kw_entity. rewrite prefix_param.
      rewrite (lex_param text context ev _ ws1 wsp name ws2 def ws3' rest c HWa H1 Hp Hn H2 Hd H3'). cbn [bind].
      assert (Epos : q + blen ws0 + blen (r_param ws1 wsp name ws2 def ws3' rest) - blen rest =
                     q + blen (r_sdecl (SParam ws0 ws1 wsp name ws2 def ws3'))).
      { unfold r_param. cbn [r_sdecl]. repeat (rewrite ?blen_app, ?blen_cons, ?blen_nil). clear. lia. }
      rewrite Epos.
      destruct (IH _ c fu HWn Hds H3 H4 Hf' I Hat NR) as (c' & K & es' & E & S & Fe & I' & A' & Tr & F & Es & XX).
      fold rest in E. rewrite E. exists c', K, es'. split.
      { f_equal. f_equal. f_equal. rewrite blen_app. clear. lia. }
      split; [exact S|]. split; [exact Fe|]. split; [exact I'|]. split; [exact A'|]. split; [exact Tr|]. split; [exact F|].
      split; [exact Es|exact XX].
    + (* an external entity *)
      rewrite !andb_true_iff in Hs. destruct Hs as [[[[[[H0 H1] Hn] H2] Hx] Hnd] H3'].
      rewrite r_sext_eq in HW, HWv |- *.
      rewrite (skip_spaces_st text); [|exact HW|apply s_spaces; exact H0|reflexivity].
      pose proof (WV_lit _ _ _ _ HWv (s_lit _ H0)) as HWa. pose proof (WV_W _ _ _ HWa) as HWa'.
      rewrite (starts_with_st text) by exact HWa'. change (b "<!ENTITY") with E.kw_entity. rewrite prefix_ext.
      rewrite (lex_ext text context ev _ ws1 name ws2 x nd ws3' rest c HWa H1 Hn H2 Hx Hnd H3'). cbn [bind].
      assert (Epos : q + blen ws0 + blen (r_ext ws1 name ws2 x nd ws3' rest) - blen rest =
                     q + blen (r_sdecl (SExternal ws0 ws1 name ws2 x nd ws3'))).
      { unfold r_ext. cbn [r_sdecl]. repeat (rewrite ?blen_app, ?blen_cons, ?blen_nil). clear. lia. }
      rewrite Epos.
      destruct (IH _ c fu HWn Hds H3 H4 Hf' I Hat NR) as (c' & K & es' & E & S & Fe & I' & A' & Tr & F & Es & XX).
      fold rest in E. rewrite E. exists c', K, es'. split.
      { f_equal. f_equal. f_equal. rewrite blen_app. clear. lia. }
      split; [exact S|]. split; [exact Fe|]. split; [exact I'|]. split; [exact A'|]. split; [exact Tr|]. split; [exact F|].
      split; [exact Es|exact XX].
    + (* a skipped declaration *)
      rewrite !andb_true_iff in Hs. destruct Hs as [[H0 _] Hb].
      rewrite r_smarkup_eq in HW, HWv |- *.
      rewrite (skip_spaces_st text); [|exact HW|apply s_spaces; exact H0|destruct k; reflexivity].
      pose proof (WV_lit _ _ _ _ HWv (s_lit _ H0)) as HWa. pose proof (WV_W _ _ _ HWa) as HWa'.
      rewrite !(starts_with_st text) by exact HWa'.
      assert (Ek : prefix_b (b "<!ENTITY") (kw_of k ++ utf8s body ++ [62] ++ rest) = false /\
                   prefix_b (b "<!--") (kw_of k ++ utf8s body ++ [62] ++ rest) = false /\
                   prefix_b (b "<?") (kw_of k ++ utf8s body ++ [62] ++ rest) = false /\
                   prefix_b (b "]") (kw_of k ++ utf8s body ++ [62] ++ rest) = false /\
                   prefix_b (b "<!ELEMENT") (kw_of k ++ utf8s body ++ [62] ++ rest) || prefix_b (b "<!ATTLIST") (kw_of k ++ utf8s body ++ [62] ++ rest)
                   || prefix_b (b "<!NOTATION") (kw_of k ++ utf8s body ++ [62] ++ rest) = true).
      { destruct k; cbn [kw_of].
        - change (b "<!ELEMENT") with kw_element. rewrite prefix_b_app_same. repeat split; reflexivity.
        - change (b "<!ATTLIST") with kw_attlist. rewrite prefix_b_app_same. rewrite orb_true_r. repeat split; reflexivity.
        - change (b "<!NOTATION") with kw_notation. rewrite prefix_b_app_same. rewrite orb_true_r. repeat split; reflexivity. }
      destruct Ek as (K1 & K2 & K3 & K4 & K5). rewrite K1, K2, K3, K4, K5.
      rewrite (lex_markup text _ k body rest HWa Hb).
      destruct (IH _ c fu HWn Hds H3 H4 Hf' I Hat NR) as (c' & K & es' & E & S & Fe & I' & A' & Tr & F & Es & XX).
      fold rest in E.
      replace (q + blen ws0 + blen (kw_of k) + blen (utf8s body) + 1) with (q + blen (r_sdecl (SMarkup ws0 k body)))
        by (cbn [r_sdecl]; repeat (rewrite ?blen_app, ?blen_cons, ?blen_nil); clear; lia).
      rewrite E. exists c', K, es'. split.
      { f_equal. f_equal. f_equal. rewrite blen_app. clear. lia. }
      split; [exact S|]. split; [exact Fe|]. split; [exact I'|]. split; [exact A'|]. split; [exact Tr|]. split; [exact F|].
      split; [exact Es|exact XX].
    + (* a comment or a PI *)
      rewrite !andb_true_iff in Hs. destruct Hs as [H0 Hi].
      rewrite r_smisc_eq in HW, HWv |- *.
      pose proof (WV_lit _ _ _ _ HWv (s_lit _ H0)) as HWa. pose proof (WV_W _ _ _ HWa) as HWa'.
      destruct i as [? ? ? ?|?|bs|t sp v]; try discriminate.
      * assert (R : room c).
        { apply (CstFullS5Items.node_room_room _ _ NR). cbn [CstFullTree.dens]. rewrite nsizes_app. cbn [den]. rewrite nsizes_one.
          pose proof (NT.nsize_pos (CstNs.IComment (utf8s bs))). clear - H. lia. }
        rewrite (skip_spaces_st text); [|exact HW|apply s_spaces; exact H0|reflexivity].
        rewrite !(starts_with_st text) by exact HWa'.
        replace (prefix_b (b "<!ENTITY") (r_item (@IComment epieces bs) ++ rest)) with false by reflexivity.
        replace (prefix_b (b "<!--") (r_item (@IComment epieces bs) ++ rest)) with true by reflexivity.
        destruct (evf_comment_r [] bs (q + blen ws0) rest c Hi HWa I R) as (c1 & K1 & E1 & S1 & I1 & A1 & _ & F1 & Tr1 & XX1).
        rewrite E1. cbn [bind].
        pose proof (CstFullS5Items.Stepn_nodes_len _ _ _ _ S1) as Ln1.
        rewrite (CstFullS5Items.Forall2_len_N _ _ _ F1) in Ln1. unfold len_N at 3 in Ln1. rewrite NT.tag_list_len in Ln1.
        pose proof (CstFullS5Items.Stepn_opt _ _ _ _ (proj1 S1)) as Lo1.
        replace (q + blen ws0 + blen (r_item (@IComment epieces bs))) with (q + blen (r_sdecl (SMisc ws0 (@IComment epieces bs)))) in *
          by (cbn [r_sdecl]; rewrite blen_app; clear; lia).
        destruct (IH _ c1 fu HWn Hds H3 H4 Hf' I1 A1) as (c' & K & es' & E & S & Fe & I' & A' & Tr & F & Es & XX).
        { unfold CstNsItems.node_room in *. rewrite Ln1, Lo1. cbn [CstFullTree.dens] in NR. rewrite nsizes_app in NR. clia. }
        fold rest in E. rewrite E. exists c', (K1 ++ K), es'. split.
        { f_equal. f_equal. f_equal. rewrite blen_app. clear. lia. }
        pose proof (sn_keep _ _ _ _ (proj1 S1)) as (_ & Ee & _).
        split.
        { apply (Stepn_trans _ (set_entities c1 (c_entities c ++ es')) _ K1 K [] []).
          - apply Stepn_set_entities. exact S1.
          - rewrite <- Ee. exact S. }
        split; [exact Fe|]. split; [exact I'|]. split; [exact A'|]. split; [rewrite Tr, Tr1; reflexivity|].
        split; [|split; [exact Es|cbn [smisc_at]; exact (ExtraF_app _ _ _ _ _ _ _ _ _ XX1 XX)]].
        cbn [CstFullTree.dens]. rewrite CstNsDoc.tag_list_app. apply Forall2_app.
        -- apply (kmn_Forall2_ext (c_doc c1)); [|exact F1].
           pose proof (Step0n_DocExt _ _ _ _ (proj1 S)) as X. exact X.
        -- destruct S1 as (_ & P1 & _). rewrite P1, Ln1 in F. exact F.
      * assert (R : room c).
        { apply (CstFullS5Items.node_room_room _ _ NR). cbn [CstFullTree.dens]. rewrite nsizes_app. cbn [den]. rewrite nsizes_one.
          pose proof (NT.nsize_pos (CstNs.IPI (utf8s t) sp (utf8s v))). clear - H. lia. }
        rewrite (skip_spaces_st text); [|exact HW|apply s_spaces; exact H0|reflexivity].
        rewrite !(starts_with_st text) by exact HWa'.
        replace (prefix_b (b "<!ENTITY") (r_item (@IPI epieces t sp v) ++ rest)) with false by reflexivity.
        replace (prefix_b (b "<!--") (r_item (@IPI epieces t sp v) ++ rest)) with false by reflexivity.
        replace (prefix_b (b "<?") (r_item (@IPI epieces t sp v) ++ rest)) with true by reflexivity.
        destruct (evf_pi_r [] t sp v (q + blen ws0) rest c Hi HWa I R) as (c1 & K1 & E1 & S1 & I1 & A1 & _ & F1 & Tr1 & XX1).
        rewrite E1. cbn [bind].
        pose proof (CstFullS5Items.Stepn_nodes_len _ _ _ _ S1) as Ln1.
        rewrite (CstFullS5Items.Forall2_len_N _ _ _ F1) in Ln1. unfold len_N at 3 in Ln1. rewrite NT.tag_list_len in Ln1.
        pose proof (CstFullS5Items.Stepn_opt _ _ _ _ (proj1 S1)) as Lo1.
        replace (q + blen ws0 + blen (r_item (@IPI epieces t sp v))) with (q + blen (r_sdecl (SMisc ws0 (@IPI epieces t sp v)))) in *
          by (cbn [r_sdecl]; rewrite blen_app; clear; lia).
        destruct (IH _ c1 fu HWn Hds H3 H4 Hf' I1 A1) as (c' & K & es' & E & S & Fe & I' & A' & Tr & F & Es & XX).
        { unfold CstNsItems.node_room in *. rewrite Ln1, Lo1. cbn [CstFullTree.dens] in NR. rewrite nsizes_app in NR. clia. }
        fold rest in E. rewrite E. exists c', (K1 ++ K), es'. split.
        { f_equal. f_equal. f_equal. rewrite blen_app. clear. lia. }
        pose proof (sn_keep _ _ _ _ (proj1 S1)) as (_ & Ee & _).
        split.
        { apply (Stepn_trans _ (set_entities c1 (c_entities c ++ es')) _ K1 K [] []).
          - apply Stepn_set_entities. exact S1.
          - rewrite <- Ee. exact S. }
        split; [exact Fe|]. split; [exact I'|]. split; [exact A'|]. split; [rewrite Tr, Tr1; reflexivity|].
        split; [|split; [exact Es|cbn [smisc_at]; exact (ExtraF_app _ _ _ _ _ _ _ _ _ XX1 XX)]].
        cbn [CstFullTree.dens]. rewrite CstNsDoc.tag_list_app. apply Forall2_app.
        -- apply (kmn_Forall2_ext (c_doc c1)); [|exact F1].
           pose proof (Step0n_DocExt _ _ _ _ (proj1 S)) as X. exact X.
        -- destruct S1 as (_ & P1 & _). rewrite P1, Ln1 in F. exact F.
Qed.


Notation r_ext_opt := CstFullS5Dtd.r_ext_opt.
Notation dt_tail := CstFullS5Dtd.dt_tail.
Notation doctype_start_ok := (CstFullS5Dtd.doctype_start_ok text).
Notation r_doctype_eq := CstFullS5Dtd.r_doctype_eq.

Lemma doctype_ok_r p t post c : WV p (r_doctype t ++ post) -> wf_doctype t = true ->
  CIn [] c -> c_after_text c = [] -> node_room c (NT.nsizes (dens0 (subset_misc t))) ->
  exists c' K es',
    parse_doctype text context ev (st p (r_doctype t ++ post)) c = Ok (st (p + blen (r_doctype t)) post, c') /\
    Stepn (set_entities c (c_entities c ++ es')) c' K [] /\
    Forall2 (uent_ok text) (map enc_decl (ge_decls t)) es' /\
    CIn [] c' /\ c_after_text c' = [] /\ d_ns_tree (c_doc c') = d_ns_tree (c_doc c) /\
    Forall2 (kmn (c_doc c')) K (NT.tag_list [] (c_parent_id c) (len_N (d_nodes (c_doc c))) (dens0 (subset_misc t))) /\
    es' = sents (subset_offset p t) (subset_decls t) /\ ExtraF (smisc_at (subset_offset p t) (subset_decls t)) c c' K [].
Proof.
  intros HWv Hwf I Hat NR. destruct (doctype_start_ok p t post HWv Hwf) as [Est HWt]. cbv zeta in Est, HWt.
  set (pt := p + 9 + blen (t_ws1 t) + blen (utf8s (t_name t)) + blen (t_ws2 t) + blen (r_ext_opt (t_ext t))) in *.
  assert (Elen : p + blen (r_doctype t) = pt + blen (dt_tail t post) - blen post).
  { assert (E : blen (r_doctype t ++ post) = blen (r_doctype t) + blen post) by apply blen_app.
    rewrite r_doctype_eq in E. unfold pt. repeat (rewrite ?blen_app in E). change (blen E.kw_doctype) with 9 in E.
    clear - E. lia. }
  unfold parse_doctype. cbv zeta. rewrite Est. cbn [bind]. clear Est.
  unfold wf_doctype in Hwf. rewrite !andb_true_iff in Hwf. destruct Hwf as [_ Hsub].
  pose proof (WV_W _ _ _ HWt) as HWt'.
  unfold subset_misc, ge_decls, subset_decls in *. unfold dt_tail in *.
  destruct (t_subset t) as [u|]; cbn [r_opt wf_opt] in *.
  - (* an internal subset *)
    unfold wf_subset in Hsub. rewrite !andb_true_iff in Hsub. destruct Hsub as [[Hds H3] H4].
    unfold r_subset in *. rewrite <- !app_assoc in *. cbn [app] in HWt, HWt' |- *.
    rewrite (CstDoc.skip_spaces_none text) by (try exact HWt'; reflexivity).
    rewrite (curr_byte_opt_st text) by exact HWt'. change (91 =? 62) with false. cbv iota.
    rewrite (advance1_st text) by exact HWt'. cbn [bind CstLex.st s_rest].
    pose proof (WV_cons _ _ _ _ HWt ltac:(lia)) as HWu.
    change (flat_map r_sdecl (u_decls u) ++ u_ws3 u ++ 93 :: u_ws4 u ++ 62 :: post)
      with (flat_map r_sdecl (u_decls u) ++ u_ws3 u ++ [93] ++ u_ws4 u ++ [62] ++ post) in *.
    destruct (subset_loop_ok_r p (u_ws3 u) (u_ws4 u) post (u_decls u) (pt + 1) c
                (S (length (flat_map r_sdecl (u_decls u) ++ u_ws3 u ++ [93] ++ u_ws4 u ++ [62] ++ post))) HWu Hds H3 H4)
      as (c' & K & es' & E & S & Fe & I' & A' & Tr & F & Es & XX); try assumption.
    { rewrite app_length. pose proof (sdecls_len _ Hds). lia. }
    fold (st (pt + 1) (flat_map r_sdecl (u_decls u) ++ u_ws3 u ++ [93] ++ u_ws4 u ++ [62] ++ post)).
    change (s_pos (st p (r_doctype t ++ post))) with p. rewrite E. exists c', K, es'. split.
    { f_equal. f_equal. f_equal. rewrite Elen. repeat (rewrite ?blen_app, ?blen_cons, ?blen_nil). clear. lia. }
    split; [exact S|]. split; [exact Fe|]. split; [exact I'|]. split; [exact A'|]. split; [exact Tr|]. split; [exact F|].
    split; [exact Es|exact XX].
  - (* no internal subset *)
    cbn [app] in HWt, HWt' |- *.
    rewrite (CstDoc.skip_spaces_none text) by (try exact HWt'; reflexivity).
    rewrite (curr_byte_opt_st text) by exact HWt'. change (62 =? 62) with true. cbv iota.
    rewrite (advance1_st text) by exact HWt'. cbn [bind].
    exists c, [], []. split.
    { f_equal. f_equal. f_equal. rewrite Elen. cbn [app]. rewrite blen_cons. clear. lia. }
    split; [rewrite app_nil_r, set_entities_same; apply Stepn_refl|].
    split; [constructor|]. split; [exact I|]. split; [exact Hat|]. split; [reflexivity|]. split; [constructor|]. split; [reflexivity|apply ExtraF_nil].
Qed.

End BuildR.

Print Assumptions doctype_ok_r.
